package main

import (
	"encoding/json"
	"errors"
	"flag"
	"fmt"
	"net"
	"os"
	"strings"
	"sync"
	"sync/atomic"
	"syscall"
	"time"

	"github.com/markkurossi/mpc/p2p"
)

// session is one mesh setup in this process.
type session struct {
	cs      caseSpec
	mu      sync.Mutex
	log     []string
	cnt     map[[2]int]int
	last    atomic.Int64
	nDelays atomic.Int64
	// number of parties inside a deliberate start/gap sleep of the schedule:
	// no hook event is expected from them, so silence is not a hang
	sleeping atomic.Int64
	marks    map[string]bool
}

// mark records a harness-side milestone (not part of the trace) that gates may wait for.
func (s *session) mark(m string) {
	s.mu.Lock()
	s.marks[m] = true
	s.mu.Unlock()
}

func (s *session) has(tok string) bool {
	s.mu.Lock()
	defer s.mu.Unlock()
	if s.marks[tok] {
		return true
	}
	for _, t := range s.log {
		if t == tok {
			return true
		}
	}
	return false
}

// gateAt blocks at a forced-schedule point until its release token exists.
func (s *session) gateAt(key string) {
	for _, g := range s.cs.Gates {
		if g.At != key {
			continue
		}
		dl := time.Now().Add(1500 * time.Millisecond)
		for !s.has(g.Until) && time.Now().Before(dl) {
			time.Sleep(100 * time.Microsecond)
		}
		s.last.Store(time.Now().UnixNano())
	}
}

var evIndex = map[string]int{"join": 1, "hello": 2, "dial": 3, "accept": 4, "accepted": 5, "info": 6}

func mix(z uint64) uint64 {
	z += 0x9E3779B97F4A7C15
	z = (z ^ (z >> 30)) * 0xBF58476D1CE4E5B9
	z = (z ^ (z >> 27)) * 0x94D049BB133111EB
	return z ^ (z >> 31)
}

// delay is a pure function of (delay seed, party, event kind, how many
// times this party reached this kind of point) and the profile.
func (s *session) delay(ev string, party int) time.Duration {
	ei, ok := evIndex[ev]
	if !ok {
		return 0
	}
	// the point inside acceptConn (between the check of need[k] and the store
	// of the accepted connection) is perturbed in profile midaccept only; all
	// other profiles delay only before dial / accept / hello / info (the
	// property's quantifier).
	if ev == "accepted" && s.cs.Profile != "midaccept" {
		return 0
	}
	s.mu.Lock()
	c := s.cnt[[2]int{party, ei}]
	s.cnt[[2]int{party, ei}] = c + 1
	s.mu.Unlock()
	h := mix(s.cs.DSeed ^ mix(uint64(party)<<40|uint64(ei)<<32|uint64(c)))
	max := uint64(s.cs.MaxDelUs)
	if max == 0 {
		max = 1
	}
	light := func() uint64 {
		if h&1 == 0 {
			return 0
		}
		return (h >> 8) % 500
	}
	var us uint64
	switch s.cs.Profile {
	case "none":
		us = 0
	case "light":
		us = light()
	case "heavy":
		us = (h >> 8) % max
	case "dialslow":
		if ev == "dial" || ev == "hello" {
			us = (h >> 8) % max
		}
	case "acceptslow":
		if ev == "accept" {
			us = (h >> 8) % max
		}
	case "oneslow":
		if party == s.cs.Slow {
			us = (h >> 8) % max
		} else {
			us = light() / 4
		}
	case "midaccept":
		if ev == "accepted" {
			us = 3000 + (h>>8)%max
		} else {
			us = light()
		}
	}
	return time.Duration(us) * time.Microsecond
}

func (s *session) add(tok string) {
	s.mu.Lock()
	s.log = append(s.log, tok)
	s.mu.Unlock()
}

// hook is installed as the p2p verif hook.  Events that the code raises
// while holding Network.m (lconnect, accdec, waitdone, gotinfo) are only
// logged; the other points may also sleep.  "accepted" is raised after the
// check of need[k] and before the store, "accdec" at need[k]-- after the
// store; "accstore" (after acceptConn returned) carries no information.
func (s *session) hook(ev string, a ...int) {
	s.last.Store(time.Now().UnixNano())
	arg := func(i int) int {
		if i < len(a) {
			return a[i]
		}
		return -1
	}
	switch ev {
	case "join":
		s.add(fmt.Sprintf("j.%d", arg(0)))
	case "lconnect":
		s.add("L")
	case "hello":
		s.add(fmt.Sprintf("h.%d", arg(0)))
	case "accepted":
		s.add(fmt.Sprintf("t.%d.%d.%d", arg(0), arg(1), arg(2)))
	case "accdec":
		s.add(fmt.Sprintf("a.%d.%d.%d", arg(0), arg(1), arg(2)))
	case "waitdone":
		s.add(fmt.Sprintf("w.%d.%d.%d", arg(0), arg(1), arg(2)))
	case "info":
		s.add(fmt.Sprintf("i.%d.%d", arg(1), arg(2)))
	case "gotinfo":
		s.add(fmt.Sprintf("g.%d.%d.%d", arg(0), arg(1), arg(2)))
	case "dial":
		s.add(fmt.Sprintf("d.%d.%d.%d", arg(0), arg(1), arg(2)))
	}
	if len(s.cs.Gates) > 0 {
		key := ev
		for _, x := range a {
			key += fmt.Sprintf(".%d", x)
		}
		s.gateAt(key)
	}
	if d := s.delay(ev, arg(0)); d > 0 {
		s.nDelays.Add(1)
		time.Sleep(d)
		s.last.Store(time.Now().UnixNano())
	}
}

func (s *session) trace() []string {
	s.mu.Lock()
	defer s.mu.Unlock()
	return append([]string(nil), s.log...)
}

func addr(port int) string { return fmt.Sprintf("127.0.0.1:%d", port) }

func inUse(err error) bool {
	return err != nil && (errors.Is(err, syscall.EADDRINUSE) || strings.Contains(err.Error(), "address already in use"))
}

type tableSnap struct {
	ids   []int
	conns [][]*p2p.Conn
}

// complete: peers 0..n-1 in order, self without connections, every other
// peer with exactly m non-nil connections.
func (t tableSnap) complete(self, n, m int) (bool, string) {
	if len(t.ids) != n {
		return false, fmt.Sprintf("party %d knows %d peers %v, want %d", self, len(t.ids), t.ids, n)
	}
	for idx, id := range t.ids {
		if id != idx {
			return false, fmt.Sprintf("party %d peer list %v", self, t.ids)
		}
		if id == self {
			if len(t.conns[idx]) != 0 {
				return false, fmt.Sprintf("party %d has %d connections to itself", self, len(t.conns[idx]))
			}
			continue
		}
		if len(t.conns[idx]) != m {
			return false, fmt.Sprintf("party %d has %d connection slots for peer %d, want %d", self, len(t.conns[idx]), id, m)
		}
		for k, c := range t.conns[idx] {
			if c == nil {
				return false, fmt.Sprintf("party %d: Peers[%d].Conns[%d] is nil", self, id, k)
			}
		}
	}
	return true, ""
}

func oneMain(args []string) int {
	fs := flag.NewFlagSet("one", flag.ExitOnError)
	var spec string
	var verbose bool
	fs.StringVar(&spec, "case", "", "case spec JSON")
	fs.BoolVar(&verbose, "v", false, "print the trace one event per line on stderr")
	fs.Parse(args)
	var cs caseSpec
	if err := json.Unmarshal([]byte(spec), &cs); err != nil {
		fmt.Fprintln(os.Stderr, "bad case spec:", err)
		return 2
	}
	// p2p logs with fmt.Printf: keep the real stdout for the result only.
	out := os.Stdout
	if dn, err := os.OpenFile(os.DevNull, os.O_WRONLY, 0); err == nil {
		os.Stdout = dn
	}
	res := runSession(cs)
	if verbose {
		fmt.Fprintln(os.Stderr, strings.ReplaceAll(res.Trace, ",", "\n"))
	}
	b, _ := json.Marshal(res)
	out.Write(b)
	out.Write([]byte("\n"))
	return 0
}

// freeBlock finds a block of n listening ports that are free right now.
func freeBlock(port, n int) (int, int) {
	retries := 0
	for ; retries < 200; retries++ {
		ok := true
		for i := 0; i < n && ok; i++ {
			l, err := net.Listen("tcp", addr(port+i))
			if err != nil {
				ok = false
			} else {
				l.Close()
			}
		}
		if ok {
			return port, retries
		}
		port = 10000 + ((port-10000)/8*8+8*37)%22000
	}
	return port, retries
}

func runSession(cs caseSpec) *caseResult {
	t0 := time.Now()
	var res *caseResult
	port := cs.Port
	total := 0
	for attempt := 0; attempt < 6; attempt++ {
		var r int
		port, r = freeBlock(port, cs.N)
		total += r
		var retry bool
		res, retry = runOnce(cs, port)
		if !retry {
			break
		}
		// EADDRINUSE in mid-session: other goroutines of this attempt may still
		// be running, so a clean retry needs a fresh process.
		total++
		res = &caseResult{Trace: "-", End: "retry"}
		break
	}
	res.Retries = total
	res.WallMs = int(time.Since(t0).Milliseconds())
	return res
}

type actorDone struct {
	id  int
	err error
	at  tableSnap
	pan string
}

func runOnce(cs caseSpec, port int) (*caseResult, bool) {
	res := &caseResult{Counters: map[string]int{}}
	fail := func(sig string, d map[string]any) {
		d["sig"] = sig
		res.Fails = append(res.Fails, d)
	}
	n, m := cs.N, cs.M
	s := &session{cs: cs, cnt: map[[2]int]int{}, marks: map[string]bool{}}
	s.last.Store(time.Now().UnixNano())
	p2p.SetVerifHook(s.hook)

	nets := make([]*p2p.Network, n)
	leader, err := p2p.Create(addr(port), n, m)
	if err != nil {
		if inUse(err) {
			return nil, true
		}
		fail("c19-create-error", map[string]any{"err": err.Error()})
		res.End = "error"
		return res, false
	}
	nets[0] = leader

	done := make(chan actorDone, n)
	var dr *dataRun
	if cs.Data != nil {
		dr = newDataRun(s)
	}
	var addrInUse atomic.Bool
	connect := func(id int) {
		d := actorDone{id: id}
		defer func() {
			if e := recover(); e != nil {
				d.pan = fmt.Sprint(e)
			}
			done <- d
		}()
		s.gateAt(fmt.Sprintf("connect.%d", id))
		d.err = nets[id].Connect()
		if d.err == nil {
			s.add(fmt.Sprintf("r.%d", id))
			ids, conns := nets[id].VerifConnTable()
			d.at = tableSnap{ids, conns}
			// data phase of this party: starts now, whatever the others are doing
			if dr != nil {
				dr.start(id, d.at)
			}
		}
		s.mark(fmt.Sprintf("snap.%d", id))
	}
	join := func(id int) error {
		nw, err := p2p.Join(addr(port), addr(port+id), id, m)
		if err != nil {
			if inUse(err) {
				addrInUse.Store(true)
			}
			return err
		}
		nets[id] = nw
		return nil
	}
	sleepUs := func(us int) {
		if us > 0 {
			s.sleeping.Add(1)
			time.Sleep(time.Duration(us) * time.Microsecond)
			s.last.Store(time.Now().UnixNano())
			s.sleeping.Add(-1)
		}
	}
	switch cs.Mode {
	case "seq":
		// as p2p's own test: all Joins one after the other (in the given
		// order), then every party's Connect concurrently.
		for _, id := range cs.Order {
			if err := join(id); err != nil {
				if addrInUse.Load() {
					return nil, true
				}
				fail("c19-join-error", map[string]any{"party": id, "err": err.Error()})
				res.End = "error"
				res.Trace = strings.Join(s.trace(), ",")
				return res, false
			}
		}
		for id := 0; id < n; id++ {
			go func(id int) {
				sleepUs(cs.StartUs[id])
				connect(id)
			}(id)
		}
	default:
		go func() {
			sleepUs(cs.StartUs[0])
			connect(0)
		}()
		for _, id := range cs.Order {
			go func(id int) {
				sleepUs(cs.StartUs[id])
				if err := join(id); err != nil {
					done <- actorDone{id: id, err: fmt.Errorf("join: %w", err)}
					return
				}
				sleepUs(cs.GapUs[id])
				connect(id)
			}(id)
		}
	}

	// wait: all returned, or no hook event for QuietMs, or overall deadline.
	returned := map[int]actorDone{}
	deadline := time.Now().Add(time.Duration(cs.DeadMs) * time.Millisecond)
	quiet := time.Duration(cs.QuietMs) * time.Millisecond
	tick := time.NewTicker(20 * time.Millisecond)
	defer tick.Stop()
	hang := ""
	for len(returned) < n && hang == "" {
		select {
		case d := <-done:
			returned[d.id] = d
			s.last.Store(time.Now().UnixNano())
		case now := <-tick.C:
			if s.sleeping.Load() == 0 && now.Sub(time.Unix(0, s.last.Load())) > quiet {
				hang = fmt.Sprintf("no progress for %v", quiet)
			} else if now.After(deadline) {
				hang = fmt.Sprintf("deadline %d ms", cs.DeadMs)
			}
		}
	}
	if addrInUse.Load() {
		return nil, true
	}
	res.Counters["delays_injected"] = int(s.nDelays.Load())

	// let accept goroutines that are inside acceptConn finish (bounded)
	settle := time.Now().Add(1500 * time.Millisecond)
	for time.Now().Before(settle) {
		nt, na := 0, 0
		for _, t := range s.trace() {
			if t[0] == 't' {
				nt++
			} else if t[0] == 'a' {
				na++
			}
		}
		if nt == na {
			break
		}
		time.Sleep(5 * time.Millisecond)
	}
	tr := s.trace()
	res.Trace = strings.Join(tr, ",")
	if res.Trace == "" {
		res.Trace = "-"
	}
	res.Counters["events"] = len(tr)
	res.End = "final"
	var errs []string
	for id := 0; id < n; id++ {
		d, ok := returned[id]
		if !ok {
			continue
		}
		if d.pan != "" {
			res.End = "error"
			fail("c19-panic", map[string]any{"party": id, "panic": d.pan})
		} else if d.err != nil {
			res.End = "error"
			errs = append(errs, fmt.Sprintf("party %d: %v", id, d.err))
		}
	}
	if len(errs) > 0 {
		fail("c19-connect-error", map[string]any{"kind": "connect-error", "errors": errs})
	}
	if hang != "" {
		var stuck []int
		for id := 0; id < n; id++ {
			if _, ok := returned[id]; !ok {
				stuck = append(stuck, id)
			}
		}
		if res.End == "final" {
			res.End = "deadlock"
		}
		fail("c19-hang", map[string]any{"kind": "hang", "why": hang, "not_returned": stuck})
		return res, false
	}
	if res.End != "final" {
		return res, false
	}

	// oracle 1: the table each party sees when its Connect returns
	for id := 0; id < n; id++ {
		if ok, why := returned[id].at.complete(id, n, m); !ok {
			fail("c19-incomplete-at-return", map[string]any{"kind": "incomplete-at-return", "party": id, "why": why})
			break
		}
	}
	// oracle 1b: the data every party sent from the moment its own Connect
	// returned has arrived on the matching connection of the peer
	if dr != nil {
		dr.wait()
		tr2 := s.trace()
		extra, ok := dr.judge(tr2, fail)
		tr2 = append(tr2, extra...)
		res.Trace = strings.Join(tr2, ",")
		res.Counters["events"] = len(tr2)
		res.Counters["data_streams"] = len(dr.streams)
		res.Counters["data_bytes_sent"] = int(dr.sent.Load())
		res.Counters["data_bytes_received"] = int(dr.rcvd.Load())
		res.Counters["data_streams_started_before_accept"], res.Counters["data_streams_flushed_before_accept"] = dr.earlyStreams(tr2)
		res.Data = fmt.Sprintf("%d/%d", dr.rcvd.Load(), dr.sent.Load())
		if !ok {
			return res, false
		}
	}
	// oracle 2: final tables + tagged ping on every connection
	tabs := make([]tableSnap, n)
	for id := 0; id < n; id++ {
		ids, conns := nets[id].VerifConnTable()
		tabs[id] = tableSnap{ids, conns}
		if ok, why := tabs[id].complete(id, n, m); !ok {
			fail("c19-table-shape", map[string]any{"party": id, "why": why})
			return res, false
		}
		for _, nd := range nets[id].VerifNeed() {
			if nd != 0 {
				fail("c19-need-nonzero", map[string]any{"party": id, "need": nets[id].VerifNeed()})
				break
			}
		}
	}
	// the same *Conn must not sit in two slots
	for id := 0; id < n; id++ {
		seen := map[*p2p.Conn]string{}
		for q := 0; q < n; q++ {
			for k, c := range tabs[id].conns[q] {
				slot := fmt.Sprintf("[%d][%d]", q, k)
				if prev, dup := seen[c]; dup {
					fail("c19-duplicated", map[string]any{"party": id, "slots": prev + " " + slot})
				}
				seen[c] = slot
			}
		}
	}
	type pingRes struct {
		p, q, k int
		got     int
		err     string
	}
	tag := func(p, q, k int) int { return 0x5000000 | p<<16 | q<<8 | k }
	pr := make(chan pingRes, n*n*m)
	cnt := 0
	for p := 0; p < n; p++ {
		for q := 0; q < n; q++ {
			if p == q {
				continue
			}
			for k := 0; k < m; k++ {
				cnt++
				go func(p, q, k int, c *p2p.Conn) {
					r := pingRes{p: p, q: q, k: k, got: -1}
					defer func() {
						if e := recover(); e != nil {
							r.err = fmt.Sprint("panic: ", e)
						}
						pr <- r
					}()
					if err := c.SendUint32(tag(p, q, k)); err != nil {
						r.err = err.Error()
						return
					}
					if err := c.Flush(); err != nil {
						r.err = err.Error()
						return
					}
					v, err := c.ReceiveUint32()
					if err != nil {
						r.err = err.Error()
						return
					}
					r.got = v
				}(p, q, k, tabs[p].conns[q][k])
			}
		}
	}
	timeout := time.After(5 * time.Second)
	got := 0
	bad := 0
loop:
	for got < cnt {
		select {
		case r := <-pr:
			got++
			want := tag(r.q, r.p, r.k)
			if r.err != "" {
				bad++
				fail("c19-ping-error", map[string]any{"at": []int{r.p, r.q, r.k}, "err": r.err})
			} else if r.got != want {
				bad++
				fail("c19-crosswired", map[string]any{"at_party": r.p, "slot_peer": r.q, "slot_k": r.k,
					"got_from": (r.got >> 16) & 0xff, "got_to": (r.got >> 8) & 0xff, "got_k": r.got & 0xff})
			}
			if bad > 4 {
				break loop
			}
		case <-timeout:
			fail("c19-ping-lost", map[string]any{"received": got, "expected": cnt})
			break loop
		}
	}
	res.Counters["pings"] = got
	res.Counters["connections"] = cnt / 2
	return res, false
}

// Command c19 drives the real p2p mesh setup (p2p.Create / p2p.Join /
// Network.Connect) on loopback TCP under seeded start orders and seeded
// delays injected through the `verif` hooks of package p2p, records the
// event trace of every session and evaluates property C19 directly on the
// real code: every Connect returns, every pair shares exactly m connections,
// a tagged ping sent on Peers[q].Conns[k] arrives on the peer's Conns[k]
// for the sender's id.
//
// usage: c19 mesh  -seed S -n N -tier T -ops F -out F -meta F [-par P]
//
//	c19 one   -case '<json caseSpec>'      (one session, result JSON on stdout)
//
// `mesh` runs every session in a child process (`one`) so that a hang can be
// killed and ports / goroutines never leak from one session into the next.
package main

import (
	"bytes"
	"context"
	"encoding/json"
	"flag"
	"fmt"
	"os"
	"os/exec"
	"strings"
	"sync"
	"sync/atomic"
	"time"

	"verifharness/hxlib"
)

// caseSpec fully determines one session (up to OS scheduling).
type caseSpec struct {
	Idx      int    `json:"idx"`
	N        int    `json:"n"`
	M        int    `json:"m"`
	Order    []int  `json:"order"`    // join order of the peers 1..n-1
	Mode     string `json:"mode"`     // seq | conc
	StartUs  []int  `json:"start_us"` // per party (index = id) delay before its first action
	GapUs    []int  `json:"gap_us"`   // per party delay between Join and Connect
	Profile  string `json:"profile"`  // delay profile
	DSeed    uint64 `json:"dseed"`    // seed of the delay table
	Slow     int    `json:"slow"`     // the slow party of profile oneslow
	Port     int    `json:"port"`     // first port of the block
	QuietMs  int    `json:"quiet_ms"` // no hook event for this long = hang
	DeadMs   int    `json:"dead_ms"`  // overall deadline
	MaxDelUs int    `json:"max_del_us"`
	// Gates force a schedule: the hook point At ("<event>.<args joined by .>")
	// blocks until the trace token or mark Until has been recorded.
	Gates  []gate `json:"gates,omitempty"`
	Strict bool   `json:"strict,omitempty"`
	Name   string `json:"name,omitempty"`
	// Late describes a long-delay session ("gap:6000" = one party calls
	// Connect 6000 ms after its Join, "start:" = one party joins that late
	// while the others already wait, "leader:" = the leader's Connect is late).
	Late string `json:"late,omitempty"`
	// Wide marks a session with many connections per pair (beyond 1..4).
	Wide bool `json:"wide,omitempty"`
	// Data: the data phase overlaps the setup phase - every party sends and
	// receives on all its connections as soon as its own Connect returned.
	Data *dataSpec `json:"data,omitempty"`
}

type gate struct {
	At    string `json:"at"`
	Until string `json:"until"`
}

// caseResult is what the child reports.
type caseResult struct {
	Trace    string           `json:"trace"`
	End      string           `json:"end"` // final | deadlock | error
	Fails    []map[string]any `json:"fails"`
	Counters map[string]int   `json:"counters"`
	Data     string           `json:"data,omitempty"` // bytes received/bytes sent of the data phase
	Retries  int              `json:"retries"`
	WallMs   int              `json:"wall_ms"`
}

var profiles = []string{"none", "light", "heavy", "dialslow", "acceptslow", "oneslow", "light", "midaccept"}

func genCase(r *hxlib.Rng, idx int, tier string) caseSpec {
	// every (n, m) combination of 2..6 x 1..4 in turn
	combo := idx % 20
	return genCaseNM(r, idx, tier, 2+combo%5, 1+(combo/5+idx/20)%4)
}

// genCaseNM: a session of n parties with m connections per pair; join order,
// start mode, start offsets and delay profile derive from r and idx.
func genCaseNM(r *hxlib.Rng, idx int, tier string, n, m int) caseSpec {
	cs := caseSpec{Idx: idx}
	cs.N = n
	cs.M = m
	peers := make([]int, 0, cs.N-1)
	for i := 1; i < cs.N; i++ {
		peers = append(peers, i)
	}
	for i := len(peers) - 1; i > 0; i-- {
		j := r.Intn(i + 1)
		peers[i], peers[j] = peers[j], peers[i]
	}
	cs.Order = peers
	cs.Profile = profiles[(idx/5)%len(profiles)]
	if idx%2 == 0 {
		cs.Mode = "conc"
	} else {
		cs.Mode = "seq"
	}
	cs.DSeed = r.U64()
	cs.Slow = r.Intn(cs.N)
	cs.StartUs = make([]int, cs.N)
	cs.GapUs = make([]int, cs.N)
	staggers := []int{0, 100, 1000, 4000}
	st := staggers[r.Intn(len(staggers))]
	for pos, id := range cs.Order {
		cs.StartUs[id] = pos*st + r.Intn(st/2+1)
		cs.GapUs[id] = r.Intn(st + 1)
	}
	// the leader's Connect: before, among or after the peers
	switch r.Intn(4) {
	case 0:
		cs.StartUs[0] = 0
	case 1:
		cs.StartUs[0] = cs.N*st + 3000
	default:
		cs.StartUs[0] = r.Intn(cs.N*st + 1)
	}
	cs.QuietMs = 4000
	cs.DeadMs = 25000
	cs.MaxDelUs = 4000
	if tier == "thorough" {
		cs.MaxDelUs = 12000
		cs.QuietMs = 6000
		cs.DeadMs = 60000
	}
	// two sessions out of three: the data phase overlaps the setup phase
	// (3 is coprime to the periods of (n, m), profile and start mode)
	if idx%3 != 0 {
		class := dataClasses[(idx/3)%len(dataClasses)]
		if idx%97 == 5 {
			class = "big"
		}
		cs.Data = genData(r, class, tier)
	}
	return cs
}

func genData(r *hxlib.Rng, class, tier string) *dataSpec {
	d := &dataSpec{Class: class, Seed: r.U64(), Bursts: 1 + r.Intn(3), Flush: []string{"end", "each"}[r.Intn(2)],
		QuietMs: 5000}
	if tier == "thorough" {
		d.QuietMs = 10000
	}
	return d
}

// genLate builds a session in which one party is late by far more than any
// plausible timeout; everything else runs without injected delays.
func genLate(r *hxlib.Rng, idx int, kind string, ms int, tier string) caseSpec {
	cs := genCase(r, idx, tier)
	cs.N = 3 + idx%2
	cs.M = 2
	cs.Order = cs.Order[:0]
	for i := 1; i < cs.N; i++ {
		cs.Order = append(cs.Order, i)
	}
	cs.Mode = "conc"
	cs.Profile = "none"
	cs.StartUs = make([]int, cs.N)
	cs.GapUs = make([]int, cs.N)
	late := 1 + r.Intn(cs.N-1)
	switch kind {
	case "gap":
		cs.GapUs[late] = ms * 1000
	case "start":
		cs.StartUs[late] = ms * 1000
	case "leader":
		cs.StartUs[0] = ms * 1000
	}
	cs.Late = fmt.Sprintf("%s:%d", kind, ms)
	cs.DeadMs += ms
	// the parties that are not late use their connections while the late one
	// has not even started to accept
	cs.Data = genData(r, []string{"tiny", "mixed", "kb"}[idx%3], tier)
	return cs
}

func main() {
	if len(os.Args) < 2 {
		fmt.Fprintln(os.Stderr, "usage: c19 mesh|one [flags]")
		os.Exit(2)
	}
	switch os.Args[1] {
	case "mesh":
		os.Exit(meshMain(os.Args[2:]))
	case "one":
		os.Exit(oneMain(os.Args[2:]))
	case "witness":
		os.Exit(witnessMain(os.Args[2:]))
	case "replay":
		os.Exit(replayMain(os.Args[2:]))
	default:
		fmt.Fprintf(os.Stderr, "unknown mode %q\n", os.Args[1])
		os.Exit(2)
	}
}

func meshMain(args []string) int {
	var par int
	var profile, late, wide string
	cf, o := hxlib.ParseCommon("c19", args, func(fs *flag.FlagSet) {
		fs.IntVar(&par, "par", 6, "sessions run in parallel (child processes)")
		fs.StringVar(&profile, "profile", "", "force one delay profile")
		fs.StringVar(&late, "late", "", "extra long-delay sessions, e.g. gap:6000,start:12000,leader:6000")
		fs.StringVar(&wide, "wide", "", "extra sessions with many connections per pair, n:m list, e.g. 2:17,3:64")
	})
	defer o.Close()
	rng := hxlib.NewRng(cf.Seed)
	self, err := os.Executable()
	if err != nil {
		panic(err)
	}
	specs := make([]caseSpec, 0, cf.N)
	pid := os.Getpid()
	for i := 0; i < cf.N; i++ {
		r := rng.Fork()
		cs := genCase(r, i, cf.Tier)
		if profile != "" {
			cs.Profile = profile
		}
		// port block: 8 ports per session, range 10000..31999, derived from the pid
		cs.Port = 10000 + ((pid*131+i)%2750)*8
		specs = append(specs, cs)
	}
	// long-delay sessions: appended (indices N..) but started first, so that
	// they sleep while the regular sessions run
	order := make([]int, 0, cf.N+8)
	if late != "" {
		for _, item := range strings.Split(late, ",") {
			var kind string
			var ms int
			if parts := strings.SplitN(item, ":", 2); len(parts) == 2 {
				kind = parts[0]
				fmt.Sscanf(parts[1], "%d", &ms)
			}
			if ms <= 0 || (kind != "gap" && kind != "start" && kind != "leader") {
				fmt.Fprintf(os.Stderr, "bad -late item %q\n", item)
				return 2
			}
			i := len(specs)
			cs := genLate(rng.Fork(), i, kind, ms, cf.Tier)
			cs.Port = 10000 + ((pid*131+i)%2750)*8
			specs = append(specs, cs)
			order = append(order, i)
		}
	}
	if wide != "" {
		for _, item := range strings.Split(wide, ",") {
			var n, m int
			if k, _ := fmt.Sscanf(item, "%d:%d", &n, &m); k != 2 || n < 2 || n > 8 || m < 1 || m > 256 {
				fmt.Fprintf(os.Stderr, "bad -wide item %q\n", item)
				return 2
			}
			i := len(specs)
			cs := genCaseNM(rng.Fork(), i, cf.Tier, n, m)
			cs.Wide = true
			cs.Data = nil
			if i%2 == 0 {
				cs.Data = genData(rng.Fork(), []string{"tiny", "small"}[(i/2)%2], cf.Tier)
			}
			cs.DeadMs += 200 * n * m
			cs.Port = 10000 + ((pid*131+i)%2750)*8
			specs = append(specs, cs)
			order = append(order, i)
		}
	}
	for i := 0; i < cf.N; i++ {
		order = append(order, i)
	}
	results := make([]*caseResult, len(specs))
	var wg sync.WaitGroup
	var failed atomic.Int64
	sem := make(chan struct{}, par)
	for _, i := range order {
		if cf.Only >= 0 && i != cf.Only {
			continue
		}
		wg.Add(1)
		sem <- struct{}{}
		// a failing session costs its timeouts: once enough sessions have
		// failed the remaining ones add nothing to the verdict
		if failed.Load() >= 6 {
			<-sem
			wg.Done()
			o.Count("sessions_skipped_after_6_failing_sessions")
			continue
		}
		go func(i int) {
			defer wg.Done()
			defer func() { <-sem }()
			results[i] = runChild(self, specs[i])
			if len(results[i].Fails) > 0 {
				failed.Add(1)
			}
		}(i)
	}
	wg.Wait()
	for i, res := range results {
		if res == nil {
			continue
		}
		emit(o, i, specs[i], res)
	}
	return 0
}

// opLine / resultLine: the op line of a recorded session and the real
// outcome in the form the model driver prints.
func opLine(cs caseSpec, res *caseResult) string {
	op := fmt.Sprintf("c19 %d %d %s", cs.N, cs.M, res.Trace)
	if cs.Strict {
		op += " strict"
	}
	if cs.Data != nil {
		op += " data"
	}
	return op
}

func resultLine(cs caseSpec, res *caseResult) string {
	r := "run=ok end=" + res.End
	if cs.Data != nil && res.Data != "" {
		r += " data=" + res.Data
	}
	return r
}

func emit(o *hxlib.Out, i int, cs caseSpec, res *caseResult) {
	{
		spec, _ := json.Marshal(cs)
		o.Op(opLine(cs, res), resultLine(cs, res))
		o.Count("sessions")
		if cs.Data != nil {
			o.Count("data_sessions")
			o.Count("data_class_" + cs.Data.Class)
			o.Count("data_flush_" + cs.Data.Flush)
			o.Count(fmt.Sprintf("data_bursts_%d", cs.Data.Bursts))
			if res.Counters["data_streams_flushed_before_accept"] > 0 {
				o.Count("data_sessions_with_data_flushed_before_accept")
				o.Count("data_before_accept_profile_" + cs.Profile)
				o.Count("data_before_accept_class_" + cs.Data.Class)
			}
		}
		if cs.Wide {
			o.Count("wide_sessions")
			o.Count(fmt.Sprintf("wide_n%d_m%d", cs.N, cs.M))
		} else {
			o.Count(fmt.Sprintf("n%d_m%d", cs.N, cs.M))
		}
		o.Count("profile_" + cs.Profile)
		o.Count("mode_" + cs.Mode)
		o.Count("end_" + res.End)
		if cs.Late != "" {
			o.Count("late_sessions")
			o.Count("late_" + strings.SplitN(cs.Late, ":", 2)[0])
		}
		o.CountN("port_retries", res.Retries)
		for k, v := range res.Counters {
			o.CountN(k, v)
		}
		for _, f := range res.Fails {
			sig, _ := f["sig"].(string)
			delete(f, "sig")
			f["case"] = i
			if cs.Late != "" {
				f["late"] = cs.Late
			}
			fspec := spec
			// data that was sent before the receiving party accepted the
			// connection: the replay forces that observed order (the receiver's
			// Accepts wait for the sender's first flushes) instead of hoping
			// that the OS scheduler repeats it
			if early, _ := f["sent_before_accept"].(bool); early && len(cs.Gates) == 0 {
				if rcv := toInt(f["receiver"]); rcv > 0 {
					g := cs
					g.Gates = []gate{{At: fmt.Sprintf("accept.%d", rcv), Until: fmt.Sprintf("sent.%d", toInt(f["sender"]))}}
					fspec, _ = json.Marshal(g)
					f["spec_as_generated"] = string(spec)
					f["replay_forces"] = "observed order: every Accept of the receiver waits (at most 1.5 s) until the sender's first bursts are flushed"
				}
			}
			f["spec"] = string(fspec)
			f["trace"] = clip(res.Trace, 6000)
			f["rerun"] = fmt.Sprintf("c19 one -case '%s'", fspec)
			o.Fail(sig, f)
		}
		if i < 3 {
			o.Sample(map[string]any{"case": i, "n": cs.N, "m": cs.M, "order": cs.Order, "mode": cs.Mode,
				"profile": cs.Profile, "end": res.End, "events": strings.Count(res.Trace, ",") + 1, "data": cs.Data})
		}
	}
}

func toInt(v any) int {
	switch x := v.(type) {
	case int:
		return x
	case float64:
		return int(x)
	}
	return -1
}

func clip(s string, n int) string {
	if len(s) > n {
		return s[:n] + "..."
	}
	return s
}

// runChild runs one session in a child process with a hard deadline.
func runChild(self string, cs caseSpec) *caseResult {
	var res *caseResult
	for attempt := 0; attempt < 6; attempt++ {
		res = runChildOnce(self, cs)
		if res.End != "retry" {
			res.Retries += attempt
			return res
		}
		cs.Port = 10000 + ((cs.Port-10000)/8*8+8*(211+attempt))%22000
	}
	return &caseResult{Trace: "-", End: "error", Fails: []map[string]any{{"sig": "c19-no-ports",
		"detail": "address in use on every attempt"}}}
}

func runChildOnce(self string, cs caseSpec) *caseResult {
	spec, _ := json.Marshal(cs)
	hard := time.Duration(cs.DeadMs+15000) * time.Millisecond
	ctx, cancel := context.WithTimeout(context.Background(), hard)
	defer cancel()
	cmd := exec.CommandContext(ctx, self, "one", "-case", string(spec))
	var stdout, stderr bytes.Buffer
	cmd.Stdout = &stdout
	cmd.Stderr = &stderr
	err := cmd.Run()
	res := &caseResult{}
	if ctx.Err() != nil {
		return &caseResult{Trace: "-", End: "deadlock", Fails: []map[string]any{{"sig": "c19-hang-hard",
			"detail": "child killed at hard deadline", "stderr": clip(stderr.String(), 2000)}}}
	}
	if e := json.Unmarshal(stdout.Bytes(), res); e != nil || err != nil {
		return &caseResult{Trace: "-", End: "error", Fails: []map[string]any{{"sig": "c19-child-crash",
			"detail": fmt.Sprint(err, " ", e), "stderr": clip(stderr.String(), 3000), "stdout": clip(stdout.String(), 500)}}}
	}
	return res
}

// ---------------------------------------------------------------- witnesses

// The three old-ordering witnesses (Props/C19.lean: oldDeadlockRun,
// oldEarlyReturnRun, oldBadListRun) as forced schedules of the real code: the
// accept goroutine is held at the point inside acceptConn until the wait loop
// it used to race with has ended (or the gate times out).  Before b60eeb5
// these schedules produced a hang / an incomplete table / "invalid peer ID";
// on the repaired code the gates time out and every session ends final.
func witnessSpecs() []caseSpec {
	base := func(name string, n, m int) caseSpec {
		cs := caseSpec{Name: name, N: n, M: m, Mode: "seq", Profile: "none", Strict: true,
			StartUs: make([]int, n), GapUs: make([]int, n), QuietMs: 2500, DeadMs: 20000}
		for i := 1; i < n; i++ {
			cs.Order = append(cs.Order, i)
		}
		return cs
	}
	w1 := base("deadlock", 2, 1)
	w1.Gates = []gate{{At: "connect.0", Until: "h.1"}, {At: "accepted.0.1.0", Until: "w.0.0.0"}}
	w2 := base("early-return", 2, 2)
	w2.Gates = []gate{{At: "connect.0", Until: "h.1"}, {At: "accepted.0.1.1", Until: "snap.0"}}
	w3 := base("bad-list", 4, 1)
	// Accept returns connections in the order they were established (the
	// Join order); the hello of peer 1 is held back so that it is accepted last.
	w3.Order = []int{2, 3, 1}
	w3.Gates = []gate{{At: "connect.0", Until: "h.3"}, {At: "hello.3", Until: "h.2"},
		{At: "hello.1", Until: "a.0.3.0"}, {At: "accepted.0.1.0", Until: "snap.0"}}
	// Props/C19.lean dropRun (C19_hello_reader_drops_early_data): party 1 has
	// nothing to accept, returns from Connect as soon as it has dialled and
	// sends at once; every Accept of the higher parties and of the leader is
	// held until party 1's first bursts are flushed, so the data waits in the
	// sockets together with the hellos.
	var ws []caseSpec
	for wi, class := range []string{"tiny", "mixed", "kb"} {
		w4 := base("early-data", 3+wi%2, 2)
		w4.Data = &dataSpec{Class: class, Seed: uint64(1000 + wi), Bursts: 1 + wi%2, Flush: []string{"end", "each"}[wi%2],
			QuietMs: 4000}
		for j := 2; j < w4.N; j++ {
			w4.Gates = append(w4.Gates, gate{At: fmt.Sprintf("accept.%d", j), Until: "sent.1"})
		}
		ws = append(ws, w4)
	}
	return append([]caseSpec{w1, w2, w3}, ws...)
}

func witnessMain(args []string) int {
	cf, o := hxlib.ParseCommon("c19", args, nil)
	defer o.Close()
	self, err := os.Executable()
	if err != nil {
		panic(err)
	}
	pid := os.Getpid()
	for rep := 0; rep < cf.N; rep++ {
		for wi, cs := range witnessSpecs() {
			cs.Idx = rep*10 + wi
			cs.Port = 10000 + ((pid*131+7*rep+wi+2000)%2750)*8
			res := runChild(self, cs)
			o.Op(opLine(cs, res), resultLine(cs, res))
			o.Count("witness_sessions")
			kinds := map[string]bool{}
			for _, f := range res.Fails {
				if k, ok := f["kind"].(string); ok {
					kinds[k] = true
				}
				if k, _ := f["kind"].(string); k == "connect-error" {
					kinds["connect-error:"+fmt.Sprint(f["errors"])] = true
				}
			}
			ok := false
			switch cs.Name {
			case "deadlock":
				ok = res.End == "deadlock" && kinds["hang"]
			case "early-return":
				ok = res.End == "final" && kinds["incomplete-at-return"]
			case "early-data":
				ok = kinds["data-lost"] || kinds["data-wrong"]
			case "bad-list":
				ok = res.End == "error"
				found := false
				for k := range kinds {
					if strings.Contains(k, "invalid peer ID 3") {
						found = true
					}
				}
				ok = ok && found
			}
			switch {
			case ok:
				o.Count("witness_" + cs.Name + "_reproduced")
			case res.End == "final" && len(res.Fails) == 0:
				o.Count("witness_" + cs.Name + "_gone")
			default:
				o.Count("witness_" + cs.Name + "_other")
			}
			// a failure under a forced schedule is a failure of the real code
			spec, _ := json.Marshal(cs)
			for _, f := range res.Fails {
				sig, _ := f["sig"].(string)
				delete(f, "sig")
				f["witness"] = cs.Name
				f["spec"] = string(spec)
				f["trace"] = clip(res.Trace, 6000)
				f["rerun"] = fmt.Sprintf("c19 one -case '%s'", spec)
				o.Fail(sig, f)
			}
			o.Sample(map[string]any{"witness": cs.Name, "end": res.End, "trace": clip(res.Trace, 400),
				"kinds": fmt.Sprint(kinds)})
		}
	}
	return 0
}

// ---------------------------------------------------------------- replay

// replayMain re-runs exactly one recorded session: `-extra <replay file>`
// (replays/C19-*.json: failure.spec is the caseSpec of the failing session,
// including its delay seed, start offsets, gates and data plan).  What the OS
// scheduler adds is not recorded, so the session is run up to -n times and
// stops at the first run that fails again.  Exit code 1 = failed again.
func replayMain(args []string) int {
	cf, o := hxlib.ParseCommon("c19", args, nil)
	defer o.Close()
	raw, err := os.ReadFile(cf.Extra)
	if err != nil {
		fmt.Fprintln(os.Stderr, "replay:", err)
		return 2
	}
	var rf struct {
		Failure struct {
			Spec string `json:"spec"`
			Sig  string `json:"sig"`
		} `json:"failure"`
	}
	var cs caseSpec
	if err := json.Unmarshal(raw, &rf); err != nil || json.Unmarshal([]byte(rf.Failure.Spec), &cs) != nil || cs.N < 2 {
		fmt.Fprintln(os.Stderr, "replay: no session spec in", cf.Extra)
		return 2
	}
	self, err := os.Executable()
	if err != nil {
		panic(err)
	}
	pid := os.Getpid()
	for try := 0; try < cf.N; try++ {
		cs.Port = 10000 + ((pid*131+try)%2750)*8
		res := runChild(self, cs)
		emit(o, cs.Idx, cs, res)
		o.Count("replay_runs")
		fmt.Printf("replay run %d of session %d (n=%d m=%d mode=%s profile=%s data=%v): end=%s data=%s failures=%d\n",
			try+1, cs.Idx, cs.N, cs.M, cs.Mode, cs.Profile, cs.Data != nil, res.End, res.Data, len(res.Fails))
		if len(res.Fails) > 0 {
			b, _ := json.Marshal(res.Fails[0])
			fmt.Println("  " + clip(string(b), 1500))
			return 1
		}
	}
	return 0
}

package main

// Data phase overlapping the setup phase.
//
// Property C19: "the k-th connection at one end is the k-th at the other
// end: data sent on it arrives there" - for data sent at ANY time after the
// sender's own Connect returned.  In a session with a dataSpec every party
// starts to send and to receive on every one of its connections the moment
// ITS OWN Connect returns; there is no barrier between the parties.  A party
// with nothing left to accept (party 1; any party whose last wait is already
// satisfied) returns as soon as it has dialled, so its first bytes reach the
// peer's listener together with (or right behind) its hello, before the peer
// has called Accept - the delay profiles at the accept / hello hook points
// stretch exactly that window.
//
// Stream of sender p on its slot (q, k): streamLen(p, q, k) bytes, byte at
// offset o = payByte(p, q, k, o) (the Lean driver uses the same function),
// written with a seeded mix of SendByte / SendUint16 / SendUint32 in 1..3
// bursts, flushed after every call or after each burst.  Oracle: receiver q
// reads exactly that stream from ITS slot (p, k), in order, nothing lost,
// nothing duplicated (the tagged pings that follow on the same connections
// would be misaligned by any surplus byte).
//
// Trace tokens (validated by the model's data layer, Model/MeshData.lean):
//   S.p.q.k.len      p starts sending the next len bytes on its slot (q, k)
//   R.p.q.k.len.sum  p has received len bytes on its slot (q, k), checksum sum
//   T.p.q.k.len.sum  as R, and nothing more arrived although time was given

import (
	"fmt"
	"sync"
	"sync/atomic"
	"time"

	"github.com/markkurossi/mpc/p2p"
)

type dataSpec struct {
	Class   string `json:"class"` // tiny | small | kb | mixed | bulk | big
	Seed    uint64 `json:"seed"`
	Bursts  int    `json:"bursts"`   // 1..3
	Flush   string `json:"flush"`    // each | end
	QuietMs int    `json:"quiet_ms"` // no byte received anywhere for this long = the rest is lost
}

var dataClasses = []string{"tiny", "small", "kb", "mixed", "tiny", "bulk", "mixed", "kb"}

func payByte(p, q, k, off int) byte {
	return byte((17 + 31*p + 57*q + 91*k + 7*off + 13*(off/256)) % 251)
}

type cks struct{ a, b uint32 }

func newCks() cks { return cks{1, 0} }
func (c *cks) add(x byte) {
	c.a = (c.a + uint32(x)) % 65521
	c.b = (c.b + c.a) % 65521
}
func (c cks) sum() uint64 { return uint64(c.b)*65536 + uint64(c.a) }

func (d *dataSpec) h(p, q, k, salt int) uint64 {
	return mix(d.Seed ^ mix(uint64(salt)<<48|uint64(p)<<32|uint64(q)<<16|uint64(k)))
}

func classLen(class string, h uint64) int {
	switch class {
	case "tiny": // fits into the TCP segment of the hello
		return 1 + int(h%8)
	case "small":
		return 9 + int(h%200)
	case "kb": // around 1 KiB
		return 900 + int(h%300)
	case "bulk": // around the 64 KiB write buffer
		return 60000 + int(h%12000)
	case "big": // around the 1 MiB read buffer
		return 1<<20 - 500 + int(h%1000)
	}
	return 0
}

// streamLen: number of bytes party p sends on its slot (q, k).
func (d *dataSpec) streamLen(n, m, p, q, k int) int {
	h := d.h(p, q, k, 1)
	switch d.Class {
	case "mixed":
		switch (h >> 40) % 8 {
		case 0:
			return 0
		case 1, 2, 3:
			return classLen("tiny", h)
		case 4, 5:
			return classLen("small", h)
		case 6:
			return classLen("kb", h)
		default:
			return 4000 + int(h%3000)
		}
	case "bulk":
		if (h>>40)%4 == 0 {
			return classLen("bulk", h)
		}
		return classLen("small", h)
	case "big":
		// one stream dialler -> acceptor on the last connection that is dialled,
		// one in the opposite direction
		if (p == 1 && q == n-1 && k == m-1 && n > 2) || (p == n-1 && q == 0 && k == m-1 && m > 1) ||
			(p == n-1 && q == 1 && k == 0 && n > 2) {
			return classLen("big", h)
		}
		return classLen("tiny", h)
	}
	return classLen(d.Class, h)
}

type stream struct {
	p, q, k int // receiver p, slot (q, k): the stream q sends on ITS slot (p, k)
	want    int
	mu      sync.Mutex
	got     int
	ck      cks
	bad     int // offset of the first wrong byte, -1
	head    []byte
	err     string
	done    bool
}

type dataRun struct {
	s       *session
	d       *dataSpec
	n, m    int
	mu      sync.Mutex
	streams []*stream
	sent    atomic.Int64 // bytes announced by S tokens
	rcvd    atomic.Int64
	sendErr []string
	open    atomic.Int64 // receivers not finished
	sending atomic.Int64 // senders not finished
	started atomic.Int64 // parties whose data phase has started
	flushed map[[3]int]int // sender slot -> trace length when its first burst had been flushed
}

func newDataRun(s *session) *dataRun {
	return &dataRun{s: s, d: s.cs.Data, n: s.cs.N, m: s.cs.M, flushed: map[[3]int]int{}}
}

// start: called on party p's goroutine directly after its Connect returned.
func (dr *dataRun) start(p int, tab tableSnap) {
	dr.started.Add(1)
	if ok, _ := tab.complete(p, dr.n, dr.m); !ok {
		return // reported by the table oracle
	}
	var first sync.WaitGroup
	for q := 0; q < dr.n; q++ {
		if q == p {
			continue
		}
		for k := 0; k < dr.m; k++ {
			c := tab.conns[q][k]
			st := &stream{p: p, q: q, k: k, want: dr.d.streamLen(dr.n, dr.m, q, p, k), bad: -1, ck: newCks()}
			dr.mu.Lock()
			dr.streams = append(dr.streams, st)
			dr.mu.Unlock()
			dr.open.Add(1)
			dr.sending.Add(1)
			first.Add(1)
			go dr.sender(p, q, k, c, &first)
			go dr.receiver(st, c)
		}
	}
	go func() {
		first.Wait()
		dr.s.mark(fmt.Sprintf("sent.%d", p))
	}()
}

func (dr *dataRun) sender(p, q, k int, c *p2p.Conn, first *sync.WaitGroup) {
	firstDone := false
	release := func() {
		if !firstDone {
			firstDone = true
			first.Done()
		}
	}
	defer dr.sending.Add(-1)
	defer release()
	fail := func(err any) {
		dr.mu.Lock()
		dr.sendErr = append(dr.sendErr, fmt.Sprintf("send %d->%d k=%d: %v", p, q, k, err))
		dr.mu.Unlock()
	}
	defer func() {
		if e := recover(); e != nil {
			fail(fmt.Sprint("panic: ", e))
		}
	}()
	total := dr.d.streamLen(dr.n, dr.m, p, q, k)
	if total == 0 {
		return
	}
	// burst boundaries
	cuts := []int{total}
	if dr.d.Bursts > 1 && total > 1 {
		h := dr.d.h(p, q, k, 2)
		c1 := 1 + int(h%uint64(total-1))
		cuts = []int{c1, total}
		if dr.d.Bursts > 2 && total-c1 > 1 {
			c2 := c1 + 1 + int((h>>32)%uint64(total-c1-1))
			cuts = []int{c1, c2, total}
		}
	}
	each := dr.d.Flush == "each" && total <= 512
	off := 0
	for bi, end := range cuts {
		if bi > 0 {
			time.Sleep(time.Duration(dr.d.h(p, q, k, 3+bi)%1500) * time.Microsecond)
		}
		dr.s.add(fmt.Sprintf("S.%d.%d.%d.%d", p, q, k, end-off))
		dr.sent.Add(int64(end - off))
		for off < end {
			h := dr.d.h(p, q, k, 16+off)
			var err error
			switch {
			case end-off >= 4 && (h%4 != 0 || total > 4096):
				v := uint32(payByte(p, q, k, off))<<24 | uint32(payByte(p, q, k, off+1))<<16 |
					uint32(payByte(p, q, k, off+2))<<8 | uint32(payByte(p, q, k, off+3))
				err = c.SendUint32(int(v))
				off += 4
			case end-off >= 2 && h%2 == 0:
				err = c.SendUint16(int(payByte(p, q, k, off))<<8 | int(payByte(p, q, k, off+1)))
				off += 2
			default:
				err = c.SendByte(payByte(p, q, k, off))
				off++
			}
			if err == nil && each {
				err = c.Flush()
			}
			if err != nil {
				fail(err)
				return
			}
		}
		if err := c.Flush(); err != nil {
			fail(err)
			return
		}
		if bi == 0 {
			dr.s.mu.Lock()
			at := len(dr.s.log)
			dr.s.mu.Unlock()
			dr.mu.Lock()
			dr.flushed[[3]int{p, q, k}] = at
			dr.mu.Unlock()
		}
		release()
	}
}

// earlyStreams counts the streams whose sender started (early) / had flushed
// its first burst (flushed) before the accepting end logged the accept of
// that connection: the data the property's "at any time" is about.
func (dr *dataRun) earlyStreams(trace []string) (early, flushed int) {
	firstS := map[[3]int]int{}
	for i, t := range trace {
		var p, q, k, l int
		if len(t) > 2 && t[0] == 'S' {
			if c, _ := fmt.Sscanf(t, "S.%d.%d.%d.%d", &p, &q, &k, &l); c == 4 {
				if _, ok := firstS[[3]int{p, q, k}]; !ok {
					firstS[[3]int{p, q, k}] = i
				}
			}
		}
	}
	dr.mu.Lock()
	defer dr.mu.Unlock()
	for i, t := range trace {
		var j, d, k int
		if len(t) > 2 && t[0] == 't' {
			if c, _ := fmt.Sscanf(t, "t.%d.%d.%d", &j, &d, &k); c == 3 {
				if si, ok := firstS[[3]int{d, j, k}]; ok && si < i {
					early++
				}
				if fi, ok := dr.flushed[[3]int{d, j, k}]; ok && fi <= i {
					flushed++
				}
			}
		}
	}
	return
}

func (dr *dataRun) receiver(st *stream, c *p2p.Conn) {
	defer dr.open.Add(-1)
	defer func() {
		if e := recover(); e != nil {
			st.mu.Lock()
			st.err = fmt.Sprint("panic: ", e)
			st.mu.Unlock()
		}
	}()
	take := func(b byte) {
		st.mu.Lock()
		if b != payByte(st.q, st.p, st.k, st.got) && st.bad < 0 {
			st.bad = st.got
		}
		if len(st.head) < 48 {
			st.head = append(st.head, b)
		}
		st.ck.add(b)
		st.got++
		st.mu.Unlock()
		dr.rcvd.Add(1)
	}
	for {
		st.mu.Lock()
		got := st.got
		st.mu.Unlock()
		left := st.want - got
		if left <= 0 {
			break
		}
		h := dr.d.h(st.p, st.q, st.k, 1<<14+got)
		var err error
		switch {
		case left >= 4 && (h%3 != 0 || st.want > 4096):
			var v int
			v, err = c.ReceiveUint32()
			if err == nil {
				take(byte(v >> 24))
				take(byte(v >> 16))
				take(byte(v >> 8))
				take(byte(v))
			}
		case left >= 2 && h%2 == 0:
			var v int
			v, err = c.ReceiveUint16()
			if err == nil {
				take(byte(v >> 8))
				take(byte(v))
			}
		default:
			var b byte
			b, err = c.ReceiveByte()
			if err == nil {
				take(b)
			}
		}
		if err != nil {
			st.mu.Lock()
			st.err = err.Error()
			st.mu.Unlock()
			return
		}
	}
	st.mu.Lock()
	st.done = true
	if st.want > 0 {
		dr.s.add(fmt.Sprintf("R.%d.%d.%d.%d.%d", st.p, st.q, st.k, st.got, st.ck.sum()))
	}
	st.mu.Unlock()
}

// wait until every receiver has its stream or nothing has been received
// anywhere for QuietMs.
func (dr *dataRun) wait() {
	quiet := time.Duration(dr.d.QuietMs) * time.Millisecond
	last := dr.rcvd.Load() + dr.sent.Load()
	lastAt := time.Now()
	for {
		if dr.started.Load() == int64(dr.n) && dr.open.Load() == 0 && dr.sending.Load() == 0 {
			return
		}
		time.Sleep(2 * time.Millisecond)
		if cur := dr.rcvd.Load() + dr.sent.Load(); cur != last {
			last, lastAt = cur, time.Now()
		} else if time.Since(lastAt) > quiet {
			return
		}
	}
}

// judge evaluates the oracle on every stream; returns the tokens to append to
// the trace and whether everything arrived.
func (dr *dataRun) judge(trace []string, fail func(sig string, d map[string]any)) ([]string, bool) {
	pos := map[string]int{}
	for i, t := range trace {
		if _, ok := pos[t]; !ok {
			pos[t] = i
		}
	}
	firstS := func(p, q, k int) int {
		pre := fmt.Sprintf("S.%d.%d.%d.", p, q, k)
		for i, t := range trace {
			if len(t) > len(pre) && t[:len(pre)] == pre {
				return i
			}
		}
		return -1
	}
	var extra []string
	ok := true
	dr.mu.Lock()
	streams := append([]*stream(nil), dr.streams...)
	sendErr := append([]string(nil), dr.sendErr...)
	dr.mu.Unlock()
	if len(sendErr) > 0 {
		ok = false
		fail("c19-data-error", map[string]any{"kind": "data-send-error", "errors": sendErr})
	}
	reported := 0
	for _, st := range streams {
		st.mu.Lock()
		got, want, bad, done, errs := st.got, st.want, st.bad, st.done, st.err
		head := append([]byte(nil), st.head...)
		sum := st.ck.sum()
		st.mu.Unlock()
		if done && bad < 0 {
			continue
		}
		ok = false
		if !done {
			extra = append(extra, fmt.Sprintf("T.%d.%d.%d.%d.%d", st.p, st.q, st.k, got, sum))
		}
		if reported >= 6 {
			continue
		}
		reported++
		// did the sender start before the receiving party took the connection
		// out of its listener (the receiver is the accepting end)?
		si := firstS(st.q, st.p, st.k)
		ti, accepted := pos[fmt.Sprintf("t.%d.%d.%d", st.p, st.q, st.k)]
		d := map[string]any{"receiver": st.p, "slot_peer": st.q, "slot_k": st.k, "sender": st.q,
			"want_bytes": want, "got_bytes": got, "class": dr.d.Class, "flush": dr.d.Flush, "bursts": dr.d.Bursts,
			"receiver_is_acceptor": accepted, "sent_before_accept": accepted && si >= 0 && si < ti,
			"got_head": fmt.Sprintf("%x", head)}
		exp := make([]byte, 0, 48)
		for o := 0; o < want && o < 48; o++ {
			exp = append(exp, payByte(st.q, st.p, st.k, o))
		}
		d["want_head"] = fmt.Sprintf("%x", exp)
		switch {
		case errs != "":
			d["kind"] = "data-receive-error"
			d["err"] = errs
			fail("c19-data-error", d)
		case bad >= 0:
			d["kind"] = "data-wrong"
			d["first_wrong_offset"] = bad
			// is what arrived the sent stream with a prefix missing?
			for shift := 1; shift < want && shift <= 1<<21; shift++ {
				match := len(head) > 0
				for i := 0; i < len(head) && i < 16; i++ {
					if shift+i >= want || head[i] != payByte(st.q, st.p, st.k, shift+i) {
						match = false
						break
					}
				}
				if match {
					d["missing_prefix_bytes"] = shift
					break
				}
			}
			fail("c19-data-wrong", d)
		default:
			d["kind"] = "data-lost"
			d["why"] = fmt.Sprintf("sent on the sender's Conns[%d] for party %d, never arrived on the receiver's Conns[%d] "+
				"for party %d (no byte received anywhere for %d ms)", st.k, st.p, st.k, st.q, dr.d.QuietMs)
			fail("c19-data-lost", d)
		}
	}
	return extra, ok
}

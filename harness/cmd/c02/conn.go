// conn mode: two-party sessions whose per-direction byte volume crosses the
// buffer sizes of p2p.Conn (64 KiB write buffer, 1 MiB read buffer), over the
// fragmenting / delaying transport of transport.go, for every OT
// implementation.
//
// Session classes
//
//	small      random circuits as in `ideal` / `real`
//	tab64k     garbled tables of 70..400 KiB  (several write-buffer flushes)
//	tab1m      garbled tables of 1.1..2.5 MiB (stream longer than the read buffer)
//	wideG      garbler argument of more than 4096 bits (> 64 KiB of input labels)
//	wideE      evaluator argument of more than 4096 bits (> 64 KiB of OT messages)
//
// Oracle (all OTs): no error, no panic, no hang; both parties' results equal
// Circuit.Compute.  Ideal OT: the digests of both complete byte streams, the
// number and digest of the transport reads (buffer room offered, bytes
// returned) and both results are compared with the Lean model of the session
// over the connection model (Model/Proto2Conn.lean), which replays the
// recorded read fragmentation.
package main

import (
	"fmt"
	"math/big"
	"strings"
	"time"

	"github.com/markkurossi/mpc/circuit"
	"github.com/markkurossi/mpc/env"
	"github.com/markkurossi/mpc/ot"
	"github.com/markkurossi/mpc/p2p"

	"verifharness/hxlib"
)

// syncOT is the out-of-band ideal OT of the conn mode: like hxlib.IdealOT, and
// it tells the transport while the receiver is blocked in it.
type syncOT struct {
	ch   chan []ot.Wire
	recv *cend
}

func (o *syncOT) InitSender(io ot.IO) error   { return io.Flush() }
func (o *syncOT) InitReceiver(io ot.IO) error { return nil }
func (o *syncOT) Send(wires []ot.Wire) error {
	o.ch <- append([]ot.Wire(nil), wires...)
	return nil
}
func (o *syncOT) Receive(flags []bool, result []ot.Label) error {
	o.recv.setFlag(&o.recv.otWait, true)
	defer o.recv.setFlag(&o.recv.otWait, false)
	select {
	case w := <-o.ch:
		if len(w) != len(flags) {
			return fmt.Errorf("ideal OT: %d wires, %d flags", len(w), len(flags))
		}
		for i, f := range flags {
			if f {
				result[i] = w[i].L1
			} else {
				result[i] = w[i].L0
			}
		}
		return nil
	case <-time.After(40 * time.Second):
		return fmt.Errorf("ideal OT: timeout")
	}
}

// runConnSession runs circuit.Garbler / circuit.Evaluator over the net.
func runConnSession(c *circuit.Circuit, x, y *big.Int, mk func(n *cnet) (ot.OT, ot.OT), randG interface {
	Read([]byte) (int, error)
}, n *cnet, deadline time.Duration) *hxlib.SessionResult {
	res := &hxlib.SessionResult{}
	gdone := make(chan struct{})
	edone := make(chan struct{})
	n.mu.Lock()
	n.ends[0].conn = p2p.NewConn(n.ends[0])
	n.ends[1].conn = p2p.NewConn(n.ends[1])
	n.mu.Unlock()
	gOT, eOT := mk(n)
	party := func(e *cend, done chan struct{}, f func() error, pan *any) {
		defer close(done)
		defer func() {
			if p := recover(); p != nil {
				*pan = p
				n.close()
			}
			e.setFlag(&e.done, true)
		}()
		if err := f(); err != nil {
			n.close()
		}
	}
	go party(n.ends[0], gdone, func() error {
		res.GRes, res.GErr = circuit.Garbler(&env.Config{Rand: randG}, n.ends[0].conn, gOT, c, x, false)
		return res.GErr
	}, &res.GPanic)
	go party(n.ends[1], edone, func() error {
		res.ERes, res.EErr = circuit.Evaluator(n.ends[1].conn, eOT, c, y, false)
		return res.EErr
	}, &res.EPanic)
	timer := time.After(deadline)
	for gdone != nil || edone != nil {
		select {
		case <-gdone:
			gdone = nil
		case <-edone:
			edone = nil
		case <-timer:
			res.Stalled = true
			n.close()
			t2 := time.After(2 * time.Second)
			for gdone != nil || edone != nil {
				select {
				case <-gdone:
					gdone = nil
				case <-edone:
					edone = nil
				case <-t2:
					return res
				}
			}
			return res
		}
	}
	return res
}

// genSized builds a random well-formed circuit with exactly ng gates (same
// construction as hxlib.GenCircuit).
func genSized(r *hxlib.Rng, n0, n1, ng int, mix string) *circuit.Circuit {
	nin := n0 + n1
	gates := make([]circuit.Gate, 0, ng)
	defined := make([]int, 0, nin+ng)
	for i := 0; i < nin; i++ {
		defined = append(defined, i)
	}
	next := nin
	pick := func() int {
		if r.Intn(3) == 0 && len(defined) > 4 {
			return defined[len(defined)-1-r.Intn(4)]
		}
		return defined[r.Intn(len(defined))]
	}
	var stats circuit.Stats
	for i := 0; i < ng; i++ {
		var op circuit.Operation
		switch mix {
		case "and":
			op = []circuit.Operation{circuit.AND, circuit.AND, circuit.AND, circuit.XOR, circuit.INV}[r.Intn(5)]
		case "orinv":
			op = []circuit.Operation{circuit.OR, circuit.INV, circuit.OR, circuit.INV, circuit.AND}[r.Intn(5)]
		case "xnor":
			op = []circuit.Operation{circuit.XNOR, circuit.AND, circuit.XOR, circuit.AND, circuit.OR}[r.Intn(5)]
		default:
			op = circuit.Operation(r.Intn(5))
		}
		a := pick()
		b := pick()
		if r.Intn(8) == 0 {
			b = a
		}
		g := circuit.Gate{Input0: circuit.Wire(a), Input1: circuit.Wire(b), Output: circuit.Wire(next), Op: op}
		if op == circuit.INV {
			g.Input1 = 0
		}
		defined = append(defined, next)
		next++
		gates = append(gates, g)
		stats[op]++
	}
	nout := 1 + r.Intn(hxlib.MinInt(8, next-nin))
	return &circuit.Circuit{
		NumGates: len(gates),
		NumWires: next,
		Inputs:   circuit.IO{hxlib.UintIO("a", n0), hxlib.UintIO("b", n1)},
		Outputs:  circuit.IO{hxlib.UintIO("r", nout)},
		Gates:    gates,
		Stats:    stats,
	}
}

type connCase struct {
	class string
	ot    string
}

// connPlan fixes classes and OTs per case index: the large classes first
// (every OT implementation crosses every buffer size), small sessions after.
func connPlan(n int, tier string) []connCase {
	var plan []connCase
	all := []string{"ideal", "co", "cot", "cotm", "rsa"}
	reps := 1
	if tier == "thorough" {
		reps = 6
	}
	for k := 0; k < reps; k++ {
		for _, o := range all {
			plan = append(plan, connCase{"tab1m", o})
		}
		plan = append(plan, connCase{"tab1m", "ideal"})
		for _, o := range all {
			plan = append(plan, connCase{"tab64k", o})
		}
		for _, o := range []string{"ideal", "co", "cotm", "cot"} {
			plan = append(plan, connCase{"wideG", o})
		}
		for _, o := range []string{"ideal", "cot", "co", "cotm"} {
			plan = append(plan, connCase{"wideE", o})
		}
		if tier == "thorough" && k == 0 {
			plan = append(plan, connCase{"wideE", "rsa"}, connCase{"wideG", "rsa"})
		}
	}
	small := []string{"ideal", "ideal", "co", "ideal", "cot", "ideal", "cotm", "ideal"}
	for i := 0; len(plan) < n; i++ {
		plan = append(plan, connCase{"small", small[i%len(small)]})
	}
	return plan[:n]
}

func fnv64(b []byte) uint64 {
	h := uint64(fnvInit)
	for _, c := range b {
		h = (h ^ uint64(c)) * 0x100000001b3
	}
	return h
}

func sizeClass(n int) string {
	switch {
	case n > connReadBuf:
		return "over_1MiB"
	case n > connWriteBuf:
		return "over_64KiB"
	}
	return "upto_64KiB"
}

func connMode(args []string) int {
	cf, o := hxlib.ParseCommon("c02", args, nil)
	defer o.Close()
	rng := hxlib.NewRng(splitmix(cf.Seed ^ 0xc077))
	mixes := []string{"and", "uniform", "orinv", "xnor"}
	plan := connPlan(cf.N, cf.Tier)
	for i, pc := range plan {
		r := rng.Fork()
		if cf.Only >= 0 && i != cf.Only {
			continue
		}
		mix := mixes[r.Intn(len(mixes))]
		var c *circuit.Circuit
		switch pc.class {
		case "tab1m":
			// expected bytes per gate of the mixes: and 26, uniform 23, orinv 26, xnor 27
			ng := 50000 + r.Intn(50000)
			c = genSized(r, 1+r.Intn(70), 1+r.Intn(70), ng, mix)
		case "tab64k":
			c = genSized(r, 1+r.Intn(70), 1+r.Intn(70), 3300+r.Intn(12000), mix)
		case "wideG":
			c = hxlib.GenParityCircuit(r, 4097+r.Intn(700), 1+r.Intn(40))
		case "wideE":
			n1 := 4097 + r.Intn(500)
			if pc.ot == "rsa" {
				n1 = 4097 + r.Intn(8)
			}
			c = hxlib.GenParityCircuit(r, 8+r.Intn(40), n1)
		default:
			maxIn := 6
			if r.Intn(5) == 0 {
				maxIn = 70
			}
			c = hxlib.GenCircuit(r, hxlib.GenOpts{MaxGates: 80, MaxIn: maxIn, Mix: mix})
		}
		widths := splitOutputs(r, c)
		n0 := int(c.Inputs[0].Type.Bits)
		n1 := int(c.Inputs[1].Type.Bits)
		x := make([]bool, n0)
		y := make([]bool, n1)
		for j := range x {
			x[j] = r.Bool()
		}
		for j := range y {
			y[j] = r.Bool()
		}
		tape := r.Bytes(32 + 16*(1+n0+n1))
		isBig := pc.class == "tab1m"
		sge := genSched(r, isBig)
		seg := genSched(r, false)
		real := pc.ot != "ideal"

		net := newCnet(sge, seg)
		var randG interface {
			Read([]byte) (int, error)
		}
		gr := r.Fork()
		er := r.Fork()
		if real {
			randG = &tapeThen{tape: tape, rest: gr}
		} else {
			randG = &hxlib.Tape{Data: tape}
		}
		res := runConnSession(c, bitsToBig(x), bitsToBig(y), func(n *cnet) (ot.OT, ot.OT) {
			if real {
				return mkOT(pc.ot, gr), mkOT(pc.ot, er)
			}
			s := &syncOT{ch: make(chan []ot.Wire, 16), recv: n.ends[1]}
			return s, s
		}, randG, net, 90*time.Second)
		net.shutdown()
		ge, eg := net.ends[0].out, net.ends[0].in

		reads := "* *"
		if !real {
			reads = ge.rleString() + " " + eg.rleString()
		}
		op := fmt.Sprintf("c02c %s %s %s %d %d %s %s %s %s/%s %s", pc.ot, hxlib.Hex(tape), hxlib.CircLine(c), n0, n1,
			intsString(widths), hxlib.BitsString(x), hxlib.BitsString(y), sge, seg, reads)
		// a failure detail must stay small: the circuit is named by its case
		// index (seed + index regenerate it), not inlined
		detail := func(m map[string]any) map[string]any {
			m["case"] = i
			m["class"] = pc.class
			m["ot"] = pc.ot
			m["gates"] = c.NumGates
			m["n0"] = n0
			m["n1"] = n1
			m["sched_garbler_to_evaluator"] = sge.String()
			m["sched_evaluator_to_garbler"] = seg.String()
			m["reads_garbler_to_evaluator"] = clipS(ge.rleString(), 400)
			m["reads_evaluator_to_garbler"] = clipS(eg.rleString(), 400)
			m["bytes_garbler_to_evaluator"] = len(ge.data)
			m["bytes_evaluator_to_garbler"] = len(eg.data)
			m["rerun"] = fmt.Sprintf("c02 conn -seed %d -n %d -tier %s -only %d", cf.Seed, cf.N, cf.Tier, i)
			if len(op) < 3000 {
				m["op"] = op
			}
			return m
		}
		var sb strings.Builder
		switch {
		case res.Stalled:
			sb.WriteString("stalled")
			o.Fail("c02-conn-stalled", detail(map[string]any{}))
		case res.GPanic != nil || res.EPanic != nil:
			sb.WriteString("panic")
			o.Fail("c02-conn-panic", detail(map[string]any{"g": fmt.Sprint(res.GPanic), "e": fmt.Sprint(res.EPanic)}))
		case res.GErr != nil || res.EErr != nil:
			sb.WriteString("error")
			o.Fail("c02-conn-error", detail(map[string]any{"g": fmt.Sprint(res.GErr), "e": fmt.Sprint(res.EErr)}))
		default:
			if !real {
				fmt.Fprintf(&sb, "ge=%d:%016x;eg=%d:%016x;rd=%d:%016x,%d:%016x;", len(ge.data), fnv64(ge.data),
					len(eg.data), fnv64(eg.data), ge.nread, ge.rlog, eg.nread, eg.rlog)
			}
			fmt.Fprintf(&sb, "g=%s;e=%s", hxlib.BigsString(res.GRes), hxlib.BigsString(res.ERes))
			want, err := c.Compute([]*big.Int{bitsToBig(x), bitsToBig(y)})
			if err != nil {
				o.Fail("c02-compute-error", detail(map[string]any{"err": err.Error()}))
			} else if hxlib.BigsString(want) != hxlib.BigsString(res.GRes) || hxlib.BigsString(want) != hxlib.BigsString(res.ERes) {
				o.Fail("c02-conn-wrong-result", detail(map[string]any{"want": hxlib.BigsString(want),
					"garbler": hxlib.BigsString(res.GRes), "evaluator": hxlib.BigsString(res.ERes)}))
			}
		}
		o.Op(op, sb.String())
		o.Count("sessions")
		o.Count("class_" + pc.class)
		o.Count("ot_" + pc.ot)
		o.Count("ot_" + pc.ot + "_to_evaluator_" + sizeClass(len(ge.data)))
		o.Count("ot_" + pc.ot + "_to_garbler_" + sizeClass(len(eg.data)))
		o.Count("sched_" + sge.kind)
		o.Count("sched_" + seg.kind)
		if sge.one > 0 || seg.one > 0 {
			o.Count("sched_single_byte_prefix")
		}
		o.CountN("transport_reads", ge.nread+eg.nread)
		o.CountN("reads_ending_1_to_20_bytes_before_end_of_1MiB_buffer", ge.nearR+eg.nearR)
		if ge.maxEnd >= connReadBuf-64 || eg.maxEnd >= connReadBuf-64 {
			o.Count("sessions_with_a_read_filling_the_1MiB_buffer")
		}
		o.CountN("timer_fallback_deliveries", net.fallback)
		if i < 2 {
			o.Sample(map[string]any{"case": i, "class": pc.class, "ot": pc.ot, "gates": c.NumGates, "n0": n0, "n1": n1,
				"bytes_to_evaluator": len(ge.data), "bytes_to_garbler": len(eg.data),
				"sched": sge.String() + "/" + seg.String(), "reads_to_evaluator": clipS(ge.rleString(), 200)})
		}
	}
	return 0
}

func clipS(s string, n int) string {
	if len(s) > n {
		return s[:n] + "..."
	}
	return s
}

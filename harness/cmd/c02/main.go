// c02: two-party protocol sessions on the real code.
//
//	ideal: circuit.Garbler/Evaluator over a recording, read-fragmenting
//	       transport with an out-of-band ideal OT; the complete byte streams of
//	       both directions and both result vectors are compared with the Lean
//	       model (Model/Proto2.lean + the Conn byte encoding).
//	real:  the same with the library's OT implementations (co, rsa, cot,
//	       cotm = COT malicious); results compared with the model, oracle:
//	       both parties' results equal each other and Circuit.Compute.
package main

import (
	"fmt"
	"math/big"
	"os"
	"strings"
	"time"

	"github.com/markkurossi/mpc/circuit"
	"github.com/markkurossi/mpc/ot"

	"verifharness/hxlib"
)

func main() {
	if len(os.Args) < 2 {
		fmt.Fprintln(os.Stderr, "usage: c02 ideal|real [flags]")
		os.Exit(2)
	}
	switch os.Args[1] {
	case "ideal":
		os.Exit(run(os.Args[2:], false))
	case "real":
		os.Exit(run(os.Args[2:], true))
	default:
		fmt.Fprintf(os.Stderr, "unknown mode %q\n", os.Args[1])
		os.Exit(2)
	}
}

func bitsToBig(bits []bool) *big.Int {
	v := new(big.Int)
	for i, b := range bits {
		if b {
			v.SetBit(v, i, 1)
		}
	}
	return v
}

// splitOutputs replaces the single output argument by several of random
// widths (multi-output circuits, 1-bit and odd widths).
func splitOutputs(r *hxlib.Rng, c *circuit.Circuit) []int {
	n := c.Outputs.Size()
	var widths []int
	for n > 0 {
		w := 1 + r.Intn(n)
		if r.Intn(3) == 0 {
			w = 1
		}
		widths = append(widths, w)
		n -= w
	}
	var outs circuit.IO
	for i, w := range widths {
		outs = append(outs, hxlib.UintIO(fmt.Sprintf("r%d", i), w))
	}
	c.Outputs = outs
	return widths
}

func intsString(v []int) string {
	var s []string
	for _, x := range v {
		s = append(s, fmt.Sprint(x))
	}
	return strings.Join(s, ",")
}

func mkOT(name string, rng *hxlib.Rng) ot.OT {
	switch name {
	case "co":
		return ot.NewCO(rng)
	case "rsa":
		return ot.NewRSA(rng, 2048)
	case "cot":
		return ot.NewCOT(ot.NewCO(rng), rng, false, false)
	case "cotm":
		return ot.NewCOT(ot.NewCO(rng), rng, true, false)
	}
	panic("unknown ot " + name)
}

func run(args []string, real bool) int {
	cf, o := hxlib.ParseCommon("c02", args, nil)
	defer o.Close()
	rng := hxlib.NewRng(cf.Seed)
	mixes := []string{"uniform", "and", "orinv", "xnor"}
	ots := []string{"co", "cot", "cotm", "co", "cot", "cotm", "rsa"}
	rsaLeft := 3
	if cf.Tier == "thorough" {
		rsaLeft = 12
	}
	for i := 0; i < cf.N; i++ {
		r := rng.Fork()
		if cf.Only >= 0 && i != cf.Only {
			continue
		}
		maxIn := 6
		if i%5 == 0 {
			maxIn = 70 // wide arguments (> 64 bits)
		}
		c := hxlib.GenCircuit(r, hxlib.GenOpts{MaxGates: 80, MaxIn: maxIn, Mix: mixes[i%len(mixes)]})
		widths := splitOutputs(r, c)
		n0 := int(c.Inputs[0].Type.Bits)
		n1 := int(c.Inputs[1].Type.Bits)
		nin := n0 + n1
		x := make([]bool, n0)
		y := make([]bool, n1)
		for j := range x {
			x[j] = r.Bool()
		}
		for j := range y {
			y[j] = r.Bool()
		}
		tape := r.Bytes(32 + 16*(1+nin))
		otName := "ideal"
		if real {
			otName = ots[i%len(ots)]
			if otName == "rsa" {
				if rsaLeft == 0 {
					otName = "co"
				} else {
					rsaLeft--
				}
			}
		}
		op := fmt.Sprintf("c02 %s %s %s %d %d %s %s %s", otName, hxlib.Hex(tape), hxlib.CircLine(c), n0, n1,
			intsString(widths), hxlib.BitsString(x), hxlib.BitsString(y))

		d := hxlib.NewDuplex(r.Fork())
		var gOT, eOT ot.OT
		var randG interface {
			Read([]byte) (int, error)
		}
		if real {
			gr := r.Fork()
			// the garbler draws key, R and input labels first: feed those from
			// the tape so that the model sees the same garbling, then continue
			// with the seeded stream for the OT's randomness
			randG = &tapeThen{tape: tape, rest: gr}
			gOT = mkOT(otName, gr)
			eOT = mkOT(otName, r.Fork())
		} else {
			randG = &hxlib.Tape{Data: tape}
			ideal := hxlib.NewIdealOT()
			gOT, eOT = ideal, ideal
		}
		res := hxlib.RunSession(c, bitsToBig(x), bitsToBig(y), gOT, eOT, randG, d, 60*time.Second)
		d.Close()

		var sb strings.Builder
		switch {
		case res.Stalled:
			sb.WriteString("stalled")
			o.Fail("c02-stalled", map[string]any{"case": i, "ot": otName, "op": op})
		case res.GPanic != nil || res.EPanic != nil:
			sb.WriteString("panic")
			o.Fail("c02-panic", map[string]any{"case": i, "ot": otName, "op": op, "g": fmt.Sprint(res.GPanic), "e": fmt.Sprint(res.EPanic)})
		case res.GErr != nil || res.EErr != nil:
			sb.WriteString("error")
			o.Fail("c02-error", map[string]any{"case": i, "ot": otName, "op": op, "g": fmt.Sprint(res.GErr), "e": fmt.Sprint(res.EErr)})
		default:
			if !real {
				fmt.Fprintf(&sb, "ge=%s;eg=%s;", hxlib.Hex(d.AB.Rec), hxlib.Hex(d.BA.Rec))
			}
			fmt.Fprintf(&sb, "g=%s;e=%s", hxlib.BigsString(res.GRes), hxlib.BigsString(res.ERes))
			// oracle
			want, err := c.Compute([]*big.Int{bitsToBig(x), bitsToBig(y)})
			if err != nil {
				o.Fail("c02-compute-error", map[string]any{"case": i, "op": op, "err": err.Error()})
			} else if hxlib.BigsString(want) != hxlib.BigsString(res.GRes) || hxlib.BigsString(want) != hxlib.BigsString(res.ERes) {
				o.Fail("c02-wrong-result", map[string]any{"case": i, "ot": otName, "op": op, "want": hxlib.BigsString(want),
					"garbler": hxlib.BigsString(res.GRes), "evaluator": hxlib.BigsString(res.ERes)})
			}
		}
		o.Op(op, sb.String())
		o.Count("sessions")
		o.Count("ot_" + otName)
		o.Count(fmt.Sprintf("outputs_%d", minI(len(widths), 4)))
		if n0 > 64 || n1 > 64 {
			o.Count("wide_input")
		}
		o.CountN("transport_reads", d.AB.Reads+d.BA.Reads)
		if i < 3 {
			o.Sample(map[string]any{"case": i, "ot": otName, "circuit": hxlib.CircLine(c), "n0": n0, "n1": n1, "widths": widths})
		}
	}
	return 0
}

func minI(a, b int) int {
	if a < b {
		return a
	}
	return b
}

// tapeThen reads from a fixed tape first, then from a seeded stream.
type tapeThen struct {
	tape []byte
	pos  int
	rest *hxlib.Rng
}

func (t *tapeThen) Read(p []byte) (int, error) {
	n := 0
	for n < len(p) && t.pos < len(t.tape) {
		p[n] = t.tape[t.pos]
		n++
		t.pos++
	}
	if n < len(p) {
		t.rest.Read(p[n:])
	}
	return len(p), nil
}

// c02: two-party protocol sessions on the real code.
//
//	ideal: circuit.Garbler/Evaluator over a recording, read-fragmenting
//	       transport with an out-of-band ideal OT; the complete byte streams of
//	       both directions and both result vectors are compared with the Lean
//	       model (Model/Proto2.lean + the Conn byte encoding).
//	real:  the same with the library's OT implementations (co, rsa, cot,
//	       cotm = COT malicious); results compared with the model, oracle:
//	       both parties' results equal each other and Circuit.Compute.
//	compiled: compiled MPCL programs (struct / array arguments), real OTs.
//	shared: overlapping sessions on one shared *circuit.Circuit value.
//	repr:  every session class with inputs in the representations the API
//	       accepts: text through IOArg.Parse and *big.Int values of any sign
//	       and magnitude (repr.go); `replay <file>` re-runs one such case.
//	Every mode but conn constructs the circuit VALUE of each case along a
//	planned route (routes.go: exact / zero / stale Stats, parsed from bytes,
//	parsed then edited, after AssignLevels); op prefix `c02 rt <route> <Stats>`.
//	conn:  sessions whose byte volume crosses the p2p.Conn buffer sizes
//	       (64 KiB write buffer, 1 MiB read buffer) with every OT, over a
//	       fragmenting / delaying transport (conn.go, transport.go); compared
//	       with the model of the session over the connection model.
package main

import (
	"fmt"
	"math/big"
	"os"
	"strings"
	"sync"
	"time"

	"github.com/markkurossi/mpc/circuit"
	"github.com/markkurossi/mpc/compiler"
	"github.com/markkurossi/mpc/compiler/utils"
	"github.com/markkurossi/mpc/ot"

	"verifharness/hxlib"
)

func main() {
	if len(os.Args) < 2 {
		fmt.Fprintln(os.Stderr, "usage: c02 ideal|real|compiled|shared|conn|repr [flags] | replay <file>")
		os.Exit(2)
	}
	switch os.Args[1] {
	case "ideal":
		os.Exit(run(os.Args[2:], false))
	case "real":
		os.Exit(run(os.Args[2:], true))
	case "compiled":
		os.Exit(compiled(os.Args[2:]))
	case "shared":
		os.Exit(shared(os.Args[2:]))
	case "conn":
		os.Exit(connMode(os.Args[2:]))
	case "repr":
		os.Exit(reprMode(os.Args[2:]))
	case "replay":
		os.Exit(replayMode(os.Args[2:]))
	default:
		fmt.Fprintf(os.Stderr, "unknown mode %q\n", os.Args[1])
		os.Exit(2)
	}
}

func bitsToBig(bits []bool) *big.Int {
	v := new(big.Int)
	for i, b := range bits {
		if b {
			v.SetBit(v, i, 1)
		}
	}
	return v
}

// splitOutputs replaces the single output argument by several of random
// widths (multi-output circuits, 1-bit and odd widths).
func splitOutputs(r *hxlib.Rng, c *circuit.Circuit) []int {
	n := c.Outputs.Size()
	var widths []int
	for n > 0 {
		w := 1 + r.Intn(n)
		if r.Intn(3) == 0 {
			w = 1
		}
		widths = append(widths, w)
		n -= w
	}
	var outs circuit.IO
	for i, w := range widths {
		outs = append(outs, hxlib.UintIO(fmt.Sprintf("r%d", i), w))
	}
	c.Outputs = outs
	return widths
}

func intsString(v []int) string {
	var s []string
	for _, x := range v {
		s = append(s, fmt.Sprint(x))
	}
	return strings.Join(s, ",")
}

func mkOT(name string, rng *hxlib.Rng) ot.OT {
	switch name {
	case "co":
		return ot.NewCO(rng)
	case "rsa":
		return ot.NewRSA(rng, 2048)
	case "cot":
		return ot.NewCOT(ot.NewCO(rng), rng, false, false)
	case "cotm":
		return ot.NewCOT(ot.NewCO(rng), rng, true, false)
	}
	panic("unknown ot " + name)
}

func run(args []string, real bool) int {
	cf, o := hxlib.ParseCommon("c02", args, nil)
	defer o.Close()
	rng := hxlib.NewRng(cf.Seed)
	mixes := []string{"uniform", "and", "orinv", "xnor"}
	ots := []string{"co", "cot", "cotm", "co", "cot", "cotm", "rsa"}
	rsaLeft := 3
	if cf.Tier == "thorough" {
		rsaLeft = 12
	}
	for i := 0; i < cf.N; i++ {
		r := rng.Fork()
		if cf.Only >= 0 && i != cf.Only {
			continue
		}
		maxIn := 6
		if i%5 == 0 {
			maxIn = 70 // wide arguments (> 64 bits)
		}
		wideEval := real && i%6 == 1
		gopts := hxlib.GenOpts{MaxGates: 80, MaxIn: maxIn, Mix: mixes[i%len(mixes)]}
		if wideEval {
			// evaluator argument beyond one OT-extension chunk (512 rows),
			// mostly not byte aligned
			gopts.N0 = 1 + r.Intn(40)
			gopts.N1 = 513 + r.Intn(900)
			if (i/6)%3 == 2 {
				// the Chou-Orlandi sessions go beyond 1024 transfers in one batch
				gopts.N1 = 1025 + r.Intn(400)
			}
			if gopts.N1%8 == 0 {
				gopts.N1 += 1 + r.Intn(7)
			}
		}
		c := hxlib.GenCircuit(r, gopts)
		if wideEval {
			// every input bit must influence the result
			c = hxlib.GenParityCircuit(r, gopts.N0+8, gopts.N1)
		}
		widths := splitOutputs(r, c)
		// construction route of the circuit value (routes.go), by case index
		c, route := applyRoute(c, routeNames[i%len(routeNames)], routeRng(uint64(cf.Seed)^0x11, i), o)
		n0 := int(c.Inputs[0].Type.Bits)
		n1 := int(c.Inputs[1].Type.Bits)
		nin := n0 + n1
		x := make([]bool, n0)
		y := make([]bool, n1)
		for j := range x {
			x[j] = r.Bool()
		}
		for j := range y {
			y[j] = r.Bool()
		}
		if wideEval {
			// structured choice patterns: low part set, tail clear (and the
			// reverse), besides random
			switch r.Intn(3) {
			case 0:
				for j := range y {
					y[j] = j < 512
				}
			case 1:
				for j := range y {
					y[j] = j >= 512
				}
			}
		}
		tape := r.Bytes(32 + 16*(1+nin))
		otName := "ideal"
		if real {
			otName = ots[i%len(ots)]
			if wideEval {
				otName = []string{"cot", "cotm", "co"}[(i/6)%3]
			}
			if otName == "rsa" {
				if rsaLeft == 0 {
					otName = "co"
				} else {
					rsaLeft--
				}
			}
		}
		op := routeOp(fmt.Sprintf("c02 %s %s %s %d %d %s %s %s", otName, hxlib.Hex(tape), hxlib.CircLine(c), n0, n1,
			intsString(widths), hxlib.BitsString(x), hxlib.BitsString(y)), route, c)

		d := hxlib.NewDuplex(r.Fork())
		var gOT, eOT ot.OT
		var randG interface {
			Read([]byte) (int, error)
		}
		if real {
			gr := r.Fork()
			// the garbler draws key, R and input labels first: feed those from
			// the tape so that the model sees the same garbling, then continue
			// with the seeded stream for the OT's randomness
			randG = &tapeThen{tape: tape, rest: gr}
			gOT = mkOT(otName, gr)
			eOT = mkOT(otName, r.Fork())
		} else {
			randG = &hxlib.Tape{Data: tape}
			ideal := hxlib.NewIdealOT()
			gOT, eOT = ideal, ideal
		}
		res := hxlib.RunSession(c, bitsToBig(x), bitsToBig(y), gOT, eOT, randG, d, 60*time.Second)
		d.Close()

		var sb strings.Builder
		switch {
		case res.Stalled:
			sb.WriteString("stalled")
			o.Fail("c02-stalled", map[string]any{"case": i, "ot": otName, "route": route, "op": op})
		case res.GPanic != nil || res.EPanic != nil:
			sb.WriteString("panic")
			o.Fail("c02-panic", map[string]any{"case": i, "ot": otName, "route": route, "op": op, "g": fmt.Sprint(res.GPanic), "e": fmt.Sprint(res.EPanic)})
		case res.GErr != nil || res.EErr != nil:
			sb.WriteString("error")
			o.Fail("c02-error", map[string]any{"case": i, "ot": otName, "route": route, "op": op, "g": fmt.Sprint(res.GErr), "e": fmt.Sprint(res.EErr)})
		default:
			if !real {
				fmt.Fprintf(&sb, "ge=%s;eg=%s;", hxlib.Hex(d.AB.Rec), hxlib.Hex(d.BA.Rec))
			}
			fmt.Fprintf(&sb, "g=%s;e=%s", hxlib.BigsString(res.GRes), hxlib.BigsString(res.ERes))
			// oracle
			want, err := c.Compute([]*big.Int{bitsToBig(x), bitsToBig(y)})
			if err != nil {
				o.Fail("c02-compute-error", map[string]any{"case": i, "op": op, "err": err.Error()})
			} else if hxlib.BigsString(want) != hxlib.BigsString(res.GRes) || hxlib.BigsString(want) != hxlib.BigsString(res.ERes) {
				o.Fail("c02-wrong-result", map[string]any{"case": i, "ot": otName, "op": op, "want": hxlib.BigsString(want),
					"garbler": hxlib.BigsString(res.GRes), "evaluator": hxlib.BigsString(res.ERes)})
			}
		}
		o.Op(op, sb.String())
		o.Count("sessions")
		o.Count("ot_" + otName)
		countRoute(o, "run", route, "random", otName, c)
		o.Count(fmt.Sprintf("outputs_%d", minI(len(widths), 4)))
		if n0 > 64 || n1 > 64 {
			o.Count("wide_input")
		}
		if n1 > 512 {
			o.Count("evaluator_input_over_512_bits")
			if n1%8 != 0 {
				o.Count("evaluator_input_over_512_bits_not_byte_aligned")
			}
		}
		o.CountN("transport_reads", d.AB.Reads+d.BA.Reads)
		if i < 3 {
			o.Sample(map[string]any{"case": i, "ot": otName, "circuit": hxlib.CircLine(c), "n0": n0, "n1": n1, "widths": widths})
		}
	}
	return 0
}

func minI(a, b int) int {
	if a < b {
		return a
	}
	return b
}

// tapeThen reads from a fixed tape first, then from a seeded stream.
type tapeThen struct {
	tape []byte
	pos  int
	rest *hxlib.Rng
}

func (t *tapeThen) Read(p []byte) (int, error) {
	n := 0
	for n < len(p) && t.pos < len(t.tape) {
		p[n] = t.tape[t.pos]
		n++
		t.pos++
	}
	if n < len(p) {
		t.rest.Read(p[n:])
	}
	return len(p), nil
}

// ---------------------------------------------------------------- compiled

var programs = []string{
	"package main\nfunc main(a, b uint8) uint8 { return a + b }\n",
	"package main\nfunc main(a, b int16) (int16, bool) { return a - b, a < b }\n",
	"package main\ntype G struct { x uint4\n y int5 }\nfunc main(a G, b [2]uint3) (uint4, int5, uint3) { return a.x + 1, a.y - 2, b[0] ^ b[1] }\n",
	"package main\nfunc main(a [3]uint4, b int70) ([3]uint4, int70, bool) { return a, b + 1, a[0] > a[1] }\n",
	"package main\nfunc main(a uint1, b uint1) (uint1, uint1, uint1) { return a & b, a | b, a ^ b }\n",
	"package main\nfunc main(a uint13, b uint7) (uint13, uint7) { if a > uint13(b) { return a * 3, b }\n return a, b + 1 }\n",
	"package main\nfunc main(a int33, b int33) (int33, int33) { return a * b, a / 7 }\n",
	"package main\nfunc main(a, b uint64) (uint64, uint64, bool) { return a + b, a &^ b, a == b }\n",
	"package main\nfunc main(a uint3, b uint100) uint100 { return b << 3 | uint100(a) }\n",
}

// computeInputs splits the two parties' bit vectors into one value per
// flattened circuit argument, as Circuit.Compute expects.
func computeInputs(c *circuit.Circuit, bits []bool) []*big.Int {
	var res []*big.Int
	ofs := 0
	for _, io := range c.Inputs {
		if len(io.Compound) > 0 {
			for _, m := range io.Compound {
				res = append(res, bitsToBig(bits[ofs:ofs+int(m.Type.Bits)]))
				ofs += int(m.Type.Bits)
			}
		} else {
			res = append(res, bitsToBig(bits[ofs:ofs+int(io.Type.Bits)]))
			ofs += int(io.Type.Bits)
		}
	}
	return res
}

func compiled(args []string) int {
	cf, o := hxlib.ParseCommon("c02", args, nil)
	defer o.Close()
	rng := hxlib.NewRng(cf.Seed ^ 0xc0)
	var circs []*circuit.Circuit
	for i, src := range programs {
		c, _, err := compiler.New(utils.NewParams()).Compile(src, nil)
		if err != nil || len(c.Inputs) != 2 {
			o.Fail("c02-compile-error", map[string]any{"program": i, "src": src, "err": fmt.Sprint(err)})
			return 0
		}
		circs = append(circs, c)
	}
	ots := []string{"co", "cot", "cotm"}
	for i := 0; i < cf.N; i++ {
		r := rng.Fork()
		if cf.Only >= 0 && i != cf.Only {
			continue
		}
		pi := i % len(circs)
		// a NEW circuit value per case, constructed along the case's route
		c, route := applyRoute(circs[pi], routeNames[(i/3)%len(routeNames)], routeRng(uint64(cf.Seed)^0x22, i), o)
		n0 := int(c.Inputs[0].Type.Bits)
		n1 := int(c.Inputs[1].Type.Bits)
		x := make([]bool, n0)
		y := make([]bool, n1)
		fill := r.Intn(4)
		for j := range x {
			x[j] = fill == 0 && r.Bool() || fill == 1
		}
		for j := range y {
			y[j] = fill == 0 && r.Bool() || fill == 1 || fill == 3 && j == n1-1
		}
		if fill == 3 && n0 > 0 {
			x[n0-1] = true
		}
		var widths []int
		for _, io := range c.Outputs {
			widths = append(widths, int(io.Type.Bits))
		}
		tape := r.Bytes(32 + 16*(1+n0+n1))
		otName := ots[i%len(ots)]
		op := routeOp(fmt.Sprintf("c02 %s %s %s %d %d %s %s %s", otName, hxlib.Hex(tape), hxlib.CircLine(c), n0, n1,
			intsString(widths), hxlib.BitsString(x), hxlib.BitsString(y)), route, c)
		d := hxlib.NewDuplex(r.Fork())
		gr := r.Fork()
		res := hxlib.RunSession(c, bitsToBig(x), bitsToBig(y), mkOT(otName, gr), mkOT(otName, r.Fork()),
			&tapeThen{tape: tape, rest: gr}, d, 60*time.Second)
		d.Close()
		var sb strings.Builder
		switch {
		case res.Stalled:
			sb.WriteString("stalled")
			o.Fail("c02-stalled", map[string]any{"case": i, "program": pi, "route": route, "op": clipS(op, 6000), "ot": otName})
		case res.GPanic != nil || res.EPanic != nil:
			sb.WriteString("panic")
			o.Fail("c02-panic", map[string]any{"case": i, "program": pi, "route": route, "op": clipS(op, 6000), "g": fmt.Sprint(res.GPanic), "e": fmt.Sprint(res.EPanic)})
		case res.GErr != nil || res.EErr != nil:
			sb.WriteString("error")
			o.Fail("c02-error", map[string]any{"case": i, "program": pi, "route": route, "op": clipS(op, 6000), "g": fmt.Sprint(res.GErr), "e": fmt.Sprint(res.EErr)})
		default:
			fmt.Fprintf(&sb, "g=%s;e=%s", hxlib.BigsString(res.GRes), hxlib.BigsString(res.ERes))
			want, err := c.Compute(computeInputs(c, append(append([]bool(nil), x...), y...)))
			if err != nil {
				o.Fail("c02-compute-error", map[string]any{"case": i, "program": pi, "err": err.Error()})
			} else if hxlib.BigsString(want) != hxlib.BigsString(res.GRes) || hxlib.BigsString(want) != hxlib.BigsString(res.ERes) {
				o.Fail("c02-wrong-result", map[string]any{"case": i, "program": pi, "src": programs[pi], "ot": otName,
					"x": hxlib.BitsString(x), "y": hxlib.BitsString(y), "want": hxlib.BigsString(want),
					"garbler": hxlib.BigsString(res.GRes), "evaluator": hxlib.BigsString(res.ERes)})
			}
		}
		o.Op(op, sb.String())
		o.Count("sessions_compiled")
		countRoute(o, "compiled", route, "compiled", otName, c)
		o.Count(fmt.Sprintf("program_%d", pi))
		if i < 2 {
			o.Sample(map[string]any{"case": i, "src": programs[pi], "ot": otName, "gates": c.NumGates})
		}
	}
	return 0
}

// ---------------------------------------------------------------- shared

// shared runs many OVERLAPPING sessions on one shared *circuit.Circuit value
// (a server garbling the same compiled circuit for several peers): each
// session has its own connection, inputs and random tape and must behave
// exactly like a session run alone (transcripts and results compared with the
// model, results with Circuit.Compute).
func shared(args []string) int {
	cf, o := hxlib.ParseCommon("c02", args, nil)
	defer o.Close()
	rng := hxlib.NewRng(cf.Seed ^ 0x5a)
	mixes := []string{"uniform", "and", "orinv", "xnor"}
	rounds := cf.N
	const par = 24
	for round := 0; round < rounds; round++ {
		r := rng.Fork()
		c := hxlib.GenCircuit(r, hxlib.GenOpts{MaxGates: 60, MaxIn: 6, Mix: mixes[round%len(mixes)]})
		widths := splitOutputs(r, c)
		// ONE shared circuit value per round, constructed along the round's route
		c, route := applyRoute(c, routeNames[round%len(routeNames)], routeRng(uint64(cf.Seed)^0x33, round), o)
		n0 := int(c.Inputs[0].Type.Bits)
		n1 := int(c.Inputs[1].Type.Bits)
		type sess struct {
			op   string
			x, y []bool
			tape []byte
			d    *hxlib.Duplex
			res  *hxlib.SessionResult
		}
		ss := make([]*sess, par)
		for k := range ss {
			s := &sess{x: make([]bool, n0), y: make([]bool, n1)}
			for j := range s.x {
				s.x[j] = r.Bool()
			}
			for j := range s.y {
				s.y[j] = r.Bool()
			}
			s.tape = r.Bytes(32 + 16*(1+n0+n1))
			s.op = routeOp(fmt.Sprintf("c02 ideal %s %s %d %d %s %s %s", hxlib.Hex(s.tape), hxlib.CircLine(c), n0, n1,
				intsString(widths), hxlib.BitsString(s.x), hxlib.BitsString(s.y)), route, c)
			s.d = hxlib.NewDuplex(r.Fork())
			ss[k] = s
		}
		var wg sync.WaitGroup
		start := make(chan struct{})
		for _, s := range ss {
			wg.Add(1)
			go func(s *sess) {
				defer wg.Done()
				<-start
				ideal := hxlib.NewIdealOT()
				s.res = hxlib.RunSession(c, bitsToBig(s.x), bitsToBig(s.y), ideal, ideal, &hxlib.Tape{Data: s.tape},
					s.d, 60*time.Second)
				s.d.Close()
			}(s)
		}
		close(start)
		wg.Wait()
		want := func(s *sess) string {
			w, err := c.Compute([]*big.Int{bitsToBig(s.x), bitsToBig(s.y)})
			if err != nil {
				return "compute-error"
			}
			return hxlib.BigsString(w)
		}
		for k, s := range ss {
			res := s.res
			var sb strings.Builder
			switch {
			case res.Stalled:
				sb.WriteString("stalled")
				o.Fail("c02-shared-stalled", map[string]any{"round": round, "session": k, "op": s.op})
			case res.GPanic != nil || res.EPanic != nil:
				sb.WriteString("panic")
				o.Fail("c02-shared-panic", map[string]any{"round": round, "session": k, "g": fmt.Sprint(res.GPanic), "e": fmt.Sprint(res.EPanic)})
			case res.GErr != nil || res.EErr != nil:
				sb.WriteString("error")
				o.Fail("c02-shared-error", map[string]any{"round": round, "session": k, "op": s.op,
					"g": fmt.Sprint(res.GErr), "e": fmt.Sprint(res.EErr)})
			default:
				fmt.Fprintf(&sb, "ge=%s;eg=%s;g=%s;e=%s", hxlib.Hex(s.d.AB.Rec), hxlib.Hex(s.d.BA.Rec),
					hxlib.BigsString(res.GRes), hxlib.BigsString(res.ERes))
				if w := want(s); w != hxlib.BigsString(res.GRes) || w != hxlib.BigsString(res.ERes) {
					o.Fail("c02-shared-wrong-result", map[string]any{"round": round, "session": k, "op": s.op, "want": w,
						"garbler": hxlib.BigsString(res.GRes), "evaluator": hxlib.BigsString(res.ERes)})
				}
			}
			o.Op(s.op, sb.String())
			o.Count("sessions_shared")
		}
		o.Count("shared_rounds")
		countRoute(o, "shared", route, "shared", "ideal", c)
		if round < 1 {
			o.Sample(map[string]any{"round": round, "concurrent_sessions": par, "circuit": hxlib.CircLine(c)})
		}
	}
	return 0
}

// repr mode: input REPRESENTATIONS.
//
// The property quantifies over every pair of private inputs.  An input is a
// *big.Int handed to circuit.Garbler / circuit.Evaluator, and the public API
// produces it from text with circuit.IOArg.Parse (apps/garbled, compiler
// tests): `SetString(s, 0)` for a plain int / uint argument -- a NEGATIVE
// big.Int for "-5", a value of any magnitude for a long literal, any base
// prefix -- per-member parsing and SetBit packing for a struct argument, digit
// strings for arrays, words for bool.  Nothing between Parse and the two
// protocol functions normalises the value to the declared width.  The other
// modes build inputs from bit patterns (non-negative, never wider than the
// argument); this mode gives every session class its inputs in the forms the
// API accepts:
//
//	form "text"    strings -> IOArg.Parse -> Garbler / Evaluator
//	form "direct"  a *big.Int of any sign and magnitude passed directly, also
//	               for struct arguments (the packed value)
//
// Value classes per int / uint member of width w: 0, in range, -1, negative in
// the signed range, -2^(w-1), 2^(w-1)-1, 2^w-1, +-2^w, magnitudes with bits
// beyond w (positive and negative), magnitudes at machine-word boundaries
// (+-2^63, +-2^64, +-(2^64 +- 1), +-2^128), written in decimal, 0x, 0b, 0o and
// with a sign.
//
// Session classes: hand-made random circuits and parity circuits (every
// input bit reaches an output) with ideal OT (complete transcripts compared
// with the model), CO, COT, COT-malicious, RSA; compiled MPCL programs with
// signed / struct / array arguments; overlapping sessions on one shared
// circuit value.
//
// Op line:  c02 int <ot> <tape> <circuit> <n0> <n1> <out widths> <xs> <ys>
// with xs, ys = `<width>:<signed decimal>,...` per flattened member: the Lean
// model (Model/Proto2Int.lean) encodes them with big.Int.Bit semantics.
// Oracle: both parties' results equal Circuit.Compute on the same member
// values.
package main

import (
	"encoding/json"
	"fmt"
	"math/big"
	"os"
	"strings"
	"sync"
	"time"

	"github.com/markkurossi/mpc/circuit"
	"github.com/markkurossi/mpc/compiler"
	"github.com/markkurossi/mpc/compiler/utils"
	"github.com/markkurossi/mpc/types"

	"verifharness/hxlib"
)

// programs whose arguments are signed, struct and array typed: the forms in
// which apps/garbled users give negative numbers.
var reprPrograms = []string{
	"package main\nfunc main(a, b int8) int8 { return a + b }\n",
	"package main\nfunc main(a, b int32) (int32, bool) { return a - b, a < b }\n",
	"package main\nfunc main(a int64, b int64) (int64, bool, bool) { return a + b, a > b, a == b }\n",
	"package main\nfunc main(a uint16, b int16) (uint16, int16) { return a + uint16(b), b }\n",
	"package main\ntype G struct { x uint4\n y int5 }\nfunc main(a G, b G) (uint4, int5, int5) { return a.x + b.x, a.y - b.y, b.y }\n",
	"package main\nfunc main(a [3]uint4, b int70) ([3]uint4, int70, bool) { return a, b + 1, a[0] > a[1] }\n",
	"package main\nfunc main(a int3, b int130) int130 { return b + int130(a) }\n",
	"package main\ntype P struct { s int9\n f bool\n u uint7 }\nfunc main(a int9, b P) (int9, bool, uint7) { if b.f { return a + b.s, b.f, b.u }\n return a - b.s, b.f, b.u + 1 }\n",
	"package main\nfunc main(a int13, b uint13) (int13, uint13) { return a * 3, b * 3 }\n",
}

func pow2(k int) *big.Int { return new(big.Int).Lsh(big.NewInt(1), uint(k)) }

func randBig(r *hxlib.Rng, bits int) *big.Int {
	v := new(big.Int)
	for i := 0; i < bits; i++ {
		if r.Bool() {
			v.SetBit(v, i, 1)
		}
	}
	return v
}

// genInt picks an integer for a member of width w; the class name is counted.
func genInt(r *hxlib.Rng, w int) (*big.Int, string) {
	one := big.NewInt(1)
	neg := func(v *big.Int) *big.Int { return new(big.Int).Neg(v) }
	switch r.Intn(16) {
	case 0:
		return new(big.Int), "zero"
	case 1, 2:
		return randBig(r, w), "in_range"
	case 3:
		return big.NewInt(-1), "minus_one"
	case 4, 5:
		// negative inside the signed range [-2^(w-1), -1]
		v := randBig(r, w-1)
		v.Add(v, one)
		return neg(v), "negative_in_signed_range"
	case 6:
		return neg(pow2(w - 1)), "min_signed"
	case 7:
		if r.Bool() {
			return new(big.Int).Sub(pow2(w-1), one), "max_signed"
		}
		return new(big.Int).Sub(pow2(w), one), "max_unsigned"
	case 8:
		if r.Bool() {
			return pow2(w), "two_pow_w"
		}
		return neg(pow2(w)), "minus_two_pow_w"
	case 9, 10:
		// bits beyond the declared width, positive
		v := randBig(r, w+1+r.Intn(130))
		v.SetBit(v, w+r.Intn(3), 1)
		return v, "positive_wider_than_argument"
	case 11, 12:
		v := randBig(r, w+1+r.Intn(130))
		v.SetBit(v, w+r.Intn(3), 1)
		return neg(v), "negative_wider_than_argument"
	case 13, 14:
		// magnitudes at machine-word boundaries
		k := []int{63, 64, 64, 128, 32}[r.Intn(5)]
		v := pow2(k)
		switch r.Intn(3) {
		case 0:
			v.Add(v, one)
		case 1:
			v.Sub(v, one)
		}
		if r.Intn(3) != 0 {
			return neg(v), "negative_word_boundary_magnitude"
		}
		return v, "positive_word_boundary_magnitude"
	default:
		// small negative numbers as a user types them
		return big.NewInt(-int64(1 + r.Intn(1000))), "small_negative"
	}
}

// genIntSign is genInt, restricted to negative values when neg is set.
func genIntSign(r *hxlib.Rng, w int, neg bool) (*big.Int, string) {
	for {
		v, cls := genInt(r, w)
		if !neg || v.Sign() < 0 {
			return v, cls
		}
	}
}

// intText writes v in one of the notations SetString(s, 0) accepts.
func intText(r *hxlib.Rng, v *big.Int) string {
	sign := ""
	a := new(big.Int).Abs(v)
	if v.Sign() < 0 {
		sign = "-"
	}
	switch r.Intn(6) {
	case 0:
		return sign + "0x" + a.Text(16)
	case 1:
		return sign + "0b" + a.Text(2)
	case 2:
		return sign + "0o" + a.Text(8)
	case 3:
		if v.Sign() > 0 {
			return "+" + a.Text(10)
		}
	}
	return v.String()
}

// memberText gives the text of one flattened member.
func memberText(r *hxlib.Rng, o *hxlib.Out, t types.Info, neg bool) string {
	switch t.Type {
	case types.TBool:
		return []string{"0", "1", "true", "false", "t", "f"}[r.Intn(6)]
	case types.TArray:
		total := int(t.Bits)
		switch r.Intn(4) {
		case 0:
			return "0"
		case 1:
			if total >= 4 {
				d := 1 + r.Intn(total/4)
				return "0x" + hxlib.Hex(r.Bytes((d + 1) / 2))[:d]
			}
		case 2:
			o.Count("member_array_negative_decimal")
			return "-" + randBig(r, 1+r.Intn(total)).String()
		}
		o.Count("member_array_decimal")
		return randBig(r, 1+r.Intn(total)).String()
	default:
		v, cls := genIntSign(r, int(t.Bits), neg)
		o.Count("member_" + cls)
		return intText(r, v)
	}
}

// shapeArg re-declares a hand-made circuit's argument of n bits as int, uint,
// bool, struct or array.
func shapeArg(r *hxlib.Rng, name string, n int, scalarOnly bool) circuit.IOArg {
	mk := func(t types.Type, bits int) types.Info {
		return types.Info{Type: t, IsConcrete: true, Bits: types.Size(bits)}
	}
	scalar := func(bits int) types.Info {
		if bits == 1 && r.Intn(3) == 0 {
			return mk(types.TBool, 1)
		}
		if r.Bool() {
			return mk(types.TInt, bits)
		}
		return mk(types.TUint, bits)
	}
	k := r.Intn(8)
	if scalarOnly {
		k = 7
	}
	switch {
	case k < 2 && n >= 2:
		// struct of 2..4 members
		arg := circuit.IOArg{Name: name, Type: mk(types.TStruct, n)}
		left := n
		for m := 0; left > 0; m++ {
			w := 1 + r.Intn(left)
			if m == 3 {
				w = left
			}
			arg.Compound = append(arg.Compound, circuit.IOArg{Name: fmt.Sprintf("%s.f%d", name, m), Type: scalar(w)})
			left -= w
		}
		return arg
	case k == 2 && n >= 2:
		for _, e := range []int{4, 3, 8, 2, 5, 1} {
			if n%e == 0 && n/e >= 2 {
				el := mk(types.TUint, e)
				t := mk(types.TArray, n)
				t.ElementType = &el
				t.ArraySize = types.Size(n / e)
				return circuit.IOArg{Name: name, Type: t}
			}
		}
	}
	return circuit.IOArg{Name: name, Type: scalar(n)}
}

// partyInput is one party's input in the form it is handed to the protocol
// function and in the form Circuit.Compute and the model take it.
type partyInput struct {
	form    string     // "text" | "direct"
	texts   []string   // form text: what IOArg.Parse was given
	value   *big.Int   // handed to Garbler / Evaluator
	members []*big.Int // per flattened member, for Circuit.Compute
	spec    string     // `<width>:<decimal>,...` for the op line
}

func flatten(arg circuit.IOArg) circuit.IO {
	if len(arg.Compound) > 0 {
		return arg.Compound
	}
	return circuit.IO{arg}
}

func bitField(v *big.Int, ofs, w int) *big.Int {
	res := new(big.Int)
	for i := 0; i < w; i++ {
		res.SetBit(res, i, v.Bit(ofs+i))
	}
	return res
}

func genPartyInput(r *hxlib.Rng, o *hxlib.Out, arg circuit.IOArg, neg bool) (*partyInput, error) {
	flat := flatten(arg)
	n := int(arg.Type.Bits)
	in := &partyInput{}
	if r.Intn(4) == 0 {
		// a big.Int of any sign and magnitude passed directly for the whole
		// argument; Compute's members are the bit fields the wires carry
		in.form = "direct"
		v, cls := genIntSign(r, n, neg)
		o.Count("direct_" + cls)
		in.value = v
		ofs := 0
		for _, m := range flat {
			in.members = append(in.members, bitField(v, ofs, int(m.Type.Bits)))
			ofs += int(m.Type.Bits)
		}
		if len(flat) == 1 {
			in.members = []*big.Int{v}
		}
		in.spec = fmt.Sprintf("%d:%s", n, v.String())
		return in, nil
	}
	in.form = "text"
	var specs []string
	for _, m := range flat {
		txt := memberText(r, o, m.Type, neg)
		mv, err := m.Parse([]string{txt})
		if err != nil {
			o.Count("parse_rejected_member_text")
			txt = "0"
			mv, err = m.Parse([]string{txt})
			if err != nil {
				return nil, err
			}
		}
		in.texts = append(in.texts, txt)
		in.members = append(in.members, mv)
		specs = append(specs, fmt.Sprintf("%d:%s", int(m.Type.Bits), mv.String()))
	}
	v, err := arg.Parse(in.texts)
	if err != nil {
		return nil, err
	}
	in.value = v
	in.spec = strings.Join(specs, ",")
	return in, nil
}

type reprCase struct {
	idx    int
	kind   string // random | parity | compiled | shared
	route  string // construction route of the circuit value (routes.go)
	src    string
	otName string
	c      *circuit.Circuit
	widths []int
	x, y   *partyInput
	tape   []byte
	op     string
	frag   *hxlib.Rng
	orng   *hxlib.Rng
	rp     map[string]any // what `c02 replay` needs to derive exactly this case again
}

func (k *reprCase) detail(extra map[string]any) map[string]any {
	d := map[string]any{
		"case": k.idx, "kind": k.kind, "ot": k.otName, "op": clipS(k.op, 6000),
		"garbler_form": k.x.form, "garbler_texts": k.x.texts, "garbler_value": k.x.value.String(),
		"evaluator_form": k.y.form, "evaluator_texts": k.y.texts, "evaluator_value": k.y.value.String(),
		"garbler_arg": k.c.Inputs[0].String(), "evaluator_arg": k.c.Inputs[1].String(),
		"evaluator_negative": fmt.Sprint(k.y.value.Sign() < 0), "garbler_negative": fmt.Sprint(k.x.value.Sign() < 0),
		"replay": k.rp, "route": k.route, "circuit_stats_field": statsString(k.c.Stats),
		"circuit_gate_kinds": statsString(exactStats(k.c.Gates)),
	}
	if k.src != "" {
		d["src"] = k.src
	}
	for a, b := range extra {
		d[a] = b
	}
	return d
}

// buildReprCase derives case i from its own generator.
func buildReprCase(r *hxlib.Rng, o *hxlib.Out, i int, seed uint64, tier string, compiled []*circuit.Circuit, rsaLeft *int) (*reprCase, error) {
	k := &reprCase{idx: i}
	var negX, negY, scalarX, scalarY bool
	ots := []string{"ideal", "co", "ideal", "cot", "ideal", "cotm", "rsa"}
	k.otName = ots[i%len(ots)]
	mixes := []string{"uniform", "and", "orinv", "xnor"}
	switch {
	case i%4 == 2:
		k.kind = "compiled"
		pi := (i / 4) % len(compiled)
		k.c = compiled[pi]
		k.src = reprPrograms[pi]
		if k.otName == "ideal" {
			k.otName = []string{"co", "cot", "cotm"}[(i/4)%3]
		}
		for _, io := range k.c.Outputs {
			k.widths = append(k.widths, int(io.Type.Bits))
		}
	case i%4 == 1:
		// every input bit of either party reaches an output; the evaluator's
		// argument spans several machine words now and then
		k.kind = "parity"
		n0 := 1 + r.Intn(20)
		n1 := 2 + r.Intn(30)
		// by index: evaluator / garbler argument of more than one machine
		// word, with a negative value of that party in every other such case
		switch (i / 4) % 3 {
		case 1:
			n1 = []int{60 + r.Intn(12), 120 + r.Intn(90), 65 + r.Intn(64)}[r.Intn(3)]
			if tier == "thorough" && r.Intn(4) == 0 {
				n1 = 513 + r.Intn(700)
			}
			negY = (i/12)%2 == 0
			scalarY = negY
		case 2:
			n0 = []int{60 + r.Intn(12), 120 + r.Intn(90), 65 + r.Intn(64)}[r.Intn(3)]
			negX = (i/12)%2 == 0
			scalarX = negX
		}
		k.c = hxlib.GenParityCircuit(r, n0, n1)
		k.widths = splitOutputs(r, k.c)
	default:
		k.kind = "random"
		maxIn := 8
		if i%5 == 0 {
			maxIn = 70
		}
		k.c = hxlib.GenCircuit(r, hxlib.GenOpts{MaxGates: 80, MaxIn: maxIn, Mix: mixes[i%len(mixes)]})
		k.widths = splitOutputs(r, k.c)
	}
	if k.kind != "compiled" {
		k.c.Inputs = circuit.IO{
			shapeArg(r, "a", int(k.c.Inputs[0].Type.Bits), scalarX),
			shapeArg(r, "b", int(k.c.Inputs[1].Type.Bits), scalarY),
		}
	}
	if k.otName == "rsa" {
		if *rsaLeft == 0 || int(k.c.Inputs[1].Type.Bits) > 40 {
			k.otName = "co"
		} else {
			*rsaLeft--
		}
	}
	var err error
	if k.x, err = genPartyInput(r, o, k.c.Inputs[0], negX); err != nil {
		return nil, err
	}
	if k.y, err = genPartyInput(r, o, k.c.Inputs[1], negY); err != nil {
		return nil, err
	}
	// the construction route of the circuit value: planned by case index, own
	// random stream (a NEW value: compiled circuits are shared between cases)
	k.c, k.route = applyRoute(k.c, routeOf(i), routeRng(seed, i), o)
	k.finish(r)
	return k, nil
}

func (k *reprCase) finish(r *hxlib.Rng) {
	n0 := int(k.c.Inputs[0].Type.Bits)
	n1 := int(k.c.Inputs[1].Type.Bits)
	k.tape = r.Bytes(32 + 16*(1+n0+n1))
	k.op = routeOp(fmt.Sprintf("c02 int %s %s %s %d %d %s %s %s", k.otName, hxlib.Hex(k.tape), hxlib.CircLine(k.c), n0, n1,
		intsString(k.widths), k.x.spec, k.y.spec), k.route, k.c)
	k.frag = r.Fork()
	k.orng = r.Fork()
}

// run executes the session on the real code and returns the canonical result
// line; oracle failures go to o (under mu when shared).
func (k *reprCase) run(o *hxlib.Out, mu *sync.Mutex) string {
	d := hxlib.NewDuplex(k.frag)
	var res *hxlib.SessionResult
	if k.otName == "ideal" {
		ideal := hxlib.NewIdealOT()
		res = hxlib.RunSession(k.c, k.x.value, k.y.value, ideal, ideal, &hxlib.Tape{Data: k.tape}, d, 60*time.Second)
	} else {
		gr := k.orng.Fork()
		res = hxlib.RunSession(k.c, k.x.value, k.y.value, mkOT(k.otName, gr), mkOT(k.otName, k.orng.Fork()),
			&tapeThen{tape: k.tape, rest: gr}, d, 60*time.Second)
	}
	d.Close()
	fail := func(sig string, extra map[string]any) {
		if mu != nil {
			mu.Lock()
			defer mu.Unlock()
		}
		o.Fail(sig, k.detail(extra))
	}
	var sb strings.Builder
	switch {
	case res.Stalled:
		sb.WriteString("stalled")
		fail("c02-repr-stalled", nil)
	case res.GPanic != nil || res.EPanic != nil:
		sb.WriteString("panic")
		fail("c02-repr-panic", map[string]any{"g": fmt.Sprint(res.GPanic), "e": fmt.Sprint(res.EPanic)})
	case res.GErr != nil || res.EErr != nil:
		sb.WriteString("error")
		fail("c02-repr-error", map[string]any{"g": fmt.Sprint(res.GErr), "e": fmt.Sprint(res.EErr)})
	default:
		if k.otName == "ideal" {
			fmt.Fprintf(&sb, "ge=%s;eg=%s;", hxlib.Hex(d.AB.Rec), hxlib.Hex(d.BA.Rec))
		}
		fmt.Fprintf(&sb, "g=%s;e=%s", hxlib.BigsString(res.GRes), hxlib.BigsString(res.ERes))
		want, err := k.c.Compute(append(append([]*big.Int(nil), k.x.members...), k.y.members...))
		if err != nil {
			fail("c02-repr-compute-error", map[string]any{"err": err.Error()})
		} else if w := hxlib.BigsString(want); w != hxlib.BigsString(res.GRes) || w != hxlib.BigsString(res.ERes) {
			fail("c02-repr-wrong-result", map[string]any{"want": w, "garbler": hxlib.BigsString(res.GRes),
				"evaluator":     hxlib.BigsString(res.ERes),
				"parties_agree": fmt.Sprint(hxlib.BigsString(res.GRes) == hxlib.BigsString(res.ERes))})
		}
	}
	return sb.String()
}

func (k *reprCase) count(o *hxlib.Out) {
	o.Count("repr_sessions")
	o.Count("repr_kind_" + k.kind)
	o.Count("repr_ot_" + k.otName)
	countRoute(o, "repr", k.route, k.kind, k.otName, k.c)
	for side, in := range map[string]*partyInput{"garbler": k.x, "evaluator": k.y} {
		o.Count("repr_" + side + "_form_" + in.form)
		if in.value.Sign() < 0 {
			o.Count("repr_" + side + "_negative_big_int")
			o.Count("repr_" + side + "_negative_big_int_ot_" + k.otName)
			o.Count("repr_" + side + "_negative_big_int_kind_" + k.kind)
		}
		if in.value.Sign() == 0 {
			o.Count("repr_" + side + "_zero")
		}
		w := int(k.c.Inputs[0].Type.Bits)
		if side == "evaluator" {
			w = int(k.c.Inputs[1].Type.Bits)
		}
		if in.value.BitLen() > w {
			o.Count("repr_" + side + "_magnitude_wider_than_argument")
		}
		if in.value.Sign() < 0 && w > 64 {
			o.Count("repr_" + side + "_negative_argument_over_64_bits")
		}
	}
	for side, arg := range map[string]circuit.IOArg{"garbler": k.c.Inputs[0], "evaluator": k.c.Inputs[1]} {
		switch {
		case len(arg.Compound) > 0:
			o.Count("repr_" + side + "_arg_struct")
		default:
			o.Count("repr_" + side + "_arg_" + arg.Type.Type.String())
		}
	}
}

const reprPar = 8

func reprMode(args []string) int {
	cf, o := hxlib.ParseCommon("c02", args, nil)
	defer o.Close()
	reprRun(cf, o, "")
	return 0
}

// reprRun runs the cases of the seed (or only cf.Only); wantOp != "" is the
// exactness check of a replay.
func reprRun(cf *hxlib.CommonFlags, o *hxlib.Out, wantOp string) (ran int, sameOp bool) {
	rng := hxlib.NewRng(splitmix(cf.Seed ^ 0x5e9272))
	var compiled []*circuit.Circuit
	for i, src := range reprPrograms {
		c, _, err := compiler.New(utils.NewParams()).Compile(src, nil)
		if err != nil || len(c.Inputs) != 2 {
			o.Fail("c02-compile-error", map[string]any{"program": i, "src": src, "err": fmt.Sprint(err)})
			return 0, false
		}
		compiled = append(compiled, c)
	}
	rsaLeft := 2
	if cf.Tier == "thorough" {
		rsaLeft = 10
	}
	for i := 0; i < cf.N; i++ {
		r := rng.Fork()
		// the RSA budget is part of the case derivation: keep it in step
		// when only one case is wanted
		k, err := buildReprCase(r, quiet(o, cf.Only >= 0 && i != cf.Only), i, uint64(cf.Seed), cf.Tier, compiled, &rsaLeft)
		if cf.Only >= 0 && i != cf.Only {
			continue
		}
		if err != nil {
			o.Fail("c02-repr-parse-error", map[string]any{"case": i, "err": err.Error()})
			continue
		}
		k.replaySpec(cf)
		line := k.run(o, nil)
		o.Op(k.op, line)
		k.count(o)
		ran++
		sameOp = sameOp || sameOpLine(k.op, wantOp)
		if i < 4 {
			o.Sample(map[string]any{"case": i, "kind": k.kind, "ot": k.otName, "garbler_arg": k.c.Inputs[0].String(),
				"evaluator_arg": k.c.Inputs[1].String(), "garbler": k.x.spec, "evaluator": k.y.spec,
				"garbler_texts": k.x.texts, "evaluator_texts": k.y.texts})
		}
	}
	// overlapping sessions on one shared circuit value
	rounds := cf.N / 16
	for round := 0; round < rounds; round++ {
		r := rng.Fork()
		idx := cf.N + round
		if cf.Only >= 0 && idx != cf.Only {
			continue
		}
		c := hxlib.GenParityCircuit(r, 1+r.Intn(12), 2+r.Intn(80))
		widths := splitOutputs(r, c)
		c.Inputs = circuit.IO{shapeArg(r, "a", int(c.Inputs[0].Type.Bits), false), shapeArg(r, "b", int(c.Inputs[1].Type.Bits), false)}
		// one shared circuit VALUE per round, constructed along the round's route
		c, route := applyRoute(c, routeNames[round%len(routeNames)], routeRng(uint64(cf.Seed), idx), o)
		var ks []*reprCase
		for s := 0; s < reprPar; s++ {
			k := &reprCase{idx: idx, kind: "shared", route: route, otName: "ideal", c: c, widths: widths}
			var err error
			if k.x, err = genPartyInput(r, o, c.Inputs[0], false); err == nil {
				k.y, err = genPartyInput(r, o, c.Inputs[1], false)
			}
			if err != nil {
				o.Fail("c02-repr-parse-error", map[string]any{"case": idx, "err": err.Error()})
				continue
			}
			k.finish(r)
			k.replaySpec(cf)
			ks = append(ks, k)
		}
		lines := make([]string, len(ks))
		var wg sync.WaitGroup
		var mu sync.Mutex
		start := make(chan struct{})
		for s, k := range ks {
			wg.Add(1)
			go func(s int, k *reprCase) {
				defer wg.Done()
				<-start
				lines[s] = k.run(o, &mu)
			}(s, k)
		}
		close(start)
		wg.Wait()
		for s, k := range ks {
			o.Op(k.op, lines[s])
			k.count(o)
			sameOp = sameOp || sameOpLine(k.op, wantOp)
		}
		ran++
		o.Count("repr_shared_rounds")
	}
	return ran, sameOp
}

// quiet returns an Out that drops counters of cases that are only derived to
// keep the generator in step.
func quiet(o *hxlib.Out, drop bool) *hxlib.Out {
	if !drop {
		return o
	}
	return &hxlib.Out{Counters: map[string]int{}}
}

func (k *reprCase) replaySpec(cf *hxlib.CommonFlags) {
	k.rp = map[string]any{"mode": "repr", "seed": cf.Seed, "n": cf.N, "tier": cf.Tier}
}

func sameOpLine(op, want string) bool {
	if want == "" {
		return false
	}
	if strings.HasSuffix(want, "...") {
		return strings.HasPrefix(op, strings.TrimSuffix(want, "..."))
	}
	return op == want
}

// replayMode: `c02 replay <file>`: the file's failure names mode, seed, n,
// tier and case; exactly that case is derived again (its op line must equal
// the recorded one) and run on the real code.  Exit 1 when it fails again.
func replayMode(args []string) int {
	if len(args) < 1 {
		fmt.Fprintln(os.Stderr, "usage: c02 replay <file>")
		return 2
	}
	b, err := os.ReadFile(args[0])
	if err != nil {
		fmt.Println("cannot read replay file:", err)
		return 2
	}
	var doc struct {
		Failure map[string]any `json:"failure"`
	}
	if err := json.Unmarshal(b, &doc); err != nil || doc.Failure == nil {
		fmt.Println("no failure record in replay file")
		return 2
	}
	f := doc.Failure
	rp, _ := f["replay"].(map[string]any)
	if rp == nil || rp["mode"] != "repr" {
		fmt.Println("not a repr-mode case")
		return 2
	}
	num := func(v any) int {
		x, _ := v.(float64)
		return int(x)
	}
	cf, o := hxlib.ParseCommon("c02", []string{"-seed", fmt.Sprint(num(rp["seed"])), "-n", fmt.Sprint(num(rp["n"])),
		"-tier", fmt.Sprint(rp["tier"]), "-only", fmt.Sprint(num(f["case"]))}, nil)
	wantOp, _ := f["op"].(string)
	ran, same := reprRun(cf, o, wantOp)
	fmt.Printf("case %d of seed %d (n=%d, tier %s): %d case(s) run; op line identical to the recorded one: %v\n", cf.Only,
		cf.Seed, cf.N, cf.Tier, ran, same)
	for _, g := range o.OracleFails {
		fmt.Printf("FAILS AGAIN: %s\n  circuit value constructed along route %v: Stats field %v, gate kinds of the gate list %v\n  garbler arg %v texts %v value %v\n  evaluator arg %v texts %v value %v\n  want %v garbler %v evaluator %v %v %v\n",
			g["sig"], g["route"], g["circuit_stats_field"], g["circuit_gate_kinds"], g["garbler_arg"], g["garbler_texts"], g["garbler_value"], g["evaluator_arg"], g["evaluator_texts"],
			g["evaluator_value"], g["want"], g["garbler"], g["evaluator"], g["g"], g["e"])
	}
	if len(o.OracleFails) > 0 {
		return 1
	}
	fmt.Println("the case passes")
	return 0
}

// Circuit CONSTRUCTION ROUTES (property C02 says "for every two-party
// circuit"): a *circuit.Circuit reaches circuit.Garbler / circuit.Evaluator
// not only from the compiler or a parser.  The struct is public, so a circuit
// can be a plain struct literal, a parsed circuit whose gate list was edited,
// or a value some other pass (AssignLevels) has written to.  What defines the
// function f is Gates / NumWires / Inputs / Outputs; Circuit.Stats and
// Gate.Level are DERIVED data, and the session must not depend on them.
//
// Every session class takes a route as a generator dimension (planned by case
// index, never by chance):
//
//	exact     struct literal with exact Stats (what the generators made so far)
//	zero      struct literal with only NumGates, NumWires, Inputs, Outputs,
//	          Gates set (Stats zero)
//	stale     Stats of ANOTHER circuit: of a prefix of the gate list (before
//	          an edit), of the circuit twice (after gates were removed), with
//	          the gate kinds rotated, or all ones
//	parsed    Circuit.Marshal -> circuit.ParseMPCLC (from bytes)
//	appended  parsed from bytes, then 1..4 gates appended (NumGates, NumWires
//	          follow, Stats keeps the parser's counts); f is the EDITED circuit
//	levels    struct literal with Stats zero on which AssignLevels ran
//	          (Gate.Level, Stats[NumLevels], Stats[MaxWidth] set)
//
// The op line of a routed session is `c02 rt <route> <Stats, comma separated>
// <the session's usual fields>`: the Lean model (Model/Proto2Route.lean) gets
// the derived data the circuit value really carried and ignores it.
package main

import (
	"bytes"
	"fmt"
	"strings"

	"github.com/markkurossi/mpc/circuit"
	"github.com/markkurossi/mpc/compiler/utils"

	"verifharness/hxlib"
)

var routeNames = []string{"zero", "stale", "parsed", "appended", "levels", "exact"}

// routeOf plans the route of case i of a mode whose other dimensions are
// planned on i%4 (kind) and i%7 (OT): i/4 runs through all routes for every
// kind, and 6 is coprime to 7.
func routeOf(i int) string { return routeNames[(i/4)%len(routeNames)] }

func copyGates(g []circuit.Gate) []circuit.Gate { return append([]circuit.Gate(nil), g...) }

func exactStats(gates []circuit.Gate) circuit.Stats {
	var st circuit.Stats
	for _, g := range gates {
		st[g.Op]++
	}
	return st
}

// literal builds a fresh circuit value with the defining fields of c only.
func literal(c *circuit.Circuit) *circuit.Circuit {
	return &circuit.Circuit{
		NumGates: c.NumGates,
		NumWires: c.NumWires,
		Inputs:   c.Inputs,
		Outputs:  c.Outputs,
		Gates:    copyGates(c.Gates),
	}
}

// sameFunction: the defining fields of two circuit values agree.
func sameFunction(a, b *circuit.Circuit) bool {
	if a.NumGates != b.NumGates || a.NumWires != b.NumWires || len(a.Gates) != len(b.Gates) ||
		a.Inputs.Size() != b.Inputs.Size() || a.Outputs.Size() != b.Outputs.Size() ||
		len(a.Inputs) != len(b.Inputs) || len(a.Outputs) != len(b.Outputs) {
		return false
	}
	for i := range a.Gates {
		x, y := a.Gates[i], b.Gates[i]
		if x.Op != y.Op || x.Input0 != y.Input0 || x.Output != y.Output || (x.Op != circuit.INV && x.Input1 != y.Input1) {
			return false
		}
	}
	for i := range a.Inputs {
		if a.Inputs[i].Type.Bits != b.Inputs[i].Type.Bits {
			return false
		}
	}
	for i := range a.Outputs {
		if a.Outputs[i].Type.Bits != b.Outputs[i].Type.Bits {
			return false
		}
	}
	return true
}

// viaBytes marshals c and parses it back; the parsed value keeps c's own
// argument descriptions (the harness derives the inputs from them).
func viaBytes(c *circuit.Circuit) (*circuit.Circuit, error) {
	var buf bytes.Buffer
	if err := c.Marshal(&buf); err != nil {
		return nil, err
	}
	p, err := circuit.ParseMPCLC(bytes.NewReader(buf.Bytes()))
	if err != nil {
		return nil, err
	}
	if !sameFunction(c, p) {
		return nil, fmt.Errorf("the parsed circuit is not the marshalled one")
	}
	p.Inputs = c.Inputs
	p.Outputs = c.Outputs
	return p, nil
}

// applyRoute returns a NEW circuit value constructed along the route (c is not
// written to: compiled circuits are shared between cases).  rr is the route's
// own random stream; the returned name is the route that was really taken.
func applyRoute(c *circuit.Circuit, route string, rr *hxlib.Rng, o *hxlib.Out) (*circuit.Circuit, string) {
	switch route {
	case "zero":
		return literal(c), route
	case "stale":
		n := literal(c)
		switch rr.Intn(4) {
		case 0: // counted before the second half of the gates was added
			n.Stats = exactStats(c.Gates[:len(c.Gates)/2])
		case 1: // counted on a circuit twice as large
			st := exactStats(c.Gates)
			for i := range st {
				st[i] *= 2
			}
			n.Stats = st
		case 2: // another circuit's mix: the kinds rotated
			st := exactStats(c.Gates)
			n.Stats[circuit.XOR], n.Stats[circuit.XNOR], n.Stats[circuit.AND], n.Stats[circuit.OR], n.Stats[circuit.INV] =
				st[circuit.INV], st[circuit.XOR], st[circuit.XNOR], st[circuit.AND], st[circuit.OR]
		default:
			for i := range n.Stats {
				n.Stats[i] = 1
			}
		}
		return n, route
	case "parsed", "appended":
		p, err := viaBytes(c)
		if err != nil {
			// marshalling is C14's subject; the session still runs
			o.Count("route_bytes_unavailable")
			p = literal(c)
			p.Stats = exactStats(c.Gates)
			if route == "parsed" {
				return p, "exact"
			}
		}
		if route == "parsed" {
			return p, route
		}
		// edit after parsing: new gates on new wires, reading any earlier wire;
		// the outputs are the last Outputs.Size() wires of the edited circuit
		k := 1 + rr.Intn(4)
		gates := copyGates(p.Gates)
		nw := p.NumWires
		for j := 0; j < k; j++ {
			op := []circuit.Operation{circuit.AND, circuit.OR, circuit.INV, circuit.XOR, circuit.XNOR, circuit.AND}[rr.Intn(6)]
			g := circuit.Gate{Input0: circuit.Wire(rr.Intn(nw)), Input1: circuit.Wire(rr.Intn(nw)), Output: circuit.Wire(nw), Op: op}
			if op == circuit.INV {
				g.Input1 = 0
			}
			gates = append(gates, g)
			nw++
		}
		p.Gates = gates
		p.NumGates = len(gates)
		p.NumWires = nw
		return p, route
	case "levels":
		n := literal(c)
		n.AssignLevels(utils.TargetYao)
		return n, route
	default:
		n := literal(c)
		n.Stats = exactStats(c.Gates)
		return n, "exact"
	}
}

// routeRng: the route's own stream, so that the route dimension does not shift
// the draws of the other dimensions of a case.
func routeRng(seed uint64, i int) *hxlib.Rng {
	return hxlib.NewRng(splitmix(seed ^ 0x726f757465 ^ uint64(i)*0x9e3779b97f4a7c15))
}

func statsString(st circuit.Stats) string {
	var s []string
	for _, v := range st {
		s = append(s, fmt.Sprint(v))
	}
	return strings.Join(s, ",")
}

// routeOp prefixes a session's op line (`c02 <fields>`) with the route and the
// derived data of the circuit value the session ran on.
func routeOp(op, route string, c *circuit.Circuit) string {
	return fmt.Sprintf("c02 rt %s %s %s", route, statsString(c.Stats), strings.TrimPrefix(op, "c02 "))
}

func countRoute(o *hxlib.Out, mode, route, kind, otName string, c *circuit.Circuit) {
	o.Count("route_" + route)
	o.Count("route_" + route + "_kind_" + kind)
	o.Count("route_" + route + "_ot_" + otName)
	ex := exactStats(c.Gates)
	need := 2*ex[circuit.AND] + 3*ex[circuit.OR] + ex[circuit.INV]
	if need > 0 {
		o.Count("route_" + route + "_with_transmitted_rows")
		if c.Stats != ex && route != "levels" {
			o.Count("route_" + route + "_stats_differ_from_gate_list")
		}
	}
	_ = mode
}

// Transport of the `conn` mode: an in-memory duplex between the two REAL
// parties whose read side follows a seeded fragmentation / delay schedule.
//
// A Read asks the schedule for (want, wait).  Without wait it returns as soon
// as a byte is there (whole-flush delivery, capped by want).  With wait it
// DELAYS: it returns only when min(want, len(p)) bytes have arrived, so that
// data accumulates in the transport and one Read can fill the connection's
// 1 MiB read buffer up to any chosen distance from its end - unless the peer
// is idle (blocked in its own Read / in the out-of-band ideal OT / finished,
// with everything it handed to its Conn written), in which case waiting
// longer would be a deadlock of the harness, not of the protocol, and what is
// there is delivered.  The sizes every Read returned are recorded (run-length
// encoded) and are part of the op line: the Lean model of the connection
// (Model/Conn.lean, Recv) replays exactly that fragmentation.
package main

import (
	"fmt"
	"io"
	"strconv"
	"strings"
	"sync"
	"time"

	"github.com/markkurossi/mpc/p2p"

	"verifharness/hxlib"
)

const (
	connReadBuf  = 1024 * 1024 // p2p readBufSize  (the transport only uses it to place cuts)
	connWriteBuf = 64 * 1024   // p2p writeBufSize
)

// ---------------------------------------------------------------- schedules

// sched is the read schedule of one direction.
//
//	whole            deliver what is there (never more than asked)
//	end:d0,d1,..     the i-th Read waits for len(p)-d[i mod k] bytes: the read
//	                 ends d bytes before the end of the reader's buffer
//	cyc:s0,s1,..     the i-th Read waits for s[i mod k] bytes
//	rnd:seed.max     the i-th Read returns at most 1+h(seed,i)%max bytes, no wait
//	one<K>+<rest>    single-byte reads while the stream offset is below K
type sched struct {
	kind string
	one  int
	list []int
	seed uint64
	max  uint64
	i    int
}

func (s *sched) String() string {
	var sb strings.Builder
	if s.one > 0 {
		fmt.Fprintf(&sb, "one%d+", s.one)
	}
	switch s.kind {
	case "whole":
		sb.WriteString("whole")
	case "rnd":
		fmt.Fprintf(&sb, "rnd:%d.%d", s.seed, s.max)
	default:
		sb.WriteString(s.kind + ":" + intsString(s.list))
	}
	return sb.String()
}

func splitmix(z uint64) uint64 {
	z = (z ^ (z >> 30)) * 0xBF58476D1CE4E5B9
	z = (z ^ (z >> 27)) * 0x94D049BB133111EB
	return z ^ (z >> 31)
}

// next is asked once per Read call: capP = len(p), pos = stream offset.
func (s *sched) next(capP, pos int) (want int, wait bool) {
	if pos < s.one {
		return 1, false
	}
	i := s.i
	s.i++
	switch s.kind {
	case "end":
		want, wait = capP-s.list[i%len(s.list)], true
	case "cyc":
		want, wait = s.list[i%len(s.list)], true
	case "rnd":
		want, wait = 1+int(splitmix(s.seed^(uint64(i)*0x9E3779B97F4A7C15))%s.max), false
	default:
		want, wait = capP, false
	}
	if want < 1 {
		want = 1
	}
	if want > capP {
		want = capP
	}
	return want, wait
}

// distances of a read's end from the end of the reader's buffer: biased to
// the width of the protocol's items (4-byte counts, 16-byte labels)
var endDist = []int{1, 1, 2, 3, 1, 4, 5, 7, 8, 1, 12, 15, 16, 17, 20, 0}

// sizes around multiples of the write buffer and the read buffer
func bufSizes(r *hxlib.Rng) int {
	base := []int{connWriteBuf, connWriteBuf, 2 * connWriteBuf, 3 * connWriteBuf, connReadBuf, connReadBuf / 2}[r.Intn(6)]
	return base - 20 + r.Intn(41)
}

// genSched draws a schedule; big = the stream is expected to cross the read
// buffer size (then the delaying kinds are preferred, single-byte prefixes
// stay short).
func genSched(r *hxlib.Rng, big bool) *sched {
	s := &sched{kind: "whole"}
	k := r.Intn(10)
	if big {
		k = []int{2, 2, 2, 3, 2, 4, 2, 3, 2, 0}[r.Intn(10)]
	}
	switch {
	case k < 2:
	case k < 4:
		s.kind = "end"
		n := 1 + r.Intn(4)
		for j := 0; j < n; j++ {
			s.list = append(s.list, endDist[r.Intn(len(endDist))])
		}
		if k == 3 {
			// every distance 0..20 in a seeded rotation
			s.list = nil
			o := r.Intn(21)
			for j := 0; j < 21; j++ {
				s.list = append(s.list, (o+j*8)%21)
			}
		}
	case k < 6:
		s.kind = "cyc"
		n := 1 + r.Intn(4)
		for j := 0; j < n; j++ {
			if r.Intn(3) == 0 && !big {
				s.list = append(s.list, []int{1, 2, 3, 4, 5, 15, 16, 17, 35, 36, 37, 255, 4096}[r.Intn(13)])
			} else {
				s.list = append(s.list, bufSizes(r))
			}
		}
	default:
		s.kind = "rnd"
		s.seed = r.U64() & 0xffffffff
		s.max = []uint64{2, 16, 40, 1000, 70000, 2000000}[r.Intn(6)]
		if big && s.max < 70000 {
			s.max = 70000
		}
	}
	switch r.Intn(4) {
	case 0:
		s.one = 1 + r.Intn(60)
	case 1:
		if !big || r.Intn(3) == 0 {
			s.one = 30 + r.Intn(400)
		}
	}
	return s
}

// ---------------------------------------------------------------- links

const fnvInit = 0xcbf29ce484222325

type clink struct {
	data   []byte
	rpos   int
	closed bool
	sch    *sched

	nread  int
	rlog   uint64 // digest of (len(p), n) of every Read, as Mpc.Conn.mix64
	rle    []int  // run-length encoded sizes returned: size, count, size, count..
	maxEnd int    // largest n returned by one Read
	nearR  int    // Reads that ended 1..20 bytes before the end of a buffer of >= 1 MiB - 64
	writes int
}

func (l *clink) noteRead(capP, n int) {
	h := (l.rlog ^ uint64(capP)) * 0x100000001b3
	l.rlog = (h ^ uint64(n)) * 0x100000001b3
	l.nread++
	if k := len(l.rle); k > 0 && l.rle[k-2] == n {
		l.rle[k-1]++
	} else {
		l.rle = append(l.rle, n, 1)
	}
	if n > l.maxEnd {
		l.maxEnd = n
	}
	if capP >= connReadBuf-64 && capP-n >= 1 && capP-n <= 20 {
		l.nearR++
	}
}

// rleString renders the recorded read sizes: `<size>x<count>,...` ("-" if none).
func (l *clink) rleString() string {
	if len(l.rle) == 0 {
		return "-"
	}
	var sb strings.Builder
	for i := 0; i < len(l.rle); i += 2 {
		if i > 0 {
			sb.WriteByte(',')
		}
		sb.WriteString(strconv.Itoa(l.rle[i]))
		if l.rle[i+1] != 1 {
			sb.WriteByte('x')
			sb.WriteString(strconv.Itoa(l.rle[i+1]))
		}
	}
	return sb.String()
}

// cnet is the duplex; one mutex for both directions.
type cnet struct {
	mu       sync.Mutex
	cond     *sync.Cond
	ends     [2]*cend
	last     time.Time // last byte moved
	fallback int       // early deliveries decided by the timer (expected: 0)
	stop     chan struct{}
}

// cend is one party's side.
type cend struct {
	net    *cnet
	in     *clink // we read from
	out    *clink // we write to
	conn   *p2p.Conn
	inRead bool
	want   int
	otWait bool
	done   bool
}

func newCnet(sg2e, se2g *sched) *cnet {
	n := &cnet{last: time.Now(), stop: make(chan struct{})}
	n.cond = sync.NewCond(&n.mu)
	g2e := &clink{sch: sg2e, rlog: fnvInit}
	e2g := &clink{sch: se2g, rlog: fnvInit}
	n.ends[0] = &cend{net: n, in: e2g, out: g2e}
	n.ends[1] = &cend{net: n, in: g2e, out: e2g}
	go func() {
		t := time.NewTicker(200 * time.Millisecond)
		defer t.Stop()
		for {
			select {
			case <-n.stop:
				return
			case <-t.C:
				n.cond.Broadcast()
			}
		}
	}()
	return n
}

func (n *cnet) close() {
	n.mu.Lock()
	n.ends[0].in.closed = true
	n.ends[1].in.closed = true
	n.cond.Broadcast()
	n.mu.Unlock()
}

func (n *cnet) shutdown() {
	n.close()
	close(n.stop)
}

func (e *cend) peer() *cend {
	if e.net.ends[0] == e {
		return e.net.ends[1]
	}
	return e.net.ends[0]
}

// idle: this party makes no progress by itself and everything it handed to
// its connection has reached the transport.  Caller holds the lock.
func (e *cend) idle() bool {
	if e.conn == nil {
		return false
	}
	if e.conn.Stats.Sent.Load() != uint64(len(e.out.data)) {
		return false // its writer goroutine still has data to write
	}
	if e.done || e.otWait {
		return true
	}
	return e.inRead && len(e.in.data)-e.in.rpos < e.want && !e.in.closed
}

func (e *cend) setFlag(f *bool, v bool) {
	e.net.mu.Lock()
	*f = v
	e.net.cond.Broadcast()
	e.net.mu.Unlock()
}

func (e *cend) Write(p []byte) (int, error) {
	n := e.net
	n.mu.Lock()
	defer n.mu.Unlock()
	if e.out.closed {
		return 0, io.ErrClosedPipe
	}
	e.out.data = append(e.out.data, p...)
	e.out.writes++
	n.last = time.Now()
	n.cond.Broadcast()
	return len(p), nil
}

func (e *cend) Read(p []byte) (int, error) {
	n := e.net
	n.mu.Lock()
	defer n.mu.Unlock()
	if len(p) == 0 {
		return 0, nil
	}
	l := e.in
	want, wait := l.sch.next(len(p), l.rpos)
	e.want = want
	if !wait {
		e.want = 1
	}
	announced := false
	for {
		avail := len(l.data) - l.rpos
		if avail >= want || l.closed {
			break
		}
		if avail > 0 {
			if !wait || e.peer().idle() {
				break
			}
			if time.Since(n.last) > 3*time.Second {
				n.fallback++
				break
			}
		}
		if !announced {
			e.inRead = true
			announced = true
			n.cond.Broadcast()
		}
		n.cond.Wait()
	}
	e.inRead = false
	avail := len(l.data) - l.rpos
	if avail == 0 {
		return 0, io.EOF
	}
	k := want
	if k > avail {
		k = avail
	}
	copy(p, l.data[l.rpos:l.rpos+k])
	l.rpos += k
	l.noteRead(len(p), k)
	n.last = time.Now()
	n.cond.Broadcast()
	return k, nil
}

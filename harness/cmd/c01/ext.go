package main

// c01 ext: EXTREME circuits - the boundaries of the property's quantifier.
//
// "Every well-formed boolean circuit" is bounded in the implementation by the
// sizes of its internal buffers and counters: the table slab of a garbling
// (2 labels per AND, 3 per OR, 1 per INV), the per-gate table slice, the wire
// slice, the gate count, the uint32 tweak counter.  The random circuits of the
// `garble` / `hist` modes have a few hundred gates and come near none of them.
// This mode generates, per dimension
//
//	inputs  number of input wires (= labels drawn from the random source - 1)
//	labels  total number of table labels (rows) of the circuit
//	gates   number of gates
//	wires   number of wires
//
// circuits whose size sits on a boundary.  Boundaries are (1) 2^16 and 2^20
// (one below / exactly / one above; beyond: 2^21+1, 2^22+1 in the thorough
// tier) for labels / gates / wires; (2) for the INPUT WIDTH every multiple of
// 256 up to 4096 and 2^13 (thorough: every multiple of 128 up to 8192, 2^14 ..
// 2^17, 2^20), one below / on / one above; (3) DISCOVERED boundaries: every
// integer constant c in [8, 2^20] that the garbling code path contains
// (consts.go), for every dimension, sizes c-1, c, c+1, 2c-1, 2c, 2c+1 (quick
// tier: the 2c sizes only up to 2^17).
//
// Input-width circuits (genWidth): EVERY input wire reaches the outputs twice -
// through a parity chain over all inputs (XOR / XNOR: a wrong label on any one
// input wire changes the output label) and through a pairwise reduction tree
// with all five gate kinds - and they are evaluated on assignments that set
// only the last / only the first / every k-th input wire, all of them, random
// ones.  The other dimensions use three cheap shapes
//
//	chain   one dependency chain: gate k reads the output of gate k-1 and an
//	        input or a recent wire
//	wide    layers of 2^7..2^10 gates, gate j of a layer reads gates j and
//	        j+s of the layer below
//	fan     gate k reads two wires drawn from everything defined so far
//
// whose gate kinds follow a repeating pattern that contains AND, OR, INV, XOR
// and XNOR, so every kind occurs before the boundary; `tail` cases append two
// more rounds of all five kinds, so every kind also occurs AFTER it (the
// `exact` cases end on the boundary with the gate kind that fits).
//
// Every case is garbled by the real Circuit.Garble with a 16, a 24 and a 32
// byte key (fresh tape each; the scratch of the previous garbling is reused
// through the pool) and evaluated by the real Circuit.Eval on several inputs.
//
// Oracle (real code only): on EVERY wire the evaluated label is one of the
// wire's two labels, the two differ, and it decodes to the bit of the
// reference evaluator; Compute returns the reference bits; the Garbled value
// has Op.rows rows at every gate, R has its select bit set and EVERY wire
// pair - the input wires first - satisfies L1 = L0 xor R (structural
// self-check: an input wire the garbler did not assign shows here whatever
// the inputs are; theorem C01_every_input_wire_assigned).  The three
// garblings of a case are a history on ONE circuit value: garble, release,
// garble again - the first runs on fresh scratch, the later ones on the
// pooled scratch of the one before (counted: ext_scratch_fresh / _reused).
//
// Correspondence with the Lean model (Model/GarbleBig.lean), op `c01x`:
//
//	full   R, bytes consumed from the random source, rows per gate kind, total
//	       rows, running digests of all wire
//	       pairs, of all table rows (with every gate's row count) and of all
//	       evaluated labels per input, Compute bits - reproduced by the model
//	       with Lean AES (byte-exact through the digest)
//	local  (sizes whose full tie does not fit the tier's budget: the compiled
//	       model does ~10^5 gate hashes/s) rows per gate kind, total rows and
//	       Compute bits from the model without hashing, plus the LOCAL STEP of
//	       several hundred sampled gates - the first and last gates, the gates
//	       around every 2^16 / 2^20 boundary of the table slab, of the gate and
//	       of the wire count, random ones: the model's garbleCore on the REAL
//	       wire pairs of the gate's inputs, with the tweak the model's counter
//	       has at that gate, must give the real output pair and the real rows
//	       byte for byte (theorem C01_garble_local: the garbling of a circuit
//	       is characterised by these steps)
//
// One op line per case: the circuit once, its three garblings joined by `/`.

import (
	"encoding/binary"
	"flag"
	"fmt"
	"math/big"
	"math/bits"
	"os"
	"runtime/debug"
	"sort"
	"strconv"
	"strings"
	"unsafe"

	"github.com/markkurossi/mpc/circuit"
	"github.com/markkurossi/mpc/ot"

	"verifharness/hxlib"
)

type extSpec struct {
	shape string // chain | wide | fan; reach for dim inputs
	dim   string // inputs | labels | gates | wires
	size  int    // value of the dimension where the body of the circuit ends
	tail  bool   // two more rounds of all five gate kinds after the boundary
	tie   string // full | local
	src   string // where the boundary comes from
}

func (s extSpec) String() string {
	t := "exact"
	if s.tail {
		t = "tail"
	}
	return fmt.Sprintf("%s-%s-%d-%s-%s", s.shape, s.dim, s.size, t, s.tie)
}

var extShapes = []string{"chain", "wide", "fan"}
var extDims = []string{"labels", "gates", "wires"}
var extAllDims = []string{"inputs", "labels", "gates", "wires"}

// extPlan: the fixed list of cases of a tier; depends on (tier, seed) and on
// the constants discovered in the source tree under test only, so `-only idx`
// re-generates exactly one case.  Sizes up to fullMax get the full (hashing)
// tie.  Order: input widths, discovered boundaries, 2^16 / 2^20 (small cases
// first: only the first failures of a run are kept).
func extPlan(tier string, seed uint64, consts []constFound) []extSpec {
	var plan []extSpec
	sh := func(k int) string { return extShapes[(k+int(seed%3))%3] }
	k := 0
	seen := map[string]bool{}
	add := func(dim string, size int, tail bool, tie, src string) {
		if size < 7 {
			return
		}
		shape := sh(k)
		if dim == "inputs" {
			shape, tail = "reach", false
		}
		key := fmt.Sprintf("%s/%d/%v", dim, size, tail)
		if seen[key] {
			return
		}
		seen[key] = true
		plan = append(plan, extSpec{shape, dim, size, tail, tie, src})
		k++
	}
	tieFor := func(size int) string {
		if size <= 1<<17 {
			return "full"
		}
		return "local"
	}
	// (1) input width: around every multiple of `step` up to `top`, around powers of two above
	step, top := 256, 4096
	pows := []int{13}
	if tier == "thorough" {
		step, top = 128, 8192
		pows = []int{14, 15, 16, 17, 20}
	}
	for m := step; m <= top; m += step {
		for _, d := range []int{-1, 0, 1} {
			add("inputs", m+d, false, "full", fmt.Sprintf("multiple of %d", step))
		}
	}
	for _, p := range pows {
		for _, d := range []int{-1, 0, 1} {
			add("inputs", 1<<p+d, false, tieFor(1<<p+d), fmt.Sprintf("2^%d", p))
		}
	}
	// (2) discovered boundaries, every dimension
	for _, c := range consts {
		for _, n := range boundarySizes(c.Value) {
			if tier != "thorough" && n > c.Value+1 && n > 1<<17+1 {
				continue // quick tier: a huge constant gets c-1, c, c+1 only (each such case costs seconds)
			}
			for _, dim := range extAllDims {
				add(dim, n, k%2 == 0, tieFor(n), fmt.Sprintf("constant %d in %s", c.Value, strings.Join(c.Where, ", ")))
			}
		}
	}
	b16, b20 := 1<<16, 1<<20
	if tier != "thorough" {
		// 2^16: every dimension, below / on / above, full tie
		add("labels", b16-1, true, "full", "2^16")
		add("labels", b16, false, "full", "2^16")
		add("labels", b16+1, true, "full", "2^16")
		add("gates", b16+int(seed%2), true, "full", "2^16")
		add("wires", b16+1-int(seed%2), true, "full", "2^16")
		// 2^20 table labels: below / on / above with all kinds after the boundary
		for _, d := range []int{-1, 0, 1} {
			add("labels", b20+d, true, "local", "2^20")
		}
		add("labels", b20+1, false, "local", "2^20")
		add("gates", b20+1-int(seed%2), true, "local", "2^20")
		add("wires", b20+int(seed%2), true, "local", "2^20")
		return plan
	}
	for _, b := range []int{b16, b20} {
		tie := "full"
		if b == b20 {
			tie = "local"
		}
		for _, dim := range extDims {
			for _, d := range []int{-1, 0, 1} {
				add(dim, b+d, true, tie, "2^16 / 2^20")
				add(dim, b+d, false, tie, "2^16 / 2^20")
			}
		}
	}
	// the whole garbling in the model at 2^20 (one garbling each: ~2*10^6 gate hashes at ~10^5/s)
	plan = append(plan, extSpec{sh(k), "labels", b20 + 1, true, "full", "2^20"},
		extSpec{sh(k + 1), "gates", b20, true, "full", "2^20"},
		extSpec{sh(k + 2), "labels", b20 - 1, false, "full", "2^20"})
	k += 3
	for _, s := range []int{1<<21 + 1, 3<<20 + int(seed%1000), 1<<22 + 1} {
		add("labels", s, true, "local", "beyond 2^20")
		add("gates", s, true, "local", "beyond 2^20")
	}
	add("labels", 1<<21, false, "local", "2^21")
	add("wires", 1<<21+1, true, "local", "2^21")
	return plan
}

var opRows = map[circuit.Operation]int{circuit.AND: 2, circuit.OR: 3, circuit.INV: 1, circuit.XOR: 0, circuit.XNOR: 0}

var allOps = []circuit.Operation{circuit.XOR, circuit.XNOR, circuit.AND, circuit.OR, circuit.INV}

// extPattern: a repeating sequence of gate kinds containing all five.
func extPattern(r *hxlib.Rng) []circuit.Operation {
	p := append([]circuit.Operation{}, allOps...)
	for i := r.Intn(8); i > 0; i-- {
		p = append(p, allOps[r.Intn(5)])
	}
	for i := len(p) - 1; i > 0; i-- {
		j := r.Intn(i + 1)
		p[i], p[j] = p[j], p[i]
	}
	return p
}

// genExt builds the circuit of a spec.  Every gate writes a fresh wire, so all
// wires are defined, NumWires = inputs + gates, no input wire is overwritten.
// Returns the circuit and the index of the first gate after the boundary (the
// number of body gates).
func genExt(r *hxlib.Rng, s extSpec) (*circuit.Circuit, int) {
	n0 := 1 + r.Intn(8)
	n1 := 1 + r.Intn(8)
	if s.dim == "wires" && n0+n1 >= s.size {
		n0, n1 = 1, 1 // a small discovered boundary: leave room for at least one gate
	}
	nin := n0 + n1
	pat := extPattern(r)
	width := 1 << (7 + r.Intn(4))
	shift := 1 + r.Intn(width-1)
	est := s.size + 64
	gates := make([]circuit.Gate, 0, est)
	var stats circuit.Stats
	labels := 0
	emit := func(op circuit.Operation) {
		k := len(gates)
		var a, b int
		switch s.shape {
		case "chain":
			a = nin + k - 1
			if k == 0 {
				a = 0
			}
			if r.Intn(2) == 0 || k < 2 {
				b = r.Intn(nin)
			} else {
				b = nin + k - 1 - r.Intn(hxlib.MinInt(k, 16))
			}
		case "wide":
			j := k % width
			if k < width {
				a = j % nin
				b = (j + shift) % nin
			} else {
				base := nin + (k/width-1)*width
				a = base + j
				b = base + (j+shift)%width
			}
		default: // fan
			a = r.Intn(nin + k)
			b = r.Intn(nin + k)
		}
		g := circuit.Gate{Input0: circuit.Wire(a), Input1: circuit.Wire(b), Output: circuit.Wire(nin + k), Op: op}
		if op == circuit.INV {
			g.Input1 = 0
		}
		gates = append(gates, g)
		stats[op]++
		labels += opRows[op]
	}
	p := 0
	next := func() circuit.Operation { op := pat[p%len(pat)]; p++; return op }
	switch s.dim {
	case "labels":
		for {
			op := pat[p%len(pat)]
			if labels+opRows[op] > s.size {
				break
			}
			emit(next())
		}
		// end exactly on the boundary with a gate kind that fits
		for labels < s.size {
			rem := s.size - labels
			var cand []circuit.Operation
			if rem >= 3 {
				cand = append(cand, circuit.OR)
			}
			if rem >= 2 {
				cand = append(cand, circuit.AND)
			}
			cand = append(cand, circuit.INV)
			emit(cand[r.Intn(len(cand))])
		}
	case "gates":
		for len(gates) < s.size {
			emit(next())
		}
	default: // wires
		for nin+len(gates) < s.size {
			emit(next())
		}
	}
	body := len(gates)
	if s.tail {
		for round := 0; round < 2; round++ {
			t := append([]circuit.Operation{}, allOps...)
			for i := len(t) - 1; i > 0; i-- {
				j := r.Intn(i + 1)
				t[i], t[j] = t[j], t[i]
			}
			for _, op := range t {
				emit(op)
			}
		}
	}
	nout := hxlib.MinInt(1+r.Intn(8), len(gates))
	c := &circuit.Circuit{
		NumGates: len(gates),
		NumWires: nin + len(gates),
		Inputs:   circuit.IO{hxlib.UintIO("a", n0), hxlib.UintIO("b", n1)},
		Outputs:  circuit.IO{hxlib.UintIO("r", nout)},
		Gates:    gates,
		Stats:    stats,
	}
	return c, body
}

// genWidth builds a circuit with exactly n input wires (n >= 3) in which EVERY
// input wire reaches the outputs on two paths: a parity chain over all inputs
// (XOR, now and then XNOR - free gates, so a wrong or unassigned label on any
// single input wire changes the label of the chain's end) and a pairwise
// reduction tree that uses all five gate kinds (INV as an extra gate in front
// of one operand).  The last gates combine the chain's end with every root of
// the tree; they are the outputs.  Every gate writes a fresh wire.
func genWidth(r *hxlib.Rng, n int) *circuit.Circuit {
	var n0 int
	switch r.Intn(4) {
	case 0:
		n0 = 1
	case 1:
		n0 = n - 1
	case 2:
		n0 = n / 2
	default:
		n0 = 1 + r.Intn(n-1)
	}
	n1 := n - n0
	gates := make([]circuit.Gate, 0, 3*n)
	var stats circuit.Stats
	emit := func(op circuit.Operation, a, b int) int {
		out := n + len(gates)
		g := circuit.Gate{Input0: circuit.Wire(a), Input1: circuit.Wire(b), Output: circuit.Wire(out), Op: op}
		if op == circuit.INV {
			g.Input1 = 0
		}
		gates = append(gates, g)
		stats[op]++
		return out
	}
	// parity chain over all inputs, in wire order or from the last wire down
	down := r.Bool()
	at := func(i int) int {
		if down {
			return n - 1 - i
		}
		return i
	}
	p := at(0)
	for i := 1; i < n; i++ {
		op := circuit.XOR
		if r.Intn(5) == 0 {
			op = circuit.XNOR
		}
		p = emit(op, p, at(i))
	}
	// reduction tree with all gate kinds
	pat := extPattern(r)
	pi := 0
	layer := make([]int, n)
	for i := range layer {
		layer[i] = i
	}
	for len(layer) > 4 {
		nl := make([]int, 0, len(layer)/2+1)
		for j := 0; j+1 < len(layer); j += 2 {
			// one gate in four follows the pattern of all kinds, the others are free (the model hashes
			// ~10^5 gates/s and the whole garbling is reproduced there)
			op := circuit.XOR
			switch r.Intn(8) {
			case 0, 1:
				op = pat[pi%len(pat)]
				pi++
			case 2:
				op = circuit.XNOR
			}
			a, b := layer[j], layer[j+1]
			if op == circuit.INV {
				if r.Bool() {
					a = emit(circuit.INV, a, 0)
				} else {
					b = emit(circuit.INV, b, 0)
				}
				op = []circuit.Operation{circuit.AND, circuit.OR, circuit.XOR}[r.Intn(3)]
			}
			nl = append(nl, emit(op, a, b))
		}
		if len(layer)%2 == 1 {
			nl = append(nl, layer[len(layer)-1])
		}
		layer = nl
	}
	first := len(gates)
	for j, root := range layer {
		emit([]circuit.Operation{circuit.XOR, circuit.AND, circuit.XNOR, circuit.OR}[(j+pi)%4], root, p)
	}
	emit(circuit.XOR, p, layer[0])
	nout := len(gates) - first
	return &circuit.Circuit{
		NumGates: len(gates),
		NumWires: n + len(gates),
		Inputs:   circuit.IO{hxlib.UintIO("a", n0), hxlib.UintIO("b", n1)},
		Outputs:  circuit.IO{hxlib.UintIO("r", nout)},
		Gates:    gates,
		Stats:    stats,
	}
}

// prgTape: a long random tape written down as its seed (input widths beyond
// 2^13: 16 bytes per input wire).  Word k (8 bytes, big endian) is the
// splitmix64 output number k+1 of the seed; the driver generates the same
// words (Driver/C01.lean prgLabel).
func prgTape(seed uint64, nbytes int) []byte {
	b := make([]byte, nbytes)
	s := seed
	for i := 0; i+8 <= nbytes; i += 8 {
		s += 0x9E3779B97F4A7C15
		z := s
		z = (z ^ (z >> 30)) * 0xBF58476D1CE4E5B9
		z = (z ^ (z >> 27)) * 0x94D049BB133111EB
		binary.BigEndian.PutUint64(b[i:], z^(z>>31))
	}
	return b
}

// ---- running digest d' = d*M + x + 1 (mod 2^128), Model/GarbleBig.lean `dig`

const digMulHi, digMulLo = 0x9E3779B97F4A7C15, 0xF39CC0605CEDC835

type dig128 struct{ hi, lo uint64 }

func (d *dig128) add(xhi, xlo uint64) {
	h, l := bits.Mul64(d.lo, digMulLo)
	h += d.hi*digMulLo + d.lo*digMulHi
	var c uint64
	l, c = bits.Add64(l, xlo, 0)
	h, _ = bits.Add64(h, xhi, c)
	l, c = bits.Add64(l, 1, 0)
	h += c
	d.hi, d.lo = h, l
}

func (d *dig128) label(l ot.Label) {
	var buf ot.LabelData
	l.GetData(&buf)
	d.add(binary.BigEndian.Uint64(buf[0:8]), binary.BigEndian.Uint64(buf[8:16]))
}

func (d *dig128) hex() string { return fmt.Sprintf("%016x%016x", d.hi, d.lo) }

func kindStr(n map[circuit.Operation]int) string {
	return fmt.Sprintf("a%d:o%d:i%d:x%d:n%d", n[circuit.AND], n[circuit.OR], n[circuit.INV], n[circuit.XOR], n[circuit.XNOR])
}

func extInputs(r *hxlib.Rng, nin, n int) [][]bool {
	var xs [][]bool
	for k := 0; k < n; k++ {
		x := make([]bool, nin)
		for j := range x {
			switch k {
			case 0:
				x[j] = r.Bool()
			case 1:
				x[j] = true
			case 2:
				x[j] = false
			default:
				x[j] = r.Bool()
			}
		}
		xs = append(xs, x)
	}
	return xs
}

// widthInputs: the assignments of an input-width case - only the last input
// wire set, only the first, every k-th (random k and phase), all, random.
func widthInputs(r *hxlib.Rng, nin int) ([][]bool, []string) {
	names := []string{"last_only", "first_only", "every_kth", "all_ones", "random"}
	xs := make([][]bool, len(names))
	for k := range xs {
		xs[k] = make([]bool, nin)
	}
	xs[0][nin-1] = true
	xs[1][0] = true
	kk := 2 + r.Intn(15)
	ph := r.Intn(kk)
	for j := 0; j < nin; j++ {
		xs[2][j] = j%kk == ph
		xs[3][j] = true
		xs[4][j] = r.Bool()
	}
	return xs, names
}

// inputSamples: the input wires whose pair is tied to the model in a `local`
// case: the first and last ones, the ones around every multiple of a
// discovered constant (a few multiples) and of 2^16 / 2^20, random ones.
func inputSamples(r *hxlib.Rng, nin int, consts []constFound) []int {
	pick := map[int]bool{}
	around := func(i int) {
		for d := -2; d <= 2; d++ {
			if i+d >= 0 && i+d < nin {
				pick[i+d] = true
			}
		}
	}
	around(0)
	around(nin - 1)
	bs := []int{1 << 16, 1 << 20}
	for _, c := range consts {
		bs = append(bs, c.Value)
	}
	for _, b := range bs {
		for m := 1; m <= 4; m++ {
			around(m * b)
		}
		around(nin / b * b)
	}
	for k := 0; k < 64; k++ {
		pick[r.Intn(nin)] = true
	}
	out := make([]int, 0, len(pick))
	for i := range pick {
		out = append(out, i)
	}
	sort.Ints(out)
	return out
}

// circLineFast is hxlib.CircLine without fmt (circuits of 10^6 gates).
func circLineFast(c *circuit.Circuit) string {
	b := make([]byte, 0, 16*len(c.Gates)+32)
	b = strconv.AppendInt(b, int64(c.NumWires), 10)
	b = append(b, ' ')
	b = strconv.AppendInt(b, int64(c.Inputs.Size()), 10)
	b = append(b, ' ')
	b = strconv.AppendInt(b, int64(c.Outputs.Size()), 10)
	b = append(b, ' ')
	if len(c.Gates) == 0 {
		b = append(b, '-')
	}
	for i := range c.Gates {
		g := &c.Gates[i]
		if i > 0 {
			b = append(b, ';')
		}
		b = append(b, hxlib.OpLetter[g.Op]...)
		b = strconv.AppendInt(b, int64(g.Input0), 10)
		b = append(b, '.')
		b = strconv.AppendInt(b, int64(g.Input1), 10)
		b = append(b, '.')
		b = strconv.AppendInt(b, int64(g.Output), 10)
	}
	return string(b)
}

// extSamples: the gates whose local step is tied to the model in a `local`
// case - the first and the last gates, the gates around every 2^16 / 2^20
// boundary of the table labels, of the gate index and of the output wire,
// and random ones.  Sorted, distinct.
func extSamples(r *hxlib.Rng, c *circuit.Circuit, labelsBefore []int, nrand int) []int {
	n := len(c.Gates)
	pick := map[int]bool{}
	around := func(gi int) {
		for d := -6; d <= 6; d++ {
			if gi+d >= 0 && gi+d < n {
				pick[gi+d] = true
			}
		}
	}
	around(0)
	for gi := n - 24; gi < n; gi++ {
		if gi >= 0 {
			pick[gi] = true
		}
	}
	nin := c.Inputs.Size()
	for _, b := range []int{1 << 16, 1 << 20, 1 << 21, 1 << 22} {
		// first gate whose rows end beyond b labels
		gi := sort.Search(n, func(k int) bool { return labelsBefore[k+1] > b })
		if gi < n {
			around(gi)
		}
		if b < n {
			around(b)
		}
		if b-nin >= 0 && b-nin < n {
			around(b - nin)
		}
	}
	for k := 0; k < nrand; k++ {
		pick[r.Intn(n)] = true
	}
	out := make([]int, 0, len(pick))
	for gi := range pick {
		out = append(out, gi)
	}
	sort.Ints(out)
	return out
}

func c01ext(args []string) int {
	repo := ""
	cf, o := hxlib.ParseCommon("c01", args, func(fs *flag.FlagSet) {
		fs.StringVar(&repo, "repo", "", "source tree under test (boundary discovery); default $VERIF_REPO, $MPCLDIR, /repo")
	})
	defer o.Close()
	for _, e := range []string{"VERIF_REPO", "MPCLDIR"} {
		if repo == "" {
			repo = os.Getenv(e)
		}
	}
	if repo == "" {
		repo = "/repo"
	}
	consts, cerr := discoverConstants(repo)
	if cerr != nil {
		// the obligation "boundary discovery ran" of checks/C01.py fails; the static plan still runs
		o.Meta["discovered_constants_error"] = cerr.Error()
	}
	o.Meta["discovered_constants"] = consts
	o.Meta["discovered_from"] = constAnchors
	plan := extPlan(cf.Tier, cf.Seed, consts)
	o.Meta["ext_plan_cases"] = len(plan)
	rng := hxlib.NewRng(cf.Seed*0x9E3779B97F4A7C15 ^ 0xc01e)
	keySizes := []int{16, 24, 32}
	for i, spec := range plan {
		r := rng.Fork()
		if i >= cf.N || (cf.Only >= 0 && i != cf.Only) {
			continue
		}
		rerun := fmt.Sprintf("hx-c01 ext -seed %d -n %d -only %d -tier %s", cf.Seed, cf.N, i, cf.Tier)
		var c *circuit.Circuit
		var body int
		if spec.dim == "inputs" {
			c = genWidth(r, spec.size)
			body = len(c.Gates)
		} else {
			c, body = genExt(r, spec)
		}
		nin := c.Inputs.Size()
		nout := c.Outputs.Size()
		n0 := int(c.Inputs[0].Type.Bits)
		labelsBefore := make([]int, len(c.Gates)+1)
		tweaksBefore := make([]int, len(c.Gates)+1)
		producer := make([]int, c.NumWires)
		for w := range producer {
			producer[w] = -1
		}
		for gi, g := range c.Gates {
			labelsBefore[gi+1] = labelsBefore[gi] + opRows[g.Op]
			tweaksBefore[gi+1] = tweaksBefore[gi] + map[circuit.Operation]int{circuit.AND: 2, circuit.OR: 1, circuit.INV: 1}[g.Op]
			producer[g.Output] = gi
		}
		total := labelsBefore[len(c.Gates)]
		o.Count("ext_cases")
		o.Count("ext_shape_" + spec.shape)
		o.Count("ext_dim_" + spec.dim)
		o.Count("ext_tie_" + spec.tie)
		if strings.HasPrefix(spec.src, "constant ") {
			o.Count("ext_discovered_cases")
			o.Count("ext_discovered_dim_" + spec.dim)
		}
		if spec.dim == "inputs" {
			for _, m := range []int{256, 1024} {
				switch nin % m {
				case m - 1:
					o.Count(fmt.Sprintf("ext_inputs_multiple_%d_minus1", m))
				case 0:
					o.Count(fmt.Sprintf("ext_inputs_multiple_%d", m))
				case 1:
					o.Count(fmt.Sprintf("ext_inputs_multiple_%d_plus1", m))
				}
			}
			if nin > 1<<13 {
				o.Count("ext_inputs_beyond_2p13")
			}
		}
		for _, b := range []int{1 << 16, 1 << 20, 1 << 21, 1 << 22} {
			lg := bits.Len(uint(b)) - 1
			for _, dim := range extDims {
				v := map[string]int{"labels": total, "gates": len(c.Gates), "wires": c.NumWires}[dim]
				bodyV := map[string]int{"labels": labelsBefore[body], "gates": body, "wires": nin + body}[dim]
				if spec.dim != "inputs" {
					switch {
					case bodyV == b-1:
						o.Count(fmt.Sprintf("ext_%s_body_2p%d_minus1", dim, lg))
					case bodyV == b:
						o.Count(fmt.Sprintf("ext_%s_body_2p%d", dim, lg))
					case bodyV == b+1:
						o.Count(fmt.Sprintf("ext_%s_body_2p%d_plus1", dim, lg))
					}
				}
				if v > b {
					o.Count(fmt.Sprintf("ext_%s_beyond_2p%d", dim, lg))
				}
			}
		}
		// gate kinds after each boundary of the table slab
		for _, b := range []int{1 << 16, 1 << 20} {
			if total <= b {
				continue
			}
			var after [5]int
			for gi, g := range c.Gates {
				if labelsBefore[gi+1] > b && int(g.Op) < 5 {
					after[g.Op]++
				}
			}
			for _, op := range allOps {
				if after[op] > 0 {
					o.CountN(fmt.Sprintf("ext_kind_%s_after_2p%d_labels", hxlib.OpLetter[op], bits.Len(uint(b))-1), after[op])
				}
			}
		}
		desc := map[string]any{"case": i, "spec": spec.String(), "boundary": spec.src, "rerun": rerun, "num_gates": len(c.Gates),
			"num_wires": c.NumWires, "table_labels": total, "tweaks": tweaksBefore[len(c.Gates)], "inputs": nin, "outputs": nout,
			"stats": kindStr(map[circuit.Operation]int{circuit.AND: int(c.Stats[circuit.AND]), circuit.OR: int(c.Stats[circuit.OR]),
				circuit.INV: int(c.Stats[circuit.INV]), circuit.XOR: int(c.Stats[circuit.XOR]), circuit.XNOR: int(c.Stats[circuit.XNOR])}),
			"circuit": "generated by genExt / genWidth (harness/cmd/c01/ext.go) from the spec and the seed; `" + rerun +
				" -ops F` writes the whole circuit as an op line"}
		fail := func(sig string, more map[string]any) {
			d := map[string]any{}
			for k, v := range desc {
				d[k] = v
			}
			for k, v := range more {
				d[k] = v
			}
			if w, ok := more["wire"].(int); ok && w < len(producer) && producer[w] >= 0 {
				gi := producer[w]
				g := c.Gates[gi]
				d["gate"] = gi
				d["gate_op"] = g.Op.String()
				d["gate_text"] = fmt.Sprintf("%s%d.%d.%d", hxlib.OpLetter[g.Op], g.Input0, g.Input1, g.Output)
				d["table_labels_before_gate"] = labelsBefore[gi]
				d["tweaks_before_gate"] = tweaksBefore[gi]
			} else if ok && w < nin {
				d["input_wire"] = w
				d["input_wires"] = nin
			}
			o.Fail(sig, d)
		}
		var xs [][]bool
		var xnames []string
		if spec.dim == "inputs" {
			xs, xnames = widthInputs(r, nin)
		} else {
			xs = extInputs(r, nin, 3)
			xnames = []string{"random", "all_ones", "all_zero"}
		}
		var xstr []string
		for _, x := range xs {
			xstr = append(xstr, hxlib.BitsString(x))
		}
		// what a failure record shows of an input: the text, or for wide inputs its name and the set wires
		xshow := func(k int) string {
			if nin <= 256 {
				return xstr[k]
			}
			set := 0
			for _, b := range xs[k] {
				if b {
					set++
				}
			}
			return fmt.Sprintf("%s (%d of %d input wires set; last wire %v, first wire %v)", xnames[k], set, nin, xs[k][nin-1], xs[k][0])
		}
		refs := make([][]bool, len(xs))
		for k, x := range xs {
			refs[k] = hxlib.RefEval(c, x)
		}
		// Compute (once per input)
		cbits := make([]string, len(xs))
		for k, x := range xs {
			func() {
				defer func() {
					if e := recover(); e != nil {
						cbits[k] = "panic"
						fail("c01-panic", map[string]any{"x": xshow(k), "panic": fmt.Sprint(e), "in": "Compute"})
					}
				}()
				outs, err := c.Compute([]*big.Int{bitsToBig(x[:n0]), bitsToBig(x[n0:])})
				if err != nil {
					cbits[k] = "compute-error"
					fail("c01-compute-error", map[string]any{"x": xshow(k), "err": err.Error()})
					return
				}
				cb := make([]bool, 0, nout)
				for q, io := range c.Outputs {
					for b := 0; b < int(io.Type.Bits); b++ {
						cb = append(cb, outs[q].Bit(b) == 1)
					}
				}
				cbits[k] = hxlib.BitsString(cb)
				for q := 0; q < nout; q++ {
					if cb[q] != refs[k][c.NumWires-nout+q] {
						fail("c01-compute-mismatch", map[string]any{"x": xshow(k), "out": q})
						break
					}
				}
			}()
		}
		// how many garblings are tied to the model (all are judged by the oracle)
		tied := 3
		if spec.tie == "full" && spec.dim != "inputs" && (cf.Tier != "thorough" || spec.size > 1<<17) && spec.size > 1<<12 {
			tied = 1
		}
		if spec.dim == "inputs" && nin > 1<<10+1 {
			tied = 2 // fresh scratch and pooled scratch
		}
		if spec.dim == "inputs" && nin > 1<<13+1 {
			tied = 1
		}
		var samples, isamples []int
		if spec.tie == "local" {
			samples = extSamples(r, c, labelsBefore, 400)
			isamples = inputSamples(r, nin, consts)
			o.CountN("ext_local_steps", tied*len(samples))
			o.CountN("ext_local_input_wires", tied*len(isamples))
		}
		// the garblings of one case are a history on one circuit value; keep the collector from emptying the pool
		// in between (small cases only: the big ones need it)
		gcOff, gcOld := c.NumWires < 1<<18, 0
		if gcOff {
			gcOld = debug.SetGCPercent(-1)
		}
		var prevScratch unsafe.Pointer
		var keys, tapes, smp, results []string
		for ki := 0; ki < 3; ki++ {
			ks := keySizes[(ki+int(cf.Seed)+i)%3]
			key := r.Bytes(ks)
			var tape []byte
			var tapeText string
			if nin > 1<<13+1 {
				ts := r.U64()
				tape = prgTape(ts, 16*(1+nin))
				tapeText = fmt.Sprintf("@%016x", ts)
			} else {
				tape = r.Bytes(16 * (1 + nin))
				tapeText = hxlib.Hex(tape)
			}
			var res, sm strings.Builder
			ctxd := map[string]any{"key": hxlib.Hex(key), "garbling": ki}
			if len(tapeText) <= 4096 {
				ctxd["tape"] = tapeText
			} else {
				ctxd["tape"] = fmt.Sprintf("%d random bytes (derived from the seed; `%s -ops F` writes them)", len(tape), rerun)
			}
			with := func(m map[string]any) map[string]any {
				for k, v := range ctxd {
					m[k] = v
				}
				return m
			}
			func() {
				defer func() {
					if e := recover(); e != nil {
						res.Reset()
						res.WriteString("panic")
						fail("c01-panic", with(map[string]any{"panic": fmt.Sprint(e)}))
					}
				}()
				tp := &hxlib.Tape{Data: tape}
				g, err := c.Garble(tp, key)
				if err != nil {
					res.WriteString("garble-error")
					fail("c01-garble-error", with(map[string]any{"err": err.Error()}))
					return
				}
				defer g.Release()
				// history: fresh scratch or the pooled scratch of the garbling before
				sp := unsafe.Pointer(unsafe.SliceData(g.Wires))
				scr := "fresh"
				if ki > 0 && sp == prevScratch {
					scr = "reused"
				}
				prevScratch = sp
				ctxd["scratch"] = scr
				o.Count("ext_scratch_" + scr)
				if spec.dim == "inputs" {
					o.Count("ext_inputs_scratch_" + scr)
				}
				// structural self-check of the Garbled value
				perKind := map[circuit.Operation]int{}
				rows := 0
				var gd dig128
				structOK := len(g.Gates) == len(c.Gates) && len(g.Wires) == c.NumWires
				if !structOK {
					fail("c01-garbled-shape", with(map[string]any{"gates": len(g.Gates), "wires": len(g.Wires)}))
				}
				if !g.R.S() {
					fail("c01-offset-select-bit-clear", with(map[string]any{"r": labelHex(g.R)}))
				}
				// every wire pair - the input wires first - is (L0, L0 xor R): C01_garbled_eq_plain,
				// C01_every_input_wire_assigned.  Reported after the evaluations of this garbling (the first
				// failure of a run is the replay: an evaluation on a concrete input, when there is one), and
				// named in their records.
				var pairFail map[string]any
				for w := 0; w < len(g.Wires) && w < c.NumWires; w++ {
					l := g.Wires[w].L0
					l.Xor(g.R)
					if !l.Equal(g.Wires[w].L1) {
						var zero ot.Label
						what := "L1 != L0 xor R"
						if g.Wires[w].L0.Equal(zero) && g.Wires[w].L1.Equal(zero) {
							what = "L0 = L1 = 0: the wire was not assigned"
						} else if w < nin {
							what = "L1 != L0 xor R: the pair does not belong to this garbling's R (stale or unassigned)"
						}
						pairFail = map[string]any{"wire": w, "what": what, "l0": labelHex(g.Wires[w].L0),
							"l1": labelHex(g.Wires[w].L1), "r": labelHex(g.R), "tape_bytes_consumed": tp.Pos, "tape_bytes": len(tape)}
						ctxd["garbled_value"] = fmt.Sprintf("wire %d of the Garbled value: %s (L0=%s L1=%s R=%s); %d of %d tape bytes consumed",
							w, what, labelHex(g.Wires[w].L0), labelHex(g.Wires[w].L1), labelHex(g.R), tp.Pos, len(tape))
						break
					}
				}
				defer func() {
					if pairFail != nil {
						delete(ctxd, "garbled_value")
						fail("c01-pair-not-offset", with(pairFail))
					}
				}()
				for gi := 0; gi < len(g.Gates) && gi < len(c.Gates); gi++ {
					n := len(g.Gates[gi])
					perKind[c.Gates[gi].Op] += n
					rows += n
					if n != opRows[c.Gates[gi].Op] && structOK {
						structOK = false
						fail("c01-garbled-row-count", with(map[string]any{"wire": int(c.Gates[gi].Output), "rows": n,
							"want_rows": opRows[c.Gates[gi].Op]}))
					}
					for _, l := range g.Gates[gi] {
						gd.label(l)
					}
					gd.add(0, uint64(n))
				}
				if spec.tie == "full" {
					var wd dig128
					for w := 0; w < len(g.Wires); w++ {
						wd.label(g.Wires[w].L0)
						wd.label(g.Wires[w].L1)
					}
					fmt.Fprintf(&res, "r=%s;used=%d;rows=%s;total=%d;wd=%s;gd=%s;e=", labelHex(g.R), tp.Pos, kindStr(perKind), rows, wd.hex(), gd.hex())
				} else {
					fmt.Fprintf(&res, "r=%s;used=%d;rows=%s;total=%d;c=%s;s=", labelHex(g.R), tp.Pos, kindStr(perKind), rows, strings.Join(cbits, ","))
					for si, gi := range samples {
						if gi >= len(g.Gates) {
							continue
						}
						gt := c.Gates[gi]
						if si > 0 {
							res.WriteByte(',')
							sm.WriteByte(',')
						}
						// op side: the real pairs of the gate's input wires; result side: the real output pair and rows
						fmt.Fprintf(&sm, "%d:%s%s%s%s", gi, labelHex(g.Wires[gt.Input0].L0), labelHex(g.Wires[gt.Input0].L1),
							labelHex(g.Wires[gt.Input1].L0), labelHex(g.Wires[gt.Input1].L1))
						fmt.Fprintf(&res, "%d:%s%s:", gi, labelHex(g.Wires[gt.Output].L0), labelHex(g.Wires[gt.Output].L1))
						for _, l := range g.Gates[gi] {
							res.WriteString(labelHex(l))
						}
					}
					// sampled input wires: op side the index, result side the real pair (the model: tape slot w+1 and R)
					for _, w := range isamples {
						if sm.Len() > 0 {
							res.WriteByte(',')
							sm.WriteByte(',')
						}
						fmt.Fprintf(&sm, "w%d", w)
						fmt.Fprintf(&res, "w%d:%s%s", w, labelHex(g.Wires[w].L0), labelHex(g.Wires[w].L1))
					}
				}
				// the tables as they would be after transmission
				flat := make([]ot.Label, 0, rows)
				tables := make([][]ot.Label, len(g.Gates))
				for gi := range g.Gates {
					s0 := len(flat)
					flat = append(flat, g.Gates[gi]...)
					tables[gi] = flat[s0:len(flat):len(flat)]
				}
				for k, x := range xs {
					wires := make([]ot.Label, c.NumWires)
					for w := 0; w < nin; w++ {
						wires[w] = circuit.LabelForBit(g.Wires[w], x[w])
					}
					if k > 0 && spec.tie == "full" {
						res.WriteByte(',')
					}
					if err := c.Eval(key, wires, tables); err != nil {
						if spec.tie == "full" {
							res.WriteString("eval-error")
						}
						fail("c01-eval-error", with(map[string]any{"x": xshow(k), "err": err.Error()}))
						continue
					}
					if spec.tie == "full" {
						var ed dig128
						for w := range wires {
							ed.label(wires[w])
						}
						fmt.Fprintf(&res, "%s:%s", ed.hex(), cbits[k])
					}
					// oracle on EVERY wire (all wires are defined); a failure record also names the first OUTPUT
					// wire whose label does not decode to the reference bit
					badOut := func() any {
						for q := c.NumWires - nout; q < c.NumWires; q++ {
							b, err := circuit.BitFromLabel(g.Wires[q], wires[q])
							if err != nil {
								return fmt.Sprintf("output wire %d: the evaluated label is neither of the wire's labels", q)
							}
							if b != refs[k][q] {
								return fmt.Sprintf("output wire %d decodes to %v, truth-table evaluation and Compute give %v", q, b, refs[k][q])
							}
						}
						return "all output wires decode correctly"
					}
					for w := 0; w < c.NumWires; w++ {
						b, err := circuit.BitFromLabel(g.Wires[w], wires[w])
						if err != nil {
							fail("c01-unknown-label", with(map[string]any{"x": xshow(k), "wire": w, "outputs_seen": badOut()}))
							break
						}
						if b != refs[k][w] {
							fail("c01-wrong-bit", with(map[string]any{"x": xshow(k), "wire": w, "got": b, "want": refs[k][w], "outputs_seen": badOut()}))
							break
						}
						if g.Wires[w].L0.Equal(g.Wires[w].L1) {
							fail("c01-equal-labels", with(map[string]any{"x": xshow(k), "wire": w, "outputs_seen": badOut()}))
							break
						}
					}
					o.Count("ext_evaluations")
					if spec.dim == "inputs" {
						o.Count("ext_inputs_assignment_" + xnames[k])
					}
				}
			}()
			if ki < tied {
				keys = append(keys, hxlib.Hex(key))
				tapes = append(tapes, tapeText)
				results = append(results, res.String())
				if sm.Len() == 0 {
					sm.WriteByte('-')
				}
				smp = append(smp, sm.String())
				o.Count("ext_garblings_tied_" + spec.tie)
				if spec.dim == "inputs" {
					o.Count("ext_inputs_garblings_tied_" + spec.tie)
				}
			}
			o.Count("ext_garblings")
			o.Count(fmt.Sprintf("ext_keysize_%d", ks))
			if spec.dim == "inputs" {
				o.Count(fmt.Sprintf("ext_inputs_keysize_%d", ks))
			}
			o.CountN("ext_gates", len(c.Gates))
			o.CountN("ext_table_labels", total)
		}
		if gcOff {
			debug.SetGCPercent(gcOld)
		}
		if cf.Ops != "" {
			o.Op(fmt.Sprintf("c01x %s %s %s %s %s %s", spec.tie, strings.Join(keys, "/"), strings.Join(tapes, "/"),
				circLineFast(c), strings.Join(xstr, ","), strings.Join(smp, "/")), strings.Join(results, "|"))
		}
		if i < 2 || (spec.dim != "inputs" && len(o.Samples) < 4) {
			o.Sample(desc)
		}
	}
	return 0
}

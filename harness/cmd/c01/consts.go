package main

// Boundary DISCOVERY for the extreme-circuit mode (ext.go).
//
// "Every circuit" meets the implementation at the sizes of its buffers, batches
// and counters.  Which sizes those are is a fact of the code under test, not of
// the generator: a batch of 1024 labels, a 4-slot stack table, a 16-byte label.
// Instead of guessing them (powers of two) the harness reads them off the
// source of the garbling code path on every run:
//
//   - every integer literal,
//   - every constant (sub)expression that evaluates syntactically (`1 << 10`,
//     `4 * batch`, `[16]byte`, `const n = ...`), including package-level
//     constants of the packages `circuit` and `ot` declared in ANY file of the
//     package when an anchor file mentions them (also as `ot.Name`),
//
// of circuit/garble.go, circuit/eval.go and ot/label.go.  Every value c in
// [8, 2^20] is a boundary candidate for every size dimension of a circuit
// (inputs, table rows, gates, wires): sizes c-1, c, c+1, 2c-1, 2c, 2c+1.  A
// value that is a multiple of the label size (16 bytes) also yields c/16 (a
// byte-sized buffer holds c/16 labels).  The discovered constants are recorded
// in the evidence.

import (
	"fmt"
	"go/ast"
	"go/parser"
	"go/token"
	"os"
	"path/filepath"
	"sort"
	"strconv"
	"strings"
)

var constAnchors = []string{"circuit/garble.go", "circuit/eval.go", "ot/label.go"}

const constMin, constMax = 8, 1 << 20

type constFound struct {
	Value int      `json:"value"`
	Where []string `json:"where"`
}

type constEnv struct {
	pkgs  map[string]map[string]ast.Expr // package name -> const name -> value expression
	busy  map[string]bool
	local string
}

func (e *constEnv) eval(x ast.Expr) (int64, bool) {
	switch v := x.(type) {
	case *ast.BasicLit:
		if v.Kind != token.INT {
			return 0, false
		}
		n, err := strconv.ParseInt(strings.ReplaceAll(v.Value, "_", ""), 0, 64)
		return n, err == nil
	case *ast.ParenExpr:
		return e.eval(v.X)
	case *ast.UnaryExpr:
		a, ok := e.eval(v.X)
		if !ok {
			return 0, false
		}
		switch v.Op {
		case token.SUB:
			return -a, true
		case token.ADD:
			return a, true
		case token.XOR:
			return ^a, true
		}
		return 0, false
	case *ast.BinaryExpr:
		a, ok := e.eval(v.X)
		if !ok {
			return 0, false
		}
		b, ok := e.eval(v.Y)
		if !ok {
			return 0, false
		}
		switch v.Op {
		case token.ADD:
			return a + b, true
		case token.SUB:
			return a - b, true
		case token.MUL:
			return a * b, true
		case token.QUO:
			if b == 0 {
				return 0, false
			}
			return a / b, true
		case token.REM:
			if b == 0 {
				return 0, false
			}
			return a % b, true
		case token.SHL:
			if b < 0 || b > 40 {
				return 0, false
			}
			return a << uint(b), true
		case token.SHR:
			if b < 0 || b > 63 {
				return 0, false
			}
			return a >> uint(b), true
		case token.AND:
			return a & b, true
		case token.OR:
			return a | b, true
		case token.XOR:
			return a ^ b, true
		case token.AND_NOT:
			return a &^ b, true
		}
		return 0, false
	case *ast.Ident:
		return e.named(e.local, v.Name)
	case *ast.SelectorExpr:
		if p, ok := v.X.(*ast.Ident); ok {
			return e.named(p.Name, v.Sel.Name)
		}
		return 0, false
	case *ast.CallExpr:
		// conversions int(x), uint32(x), ...
		if id, ok := v.Fun.(*ast.Ident); ok && len(v.Args) == 1 {
			switch id.Name {
			case "int", "int32", "int64", "uint", "uint32", "uint64", "uintptr":
				return e.eval(v.Args[0])
			}
		}
		return 0, false
	}
	return 0, false
}

func (e *constEnv) named(pkg, name string) (int64, bool) {
	x, ok := e.pkgs[pkg][name]
	if !ok {
		return 0, false
	}
	key := pkg + "." + name
	if e.busy[key] {
		return 0, false
	}
	e.busy[key] = true
	defer delete(e.busy, key)
	saved := e.local
	e.local = pkg
	defer func() { e.local = saved }()
	return e.eval(x)
}

// discoverConstants returns the boundary candidates read off the source tree
// `repo`, sorted by value.
func discoverConstants(repo string) ([]constFound, error) {
	fset := token.NewFileSet()
	env := &constEnv{pkgs: map[string]map[string]ast.Expr{}, busy: map[string]bool{}}
	anchors := map[string]*ast.File{}
	dirs := map[string]bool{}
	for _, a := range constAnchors {
		dirs[filepath.Dir(a)] = true
	}
	for dir := range dirs {
		ents, err := os.ReadDir(filepath.Join(repo, dir))
		if err != nil {
			return nil, err
		}
		for _, ent := range ents {
			name := ent.Name()
			if ent.IsDir() || !strings.HasSuffix(name, ".go") || strings.HasSuffix(name, "_test.go") {
				continue
			}
			rel := filepath.Join(dir, name)
			f, err := parser.ParseFile(fset, filepath.Join(repo, rel), nil, parser.SkipObjectResolution)
			if err != nil {
				return nil, fmt.Errorf("%s: %v", rel, err)
			}
			pkg := f.Name.Name
			if env.pkgs[pkg] == nil {
				env.pkgs[pkg] = map[string]ast.Expr{}
			}
			for _, d := range f.Decls {
				gd, ok := d.(*ast.GenDecl)
				if !ok || gd.Tok != token.CONST {
					continue
				}
				for _, s := range gd.Specs {
					vs := s.(*ast.ValueSpec)
					for i, n := range vs.Names {
						if i < len(vs.Values) {
							env.pkgs[pkg][n.Name] = vs.Values[i]
						}
					}
				}
			}
			for _, a := range constAnchors {
				if a == filepath.ToSlash(rel) {
					anchors[a] = f
				}
			}
		}
	}
	found := map[int]map[string]bool{}
	note := func(v int64, where string) {
		add := func(v int64, w string) {
			if v >= constMin && v <= constMax {
				if found[int(v)] == nil {
					found[int(v)] = map[string]bool{}
				}
				found[int(v)][w] = true
			}
		}
		add(v, where)
		if v > 0 && v%16 == 0 {
			add(v/16, where+" (/16: labels in a buffer of that many bytes)")
		}
	}
	for _, a := range constAnchors {
		f := anchors[a]
		if f == nil {
			return nil, fmt.Errorf("%s: not found", a)
		}
		env.local = f.Name.Name
		ast.Inspect(f, func(n ast.Node) bool {
			x, ok := n.(ast.Expr)
			if !ok {
				return true
			}
			if v, ok := env.eval(x); ok {
				note(v, fmt.Sprintf("%s:%d", a, fset.Position(x.Pos()).Line))
			}
			return true
		})
	}
	var out []constFound
	for v, ws := range found {
		var w []string
		for s := range ws {
			w = append(w, s)
		}
		sort.Strings(w)
		if len(w) > 4 {
			w = append(w[:4], fmt.Sprintf("... %d more", len(w)-4))
		}
		out = append(out, constFound{Value: v, Where: w})
	}
	sort.Slice(out, func(i, j int) bool { return out[i].Value < out[j].Value })
	return out, nil
}

// boundarySizes: the sizes around a boundary candidate c.
func boundarySizes(c int) []int {
	return []int{c - 1, c, c + 1, 2*c - 1, 2 * c, 2*c + 1}
}

package main

import (
	"fmt"
	"math/big"
	"os"
	"strings"

	"github.com/markkurossi/mpc/circuit"
	"github.com/markkurossi/mpc/ot"

	"verifharness/hxlib"
)

func labelHex(l ot.Label) string {
	var d ot.LabelData
	l.GetData(&d)
	return hxlib.Hex(d[:])
}

func definedWires(c *circuit.Circuit) []bool {
	d := make([]bool, c.NumWires)
	for i := 0; i < c.Inputs.Size(); i++ {
		d[i] = true
	}
	for _, g := range c.Gates {
		d[g.Output] = true
	}
	return d
}

func bitsToBig(bits []bool) *big.Int {
	v := new(big.Int)
	for i, b := range bits {
		if b {
			v.SetBit(v, i, 1)
		}
	}
	return v
}

// c01Case runs Garble + Eval + Compute on one circuit and returns the op
// line and the canonical result line.
func c01Case(o *hxlib.Out, c *circuit.Circuit, key, tape []byte, x []bool, idx int, release bool) (string, string, *circuit.Garbled) {
	var handle *circuit.Garbled
	op := fmt.Sprintf("c01 %s %s %s %s", hxlib.Hex(key), hxlib.Hex(tape), hxlib.CircLine(c), hxlib.BitsString(x))
	var res strings.Builder
	func() {
		defer func() {
			if e := recover(); e != nil {
				res.Reset()
				fmt.Fprintf(&res, "panic")
				o.Fail("c01-panic", map[string]any{"case": idx, "op": op, "panic": fmt.Sprint(e)})
			}
		}()
		g, err := c.Garble(&hxlib.Tape{Data: tape}, key)
		if err != nil {
			fmt.Fprintf(&res, "garble-error")
			o.Fail("c01-garble-error", map[string]any{"case": idx, "op": op, "err": err.Error()})
			return
		}
		def := definedWires(c)
		fmt.Fprintf(&res, "r=%s;w=", labelHex(g.R))
		for w := 0; w < c.NumWires; w++ {
			if def[w] {
				res.WriteString(labelHex(g.Wires[w].L0))
				res.WriteString(labelHex(g.Wires[w].L1))
			}
		}
		res.WriteString(";g=")
		for i, rows := range g.Gates {
			if i > 0 {
				res.WriteByte(',')
			}
			for _, l := range rows {
				res.WriteString(labelHex(l))
			}
		}
		// evaluator side
		nin := c.Inputs.Size()
		wires := make([]ot.Label, c.NumWires)
		for i := 0; i < nin; i++ {
			wires[i] = circuit.LabelForBit(g.Wires[i], x[i])
		}
		// copy the tables, as they would be after transmission
		tables := make([][]ot.Label, len(g.Gates))
		for i := range g.Gates {
			tables[i] = append([]ot.Label(nil), g.Gates[i]...)
		}
		if err := c.Eval(key, wires, tables); err != nil {
			fmt.Fprintf(&res, ";eval-error")
			o.Fail("c01-eval-error", map[string]any{"case": idx, "op": op, "err": err.Error()})
			return
		}
		res.WriteString(";e=")
		for w := 0; w < c.NumWires; w++ {
			if def[w] {
				res.WriteString(labelHex(wires[w]))
			}
		}
		// oracle: every defined wire's label is one of the two and decodes to
		// the reference value; outputs equal Compute.
		ref := hxlib.RefEval(c, x)
		for w := 0; w < c.NumWires; w++ {
			if !def[w] {
				continue
			}
			b, err := circuit.BitFromLabel(g.Wires[w], wires[w])
			if err != nil {
				o.Fail("c01-unknown-label", map[string]any{"case": idx, "op": op, "wire": w})
				break
			}
			if b != ref[w] {
				o.Fail("c01-wrong-bit", map[string]any{"case": idx, "op": op, "wire": w, "got": b, "want": ref[w]})
				break
			}
			if g.Wires[w].L0.Equal(g.Wires[w].L1) {
				o.Fail("c01-equal-labels", map[string]any{"case": idx, "op": op, "wire": w})
				break
			}
		}
		n0 := int(c.Inputs[0].Type.Bits)
		outs, err := c.Compute([]*big.Int{bitsToBig(x[:n0]), bitsToBig(x[n0:])})
		if err != nil {
			o.Fail("c01-compute-error", map[string]any{"case": idx, "op": op, "err": err.Error()})
			return
		}
		res.WriteString(";c=")
		nout := c.Outputs.Size()
		cb := make([]bool, 0, nout)
		for k, io := range c.Outputs {
			for b := 0; b < int(io.Type.Bits); b++ {
				cb = append(cb, outs[k].Bit(b) == 1)
			}
		}
		res.WriteString(hxlib.BitsString(cb))
		for i := 0; i < nout; i++ {
			if cb[i] != ref[c.NumWires-nout+i] {
				o.Fail("c01-compute-mismatch", map[string]any{"case": idx, "op": op, "out": i})
				break
			}
		}
		// coverage: permute/value combinations seen per gate kind
		pv := hxlib.RefEval(c, x)
		for _, gt := range c.Gates {
			pa := g.Wires[gt.Input0].L0.S()
			va := pv[gt.Input0]
			switch gt.Op {
			case circuit.AND, circuit.OR:
				pb := g.Wires[gt.Input1].L0.S()
				vb := pv[gt.Input1]
				o.Count(fmt.Sprintf("combo_%s_%d%d%d%d", hxlib.OpLetter[gt.Op], b2i(va), b2i(vb), b2i(pa), b2i(pb)))
			case circuit.INV:
				o.Count(fmt.Sprintf("combo_i_%d%d", b2i(va), b2i(pa)))
			}
			if gt.Op != circuit.INV && gt.Input0 == gt.Input1 {
				o.Count("gate_in0_eq_in1")
			}
		}
		if release {
			g.Release()
		} else {
			handle = g
		}
	}()
	return op, res.String(), handle
}

// addSelfOverwrites inserts gates that write one of their own input wires
// (out = in1, out = in0, out = in0 = in1) on non-input wires that are already
// defined, for every gate kind; the circuit stays well-formed (every wire that
// was defined stays defined, no input wire is overwritten).  The random
// generator produces such a gate only by chance.
func addSelfOverwrites(r *hxlib.Rng, c *circuit.Circuit, o *hxlib.Out) *circuit.Circuit {
	nin := c.Inputs.Size()
	var gates []circuit.Gate
	var stats circuit.Stats
	defined := make([]int, 0, c.NumWires) // defined non-input wires
	isDef := make([]bool, c.NumWires)
	anyDefined := func() int {
		k := r.Intn(nin + len(defined))
		if k < nin {
			return k
		}
		return defined[k-nin]
	}
	ins := 0
	for gi, g := range c.Gates {
		gates = append(gates, g)
		stats[g.Op]++
		if !isDef[g.Output] {
			isDef[g.Output] = true
			defined = append(defined, int(g.Output))
		}
		if (r.Intn(6) == 0 || (ins == 0 && gi == len(c.Gates)-1)) && ins < 12 {
			op := circuit.Operation((ins + r.Intn(5)) % 5)
			w := defined[r.Intn(len(defined))]
			a := anyDefined()
			n := circuit.Gate{Op: op, Output: circuit.Wire(w)}
			form := r.Intn(3)
			if op == circuit.INV {
				form = 1
			}
			switch form {
			case 0: // out = in1
				n.Input0, n.Input1 = circuit.Wire(a), circuit.Wire(w)
				o.Count("gate_out_eq_in1_" + hxlib.OpLetter[op])
			case 1: // out = in0
				n.Input0, n.Input1 = circuit.Wire(w), circuit.Wire(a)
				if op == circuit.INV {
					n.Input1 = 0
				}
				o.Count("gate_out_eq_in0_" + hxlib.OpLetter[op])
			default: // out = in0 = in1
				n.Input0, n.Input1 = circuit.Wire(w), circuit.Wire(w)
				o.Count("gate_out_eq_in0_eq_in1_" + hxlib.OpLetter[op])
			}
			gates = append(gates, n)
			stats[op]++
			ins++
		}
	}
	return &circuit.Circuit{
		NumGates: len(gates),
		NumWires: c.NumWires,
		Inputs:   c.Inputs,
		Outputs:  c.Outputs,
		Gates:    gates,
		Stats:    stats,
	}
}

func b2i(b bool) int {
	if b {
		return 1
	}
	return 0
}

// usage: c01 <mode> [flags]; modes: garble, hist (hist.go), ext (ext.go)
func main() {
	if len(os.Args) < 2 {
		fmt.Fprintln(os.Stderr, "usage: c01 garble|hist|ext [flags]")
		os.Exit(2)
	}
	switch os.Args[1] {
	case "garble":
		os.Exit(c01(os.Args[2:]))
	case "hist":
		os.Exit(c01hist(os.Args[2:]))
	case "ext":
		os.Exit(c01ext(os.Args[2:]))
	default:
		fmt.Fprintf(os.Stderr, "unknown mode %q\n", os.Args[1])
		os.Exit(2)
	}
}

func c01(args []string) int {
	cf, o := hxlib.ParseCommon("c01", args, nil)
	defer o.Close()
	rng := hxlib.NewRng(cf.Seed)
	mixes := []string{"uniform", "and", "orinv", "xnor", "uniform", "free"}
	keySizes := []int{16, 24, 32}
	maxGates := 120
	if cf.Tier == "thorough" {
		maxGates = 400
	}
	for i := 0; i < cf.N; i++ {
		r := rng.Fork()
		if cf.Only >= 0 && i != cf.Only {
			continue
		}
		c := hxlib.GenCircuit(r, hxlib.GenOpts{MaxGates: maxGates, MaxIn: 6, Mix: mixes[i%len(mixes)], AllowReuse: i%3 == 0})
		if i%3 == 0 {
			// wire reuse includes a gate writing one of its OWN input wires: made certain here, per gate kind
			c = addSelfOverwrites(r, c, o)
		}
		nin := c.Inputs.Size()
		// A history of garblings on ONE circuit value: scratch buffers released
		// and reused, the key buffer refilled in place or replaced, key sizes
		// changing, earlier handles still live.  Each round must behave like a
		// first use (compared with the model and checked by the oracle).
		rounds := 1 + r.Intn(3)
		kb := r.Bytes(keySizes[i%3])
		var live []*circuit.Garbled
		for k := 0; k < rounds; k++ {
			if k > 0 {
				switch r.Intn(3) {
				case 0: // refill the same buffer in place
					r.Read(kb)
					o.Count("history_key_refilled_in_place")
				case 1: // new buffer, same size
					kb = r.Bytes(len(kb))
					o.Count("history_key_new_buffer")
				default: // different key size
					kb = r.Bytes(keySizes[r.Intn(3)])
					o.Count("history_key_resized")
				}
			}
			tape := r.Bytes(16 * (1 + nin))
			// bias some tapes: all-zero / all-one labels exercise equal permute bits
			switch r.Intn(10) {
			case 0:
				for j := range tape {
					tape[j] = 0
				}
			case 1:
				for j := range tape {
					tape[j] = 0xff
				}
			}
			x := make([]bool, nin)
			for j := range x {
				x[j] = r.Bool()
			}
			release := r.Intn(3) != 0
			op, res, h := c01Case(o, c, kb, tape, x, i, release)
			if h != nil {
				live = append(live, h)
				o.Count("history_handle_kept_live")
			} else {
				o.Count("history_released")
			}
			o.Op(op, res)
			o.Count("cases")
			o.Count(fmt.Sprintf("keysize_%d", len(kb)))
			o.CountN("gates", len(c.Gates))
		}
		for _, h := range live {
			h.Release()
		}
		o.Count("circuits")
		o.Count("mix_" + mixes[i%len(mixes)])
		if i < 3 {
			o.Sample(map[string]any{"case": i, "circuit": hxlib.CircLine(c), "rounds": rounds})
		}
	}
	return 0
}

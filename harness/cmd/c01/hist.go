package main

// Mode `hist`: garbling HISTORIES on one circuit value with FAILING Garble
// calls and several garblings live at the same time.
//
// The property quantifies over every garbling key and randomness: a random
// source may fail or run short at any byte, and a key may be refused.  A
// history is a sequence of calls on ONE *circuit.Circuit:
//
//	G:<key>:<tape>  c.Garble(tape, key); fails when the tape runs short (before
//	                R, inside R, right after R, inside / between input labels,
//	                one byte before the end) or the key size is refused
//	E:<h>:<bits>    evaluate live garbling number h (numbered by successful
//	                Garble calls) on the input: labels from g.Wires, tables
//	                g.Gates as the handle shows them NOW, key as it was at
//	                garble time
//	R:<h>           g.Release() (possibly a second time)
//
// with 2..3 garblings live at the same time, evaluated out of order and more
// than once, released in any order.  The same op line is run on the Lean
// model (Model/GarbleHist.lean: each call a block of steps of the ownership
// model instantiated with the real writes of Garble) and compared byte for
// byte; the oracle checks on the real code that a live garbling never
// changes, that two live garblings never share their buffers, and that every
// evaluation decodes to the reference bits on every defined wire.

import (
	"fmt"
	"io"
	"math/big"
	"runtime/debug"
	"strings"

	"github.com/markkurossi/mpc/circuit"
	"github.com/markkurossi/mpc/ot"

	"verifharness/hxlib"
)

// cutReader delivers the bytes of the tape and then fails: a read that does
// not fit gets the remaining bytes and an error.
type cutReader struct {
	data []byte
	pos  int
}

func (t *cutReader) Read(p []byte) (int, error) {
	if t.pos+len(p) > len(t.data) {
		n := copy(p, t.data[t.pos:])
		t.pos += n
		return n, io.ErrUnexpectedEOF
	}
	copy(p, t.data[t.pos:t.pos+len(p)])
	t.pos += len(p)
	return len(p), nil
}

type hEvent struct {
	kind byte // 'G', 'E', 'R'
	key  []byte
	tape []byte
	cls  string // G: "ok" or the failure class
	h    int
	x    []bool
}

var failClasses = []string{"beforeR", "insideR", "afterR", "insideLabel", "betweenLabels", "lastByte", "badKey"}

func hexOrDash(b []byte) string {
	if len(b) == 0 {
		return "-"
	}
	return hxlib.Hex(b)
}

func (e *hEvent) String() string {
	switch e.kind {
	case 'G':
		return fmt.Sprintf("G:%s:%s", hexOrDash(e.key), hexOrDash(e.tape))
	case 'E':
		return fmt.Sprintf("E:%d:%s", e.h, hxlib.BitsString(e.x))
	default:
		return fmt.Sprintf("R:%d", e.h)
	}
}

func (e *hEvent) short() string {
	switch e.kind {
	case 'G':
		if e.cls == "ok" {
			return "G"
		}
		return "F(" + e.cls + ")"
	case 'E':
		return fmt.Sprintf("E%d", e.h)
	default:
		return fmt.Sprintf("R%d", e.h)
	}
}

// histGen builds the script of one history.
type histGen struct {
	r      *hxlib.Rng
	nin    int
	evs    []*hEvent
	nextH  int
	live   []int // handle numbers expected live
	dead   []int // released handles
	maxLiv int
}

func (g *histGen) garble(cls string) {
	r := g.r
	keySizes := []int{16, 24, 32}
	full := 16 * (1 + g.nin)
	key := r.Bytes(keySizes[r.Intn(3)])
	n := full
	switch cls {
	case "ok":
		if r.Intn(6) == 0 {
			n = full + 1 + r.Intn(20) // surplus randomness is not consumed
		}
	case "beforeR":
		n = 0
	case "insideR":
		n = 1 + r.Intn(15)
	case "afterR":
		n = 16
	case "insideLabel":
		n = 16 + 16*r.Intn(g.nin) + 1 + r.Intn(15)
	case "betweenLabels":
		n = 16 + 16*r.Intn(g.nin) // R and k complete labels, k < nin
	case "lastByte":
		n = full - 1
	case "badKey":
		key = r.Bytes([]int{0, 1, 15, 17, 31, 33}[r.Intn(6)])
	}
	tape := r.Bytes(n)
	if n > 0 {
		switch r.Intn(10) {
		case 0:
			for j := range tape {
				tape[j] = 0
			}
		case 1:
			for j := range tape {
				tape[j] = 0xff
			}
		}
	}
	g.evs = append(g.evs, &hEvent{kind: 'G', key: key, tape: tape, cls: cls})
	if cls == "ok" {
		g.live = append(g.live, g.nextH)
		g.nextH++
		if len(g.live) > g.maxLiv {
			g.maxLiv = len(g.live)
		}
	}
}

func (g *histGen) eval(h int) {
	x := make([]bool, g.nin)
	for j := range x {
		x[j] = g.r.Bool()
	}
	g.evs = append(g.evs, &hEvent{kind: 'E', h: h, x: x})
}

func (g *histGen) release(h int) {
	g.evs = append(g.evs, &hEvent{kind: 'R', h: h})
	for i, v := range g.live {
		if v == h {
			g.live = append(g.live[:i:i], g.live[i+1:]...)
			g.dead = append(g.dead, h)
			return
		}
	}
}

// finish: every garbling still live is evaluated once more (in random
// order) and released (in random order).
func (g *histGen) finish() {
	l := append([]int(nil), g.live...)
	for i := len(l) - 1; i > 0; i-- {
		j := g.r.Intn(i + 1)
		l[i], l[j] = l[j], l[i]
	}
	for _, h := range l {
		g.eval(h)
	}
	for i := len(l) - 1; i > 0; i-- {
		j := g.r.Intn(i + 1)
		l[i], l[j] = l[j], l[i]
	}
	for _, h := range l {
		g.release(h)
	}
}

const nShapes = 7

func (g *histGen) build(shape int, cls string) {
	r := g.r
	other := func() string { return failClasses[r.Intn(len(failClasses))] }
	switch shape {
	case 0: // a failure first, then two garblings live together
		g.garble(cls)
		g.garble("ok")
		g.garble("ok")
		g.eval(0)
		g.eval(1)
		g.eval(0)
	case 1: // a failure while one garbling is live
		g.garble("ok")
		g.garble(cls)
		g.garble("ok")
		g.eval(0)
		g.eval(1)
		g.eval(1)
		g.eval(0)
	case 2: // release, failure on the released scratch, two new garblings
		g.garble("ok")
		g.eval(0)
		g.release(0)
		g.garble(cls)
		g.garble("ok")
		g.garble("ok")
		g.eval(1)
		g.eval(2)
		if r.Bool() {
			g.release(0) // second Release of a handle whose scratch was reused
			g.eval(1)
		}
	case 3: // two failures, three garblings live together
		g.garble(cls)
		g.garble(other())
		g.garble("ok")
		g.garble("ok")
		g.garble("ok")
		g.eval(2)
		g.eval(0)
		g.eval(1)
	case 4: // a failure while two are live, then a third
		g.garble("ok")
		g.garble("ok")
		g.garble(cls)
		g.eval(0)
		g.eval(1)
		g.garble("ok")
		g.eval(0)
		g.eval(2)
		g.eval(1)
	case 5: // failure, garble, release, failure, two garblings
		g.garble(cls)
		g.garble("ok")
		g.eval(0)
		g.release(0)
		g.garble(other())
		g.garble("ok")
		g.garble("ok")
		g.eval(2)
		g.eval(1)
	default: // random walk
		n := 5 + r.Intn(8)
		first := true
		for k := 0; k < n; k++ {
			switch c := r.Intn(10); {
			case c < 3 && len(g.live) < 3:
				g.garble("ok")
			case c < 5:
				if first {
					g.garble(cls)
					first = false
				} else {
					g.garble(other())
				}
			case c < 8 && len(g.live) > 0:
				g.eval(g.live[r.Intn(len(g.live))])
			case c < 9 && len(g.live) > 0:
				g.release(g.live[r.Intn(len(g.live))])
			case len(g.dead) > 0:
				g.release(g.dead[r.Intn(len(g.dead))])
			default:
				if len(g.live) < 3 {
					g.garble("ok")
				}
			}
		}
		if first {
			g.garble(cls)
		}
	}
	g.finish()
}

type liveG struct {
	g    *circuit.Garbled
	key  []byte           // the evaluator's copy of the key
	snap string           // what the handle showed when Garble returned
	rel  *circuit.Garbled // the handle after Release (for a second Release)
}

// viewOf renders what a handle shows: R, the defined wire pairs, the tables.
func viewOf(c *circuit.Circuit, def []bool, g *circuit.Garbled) string {
	var res strings.Builder
	fmt.Fprintf(&res, "r=%s;w=", labelHex(g.R))
	for w := 0; w < c.NumWires; w++ {
		if def[w] && w < len(g.Wires) {
			res.WriteString(labelHex(g.Wires[w].L0))
			res.WriteString(labelHex(g.Wires[w].L1))
		}
	}
	res.WriteString(";g=")
	for i, rows := range g.Gates {
		if i > 0 {
			res.WriteByte(',')
		}
		for _, l := range rows {
			res.WriteString(labelHex(l))
		}
	}
	return res.String()
}

// runHistory executes the script on the real code.
func runHistory(o *hxlib.Out, c *circuit.Circuit, evs []*hEvent, idx int, op, script, replay string) string {
	defer debug.SetGCPercent(debug.SetGCPercent(-1))
	def := definedWires(c)
	nin := c.Inputs.Size()
	nout := c.Outputs.Size()
	var handles []*liveG
	var kb []byte // key buffer of the caller, refilled in place when the size allows
	var results []string
	fail := func(sig string, k int, extra map[string]any) {
		d := map[string]any{"case": idx, "event": k, "history": script, "op": op, "harness_replay": replay}
		for a, b := range extra {
			d[a] = b
		}
		o.Fail(sig, d)
	}
	liveCount := func() int {
		n := 0
		for _, l := range handles {
			if l.g != nil {
				n++
			}
		}
		return n
	}
	for k, ev := range evs {
		res := ""
		func() {
			defer func() {
				if e := recover(); e != nil {
					res = "panic"
					fail("c01-panic", k, map[string]any{"panic": fmt.Sprint(e)})
				}
			}()
			switch ev.kind {
			case 'G':
				if len(kb) == len(ev.key) && len(kb) > 0 {
					copy(kb, ev.key)
					o.Count("hist_key_refilled_in_place")
				} else {
					kb = append([]byte(nil), ev.key...)
				}
				g, err := c.Garble(&cutReader{data: ev.tape}, kb)
				if err != nil {
					res = "garble-error"
					if ev.cls == "ok" {
						fail("c01-garble-error", k, map[string]any{"err": err.Error()})
					}
					o.Count("hist_fail_" + ev.cls)
					if n := liveCount(); n > 0 {
						o.Count(fmt.Sprintf("hist_failure_with_%d_live", n))
					}
					return
				}
				if ev.cls != "ok" {
					fail("c01-garble-no-error", k, map[string]any{"class": ev.cls})
				}
				l := &liveG{g: g, key: append([]byte(nil), ev.key...)}
				l.snap = viewOf(c, def, g)
				res = l.snap
				for h, ol := range handles {
					if ol.g != nil && len(g.Wires) > 0 && len(ol.g.Wires) > 0 && &g.Wires[0] == &ol.g.Wires[0] {
						fail("c01-live-garblings-share-scratch", k, map[string]any{"handle": len(handles), "with": h})
					}
				}
				handles = append(handles, l)
				o.Count(fmt.Sprintf("hist_garble_with_%d_live", liveCount()-1))
			case 'E':
				if ev.h >= len(handles) || handles[ev.h].g == nil {
					res = "no-handle"
					return
				}
				l := handles[ev.h]
				g := l.g
				view := viewOf(c, def, g)
				if view != l.snap {
					fail("c01-live-garbling-changed", k, map[string]any{"handle": ev.h,
						"what": "R / wire pairs / tables of a garbling that has not been released differ from what Garble returned"})
				}
				wires := make([]ot.Label, c.NumWires)
				for i := 0; i < nin; i++ {
					wires[i] = circuit.LabelForBit(g.Wires[i], ev.x[i])
				}
				o.Count(fmt.Sprintf("hist_eval_with_%d_live", liveCount()))
				if err := c.Eval(l.key, wires, g.Gates); err != nil {
					res = view + ";eval-error"
					fail("c01-eval-error", k, map[string]any{"handle": ev.h, "err": err.Error()})
					return
				}
				var sb strings.Builder
				sb.WriteString(view)
				sb.WriteString(";e=")
				for w := 0; w < c.NumWires; w++ {
					if def[w] {
						sb.WriteString(labelHex(wires[w]))
					}
				}
				ref := hxlib.RefEval(c, ev.x)
				for w := 0; w < c.NumWires; w++ {
					if !def[w] {
						continue
					}
					b, err := circuit.BitFromLabel(g.Wires[w], wires[w])
					if err != nil {
						fail("c01-unknown-label", k, map[string]any{"handle": ev.h, "wire": w})
						break
					}
					if b != ref[w] {
						fail("c01-wrong-bit", k, map[string]any{"handle": ev.h, "wire": w, "got": b, "want": ref[w]})
						break
					}
				}
				n0 := int(c.Inputs[0].Type.Bits)
				outs, err := c.Compute([]*big.Int{bitsToBig(ev.x[:n0]), bitsToBig(ev.x[n0:])})
				if err != nil {
					fail("c01-compute-error", k, map[string]any{"err": err.Error()})
					res = sb.String()
					return
				}
				cb := make([]bool, 0, nout)
				for kk, oa := range c.Outputs {
					for b := 0; b < int(oa.Type.Bits); b++ {
						cb = append(cb, outs[kk].Bit(b) == 1)
					}
				}
				sb.WriteString(";c=")
				sb.WriteString(hxlib.BitsString(cb))
				for i := 0; i < nout; i++ {
					if cb[i] != ref[c.NumWires-nout+i] {
						fail("c01-compute-mismatch", k, map[string]any{"out": i})
						break
					}
				}
				res = sb.String()
			case 'R':
				if ev.h >= len(handles) {
					res = "no-handle"
					return
				}
				l := handles[ev.h]
				if l.g != nil {
					l.g.Release()
					l.rel = l.g
					l.g = nil
					res = "released"
					o.Count("hist_release")
				} else {
					l.rel.Release() // idempotent
					res = "noop"
					o.Count("hist_second_release")
				}
			}
		}()
		results = append(results, res)
	}
	return strings.Join(results, "|")
}

func c01hist(args []string) int {
	cf, o := hxlib.ParseCommon("c01", args, nil)
	defer o.Close()
	rng := hxlib.NewRng(cf.Seed ^ 0x68157)
	mixes := []string{"uniform", "and", "orinv", "xnor", "uniform", "free"}
	maxGates := 40
	if cf.Tier == "thorough" {
		maxGates = 150
	}
	for i := 0; i < cf.N; i++ {
		r := rng.Fork()
		if cf.Only >= 0 && i != cf.Only {
			continue
		}
		c := hxlib.GenCircuit(r, hxlib.GenOpts{MaxGates: maxGates, MaxIn: 5, Mix: mixes[i%len(mixes)], AllowReuse: i%3 == 0})
		shape := i % nShapes
		cls := failClasses[(i/nShapes)%len(failClasses)]
		g := &histGen{r: r, nin: c.Inputs.Size()}
		g.build(shape, cls)
		parts := make([]string, len(g.evs))
		shorts := make([]string, len(g.evs))
		for k, ev := range g.evs {
			parts[k] = ev.String()
			shorts[k] = ev.short()
		}
		op := fmt.Sprintf("c01h %s %s", hxlib.CircLine(c), strings.Join(parts, ","))
		script := strings.Join(shorts, " ")
		replay := fmt.Sprintf("c01 hist -seed %d -tier %s -n %d -only %d", cf.Seed, cf.Tier, cf.N, i)
		res := runHistory(o, c, g.evs, i, op, script, replay)
		o.Op(op, res)
		o.Count("hist_cases")
		o.CountN("hist_events", len(g.evs))
		o.Count(fmt.Sprintf("hist_shape_%d", shape))
		o.Count(fmt.Sprintf("hist_shape_%d_class_%s", shape, cls))
		o.Count(fmt.Sprintf("hist_max_live_%d", g.maxLiv))
		if i < 2 {
			o.Sample(map[string]any{"history": i, "circuit": hxlib.CircLine(c), "script": script})
		}
	}
	return 0
}

package main

import (
	"fmt"
	"strings"
	"time"

	"github.com/markkurossi/mpc/ot"

	"verifharness/hxlib"
)

// cbatch is one Send/Receive on an initialised COT or ROT pair.
type cbatch struct {
	flags  []bool
	wires  []ot.Wire // COT: the sender's inputs; ROT: ignored on input (overwritten by Send)
	reinit bool      // call InitSender/InitReceiver again before this batch
	ckind  string
	rbuf   bufSpec // the receiver's result buffer
}

func wiresHex(ws []ot.Wire) string {
	if len(ws) == 0 {
		return "-"
	}
	var sb strings.Builder
	var d ot.LabelData
	for _, w := range ws {
		w.L0.GetData(&d)
		sb.WriteString(hxlib.Hex(d[:]))
		w.L1.GetData(&d)
		sb.WriteString(hxlib.Hex(d[:]))
	}
	return sb.String()
}

type cbatchRes struct {
	initL  []ot.Label // what the result slice held before Receive
	frame  string
	u      [][]byte
	ct     []ot.Label // labels sent by the sender during Send (seed first)
	swires []ot.Wire  // sender's wires after Send
	rcvd   []ot.Label
}

func mkOT(kind string, base ot.OT, tape *hxlib.Tape, mal, shared bool) ot.OT {
	if kind == "r" {
		return ot.NewROT(base, tape, mal, shared)
	}
	return ot.NewCOT(base, tape, mal, shared)
}

// cotCase: COT ("c") or ROT ("r") on the real code with deterministic tapes.
func cotCase(o *hxlib.Out, r *hxlib.Rng, idx int, seed uint64, kind string, mal, shared bool, base, transport string,
	stape, rtape []byte, batches []cbatch, arenaL int) (string, string) {

	specs := make([]string, len(batches))
	for i, b := range batches {
		// COT: the sender's inputs.  ROT: what the caller's wire slice holds
		// before Send overwrites it ("-": zero wires)
		specs[i] = boolsStr(b.flags) + ":" + wiresHex(b.wires) + ":" + b.rbuf.String()
	}
	m := 0
	if mal {
		m = 1
	}
	op := fmt.Sprintf("c06 cotb %s %d %s %s %s %s %d %s", kind, m, base, transport, hxlib.Hex(stape), hxlib.Hex(rtape),
		arenaL, strings.Join(specs, ";"))
	replay := fmt.Sprintf("hx c06 cot -seed %d -only %d", seed, idx)

	l := newLink(transport)
	defer l.close()
	bs, br := newBase(base, r)
	snd := mkOT(kind, bs, &hxlib.Tape{Data: stape}, mal, shared)
	rcv := mkOT(kind, br, &hxlib.Tape{Data: rtape}, mal, shared)
	res := make([]cbatchRes, len(batches))
	reinitErrS := make([]error, len(batches))
	reinitErrR := make([]error, len(batches))

	fs := func() error {
		if err := snd.InitSender(l.s); err != nil {
			return fmt.Errorf("InitSender: %v", err)
		}
		l.s.take()
		for i, b := range batches {
			if b.reinit {
				reinitErrS[i] = snd.InitSender(l.s)
			}
			w := make([]ot.Wire, len(b.flags))
			copy(w, b.wires)
			if err := snd.Send(w); err != nil {
				return fmt.Errorf("batch %d Send: %v", i, err)
			}
			res[i].swires = w
			_, res[i].ct = l.s.take()
		}
		return nil
	}
	fr := func() error {
		if err := rcv.InitReceiver(l.r); err != nil {
			return fmt.Errorf("InitReceiver: %v", err)
		}
		l.r.take()
		rl := &labelArena{a: make([]ot.Label, arenaL)}
		for i, b := range batches {
			if b.reinit {
				reinitErrR[i] = rcv.InitReceiver(l.r)
			}
			out, before := rl.take(b.rbuf, len(b.flags))
			res[i].initL = append([]ot.Label(nil), out...)
			if err := rcv.Receive(b.flags, out); err != nil {
				return fmt.Errorf("batch %d Receive: %v", i, err)
			}
			res[i].rcvd = append([]ot.Label(nil), out...)
			if ok, at := rl.frameOK(b.rbuf, len(b.flags), before); !ok {
				res[i].frame = fmt.Sprintf("Receive changed label %d of the receiver's array outside result[%d:%d]", at,
					b.rbuf.off, b.rbuf.off+len(b.flags))
			}
			res[i].u, _ = l.r.take()
		}
		return nil
	}
	es, er, to := runPair(l, fs, fr, 30*time.Second)
	cfg := fmt.Sprintf("kind=%s mal=%v shared=%v base=%s transport=%s", kind, mal, shared, base, transport)
	if es != nil || er != nil || to {
		o.Fail("c06-cot-error", map[string]any{"case": idx, "replay": replay, "sender_err": errStr(es),
			"receiver_err": errStr(er), "timeout": to, "config": cfg, "sizes": sizesOf(batches), "result_buffers": bufsOf(batches)})
		return op, "error"
	}
	var sb strings.Builder
	for i, b := range batches {
		if i > 0 {
			sb.WriteByte(';')
		}
		sw := "-"
		if kind == "r" {
			sw = wiresHex(res[i].swires)
		}
		fmt.Fprintf(&sb, "u=%s/c=%s/w=%s/r=%s", chunksHex(res[i].u), labelsHex(res[i].ct), sw, labelsHex(res[i].rcvd))
		// re-initialisation contract: shared instances accept (and ignore)
		// it, non-shared ones refuse it; in both cases the instance keeps
		// working.
		if b.reinit {
			if shared && (reinitErrS[i] != nil || reinitErrR[i] != nil) {
				o.Fail("c06-shared-reinit", map[string]any{"case": idx, "replay": replay, "config": cfg,
					"sender_err": errStr(reinitErrS[i]), "receiver_err": errStr(reinitErrR[i])})
			}
			if !shared && (reinitErrS[i] == nil || reinitErrR[i] == nil) {
				o.Fail("c06-nonshared-reinit-accepted", map[string]any{"case": idx, "replay": replay, "config": cfg})
			}
		}
		if anyNonZeroL(res[i].initL) {
			o.Count("cot_buf_nonzero_before_call")
		}
		if kind == "r" && len(b.wires) > 0 {
			o.Count("rot_send_into_nonzero_wires")
		}
		if res[i].frame != "" {
			o.Fail("c06-buffer-frame", map[string]any{"case": idx, "replay": replay, "batch": i, "config": cfg,
				"what": res[i].frame, "rbuf": b.rbuf.String()})
		}
		oracleDelivers(o, map[string]string{"c": "cot", "r": "rot"}[kind], idx, replay, i,
			cfg+" result_buffer="+b.rbuf.String()+fmt.Sprintf(" nonzero_before_call=%v", anyNonZeroL(res[i].initL)),
			b.flags, res[i].swires, res[i].rcvd, b.ckind)
		if kind == "c" {
			// COT must not change the caller's wires
			for j := range b.wires {
				if !b.wires[j].L0.Equal(res[i].swires[j].L0) || !b.wires[j].L1.Equal(res[i].swires[j].L1) {
					o.Fail("c06-cot-wires-changed", map[string]any{"case": idx, "replay": replay, "config": cfg, "pos": j})
					break
				}
			}
		}
	}
	return op, sb.String()
}

func bufsOf(bs []cbatch) []string {
	var s []string
	for _, b := range bs {
		s = append(s, b.rbuf.String())
	}
	return s
}

func sizesOf(bs []cbatch) []int {
	var s []int
	for _, b := range bs {
		s = append(s, len(b.flags))
	}
	return s
}

// oracleDelivers: the receiver's label at every position is the sender's
// label selected by the choice bit.
func oracleDelivers(o *hxlib.Out, impl string, idx int, replay string, bi int, cfg string, flags []bool,
	wires []ot.Wire, rcvd []ot.Label, ckind string) bool {
	n := len(flags)
	o.Count("oracle_" + impl + "_batches")
	o.CountN("oracle_"+impl+"_positions", n)
	if len(rcvd) != n || len(wires) != n {
		o.Fail("c06-delivers", map[string]any{"impl": impl, "case": idx, "replay": replay, "batch": bi, "n": n,
			"config": cfg, "what": "length", "wires": len(wires), "rcvd": len(rcvd)})
		return false
	}
	wrong, first := 0, -1
	other := 0
	for i := 0; i < n; i++ {
		want, unchosen := wires[i].L0, wires[i].L1
		if flags[i] {
			want, unchosen = unchosen, want
		}
		if !rcvd[i].Equal(want) {
			if first < 0 {
				first = i
			}
			wrong++
			if rcvd[i].Equal(unchosen) {
				other++
			}
		}
	}
	if wrong > 0 {
		o.Fail("c06-delivers", map[string]any{"impl": impl, "case": idx, "replay": replay, "batch": bi, "n": n,
			"config": cfg, "wrong": wrong, "got_unchosen_label": other, "first_wrong": first, "choices": ckind,
			"choice": flags[first], "L0": wires[first].L0.String(), "L1": wires[first].L1.String(),
			"rcvd":  rcvd[first].String(),
			"n_mod": fmt.Sprintf("8:%d 64:%d 128:%d 512:%d", n%8, n%64, n%128, n%512)})
		return false
	}
	return true
}

func genWires(r *hxlib.Rng, n int) []ot.Wire {
	w := make([]ot.Wire, n)
	buf := r.Bytes(32 * n)
	for i := range w {
		w[i].L0.SetBytes(buf[32*i:])
		w[i].L1.SetBytes(buf[32*i+16:])
	}
	return w
}

func cotMode(args []string) int {
	cf, o := hxlib.ParseCommon("cot", args, nil)
	defer o.Close()
	rng := hxlib.NewRng(cf.Seed)
	for i := 0; i < cf.N; i++ {
		r := rng.Fork()
		if cf.Only >= 0 && i != cf.Only {
			continue
		}
		kind := []string{"c", "r"}[i%2]
		mal := (i/2)%2 == 1
		shared := (i/4)%2 == 1
		nb := 1 + r.Intn(3)
		var batches []cbatch
		for j := 0; j < nb; j++ {
			n := genN(r, 4*512)
			if j == 0 && i < 2*len(sweepSizes) {
				// boundary sizes first, in an order that reaches small and
				// multi-chunk sizes within the first few dozen cases
				n = sweepSizes[(i*13+5)%len(sweepSizes)]
			}
			if j > 0 && r.Intn(3) > 0 {
				n = genN(r, 300)
			}
			f, ck := genChoices(r, n)
			b := cbatch{flags: f, ckind: ck, reinit: j > 0 && r.Intn(3) == 0}
			if kind == "c" || (i/2+j)%2 == 0 {
				// ROT.Send overwrites the caller's wires: every other batch
				// they hold something else before
				b.wires = genWires(r, n)
			}
			batches = append(batches, b)
		}
		// Planned buffer classes (deterministic in the case index): the first
		// batch of cases i%8 < 4 gets a fresh slice, of cases i%8 >= 4 the
		// class bufClasses[(i/8)%5]; cases with (i/8)%2 == 1 run a second batch
		// of the same size INTO THE SAME SLICE.  Everything else is random.
		planned := ""
		if i%8 >= 4 {
			planned = bufClasses[(i/8)%len(bufClasses)]
		}
		sameSlice := planned != "" && (i/8)%2 == 1
		if sameSlice {
			n := len(batches[0].flags)
			f, ck := genChoices(r, n)
			b := cbatch{flags: f, ckind: ck}
			if kind == "c" || (i/2+1)%2 == 0 {
				b.wires = genWires(r, n)
			}
			if len(batches) < 2 {
				batches = append(batches, b)
				nb = 2
			} else {
				batches[1] = b
			}
		}
		arenaL := 0
		for _, b := range batches {
			if len(b.flags) > arenaL {
				arenaL = len(b.flags)
			}
		}
		if i%3 != 0 || planned == "kept_subslice" {
			arenaL += 1 + r.Intn(9)
		}
		for j := range batches {
			batches[j].rbuf = genBuf(r, len(batches[j].flags), arenaL, true)
			if j == 0 {
				batches[j].rbuf = genBufClass(r, map[bool]string{true: "fresh", false: planned}[planned == ""],
					len(batches[j].flags), arenaL, true)
			}
			if j == 1 && sameSlice {
				batches[j].rbuf = bufSpec{pre: "k", off: batches[0].rbuf.off}
				o.Count("cot_same_slice_as_previous_call")
			}
		}
		stape := r.Bytes(16 + 16*nb)
		nrt := 2 * ot.K * 16
		if mal {
			nrt += 48 * nb
		}
		rtape := r.Bytes(nrt)
		base := "chan"
		if r.Intn(10) == 0 {
			base = "co"
		}
		transport := []string{"otpipe", "p2p"}[r.Intn(2)]
		op, res := cotCase(o, r, i, cf.Seed, kind, mal, shared, base, transport, stape, rtape, batches, arenaL)
		o.Op(op, res)
		o.Count("cot_cases")
		o.Count(fmt.Sprintf("cot_kind_%s_mal_%v_shared_%v", kind, mal, shared))
		o.Count("cot_base_" + base)
		o.Count("cot_transport_" + transport)
		if nb > 1 {
			o.Count("cot_cases_repeated_batches")
		}
		for _, b := range batches {
			countSize(o, "cot", len(b.flags))
			o.Count("cot_buf_" + b.rbuf.class())
			o.Count("cot_choices_" + b.ckind)
			if b.reinit {
				o.Count("cot_reinit")
			}
		}
		if i < 3 {
			o.Sample(map[string]any{"case": i, "mode": "cot", "kind": kind, "malicious": mal, "shared": shared,
				"sizes": sizesOf(batches), "result_buffers": bufsOf(batches), "arena_labels": arenaL, "base": base,
				"transport": transport})
		}
	}
	// MITCCRH.Hash directly: k keys x h blocks, several calls on one instance
	for i := 0; i < cf.N/4+4; i++ {
		r := rng.Fork()
		if cf.Only >= 0 {
			continue
		}
		op, res := mitccrhCase(o, r, i)
		o.Op(op, res)
		o.Count("mitccrh_cases")
	}
	return 0
}

// mitccrhCase: `c06 mitccrh <seed> <batchSize> <k.h.labels;...>`
func mitccrhCase(o *hxlib.Out, r *hxlib.Rng, idx int) (string, string) {
	bsz := []int{8, 8, 8, 4, 2, 1, 16}[r.Intn(7)]
	seed := labelFromBytes(r.Bytes(16))
	var divs []int
	for k := 1; k <= bsz; k++ {
		if bsz%k == 0 {
			divs = append(divs, k)
		}
	}
	nc := 1 + r.Intn(5)
	var specs, outs []string
	failed := false
	func() {
		defer func() {
			if e := recover(); e != nil {
				failed = true
				o.Fail("c06-mitccrh-panic", map[string]any{"case": idx, "panic": fmt.Sprint(e)})
			}
		}()
		m := ot.NewMITCCRH(seed, bsz)
		// one k per instance (as COT/ROT do): Hash renews its keys only when
		// keyUsed == batchSize exactly.
		k := divs[r.Intn(len(divs))]
		if bsz == 8 && r.Intn(2) == 0 {
			k = 8
		}
		for c := 0; c < nc; c++ {
			h := 1 + r.Intn(3)
			blks := make([]ot.Label, k*h)
			buf := r.Bytes(16 * k * h)
			for j := range blks {
				blks[j].SetBytes(buf[16*j:])
			}
			specs = append(specs, fmt.Sprintf("%d.%d.%s", k, h, labelsHex(blks)))
			m.Hash(blks, k, h)
			outs = append(outs, labelsHex(blks))
		}
	}()
	op := fmt.Sprintf("c06 mitccrh %s %d %s", hxlib.Hex(labelBytes(seed)), bsz, strings.Join(specs, ";"))
	if failed {
		return op, "error"
	}
	return op, strings.Join(outs, ";")
}

// Harness of property C06 (oblivious transfer delivers exactly the chosen
// label): runs the real code of /repo/ot in-process.
//
//	c06 iknp   IKNP extension (label form, malicious-mode label form, packed-bit
//	           form), deterministic tapes: op lines for the Lean model + oracle
//	c06 cot    COT / ROT over IKNP with MITCCRH, both adversary modes, shared /
//	           non-shared, and MITCCRH.Hash directly: op lines + oracle
//	c06 co-bytes  ot.CO over p2p.Conn on a recording Duplex with deterministic
//	           tapes: every byte on the wire + the receiver's labels vs the Lean
//	           P-256/SHA-256 model
//	           iknp and cot run HISTORIES of calls on one pair in which every call
//	           names its caller-provided result buffer (buffers.go: fresh, kept
//	           from the previous call, a window of an array of ones / one byte
//	           value / random bytes, longer-than-needed packed-bit slices); the
//	           specs are in the op lines (ops `iknpb`, `cotb`)
//	c06 proto  oracle only: Chou-Orlandi (protocol, pure helpers, single
//	           transfer API), RSA (protocol, single transfer API), COT/ROT over
//	           the real base OTs
package main

import (
	"fmt"
	"os"
)

func main() {
	if len(os.Args) < 2 {
		fmt.Fprintln(os.Stderr, "usage: c06 iknp|cot|proto|co-bytes [flags]")
		os.Exit(2)
	}
	switch os.Args[1] {
	case "iknp":
		os.Exit(iknpMode(os.Args[2:]))
	case "cot":
		os.Exit(cotMode(os.Args[2:]))
	case "proto":
		os.Exit(protoMode(os.Args[2:]))
	case "co-bytes":
		os.Exit(coBytesMode(os.Args[2:]))
	default:
		fmt.Fprintf(os.Stderr, "unknown mode %q\n", os.Args[1])
		os.Exit(2)
	}
}

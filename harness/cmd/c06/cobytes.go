package main

import (
	"crypto/elliptic"
	"fmt"
	"math/big"
	"strings"
	"sync"
	"time"

	"github.com/markkurossi/mpc/ot"
	"github.com/markkurossi/mpc/p2p"

	"verifharness/hxlib"
)

// coBytesCase runs ot.CO sender and receiver over p2p.Conn on a recording
// hxlib.Duplex with deterministic random tapes and returns the op line and the
// canonical result: every byte each party wrote and the receiver's labels.
func coBytesCase(o *hxlib.Out, idx int, seed uint64, stape, rtape []byte, batches []cbatch, expectErr bool,
	what string) (string, string) {

	specs := make([]string, len(batches))
	for i, b := range batches {
		specs[i] = boolsStr(b.flags) + ":" + wiresHex(b.wires)
	}
	op := fmt.Sprintf("c06 cobytes %s %s %s", hxlib.Hex(stape), hxlib.Hex(rtape), strings.Join(specs, ";"))
	replay := fmt.Sprintf("hx c06 co-bytes -seed %d -only %d", seed, idx)

	d := hxlib.NewDuplex(nil)
	cs, cr := p2p.NewConn(d.A), p2p.NewConn(d.B)
	var once sync.Once
	l := &link{s: &recIO{IO: cs}, r: &recIO{IO: cr}, kind: "duplex", close: func() { once.Do(d.Close) }}
	snd := ot.NewCO(&hxlib.Tape{Data: stape})
	rcv := ot.NewCO(&hxlib.Tape{Data: rtape})
	outs := make([][]ot.Label, len(batches))
	fs := func() error {
		if err := snd.InitSender(l.s); err != nil {
			return err
		}
		for i, b := range batches {
			w := append([]ot.Wire(nil), b.wires...)
			if err := snd.Send(w); err != nil {
				return fmt.Errorf("batch %d Send: %v", i, err)
			}
		}
		return nil
	}
	fr := func() error {
		if err := rcv.InitReceiver(l.r); err != nil {
			return err
		}
		for i, b := range batches {
			out := make([]ot.Label, len(b.flags))
			if err := rcv.Receive(b.flags, out); err != nil {
				return fmt.Errorf("batch %d Receive: %v", i, err)
			}
			outs[i] = out
		}
		return nil
	}
	es, er, to := runPair(l, fs, fr, 20*time.Second)
	l.close()
	time.Sleep(5 * time.Millisecond) // let the Conn writer goroutines drain
	failed := es != nil || er != nil || to
	sRec := append([]byte(nil), d.AB.Rec...)
	rRec := append([]byte(nil), d.BA.Rec...)
	rs := "-"
	if len(rRec) > 0 {
		rs = hxlib.Hex(rRec)
	}
	res := fmt.Sprintf("S=%s;R=%s", hxlib.Hex(sRec), rs)
	o.Count("cobytes_cases")
	o.Count("cobytes_" + what)
	if failed {
		res += ";err"
		o.Count("cobytes_error_runs")
		if !expectErr {
			o.Fail("c06-ot-error", map[string]any{"impl": "co-bytes", "case": idx, "replay": replay, "what": what,
				"sender_err": errStr(es), "receiver_err": errStr(er), "timeout": to})
		}
		return op, res
	}
	if expectErr {
		o.Fail("c06-co-accepts-invalid-point", map[string]any{"case": idx, "replay": replay, "what": what})
	}
	parts := make([]string, len(batches))
	for i, b := range batches {
		parts[i] = labelsHex(outs[i])
		oracleDelivers(o, "cobytes", idx, replay, i, "impl=CO transport=p2p.Conn/Duplex "+what, b.flags, b.wires, outs[i], b.ckind)
	}
	return op, res + ";ok=" + strings.Join(parts, ",")
}

func scalarBytes(v *big.Int) []byte {
	b := make([]byte, 32)
	v.FillBytes(b)
	return b
}

// coBytesMode: a few sessions of 1..4 transfers (more and larger in the
// thorough tier) plus the corner cases of the tapes: a rejected candidate in
// crypto/rand.Int, receiver scalar = sender scalar (point doubling in
// BuildCOChoices, point at infinity as the sender's second mask point),
// receiver scalar 0 with choice 1 (B = A), receiver scalar 0 with choice 0 and
// sender scalar 0 (point at infinity on the wire: rejected).
func coBytesMode(args []string) int {
	cf, o := hxlib.ParseCommon("co-bytes", args, nil)
	defer o.Close()
	rng := hxlib.NewRng(cf.Seed)
	N := elliptic.P256().Params().N
	kinds := []string{"random", "random", "reject", "equal-scalars", "zero-b-choice1", "zero-b-choice0", "zero-a",
		"small-scalars", "random"}
	for i := 0; i < cf.N; i++ {
		r := rng.Fork()
		if cf.Only >= 0 && i != cf.Only {
			continue
		}
		what := kinds[i%len(kinds)]
		nb := 1 + r.Intn(2)
		var batches []cbatch
		total := 0
		for j := 0; j < nb; j++ {
			n := 1 + r.Intn(4)
			if cf.Tier == "thorough" && i%10 == 9 && j == 0 {
				n = []int{8, 17, 33, 64}[r.Intn(4)]
			}
			f, ck := genChoices(r, n)
			batches = append(batches, cbatch{flags: f, ckind: ck, wires: genWires(r, n)})
			total += n
		}
		draw := func() []byte {
			for {
				b := r.Bytes(32)
				if new(big.Int).SetBytes(b).Cmp(N) < 0 {
					return b
				}
			}
		}
		var stape, rtape []byte
		for range batches {
			stape = append(stape, draw()...)
		}
		for k := 0; k < total; k++ {
			rtape = append(rtape, draw()...)
		}
		expectErr := false
		switch what {
		case "reject":
			// first candidate of each party is >= N and must be skipped
			hi := make([]byte, 32)
			for k := range hi {
				hi[k] = 0xff
			}
			stape = append(append([]byte(nil), hi...), stape...)
			rtape = append(append(scalarBytes(N), rtape[:0:0]...), rtape...)
		case "equal-scalars":
			copy(rtape[0:32], stape[0:32])
			if len(batches[0].flags) > 1 {
				copy(rtape[32:64], stape[0:32])
				batches[0].flags[0], batches[0].flags[1] = true, false
			}
		case "zero-b-choice1":
			for k := 0; k < 32; k++ {
				rtape[k] = 0
			}
			batches[0].flags[0] = true
		case "zero-b-choice0":
			for k := 0; k < 32; k++ {
				rtape[k] = 0
			}
			batches[0].flags[0] = false
			expectErr = true
		case "zero-a":
			for k := 0; k < 32; k++ {
				stape[k] = 0
			}
			expectErr = true
		case "small-scalars":
			copy(stape[0:32], scalarBytes(big.NewInt(int64(1+r.Intn(3)))))
			copy(rtape[0:32], scalarBytes(big.NewInt(int64(1+r.Intn(5)))))
		}
		op, res := coBytesCase(o, i, cf.Seed, stape, rtape, batches, expectErr, what)
		o.Op(op, res)
		o.CountN("cobytes_transfers", total)
		if i < 2 {
			o.Sample(map[string]any{"case": i, "mode": "co-bytes", "kind": what, "sizes": sizesOf(batches)})
		}
	}
	return 0
}

package main

// c06 rsa: RSA OT (ot.RSA over a transport, and the single-transfer API
// ot.Sender / ot.Receiver) with ALL RANDOMNESS UNDER THE HARNESS'S CONTROL and
// in the op line, so that the Lean model (Model/RsaOtBytes.lean, op `rsa`)
// reproduces v and both transfer messages byte for byte.
//
// "Delivers the chosen label" quantifies over every randomness of the two
// parties.  The random sources of the code are io.Readers the caller supplies:
//
//	sender    x0, x1 = RandomData(rand, messageSize)   any messageSize bytes
//	receiver  k = crypto/rand.Int(rand, N)              any value in [0, N)
//
// The harness hands both parties a reader that is honest (crypto/rand) while
// the key pair is generated and then serves a TAPE the harness wrote: uniform
// bytes (honest randomness; rand.Int's rejected candidates included) or values
// steered to the boundaries of every range and of every integer expression of
// the protocol (Model/RsaOt.lean):
//
//	v    = (x_b + k^e mod N) mod N          wrap of the sum: v = 0, 1, N-1; x_b >= N
//	k_c  = Exp(v - x_c, d, N)               base 0, +-1, negative (x_c > v), x_c >= N
//	m_c' = pad(m_c) + k_c                   over the integers: sum = N-1, N, N+1, k_c = 0, 1,
//	                                        N-1, N-2, k_c in the top 2^-8 .. 2^-20 of [0, N)
//	m_b' - k                                over the integers
//
// (for the chosen message k_b = k is the receiver's draw; for the other one
// the harness solves x_c = v - t^e mod N for a target t).  Keys: made by the
// code itself (InitSender / NewSender; read back through reflection) for the
// usual widths and for widths that are not a multiple of 8 (1025, 1031, 2047),
// or injected: moduli just above 2^(bits-1) / just below 2^bits, public
// exponents 3, 17, 65537.  A replay (`-extra replay=<file>`) runs exactly the
// recorded op line with the recorded key injected.
//
// Oracle: every transfer ends with the receiver holding the chosen message, no
// error, no panic.

import (
	"bytes"
	crand "crypto/rand"
	"crypto/rsa"
	"encoding/json"
	"fmt"
	"io"
	"math/big"
	"os"
	"reflect"
	"strconv"
	"strings"
	"sync"
	"time"
	"unsafe"

	"github.com/markkurossi/mpc/ot"

	"verifharness/hxlib"
)

// ---------------------------------------------------------------- keys

type rsaKey struct {
	N, D *big.Int
	E    int
	bits int
	src  string // nat | inj-low | inj-high | inj-rand | replay
}

func (k *rsaKey) size() int { return (k.bits + 7) / 8 }

func (k *rsaKey) priv() *rsa.PrivateKey {
	return &rsa.PrivateKey{PublicKey: rsa.PublicKey{N: new(big.Int).Set(k.N), E: k.E}, D: new(big.Int).Set(k.D)}
}

var bigOne = big.NewInt(1)

func nextPrime(x *big.Int, down bool) *big.Int {
	p := new(big.Int).Set(x)
	if p.Bit(0) == 0 {
		if down {
			p.Sub(p, bigOne)
		} else {
			p.Add(p, bigOne)
		}
	}
	two := big.NewInt(2)
	for !p.ProbablyPrime(12) {
		if down {
			p.Sub(p, two)
		} else {
			p.Add(p, two)
		}
	}
	return p
}

// makeKey derives a key pair from the seed: the modulus has exactly `bits`
// bits; shape "low": N just above 2^(bits-1), "high": N just below 2^bits,
// "rand": anywhere.
func makeKey(r *hxlib.Rng, bits int, shape string, e int) *rsaKey {
	pb := (bits + 1) / 2
	for {
		pc := new(big.Int).SetBytes(r.Bytes((pb + 7) / 8))
		pc.SetBit(pc, pb-1, 1)
		pc.SetBit(pc, pb-2, 1)
		for i := pc.BitLen() - 1; i >= pb; i-- {
			pc.SetBit(pc, i, 0)
		}
		p := nextPrime(pc, false)
		var q *big.Int
		switch shape {
		case "low":
			t := new(big.Int).Lsh(bigOne, uint(bits-1))
			t.Add(t, p)
			q = nextPrime(t.Div(t, p), false)
		case "high":
			t := new(big.Int).Lsh(bigOne, uint(bits))
			t.Sub(t, bigOne)
			q = nextPrime(t.Div(t, p), true)
		default:
			qb := bits / 2
			qc := new(big.Int).SetBytes(r.Bytes((qb + 7) / 8))
			for i := qc.BitLen() - 1; i >= qb; i-- {
				qc.SetBit(qc, i, 0)
			}
			qc.SetBit(qc, qb-1, 1)
			q = nextPrime(qc, false)
		}
		n := new(big.Int).Mul(p, q)
		if n.BitLen() != bits || p.Cmp(q) == 0 {
			continue
		}
		p1 := new(big.Int).Sub(p, bigOne)
		q1 := new(big.Int).Sub(q, bigOne)
		g := new(big.Int).GCD(nil, nil, p1, q1)
		lam := new(big.Int).Mul(p1, q1)
		lam.Div(lam, g)
		d := new(big.Int).ModInverse(big.NewInt(int64(e)), lam)
		if d == nil {
			continue
		}
		return &rsaKey{N: n, D: d, E: e, bits: bits, src: "inj-" + shape}
	}
}

// unexported field `name` of the struct `obj` points to, as a settable value.
func fieldOf(obj any, name string) (reflect.Value, error) {
	v := reflect.ValueOf(obj)
	if v.Kind() != reflect.Pointer || v.Elem().Kind() != reflect.Struct {
		return reflect.Value{}, fmt.Errorf("not a pointer to a struct")
	}
	f := v.Elem().FieldByName(name)
	if !f.IsValid() {
		return reflect.Value{}, fmt.Errorf("%T has no field %q", obj, name)
	}
	return reflect.NewAt(f.Type(), unsafe.Pointer(f.UnsafeAddr())).Elem(), nil
}

func getPriv(obj any, name string) (*rsa.PrivateKey, error) {
	f, err := fieldOf(obj, name)
	if err != nil {
		return nil, err
	}
	k, ok := f.Interface().(*rsa.PrivateKey)
	if !ok || k == nil || k.D == nil || k.N == nil {
		return nil, fmt.Errorf("field %q of %T holds no *rsa.PrivateKey", name, obj)
	}
	return k, nil
}

func setField(obj any, name string, val any) error {
	f, err := fieldOf(obj, name)
	if err != nil {
		return err
	}
	v := reflect.ValueOf(val)
	if !v.Type().AssignableTo(f.Type()) {
		return fmt.Errorf("field %q of %T has type %v", name, obj, f.Type())
	}
	f.Set(v)
	return nil
}

// ---------------------------------------------------------------- random sources

// phaseReader: crypto/rand until a tape is installed, then the tape; reads
// beyond the tape are served from crypto/rand and counted.
type phaseReader struct {
	mu      sync.Mutex
	tape    []byte
	on      bool
	pos     int
	overrun int
}

func (p *phaseReader) install(t []byte) {
	p.mu.Lock()
	p.tape, p.on, p.pos = t, true, 0
	p.mu.Unlock()
}

func (p *phaseReader) Read(b []byte) (int, error) {
	p.mu.Lock()
	defer p.mu.Unlock()
	if !p.on {
		return io.ReadFull(crand.Reader, b)
	}
	if p.pos+len(b) > len(p.tape) {
		p.overrun += len(b)
		return io.ReadFull(crand.Reader, b)
	}
	copy(b, p.tape[p.pos:p.pos+len(b)])
	p.pos += len(b)
	return len(b), nil
}

func (p *phaseReader) state() (used, total, overrun int) {
	p.mu.Lock()
	defer p.mu.Unlock()
	return p.pos, len(p.tape), p.overrun
}

// ---------------------------------------------------------------- transfers

type rsaXfer struct {
	bit    bool
	m0, m1 []byte
	x0, x1 []byte   // messageSize bytes each
	k      *big.Int // the receiver's accepted draw
	rej    [][]byte // candidates rand.Int rejects before k (as they are on the tape)
	kc, xc string   // steering classes
}

func padInt(size int, m []byte) *big.Int {
	if size < len(m)+11 {
		return nil
	}
	b := make([]byte, size)
	b[1] = 1
	for i := 2; i < size-len(m)-1; i++ {
		b[i] = 0xff
	}
	copy(b[size-len(m):], m)
	return new(big.Int).SetBytes(b)
}

func klen(n *big.Int) (int, uint) {
	bl := new(big.Int).Sub(n, bigOne).BitLen()
	b := uint(bl % 8)
	if b == 0 {
		b = 8
	}
	return (bl + 7) / 8, b
}

// honestK draws k as rand.Int does from uniform bytes; rejected candidates are
// kept (they are part of the receiver's tape).
func honestK(r *hxlib.Rng, n *big.Int) (*big.Int, [][]byte) {
	kl, b := klen(n)
	var rej [][]byte
	for {
		c := r.Bytes(kl)
		m := append([]byte(nil), c...)
		m[0] &= uint8(int(1<<b) - 1)
		v := new(big.Int).SetBytes(m)
		if v.Cmp(n) < 0 {
			return v, rej
		}
		rej = append(rej, c)
	}
}

func fill(size int, v *big.Int) []byte {
	b := make([]byte, size)
	v.FillBytes(b)
	return b
}

func modN(v, n *big.Int) *big.Int { return new(big.Int).Mod(v, n) }

var rsaKClasses = []string{"honest", "0", "1", "2", "N-1", "N-2", "half", "sum=N-1", "sum=N", "sum=N+1", "top8", "top12",
	"top16", "top20", "reject-N", "reject-max"}

var rsaXClasses = []string{"honest", "0/max", "max/0", "N-1/N+1", "N/1", "1/N", "v=0", "v=1", "v=N-1", "xb>=N", "equal",
	"kc=0", "kc=1", "kc=N-1", "kc-sum=N-1", "kc-sum=N", "kc-sum=N+1", "kc-top8", "kc-top16", "xc>=N"}

// steer fills in k, x0, x1 of a transfer whose bit and messages are set.
func steer(r *hxlib.Rng, key *rsaKey, t *rsaXfer, kc, xc string) {
	n, size := key.N, key.size()
	t.kc, t.xc = kc, xc
	mb, mo := t.m0, t.m1
	if t.bit {
		mb, mo = mo, mb
	}
	pb, po := padInt(size, mb), padInt(size, mo)
	if pb == nil {
		pb = big.NewInt(0)
	}
	if po == nil {
		po = big.NewInt(0)
	}
	sub := func(a *big.Int, d int64) *big.Int { return modN(new(big.Int).Sub(a, big.NewInt(d)), n) }
	top := func(j uint) *big.Int {
		bound := new(big.Int).Rsh(n, j)
		d := new(big.Int).SetBytes(r.Bytes(len(bound.Bytes()) + 8))
		d.Mod(d, bound)
		v := new(big.Int).Sub(n, bigOne)
		return v.Sub(v, d)
	}
	kl, _ := klen(n)
	t.k, t.rej = honestK(r, n)
	switch kc {
	case "0", "1", "2":
		v, _ := strconv.Atoi(kc)
		t.k, t.rej = big.NewInt(int64(v)), nil
	case "N-1":
		t.k, t.rej = sub(n, 1), nil
	case "N-2":
		t.k, t.rej = sub(n, 2), nil
	case "half":
		t.k, t.rej = new(big.Int).Rsh(n, 1), nil
	case "sum=N-1":
		t.k, t.rej = sub(new(big.Int).Sub(n, pb), 1), nil
	case "sum=N":
		t.k, t.rej = sub(new(big.Int).Sub(n, pb), 0), nil
	case "sum=N+1":
		t.k, t.rej = sub(new(big.Int).Sub(n, pb), -1), nil
	case "top8":
		t.k, t.rej = top(8), nil
	case "top12":
		t.k, t.rej = top(12), nil
	case "top16":
		t.k, t.rej = top(16), nil
	case "top20":
		t.k, t.rej = top(20), nil
	case "reject-N":
		// the candidate N itself (not < N) is rejected first
		if len(n.Bytes()) <= kl {
			t.rej = append([][]byte{fill(kl, n)}, t.rej...)
		}
	case "reject-max":
		c := bytes.Repeat([]byte{0xff}, kl)
		t.rej = append([][]byte{c}, t.rej...)
	}
	// x values
	c := new(big.Int).Exp(t.k, big.NewInt(int64(key.E)), n)
	max := new(big.Int).Lsh(bigOne, uint(8*size))
	max.Sub(max, bigOne)
	xb := new(big.Int).SetBytes(r.Bytes(size))
	xo := new(big.Int).SetBytes(r.Bytes(size))
	lift := func(x *big.Int) *big.Int {
		// the largest x + t*N that still fits into messageSize bytes
		q := new(big.Int).Sub(max, x)
		q.Div(q, n)
		return new(big.Int).Add(x, q.Mul(q, n))
	}
	switch xc {
	case "0/max":
		xb, xo = big.NewInt(0), max
	case "max/0":
		xb, xo = max, big.NewInt(0)
	case "N-1/N+1":
		xb, xo = new(big.Int).Sub(n, bigOne), new(big.Int).Add(n, bigOne)
		if xo.Cmp(max) > 0 {
			xo = max
		}
	case "N/1":
		xb, xo = new(big.Int).Set(n), big.NewInt(1)
	case "1/N":
		xb, xo = big.NewInt(1), new(big.Int).Set(n)
	case "v=0":
		xb = modN(new(big.Int).Neg(c), n)
	case "v=1":
		xb = modN(new(big.Int).Sub(bigOne, c), n)
	case "v=N-1":
		xb = modN(new(big.Int).Sub(new(big.Int).Sub(n, bigOne), c), n)
	case "xb>=N":
		xb = lift(modN(xb, n))
	case "equal":
		xo = new(big.Int).Set(xb)
	}
	v := modN(new(big.Int).Add(xb, c), n)
	target := func(tk *big.Int) *big.Int {
		// x_c with Exp(v - x_c, d, N) = tk
		te := new(big.Int).Exp(modN(tk, n), big.NewInt(int64(key.E)), n)
		return modN(new(big.Int).Sub(v, te), n)
	}
	switch xc {
	case "kc=0":
		xo = new(big.Int).Set(v)
	case "kc=1":
		xo = target(bigOne)
	case "kc=N-1":
		xo = target(new(big.Int).Sub(n, bigOne))
	case "kc-sum=N-1":
		xo = target(new(big.Int).Sub(new(big.Int).Sub(n, po), bigOne))
	case "kc-sum=N":
		xo = target(new(big.Int).Sub(n, po))
	case "kc-sum=N+1":
		xo = target(new(big.Int).Add(new(big.Int).Sub(n, po), bigOne))
	case "kc-top8":
		xo = target(top(8))
	case "kc-top16":
		xo = target(top(16))
	case "xc>=N":
		xo = lift(target(top(8)))
	}
	if t.bit {
		t.x0, t.x1 = fill(size, xo), fill(size, xb)
	} else {
		t.x0, t.x1 = fill(size, xb), fill(size, xo)
	}
}

func hexOrDash(b []byte) string {
	if len(b) == 0 {
		return "-"
	}
	return hxlib.Hex(b)
}

func (t *rsaXfer) spec() string {
	bit := "0"
	if t.bit {
		bit = "1"
	}
	rej := make([]string, len(t.rej))
	for i, c := range t.rej {
		rej[i] = hxlib.Hex(c)
	}
	return strings.Join([]string{bit, hexOrDash(t.m0), hexOrDash(t.m1), hexOrDash(t.x0), hexOrDash(t.x1),
		hexOrDash(t.k.Bytes()), strings.Join(rej, "/")}, ",")
}

func rsaOp(api string, key *rsaKey, ts []*rsaXfer) string {
	sp := make([]string, len(ts))
	for i, t := range ts {
		sp[i] = t.spec()
	}
	return fmt.Sprintf("c06 rsa %s %s %d %d %s %d %s %s", api, key.src, key.bits, key.size(), hxlib.Hex(key.N.Bytes()), key.E,
		hxlib.Hex(key.D.Bytes()), strings.Join(sp, ";"))
}

func parseRsaOp(op string) (api string, key *rsaKey, ts []*rsaXfer, err error) {
	f := strings.Fields(op)
	if len(f) != 10 || f[0] != "c06" || f[1] != "rsa" {
		return "", nil, nil, fmt.Errorf("not an rsa op line")
	}
	unhex := func(s string) []byte {
		if s == "-" || s == "" {
			return nil
		}
		b := make([]byte, len(s)/2)
		if _, e := fmt.Sscanf(s, "%x", &b); e != nil && err == nil {
			err = fmt.Errorf("bad hex %q", s)
		}
		return b
	}
	bits, _ := strconv.Atoi(f[4])
	e, _ := strconv.Atoi(f[7])
	key = &rsaKey{N: new(big.Int).SetBytes(unhex(f[6])), D: new(big.Int).SetBytes(unhex(f[8])), E: e, bits: bits, src: f[3]}
	for _, s := range strings.Split(f[9], ";") {
		p := strings.Split(s, ",")
		if len(p) != 7 {
			return "", nil, nil, fmt.Errorf("bad transfer %q", s)
		}
		t := &rsaXfer{bit: p[0] == "1", m0: unhex(p[1]), m1: unhex(p[2]), x0: unhex(p[3]), x1: unhex(p[4]),
			k: new(big.Int).SetBytes(unhex(p[5])), kc: "recorded", xc: "recorded"}
		if p[6] != "" {
			for _, c := range strings.Split(p[6], "/") {
				t.rej = append(t.rej, unhex(c))
			}
		}
		ts = append(ts, t)
	}
	return f[2], key, ts, err
}

// tapes of a batch: the sender reads x0, x1 per transfer, the receiver the
// rejected candidates and k.
func rsaTapes(key *rsaKey, ts []*rsaXfer) (st, rt []byte) {
	kl, _ := klen(key.N)
	for _, t := range ts {
		st = append(st, t.x0...)
		st = append(st, t.x1...)
		for _, c := range t.rej {
			rt = append(rt, c...)
		}
		rt = append(rt, fill(kl, t.k)...)
	}
	return
}

// rsaResult of one run: per transfer what was on the wire and how the
// receiver ended.
type rsaResult struct {
	lines   []string // canonical result per transfer (stops after the first transfer that did not deliver)
	got     [][]byte // delivered messages
	failed  int      // index of the transfer that did not deliver, -1
	how     string
	harness string // a problem of the harness itself (reflection, tape)
}

func (res *rsaResult) line() string { return strings.Join(res.lines, ";") }

// runRsaProto runs the batch through ot.RSA over a transport.  key == nil: the
// key InitSender generates is used (and returned); otherwise it is injected
// after both Init calls.
func runRsaProto(bits int, key *rsaKey, plan func(*rsaKey) []*rsaXfer, transport string) (*rsaKey, []*rsaXfer, *rsaResult) {
	res := &rsaResult{failed: -1}
	sr, rr := &phaseReader{}, &phaseReader{}
	snd, rcv := ot.NewRSA(sr, bits), ot.NewRSA(rr, bits)
	l := newLink(transport)
	defer l.close()
	var ts []*rsaXfer
	var wires []ot.Wire
	var flags []bool
	var result []ot.Label
	rinit := make(chan struct{})
	ready := make(chan struct{})
	var hmu sync.Mutex
	hfail := func(s string) {
		hmu.Lock()
		if res.harness == "" {
			res.harness = s
		}
		hmu.Unlock()
	}
	var sdata, rdata [][]byte
	fs := func() error {
		err := snd.InitSender(l.s)
		if err != nil {
			close(ready)
			return fmt.Errorf("InitSender: %v", err)
		}
		select {
		case <-rinit:
		case <-time.After(30 * time.Second):
			close(ready)
			return fmt.Errorf("InitReceiver did not finish")
		}
		func() {
			defer close(ready)
			if key == nil {
				p, err := getPriv(snd, "priv")
				if err != nil {
					hfail(err.Error())
					return
				}
				key = &rsaKey{N: p.N, D: p.D, E: p.E, bits: bits, src: "nat"}
				if p.N.BitLen() != bits {
					hfail(fmt.Sprintf("generated modulus has %d bits, asked for %d", p.N.BitLen(), bits))
				}
			} else {
				p := key.priv()
				if err := setField(snd, "priv", p); err != nil {
					hfail(err.Error())
				}
				if err := setField(snd, "pub", &p.PublicKey); err != nil {
					hfail(err.Error())
				}
				if err := setField(rcv, "pub", &rsa.PublicKey{N: new(big.Int).Set(key.N), E: key.E}); err != nil {
					hfail(err.Error())
				}
			}
			if res.harness != "" {
				return
			}
			ts = plan(key)
			st, rt := rsaTapes(key, ts)
			sr.install(st)
			rr.install(rt)
			wires = make([]ot.Wire, len(ts))
			flags = make([]bool, len(ts))
			result = make([]ot.Label, len(ts))
			for i, t := range ts {
				wires[i].L0.SetBytes(t.m0)
				wires[i].L1.SetBytes(t.m1)
				flags[i] = t.bit
			}
			l.s.take()
			l.r.take()
		}()
		if res.harness != "" {
			return fmt.Errorf("harness: %s", res.harness)
		}
		err = snd.Send(wires)
		sdata, _ = l.s.take()
		return err
	}
	fr := func() error {
		err := rcv.InitReceiver(l.r)
		close(rinit)
		if err != nil {
			return fmt.Errorf("InitReceiver: %v", err)
		}
		<-ready
		if res.harness != "" {
			return fmt.Errorf("harness: %s", res.harness)
		}
		err = rcv.Receive(flags, result)
		rdata, _ = l.r.take()
		return err
	}
	es, er, to := runPair(l, fs, fr, 120*time.Second)
	if res.harness != "" || ts == nil {
		if res.harness == "" {
			res.harness = fmt.Sprintf("no plan: sender %s receiver %s", errStr(es), errStr(er))
		}
		return key, ts, res
	}
	if sdata == nil {
		sdata, _ = l.s.take()
	}
	if rdata == nil {
		rdata, _ = l.r.take()
	}
	started := len(rdata)
	for i := 0; i < len(ts) && i < started; i++ {
		ln := "v=" + hexOrDash(rdata[i])
		if len(sdata) >= 4*i+4 {
			ln += "/m0=" + hexOrDash(sdata[4*i+2]) + "/m1=" + hexOrDash(sdata[4*i+3])
		} else {
			res.lines = append(res.lines, ln+"/S")
			res.failed, res.how = i, "sender: "+errStr(es)
			break
		}
		if er == nil || i < started-1 {
			lb := labelBytes(result[i])
			res.lines = append(res.lines, ln+"/out="+hxlib.Hex(lb))
			res.got = append(res.got, lb)
			continue
		}
		if strings.HasPrefix(er.Error(), "panic:") {
			ln += "/out=P"
		} else {
			ln += "/out=E"
		}
		res.lines = append(res.lines, ln)
		res.failed, res.how = i, "receiver: "+errStr(er)
	}
	if res.failed < 0 && (es != nil || er != nil || to || started != len(ts)) {
		res.failed = started
		res.how = fmt.Sprintf("sender: %s; receiver: %s; timeout: %v; transfers started: %d of %d", errStr(es), errStr(er), to,
			started, len(ts))
	}
	if _, _, ov := sr.state(); ov > 0 {
		res.harness = fmt.Sprintf("the sender read %d bytes beyond its tape", ov)
	}
	if _, _, ov := rr.state(); ov > 0 {
		res.harness = fmt.Sprintf("the receiver read %d bytes beyond its tape", ov)
	}
	if u, tot, _ := sr.state(); res.failed < 0 && u != tot {
		res.harness = fmt.Sprintf("the sender read %d of %d tape bytes", u, tot)
	}
	if u, tot, _ := rr.state(); res.failed < 0 && u != tot {
		res.harness = fmt.Sprintf("the receiver read %d of %d tape bytes", u, tot)
	}
	return key, ts, res
}

// runRsaXfer runs the transfers through the single-transfer API on one
// ot.Sender (key == nil: the key NewSender generates).
func runRsaXfer(bits int, key *rsaKey, plan func(*rsaKey) []*rsaXfer) (*rsaKey, []*rsaXfer, *rsaResult) {
	res := &rsaResult{failed: -1}
	sr, rr := &phaseReader{}, &phaseReader{}
	s, err := ot.NewSender(sr, bits)
	if err != nil {
		res.harness = "NewSender: " + err.Error()
		return key, nil, res
	}
	if key == nil {
		p, err := getPriv(s, "key")
		if err != nil {
			res.harness = err.Error()
			return key, nil, res
		}
		key = &rsaKey{N: p.N, D: p.D, E: p.E, bits: bits, src: "nat"}
		if p.N.BitLen() != bits {
			res.harness = fmt.Sprintf("generated modulus has %d bits, asked for %d", p.N.BitLen(), bits)
			return key, nil, res
		}
	} else if err := setField(s, "key", key.priv()); err != nil {
		res.harness = err.Error()
		return key, nil, res
	}
	ts := plan(key)
	st, rt := rsaTapes(key, ts)
	sr.install(st)
	rr.install(rt)
	rc, _ := ot.NewReceiver(rr, s.PublicKey())
	for i, t := range ts {
		var ln string
		var out []byte
		how := ""
		func() {
			defer func() {
				if e := recover(); e != nil {
					how = fmt.Sprintf("panic: %v", e)
					if strings.Contains(ln, "/m1=") {
						ln += "/out=P"
					}
				}
			}()
			bit := uint(0)
			if t.bit {
				bit = 1
			}
			sx, err := s.NewTransfer(append([]byte(nil), t.m0...), append([]byte(nil), t.m1...))
			if err != nil {
				how = "NewTransfer: " + err.Error()
				return
			}
			rx, _ := rc.NewTransfer(bit)
			x0, x1 := sx.RandomMessages()
			if err := rx.ReceiveRandomMessages(x0, x1); err != nil {
				how = "ReceiveRandomMessages: " + err.Error()
				return
			}
			v := rx.V()
			ln = "v=" + hexOrDash(v)
			sx.ReceiveV(v)
			m0p, m1p, err := sx.Messages()
			if err != nil {
				ln += "/S"
				how = "Messages: " + err.Error()
				if e2 := rx.ReceiveMessages(m0p, m1p, err); e2 == nil {
					how += " (and ReceiveMessages accepted the error)"
				}
				return
			}
			ln += "/m0=" + hexOrDash(m0p) + "/m1=" + hexOrDash(m1p)
			if err := rx.ReceiveMessages(m0p, m1p, nil); err != nil {
				ln += "/out=E"
				how = "ReceiveMessages: " + err.Error()
				return
			}
			m, gb := rx.Message()
			if gb != bit {
				how = fmt.Sprintf("Message() returns bit %d", gb)
			}
			out = m
			ln += "/out=" + hexOrDash(m)
		}()
		if ln != "" {
			res.lines = append(res.lines, ln)
		}
		if how != "" {
			res.failed, res.how = i, how
			break
		}
		res.got = append(res.got, out)
	}
	if _, _, ov := sr.state(); ov > 0 {
		res.harness = fmt.Sprintf("the sender read %d bytes beyond its tape", ov)
	}
	if _, _, ov := rr.state(); ov > 0 {
		res.harness = fmt.Sprintf("the receiver read %d bytes beyond its tape", ov)
	}
	return key, ts, res
}

func runRsa(api string, bits int, key *rsaKey, plan func(*rsaKey) []*rsaXfer, transport string) (*rsaKey, []*rsaXfer, *rsaResult) {
	if api == "xfer" {
		return runRsaXfer(bits, key, plan)
	}
	return runRsaProto(bits, key, plan, transport)
}

// tooLong: the sender's NewEncryptionBlock rejects one of the messages (the
// documented limit: len + 11 <= messageSize) - then no delivery is owed.
func (t *rsaXfer) tooLong(size int) bool { return size < len(t.m0)+11 || size < len(t.m1)+11 }

// judgeRsa applies the oracle to one run and emits the op line.
func judgeRsa(o *hxlib.Out, idx int, api, transport, class string, key *rsaKey, ts []*rsaXfer, res *rsaResult, seedReplay string) bool {
	if res.harness != "" || key == nil || ts == nil {
		o.Fail("c06-rsa-harness", map[string]any{"case": idx, "api": api, "what": res.harness, "replay": seedReplay})
		return false
	}
	op := rsaOp(api, key, ts)
	o.Op(op, res.line())
	o.Count("rsa_cases")
	o.Count("rsa_api_" + api)
	o.Count("rsa_class_" + class)
	o.Count(fmt.Sprintf("rsa_bits_%d", key.bits))
	o.Count("rsa_key_" + key.src)
	o.Count(fmt.Sprintf("rsa_e_%d", key.E))
	if key.bits%8 != 0 {
		o.Count("rsa_bits_not_multiple_of_8")
	}
	o.Count("oracle_rsa2_batches")
	size := key.size()
	ok := true
	bad, what := -1, ""
	// generator coverage is counted for every planned transfer, whether or not
	// the batch got that far
	for _, t := range ts {
		o.Count("rsa_k_" + t.kc)
		o.Count("rsa_x_" + t.xc)
		o.Count(fmt.Sprintf("rsa_rejected_candidates_%d", hxlib.MinInt(len(t.rej), 3)))
		if pb := padInt(size, t.chosen()); pb != nil && new(big.Int).Add(pb, t.k).Cmp(key.N) >= 0 {
			o.Count("rsa_chosen_sum_ge_N")
		}
		if t.tooLong(size) {
			o.Count("rsa_too_long_planned")
		}
	}
	for i, t := range ts {
		if res.failed == i {
			if t.tooLong(size) && strings.HasSuffix(res.lines[len(res.lines)-1], "/S") {
				o.Count("rsa_too_long_rejected")
			} else {
				bad, what = i, res.how
			}
			break
		}
		if i >= len(res.got) {
			bad, what = i, "no result: "+res.how
			break
		}
		o.CountN("oracle_rsa2_positions", 1)
		want := t.m0
		if t.bit {
			want = t.m1
		}
		if t.tooLong(size) {
			bad, what = i, "a message longer than messageSize - 11 was accepted"
			break
		}
		if !bytes.Equal(res.got[i], want) {
			bad, what = i, fmt.Sprintf("delivered %s, chosen %s", hexOrDash(res.got[i]), hexOrDash(want))
			break
		}
	}
	if res.failed > len(ts)-1 && bad < 0 {
		bad, what = len(ts)-1, res.how
	}
	if bad >= 0 {
		ok = false
		t := ts[bad]
		// the transfers are independent: re-run the failing one alone on the same key
		one := []*rsaXfer{t}
		_, _, r1 := runRsa(api, key.bits, &rsaKey{N: key.N, D: key.D, E: key.E, bits: key.bits, src: key.src},
			func(*rsaKey) []*rsaXfer { return one }, transport)
		fop, alone := op, false
		if r1.harness == "" && (r1.failed == 0 || len(r1.got) != 1 || !bytes.Equal(r1.got[0], t.chosen())) {
			fop, alone = rsaOp(api, key, one), true
		}
		pb := padInt(size, t.chosen())
		sum := "-"
		if pb != nil {
			sum = fmt.Sprintf("pad(m_b) + k - N = %s", new(big.Int).Sub(new(big.Int).Add(pb, t.k), key.N).Text(16))
		}
		o.Fail("c06-rsa-delivers", map[string]any{"impl": "rsa-" + api, "case": idx, "transfer": bad, "of": len(ts), "what": what,
			"class": class, "k_class": t.kc, "x_class": t.xc, "bits": key.bits, "message_size": size, "key": key.src, "e": key.E,
			"choice": t.bit, "k": t.k.Text(16), "N": key.N.Text(16), "sum_vs_N": sum, "transport": transport,
			"fails_alone": alone, "op": fop, "replay": map[string]any{"mode": "rsa", "seeded": seedReplay}})
	}
	return ok
}

func (t *rsaXfer) chosen() []byte {
	if t.bit {
		return t.m1
	}
	return t.m0
}

// ---------------------------------------------------------------- plans

func steeredPlan(r *hxlib.Rng, api string, full bool) func(*rsaKey) []*rsaXfer {
	return func(key *rsaKey) []*rsaXfer {
		size := key.size()
		var ts []*rsaXfer
		mk := func(kc, xc string, mlen0, mlen1 int) {
			t := &rsaXfer{bit: r.Bool(), m0: r.Bytes(mlen0), m1: r.Bytes(mlen1)}
			steer(r, key, t, kc, xc)
			ts = append(ts, t)
		}
		for _, kc := range rsaKClasses {
			mk(kc, "honest", 16, 16)
		}
		for _, xc := range rsaXClasses[1:] {
			mk("honest", xc, 16, 16)
		}
		ncross := 6
		if full {
			ncross = 20
		}
		for i := 0; i < ncross; i++ {
			mk(rsaKClasses[1+r.Intn(len(rsaKClasses)-1)], rsaXClasses[1+r.Intn(len(rsaXClasses)-1)], 16, 16)
		}
		if api == "xfer" {
			// message lengths: empty, one byte, the longest that fits, leading / inner zero bytes
			for _, ml := range [][2]int{{0, 0}, {1, 1}, {size - 11, size - 11}, {32, 5}, {size - 11, 0}} {
				for _, kc := range []string{"honest", "sum=N", "N-1", "top8"} {
					mk(kc, "honest", ml[0], ml[1])
					t := ts[len(ts)-1]
					if len(t.m0) > 1 {
						t.m0[0] = 0
						t.m0[len(t.m0)/2] = 0
					}
					steer(r, key, t, kc, "honest")
				}
			}
			// one byte too long: rejected by the sender (last: the batch model stops there)
			mk("honest", "honest", size-10, 16)
		}
		return ts
	}
}

func honestPlan(r *hxlib.Rng, n int) func(*rsaKey) []*rsaXfer {
	return func(key *rsaKey) []*rsaXfer {
		ts := make([]*rsaXfer, n)
		for i := range ts {
			ts[i] = &rsaXfer{bit: r.Bool(), m0: r.Bytes(16), m1: r.Bytes(16)}
			steer(r, key, ts[i], "honest", "honest")
		}
		return ts
	}
}

type rsaPlanCase struct {
	api   string
	bits  int
	shape string // "" = the key the code generates
	e     int
	class string // steered | honest
	n     int
}

func rsaMode(args []string) int {
	cf, o := hxlib.ParseCommon("rsa", args, nil)
	defer o.Close()
	if strings.HasPrefix(cf.Extra, "replay=") {
		return rsaReplay(o, strings.TrimPrefix(cf.Extra, "replay="))
	}
	thorough := cf.Tier == "thorough"
	rng := hxlib.NewRng(cf.Seed*0x9e3779b97f4a7c15 ^ 0x72736131)
	var cases []rsaPlanCase
	if !thorough {
		cases = []rsaPlanCase{
			{"proto", 1025, "low", 65537, "steered", 0},
			{"proto", 1024, "", 0, "steered", 0},
			{"xfer", 2048, "", 0, "steered", 0},
			{"xfer", 1031, "high", 3, "steered", 0},
			{"proto", 1025, "low", 65537, "honest", 160},
			{"proto", 1025, "", 0, "honest", 96},
			{"xfer", 1033, "low", 17, "honest", 96},
			{"proto", 2047, "", 0, "steered", 0},
			{"proto", 1031, "", 0, "honest", 48},
			{"xfer", 1024, "rand", 65537, "honest", 48},
		}
	} else {
		for _, b := range []int{1024, 1025, 1031, 1033, 1536, 2047, 2048, 2049} {
			for _, api := range []string{"proto", "xfer"} {
				cases = append(cases, rsaPlanCase{api, b, "", 0, "steered", 0})
				for _, sh := range []string{"low", "high", "rand"} {
					cases = append(cases, rsaPlanCase{api, b, sh, []int{65537, 3, 17}[(b+len(sh))%3], "steered", 0})
				}
			}
		}
		for _, c := range []struct{ bits, n int }{{1025, 800}, {1031, 500}, {2047, 300}, {1033, 400}, {1024, 200}, {2048, 120}} {
			cases = append(cases, rsaPlanCase{"proto", c.bits, "", 0, "honest", c.n})
			cases = append(cases, rsaPlanCase{"xfer", c.bits, "low", 65537, "honest", c.n / 2})
			cases = append(cases, rsaPlanCase{"proto", c.bits, "high", 65537, "honest", c.n / 4})
		}
	}
	for idx, c := range cases {
		r := rng.Fork()
		if cf.Only >= 0 && idx != cf.Only {
			continue
		}
		var key *rsaKey
		if c.shape != "" {
			key = makeKey(r.Fork(), c.bits, c.shape, c.e)
		}
		var plan func(*rsaKey) []*rsaXfer
		if c.class == "steered" {
			plan = steeredPlan(r.Fork(), c.api, thorough)
		} else {
			plan = honestPlan(r.Fork(), c.n)
		}
		// ot.Pipe (the in-memory test transport) cannot carry a zero-length
		// SendData: ReceiveData reads the length and then calls Read on an empty
		// slice, which io.Pipe only completes when the peer writes again - and
		// the peer is waiting for the answer.  v = 0 (class "v=0", probability
		// 1/N with honest randomness) is such a message, so steered batches run
		// over p2p.Conn (transports are C11's subject, not this property's).
		transport := []string{"otpipe", "p2p"}[idx%2]
		if c.class == "steered" {
			transport = "p2p"
		}
		k2, ts, res := runRsa(c.api, c.bits, key, plan, transport)
		judgeRsa(o, idx, c.api, transport, c.class, k2, ts, res, fmt.Sprintf("hx c06 rsa -seed %d -tier %s -only %d", cf.Seed, cf.Tier, idx))
		if idx < 2 && ts != nil {
			o.Sample(map[string]any{"mode": "rsa", "api": c.api, "bits": c.bits, "key": k2.src, "class": c.class,
				"transfers": len(ts), "first": map[string]any{"k_class": ts[0].kc, "x_class": ts[0].xc}})
		}
	}
	return 0
}

// rsaReplay: `-extra replay=<file>`: the op line recorded in a failure of this
// mode, with its key injected, run again on the real code.
func rsaReplay(o *hxlib.Out, path string) int {
	b, err := os.ReadFile(path)
	if err != nil {
		fmt.Println("cannot read replay file:", err)
		return 2
	}
	var doc struct {
		Failure map[string]any `json:"failure"`
	}
	if err := json.Unmarshal(b, &doc); err != nil || doc.Failure == nil {
		fmt.Println("no failure record in replay file")
		return 2
	}
	op, _ := doc.Failure["op"].(string)
	api, key, ts, err := parseRsaOp(op)
	if err != nil {
		fmt.Println("replay file holds no rsa op line:", err)
		return 2
	}
	transport, _ := doc.Failure["transport"].(string)
	src := key.src
	key.src = "replay"
	_, _, res := runRsa(api, key.bits, key, func(*rsaKey) []*rsaXfer { return ts }, transport)
	key.src = src
	seeded := "exact replay"
	if rp, _ := doc.Failure["replay"].(map[string]any); rp != nil {
		if s, _ := rp["seeded"].(string); s != "" {
			seeded = s
		}
	}
	cidx := 0
	if c, ok := doc.Failure["case"].(float64); ok {
		cidx = int(c)
	}
	ok := judgeRsa(o, cidx, api, transport, "replay", key, ts, res, seeded)
	fmt.Printf("replayed %d transfer(s) on the recorded %d-bit key through api %s: %s\n", len(ts), key.bits, api, res.line())
	if !ok {
		for _, f := range o.OracleFails {
			fmt.Printf("FAILS AGAIN: %v transfer %v: %v (k class %v, %v)\n", f["sig"], f["transfer"], f["what"], f["k_class"], f["sum_vs_N"])
		}
		return 0
	}
	fmt.Println("the case passes")
	return 0
}

package main

import (
	"crypto/rand"
	"fmt"
	"strings"
	"time"

	"github.com/markkurossi/mpc/ot"

	"verifharness/hxlib"
)

// ibatch is one call on an initialised IKNP sender/receiver pair.
//
//	kind 'L': Send(n,false)/Receive(b,res,false)   label form, semi-honest
//	kind 'M': Send(n,true)/Receive(b,res,true)     label form, malicious mode
//	kind 'B': SendBits(n,res)/ReceiveBits(ch,res,n) packed-bit form
type ibatch struct {
	kind  byte
	n     int
	b     []bool
	words []uint64
	ckind string
	rbuf  bufSpec // receiver's result buffer (label form and packed-bit form)
	sbuf  bufSpec // sender's result buffer (packed-bit form only)
}

func (b ibatch) spec() string {
	if b.kind == 'B' {
		return fmt.Sprintf("B%d:%s:%s:%s", b.n, wordsHex(b.words), b.rbuf, b.sbuf)
	}
	return fmt.Sprintf("%c%d:%s:%s", b.kind, b.n, boolsStr(b.b), b.rbuf)
}

type ibatchRes struct {
	u      [][]byte
	sent   []ot.Label
	rcvd   []ot.Label
	swords []uint64
	rwords []uint64
	// what the result slices held before the call
	initL  []ot.Label
	initRW []uint64
	initSW []uint64
	frame  string // non-empty: an arena position outside the slice changed
}

func packWords(b []bool, garbage func() uint64) []uint64 {
	n := len(b)
	w := make([]uint64, (n+63)/64)
	for i, f := range b {
		if f {
			w[i/64] |= 1 << (i % 64)
		}
	}
	if garbage != nil && n%64 != 0 {
		// bits above n in the last word are not part of the choice vector
		w[len(w)-1] |= garbage() &^ ((uint64(1) << (n % 64)) - 1)
	}
	return w
}

func bitOf(w []uint64, i int) bool { return (w[i/64]>>(i%64))&1 == 1 }

// newBase returns the two base-OT endpoints (sender side of IKNP = base OT
// receiver).
func newBase(kind string, r *hxlib.Rng) (ot.OT, ot.OT) {
	switch kind {
	case "co":
		return ot.NewCO(r.Fork()), ot.NewCO(r.Fork())
	case "corand":
		return ot.NewCO(rand.Reader), ot.NewCO(rand.Reader)
	case "rsa":
		return ot.NewRSA(rand.Reader, 1024), ot.NewRSA(rand.Reader, 1024)
	default:
		c := newChanOT()
		return c, c
	}
}

// iknpCase runs one initialised pair through the batches on the real code.
// Everything the run depends on is in the op line (tapes + batches); base OT
// kind and transport are harness-side parameters (named in the op line for
// replay, ignored by the model because the result does not depend on them).
func iknpCase(o *hxlib.Out, r *hxlib.Rng, idx int, seed uint64, base, transport string, stape, rtape []byte,
	batches []ibatch, arenaL, arenaW int) (string, string) {

	specs := make([]string, len(batches))
	for i, b := range batches {
		specs[i] = b.spec()
	}
	op := fmt.Sprintf("c06 iknpb %s %s %s %s %d %d %s", base, transport, hxlib.Hex(stape), hxlib.Hex(rtape),
		arenaL, arenaW, strings.Join(specs, ";"))
	replay := fmt.Sprintf("hx c06 iknp -seed %d -only %d", seed, idx)

	l := newLink(transport)
	defer l.close()
	bs, br := newBase(base, r)
	res := make([]ibatchRes, len(batches))
	var delta ot.Label
	done := make([]bool, len(batches))

	fs := func() error {
		if err := bs.InitSender(l.s); err != nil {
			return err
		}
		snd, err := ot.NewIKNPSender(bs, l.s, &hxlib.Tape{Data: stape}, nil)
		if err != nil {
			return err
		}
		delta = snd.Delta
		sw := &wordArena{a: make([]uint64, arenaW)}
		for i, b := range batches {
			switch b.kind {
			case 'B':
				w, before := sw.take(b.sbuf, (b.n+63)/64)
				res[i].initSW = append([]uint64(nil), w...)
				if err := snd.SendBits(b.n, w); err != nil {
					return fmt.Errorf("batch %d: %v", i, err)
				}
				res[i].swords = append([]uint64(nil), w...)
				if ok, at := sw.frameOK(b.sbuf, b.n, before); !ok {
					res[i].frame += fmt.Sprintf("SendBits changed word %d of the sender's array outside its %d result bits; ", at, b.n)
				}
			default:
				sent, err := snd.Send(b.n, b.kind == 'M')
				if err != nil {
					return fmt.Errorf("batch %d: %v", i, err)
				}
				res[i].sent = sent
			}
		}
		return nil
	}
	fr := func() error {
		if err := br.InitReceiver(l.r); err != nil {
			return err
		}
		rcv, err := ot.NewIKNPReceiver(br, l.r, &hxlib.Tape{Data: rtape})
		if err != nil {
			return err
		}
		l.r.take()
		rl := &labelArena{a: make([]ot.Label, arenaL)}
		rw := &wordArena{a: make([]uint64, arenaW)}
		for i, b := range batches {
			switch b.kind {
			case 'B':
				w, before := rw.take(b.rbuf, (b.n+63)/64)
				res[i].initRW = append([]uint64(nil), w...)
				if err := rcv.ReceiveBits(b.words, w, b.n); err != nil {
					return fmt.Errorf("batch %d: %v", i, err)
				}
				res[i].rwords = append([]uint64(nil), w...)
				if ok, at := rw.frameOK(b.rbuf, b.n, before); !ok {
					res[i].frame += fmt.Sprintf("ReceiveBits changed word %d of the receiver's array outside its %d result bits; ", at, b.n)
				}
			default:
				out, before := rl.take(b.rbuf, b.n)
				res[i].initL = append([]ot.Label(nil), out...)
				if err := rcv.Receive(b.b, out, b.kind == 'M'); err != nil {
					return fmt.Errorf("batch %d: %v", i, err)
				}
				res[i].rcvd = append([]ot.Label(nil), out...)
				if ok, at := rl.frameOK(b.rbuf, b.n, before); !ok {
					res[i].frame += fmt.Sprintf("Receive changed label %d of the receiver's array outside result[%d:%d]; ", at,
						b.rbuf.off, b.rbuf.off+b.n)
				}
			}
			res[i].u, _ = l.r.take()
			done[i] = true
		}
		return nil
	}
	es, er, to := runPair(l, fs, fr, 30*time.Second)
	if es != nil || er != nil || to {
		o.Fail("c06-iknp-error", map[string]any{"case": idx, "replay": replay, "sender_err": errStr(es),
			"receiver_err": errStr(er), "timeout": to, "batches": clipS(batchesBrief(batches), 300),
			"base": base, "transport": transport})
		return op, "error"
	}

	var sb strings.Builder
	for i, b := range batches {
		if i > 0 {
			sb.WriteByte(';')
		}
		if res[i].frame != "" {
			o.Fail("c06-buffer-frame", map[string]any{"case": idx, "replay": replay, "batch": i, "n": b.n,
				"kind": string(b.kind), "what": res[i].frame, "rbuf": b.rbuf.String(), "sbuf": b.sbuf.String()})
		}
		if b.kind == 'B' {
			fmt.Fprintf(&sb, "B:u=%s/s=%s/r=%s", chunksHex(res[i].u), wordsHex(res[i].swords), wordsHex(res[i].rwords))
			oracleBits(o, idx, replay, i, b, res[i], delta, base, transport)
		} else {
			fmt.Fprintf(&sb, "%c:u=%s/s=%s/r=%s", b.kind, chunksHex(res[i].u), labelsHex(res[i].sent), labelsHex(res[i].rcvd))
			oracleLabels(o, idx, replay, i, b, res[i], delta, base, transport)
		}
	}
	return op, sb.String()
}

// batchesBrief: kind, size and buffers of every call (no payload).
func batchesBrief(bs []ibatch) string {
	var ds []string
	for _, b := range bs {
		if b.kind == 'B' {
			ds = append(ds, fmt.Sprintf("B%d/%s[r=%s s=%s]", b.n, b.ckind, b.rbuf, b.sbuf))
		} else {
			ds = append(ds, fmt.Sprintf("%c%d/%s[r=%s]", b.kind, b.n, b.ckind, b.rbuf))
		}
	}
	return strings.Join(ds, ";")
}

func clipS(s string, n int) string {
	if len(s) > n {
		return s[:n] + "..."
	}
	return s
}

// oracleLabels: received_i = sent_i xor choice_i*Delta, for every i < n.
func oracleLabels(o *hxlib.Out, idx int, replay string, bi int, b ibatch, r ibatchRes, delta ot.Label, base, transport string) {
	o.Count("oracle_iknp_label_batches")
	if anyNonZeroL(r.initL) {
		o.Count("iknp_label_buf_nonzero_before_call")
	}
	if len(r.sent) != b.n || len(r.rcvd) != b.n {
		o.Fail("c06-label-corr", map[string]any{"case": idx, "replay": replay, "batch": bi, "n": b.n,
			"kind": string(b.kind), "what": "length", "sent": len(r.sent), "rcvd": len(r.rcvd)})
		return
	}
	wrong := 0
	first := -1
	for i := 0; i < b.n; i++ {
		want := r.sent[i]
		if b.b[i] {
			want.Xor(delta)
		}
		if !r.rcvd[i].Equal(want) {
			if first < 0 {
				first = i
			}
			wrong++
		}
	}
	o.CountN("oracle_iknp_label_positions", b.n)
	if wrong > 0 {
		o.Fail("c06-label-corr", map[string]any{"case": idx, "replay": replay, "batch": bi, "n": b.n,
			"kind": string(b.kind), "wrong": wrong, "first_wrong": first, "choices": b.ckind,
			"delta": delta.String(), "sent": r.sent[first].String(), "rcvd": r.rcvd[first].String(),
			"choice": b.b[first], "base": base, "transport": transport,
			"result_buffer": b.rbuf.String(), "result_buffer_class": b.rbuf.class(),
			"result_buffer_nonzero_before_call": anyNonZeroL(r.initL),
			"held_before":                       r.initL[first].String(),
			"n_mod":                             fmt.Sprintf("8:%d 64:%d 128:%d 512:%d", b.n%8, b.n%64, b.n%128, b.n%512)})
	}
}

// uncoveredFrom returns the first row index (absolute) of the last chunk that
// `ReceiveBits` did not XOR with the choice words BEFORE commit 564d319 (it
// XORed `byteRows/8` whole 64-bit words only); n if every row was covered.
// Used to exercise and to classify that (fixed) defect.
func uncoveredFrom(n int) int {
	const chunkRows = 512
	last := (n - 1) / chunkRows * chunkRows
	rows := n - last
	byteRows := (rows + 7) / 8
	words := byteRows / 8
	c := last + 64*words
	if c > n {
		c = n
	}
	return c
}

var knownBitsReported int

// oracleBits: packed-bit form r_i = s_i xor (b_i and Delta.Bit(0)).
func oracleBits(o *hxlib.Out, idx int, replay string, bi int, b ibatch, r ibatchRes, delta ot.Label, base, transport string) {
	o.Count("oracle_iknp_bits_batches")
	d0 := delta.Bit(0) == 1
	need := (b.n + 63) / 64
	if len(r.swords) != need+b.sbuf.extra || len(r.rwords) != need+b.rbuf.extra {
		o.Fail("c06-bits-corr", map[string]any{"case": idx, "replay": replay, "batch": bi, "n": b.n, "what": "length"})
		return
	}
	// The result slices may hold anything before the call ("Existing contents
	// are overwritten"): every position < n is judged, whatever it held.
	dirty := anyNonZeroW(r.initRW[:need]) || anyNonZeroW(r.initSW[:need])
	if dirty {
		o.Count("iknp_bits_dirty_buffers")
	} else {
		o.Count("iknp_bits_clean_buffers")
	}
	onlyStale := true // every wrong position had a set bit in one of the slices before the call
	wrong := 0
	first := -1
	unc := uncoveredFrom(b.n)
	// positions the pre-564d319 ReceiveBits defect made wrong: rows of the
	// uncovered tail whose choice bit is 1, when Delta bit 0 is 1.
	predictedAny := false
	exact := true
	for i := 0; i < b.n; i++ {
		c := bitOf(b.words, i)
		want := bitOf(r.swords, i) != (c && d0)
		bad := bitOf(r.rwords, i) != want
		predicted := d0 && c && i >= unc
		if predicted {
			predictedAny = true
		}
		if bad != predicted {
			exact = false
		}
		if bad {
			if first < 0 {
				first = i
			}
			wrong++
			if !bitOf(r.initRW, i) && !bitOf(r.initSW, i) {
				onlyStale = false
			}
		}
	}
	// bits at positions >= n of the result words must stay as they were
	stray := false
	if b.n%64 != 0 {
		mask := ^((uint64(1) << (b.n % 64)) - 1)
		if (r.swords[need-1]^r.initSW[need-1])&mask != 0 || (r.rwords[need-1]^r.initRW[need-1])&mask != 0 {
			stray = true
		}
	}
	if wrong > 0 && dirty && onlyStale {
		// the defect repaired by 8f72c8a (result bits only ORed in) is back
		o.Count("bits_dirty_buffer_wrong_batches")
	}
	o.CountN("oracle_iknp_bits_positions", b.n)
	if unc < b.n {
		o.Count("bits_batches_with_partial_last_word")
	}
	if predictedAny {
		// inputs on which the code before 564d319 gave a wrong bit
		o.Count("bits_batches_old_defect_inputs")
	}
	if stray {
		o.Fail("c06-bits-stray", map[string]any{"case": idx, "replay": replay, "batch": bi, "n": b.n,
			"swords": clipS(wordsHex(r.swords), 200), "rwords": clipS(wordsHex(r.rwords), 200)})
	}
	if wrong > 0 && exact {
		// the ReceiveBits defect fixed by 564d319 is back: report the first
		// few, count the rest (the harness keeps only 20 failures; other
		// failures must not be crowded out)
		o.Count("bits_old_defect_reproduced_batches")
		knownBitsReported++
		if knownBitsReported > 3 {
			o.Counters["oracle_fail"]++
			return
		}
	}
	if wrong > 0 {
		o.Fail("c06-bits-corr", map[string]any{"case": idx, "replay": replay, "batch": bi, "n": b.n,
			"wrong": wrong, "first_wrong": first, "choices": b.ckind, "delta_bit0": d0,
			"n_mod_64": b.n % 64, "uncovered_from": unc,
			"only_rows_receivebits_leaves_unxored": fmt.Sprint(exact),
			"result_buffers_nonzero_before_call":   fmt.Sprint(dirty),
			"only_positions_with_stale_bits":       fmt.Sprint(dirty && onlyStale),
			"rbuf":                                 b.rbuf.String(), "sbuf": b.sbuf.String(),
			"rwords_before": clipS(wordsHex(r.initRW), 200), "swords_before": clipS(wordsHex(r.initSW), 200),
			"base": base, "transport": transport,
			"swords": clipS(wordsHex(r.swords), 200), "rwords": clipS(wordsHex(r.rwords), 200),
			"cwords": clipS(wordsHex(b.words), 200)})
	}
}

// genBatches: 1..4 calls on one instance, mixing the three forms.
func genBatches(r *hxlib.Rng, first int, maxN int, kinds string, firstKind byte) []ibatch {
	nb := 1 + r.Intn(3)
	if r.Intn(6) == 0 {
		nb = 4
	}
	var bs []ibatch
	for i := 0; i < nb; i++ {
		n := genN(r, maxN)
		if i == 0 && first > 0 {
			n = first
		}
		if i > 0 && r.Intn(3) > 0 {
			// keep later batches cheap most of the time
			n = genN(r, 600)
		}
		k := kinds[r.Intn(len(kinds))]
		if i == 0 && firstKind != 0 {
			k = firstKind
		}
		c, ck := genChoices(r, n)
		b := ibatch{kind: byte(k), n: n, b: c, ckind: ck}
		if k == 'B' {
			var g func() uint64
			if r.Intn(2) == 0 {
				g = r.U64
			}
			b.words = packWords(c, g)
		}
		bs = append(bs, b)
	}
	return bs
}

func iknpMode(args []string) int {
	cf, o := hxlib.ParseCommon("iknp", args, nil)
	defer o.Close()
	rng := hxlib.NewRng(cf.Seed)
	kindsets := []string{"L", "B", "LB", "LMB", "M", "LLB"}
	for i := 0; i < cf.N; i++ {
		r := rng.Fork()
		if cf.Only >= 0 && i != cf.Only {
			continue
		}
		first := 0
		kinds := kindsets[r.Intn(len(kindsets))]
		var firstKind byte
		if i < 2*len(sweepSizes) {
			// deterministic sweep over the boundary sizes, both forms; the
			// later calls on the same pair mix all three forms
			first = sweepSizes[i/2]
			firstKind = "LB"[i%2]
			kinds = "LMB"
		}
		batches := genBatches(r, first, 4*512, kinds, firstKind)
		if i < 2*len(sweepSizes) && i%2 == 1 && i%4 == 1 {
			// all-ones choices on the sweep's packed-bit case: the worst case
			// for the word-wise XOR
			for j := range batches[0].b {
				batches[0].b[j] = true
			}
			batches[0].ckind = "one"
			batches[0].words = packWords(batches[0].b, nil)
		}
		nM := 0
		maxL, maxW := 0, 0
		for _, b := range batches {
			if b.kind == 'M' {
				nM++
			}
			if b.kind == 'B' {
				if w := (b.n + 63) / 64; w > maxW {
					maxW = w
				}
			} else if b.n > maxL {
				maxL = b.n
			}
		}
		// Planned part of the buffer classes (deterministic in the case index,
		// so that every class is reached for every seed): in the size sweep
		// the first call of cases i%4 in {0,1} gets fresh buffers, of cases
		// i%4 in {2,3} the class bufClasses[(i/4)%5] (sender's packed-bit
		// buffer: two classes further); every other such case repeats its first
		// call's form and size as a second call INTO THE SAME SLICE.  All
		// remaining calls draw their class at random.
		sweep := i < 2*len(sweepSizes)
		planned := ""
		if sweep && i%4 >= 2 {
			planned = bufClasses[(i/4)%len(bufClasses)]
		}
		sameSlice := planned != "" && (i/4)%2 == 1
		if sameSlice {
			b0 := batches[0]
			c, ck := genChoices(r, b0.n)
			nb := ibatch{kind: b0.kind, n: b0.n, b: c, ckind: ck}
			if nb.kind == 'L' && (i/4)%4 == 3 {
				nb.kind = 'M' // malicious-mode call into the slice a semi-honest call wrote
			}
			if nb.kind == 'B' {
				nb.words = packWords(c, nil)
			}
			if len(batches) < 2 {
				batches = append(batches, nb)
			} else {
				batches[1] = nb
			}
			nM = 0
			for _, b := range batches {
				if b.kind == 'M' {
					nM++
				}
			}
		}
		// the parties' long-lived arrays: as long as the longest call needs,
		// two times out of three a little longer (slices at an offset,
		// longer-than-needed packed-bit slices)
		arenaL, arenaW := maxL, maxW
		if i%3 != 0 || planned == "kept_subslice" {
			arenaL += 1 + r.Intn(9)
			arenaW += 1 + r.Intn(3)
		}
		for j := range batches {
			b := &batches[j]
			need, arena, exact := b.n, arenaL, true
			if b.kind == 'B' {
				need, arena, exact = (b.n+63)/64, arenaW, false
			}
			b.rbuf, b.sbuf = genBuf(r, need, arena, exact), bufSpec{fresh: true}
			if b.kind == 'B' {
				b.sbuf = genBuf(r, need, arena, exact)
			}
			if j == 0 && sweep {
				if planned == "" {
					b.rbuf, b.sbuf = bufSpec{fresh: true}, bufSpec{fresh: true}
				} else {
					b.rbuf = genBufClass(r, planned, need, arena, exact)
					if b.kind == 'B' {
						b.sbuf = genBufClass(r, bufClasses[((i/4)+2)%len(bufClasses)], need, arena, exact)
					}
				}
			}
			if j == 1 && sameSlice {
				// the slice the first call wrote, as it left it
				b.rbuf = bufSpec{pre: "k", off: batches[0].rbuf.off, extra: batches[0].rbuf.extra}
				if b.kind == 'B' {
					b.sbuf = bufSpec{pre: "k", off: batches[0].sbuf.off, extra: batches[0].sbuf.extra}
				}
				o.Count("iknp_same_slice_as_previous_call_" + string(b.kind))
			}
		}
		stape := r.Bytes(16)
		switch r.Intn(8) {
		case 0:
			for j := range stape {
				stape[j] = 0xff
			}
		case 1:
			for j := range stape {
				stape[j] = 0
			}
		case 2, 3:
			stape[7] |= 1 // Delta.Bit(0) = 1
		}
		rtape := r.Bytes(2*ot.K*16 + 48*nM)
		base := "chan"
		if r.Intn(12) == 0 {
			base = "co"
		}
		transport := []string{"otpipe", "p2p"}[r.Intn(2)]
		op, res := iknpCase(o, r, i, cf.Seed, base, transport, stape, rtape, batches, arenaL, arenaW)
		o.Op(op, res)
		o.Count("iknp_cases")
		o.Count("iknp_base_" + base)
		o.Count("iknp_transport_" + transport)
		o.CountN("iknp_batches", len(batches))
		if len(batches) > 1 {
			o.Count("iknp_cases_repeated_batches")
		}
		for _, b := range batches {
			o.Count("iknp_kind_" + string(b.kind))
			if b.kind == 'B' {
				o.Count("iknp_bits_rbuf_" + b.rbuf.class())
				o.Count("iknp_bits_sbuf_" + b.sbuf.class())
			} else {
				o.Count("iknp_label_buf_" + b.rbuf.class())
			}
			o.Count("iknp_choices_" + b.ckind)
			countSize(o, "iknp", b.n)
		}
		if i < 3 {
			o.Sample(map[string]any{"case": i, "mode": "iknp", "batches": strings.Split(batchesBrief(batches), ";"),
				"arena_labels": arenaL, "arena_words": arenaW, "base": base, "transport": transport})
		}
	}
	return 0
}

package main

import (
	"bytes"
	"crypto/elliptic"
	"crypto/rand"
	"fmt"
	"math/big"
	"time"

	"github.com/markkurossi/mpc/ot"

	"verifharness/hxlib"
)

// otPairCase runs `sender`/`receiver` (any ot.OT implementation) through
// the batches over a fresh transport and applies the delivery oracle.
var protoBufRot = []string{"fresh", "random", "kept", "ones"}

func otPairCase(o *hxlib.Out, impl string, idx int, replay, cfg, transport string, snd, rcv ot.OT, r *hxlib.Rng,
	sizes []int, rot bool, timeout time.Duration, bufRot int) {

	l := newLink(transport)
	defer l.close()
	type br struct {
		flags []bool
		ck    string
		in    []ot.Wire
		wires []ot.Wire
		rcvd  []ot.Label
		out   []ot.Label // the slice handed to Receive
		fill  []byte     // what the whole array is overwritten with before the batch (nil: nothing)
		bufcl string
	}
	bs := make([]br, len(sizes))
	// the receiver's result buffers (oracle only, no model): one array per
	// case, as long as the longest batch needs plus a little; batch i gets the
	// class protoBufRot[(bufRot+i)%4] - planned, so that every class is reached
	// for every seed: a fresh slice, or a window of the array overwritten
	// first with random bytes / ones, or kept as the earlier batches left it
	maxN := 0
	for _, n := range sizes {
		if n > maxN {
			maxN = n
		}
	}
	arena := make([]ot.Label, maxN+r.Intn(4))
	for i, n := range sizes {
		bs[i].flags, bs[i].ck = genChoices(r, n)
		bs[i].in = genWires(r, n)
		bs[i].bufcl = protoBufRot[(bufRot+i)%len(protoBufRot)]
		off := r.Intn(len(arena) - n + 1)
		bs[i].out = arena[off : off+n]
		switch bs[i].bufcl {
		case "fresh":
			bs[i].out = make([]ot.Label, n)
		case "random", "ones":
			bs[i].fill = r.Bytes(16 * len(arena))
			if bs[i].bufcl == "ones" {
				for j := range bs[i].fill {
					bs[i].fill[j] = 0xff
				}
			}
		}
	}
	fs := func() error {
		if err := snd.InitSender(l.s); err != nil {
			return fmt.Errorf("InitSender: %v", err)
		}
		for i := range bs {
			w := append([]ot.Wire(nil), bs[i].in...)
			if err := snd.Send(w); err != nil {
				return fmt.Errorf("batch %d Send: %v", i, err)
			}
			bs[i].wires = w
		}
		return nil
	}
	fr := func() error {
		if err := rcv.InitReceiver(l.r); err != nil {
			return fmt.Errorf("InitReceiver: %v", err)
		}
		for i := range bs {
			out := bs[i].out
			if bs[i].fill != nil {
				for j := range arena {
					arena[j].SetBytes(bs[i].fill[16*j : 16*j+16])
				}
			}
			if err := rcv.Receive(bs[i].flags, out); err != nil {
				return fmt.Errorf("batch %d Receive: %v", i, err)
			}
			bs[i].rcvd = append([]ot.Label(nil), out...)
		}
		return nil
	}
	es, er, to := runPair(l, fs, fr, timeout)
	cfg = cfg + " transport=" + transport
	if es != nil || er != nil || to {
		o.Fail("c06-ot-error", map[string]any{"impl": impl, "case": idx, "replay": replay, "sender_err": errStr(es),
			"receiver_err": errStr(er), "timeout": to, "config": cfg, "sizes": sizes})
		return
	}
	for i := range bs {
		oracleDelivers(o, impl, idx, replay, i, cfg+" result_buffer="+bs[i].bufcl, bs[i].flags, bs[i].wires, bs[i].rcvd, bs[i].ck)
		o.Count(impl + "_buf_" + bs[i].bufcl)
		countSize(o, impl, len(bs[i].flags))
		if !rot {
			for j := range bs[i].in {
				if bs[i].in[j] != bs[i].wires[j] {
					o.Fail("c06-wires-changed", map[string]any{"impl": impl, "case": idx, "replay": replay, "config": cfg, "pos": j})
					break
				}
			}
		}
	}
	o.Count(impl + "_cases")
	if len(sizes) > 1 {
		o.Count(impl + "_cases_repeated_batches")
	}
}

// coHelpersCase: the pure helper pipeline GenerateCOSenderSetup ->
// BuildCOChoices -> EncryptCOCiphertexts -> DecryptCOCiphertexts.
func coHelpersCase(o *hxlib.Out, r *hxlib.Rng, idx int, replay string, curve elliptic.Curve, n int) {
	cfg := "curve=" + curve.Params().Name
	defer func() {
		if e := recover(); e != nil {
			o.Fail("c06-cohelpers-panic", map[string]any{"case": idx, "replay": replay, "config": cfg, "n": n, "panic": fmt.Sprint(e)})
		}
	}()
	flags, ck := genChoices(r, n)
	wires := genWires(r, n)
	in := append([]ot.Wire(nil), wires...)
	setup, err := ot.GenerateCOSenderSetup(r.Fork(), curve)
	if err != nil {
		o.Fail("c06-cohelpers-error", map[string]any{"case": idx, "replay": replay, "config": cfg, "n": n, "step": "setup", "err": errStr(err)})
		return
	}
	bundle, points, err := ot.BuildCOChoices(r.Fork(), curve, setup.Ax, setup.Ay, flags)
	if err != nil {
		o.Fail("c06-cohelpers-error", map[string]any{"case": idx, "replay": replay, "config": cfg, "n": n, "step": "choices", "err": errStr(err)})
		return
	}
	// the points travel as big-endian byte strings (CO.Send/Receive): re-encode
	sent := make([]ot.ECPoint, len(points))
	for i, p := range points {
		sent[i] = ot.ECPoint{X: new(big.Int).SetBytes(p.X.Bytes()), Y: new(big.Int).SetBytes(p.Y.Bytes())}
	}
	ct, err := ot.EncryptCOCiphertexts(curve, setup, sent, wires)
	if err != nil {
		o.Fail("c06-cohelpers-error", map[string]any{"case": idx, "replay": replay, "config": cfg, "n": n, "step": "encrypt", "err": errStr(err)})
		return
	}
	ct2 := append([]ot.LabelCiphertext(nil), ct...)
	labels, err := ot.DecryptCOCiphertexts(curve, bundle, ct2)
	if err != nil {
		o.Fail("c06-cohelpers-error", map[string]any{"case": idx, "replay": replay, "config": cfg, "n": n, "step": "decrypt", "err": errStr(err)})
		return
	}
	oracleDelivers(o, "cohelpers", idx, replay, 0, cfg, flags, in, labels, ck)
	countSize(o, "cohelpers", n)
	for j := range in {
		if in[j] != wires[j] {
			o.Fail("c06-wires-changed", map[string]any{"impl": "cohelpers", "case": idx, "replay": replay, "pos": j})
			break
		}
	}
	// per-index domain separation: a ciphertext moved to another index must
	// not decrypt to the label (n >= 2, same choice bit at both positions)
	if n >= 2 {
		i0 := r.Intn(n)
		i1 := (i0 + 1 + r.Intn(n-1)) % n
		sw := append([]ot.LabelCiphertext(nil), ct...)
		sw[i0], sw[i1] = sw[i1], sw[i0]
		l2, err := ot.DecryptCOCiphertexts(curve, bundle, sw)
		if err == nil {
			want := in[i1].L0
			if flags[i0] {
				want = in[i1].L1
			}
			if l2[i0].Equal(want) {
				o.Fail("c06-co-index-separation", map[string]any{"case": idx, "replay": replay, "config": cfg, "i0": i0, "i1": i1})
			}
			o.Count("cohelpers_index_separation_checked")
		}
	}
	o.Count("cohelpers_cases")
	o.Count("cohelpers_" + curve.Params().Name)
}

// coXferCase: the single-transfer API COSender/COReceiver.
func coXferCase(o *hxlib.Out, r *hxlib.Rng, idx int, replay string, mlen int) {
	defer func() {
		if e := recover(); e != nil {
			o.Fail("c06-coxfer-panic", map[string]any{"case": idx, "replay": replay, "mlen": mlen, "panic": fmt.Sprint(e)})
		}
	}()
	s := ot.NewCOSender(r.Fork())
	rc := ot.NewCOReceiver(r.Fork(), s.Curve())
	m0, m1 := r.Bytes(mlen), r.Bytes(mlen)
	bit := uint(r.Intn(2))
	sx, err := s.NewTransfer(append([]byte(nil), m0...), append([]byte(nil), m1...))
	if err != nil {
		o.Fail("c06-coxfer-error", map[string]any{"case": idx, "replay": replay, "err": errStr(err)})
		return
	}
	rx, err := rc.NewTransfer(bit)
	if err != nil {
		o.Fail("c06-coxfer-error", map[string]any{"case": idx, "replay": replay, "err": errStr(err)})
		return
	}
	ax, ay := sx.A()
	rx.ReceiveA(ax, ay)
	bx, by := rx.B()
	sx.ReceiveB(bx, by)
	e0, e1 := sx.E()
	got := rx.ReceiveE(append([]byte(nil), e0...), append([]byte(nil), e1...))
	want := m0
	if bit == 1 {
		want = m1
	}
	o.Count("coxfer_cases")
	o.Count(fmt.Sprintf("coxfer_mlen_%d", mlen))
	o.Count("oracle_coxfer_batches")
	o.CountN("oracle_coxfer_positions", 1)
	if !bytes.Equal(got, want) {
		o.Fail("c06-delivers", map[string]any{"impl": "coxfer", "case": idx, "replay": replay, "mlen": mlen, "bit": bit,
			"got": hxlib.Hex(got), "want": hxlib.Hex(want)})
	}
}

// rsaXferCase: the single-transfer API Sender/Receiver (RSA).
func rsaXferCase(o *hxlib.Out, r *hxlib.Rng, idx int, replay string, s *ot.Sender, mlen int) {
	defer func() {
		if e := recover(); e != nil {
			o.Fail("c06-rsaxfer-panic", map[string]any{"case": idx, "replay": replay, "mlen": mlen, "panic": fmt.Sprint(e)})
		}
	}()
	rc, _ := ot.NewReceiver(r.Fork(), s.PublicKey())
	m0, m1 := r.Bytes(mlen), r.Bytes(mlen)
	bit := uint(r.Intn(2))
	sx, err := s.NewTransfer(append([]byte(nil), m0...), append([]byte(nil), m1...))
	if err != nil {
		o.Fail("c06-rsaxfer-error", map[string]any{"case": idx, "replay": replay, "err": errStr(err)})
		return
	}
	rx, _ := rc.NewTransfer(bit)
	x0, x1 := sx.RandomMessages()
	if err := rx.ReceiveRandomMessages(x0, x1); err != nil {
		o.Fail("c06-rsaxfer-error", map[string]any{"case": idx, "replay": replay, "err": errStr(err)})
		return
	}
	sx.ReceiveV(rx.V())
	m0p, m1p, err := sx.Messages()
	if err := rx.ReceiveMessages(m0p, m1p, err); err != nil {
		o.Fail("c06-rsaxfer-error", map[string]any{"case": idx, "replay": replay, "mlen": mlen, "bit": bit, "err": errStr(err)})
		return
	}
	got, gbit := rx.Message()
	want := m0
	if bit == 1 {
		want = m1
	}
	o.Count("rsaxfer_cases")
	o.Count("oracle_rsaxfer_batches")
	o.CountN("oracle_rsaxfer_positions", 1)
	if !bytes.Equal(got, want) || gbit != bit {
		o.Fail("c06-delivers", map[string]any{"impl": "rsaxfer", "case": idx, "replay": replay, "mlen": mlen, "bit": bit,
			"got": hxlib.Hex(got), "want": hxlib.Hex(want), "N": s.PublicKey().N.Text(16), "E": s.PublicKey().E,
			"x0": hxlib.Hex(x0), "x1": hxlib.Hex(x1), "v": hxlib.Hex(rx.V())})
	}
}

func smallN(r *hxlib.Rng, max int) int {
	c := []int{1, 2, 3, 7, 8, 9, 15, 16, 17, 31, 33, 63, 64, 65}
	n := c[r.Intn(len(c))]
	if n > max {
		n = 1 + r.Intn(max)
	}
	return n
}

// protoMode: implementation-side oracle only (no Lean counterpart runs):
// Chou-Orlandi (protocol, helpers, single-transfer API), RSA (protocol,
// single-transfer API), COT/ROT/IKNP over the real base OTs.
func protoMode(args []string) int {
	cf, o := hxlib.ParseCommon("proto", args, nil)
	defer o.Close()
	rng := hxlib.NewRng(cf.Seed)
	thorough := cf.Tier == "thorough"
	transports := []string{"otpipe", "p2p"}
	idx := 0
	next := func() (*hxlib.Rng, int, string, bool) {
		r := rng.Fork()
		i := idx
		idx++
		return r, i, fmt.Sprintf("hx c06 proto -seed %d -only %d", cf.Seed, i), cf.Only < 0 || cf.Only == i
	}

	// --- Chou-Orlandi protocol
	nco := cf.N
	for c := 0; c < nco; c++ {
		r, i, rp, run := next()
		if !run {
			continue
		}
		var sizes []int
		nb := 1 + r.Intn(3)
		if c%2 == 1 && nb < 2 {
			nb = 2 // planned: every other case has a second batch (result buffer kept from the first)
		}
		for j := 0; j < nb; j++ {
			n := smallN(r, 65)
			if j == 0 && c%5 == 4 {
				n = genN(r, 3*512)
				if thorough && c%10 == 9 {
					n = []int{2047, 2048, 2049}[r.Intn(3)]
				}
			}
			sizes = append(sizes, n)
		}
		otPairCase(o, "co", i, rp, "impl=CO", transports[r.Intn(2)], ot.NewCO(r.Fork()), ot.NewCO(r.Fork()), r, sizes, false, 60*time.Second, c)
	}
	// --- CO helpers
	curves := []elliptic.Curve{elliptic.P256(), elliptic.P256(), elliptic.P256(), elliptic.P224(), elliptic.P384(), elliptic.P521()}
	for c := 0; c < cf.N; c++ {
		r, i, rp, run := next()
		if !run {
			continue
		}
		n := smallN(r, 65)
		if c%4 == 3 {
			n = genN(r, 2*512)
		}
		cv := curves[c%len(curves)]
		if cv != elliptic.P256() && n > 130 {
			n = smallN(r, 65)
		}
		coHelpersCase(o, r, i, rp, cv, n)
	}
	// --- CO single-transfer API
	for c := 0; c < 2*cf.N; c++ {
		r, i, rp, run := next()
		if !run {
			continue
		}
		mlen := []int{16, 16, 16, 1, 8, 31, 32}[r.Intn(7)]
		coXferCase(o, r, i, rp, mlen)
	}
	// --- RSA protocol (one key pair per instance; key generation dominates)
	nrsa := 2
	if thorough {
		nrsa = 6
	}
	for c := 0; c < nrsa; c++ {
		r, i, rp, run := next()
		if !run {
			continue
		}
		bits := []int{2048, 1024, 1536}[c%3]
		var sizes []int
		nb := 1 + r.Intn(3)
		for j := 0; j < nb; j++ {
			n := smallN(r, 33)
			if thorough && j == 0 && c%2 == 1 {
				n = []int{63, 64, 65, 127, 129}[r.Intn(5)]
			}
			sizes = append(sizes, n)
		}
		otPairCase(o, "rsa", i, rp, fmt.Sprintf("impl=RSA-%d", bits), transports[r.Intn(2)],
			ot.NewRSA(rand.Reader, bits), ot.NewRSA(rand.Reader, bits), r, sizes, false, 120*time.Second, c+1)
	}
	// --- RSA single-transfer API
	{
		var s *ot.Sender
		for c := 0; c < cf.N; c++ {
			r, i, rp, run := next()
			if !run {
				continue
			}
			if s == nil || c == cf.N/2 {
				var err error
				s, err = ot.NewSender(rand.Reader, []int{2048, 1024}[c%2])
				if err != nil {
					o.Fail("c06-rsaxfer-error", map[string]any{"case": i, "replay": rp, "err": errStr(err)})
					break
				}
			}
			mlen := []int{16, 16, 1, 32, 64, 100}[r.Intn(6)]
			rsaXferCase(o, r, i, rp, s, mlen)
		}
	}
	// --- COT / ROT / over the real base OTs, both adversary modes
	nx := cf.N
	for c := 0; c < nx; c++ {
		r, i, rp, run := next()
		if !run {
			continue
		}
		rot := c%2 == 1
		mal := (c/2)%2 == 1
		shared := (c/4)%2 == 1
		base := "co"
		bs, br := newBase(base, r)
		var snd, rcv ot.OT
		impl := "cot"
		if rot {
			impl = "rot"
			snd, rcv = ot.NewROT(bs, r.Fork(), mal, shared), ot.NewROT(br, r.Fork(), mal, shared)
		} else {
			snd, rcv = ot.NewCOT(bs, r.Fork(), mal, shared), ot.NewCOT(br, r.Fork(), mal, shared)
		}
		var sizes []int
		nb := 1 + r.Intn(3)
		for j := 0; j < nb; j++ {
			sizes = append(sizes, genN(r, 4*512))
		}
		otPairCase(o, impl+"_over_"+base, i, rp, fmt.Sprintf("impl=%s base=%s mal=%v shared=%v", impl, base, mal, shared),
			transports[r.Intn(2)], snd, rcv, r, sizes, rot, 120*time.Second, c/2)
		o.Count(fmt.Sprintf("proto_%s_mal_%v", impl, mal))
	}
	// --- probe (recorded, not judged): COT over an RSA base OT.  COT.InitReceiver
	// initialises its base OT as *receiver* while NewIKNPReceiver then calls
	// base.Send; Chou-Orlandi tolerates the inverted role, RSA does not (the
	// private key only exists after InitSender).  The property lists COT/ROT as
	// implementations, not every base/extension pairing, so this is evidence
	// only.
	if thorough && cf.Only < 0 {
		r := rng.Fork()
		bs, br := newBase("rsa", r)
		snd, rcv := ot.NewCOT(bs, r.Fork(), false, false), ot.NewCOT(br, r.Fork(), false, false)
		l := newLink("otpipe")
		es, er, to := runPair(l, func() error { return snd.InitSender(l.s) }, func() error { return rcv.InitReceiver(l.r) },
			60*time.Second)
		l.close()
		if es == nil && er == nil && !to {
			o.Count("probe_cot_over_rsa_base_init_ok")
		} else {
			o.Count("probe_cot_over_rsa_base_init_fails")
			o.Meta["probe_cot_over_rsa_base"] = fmt.Sprintf("sender: %s; receiver: %s; timeout: %v", errStr(es), errStr(er), to)
		}
	}
	return 0
}

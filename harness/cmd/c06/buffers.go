package main

// Caller-provided output buffers.
//
// IKNPReceiver.Receive / COT.Receive / ROT.Receive write into the caller's
// []Label, ReceiveBits / SendBits into the caller's []uint64, ROT.Send into the
// caller's []Wire.  What such a buffer holds before the call is part of "every
// call": the harness keeps one long-lived array per party and output kind
// (the "arena") for the whole history on a pair and hands every call either a
// fresh zeroed allocation or a slice [off, off+needed+extra) of the arena —
// as the earlier calls left it (the buffer of the previous call), or
// overwritten first with one byte value (0xff: all ones) or with an AES-CTR
// key stream (random bytes).  The spec of every buffer is in the op line, so
// the Lean model (Iknp.runCallB) runs the same history on the same contents.

import (
	"bytes"
	"crypto/aes"
	"crypto/cipher"
	"encoding/binary"
	"encoding/hex"
	"fmt"

	"github.com/markkurossi/mpc/ot"

	"verifharness/hxlib"
)

// bufSpec names the output buffer of one call.
//
//	"-"                    fresh zeroed allocation of exactly the needed length
//	"<pre>@<off>+<extra>"  arena[off : off+needed+extra]; <pre> says what the
//	                       whole arena is overwritten with before the call:
//	                       k = nothing (keep what earlier calls left),
//	                       f<2 hex> = every byte has this value,
//	                       r<32 hex> = AES-CTR key stream (zero IV) of this key
type bufSpec struct {
	fresh bool
	pre   string
	off   int
	extra int
}

func (b bufSpec) String() string {
	if b.fresh {
		return "-"
	}
	return fmt.Sprintf("%s@%d+%d", b.pre, b.off, b.extra)
}

// class: generator class for the coverage counters.
func (b bufSpec) class() string {
	switch {
	case b.fresh:
		return "fresh"
	case b.pre == "k":
		if b.off > 0 || b.extra > 0 {
			return "kept_subslice"
		}
		return "kept"
	case b.pre == "fff":
		return "ones"
	case b.pre[0] == 'f':
		return "bytefill"
	default:
		return "random"
	}
}

// preBytes returns the bytes the arena is overwritten with (nil: keep).
func preBytes(pre string, n int) []byte {
	switch pre[0] {
	case 'f':
		v, _ := hex.DecodeString(pre[1:])
		return bytes.Repeat(v[:1], n)
	case 'r':
		key, _ := hex.DecodeString(pre[1:])
		blk, err := aes.NewCipher(key)
		if err != nil {
			panic(err)
		}
		var iv [16]byte
		out := make([]byte, n)
		cipher.NewCTR(blk, iv[:]).XORKeyStream(out, out)
		return out
	}
	return nil
}

// bufClasses: the generator classes other than "fresh".
var bufClasses = []string{"kept", "kept_subslice", "ones", "bytefill", "random"}

// genBufClass builds a buffer of the given class for a call needing `need`
// elements from an arena of `arena` elements.  exact: the API requires
// len(result) == need (label form), so the slice cannot be longer than needed.
// A class that does not fit (no room for an offset) degrades to "kept".
func genBufClass(r *hxlib.Rng, class string, need, arena int, exact bool) bufSpec {
	if class == "fresh" || arena < need {
		return bufSpec{fresh: true}
	}
	b := bufSpec{}
	room := arena - need
	switch class {
	case "kept":
		b.pre = "k"
		return b
	case "kept_subslice":
		b.pre = "k"
		if room == 0 {
			return b
		}
		if exact || r.Intn(2) == 0 {
			b.off = 1 + r.Intn(room)
		}
		if !exact && (b.off == 0 || r.Intn(2) == 0) {
			if rest := room - b.off; rest > 0 {
				b.extra = 1 + r.Intn(rest)
			} else if b.off == 0 {
				b.off = 1
			}
		}
		return b
	case "ones":
		b.pre = "fff"
	case "bytefill":
		b.pre = fmt.Sprintf("f%02x", 1+r.Intn(254))
	default:
		b.pre = "r" + hxlib.Hex(r.Bytes(16))
	}
	if room > 0 && r.Intn(2) == 0 {
		b.off = 1 + r.Intn(room)
	}
	if !exact {
		if rest := arena - need - b.off; rest > 0 && r.Intn(2) == 0 {
			b.extra = 1 + r.Intn(rest)
		}
	}
	return b
}

// genBuf draws the class at random (2/5 fresh).
func genBuf(r *hxlib.Rng, need, arena int, exact bool) bufSpec {
	if r.Intn(5) < 2 {
		return bufSpec{fresh: true}
	}
	cls := []string{"kept", "kept", "kept", "kept_subslice", "kept_subslice", "ones", "ones", "bytefill", "random", "random",
		"random"}[r.Intn(11)]
	return genBufClass(r, cls, need, arena, exact)
}

// labelArena is the receiver's long-lived label array.
type labelArena struct {
	a []ot.Label
}

// take applies the spec and returns the slice handed to the call plus a
// snapshot of the whole arena (nil for a fresh buffer) for the frame check.
func (la *labelArena) take(b bufSpec, need int) (win []ot.Label, before []ot.Label) {
	if b.fresh {
		return make([]ot.Label, need), nil
	}
	if bs := preBytes(b.pre, 16*len(la.a)); bs != nil {
		for i := range la.a {
			la.a[i].SetBytes(bs[16*i : 16*i+16])
		}
	}
	before = append([]ot.Label(nil), la.a...)
	// full slice expression: the call must not be able to grow into the arena
	// unnoticed; cap stays the arena's so that writes past len are possible
	// for code that re-slices
	return la.a[b.off : b.off+need+b.extra], before
}

// frameOK: every arena position outside the window is unchanged.
func (la *labelArena) frameOK(b bufSpec, need int, before []ot.Label) (bool, int) {
	if before == nil {
		return true, -1
	}
	for i := range la.a {
		if i >= b.off && i < b.off+need+b.extra {
			continue
		}
		if !la.a[i].Equal(before[i]) {
			return false, i
		}
	}
	return true, -1
}

type wordArena struct {
	a []uint64
}

func (wa *wordArena) take(b bufSpec, need int) (win []uint64, before []uint64) {
	if b.fresh {
		return make([]uint64, need), nil
	}
	if bs := preBytes(b.pre, 8*len(wa.a)); bs != nil {
		for i := range wa.a {
			wa.a[i] = binary.BigEndian.Uint64(bs[8*i:])
		}
	}
	before = append([]uint64(nil), wa.a...)
	return wa.a[b.off : b.off+need+b.extra], before
}

// frameOK: every word outside [off, off+need) is unchanged (this includes
// the `extra` words of a longer-than-needed slice), and so are the bits at
// positions >= n of the last needed word.
func (wa *wordArena) frameOK(b bufSpec, n int, before []uint64) (bool, int) {
	if before == nil {
		return true, -1
	}
	need := (n + 63) / 64
	for i := range wa.a {
		if i >= b.off && i < b.off+need {
			if i == b.off+need-1 && n%64 != 0 {
				mask := ^((uint64(1) << (n % 64)) - 1)
				if (wa.a[i]^before[i])&mask != 0 {
					return false, i
				}
			}
			continue
		}
		if wa.a[i] != before[i] {
			return false, i
		}
	}
	return true, -1
}

func anyNonZeroW(w []uint64) bool {
	for _, x := range w {
		if x != 0 {
			return true
		}
	}
	return false
}

func anyNonZeroL(l []ot.Label) bool {
	var z ot.Label
	for _, x := range l {
		if !x.Equal(z) {
			return true
		}
	}
	return false
}

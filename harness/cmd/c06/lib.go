package main

import (
	"fmt"
	"strings"
	"sync"
	"time"

	"github.com/markkurossi/mpc/ot"
	"github.com/markkurossi/mpc/p2p"

	"verifharness/hxlib"
)

// ---------------------------------------------------------------- transport

// recIO wraps an ot.IO and records what the wrapped side sends (SendData
// payloads and SendLabel values), in order.
type recIO struct {
	ot.IO
	mu     sync.Mutex
	data   [][]byte
	labels []ot.Label
}

func (r *recIO) SendData(v []byte) error {
	r.mu.Lock()
	r.data = append(r.data, append([]byte(nil), v...))
	r.mu.Unlock()
	return r.IO.SendData(v)
}

func (r *recIO) SendLabel(v ot.Label, d *ot.LabelData) error {
	r.mu.Lock()
	r.labels = append(r.labels, v)
	r.mu.Unlock()
	return r.IO.SendLabel(v, d)
}

// take returns and clears the recorded sends.
func (r *recIO) take() ([][]byte, []ot.Label) {
	r.mu.Lock()
	defer r.mu.Unlock()
	d, l := r.data, r.labels
	r.data, r.labels = nil, nil
	return d, l
}

// link is a connected pair of recording endpoints and a function that tears
// the transport down (unblocking any goroutine still inside the protocol).
type link struct {
	s, r  *recIO
	close func()
	kind  string
}

// newLink creates a transport: "otpipe" = ot.NewPipe (unbuffered, Flush is a
// no-op), "p2p" = p2p.Pipe (buffered p2p.Conn: a missing Flush blocks the peer).
func newLink(kind string) *link {
	switch kind {
	case "p2p":
		a, b := p2p.Pipe()
		var once sync.Once
		return &link{s: &recIO{IO: a}, r: &recIO{IO: b}, kind: kind, close: func() {
			once.Do(func() {
				go func() { defer func() { recover() }(); a.Close() }()
				go func() { defer func() { recover() }(); b.Close() }()
			})
		}}
	default:
		a, b := ot.NewPipe()
		var once sync.Once
		return &link{s: &recIO{IO: a}, r: &recIO{IO: b}, kind: "otpipe", close: func() {
			once.Do(func() {
				a.Close()
				b.Close()
			})
		}}
	}
}

// ---------------------------------------------------------------- trivial base OT

// chanOT is an in-process ideal 1-out-of-2 OT used as the base OT of the
// extension when the byte-exact comparison needs determinism: Send hands the
// wire pairs to Receive, which selects by its flags.  Both parties share the
// channel.
type chanOT struct {
	ch chan []ot.Wire
}

func newChanOT() *chanOT { return &chanOT{ch: make(chan []ot.Wire, 16)} }

func (c *chanOT) InitSender(io ot.IO) error   { return nil }
func (c *chanOT) InitReceiver(io ot.IO) error { return nil }
func (c *chanOT) Send(w []ot.Wire) error {
	c.ch <- append([]ot.Wire(nil), w...)
	return nil
}
func (c *chanOT) Receive(flags []bool, result []ot.Label) error {
	select {
	case w := <-c.ch:
		if len(w) != len(flags) || len(result) != len(flags) {
			return fmt.Errorf("chanOT: length mismatch %d %d %d", len(w), len(flags), len(result))
		}
		for i, f := range flags {
			if f {
				result[i] = w[i].L1
			} else {
				result[i] = w[i].L0
			}
		}
		return nil
	case <-time.After(20 * time.Second):
		return fmt.Errorf("chanOT: timeout")
	}
}

// ---------------------------------------------------------------- running two parties

// runPair runs the two party functions concurrently, recovers panics and
// gives up after the timeout (tearing the transport down).
func runPair(l *link, fs, fr func() error, timeout time.Duration) (es, er error, timedOut bool) {
	type res struct {
		who int
		err error
	}
	ch := make(chan res, 2)
	run := func(who int, f func() error) {
		var err error
		defer func() {
			if e := recover(); e != nil {
				err = fmt.Errorf("panic: %v", e)
			}
			ch <- res{who, err}
		}()
		err = f()
	}
	go run(0, fs)
	go run(1, fr)
	got := 0
	deadline := time.After(timeout)
	for got < 2 {
		select {
		case r := <-ch:
			got++
			if r.who == 0 {
				es = r.err
			} else {
				er = r.err
			}
			if r.err != nil && got < 2 {
				// one side failed: the other may block forever; give it a
				// short grace period then tear down.
				select {
				case r2 := <-ch:
					got++
					if r2.who == 0 {
						es = r2.err
					} else {
						er = r2.err
					}
				case <-time.After(300 * time.Millisecond):
					if l != nil {
						l.close()
					}
					select {
					case r2 := <-ch:
						got++
						if r2.who == 0 {
							es = r2.err
						} else {
							er = r2.err
						}
					case <-time.After(2 * time.Second):
						return es, er, true
					}
				}
			}
		case <-deadline:
			if l != nil {
				l.close()
			}
			return es, er, true
		}
	}
	return es, er, false
}

// ---------------------------------------------------------------- helpers

func labelBytes(l ot.Label) []byte {
	var d ot.LabelData
	l.GetData(&d)
	return append([]byte(nil), d[:]...)
}

func labelsHex(ls []ot.Label) string {
	if len(ls) == 0 {
		return "-"
	}
	var sb strings.Builder
	var d ot.LabelData
	for _, l := range ls {
		l.GetData(&d)
		sb.WriteString(hxlib.Hex(d[:]))
	}
	return sb.String()
}

func chunksHex(cs [][]byte) string {
	if len(cs) == 0 {
		return "-"
	}
	parts := make([]string, len(cs))
	for i, c := range cs {
		parts[i] = hxlib.Hex(c)
		if len(c) == 0 {
			parts[i] = "."
		}
	}
	return strings.Join(parts, ",")
}

func wordsHex(ws []uint64) string {
	if len(ws) == 0 {
		return "-"
	}
	var sb strings.Builder
	for _, w := range ws {
		fmt.Fprintf(&sb, "%016x", w)
	}
	return sb.String()
}

func labelFromBytes(b []byte) ot.Label {
	var l ot.Label
	l.SetBytes(b)
	return l
}

func xorLabel(a, b ot.Label) ot.Label {
	a.Xor(b)
	return a
}

// sizes of interest: around multiples of 8, 64, 128 and the chunk size 512.
var sweepSizes = []int{1, 2, 3, 7, 8, 9, 10, 15, 16, 17, 56, 57, 63, 64, 65, 100, 120, 127, 128, 129, 191, 192, 193,
	255, 256, 257, 448, 449, 504, 505, 511, 512, 513, 519, 520, 521, 575, 576, 577, 639, 640, 641,
	1023, 1024, 1025, 1535, 1536, 1537, 2047, 2048, 2049}

func genN(r *hxlib.Rng, max int) int {
	var n int
	switch r.Intn(10) {
	case 0:
		n = 1 + r.Intn(20)
	case 1, 2, 3, 4, 5, 6:
		m := []int{8, 64, 128, 512}[r.Intn(4)]
		k := 1 + r.Intn(max/m)
		n = k*m + r.Intn(3) - 1
	case 7:
		n = sweepSizes[r.Intn(len(sweepSizes))]
	default:
		n = 1 + r.Intn(max)
	}
	if n < 1 {
		n = 1
	}
	if n > max+1 {
		n = max + 1
	}
	return n
}

// genChoices: all-0 / all-1 / random / alternating / only the tail set.
func genChoices(r *hxlib.Rng, n int) ([]bool, string) {
	b := make([]bool, n)
	kind := []string{"zero", "one", "random", "random", "alt", "tail"}[r.Intn(6)]
	switch kind {
	case "one":
		for i := range b {
			b[i] = true
		}
	case "random":
		for i := range b {
			b[i] = r.Bool()
		}
	case "alt":
		for i := range b {
			b[i] = i%2 == 0
		}
	case "tail":
		t := 1 + r.Intn(9)
		for i := n - t; i < n; i++ {
			if i >= 0 {
				b[i] = true
			}
		}
	}
	return b, kind
}

func sizeClass(n int) string {
	s := ""
	for _, m := range []int{8, 64, 128, 512} {
		switch n % m {
		case 0:
			s += fmt.Sprintf("m%d=0,", m)
		case 1:
			s += fmt.Sprintf("m%d=+1,", m)
		case m - 1:
			s += fmt.Sprintf("m%d=-1,", m)
		}
	}
	if s == "" {
		return "generic"
	}
	return strings.TrimSuffix(s, ",")
}

func countSize(o *hxlib.Out, prefix string, n int) {
	for _, m := range []int{8, 64, 128, 512} {
		switch n % m {
		case 0:
			o.Count(fmt.Sprintf("%s_n_mod%d_0", prefix, m))
		case 1:
			o.Count(fmt.Sprintf("%s_n_mod%d_p1", prefix, m))
		case m - 1:
			o.Count(fmt.Sprintf("%s_n_mod%d_m1", prefix, m))
		}
	}
	switch {
	case n > 4*512:
		o.Count(prefix + "_chunks_5")
	case n > 512:
		o.Count(prefix + "_chunks_2to4")
	default:
		o.Count(prefix + "_chunks_1")
	}
}

func boolsStr(b []bool) string { return hxlib.BitsString(b) }

func errStr(e error) string {
	if e == nil {
		return ""
	}
	s := e.Error()
	if len(s) > 300 {
		s = s[:300]
	}
	return s
}

// Fault sessions of property C11: the writer goroutine's error path.
//
// The transport fails its N-th Write after k bytes (short write + error);
// "sticky" transports fail every later Write too (a closed socket),
// "transient" ones accept later Writes again.  To make the asynchronous error
// reporting of p2p.Conn reproducible the transport holds Write N until the
// sender has queued the following chunk (Stats.Flushed >= N+2, checked
// between typed operations) or has run out of operations; it then lets the
// Write fail and the sender waits until the error is visible to it (Write
// N+1 entered, or Write N returned and the channel close of Close orders the
// rest).  The caller stops at the first error and calls Close.  The Lean
// driver replays the same schedule on the FSender model.
package main

import (
	"bytes"
	"errors"
	"fmt"
	"io"
	"runtime"
	"sync"
	"time"

	"github.com/markkurossi/mpc/ot"
	"github.com/markkurossi/mpc/p2p"

	"verifharness/hxlib"
)

var errInjected = errors.New("injected transport write error")

type faultLink struct {
	mu       sync.Mutex
	cond     *sync.Cond
	n, k     int
	sticky   bool
	released bool
	entered  int
	returned int
	wrote    [][]byte // bytes each Write actually wrote
	closes   int
}

func newFaultLink(n, k int, sticky bool) *faultLink {
	l := &faultLink{n: n, k: k, sticky: sticky}
	l.cond = sync.NewCond(&l.mu)
	return l
}

func (l *faultLink) Write(p []byte) (int, error) {
	l.mu.Lock()
	defer l.mu.Unlock()
	idx := l.entered
	l.entered++
	progress.Add(1)
	l.cond.Broadcast()
	if idx == l.n {
		for !l.released {
			l.cond.Wait()
		}
	}
	nw := len(p)
	var err error
	switch {
	case idx == l.n:
		if l.k < nw {
			nw = l.k
		}
		err = errInjected
	case idx > l.n && l.sticky:
		nw = 0
		err = errInjected
	}
	l.wrote = append(l.wrote, append([]byte(nil), p[:nw]...))
	l.returned++
	progress.Add(uint64(nw) + 1)
	l.cond.Broadcast()
	return nw, err
}

func (l *faultLink) Read(p []byte) (int, error) { return 0, io.EOF }

func (l *faultLink) Close() error {
	l.mu.Lock()
	l.closes++
	l.mu.Unlock()
	return nil
}

func (l *faultLink) release() {
	l.mu.Lock()
	l.released = true
	l.cond.Broadcast()
	l.mu.Unlock()
}

// idleWriters counts the goroutines that are parked in the `for buf := range
// c.toWriter` receive of p2p.(*Conn).writer: such a writer has finished every
// buffer queued so far (a goroutine with a pending element is runnable, not
// parked).  Writers of earlier sessions whose Close failed stay parked there
// for ever, so the caller compares with the count before its own NewConn.
func idleWriters() int {
	parked, _ := writerCounts()
	return parked
}

// writerCounts returns the number of parked writer goroutines and the number
// of writer goroutines in any state.
func writerCounts() (int, int) {
	buf := make([]byte, 1<<20)
	for {
		n := runtime.Stack(buf, true)
		if n < len(buf) {
			buf = buf[:n]
			break
		}
		buf = make([]byte, 2*len(buf))
	}
	parked, total := 0, 0
	for _, g := range bytes.Split(buf, []byte("\n\n")) {
		nl := bytes.IndexByte(g, '\n')
		if nl < 0 || !bytes.Contains(g[nl:], []byte("p2p.(*Conn).writer(")) {
			continue
		}
		total++
		if bytes.Contains(g[:nl], []byte("[chan receive")) {
			parked++
		}
	}
	return parked, total
}

// waitFor polls until cond holds or this session's writer goroutine is idle
// (has processed everything queued).  It gives up only when the global
// progress counter has not moved for a long time.
func (l *faultLink) waitFor(baseIdle int, cond func() bool) bool {
	last := progress.Load()
	lastChange := time.Now()
	for i := 0; ; i++ {
		l.mu.Lock()
		ok := cond()
		l.mu.Unlock()
		if ok {
			return true
		}
		if i%8 == 7 {
			// this session's writer is parked (idle) or has exited
			if parked, total := writerCounts(); parked > baseIdle || total <= baseIdle {
				return true
			}
		}
		time.Sleep(20 * time.Microsecond)
		if cur := progress.Load(); cur != last {
			last, lastChange = cur, time.Now()
		} else if time.Since(lastChange) > stallLimit {
			return false
		}
	}
}

type faultCase struct {
	n, k   int
	sticky bool
	ops    []op
}

func (fc *faultCase) opLine() string {
	st := 0
	if fc.sticky {
		st = 1
	}
	return fmt.Sprintf("c11 fault %d.%d.%d - %s", fc.n, fc.k, st, opsLine(fc.ops))
}

func okErr(err error) string {
	if err == nil {
		return "ok"
	}
	return "err"
}

// runFault runs one fault session on the real p2p.Conn.
func runFault(o *hxlib.Out, idx int, fc *faultCase) bool {
	opl := fc.opLine()
	var res string
	detail := func(extra map[string]any) map[string]any {
		m := map[string]any{"case": idx, "op": clip(opl), "mode": "fault", "rerun": rerun(idx),
			"transient": fmt.Sprint(!fc.sticky), "fault_write": fc.n, "fault_bytes": fc.k}
		for k, v := range extra {
			m[k] = v
		}
		return m
	}
	ok := runWithWatchdog(o, idx, "fault "+fmt.Sprint(fc.n, fc.k, fc.sticky), func() {
		defer func() {
			if e := recover(); e != nil {
				o.Fail("c11-fault-panic", detail(map[string]any{"panic": fmt.Sprint(e)}))
				res = "panic"
			}
		}()
		baseIdle := idleWriters()
		l := newFaultLink(fc.n, fc.k, fc.sticky)
		c := p2p.NewConn(l)
		released := false
		nok := 0
		var opErr error
		for i := range fc.ops {
			if err := sendOp(c, &fc.ops[i]); err != nil {
				opErr = err
				break
			}
			nok++
			if !released && c.Stats.Flushed.Load() >= uint64(fc.n+2) {
				released = true
				l.release()
				// the error of Write N is visible once Write N+1 was entered
				if !l.waitFor(baseIdle, func() bool { return l.entered >= fc.n+2 }) {
					o.Fail("c11-hang", detail(map[string]any{"what": "writer did not take the next buffer after a failed Write"}))
				}
			}
		}
		if !released {
			l.release()
			if c.Stats.Flushed.Load() >= uint64(fc.n+1) {
				if !l.waitFor(baseIdle, func() bool { return l.returned >= fc.n+1 }) {
					o.Fail("c11-hang", detail(map[string]any{"what": "queued buffer was never written"}))
				}
			}
		}
		pre := [3]uint64{c.Stats.Sent.Load(), c.Stats.Flushed.Load(), uint64(c.WritePos)}
		cerr := c.Close()
		if cerr != nil {
			// the writer goroutine may still be alive (Close returned at its
			// failed Flush); wait until it has processed everything queued
			l.waitFor(baseIdle, func() bool { return false })
		}
		l.mu.Lock()
		wrote := l.wrote
		entered := l.entered
		closes := l.closes
		l.mu.Unlock()

		var ref, wire []byte
		for i := range fc.ops {
			if fc.ops[i].kind == 'v' {
				ref = fc.ops[i].v.refEncode(ref)
			}
		}
		lens := make([]int, len(wrote))
		for i, w := range wrote {
			lens[i] = len(w)
			wire = append(wire, w...)
		}
		tc := 0
		if closes > 0 {
			tc = 1
		}
		res = fmt.Sprintf("w=%s;wh=%016x;nok=%d;ops=%s;close=%s;pre=%d,%d,%d;sent=%d;fl=%d;writes=%d;tc=%d",
			rle(lens), fnv1a(fnvInit, wire), nok, okErr(opErr), okErr(cerr), pre[0], pre[1], pre[2],
			c.Stats.Sent.Load(), c.Stats.Flushed.Load(), len(wrote), tc)

		// ---- oracles on the real code
		faulted := entered > fc.n
		if faulted {
			o.Count("fault_hit")
			if fc.sticky {
				o.Count("fault_hit_sticky")
			} else {
				o.Count("fault_hit_transient")
			}
			switch {
			case fc.k == 0:
				o.Count("fault_short_0")
			case fc.k < 65536:
				o.Count("fault_short_partial")
			default:
				o.Count("fault_error_after_full_write")
			}
			if opErr != nil {
				o.Count("fault_reported_by_op")
			} else {
				o.Count("fault_reported_by_close_only")
			}
		} else {
			o.Count("fault_not_reached")
		}
		if faulted && opErr == nil && cerr == nil {
			o.Fail("c11-fault-silent", detail(map[string]any{"what": "a transport Write failed but neither an operation nor Close returned an error"}))
		}
		if !faulted {
			if opErr != nil || cerr != nil {
				o.Fail("c11-spurious-error", detail(map[string]any{"op_err": fmt.Sprint(opErr), "close_err": fmt.Sprint(cerr)}))
			}
			if !bytes.Equal(wire, ref) {
				o.Fail("c11-wire-mismatch", detail(map[string]any{"wire_len": len(wire), "want_len": len(ref)}))
			}
		}
		if opErr == nil && cerr == nil && !bytes.Equal(wire, ref) {
			o.Fail("c11-silent-loss", detail(map[string]any{"wire_len": len(wire), "want_len": len(ref)}))
		}
		if !bytes.HasPrefix(ref, wire) {
			o.Fail("c11-fault-not-prefix", detail(map[string]any{"wire_len": len(wire), "first_diff": firstDiff(wire, ref),
				"what": "bytes on the wire are not a prefix of the sent stream (gap or duplicate after a failed Write)"}))
		}
		if cerr == nil && closes != 1 {
			o.Fail("c11-transport-close-count", detail(map[string]any{"closes": closes}))
		}
		if cerr != nil && closes == 0 {
			o.Count("close_error_leaves_transport_open")
		}
	})
	if !ok {
		o.Op(opl, "hang")
		return false
	}
	o.Op(opl, res)
	return true
}

// smallOps generates operations that flush at most once each (payloads up to
// 60000 bytes, size lists up to 1000 entries), ending with a Flush.
func smallOps(r *hxlib.Rng, n int, flushRate int) []op {
	var ops []op
	for i := 0; i < n; i++ {
		switch c := r.Intn(100); {
		case c < flushRate:
			ops = append(ops, op{kind: 'f'})
		case c < flushRate+5:
			ops = append(ops, op{kind: 'n', n: []int{0, 1, 16, 65536, 70000, r.Intn(65536)}[r.Intn(6)]})
		default:
			var v val
			switch k := r.Intn(12); {
			case k < 2:
				v = val{kind: 'b', n: r.Intn(256)}
			case k < 3:
				v = val{kind: 'h', n: r.Intn(65536)}
			case k < 4:
				v = val{kind: 'w', n: int(r.U64() & 0xffffffff)}
			case k < 5:
				v = val{kind: 'l', label: ot.Label{D0: r.U64(), D1: r.U64()}}
			case k < 6:
				m := []int{0, 1, 5, 1000}[r.Intn(4)]
				v = val{kind: 'z', sizes: make([]int, m)}
				if m > 24 {
					v.zseed = 1 + r.U64()&0xffffffff
					v.sizes = patternSizes(v.zseed, m)
				} else {
					for j := range v.sizes {
						v.sizes[j] = int(r.U64() & 0xffffffff)
					}
				}
			default:
				m := []int{0, 1, 16, r.Intn(300), 20000 + r.Intn(40000), 30000, 60000, r.Intn(60000)}[r.Intn(8)]
				seed := r.U64() & 0xffffffff
				kind := byte('d')
				if r.Intn(4) == 0 {
					kind = 's'
				}
				v = val{kind: kind, seed: seed, data: pattern(seed, m)}
			}
			ops = append(ops, op{kind: 'v', v: v})
		}
	}
	return append(ops, op{kind: 'f'})
}

func faultMode(args []string) int {
	cf, o := hxlib.ParseCommon("c11", args, nil)
	defer o.Close()
	rerunBase = fmt.Sprintf("hx-c11 fault -seed %d -n %d -tier %s", cf.Seed, cf.N, cf.Tier)
	idx := 0
	run := func(fc *faultCase) bool {
		defer func() { idx++ }()
		if cf.Only >= 0 && idx != cf.Only {
			return true
		}
		o.Count("cases_fault")
		return runFault(o, idx, fc)
	}
	// systematic: a fixed script of 6 chunks (two of them exactly 64 KiB, cut
	// by the automatic flush), the fault at every chunk boundary and beyond,
	// at byte 0 / 1 / len-1 / len of the chunk, sticky and transient
	script := func() []op {
		mk := func(k byte, n int, seed uint64) op {
			return op{kind: 'v', v: val{kind: k, seed: seed, data: pattern(seed, n)}}
		}
		return []op{
			mk('d', 10, 1), {kind: 'f'},
			mk('d', 60000, 2), mk('s', 6000, 3), // automatic flush inside the second payload
			{kind: 'v', v: val{kind: 'w', n: 7}}, {kind: 'f'},
			{kind: 'v', v: val{kind: 'b', n: 1}}, {kind: 'f'},
			mk('d', 65532, 4), {kind: 'v', v: val{kind: 'h', n: 9}}, // full buffer, flushed by SendUint16
			{kind: 'f'},
		}
	}
	for n := 0; n <= 6; n++ {
		for _, k := range []int{0, 1, 9, 65535, 65536, 1 << 20} {
			for _, sticky := range []bool{true, false} {
				if !run(&faultCase{n: n, k: k, sticky: sticky, ops: script()}) {
					return 0
				}
			}
		}
	}
	rng := hxlib.NewRng(cf.Seed)
	for i := 0; i < cf.N; i++ {
		r := rng.Fork()
		ops := smallOps(r, 2+r.Intn(40), []int{5, 15, 40}[r.Intn(3)])
		fc := &faultCase{
			n:      r.Intn(8),
			k:      []int{0, 0, 1, 3, 4, 5, r.Intn(70000), 65535, 65536, 100000}[r.Intn(10)],
			sticky: r.Intn(2) == 0,
			ops:    ops,
		}
		if r.Intn(10) == 0 {
			fc.n = 1000 // never reached
		}
		if !run(fc) {
			return 0
		}
	}
	return 0
}

// Harness of property C11: the connection layer p2p.Conn is a faithful,
// ordered, typed byte stream.
//
// Modes
//
//	frag  two p2p.Conn ends over a harness transport (io.ReadWriter+Closer per
//	      end) with a seeded read-fragmentation schedule per direction; both
//	      directions run concurrently (4 goroutines + the 2 writer goroutines
//	      of the Conns).  The transport records the exact sequence of Write
//	      chunk lengths and of Read (len(p), n) pairs.  One op line per
//	      direction; everything is compared with the Lean model.
//	pipe  the real p2p.Pipe(): request/response rounds in both directions
//	      concurrently; Flush (not Close) must deliver.  Only
//	      schedule-independent fields are compared with the model.
//
// Oracles on the real code (independent of the model): received values equal
// sent values; bytes written to the transport equal the harness's own
// reference encoding; Stats counters equal bytes moved / Write calls; unread
// rest equals the encoding of the values not yet received; no Write buffer is
// modified while a Write is in progress; no panic, no error, no hang.
package main

import (
	"bytes"
	"encoding/binary"
	"fmt"
	"io"
	"os"
	"reflect"
	"runtime"
	"sort"
	"strconv"
	"strings"
	"sync"
	"sync/atomic"
	"time"
	"unsafe"

	"github.com/markkurossi/mpc/ot"
	"github.com/markkurossi/mpc/p2p"

	"verifharness/hxlib"
)

const (
	W    = 64 * 1024
	RBUF = 1024 * 1024
)

// ---------------------------------------------------------------- values

type val struct {
	kind  byte // b h w d s l z
	n     int  // b,h,w
	data  []byte
	seed  uint64 // payload seed (d,s)
	label ot.Label
	sizes []int
	zseed uint64 // when != 0 the sizes list is patternSizes(zseed, len)
}

type op struct {
	kind byte // 'v' value, 'f' flush, 'n' needSpace
	v    val
	n    int
}

func pattern(seed uint64, n int) []byte {
	b := make([]byte, n)
	x := seed * 0x9E3779B97F4A7C15
	for i := range b {
		b[i] = byte(x >> 56)
		x += 0x9E3779B97F4A7C15
	}
	return b
}

// patternSizes is the compact description of a long size list.
func patternSizes(seed uint64, n int) []int {
	l := make([]int, n)
	for i := range l {
		h := splitmix(seed ^ (uint64(i) * 0x9E3779B97F4A7C15))
		switch h >> 62 {
		case 0:
			l[i] = 0
		case 1:
			l[i] = 1
		case 2:
			l[i] = 4294967295
		default:
			l[i] = int(h & 0xffffffff)
		}
	}
	return l
}

func fnv1a(h uint64, b []byte) uint64 {
	for _, x := range b {
		h = (h ^ uint64(x)) * 0x100000001b3
	}
	return h
}

const fnvInit = 0xcbf29ce484222325

func labelHex(l ot.Label) string {
	var d ot.LabelData
	l.GetData(&d)
	return hxlib.Hex(d[:])
}

func (v *val) token() string {
	switch v.kind {
	case 'b':
		return fmt.Sprintf("b%02x", v.n)
	case 'h':
		return fmt.Sprintf("h%d", v.n)
	case 'w':
		return fmt.Sprintf("w%d", v.n)
	case 'd', 's':
		return fmt.Sprintf("%c%d.%d", v.kind, len(v.data), v.seed)
	case 'l':
		return "l" + labelHex(v.label)
	case 'z':
		if v.zseed != 0 {
			return fmt.Sprintf("Z%d.%d", len(v.sizes), v.zseed)
		}
		parts := make([]string, len(v.sizes))
		for i, s := range v.sizes {
			parts[i] = strconv.Itoa(s)
		}
		return "z" + strings.Join(parts, "/")
	}
	return "?"
}

// show is the canonical rendering of a received value.
func (v *val) show() string {
	switch v.kind {
	case 'd', 's':
		return fmt.Sprintf("%c%d.%016x", v.kind, len(v.data), fnv1a(fnvInit, v.data))
	case 'z':
		if len(v.sizes) > 8 {
			var enc []byte
			for _, s := range v.sizes {
				enc = binary.BigEndian.AppendUint32(enc, uint32(s))
			}
			return fmt.Sprintf("Z%d.%016x", len(v.sizes), fnv1a(fnvInit, enc))
		}
		return v.token()
	default:
		return v.token()
	}
}

func (v *val) equal(o *val) bool {
	if v.kind != o.kind {
		return false
	}
	switch v.kind {
	case 'b', 'h', 'w':
		return v.n == o.n
	case 'd', 's':
		return bytes.Equal(v.data, o.data)
	case 'l':
		return v.label.Equal(o.label)
	case 'z':
		if len(v.sizes) != len(o.sizes) {
			return false
		}
		for i := range v.sizes {
			if v.sizes[i] != o.sizes[i] {
				return false
			}
		}
		return true
	}
	return false
}

// refEncode is the harness's own reference encoder (encoding/binary).
func (v *val) refEncode(out []byte) []byte {
	switch v.kind {
	case 'b':
		return append(out, byte(v.n))
	case 'h':
		return binary.BigEndian.AppendUint16(out, uint16(v.n))
	case 'w':
		return binary.BigEndian.AppendUint32(out, uint32(v.n))
	case 'd', 's':
		out = binary.BigEndian.AppendUint32(out, uint32(len(v.data)))
		return append(out, v.data...)
	case 'l':
		out = binary.BigEndian.AppendUint64(out, v.label.D0)
		return binary.BigEndian.AppendUint64(out, v.label.D1)
	case 'z':
		out = binary.BigEndian.AppendUint32(out, uint32(len(v.sizes)))
		for _, s := range v.sizes {
			out = binary.BigEndian.AppendUint32(out, uint32(s))
		}
		return out
	}
	return out
}

func (o *op) token() string {
	switch o.kind {
	case 'f':
		return "f"
	case 'n':
		return fmt.Sprintf("n%d", o.n)
	}
	return o.v.token()
}

func opsLine(ops []op) string {
	if len(ops) == 0 {
		return "-"
	}
	var sb strings.Builder
	for i := range ops {
		if i > 0 {
			sb.WriteByte(';')
		}
		sb.WriteString(ops[i].token())
	}
	return sb.String()
}

// ---------------------------------------------------------------- fragmentation

type fragSpec struct {
	kind  byte // 'o' one, 'a' all, 'c' cycle, 'p' planned list (last repeated), 'r' random
	cyc   []int
	seed  uint64
	max   uint64
	label string
}

func splitmix(z uint64) uint64 {
	z = (z ^ (z >> 30)) * 0xBF58476D1CE4E5B9
	z = (z ^ (z >> 27)) * 0x94D049BB133111EB
	return z ^ (z >> 31)
}

func (f *fragSpec) size(i uint64) int {
	switch f.kind {
	case 'o':
		return 1
	case 'a':
		return 1 << 40
	case 'c':
		return f.cyc[i%uint64(len(f.cyc))]
	case 'p':
		// a planned schedule: the listed sizes, the last one repeated
		if i >= uint64(len(f.cyc)) {
			return f.cyc[len(f.cyc)-1]
		}
		return f.cyc[i]
	default:
		return 1 + int(splitmix(f.seed^(i*0x9E3779B97F4A7C15))%f.max)
	}
}

func (f *fragSpec) String() string {
	switch f.kind {
	case 'o':
		return "one"
	case 'a':
		return "all"
	case 'c':
		parts := make([]string, len(f.cyc))
		for i, s := range f.cyc {
			parts[i] = strconv.Itoa(s)
		}
		return "c" + strings.Join(parts, ",")
	case 'p':
		parts := make([]string, len(f.cyc))
		for i, s := range f.cyc {
			parts[i] = strconv.Itoa(s)
		}
		return "p" + strings.Join(parts, ",")
	default:
		return fmt.Sprintf("r%d.%d", f.seed, f.max)
	}
}

// ---------------------------------------------------------------- transport

// link is one direction of the harness transport: an unbounded byte queue.
// Writes never block on the reader; a Read asks the fragmentation schedule
// for a size f, waits until min(f, len(p)) bytes are available (or the
// writer closed) and returns that many - so the sequence of read sizes is a
// function of the schedule and the byte stream only.
type link struct {
	mu      sync.Mutex
	cond    *sync.Cond
	data    []byte
	rpos    int
	closed  bool
	writes  []int
	wbufs   []uintptr // identity of the buffer of every Write (address of p[0])
	frag    fragSpec
	nread   uint64
	rlog    uint64
	nbytesR uint64
	slow    int // 0: none, 1: Gosched per write, 2: occasional sleeps
	wcount  int
	mutated bool
	wAfterC bool
}

func newLink(f fragSpec, slow int) *link {
	l := &link{frag: f, rlog: fnvInit, slow: slow}
	l.cond = sync.NewCond(&l.mu)
	return l
}

func (l *link) write(p []byte) (int, error) {
	// the writer must not retain p; but while this call is in progress the
	// Conn must not touch p either (buffer ring ownership).
	cp := append([]byte(nil), p...)
	switch l.slow {
	case 1:
		runtime.Gosched()
	case 2:
		if l.wcount%3 == 0 {
			time.Sleep(20 * time.Microsecond)
		} else {
			runtime.Gosched()
		}
	}
	l.wcount++
	if !bytes.Equal(cp, p) {
		l.mutated = true
	}
	l.mu.Lock()
	if l.closed {
		l.wAfterC = true
	}
	l.data = append(l.data, cp...)
	l.writes = append(l.writes, len(p))
	progress.Add(uint64(len(p)) + 1)
	if len(p) > 0 {
		l.wbufs = append(l.wbufs, uintptr(unsafe.Pointer(&p[0])))
	}
	l.cond.Broadcast()
	l.mu.Unlock()
	return len(p), nil
}

func (l *link) read(p []byte) (int, error) {
	l.mu.Lock()
	defer l.mu.Unlock()
	if len(p) == 0 {
		return 0, nil
	}
	want := l.frag.size(l.nread)
	if want < 1 {
		want = 1
	}
	if want > len(p) {
		want = len(p)
	}
	for len(l.data)-l.rpos < want && !l.closed {
		l.cond.Wait()
	}
	avail := len(l.data) - l.rpos
	if avail == 0 {
		return 0, io.EOF
	}
	n := want
	if n > avail {
		n = avail
	}
	copy(p, l.data[l.rpos:l.rpos+n])
	l.rpos += n
	l.nread++
	l.nbytesR += uint64(n)
	progress.Add(uint64(n))
	// same mixing as Mpc.Conn.mix64
	h := (l.rlog ^ uint64(len(p))) * 0x100000001b3
	l.rlog = (h ^ uint64(n)) * 0x100000001b3
	return n, nil
}

func (l *link) close() {
	l.mu.Lock()
	l.closed = true
	l.cond.Broadcast()
	l.mu.Unlock()
}

type endpoint struct {
	in, out *link
	closes  int
}

func (e *endpoint) Read(p []byte) (int, error)  { return e.in.read(p) }
func (e *endpoint) Write(p []byte) (int, error) { return e.out.write(p) }
func (e *endpoint) Close() error {
	e.closes++
	e.out.close()
	return nil
}

// ---------------------------------------------------------------- running ops on the real Conn

func sendOp(c *p2p.Conn, o *op) error {
	defer progress.Add(1)
	switch o.kind {
	case 'f':
		return c.Flush()
	case 'n':
		return c.NeedSpace(o.n)
	}
	v := &o.v
	switch v.kind {
	case 'b':
		return c.SendByte(byte(v.n))
	case 'h':
		return c.SendUint16(v.n)
	case 'w':
		return c.SendUint32(v.n)
	case 'd':
		return c.SendData(v.data)
	case 's':
		return c.SendString(string(v.data))
	case 'l':
		var ld ot.LabelData
		return c.SendLabel(v.label, &ld)
	case 'z':
		return c.SendInputSizes(v.sizes)
	}
	return fmt.Errorf("bad op")
}

func recvKind(c *p2p.Conn, k byte) (val, error) {
	defer progress.Add(1)
	v := val{kind: k}
	var err error
	switch k {
	case 'b':
		var b byte
		b, err = c.ReceiveByte()
		v.n = int(b)
	case 'h':
		v.n, err = c.ReceiveUint16()
	case 'w':
		v.n, err = c.ReceiveUint32()
	case 'd':
		v.data, err = c.ReceiveData()
	case 's':
		var s string
		s, err = c.ReceiveString()
		v.data = []byte(s)
	case 'l':
		var ld ot.LabelData
		err = c.ReceiveLabel(&v.label, &ld)
	case 'z':
		v.sizes, err = c.ReceiveInputSizes()
	default:
		err = fmt.Errorf("bad kind")
	}
	return v, err
}

func errName(err error) string {
	if err == nil {
		return "-"
	}
	if err == io.EOF {
		return "eof"
	}
	return "other:" + strings.ReplaceAll(err.Error(), " ", "_")
}

func rle(l []int) string {
	if len(l) == 0 {
		return "-"
	}
	var sb strings.Builder
	cur, cnt := l[0], 1
	first := true
	emit := func() {
		if !first {
			sb.WriteByte(',')
		}
		first = false
		fmt.Fprintf(&sb, "%d*%d", cur, cnt)
	}
	for _, x := range l[1:] {
		if x == cur {
			cnt++
		} else {
			emit()
			cur, cnt = x, 1
		}
	}
	emit()
	return sb.String()
}

func showVals(vs []val) string {
	if len(vs) == 0 {
		return "-"
	}
	parts := make([]string, len(vs))
	for i := range vs {
		parts[i] = vs[i].show()
	}
	return strings.Join(parts, ",")
}

// direction is one half of a duplex case.
type direction struct {
	name   string
	ops    []op
	kinds  []byte
	plan   string // all, prefix, extra, reinterpret, lie, eofmid
	expect []val  // eofmid: the values that must be received before the error
	frag   fragSpec
	slow   int
	sender *p2p.Conn
	recver *p2p.Conn
	lnk    *link

	// results
	pre         [3]uint64
	sendErr     error
	closeErr    error
	sendPanic   any
	recvPanic   any
	got         []val
	recvErr     error
	sentAfter   uint64
	flushAfter  uint64
	recvdAfter  uint64
	leftWin     []byte
	leftPending []byte
}

func (d *direction) vals() []*val {
	var vs []*val
	for i := range d.ops {
		if d.ops[i].kind == 'v' {
			vs = append(vs, &d.ops[i].v)
		}
	}
	return vs
}

func (d *direction) runSender(wg *sync.WaitGroup) {
	defer wg.Done()
	defer func() {
		if e := recover(); e != nil {
			d.sendPanic = e
			// make sure the peer does not wait for ever
			d.lnk.close()
		}
	}()
	for i := range d.ops {
		if err := sendOp(d.sender, &d.ops[i]); err != nil {
			d.sendErr = fmt.Errorf("op %d (%s): %v", i, clip(d.ops[i].token()), err)
			break
		}
	}
	d.pre = [3]uint64{d.sender.Stats.Sent.Load(), d.sender.Stats.Flushed.Load(), uint64(d.sender.WritePos)}
	d.closeErr = d.sender.Close()
	d.sentAfter = d.sender.Stats.Sent.Load()
	d.flushAfter = d.sender.Stats.Flushed.Load()
	// (Close of the Conn closes the transport's write side; do it here too so
	// that a Close which forgot it cannot block the peer for ever)
	d.lnk.close()
}

func (d *direction) runRecver(wg *sync.WaitGroup) {
	defer wg.Done()
	defer func() {
		if e := recover(); e != nil {
			d.recvPanic = e
		}
	}()
	for _, k := range d.kinds {
		v, err := recvKind(d.recver, k)
		if err != nil {
			d.recvErr = err
			return
		}
		d.got = append(d.got, v)
	}
}

func clip(s string) string {
	if len(s) > 300 {
		return s[:300] + "..."
	}
	return s
}

// finish computes the canonical result line of one direction and runs the
// implementation-side oracles.
func (d *direction) finish(o *hxlib.Out, idx int, mode string) (string, string) {
	opl := fmt.Sprintf("c11 %s %s %s %s", mode, d.frag.String(), kindsStr(d.kinds), opsLine(d.ops))
	detail := func(extra map[string]any) map[string]any {
		m := map[string]any{"case": idx, "dir": d.name, "plan": d.plan, "op": clip(opl), "mode": mode, "rerun": rerun(idx)}
		for k, v := range extra {
			m[k] = v
		}
		return m
	}
	if d.sendPanic != nil {
		o.Fail("c11-send-panic", detail(map[string]any{"panic": fmt.Sprint(d.sendPanic)}))
		return opl, "panic-send"
	}
	if d.recvPanic != nil {
		o.Fail("c11-recv-panic", detail(map[string]any{"panic": fmt.Sprint(d.recvPanic)}))
		return opl, "panic-recv"
	}
	if d.sendErr != nil {
		o.Fail("c11-send-error", detail(map[string]any{"err": d.sendErr.Error()}))
	}
	if d.closeErr != nil {
		o.Fail("c11-close-error", detail(map[string]any{"err": d.closeErr.Error()}))
	}
	vs := d.vals()
	var ref []byte
	for _, v := range vs {
		ref = v.refEncode(ref)
	}
	d.recvdAfter = d.recver.Stats.Recvd.Load()

	var res strings.Builder
	if mode == "frag" {
		l := d.lnk
		d.leftWin = d.recver.ReadBuf[d.recver.ReadStart:d.recver.ReadEnd]
		d.leftPending = l.data[l.rpos:]
		// buffer identities, numbered by first appearance (the ring model
		// numbers the buffers in the order the sender first uses them)
		ids := make([]byte, len(l.wbufs))
		seen := map[uintptr]byte{}
		for i, pb := range l.wbufs {
			id, ok := seen[pb]
			if !ok {
				id = byte(len(seen))
				seen[pb] = id
			}
			ids[i] = id
		}
		o.Count(fmt.Sprintf("ring_distinct_buffers_%d", len(seen)))
		rg := "-" // the driver runs the ring model only for streams up to 1 MiB
		if len(ref) <= 1048576 {
			rg = fmt.Sprintf("%d,%016x", len(ids), fnv1a(fnvInit, ids))
		}
		fmt.Fprintf(&res, "w=%s;wh=%016x;rg=%s;", rle(l.writes), fnv1a(fnvInit, l.data), rg)
		// oracle: wire bytes = reference encoding; counters = bytes moved
		if !bytes.Equal(l.data, ref) {
			o.Fail("c11-wire-mismatch", detail(map[string]any{"wire_len": len(l.data), "want_len": len(ref),
				"first_diff": firstDiff(l.data, ref)}))
		}
		if d.sentAfter != uint64(len(l.data)) {
			o.Fail("c11-sent-counter", detail(map[string]any{"sent": d.sentAfter, "written": len(l.data)}))
		}
		if d.flushAfter != uint64(len(l.writes)) {
			o.Fail("c11-flushed-counter", detail(map[string]any{"flushed": d.flushAfter, "writes": len(l.writes)}))
		}
		if d.recvdAfter != l.nbytesR {
			o.Fail("c11-recvd-counter", detail(map[string]any{"recvd": d.recvdAfter, "read": l.nbytesR}))
		}
		if l.mutated {
			o.Fail("c11-write-buffer-mutated", detail(nil))
		}
		if l.wAfterC {
			o.Fail("c11-write-after-close", detail(nil))
		}
		if d.pre[0]+d.pre[2] != uint64(len(ref)) {
			o.Fail("c11-sent-plus-buffered", detail(map[string]any{"sent": d.pre[0], "writepos": d.pre[2], "want": len(ref)}))
		}
		for _, wlen := range l.writes {
			switch {
			case wlen == W:
				o.Count("chunk_full")
			case wlen > W-17 && wlen < W:
				o.Count("chunk_near_full")
			}
			if wlen == 0 {
				o.Fail("c11-empty-write", detail(nil))
			}
		}
	}
	fmt.Fprintf(&res, "pre=%d,%d,%d;sent=%d;fl=%d;tot=%d;rv=%s;err=%s", d.pre[0], d.pre[1], d.pre[2],
		d.sentAfter, d.flushAfter, len(ref), showVals(d.got), errName(d.recvErr))

	// oracle: received = sent (plans whose receive kinds match the sends)
	switch d.plan {
	case "eofmid":
		if d.recvErr != io.EOF || len(d.got) != len(d.expect) {
			o.Fail("c11-eof-mid-value", detail(map[string]any{"err": errName(d.recvErr), "received": len(d.got),
				"expected": len(d.expect), "what": "a stream that ends inside a value must give the complete values, then io.EOF"}))
		}
		for i := 0; i < len(d.got) && i < len(d.expect); i++ {
			if !d.got[i].equal(&d.expect[i]) {
				o.Fail("c11-value-mismatch", detail(map[string]any{"index": i, "sent": clip(d.expect[i].show()), "got": clip(d.got[i].show())}))
				break
			}
		}
	case "all", "prefix", "extra":
		n := len(d.kinds)
		if n > len(vs) {
			n = len(vs)
		}
		for i := 0; i < n && i < len(d.got); i++ {
			if !d.got[i].equal(vs[i]) {
				o.Fail("c11-value-mismatch", detail(map[string]any{"index": i, "sent": clip(vs[i].show()), "got": clip(d.got[i].show())}))
				break
			}
		}
		if d.plan == "extra" {
			if d.recvErr != io.EOF || len(d.got) != len(vs) {
				o.Fail("c11-no-eof", detail(map[string]any{"err": errName(d.recvErr), "received": len(d.got)}))
			}
		} else if d.recvErr != nil || len(d.got) < n {
			o.Fail("c11-recv-error", detail(map[string]any{"err": errName(d.recvErr), "received": len(d.got), "expected": n}))
		}
		if mode == "frag" && d.recvErr == nil && len(d.got) == n {
			var rest []byte
			for _, v := range vs[n:] {
				rest = v.refEncode(rest)
			}
			left := append(append([]byte(nil), d.leftWin...), d.leftPending...)
			if !bytes.Equal(left, rest) {
				o.Fail("c11-rest-mismatch", detail(map[string]any{"left_len": len(left), "want_len": len(rest)}))
			}
		}
	}
	if d.recvErr == nil {
		if mode == "frag" {
			l := d.lnk
			fmt.Fprintf(&res, ";rd=%d,%016x;rc=%d;left=%d,%d,%016x", l.nread, l.rlog, d.recvdAfter,
				len(d.leftWin), len(d.leftPending), fnv1a(fnv1a(fnvInit, d.leftWin), d.leftPending))
		} else {
			fmt.Fprintf(&res, ";rc=%d", d.recvdAfter)
		}
	}
	o.Count("plan_" + d.plan)
	o.Count("frag_" + string(d.frag.kind))
	o.Count("recv_err_" + errName(d.recvErr))
	for _, v := range vs {
		if v.kind == 'd' || v.kind == 's' {
			o.Count("payload_" + sizeClass(len(v.data)))
		} else {
			o.Count("val_" + string(v.kind))
		}
	}
	return opl, res.String()
}

func sizeClass(n int) string {
	switch {
	case n == 0:
		return "0"
	case n == 1:
		return "1"
	case n >= 15 && n <= 17:
		return "15..17"
	case n < 65531:
		return "lt64Ki"
	case n <= 65537:
		return "64Ki±"
	case n < 1048571:
		return "lt1Mi"
	case n <= 1048577:
		return "1Mi±"
	case n < 3145728:
		return "lt3Mi"
	default:
		return "ge3Mi"
	}
}

func firstDiff(a, b []byte) int {
	n := len(a)
	if len(b) < n {
		n = len(b)
	}
	for i := 0; i < n; i++ {
		if a[i] != b[i] {
			return i
		}
	}
	return n
}

func kindsStr(k []byte) string {
	if len(k) == 0 {
		return "-"
	}
	return string(k)
}

// ---------------------------------------------------------------- generators

type gen struct {
	r      *hxlib.Rng
	pos    int // shadow WritePos (only used to aim at buffer boundaries)
	budget int // remaining payload bytes
	big    bool
}

func (g *gen) adv(k int) {
	if g.pos+k > W {
		g.pos = 0
	}
	g.pos += k
}

func (g *gen) advData(n int) {
	g.adv(4)
	for n > 0 {
		if g.pos >= W {
			g.pos = 0
		}
		k := W - g.pos
		if k > n {
			k = n
		}
		g.pos += k
		n -= k
	}
}

var smallDeltas = []int{0, 1, 2, 3, 4, 5, 15, 16, 17}

func (g *gen) payloadLen() int {
	r := g.r
	var n int
	switch c := r.Intn(20); {
	case c < 2:
		n = 0
	case c < 3:
		n = 1
	case c < 5:
		n = 15 + r.Intn(3)
	case c < 8:
		n = 2 + r.Intn(60)
	case c < 10:
		n = r.Intn(5000)
	case c < 12:
		// land the write position on / next to the end of the write buffer
		room := W - g.pos - 4
		if g.pos+4 > W {
			room = W - 4
		}
		n = room - smallDeltas[r.Intn(len(smallDeltas))]
		if r.Intn(3) == 0 {
			n = room + smallDeltas[r.Intn(len(smallDeltas))]
		}
		if n < 0 {
			n = 0
		}
	case c < 14:
		n = 65531 + r.Intn(7) // 65531..65537
	case c < 15:
		n = []int{131067, 131068, 131071, 131072, 131073}[r.Intn(5)]
	case c < 16:
		n = r.Intn(300000)
	default:
		if g.big {
			n = []int{1048571, 1048572, 1048573, 1048575, 1048576, 1048577, 1048580, 2097151, 2097152,
				2097153, 3145728, 1048576 + r.Intn(70000)}[r.Intn(12)]
		} else {
			n = 60000 + r.Intn(12000)
		}
	}
	if n > g.budget {
		n = r.Intn(64)
	}
	g.budget -= n
	return n
}

func (g *gen) value() val {
	r := g.r
	var v val
	switch c := r.Intn(16); {
	case c < 3:
		v = val{kind: 'b', n: []int{0, 255, r.Intn(256)}[r.Intn(3)]}
		g.adv(1)
	case c < 5:
		v = val{kind: 'h', n: []int{0, 65535, 256, r.Intn(65536)}[r.Intn(4)]}
		g.adv(2)
	case c < 7:
		v = val{kind: 'w', n: []int{0, 4294967295, 65536, 1 << 31, int(r.U64() & 0xffffffff)}[r.Intn(5)]}
		g.adv(4)
	case c < 11:
		n := g.payloadLen()
		seed := r.U64() & 0xffffffff
		v = val{kind: 'd', seed: seed, data: pattern(seed, n)}
		g.advData(n)
	case c < 12:
		n := g.payloadLen()
		seed := r.U64() & 0xffffffff
		v = val{kind: 's', seed: seed, data: pattern(seed, n)}
		g.advData(n)
	case c < 14:
		v = val{kind: 'l', label: ot.Label{D0: r.U64(), D1: r.U64()}}
		if r.Intn(6) == 0 {
			v.label = ot.Label{}
		}
		g.adv(16)
	default:
		var n int
		switch c2 := r.Intn(12); {
		case c2 < 2:
			n = 0
		case c2 < 4:
			n = 1
		case c2 < 10:
			n = 2 + r.Intn(20)
		case c2 < 11:
			n = []int{16382, 16383, 16384, 16385}[r.Intn(4)]
		default:
			// fill the write buffer to its end with 4-byte sends
			n = (W-g.pos)/4 + r.Intn(3) - 1
			if n < 0 {
				n = 0
			}
		}
		if 4*n > g.budget {
			n = r.Intn(4)
		}
		g.budget -= 4 * n
		v = val{kind: 'z', sizes: make([]int, n)}
		if n > 24 {
			v.zseed = 1 + r.U64()&0xffffffff
			v.sizes = patternSizes(v.zseed, n)
		} else {
			for i := range v.sizes {
				v.sizes[i] = []int{0, 1, 4294967295, int(r.U64() & 0xffffffff)}[r.Intn(4)]
			}
		}
		g.adv(4)
		for i := 0; i < n; i++ {
			g.adv(4)
		}
	}
	return v
}

func (g *gen) ops(n int, flushRate int) []op {
	var ops []op
	for i := 0; i < n; i++ {
		switch c := g.r.Intn(100); {
		case c < flushRate:
			ops = append(ops, op{kind: 'f'})
			g.pos = 0
		case c < flushRate+6:
			cnt := []int{0, 1, 4, 16, W - g.pos, W - g.pos + 1, W, W + 1, 70000, g.r.Intn(W)}[g.r.Intn(10)]
			if cnt < 0 {
				cnt = 0
			}
			ops = append(ops, op{kind: 'n', n: cnt})
			if g.pos+cnt > W {
				g.pos = 0
			}
		default:
			ops = append(ops, op{kind: 'v', v: g.value()})
		}
	}
	return ops
}

var fragSizes = []int{1, 1, 2, 3, 4, 5, 7, 15, 16, 17, 255, 4095, 4096, 65535, 65536, 65537, 1048575, 1048576, 1048577}

func genFrag(r *hxlib.Rng, total int) fragSpec {
	switch c := r.Intn(10); {
	case c < 2:
		if total <= 400000 || r.Intn(8) == 0 {
			return fragSpec{kind: 'o'}
		}
		return fragSpec{kind: 'c', cyc: []int{1, 2, 1048576}}
	case c < 4:
		return fragSpec{kind: 'a'}
	case c < 7:
		n := 1 + r.Intn(4)
		cyc := make([]int, n)
		small := total > 1000000
		for i := range cyc {
			cyc[i] = fragSizes[r.Intn(len(fragSizes))]
		}
		if small {
			// keep the number of reads bounded on multi-megabyte streams
			cyc[0] = fragSizes[10+r.Intn(len(fragSizes)-10)]
		}
		return fragSpec{kind: 'c', cyc: cyc}
	default:
		mx := []uint64{2, 16, 1000, 70000, 2000000}[r.Intn(5)]
		if total > 1000000 && mx < 1000 {
			mx = 1000
		}
		return fragSpec{kind: 'r', seed: r.U64() & 0xffffffff, max: mx}
	}
}

func totalLen(ops []op) int {
	n := 0
	for i := range ops {
		if ops[i].kind == 'v' {
			v := &ops[i].v
			switch v.kind {
			case 'b':
				n++
			case 'h':
				n += 2
			case 'w':
				n += 4
			case 'l':
				n += 16
			case 'd', 's':
				n += 4 + len(v.data)
			case 'z':
				n += 4 + 4*len(v.sizes)
			}
		}
	}
	return n
}

// genDirection builds one direction of a case.
func genDirection(r *hxlib.Rng, name string, tier string, big bool) *direction {
	g := &gen{r: r, budget: 600000, big: big}
	if big {
		g.budget = 7 << 20
	}
	d := &direction{name: name}
	var n int
	switch c := r.Intn(10); {
	case c < 1:
		n = r.Intn(3)
	case c < 7:
		n = 1 + r.Intn(30)
	case c < 9:
		n = 30 + r.Intn(120)
	default:
		n = 200 + r.Intn(1500)
	}
	flushRate := []int{0, 3, 10, 30, 60}[r.Intn(5)]
	plan := r.Intn(100)
	switch {
	case plan < 6:
		// "lie": a length prefix that promises more than the stream holds
		d.plan = "lie"
		cnt := []int{1, 5, 70000, 1048577, 2097153}[r.Intn(5)]
		have := r.Intn(cnt)
		if r.Intn(2) == 0 {
			have = cnt - 1 - r.Intn(hxlib.MinInt(cnt, 4))
			if have < 0 {
				have = 0
			}
		}
		pre := g.ops(r.Intn(4), flushRate)
		d.ops = append(d.ops, pre...)
		for i := range pre {
			if pre[i].kind == 'v' {
				d.kinds = append(d.kinds, pre[i].v.kind)
			}
		}
		if r.Intn(3) == 0 && cnt <= 70000 {
			// sizes list with fewer entries than announced
			d.ops = append(d.ops, op{kind: 'v', v: val{kind: 'w', n: cnt}})
			m := have / 4
			for i := 0; i < m && i < 3000; i++ {
				d.ops = append(d.ops, op{kind: 'v', v: val{kind: 'w', n: i}})
			}
			d.kinds = append(d.kinds, 'z')
		} else {
			d.ops = append(d.ops, op{kind: 'v', v: val{kind: 'w', n: cnt}})
			// `have` raw bytes: a data value of have-4 bytes occupies 4+(have-4)
			if have >= 4 {
				seed := r.U64() & 0xffffffff
				d.ops = append(d.ops, op{kind: 'v', v: val{kind: 'd', seed: seed, data: pattern(seed, have-4)}})
			} else {
				for i := 0; i < have; i++ {
					d.ops = append(d.ops, op{kind: 'v', v: val{kind: 'b', n: r.Intn(256)}})
				}
			}
			d.kinds = append(d.kinds, []byte{'d', 's'}[r.Intn(2)])
		}
		d.kinds = append(d.kinds, 'b')
	default:
		d.ops = g.ops(n, flushRate)
		vs := d.vals()
		switch {
		case plan < 70:
			d.plan = "all"
			for _, v := range vs {
				d.kinds = append(d.kinds, v.kind)
			}
		case plan < 84:
			d.plan = "prefix"
			k := 0
			if len(vs) > 0 {
				k = r.Intn(len(vs))
			}
			for _, v := range vs[:k] {
				d.kinds = append(d.kinds, v.kind)
			}
		case plan < 92:
			d.plan = "extra"
			for _, v := range vs {
				d.kinds = append(d.kinds, v.kind)
			}
			for i := 0; i <= r.Intn(3); i++ {
				d.kinds = append(d.kinds, "bhwdslz"[r.Intn(7)])
			}
		default:
			// fixed-width receives over whatever bytes were sent
			d.plan = "reinterpret"
			total := totalLen(d.ops)
			cnt := r.Intn(60)
			if total < 200000 && r.Intn(2) == 0 {
				cnt = total/4 + r.Intn(8)
			}
			for i := 0; i < cnt; i++ {
				d.kinds = append(d.kinds, "bhwl"[r.Intn(4)])
			}
		}
	}
	d.frag = genFrag(r, totalLen(d.ops))
	d.slow = []int{0, 0, 1, 2}[r.Intn(4)]
	return d
}

// ---------------------------------------------------------------- modes

// progress counts bytes moved through the harness transports and completed
// typed operations; the watchdog declares a hang only when it has not
// changed for stallLimit (a loaded machine makes cases slow, not stalled).
var progress atomic.Uint64

const stallLimit = 45 * time.Second

func runWithWatchdog(o *hxlib.Out, idx int, what string, f func()) bool {
	done := make(chan struct{})
	go func() {
		f()
		close(done)
	}()
	last := progress.Load()
	lastChange := time.Now()
	tick := time.NewTicker(500 * time.Millisecond)
	defer tick.Stop()
	for {
		select {
		case <-done:
			return true
		case <-tick.C:
			if cur := progress.Load(); cur != last {
				last, lastChange = cur, time.Now()
			} else if time.Since(lastChange) > stallLimit {
				o.Fail("c11-hang", map[string]any{"case": idx, "what": what, "rerun": rerun(idx),
					"no_progress_for_s": int(time.Since(lastChange).Seconds())})
				return false
			}
		}
	}
}

func fragCase(o *hxlib.Out, r *hxlib.Rng, idx int, tier string, big bool) bool {
	ab := genDirection(r.Fork(), "A->B", tier, big)
	ba := genDirection(r.Fork(), "B->A", tier, big && r.Intn(2) == 0)
	return runFrag(o, idx, ab, ba)
}

// runFrag runs one duplex session over the harness transport: A sends ab.ops
// to B while B sends ba.ops to A.
func runFrag(o *hxlib.Out, idx int, ab, ba *direction) bool {
	ab.lnk = newLink(ab.frag, ab.slow)
	ba.lnk = newLink(ba.frag, ba.slow)
	epA := &endpoint{in: ba.lnk, out: ab.lnk}
	epB := &endpoint{in: ab.lnk, out: ba.lnk}
	a := p2p.NewConn(epA)
	b := p2p.NewConn(epB)
	ab.sender, ab.recver = a, b
	ba.sender, ba.recver = b, a
	ok := runWithWatchdog(o, idx, "frag "+ab.frag.String()+" / "+ba.frag.String(), func() {
		var wg sync.WaitGroup
		wg.Add(4)
		go ab.runSender(&wg)
		go ba.runSender(&wg)
		go ab.runRecver(&wg)
		go ba.runRecver(&wg)
		wg.Wait()
	})
	if !ok {
		// the hang report carries the two op lines of the session
		if n := len(o.OracleFails); n > 0 && o.OracleFails[n-1]["sig"] == "c11-hang" && o.OracleFails[n-1]["op"] == nil {
			o.OracleFails[n-1]["op"] = clip(fmt.Sprintf("c11 frag %s %s %s", ab.frag.String(), kindsStr(ab.kinds), opsLine(ab.ops)))
			o.OracleFails[n-1]["op_reverse"] = clip(fmt.Sprintf("c11 frag %s %s %s", ba.frag.String(), kindsStr(ba.kinds), opsLine(ba.ops)))
		}
		o.Op(fmt.Sprintf("c11 frag %s %s %s", ab.frag.String(), kindsStr(ab.kinds), opsLine(ab.ops)), "hang")
		o.Op(fmt.Sprintf("c11 frag %s %s %s", ba.frag.String(), kindsStr(ba.kinds), opsLine(ba.ops)), "hang")
		return false
	}
	for _, d := range []*direction{ab, ba} {
		opl, res := d.finish(o, idx, "frag")
		o.Op(opl, res)
	}
	// IOStats arithmetic (Add, Sum, Clear) on the final counters
	sa, sb := a.Stats, b.Stats
	sum := sa.Add(sb)
	if sum.Sent.Load() != sa.Sent.Load()+sb.Sent.Load() || sum.Recvd.Load() != sa.Recvd.Load()+sb.Recvd.Load() ||
		sum.Flushed.Load() != sa.Flushed.Load()+sb.Flushed.Load() || sa.Sum() != sa.Sent.Load()+sa.Recvd.Load() ||
		sum.Sum() != sa.Sum()+sb.Sum() {
		o.Fail("c11-stats-arith", map[string]any{"case": idx, "rerun": rerun(idx)})
	}
	if idx%16 == 0 {
		sent := sa.Sent.Load()
		sa.Clear()
		if sa.Sum() != 0 || a.Stats.Flushed.Load() != 0 || sum.Sent.Load() != sent+sb.Sent.Load() {
			o.Fail("c11-stats-clear", map[string]any{"case": idx, "rerun": rerun(idx)})
		}
	}
	if epA.closes != 1 || epB.closes != 1 {
		o.Fail("c11-transport-close-count", map[string]any{"case": idx, "a": epA.closes, "b": epB.closes,
			"rerun": rerun(idx)})
	}
	return true
}

// sampleValue returns a fixed value of the given kind (systematic mode).
func sampleValue(k byte, i int) val {
	switch k {
	case 'b':
		return val{kind: 'b', n: 0xa5}
	case 'h':
		return val{kind: 'h', n: 0xbeef}
	case 'w':
		return val{kind: 'w', n: 0xdeadbeef}
	case 'd', 's':
		seed := uint64(1000 + i)
		return val{kind: k, seed: seed, data: pattern(seed, 5)}
	case 'l':
		return val{kind: 'l', label: ot.Label{D0: 0x0102030405060708, D1: 0x090a0b0c0d0e0f10}}
	default:
		return val{kind: 'z', sizes: []int{1, 2, 4294967295}}
	}
}

// sysCases enumerates the buffer-boundary scenarios: a filler payload that
// leaves the write position (64 KiB buffer) or the read window (1 MiB
// buffer) delta bytes before its end, followed by one value of every kind,
// so that every typed send/receive is exercised with the value ending
// before, exactly at, and across the boundary.
func sysCases(o *hxlib.Out, tier string, only int) (int, bool) {
	idx := 0
	deltas := []int{0, 1, 2, 3, 4, 5, 8, 15, 16, 17, 20}
	bounds := []int{W, RBUF}
	if tier == "thorough" {
		deltas = []int{0, 1, 2, 3, 4, 5, 6, 7, 8, 9, 12, 13, 14, 15, 16, 17, 18, 19, 20, 21}
		bounds = []int{W, 2 * W, RBUF, RBUF + W, 2 * RBUF}
	}
	frags := []fragSpec{{kind: 'a'}, {kind: 'c', cyc: []int{3, 65536}}, {kind: 'c', cyc: []int{1048576, 1, 1, 2}}}
	for _, bound := range bounds {
		for _, delta := range deltas {
			for ki, k := range []byte("bhwdslz") {
				if only >= 0 && idx != only {
					idx++
					continue
				}
				fill := bound - 4 - delta
				seed := uint64(bound + delta)
				ab := &direction{name: "A->B", plan: "all", frag: frags[(idx)%len(frags)], slow: idx % 3}
				ab.ops = []op{
					{kind: 'v', v: val{kind: 'd', seed: seed, data: pattern(seed, fill)}},
					{kind: 'v', v: sampleValue(k, idx)},
					{kind: 'v', v: sampleValue("bhwdslz"[(ki+3)%7], idx+1)},
					{kind: 'v', v: val{kind: 'b', n: 0x5a}},
				}
				// the reverse direction: the same without the filler being one
				// value: two payloads whose sum lands on the boundary, flush between
				half := fill / 2
				ba := &direction{name: "B->A", plan: "all", frag: frags[(idx+1)%len(frags)], slow: (idx + 1) % 3}
				ba.ops = []op{
					{kind: 'v', v: val{kind: 's', seed: seed + 1, data: pattern(seed+1, half-4)}},
					{kind: 'n', n: delta},
					{kind: 'v', v: val{kind: 'd', seed: seed + 2, data: pattern(seed+2, fill-half)}},
					{kind: 'v', v: sampleValue(k, idx)},
					{kind: 'f'},
					{kind: 'v', v: sampleValue("bhwdslz"[(ki+5)%7], idx+2)},
				}
				for _, d := range []*direction{ab, ba} {
					for _, v := range d.vals() {
						d.kinds = append(d.kinds, v.kind)
					}
				}
				if !runFrag(o, idx, ab, ba) {
					return idx, false
				}
				o.Count("cases_sys")
				idx++
			}
		}
	}
	return idx, true
}

// eofCases: the stream ends in the middle of a value.  For every kind of
// value and every interesting cut of its encoding (inside a fixed-width value,
// inside the length prefix, right after it, inside the body, one byte before
// the end, across the 64 KiB / 1 MiB buffers) the sender sends some complete
// values, then only the cut encoding, and closes.  The receiver must return
// the complete values, then io.EOF for the cut one - never a partial value.
func eofCases(o *hxlib.Out, tier string, only int, idx int) bool {
	type target struct {
		v    val
		cuts []int
	}
	rng := func(n int) []int {
		l := make([]int, n)
		for i := range l {
			l[i] = i
		}
		return l
	}
	mkd := func(k byte, n int, seed uint64) val { return val{kind: k, seed: seed, data: pattern(seed, n)} }
	targets := []target{
		{val{kind: 'b', n: 0x7f}, []int{0}},
		{val{kind: 'h', n: 0xbeef}, rng(2)},
		{val{kind: 'w', n: 0xdeadbeef}, rng(4)},
		{val{kind: 'l', label: ot.Label{D0: 0x0102030405060708, D1: 0x090a0b0c0d0e0f10}}, rng(16)},
		{mkd('d', 5, 77), rng(9)},
		{mkd('s', 5, 78), rng(9)},
		{mkd('d', 1, 79), rng(5)},
		{mkd('d', 70000, 80), []int{3, 4, 5, 65535, 65536, 65537, 70003}},
		{mkd('s', 70000, 81), []int{4, 65540, 70003}},
		{mkd('d', 1048577+70000, 82), []int{4, 1048575, 1048576, 1048577, 1048580, 1048581, 1118580}},
		{val{kind: 'z', sizes: []int{1, 2, 3}}, rng(16)},
		{val{kind: 'z', sizes: patternSizes(5, 1000), zseed: 5}, []int{3, 4, 7, 2006, 4003}},
	}
	if tier == "thorough" {
		targets = append(targets,
			target{mkd('d', 3*1048576, 83), []int{4, 1048579, 1048580, 2097156, 3145731}},
			target{val{kind: 'z', sizes: patternSizes(6, 20000), zseed: 6}, []int{4, 65535, 65536, 65540, 80003}})
	}
	frags := []fragSpec{{kind: 'a'}, {kind: 'o'}, {kind: 'c', cyc: []int{3, 65536}}, {kind: 'c', cyc: []int{1048576, 1, 1, 2}},
		{kind: 'r', seed: 11, max: 70000}}
	for ti, t := range targets {
		enc := t.v.refEncode(nil)
		for ci, cut := range t.cuts {
			if only >= 0 && idx != only {
				idx++
				continue
			}
			ab := &direction{name: "A->B", plan: "eofmid", frag: frags[(ti+ci)%len(frags)], slow: idx % 3}
			if ab.frag.kind == 'o' && cut > 400000 {
				ab.frag = frags[2]
			}
			// complete values first (kinds rotate), with a flush somewhere
			npre := (ti + ci) % 4
			for j := 0; j < npre; j++ {
				ab.ops = append(ab.ops, op{kind: 'v', v: sampleValue("bhwdslz"[(ti+ci+j)%7], idx+j)})
				if j == 1 {
					ab.ops = append(ab.ops, op{kind: 'f'})
				}
			}
			for _, v := range ab.vals() {
				ab.kinds = append(ab.kinds, v.kind)
				ab.expect = append(ab.expect, *v)
			}
			// the cut encoding
			switch {
			case cut <= 64:
				for _, b := range enc[:cut] {
					ab.ops = append(ab.ops, op{kind: 'v', v: val{kind: 'b', n: int(b)}})
				}
			default:
				// length prefix, then cut-4 body bytes (a data value of cut-8
				// bytes occupies 4+(cut-8) bytes)
				ab.ops = append(ab.ops, op{kind: 'v', v: val{kind: 'w', n: int(binary.BigEndian.Uint32(enc[:4]))}})
				ab.ops = append(ab.ops, op{kind: 'v', v: mkd('d', cut-8, uint64(1000+idx))})
			}
			ab.kinds = append(ab.kinds, t.v.kind, 'b', 'w')
			ba := &direction{name: "B->A", plan: "all", frag: frags[(ti+ci+1)%len(frags)]}
			if !runFrag(o, idx, ab, ba) {
				return false
			}
			o.Count("cases_eof")
			o.Count("eof_mid_" + string(t.v.kind))
			idx++
		}
	}
	return true
}

// readEndBase is the case index of the first read-buffer-end case (fixed, so
// that `-only` does not depend on the number of cases before it).
const readEndBase = 100000

// readEndCases: ONE transport read stops d = 1..20 bytes before the end of
// the read buffer and the next value straddles that point.  rbuf is
// len(ReadBuf) of a live Conn of the tree under test.  Stream: [a filler data
// value of exactly rbuf bytes - only in the "second buffer" variant] m single
// bytes (misalignment 0..3), one data value that is served from the read
// window and leaves r bytes of the following value v in it, v (every kind:
// byte, uint16, uint32, label, and the 4-byte length header of data / string /
// size list), a value of another kind, a byte.  Transport schedule: the read
// that was offered the whole free buffer returns free-d bytes; the following
// reads return 1 byte each / exactly the d bytes up to the buffer end / the
// rest.  With r in 1..width-1 the value v straddles the stop, and when
// width > d + r also the end of the buffer.  The thorough tier runs the full
// product kind x m x d x r x {first, second buffer}; quick runs the third
// selected by (case + seed) mod 3 with one r per case (rotating), the second
// buffer for every fourth of those.
func readEndCases(o *hxlib.Out, tier string, only int, seed uint64, rbuf int) bool {
	width := map[byte]int{'b': 1, 'h': 2, 'w': 4, 'l': 16, 'd': 4, 's': 4, 'z': 4}
	rlist := map[int][]int{1: {0}, 2: {1}, 4: {1, 2, 3}, 16: {1, 3, 8, 15}}
	idx := readEndBase
	base := 0
	for ki, k := range []byte("bhwldsz") {
		n := width[k]
		for m := 0; m <= 3; m++ {
			for d := 1; d <= 20; d++ {
				rs := rlist[n]
				twices := []bool{false, true}
				if tier != "thorough" {
					rs = []int{rs[base%len(rs)]}
					if (base+int(seed%3))%3 != 0 {
						rs = nil
					}
					if (base/3)%4 != 0 {
						twices = []bool{false}
					}
				}
				base++
				for _, r := range rs {
					for _, twice := range twices {
						if only >= 0 && idx != only {
							idx++
							continue
						}
						ab := &direction{name: "A->B", plan: "all", slow: idx % 3}
						sched := []int{}
						if twice {
							ab.ops = append(ab.ops, op{kind: 'v', v: val{kind: 'd', seed: uint64(idx), data: pattern(uint64(idx), rbuf-4)}})
							sched = append(sched, rbuf)
						}
						for j := 0; j < m; j++ {
							ab.ops = append(ab.ops, op{kind: 'v', v: val{kind: 'b', n: 0xc0 + j}})
						}
						fill := rbuf - d - r - m - 4
						ab.ops = append(ab.ops,
							op{kind: 'v', v: val{kind: 'd', seed: uint64(idx) + 7, data: pattern(uint64(idx)+7, fill)}},
							op{kind: 'v', v: sampleValue(k, idx)},
							op{kind: 'v', v: sampleValue("bhwldsz"[(ki+2)%7], idx+1)},
							op{kind: 'v', v: val{kind: 'b', n: 0x5a}})
						sched = append(sched, rbuf-d)
						switch idx % 3 {
						case 0:
							sched = append(sched, 1, 1, 1, 1, 1, 1<<30)
						case 1:
							sched = append(sched, 1<<30)
						default:
							sched = append(sched, d, 1, 1<<30)
						}
						ab.frag = fragSpec{kind: 'p', cyc: sched}
						for _, v := range ab.vals() {
							ab.kinds = append(ab.kinds, v.kind)
						}
						ba := &direction{name: "B->A", plan: "all", frag: fragSpec{kind: 'a'}}
						if !runFrag(o, idx, ab, ba) {
							return false
						}
						o.Count("cases_rdend")
						o.Count("rdend_kind_" + string(k))
						if n > d+r && r > 0 {
							o.Count("rdend_value_straddles_buffer_end")
						}
						if twice {
							o.Count("rdend_second_buffer")
						}
						idx++
					}
				}
			}
		}
	}
	return true
}

// pipeCase: the real p2p.Pipe.  Each side sends `rounds` batches; after every
// batch it flushes and waits for the peer's one-byte acknowledgement of the
// batch (sent by the peer's receiving goroutine through its own send half is
// not possible without sharing the send half, so the acknowledgement is a Go
// channel: what is checked is that Flush alone makes the batch arrive).
func pipeCase(o *hxlib.Out, r *hxlib.Rng, idx int, tier string) bool {
	a, b := p2p.Pipe()
	mk := func(name string, rr *hxlib.Rng) (*direction, [][]op) {
		d := &direction{name: name, plan: "all", frag: fragSpec{kind: 'a'}}
		rounds := 1 + rr.Intn(4)
		var batches [][]op
		g := &gen{r: rr, budget: 400000}
		for i := 0; i < rounds; i++ {
			batch := g.ops(1+rr.Intn(12), []int{0, 10, 40}[rr.Intn(3)])
			batches = append(batches, batch)
			d.ops = append(d.ops, batch...)
			d.ops = append(d.ops, op{kind: 'f'})
			g.pos = 0
		}
		for _, v := range d.vals() {
			d.kinds = append(d.kinds, v.kind)
		}
		return d, batches
	}
	ab, abBatches := mk("A->B", r.Fork())
	ba, baBatches := mk("B->A", r.Fork())
	ab.sender, ab.recver = a, b
	ba.sender, ba.recver = b, a

	run := func(d *direction, batches [][]op, wg *sync.WaitGroup) {
		ack := make(chan int, 16)
		// receiver
		go func() {
			defer wg.Done()
			defer func() {
				if e := recover(); e != nil {
					d.recvPanic = e
					close(ack)
				}
			}()
			for bi, batch := range batches {
				for i := range batch {
					if batch[i].kind != 'v' {
						continue
					}
					v, err := recvKind(d.recver, batch[i].v.kind)
					if err != nil {
						d.recvErr = err
						close(ack)
						return
					}
					d.got = append(d.got, v)
				}
				ack <- bi
			}
		}()
		// sender
		go func() {
			defer wg.Done()
			defer func() {
				if e := recover(); e != nil {
					d.sendPanic = e
				}
			}()
			for _, batch := range batches {
				for i := range batch {
					if err := sendOp(d.sender, &batch[i]); err != nil {
						d.sendErr = err
						return
					}
				}
				if err := d.sender.Flush(); err != nil {
					d.sendErr = err
					return
				}
				// the batch must arrive without Close
				if _, ok := <-ack; !ok {
					return
				}
			}
			d.pre = [3]uint64{d.sender.Stats.Sent.Load(), d.sender.Stats.Flushed.Load(), uint64(d.sender.WritePos)}
		}()
	}
	ok := runWithWatchdog(o, idx, "pipe", func() {
		var wg sync.WaitGroup
		wg.Add(4)
		run(ab, abBatches, &wg)
		run(ba, baBatches, &wg)
		wg.Wait()
		ab.closeErr = a.Close()
		// A closed: B's next receive must see the end of the stream
		if _, err := b.ReceiveByte(); err != io.EOF {
			o.Fail("c11-pipe-no-eof-after-close", map[string]any{"case": idx, "err": errName(err), "rerun": rerun(idx)})
		}
		ba.closeErr = b.Close()
		ab.sentAfter, ab.flushAfter = a.Stats.Sent.Load(), a.Stats.Flushed.Load()
		ba.sentAfter, ba.flushAfter = b.Stats.Sent.Load(), b.Stats.Flushed.Load()
	})
	if !ok {
		o.Op(fmt.Sprintf("c11 pipe all %s %s", kindsStr(ab.kinds), opsLine(ab.ops)), "hang")
		o.Op(fmt.Sprintf("c11 pipe all %s %s", kindsStr(ba.kinds), opsLine(ba.ops)), "hang")
		return false
	}
	for _, d := range []*direction{ab, ba} {
		opl, res := d.finish(o, idx, "pipe")
		o.Op(opl, res)
		// oracle specific to the pipe: counters after all batches were flushed
		var ref int
		for _, v := range d.vals() {
			ref += len(v.refEncode(nil))
		}
		if d.sentAfter != uint64(ref) || d.recvdAfter != uint64(ref) {
			o.Fail("c11-pipe-counters", map[string]any{"case": idx, "dir": d.name, "sent": d.sentAfter,
				"recvd": d.recvdAfter, "want": ref})
		}
	}
	return true
}

var rerunBase string

func rerun(idx int) string { return fmt.Sprintf("%s -only %d", rerunBase, idx) }

func main() {
	if len(os.Args) < 2 {
		fmt.Fprintln(os.Stderr, "usage: c11 conn [flags]")
		os.Exit(2)
	}
	switch os.Args[1] {
	case "conn":
		os.Exit(c11(os.Args[2:]))
	case "fault":
		os.Exit(faultMode(os.Args[2:]))
	case "dx":
		os.Exit(dxMode(os.Args[2:]))
	case "dxreplay":
		os.Exit(dxReplay(os.Args[2:]))
	case "sys":
		cf, o := hxlib.ParseCommon("c11", os.Args[2:], nil)
		rerunBase = fmt.Sprintf("hx-c11 sys -seed %d -tier %s", cf.Seed, cf.Tier)
		rbufLive := RBUF
		// structural facts, taken from the compiled package (reflection and
		// a fresh Conn), not from source text
		{
			probe := p2p.NewConn(&endpoint{in: newLink(fragSpec{kind: 'a'}, 0), out: newLink(fragSpec{kind: 'a'}, 0)})
			var methods []string
			t := reflect.TypeOf(probe)
			for i := 0; i < t.NumMethod(); i++ {
				name := t.Method(i).Name
				if strings.HasPrefix(name, "Send") || strings.HasPrefix(name, "Receive") {
					methods = append(methods, name)
				}
			}
			sort.Strings(methods)
			rbufLive = len(probe.ReadBuf)
			o.Meta["facts"] = map[string]any{
				"write_buf_len":     len(probe.WriteBuf),
				"read_buf_len":      len(probe.ReadBuf),
				"send_recv_methods": methods,
			}
			probe.Close()
		}
		if next, ok := sysCases(o, cf.Tier, cf.Only); ok {
			if eofCases(o, cf.Tier, cf.Only, next) {
				readEndCases(o, cf.Tier, cf.Only, cf.Seed, rbufLive)
			}
		}
		o.Close()
		os.Exit(0)
	default:
		fmt.Fprintf(os.Stderr, "unknown mode %q\n", os.Args[1])
		os.Exit(2)
	}
}

func c11(args []string) int {
	cf, o := hxlib.ParseCommon("c11", args, nil)
	defer o.Close()
	rerunBase = fmt.Sprintf("hx-c11 conn -seed %d -n %d -tier %s", cf.Seed, cf.N, cf.Tier)
	rng := hxlib.NewRng(cf.Seed)
	for i := 0; i < cf.N; i++ {
		r := rng.Fork()
		if cf.Only >= 0 && i != cf.Only {
			continue
		}
		var ok bool
		switch {
		case i%8 == 7:
			ok = pipeCase(o, r, i, cf.Tier)
			o.Count("cases_pipe")
		default:
			big := i%6 == 2
			ok = fragCase(o, r, i, cf.Tier, big)
			o.Count("cases_frag")
			if big {
				o.Count("cases_frag_big")
			}
		}
		if !ok {
			// a hung case leaves goroutines behind; stop here
			o.Count("stopped_after_hang")
			break
		}
	}
	return 0
}

// Duplex / fault sessions of property C11: BOTH halves of a p2p.Conn at once
// over a full-duplex, buffering stream transport.
//
// The transport (dxEnd / dxHalf) is a socket pair made of two independent
// byte queues with the semantics of a stream socket: a Write never waits for
// the reader; what was written before a close stays readable by the peer and
// is followed by io.EOF; a Write towards an endpoint that has closed fails -
// at once, or after `grace` more Writes have been accepted and discarded (TCP:
// the first write after the peer's close still succeeds); Read and Write on a
// locally closed endpoint fail.  A Read never waits either: when nothing is
// there and the peer has not closed it returns errWouldBlock, so a session is
// a plain SEQUENCE of steps
//
//	A>op   a typed send / Flush / NeedSpace of endpoint A
//	A<k    one typed receive of kind k
//	A!     Close
//
// (likewise B) executed one after the other in ANY order: sends, flushes,
// receives and closes of both sides interleave freely, in particular
// [peer: sends, close] [local: send + flush towards the gone peer, which the
// transport rejects] [local: receives what the peer sent before closing].
//
// Determinism of the asynchronous writer goroutine: the transport holds the
// k-th Write of an endpoint until the Flush that queued it has returned
// (Stats.Flushed > k) or the operation is over, and between two steps the
// session waits until every writer goroutine of the session is parked in its
// channel receive (or has exited).  The Lean model `Sess` (Model/ConnDuplex.lean)
// replays exactly that schedule.
//
// Oracle on the real code (independent of the model): a value that the
// transport accepted from the peer and that the local side has not closed
// behind is received, unchanged and in order, whatever happened on the local
// send direction; after the peer's close and the last value comes io.EOF; the
// accepted bytes are a prefix of the sent stream, all of it when every
// operation and Close returned nil; a failed Write is reported; Stats.Recvd =
// bytes read from the transport.
package main

import (
	"bytes"
	"encoding/binary"
	"encoding/hex"
	"encoding/json"
	"errors"
	"fmt"
	"io"
	"os"
	"reflect"
	"runtime"
	"strconv"
	"strings"
	"sync"
	"sync/atomic"
	"time"
	"unsafe"

	"github.com/markkurossi/mpc/ot"
	"github.com/markkurossi/mpc/p2p"

	"verifharness/hxlib"
)

var (
	errWouldBlock = errors.New("transport read would block")
	errEpClosed   = errors.New("use of closed transport endpoint")
	errPipe       = errors.New("write to a closed peer: broken pipe")
)

// ---------------------------------------------------------------- transport

// dxHalf is one direction of the socket pair.
type dxHalf struct {
	mu      sync.Mutex
	data    []byte // accepted and readable
	lost    []byte // accepted after the reader closed (discarded)
	rpos    int
	wclosed bool // the writing endpoint has closed
	rclosed bool // the reading endpoint has closed
	grace   int
	frag    fragSpec
	nread   uint64
	rlog    uint64
	nbytesR uint64
}

type dxWrite struct {
	n      int
	failed bool
}

type dxEnd struct {
	in, out *dxHalf
	mu      sync.Mutex
	closes  int
	wcount  int
	writes  []dxWrite
	mutated bool
	gateTO  bool
	conn    *p2p.Conn
	inOp    atomic.Bool
}

// A Write is normally held for microseconds (until the Flush that queued it
// returns).  On a tree where Stats.Flushed does not follow the Writes the wait
// times out; after the first time-out the limit is short.
var gateLimit atomic.Int64

func init() { gateLimit.Store(int64(3 * time.Second)) }

func (e *dxEnd) Write(p []byte) (int, error) {
	e.mu.Lock()
	k := e.wcount
	e.wcount++
	e.mu.Unlock()
	progress.Add(1)
	// hold the Write until the Flush that queued it has returned
	start := time.Now()
	for i := 0; e.inOp.Load() && e.conn != nil && e.conn.Stats.Flushed.Load() < uint64(k+1); i++ {
		if i < 50 {
			runtime.Gosched()
		} else {
			time.Sleep(5 * time.Microsecond)
		}
		if i%256 == 255 && time.Since(start) > time.Duration(gateLimit.Load()) {
			gateLimit.Store(int64(50 * time.Millisecond))
			e.mu.Lock()
			e.gateTO = true
			e.mu.Unlock()
			break
		}
	}
	cp := append([]byte(nil), p...)
	runtime.Gosched()
	mut := !bytes.Equal(cp, p)
	h := e.out
	h.mu.Lock()
	var err error
	switch {
	case h.wclosed:
		err = errEpClosed
	case h.rclosed:
		if h.grace > 0 {
			h.grace--
			h.lost = append(h.lost, cp...)
		} else {
			err = errPipe
		}
	default:
		h.data = append(h.data, cp...)
	}
	h.mu.Unlock()
	e.mu.Lock()
	e.writes = append(e.writes, dxWrite{n: len(p), failed: err != nil})
	if mut {
		e.mutated = true
	}
	e.mu.Unlock()
	progress.Add(uint64(len(p)) + 1)
	if err != nil {
		return 0, err
	}
	return len(p), nil
}

func (e *dxEnd) Read(p []byte) (int, error) {
	h := e.in
	h.mu.Lock()
	defer h.mu.Unlock()
	if len(p) == 0 {
		return 0, nil
	}
	if h.rclosed {
		return 0, errEpClosed
	}
	avail := len(h.data) - h.rpos
	if avail == 0 {
		if h.wclosed {
			return 0, io.EOF
		}
		return 0, errWouldBlock
	}
	n := h.frag.size(h.nread)
	if n < 1 {
		n = 1
	}
	if n > len(p) {
		n = len(p)
	}
	if n > avail {
		n = avail
	}
	copy(p, h.data[h.rpos:h.rpos+n])
	h.rpos += n
	h.nread++
	h.nbytesR += uint64(n)
	progress.Add(uint64(n))
	// same mixing as Mpc.Conn.mix64
	x := (h.rlog ^ uint64(len(p))) * 0x100000001b3
	h.rlog = (x ^ uint64(n)) * 0x100000001b3
	return n, nil
}

func (e *dxEnd) Close() error {
	e.mu.Lock()
	e.closes++
	e.mu.Unlock()
	e.in.mu.Lock()
	e.in.rclosed = true
	e.in.mu.Unlock()
	e.out.mu.Lock()
	e.out.wclosed = true
	e.out.mu.Unlock()
	progress.Add(1)
	return nil
}

func (e *dxEnd) nCloses() int {
	e.mu.Lock()
	defer e.mu.Unlock()
	return e.closes
}

// ---------------------------------------------------------------- sessions

type dxStep struct {
	side int  // 0 = A, 1 = B
	kind byte // '>' send-side operation, '<' typed receive, '!' Close
	o    op
	rk   byte
}

func (s *dxStep) token() string {
	n := "AB"[s.side : s.side+1]
	switch s.kind {
	case '>':
		return n + ">" + s.o.token()
	case '<':
		return n + "<" + string(s.rk)
	}
	return n + "!"
}

type dxSide struct {
	name        string
	conn        *p2p.Conn
	ep          *dxEnd
	peer        *dxSide
	sent        []val // values of the send operations attempted, in order
	ends        []int // end offset of each in ref
	ref         []byte
	nrecv       int
	sendErr     bool
	closeCalled bool
	closeOK     bool
	rdead       bool
	obs         []string
	budget      int
}

type dxSession struct {
	idx     int
	class   string
	o       *hxlib.Out
	fragA   fragSpec
	fragB   fragSpec
	grace   [2]int // grace[0]: Writes of A accepted after B closed
	sides   [2]*dxSide
	steps   []dxStep
	nfails  int
	baseP   int
	baseT   int
	stalled bool
	blind   bool
}

func (s *dxSession) header() string {
	return fmt.Sprintf("c11 dx %s %s %d.%d", s.fragA.String(), s.fragB.String(), s.grace[0], s.grace[1])
}

func (s *dxSession) opLine() string {
	if len(s.steps) == 0 {
		return s.header() + " -"
	}
	toks := make([]string, len(s.steps))
	for i := range s.steps {
		toks[i] = s.steps[i].token()
	}
	return s.header() + " " + strings.Join(toks, ";")
}

func (s *dxSession) fail(sig string, extra map[string]any) {
	s.nfails++
	opl := s.opLine()
	m := map[string]any{"case": s.idx, "mode": "dx", "class": s.class, "step": len(s.steps) - 1, "op": clip(opl),
		"rerun": rerun(s.idx), "replay": map[string]any{"mode": "dx", "op": opl}}
	for k, v := range extra {
		m[k] = v
	}
	s.o.Fail(sig, m)
}

// allWritersParked waits until every p2p.Conn writer goroutine of the process
// that is not part of this session's base is parked in its channel receive or
// has exited, i.e. has finished everything queued so far.
func (s *dxSession) quiesce() bool {
	if s.blind {
		// the writer goroutines cannot be identified in the goroutine dump
		// (renamed?): give them time instead
		time.Sleep(3 * time.Millisecond)
		return true
	}
	last := progress.Load()
	lastChange := time.Now()
	for i := 0; ; i++ {
		parked, total := writerCounts()
		if parked-s.baseP == total-s.baseT {
			return true
		}
		if i < 20 {
			runtime.Gosched()
		} else {
			time.Sleep(10 * time.Microsecond)
		}
		if cur := progress.Load(); cur != last {
			last, lastChange = cur, time.Now()
		} else if time.Since(lastChange) > stallLimit {
			s.stalled = true
			return false
		}
	}
}

func newDxSession(o *hxlib.Out, idx int, class string, fragA, fragB fragSpec, graceAB, graceBA int) *dxSession {
	s := &dxSession{idx: idx, class: class, o: o, fragA: fragA, fragB: fragB, grace: [2]int{graceAB, graceBA}}
	// writers of earlier sessions: all parked for good (or gone)
	for i := 0; i < 2000; i++ {
		p, t := writerCounts()
		s.baseP, s.baseT = p, t
		if p == t {
			break
		}
		time.Sleep(50 * time.Microsecond)
	}
	ab := &dxHalf{frag: fragB, rlog: fnvInit, grace: graceAB} // read by B
	ba := &dxHalf{frag: fragA, rlog: fnvInit, grace: graceBA} // read by A
	epA := &dxEnd{in: ba, out: ab}
	epB := &dxEnd{in: ab, out: ba}
	a := &dxSide{name: "A", ep: epA, budget: 400000}
	b := &dxSide{name: "B", ep: epB, budget: 400000}
	a.peer, b.peer = b, a
	a.conn = p2p.NewConn(epA)
	epA.conn = a.conn
	b.conn = p2p.NewConn(epB)
	epB.conn = b.conn
	s.sides = [2]*dxSide{a, b}
	if _, t := writerCounts(); t-s.baseT < 2 {
		s.blind = true
		o.Count("dx_writer_goroutines_not_identified")
	}
	s.quiesce()
	return s
}

// faultPossible: a Write of x can fail (transport-level truth).
func (x *dxSide) faultPossible() bool {
	return x.ep.nCloses() > 0 || x.peer.ep.nCloses() > 0
}

// available reports whether the next value the peer sent has been accepted
// completely by the transport.
func (x *dxSide) available() bool {
	p := x.peer
	if x.nrecv >= len(p.ends) {
		return false
	}
	h := x.ep.in
	h.mu.Lock()
	defer h.mu.Unlock()
	return len(h.data) >= p.ends[x.nrecv]
}

// pendingBytes = bytes the transport accepted from the peer beyond the values
// received so far.
func (x *dxSide) pendingBytes() int {
	off := 0
	if x.nrecv > 0 {
		off = x.peer.ends[x.nrecv-1]
	}
	h := x.ep.in
	h.mu.Lock()
	defer h.mu.Unlock()
	return len(h.data) - off
}

func (x *dxSide) peerClosedTransport() bool {
	h := x.ep.in
	h.mu.Lock()
	defer h.mu.Unlock()
	return h.wclosed
}

func dxErrName(err error) string {
	switch err {
	case io.EOF:
		return "!eof"
	case errWouldBlock:
		return "!wb"
	case errEpClosed:
		return "!closed"
	}
	return "!other:" + strings.ReplaceAll(err.Error(), " ", "_")
}

// exec runs one step on the real code and judges it.
func (s *dxSession) exec(st dxStep) {
	s.steps = append(s.steps, st)
	x := s.sides[st.side]
	defer func() {
		if e := recover(); e != nil {
			x.ep.inOp.Store(false)
			x.obs = append(x.obs, "panic")
			s.fail("c11-dx-panic", map[string]any{"panic": fmt.Sprint(e)})
		}
	}()
	switch st.kind {
	case '>':
		if st.o.kind == 'v' {
			x.sent = append(x.sent, st.o.v)
			x.ref = st.o.v.refEncode(x.ref)
			x.ends = append(x.ends, len(x.ref))
		}
		could := x.faultPossible()
		x.ep.inOp.Store(true)
		err := sendOp(x.conn, &st.o)
		x.ep.inOp.Store(false)
		s.quiesce()
		if err != nil {
			x.sendErr = true
			x.obs = append(x.obs, "E")
			s.o.Count("dx_send_error")
			if !could {
				s.fail("c11-dx-spurious-send-error", map[string]any{"side": x.name, "err": err.Error()})
			}
		} else {
			x.obs = append(x.obs, "k")
		}
	case '<':
		// expectation from the transport's state and the script so far
		expect := "none"
		p := x.peer
		switch {
		case x.closeOK:
			expect = "none" // own Close succeeded: the endpoint is closed
		case x.nrecv < len(p.ends) && x.available():
			if p.sent[x.nrecv].kind == st.rk {
				expect = "value"
			}
		case x.pendingBytes() == 0 || (x.nrecv < len(p.ends) && p.sent[x.nrecv].kind == st.rk):
			// nothing there, or only a part of the value asked for
			if x.peerClosedTransport() {
				expect = "eof"
			} else {
				expect = "wb"
			}
		}
		afterSendFault := x.sendErr || x.hasFailedWrite()
		v, err := recvKind(x.conn, st.rk)
		if err != nil {
			x.rdead = true
			x.obs = append(x.obs, dxErrName(err))
		} else {
			x.obs = append(x.obs, v.show())
		}
		s.o.Count("dx_recv_expect_" + expect)
		if afterSendFault && expect == "value" {
			s.o.Count("dx_recv_value_after_send_fault")
		}
		switch expect {
		case "value":
			want := &p.sent[x.nrecv]
			if err != nil {
				s.fail("c11-dx-recv-lost", map[string]any{"side": x.name, "value_index": x.nrecv, "want": clip(want.show()),
					"got_error": err.Error(), "after_failed_send": fmt.Sprint(afterSendFault),
					"transport_endpoint_closes": x.ep.nCloses(), "close_called": fmt.Sprint(x.closeCalled),
					"what": "the transport accepted this value from the peer and the local side has not closed, " +
						"but the typed receive failed: the receive direction lost data"})
			} else if !v.equal(want) {
				s.fail("c11-dx-value-mismatch", map[string]any{"side": x.name, "value_index": x.nrecv,
					"want": clip(want.show()), "got": clip(v.show())})
			}
		case "eof":
			if err != io.EOF {
				s.fail("c11-dx-no-eof", map[string]any{"side": x.name, "got": fmt.Sprint(err),
					"what": "the peer closed and everything it sent was received: the next receive must return io.EOF"})
			}
		case "wb":
			if err != errWouldBlock {
				s.fail("c11-dx-recv-from-nothing", map[string]any{"side": x.name, "got": fmt.Sprint(err)})
			}
		}
		if err == nil {
			x.nrecv++
		}
	case '!':
		x.ep.inOp.Store(true)
		err := x.conn.Close()
		x.ep.inOp.Store(false)
		s.quiesce()
		x.closeCalled = true
		x.closeOK = err == nil
		if err != nil {
			x.obs = append(x.obs, "cE")
			s.o.Count("dx_close_error")
		} else {
			x.obs = append(x.obs, "ck")
			if n := x.ep.nCloses(); n != 1 {
				s.fail("c11-transport-close-count", map[string]any{"side": x.name, "closes": n})
			}
		}
	}
}

func (x *dxSide) hasFailedWrite() bool {
	x.ep.mu.Lock()
	defer x.ep.mu.Unlock()
	for _, w := range x.ep.writes {
		if w.failed {
			return true
		}
	}
	return false
}

func rleTokens(toks []string) string {
	if len(toks) == 0 {
		return "-"
	}
	var sb strings.Builder
	cur, cnt := toks[0], 1
	first := true
	emit := func() {
		if !first {
			sb.WriteByte(',')
		}
		first = false
		fmt.Fprintf(&sb, "%s*%d", cur, cnt)
	}
	for _, t := range toks[1:] {
		if t == cur {
			cnt++
		} else {
			emit()
			cur, cnt = t, 1
		}
	}
	emit()
	return sb.String()
}

// finish runs the end-of-session oracles, releases writer goroutines that
// are left over and returns the canonical result line.
func (s *dxSession) finish() string {
	var parts []string
	for _, x := range s.sides {
		if len(x.obs) == 0 {
			parts = append(parts, x.name+"=-")
		} else {
			parts = append(parts, x.name+"="+strings.Join(x.obs, ","))
		}
	}
	for _, x := range s.sides {
		x.ep.mu.Lock()
		toks := make([]string, len(x.ep.writes))
		anyFailed := false
		for i, w := range x.ep.writes {
			toks[i] = strconv.Itoa(w.n)
			if w.failed {
				toks[i] += "x"
				anyFailed = true
			}
		}
		mutated, gateTO, closes := x.ep.mutated, x.ep.gateTO, x.ep.closes
		x.ep.mu.Unlock()
		h := x.ep.in
		rd := "-"
		if !x.rdead {
			rd = fmt.Sprintf("%d.%016x", h.nread, h.rlog)
		}
		parts = append(parts, fmt.Sprintf("%s:sent=%d,fl=%d,rc=%d,tc=%d,w=%s,rd=%s", strings.ToLower(x.name),
			x.conn.Stats.Sent.Load(), x.conn.Stats.Flushed.Load(), x.conn.Stats.Recvd.Load(), closes, rleTokens(toks), rd))

		// ---- oracles of the direction x -> peer
		out := x.ep.out
		accepted := append(append([]byte(nil), out.data...), out.lost...)
		side := map[string]any{"side": x.name}
		if !bytes.HasPrefix(x.ref, accepted) {
			s.fail("c11-dx-wire-not-prefix", map[string]any{"side": x.name, "accepted": len(accepted),
				"first_diff": firstDiff(accepted, x.ref)})
		}
		if !x.sendErr && x.closeOK {
			if !bytes.Equal(accepted, x.ref) {
				s.fail("c11-dx-silent-loss", map[string]any{"side": x.name, "accepted": len(accepted), "sent": len(x.ref)})
			}
			if x.conn.Stats.Sent.Load() != uint64(len(x.ref)) {
				s.fail("c11-sent-counter", map[string]any{"side": x.name, "sent": x.conn.Stats.Sent.Load(), "want": len(x.ref)})
			}
		}
		if anyFailed {
			s.o.Count("dx_write_failed")
			if x.closeCalled && !x.sendErr && x.closeOK {
				s.fail("c11-fault-silent", side)
			}
		}
		if x.conn.Stats.Recvd.Load() != h.nbytesR {
			s.fail("c11-recvd-counter", map[string]any{"side": x.name, "recvd": x.conn.Stats.Recvd.Load(), "read": h.nbytesR})
		}
		if mutated {
			s.fail("c11-write-buffer-mutated", side)
		}
		if gateTO {
			s.o.Count("dx_gate_timeout")
		}
		if len(out.lost) > 0 {
			s.o.Count("dx_write_accepted_after_peer_close")
		}
	}
	for i, x := range s.sides {
		out := x.ep.out
		parts = append(parts, fmt.Sprintf("%s=%d,%016x,%d", []string{"ab", "ba"}[i], len(out.data), fnv1a(fnvInit, out.data), len(out.lost)))
	}
	// let left-over writer goroutines go (Close returned at its failed Flush,
	// or was never called): close the unexported channel they range over
	for _, x := range s.sides {
		releaseWriter(x.conn)
	}
	return strings.Join(parts, ";")
}

func releaseWriter(c *p2p.Conn) {
	defer func() { recover() }()
	f := reflect.ValueOf(c).Elem().FieldByName("toWriter")
	if !f.IsValid() || f.Kind() != reflect.Chan {
		return
	}
	reflect.NewAt(f.Type(), unsafe.Pointer(f.UnsafeAddr())).Elem().Close()
}

// ---------------------------------------------------------------- planners

// smallOp is a sender operation that flushes at most once (so that the point
// where a failed Write becomes visible to the sender is reproducible).
func smallOp(r *hxlib.Rng) op {
	switch c := r.Intn(100); {
	case c < 22:
		return op{kind: 'f'}
	case c < 26:
		return op{kind: 'n', n: []int{0, 1, 16, 65536, 70000, r.Intn(65536)}[r.Intn(6)]}
	}
	return smallOps(r, 1, 0)[0]
}

func (x *dxSide) canSend() bool { return !x.closeCalled && !x.sendErr }
func (x *dxSide) canRecv() bool { return !x.rdead && !x.closeOK }

type dxPlanner interface {
	next(s *dxSession) (dxStep, bool)
}

// recvStep returns the receive of the next available value of side x.
func recvStep(x *dxSide, side int) (dxStep, bool) {
	if x.canRecv() && x.available() {
		return dxStep{side: side, kind: '<', rk: x.peer.sent[x.nrecv].kind}, true
	}
	return dxStep{}, false
}

// randPlanner: a random interleaving.
type randPlanner struct {
	r        *hxlib.Rng
	left     int
	cur      int
	stick    int
	pClose   int
	pRecv    int
	pProbe   int
	final    []string
	finalPos int
	bigGen   [2]*gen
}

func newRandPlanner(r *hxlib.Rng) *randPlanner {
	p := &randPlanner{r: r, left: 4 + r.Intn(50), stick: []int{20, 50, 80, 95}[r.Intn(4)],
		pClose: []int{1, 4, 10}[r.Intn(3)], pRecv: []int{10, 35, 70}[r.Intn(3)], pProbe: []int{0, 0, 2, 6}[r.Intn(4)]}
	p.cur = r.Intn(2)
	for i := range p.bigGen {
		p.bigGen[i] = &gen{r: r.Fork(), budget: 300000}
	}
	return p
}

func (p *randPlanner) next(s *dxSession) (dxStep, bool) {
	r := p.r
	for p.left > 0 {
		p.left--
		if r.Intn(100) >= p.stick {
			p.cur = 1 - p.cur
		}
		for try := 0; try < 2; try++ {
			side := p.cur
			if try == 1 {
				side = 1 - p.cur
			}
			x := s.sides[side]
			c := r.Intn(100)
			// receive
			if c < p.pRecv {
				if st, ok := recvStep(x, side); ok {
					return st, true
				}
				if x.canRecv() && x.nrecv >= len(x.peer.ends) && x.peerClosedTransport() && r.Intn(3) == 0 {
					// everything received and the peer is gone: end-of-stream probe
					return dxStep{side: side, kind: '<', rk: "bhwdslz"[r.Intn(7)]}, true
				}
				if x.canRecv() && !x.available() && !x.peerClosedTransport() && r.Intn(100) < p.pProbe {
					// nothing (or only a part of the next value) is there yet - the
					// peer has not flushed: would block
					rk := "bhwdslz"[r.Intn(7)]
					if x.nrecv < len(x.peer.ends) {
						rk = x.peer.sent[x.nrecv].kind
					}
					if x.nrecv < len(x.peer.ends) || x.pendingBytes() == 0 {
						return dxStep{side: side, kind: '<', rk: rk}, true
					}
				}
			}
			// close
			pc := p.pClose
			if x.sendErr {
				pc = 30
			}
			if !x.closeCalled && r.Intn(100) < pc {
				return dxStep{side: side, kind: '!'}, true
			}
			// send
			if x.canSend() {
				if !x.faultPossible() && r.Intn(10) < 3 {
					// no Write can fail now: any operation, also one that flushes
					// several times
					g := p.bigGen[side]
					o := g.ops(1, 10)[0]
					if o.kind == 'f' {
						g.pos = 0
					}
					return dxStep{side: side, kind: '>', o: o}, true
				}
				return dxStep{side: side, kind: '>', o: smallOp(r)}, true
			}
			if st, ok := recvStep(x, side); ok {
				return st, true
			}
		}
	}
	return p.finalPhase(s)
}

// finalPhase: both sides receive what is there, one closes (which delivers
// what it still buffered), the other receives that and the end of the stream
// and closes; a side whose Close failed keeps receiving.
func (p *randPlanner) finalPhase(s *dxSession) (dxStep, bool) {
	if p.final == nil {
		first := p.r.Intn(2)
		a, b := "AB"[first:first+1], "AB"[1-first:2-first]
		p.final = []string{"drain" + a, "drain" + b, "close" + a, "drain" + b, "eof" + b, "close" + b, "drain" + a, "eof" + a}
	}
	return runBlocks(s, p.final, &p.finalPos, nil)
}

// runBlocks expands block names into steps, one step per call.
//
//	drainX  receive every value that is available to X
//	eofX    X probes the end of the stream (only when the peer's Close succeeded
//	        and X can still receive and has received everything)
//	closeX  X calls Close (once)
//	sendX:<ops>  X runs the given sender operations
func runBlocks(s *dxSession, blocks []string, pos *int, sub *int) (dxStep, bool) {
	for *pos < len(blocks) {
		b := blocks[*pos]
		side := 0
		name := b
		if i := strings.IndexByte(b, ':'); i >= 0 {
			name = b[:i]
		}
		if strings.HasSuffix(name, "B") {
			side = 1
		}
		x := s.sides[side]
		switch {
		case strings.HasPrefix(name, "drain"):
			if st, ok := recvStep(x, side); ok {
				return st, true
			}
		case strings.HasPrefix(name, "eof"):
			*pos++
			if x.canRecv() && x.peer.closeOK && x.nrecv >= len(x.peer.ends) {
				return dxStep{side: side, kind: '<', rk: "bhwdslz"[(s.idx+side)%7]}, true
			}
			continue
		case strings.HasPrefix(name, "close"):
			*pos++
			if !x.closeCalled {
				return dxStep{side: side, kind: '!'}, true
			}
			continue
		case strings.HasPrefix(name, "send"):
			toks := strings.Split(b[strings.IndexByte(b, ':')+1:], ";")
			if sub != nil && *sub < len(toks) && x.canSend() {
				o, err := parseOpToken(toks[*sub])
				*sub++
				if err != nil {
					panic(err)
				}
				return dxStep{side: side, kind: '>', o: o}, true
			}
			if sub != nil {
				*sub = 0
			}
		}
		*pos++
	}
	return dxStep{}, false
}

type blockPlanner struct {
	blocks []string
	pos    int
	sub    int
}

func (p *blockPlanner) next(s *dxSession) (dxStep, bool) {
	return runBlocks(s, p.blocks, &p.pos, &p.sub)
}

type fixedPlanner struct {
	steps []dxStep
	pos   int
}

func (p *fixedPlanner) next(s *dxSession) (dxStep, bool) {
	if p.pos >= len(p.steps) {
		return dxStep{}, false
	}
	p.pos++
	return p.steps[p.pos-1], true
}

// runDx runs one session; returns false when it hung.
func runDx(o *hxlib.Out, idx int, class string, fragA, fragB fragSpec, graceAB, graceBA int, pl dxPlanner) (*dxSession, bool) {
	var s *dxSession
	var res string
	ok := runWithWatchdog(o, idx, "dx "+class, func() {
		s = newDxSession(o, idx, class, fragA, fragB, graceAB, graceBA)
		for n := 0; n < 400; n++ {
			st, more := pl.next(s)
			if !more {
				break
			}
			s.exec(st)
			if s.stalled {
				break
			}
		}
		res = s.finish()
	})
	if !ok || s.stalled {
		if s != nil {
			if s.stalled {
				s.fail("c11-hang", map[string]any{"what": "a writer goroutine neither finished nor parked"})
			}
			o.Op(s.opLine(), "hang")
		}
		return s, false
	}
	o.Op(s.opLine(), res)
	o.Count("cases_dx_" + class)
	for _, x := range s.sides {
		if x.sendErr {
			o.Count("dx_side_with_send_error")
		}
		if x.closeCalled && !x.closeOK {
			o.Count("dx_side_with_close_error")
		}
	}
	return s, true
}

// sysBlocks enumerates the block orders: the peer P sends values of every
// kind (PS) and closes (PC); the local side L sends and flushes towards P
// (LS, twice, so that a failed Write is reported by the second Flush) and
// receives (LR); every interleaving of [PS, PC] with [LS, LR] and [LR, LS].
func sysBlocks(variant int, l, p string) [][]string {
	var ps string
	switch variant % 3 {
	case 0: // every kind, flushes in between, the last values delivered by Close only
		ps = "send" + p + ":ba5;h48879;w3735928559;s12.7;d7.8;f;d102413.9;l0123456789abcdeffedcba9876543210;z64/0/1/512"
	case 1: // everything flushed explicitly
		ps = "send" + p + ":z1/2/4294967295;l090a0b0c0d0e0f100102030405060708;f;s0.3;d1.4;b00;f;h1;w7;f"
	default: // nothing flushed: Close delivers all
		ps = "send" + p + ":w1;d65531.5;n70000;h513;s300.6;bff;z;l00000000000000000000000000000000"
	}
	pc := "close" + p
	ls := "send" + l + ":w42;f;h7;f"
	lr := "drain" + l
	var out [][]string
	peer := []string{ps, pc}
	for _, local := range [][]string{{ls, lr}, {lr, ls}} {
		// all interleavings of two 2-element sequences: choose positions of the peer's blocks
		for i := 0; i < 4; i++ {
			for j := i + 1; j < 4; j++ {
				seq := make([]string, 4)
				seq[i], seq[j] = peer[0], peer[1]
				k := 0
				for q := range seq {
					if seq[q] == "" {
						seq[q] = local[k]
						k++
					}
				}
				// tail: L receives everything and the end of the stream, both close
				seq = append(seq, "drain"+l, "eof"+l, "send"+l+":b01;f", "drain"+l, "eof"+l, "close"+l, "drain"+p, "close"+p)
				out = append(out, seq)
			}
		}
	}
	return out
}

func dxMode(args []string) int {
	cf, o := hxlib.ParseCommon("c11", args, nil)
	defer o.Close()
	rerunBase = fmt.Sprintf("hx-c11 dx -seed %d -n %d -tier %s", cf.Seed, cf.N, cf.Tier)
	idx := 0
	frags := []fragSpec{{kind: 'a'}, {kind: 'o'}, {kind: 'c', cyc: []int{3, 65536}}, {kind: 'r', seed: 11, max: 70000},
		{kind: 'c', cyc: []int{7}}}
	// systematic block orders x variants x grace x which side is local
	for variant := 0; variant < 3; variant++ {
		for _, grace := range []int{0, 1, 2} {
			for _, lp := range [][2]string{{"A", "B"}, {"B", "A"}} {
				for oi, blocks := range sysBlocks(variant, lp[0], lp[1]) {
					if cf.Only < 0 || idx == cf.Only {
						fa, fb := frags[(idx+oi)%len(frags)], frags[(idx+oi+2)%len(frags)]
						if _, ok := runDx(o, idx, "sys", fa, fb, grace, grace, &blockPlanner{blocks: blocks}); !ok {
							o.Count("stopped_after_hang")
							return 0
						}
					}
					idx++
				}
			}
		}
	}
	rng := hxlib.NewRng(splitmix(cf.Seed ^ 0xd0b1e5))
	for i := 0; i < cf.N; i++ {
		r := rng.Fork()
		if cf.Only < 0 || idx == cf.Only {
			fa, fb := genFrag(r, 100000), genFrag(r, 100000)
			g := []int{0, 0, 1, 2, 3}
			if _, ok := runDx(o, idx, "rand", fa, fb, g[r.Intn(len(g))], g[r.Intn(len(g))], newRandPlanner(r)); !ok {
				o.Count("stopped_after_hang")
				return 0
			}
		}
		idx++
	}
	return 0
}

// ---------------------------------------------------------------- replay of one recorded session

func parseOpToken(t string) (op, error) {
	bad := func() (op, error) { return op{}, fmt.Errorf("bad operation token %q", t) }
	if t == "" {
		return bad()
	}
	rest := t[1:]
	lenSeed := func() (int, uint64, bool) {
		parts := strings.Split(rest, ".")
		if len(parts) != 2 {
			return 0, 0, false
		}
		n, e1 := strconv.Atoi(parts[0])
		sd, e2 := strconv.ParseUint(parts[1], 10, 64)
		return n, sd, e1 == nil && e2 == nil && n >= 0 && n <= 64<<20
	}
	switch t[0] {
	case 'f':
		if rest == "" {
			return op{kind: 'f'}, nil
		}
	case 'n':
		if n, err := strconv.Atoi(rest); err == nil {
			return op{kind: 'n', n: n}, nil
		}
	case 'b':
		if n, err := strconv.ParseUint(rest, 16, 8); err == nil {
			return op{kind: 'v', v: val{kind: 'b', n: int(n)}}, nil
		}
	case 'h', 'w':
		if n, err := strconv.ParseUint(rest, 10, 32); err == nil {
			return op{kind: 'v', v: val{kind: t[0], n: int(n)}}, nil
		}
	case 'd', 's':
		if n, sd, ok := lenSeed(); ok {
			return op{kind: 'v', v: val{kind: t[0], seed: sd, data: pattern(sd, n)}}, nil
		}
	case 'l':
		if b, err := hex.DecodeString(rest); err == nil && len(b) == 16 {
			return op{kind: 'v', v: val{kind: 'l', label: ot.Label{D0: binary.BigEndian.Uint64(b[:8]), D1: binary.BigEndian.Uint64(b[8:])}}}, nil
		}
	case 'Z':
		if n, sd, ok := lenSeed(); ok {
			return op{kind: 'v', v: val{kind: 'z', zseed: sd, sizes: patternSizes(sd, n)}}, nil
		}
	case 'z':
		v := val{kind: 'z', sizes: []int{}}
		if rest != "" {
			for _, p := range strings.Split(rest, "/") {
				n, err := strconv.ParseUint(p, 10, 32)
				if err != nil {
					return bad()
				}
				v.sizes = append(v.sizes, int(n))
			}
		}
		return op{kind: 'v', v: v}, nil
	}
	return bad()
}

func parseFragSpec(t string) (fragSpec, error) {
	switch {
	case t == "one":
		return fragSpec{kind: 'o'}, nil
	case t == "all":
		return fragSpec{kind: 'a'}, nil
	case strings.HasPrefix(t, "c"):
		var cyc []int
		for _, p := range strings.Split(t[1:], ",") {
			n, err := strconv.Atoi(p)
			if err != nil {
				return fragSpec{}, err
			}
			cyc = append(cyc, n)
		}
		return fragSpec{kind: 'c', cyc: cyc}, nil
	case strings.HasPrefix(t, "r"):
		parts := strings.Split(t[1:], ".")
		if len(parts) == 2 {
			sd, e1 := strconv.ParseUint(parts[0], 10, 64)
			mx, e2 := strconv.ParseUint(parts[1], 10, 64)
			if e1 == nil && e2 == nil && mx > 0 {
				return fragSpec{kind: 'r', seed: sd, max: mx}, nil
			}
		}
	}
	return fragSpec{}, fmt.Errorf("bad fragmentation %q", t)
}

// parseDxLine parses `c11 dx <fragA> <fragB> <gAB>.<gBA> <script>`.
func parseDxLine(line string) (fragSpec, fragSpec, int, int, []dxStep, error) {
	f := strings.Fields(line)
	var none fragSpec
	if len(f) != 6 || f[0] != "c11" || f[1] != "dx" {
		return none, none, 0, 0, nil, fmt.Errorf("not a dx op line")
	}
	fa, err := parseFragSpec(f[2])
	if err != nil {
		return none, none, 0, 0, nil, err
	}
	fb, err := parseFragSpec(f[3])
	if err != nil {
		return none, none, 0, 0, nil, err
	}
	g := strings.Split(f[4], ".")
	if len(g) != 2 {
		return none, none, 0, 0, nil, fmt.Errorf("bad grace")
	}
	gab, e1 := strconv.Atoi(g[0])
	gba, e2 := strconv.Atoi(g[1])
	if e1 != nil || e2 != nil {
		return none, none, 0, 0, nil, fmt.Errorf("bad grace")
	}
	var steps []dxStep
	if f[5] != "-" {
		for _, t := range strings.Split(f[5], ";") {
			if len(t) < 2 || (t[0] != 'A' && t[0] != 'B') {
				return none, none, 0, 0, nil, fmt.Errorf("bad step %q", t)
			}
			st := dxStep{side: int(t[0] - 'A'), kind: t[1]}
			switch t[1] {
			case '!':
			case '<':
				if len(t) != 3 || !strings.ContainsRune("bhwdslz", rune(t[2])) {
					return none, none, 0, 0, nil, fmt.Errorf("bad step %q", t)
				}
				st.rk = t[2]
			case '>':
				o, err := parseOpToken(t[2:])
				if err != nil {
					return none, none, 0, 0, nil, err
				}
				st.o = o
			default:
				return none, none, 0, 0, nil, fmt.Errorf("bad step %q", t)
			}
			steps = append(steps, st)
		}
	}
	return fa, fb, gab, gba, steps, nil
}

// dxReplay re-runs exactly the session recorded in a replay file
// (failure.replay.op) on the real code; exit status 1 when an oracle fails.
func dxReplay(args []string) int {
	if len(args) < 1 {
		fmt.Fprintln(os.Stderr, "usage: c11 dxreplay <replay.json>")
		return 2
	}
	raw, err := os.ReadFile(args[0])
	if err != nil {
		fmt.Fprintln(os.Stderr, err)
		return 2
	}
	var rf struct {
		Failure struct {
			Sig    string `json:"sig"`
			Replay struct {
				Mode string `json:"mode"`
				Op   string `json:"op"`
			} `json:"replay"`
		} `json:"failure"`
	}
	if err := json.Unmarshal(raw, &rf); err != nil || rf.Failure.Replay.Mode != "dx" {
		fmt.Fprintln(os.Stderr, "not a dx replay file")
		return 2
	}
	fa, fb, gab, gba, steps, err := parseDxLine(rf.Failure.Replay.Op)
	if err != nil {
		fmt.Fprintln(os.Stderr, err)
		return 2
	}
	_, o := hxlib.ParseCommon("c11", nil, nil)
	rerunBase = "hx-c11 dxreplay " + args[0]
	s, ok := runDx(o, 0, "replay", fa, fb, gab, gba, &fixedPlanner{steps: steps})
	fmt.Printf("session: %s\n", clip(rf.Failure.Replay.Op))
	if s != nil {
		for _, x := range s.sides {
			fmt.Printf("  %s returned: %s\n", x.name, strings.Join(x.obs, ","))
		}
	}
	if !ok {
		fmt.Println("  the session hung")
		return 1
	}
	for _, f := range o.OracleFails {
		delete(f, "replay")
		var bb bytes.Buffer
		enc := json.NewEncoder(&bb)
		enc.SetEscapeHTML(false)
		enc.Encode(f)
		fmt.Printf("  FAIL %s\n", clip(strings.TrimSpace(bb.String())))
	}
	if len(o.OracleFails) > 0 {
		return 1
	}
	fmt.Println("  no oracle failure")
	return 0
}

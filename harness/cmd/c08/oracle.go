package main

// The implementation-side oracle of C08 and the op lines for the Lean
// driver.
//
// For every corpus program P (compiled with the same source, parameters and
// input sizes everywhere):
//
//	(i)   k compilations on ONE compiler.Compiler           o1 o2 .. ok
//	(ii)  f compilations on fresh instances in this process  p1 .. pf
//	(iii) one compilation in each of n child processes       q1 .. qn
//	(iv)  one long-lived Compiler compiles the whole corpus in a seeded
//	      order (history = other programs)                    hP
//
// and o1 is compared with all the others (o2 also with o3: once the
// package initialisers are gone nothing else may change).  Compared are the
// Circuit.Marshal bytes and the SSA listing.  A difference is classified
// (see relation()) and reported through o.Fail with sig
// c08-same-instance / c08-fresh-instance / c08-cross-process.  Since /repo
// 1e863b8 + 6aa1568 no difference is expected any more; the classes
// (init-missing, inst-labels, init-order) name the repaired defects should
// they come back.

import (
	"encoding/hex"
	"encoding/json"
	"fmt"
	"os"
	"os/exec"
	"path/filepath"
	"regexp"
	"runtime"
	"sort"
	"strings"
	"sync"
	"time"

	"github.com/markkurossi/mpc/compiler"
	"github.com/markkurossi/mpc/compiler/utils"
	"github.com/markkurossi/mpc/types"

	"verifharness/hxlib"
)

type failRec struct {
	sig    string
	detail map[string]any
	key    string
}

type oracle struct {
	o     *hxlib.Out
	repo  string
	work  string
	fails []failRec
	perK  map[string]int
	seed  uint64
	tier  string
	extra string
}

func (or *oracle) fail(sig, kind string, j *Job, mode, what, class string, a, b *Res, ta, tb string) {
	key := sig + "/" + kind + "/" + class + "/" + what
	or.perK[key]++
	or.o.Count("diff_" + strings.TrimPrefix(sig, "c08-") + "_" + kind + "_" + class + "_" + strings.ReplaceAll(what, "+", "_"))
	// keep few examples per kind of difference (hxlib keeps 20 failures in
	// total); unclassified differences get more room and are emitted first
	limit := 1
	if strings.HasPrefix(class, "other") {
		limit = 4
	}
	if or.perK[key] > limit {
		return
	}
	d := map[string]any{
		"program": j.Name, "family": j.Family, "kind": kind, "mode": mode, "what": what, "class": class,
		"variant": j.Variant, "sizes": fmt.Sprint(j.Sizes),
		"a": fmt.Sprintf("gates=%d circ=%s/%d ssa=%s init=%v err=%q", a.Gates, a.CircHash, a.CircLen, a.SSAHash, a.InitLabels, a.Err),
		"b": fmt.Sprintf("gates=%d circ=%s/%d ssa=%s init=%v err=%q", b.Gates, b.CircHash, b.CircLen, b.SSAHash, b.InitLabels, b.Err),
		"source": clipS(j.Src, 1500),
		"rerun_single": fmt.Sprintf("go build -tags verif -o /tmp/c08 ./cmd/c08 (in /verif/harness) && MPCLDIR=$REPO /tmp/c08 oracle -seed %d -tier %s%s -only %d -ops /tmp/c08.ops -out /tmp/c08.out -meta /tmp/c08.meta.json",
			or.seed, or.tier, or.extra, j.Index),
	}
	if ta != "" && tb != "" && ta != tb {
		d["ssa_diff"] = firstDiff(ta, tb)
		// the two differing SSA listings themselves (for the replay file)
		d["ssa_listing_a"] = clipS(ta, 24000)
		d["ssa_listing_b"] = clipS(tb, 24000)
	}
	if j.Gen != nil {
		var libs []string
		for _, p := range j.PkgPath {
			filepath.WalkDir(p, func(fp string, de os.DirEntry, err error) error {
				if err == nil && !de.IsDir() {
					b, _ := os.ReadFile(fp)
					rel, _ := filepath.Rel(p, fp)
					libs = append(libs, "// "+rel+"\n"+string(b))
				}
				return nil
			})
		}
		d["library"] = clipS(strings.Join(libs, "\n"), 3000)
	}
	or.fails = append(or.fails, failRec{sig: sig, detail: d, key: key})
}

func hexs(s string) string { return hex.EncodeToString([]byte(s)) }

func hexList(l []string) string {
	if len(l) == 0 {
		return "-"
	}
	var p []string
	for _, s := range l {
		p = append(p, hexs(s))
	}
	return strings.Join(p, ",")
}

func plainList(l []string) string {
	if len(l) == 0 {
		return "-"
	}
	return strings.Join(l, ",")
}

// ---------------------------------------------------------------- op: dc

// dcOp compiles the program to SSA, lists prog.Constants in the order the
// map hands them over and emits the op for the Lean model of
// DefineConstants.  The expected result is produced by a replica of the
// collect-then-sort statements of DefineConstants whose source text is pinned
// by the `map_ranges` fact (body and next statement of the range loop).
// Also checks the hypothesis of the Lean theorem: names pairwise distinct
// (key == Const.Name for every entry).
func (or *oracle) dcOp(j *Job) {
	defer func() {
		if e := recover(); e != nil {
			or.o.Count("dc_panic")
		}
	}()
	p := newParams(j)
	prog, _, err := compiler.New(p).CompileSSA("{data}", strings.NewReader(j.Src), j.Sizes)
	if err != nil || prog == nil {
		or.o.Count("dc_compile_error")
		return
	}
	type cv struct{ Name string }
	var consts []cv
	var handed []string
	seen := map[string]bool{}
	for k, c := range prog.Constants {
		consts = append(consts, cv{c.Const.Name})
		handed = append(handed, c.Const.Name)
		if k != c.Const.Name || seen[c.Const.Name] {
			or.o.Fail("c08-const-names-not-distinct", map[string]any{"program": j.Name, "key": k, "name": c.Const.Name})
		}
		seen[c.Const.Name] = true
	}
	// replica of program.go DefineConstants (pinned by fact)
	sort.Slice(consts, func(i, j int) bool {
		return strings.Compare(consts[i].Name, consts[j].Name) == -1
	})
	var sorted []string
	for _, c := range consts {
		sorted = append(sorted, c.Name)
	}
	if len(handed) > 400 {
		or.o.Count("dc_skipped_large")
		return
	}
	or.o.Op("dc "+hexList(handed), hexList(sorted))
	or.o.Count("op_dc")
	if len(handed) >= 2 {
		or.o.Count("op_dc_nontrivial")
	}
	nonASCII := false
	for _, n := range handed {
		for _, ch := range []byte(n) {
			if ch >= 0x80 {
				nonASCII = true
			}
		}
	}
	if nonASCII {
		or.o.Count("op_dc_non_ascii_names")
	}
}

// ---------------------------------------------------------------- op: ts

func (or *oracle) tsOps() {
	// the table in the order the map hands it over
	var tbl []string
	vals := map[types.Type]string{}
	for k, v := range types.Types {
		tbl = append(tbl, fmt.Sprintf("%s=%d", hexs(k), int(v)))
		if old, ok := vals[v]; ok {
			or.o.Fail("c08-types-table-not-injective", map[string]any{"a": old, "b": k, "value": int(v)})
		}
		vals[v] = k
	}
	for t := -1; t <= len(types.Types)+1; t++ {
		name := types.Type(t).String()
		res := hexs(name)
		if strings.HasPrefix(name, "{Type ") {
			res = "none"
		}
		or.o.Op(fmt.Sprintf("ts %s %d", strings.Join(tbl, ","), t), res)
		or.o.Count("op_ts")
	}
}

// ---------------------------------------------------------------- ops: init / hist

var reVarBlockStart = regexp.MustCompile(`^var\s*\($`)
var reVarSingle = regexp.MustCompile(`^var\s+[A-Za-z_]\w*.*?(=\s*(.*))?$`)
var reVarEntry = regexp.MustCompile(`^\t[A-Za-z_]\w*[^=]*=\s*(.*)$`)

// scanVars counts the package-level variable definitions of an MPCL source
// and how many of them are initialised with make(...) (one anonymous SSA
// value each).
func scanVars(src string) (nvars, nanon int) {
	in := false
	for _, ln := range strings.Split(src, "\n") {
		switch {
		case in && strings.HasPrefix(ln, ")"):
			in = false
		case in:
			if m := reVarEntry.FindStringSubmatch(ln); m != nil {
				nvars++
				if strings.HasPrefix(m[1], "make(") {
					nanon++
				}
			}
		case reVarBlockStart.MatchString(ln):
			in = true
		default:
			if m := reVarSingle.FindStringSubmatch(ln); m != nil {
				nvars++
				if strings.HasPrefix(m[2], "make(") {
					nanon++
				}
			}
		}
	}
	return
}

type pkgFacts struct {
	name    string
	imports []string // aliases, sorted
	nvars   int
	nanon   int
}

// closureFacts gathers (by reading the sources) what the Lean Init model
// needs about every package reachable from main.
func (or *oracle) closureFacts(j *Job) (map[string]*pkgFacts, bool) {
	pkgs, paths, collide := importClosure(or.repo, j)
	if len(collide) > 0 {
		return nil, false
	}
	res := map[string]*pkgFacts{}
	for alias, lp := range pkgs {
		if !lp.found {
			return nil, false
		}
		pf := &pkgFacts{name: alias}
		for a := range lp.imports {
			pf.imports = append(pf.imports, a)
		}
		sort.Strings(pf.imports)
		if alias == "main" {
			pf.nvars, pf.nanon = scanVars(j.Src)
		} else {
			dirs := append([]string{filepath.Join(or.repo, "pkg")}, j.PkgPath...)
			for _, d := range dirs {
				ents, err := os.ReadDir(filepath.Join(d, paths[alias]))
				if err != nil {
					continue
				}
				for _, e := range ents {
					if compiler.IsFilename(e.Name()) {
						b, _ := os.ReadFile(filepath.Join(d, paths[alias], e.Name()))
						nv, na := scanVars(string(b))
						pf.nvars += nv
						pf.nanon += na
					}
				}
				break
			}
		}
		res[alias] = pf
	}
	return res, true
}

func pkgSpec(pf map[string]*pkgFacts, order map[string][]string) string {
	var names []string
	for n := range pf {
		names = append(names, n)
	}
	sort.Strings(names)
	var parts []string
	for _, n := range names {
		p := pf[n]
		imps := p.imports
		if o, ok := order[n]; ok {
			imps = o
		}
		parts = append(parts, fmt.Sprintf("%s:%d:%d:%s", n, p.nvars, p.nanon, plainList(imps)))
	}
	return strings.Join(parts, ";")
}

func labelsWithAnon(r *Res) string {
	var l []string
	for i, lb := range r.InitLabels {
		if r.InitAnon[i] != "-" {
			l = append(l, lb+"@"+r.InitAnon[i])
		} else {
			l = append(l, lb)
		}
	}
	return plainList(l)
}

// reversedOrder hands every package's import aliases to the model in
// REVERSE sorted order: the hand-over order of the Imports maps is not
// observable and, since Package.Init iterates pkg.SortedImports(), must not
// matter; the model has to sort them itself (byte-wise, as sort.Strings).
func reversedOrder(pf map[string]*pkgFacts) map[string][]string {
	order := map[string][]string{}
	for name, p := range pf {
		imps := append([]string{}, p.imports...)
		sort.Sort(sort.Reverse(sort.StringSlice(imps)))
		order[name] = imps
	}
	return order
}

// initOp compiles the program on a fresh instance.  The Lean Init model must
// produce the init-block labels (and first anonymous-value numbers) of the
// real SSA listing from the import graph alone.
func (or *oracle) initOp(j *Job) {
	pf, ok := or.closureFacts(j)
	if !ok {
		or.o.Count("init_skipped_closure")
		return
	}
	r := compileFresh(j)
	if r.Err != "" {
		or.o.Count("init_compile_error")
		return
	}
	order := reversedOrder(pf)
	or.o.Op(fmt.Sprintf("init %s main", pkgSpec(pf, order)), labelsWithAnon(r))
	or.o.Count("op_init")
	if len(r.InitLabels) >= 2 {
		or.o.Count("op_init_two_or_more_blocks")
		or.o.Count("init_order_seen_" + strings.Join(r.InitLabels, ""))
	}
}

// histOp compiles a generated program k times on one instance and asks the
// Lean model of Compiler.compile (package table reset at the start of every
// compilation) for the init-block labels and function-instance labels of every
// compilation.
func (or *oracle) histOp(j *Job, k int) {
	if j.Gen == nil {
		return
	}
	pf, ok := or.closureFacts(j)
	if !ok {
		or.o.Count("hist_skipped_closure")
		return
	}
	p := newParams(j)
	c := compiler.New(p)
	var rs []*Res
	for i := 0; i < k; i++ {
		r := compileOn(c, p, j)
		if r.Err != "" {
			or.o.Count("hist_compile_error")
			return
		}
		rs = append(rs, r)
	}
	order := reversedOrder(pf)
	var want []string
	for _, r := range rs {
		want = append(want, "init="+plainList(r.InitLabels)+";fn="+plainList(r.FuncLabels))
	}
	or.o.Op(fmt.Sprintf("hist %d %s main %s", len(rs), pkgSpec(pf, order), plainList(j.Gen.CallOrder)),
		strings.Join(want, "/"))
	or.o.Count("op_hist")
}

// ---------------------------------------------------------------- children

func runChildren(self, work string, jobs []*Job, n, par int) [][]*Res {
	jf := filepath.Join(work, "jobs.json")
	b, _ := json.Marshal(jobs)
	os.WriteFile(jf, b, 0o644)
	res := make([][]*Res, n)
	var wg sync.WaitGroup
	sem := make(chan struct{}, par)
	for i := 0; i < n; i++ {
		wg.Add(1)
		go func(i int) {
			defer wg.Done()
			sem <- struct{}{}
			defer func() { <-sem }()
			out := filepath.Join(work, fmt.Sprintf("child-%d.json", i))
			dir := filepath.Join(work, fmt.Sprintf("child-%d", i))
			os.MkdirAll(dir, 0o755)
			cmd := exec.Command(self, "child", jf, out, dir)
			cmd.Env = os.Environ()
			// vary runtime conditions between the processes
			switch i % 4 {
			case 1:
				cmd.Env = append(cmd.Env, "GOMAXPROCS=1")
			case 2:
				cmd.Env = append(cmd.Env, "GOGC=5")
			case 3:
				cmd.Env = append(cmd.Env, "GOMAXPROCS=3", "GOGC=400")
			}
			cmd.Stdout = nil
			cmd.Stderr = nil
			cmd.Run()
			rb, err := os.ReadFile(out)
			if err != nil {
				return
			}
			var rs []*Res
			if json.Unmarshal(rb, &rs) == nil {
				res[i] = rs
			}
		}(i)
	}
	wg.Wait()
	return res
}

func runChild(args []string) {
	devNullStdout()
	if len(args) < 3 {
		os.Exit(2)
	}
	var jobs []*Job
	b, err := os.ReadFile(args[0])
	if err != nil || json.Unmarshal(b, &jobs) != nil {
		os.Exit(2)
	}
	var out []*Res
	for i, j := range jobs {
		r := compileFresh(j)
		if len(r.ssa) < 1<<20 {
			os.WriteFile(filepath.Join(args[2], fmt.Sprintf("%d.ssa", i)), []byte(r.ssa), 0o644)
		}
		out = append(out, r)
	}
	ob, _ := json.Marshal(out)
	os.WriteFile(args[1], ob, 0o644)
}

// ---------------------------------------------------------------- main loop

func runOracle(cf *hxlib.CommonFlags, o *hxlib.Out) {
	devNullStdout()
	repo := os.Getenv("MPCLDIR")
	if repo == "" {
		repo = "/repo"
	}
	work := filepath.Dir(cf.Ops)
	if cf.Ops == "" {
		work, _ = os.MkdirTemp("", "c08-work-*")
	}
	work = filepath.Join(work, fmt.Sprintf("c08-%d", cf.Seed))
	os.MkdirAll(work, 0o755)
	defer os.RemoveAll(work)
	or := &oracle{o: o, repo: repo, work: work, perK: map[string]int{}, seed: cf.Seed, tier: cf.Tier}
	if cf.Extra != "" {
		or.extra = " -extra " + cf.Extra
	}
	quick := cf.Tier == "quick" || cf.Extra == "light"
	tier := cf.Tier
	ngen := 10
	if cf.Extra == "light" {
		// thorough tier, additional seeds: the quick corpus with many more generated programs
		tier = "quick"
		ngen = 40
	} else if !quick {
		ngen = 48
	}
	jobs := buildCorpus(repo, work, tier, cf.Seed, ngen, o)
	if cf.Only >= 0 && cf.Only < len(jobs) {
		jobs = []*Job{jobs[cf.Only]}
	}
	k, f, nchild, par := 3, 2, cf.N, 6
	if nchild <= 0 {
		nchild = 6
	}
	if !quick {
		par = 4
	}
	o.Meta["programs"] = len(jobs)
	o.Meta["k_same_instance"] = k
	o.Meta["fresh_instances"] = f
	o.Meta["child_processes"] = nchild

	or.tsOps()

	// first pass: one fresh compilation of every program; programs whose
	// compilation exceeds the tier's budget are dropped (counted)
	budget := int64(500)
	if !quick {
		budget = 8000
	}
	{
		var keep []*Job
		var keepFirst []*Res
		timings := map[string]int64{}
		trace := os.Getenv("C08_TRACE") != ""
		for _, j := range jobs {
			if trace {
				fmt.Fprintf(os.Stderr, "first-pass %s\n", j.Name)
			}
			r := compileFresh(j)
			if trace {
				var ms runtime.MemStats
				runtime.ReadMemStats(&ms)
				fmt.Fprintf(os.Stderr, "   %d ms gates=%d sys=%d MB err=%s\n", r.Ms, r.Gates, ms.Sys>>20, r.Err)
			}
			o.Count("compilations")
			timings[j.Name] = r.Ms
			if r.Ms > budget {
				o.Count("corpus_dropped_over_budget")
				continue
			}
			keep = append(keep, j)
			keepFirst = append(keepFirst, r)
		}
		jobs = keep
		o.Meta["first_compile_ms"] = timings
		o.Meta["programs"] = len(jobs)
		_ = keepFirst
	}

	// (iii) children run concurrently with the in-process work
	var childRes [][]*Res
	var cwg sync.WaitGroup
	cwg.Add(1)
	self, _ := os.Executable()
	go func() {
		defer cwg.Done()
		childRes = runChildren(self, work, jobs, nchild, par)
	}()

	first := make([]*Res, len(jobs))
	var sample []any
	start := time.Now()
	for ji, j := range jobs {
		// (i) same instance
		p := newParams(j)
		c := compiler.New(p)
		var same []*Res
		for i := 0; i < k; i++ {
			r := compileOn(c, p, j)
			same = append(same, r)
			o.Count("compilations")
			if i == 0 && r.Err != "" {
				break
			}
			// every compilation re-parses and re-initialises everything
			// (resetPackages): heavy programs are compiled twice, not k times
			if i == 1 && same[0].Ms > 2500 {
				break
			}
		}
		o1 := same[0]
		first[ji] = o1
		if o1.Err != "" {
			o.Count("compile_error_" + j.Family)
			if len(sample) < 3 {
				sample = append(sample, map[string]any{"program": j.Name, "error": o1.Err})
			}
			continue
		}
		o.Count("programs_compiled")
		o.Count("programs_compiled_" + j.Family)
		if len(o1.InitLabels) >= 2 {
			o.Count("programs_with_2plus_init_blocks")
		}
		sig := "c08-same-instance"
		for i := 1; i < len(same); i++ {
			o.Count("comparisons_same_instance")
			if what, class := relation(o1, same[i]); class != "equal" {
				or.fail(sig, "recompile", j, fmt.Sprintf("same-instance: compilation 1 vs %d", i+1), what, class, o1, same[i], o1.ssa, same[i].ssa)
			}
		}
		if len(same) >= 3 {
			o.Count("comparisons_same_instance")
			if what, class := relation(same[1], same[2]); class != "equal" {
				or.fail(sig, "recompile", j, "same-instance: compilation 2 vs 3", what, class, same[1], same[2], same[1].ssa, same[2].ssa)
			}
		}
		or.histOp(j, k)
		// histories with failing compilations / mixed entry points
		if (j.Gen != nil || j.Family == "library" || strings.Contains(j.Src, "import")) && o1.Ms < 400 {
			or.failHistories(j, o1, !quick || j.Family == "library" || (j.Gen != nil && j.Index%4 == 0))
		} else if o1.Ms < 60 && j.Index%5 == 0 {
			or.failHistories(j, o1, false)
		}
		// (ii) fresh instances
		sig = "c08-fresh-instance"
		nf := f
		if j.Gen != nil || j.Family == "library" {
			nf = f + 2
		}
		if o1.Ms > 3000 {
			nf = 1
		}
		for i := 0; i < nf; i++ {
			r := compileFresh(j)
			o.Count("compilations")
			o.Count("comparisons_fresh_instance")
			if what, class := relation(o1, r); class != "equal" {
				or.fail(sig, "fresh-instance", j, fmt.Sprintf("fresh instance %d in the same process", i+1), what, class, o1, r, o1.ssa, r.ssa)
			}
		}
		// ops for the model
		if o1.Ms < 3000 {
			or.dcOp(j)
		}
		if j.Gen != nil || j.Family == "library" || (j.Family != "alias-collision" && len(o1.InitLabels) >= 1 && o1.Ms < 1500) {
			if j.Family != "alias-collision" {
				or.initOp(j)
			}
		}
		if len(sample) < 3 && j.Gen != nil {
			sample = append(sample, map[string]any{"program": j.Name, "source": clipS(j.Src, 600),
				"gates": o1.Gates, "circuit_sha256_96": o1.CircHash, "ssa_sha256_96": o1.SSAHash, "init_blocks": o1.InitLabels})
		}
	}
	// (iv) history = the other programs: one Compiler (per PkgPath family:
	// the generated library directories differ per program) compiles the
	// library-importing corpus programs in a seeded order
	{
		rng := hxlib.NewRng(cf.Seed ^ 0x9e3779b9)
		var idx []int
		for i, j := range jobs {
			if first[i] != nil && first[i].Err == "" && len(j.PkgPath) == 0 && first[i].Ms < 3000 {
				idx = append(idx, i)
			}
		}
		for i := len(idx) - 1; i > 0; i-- {
			s := rng.Intn(i + 1)
			idx[i], idx[s] = idx[s], idx[i]
		}
		type shared struct {
			c *compiler.Compiler
			p *utils.Params
		}
		byVariant := map[int]*shared{}
		for _, i := range idx {
			j := jobs[i]
			// same parameters as everywhere else for this program; one
			// long-lived compiler per parameter variant
			sh, ok := byVariant[j.Variant]
			if !ok {
				p := newParams(j)
				sh = &shared{c: compiler.New(p), p: p}
				byVariant[j.Variant] = sh
			}
			r := compileOn(sh.c, sh.p, j)
			o.Count("compilations")
			o.Count("comparisons_history_chain")
			if what, class := relation(first[i], r); class != "equal" {
				or.fail("c08-same-instance", "history-chain", j, "history: compiled on a long-lived Compiler after other corpus programs",
					what, class, first[i], r, first[i].ssa, r.ssa)
			}
		}
	}
	o.Meta["inprocess_ms"] = time.Since(start).Milliseconds()
	cwg.Wait()
	// (iii) compare
	okChildren := 0
	for ci, rs := range childRes {
		if rs == nil || len(rs) != len(jobs) {
			o.Fail("c08-child-failed", map[string]any{"child": ci})
			continue
		}
		okChildren++
		for ji, j := range jobs {
			if first[ji] == nil || first[ji].Err != "" && rs[ji].Err == first[ji].Err {
				continue
			}
			o.Count("comparisons_cross_process")
			sig := "c08-cross-process"
			if what, class := relation(first[ji], rs[ji]); class != "equal" {
				tb := ""
				if b, err := os.ReadFile(filepath.Join(work, fmt.Sprintf("child-%d", ci), fmt.Sprintf("%d.ssa", ji))); err == nil {
					tb = string(b)
				}
				or.fail(sig, "cross-process", j, fmt.Sprintf("separate process %d", ci), what, class, first[ji], rs[ji], first[ji].ssa, tb)
			}
		}
	}
	o.Meta["children_ok"] = okChildren
	// hypothesis of the parse obligation: no alias bound to two paths in
	// the library
	or.aliasScan()
	// emit: unknown classes first so that they are never crowded out
	sort.SliceStable(or.fails, func(a, b int) bool {
		ra, rb := rank(or.fails[a]), rank(or.fails[b])
		return ra < rb
	})
	for _, f := range or.fails {
		o.Fail(f.sig, f.detail)
	}
	for _, s := range sample {
		o.Sample(s)
	}
}

func rank(f failRec) int {
	c := fmt.Sprint(f.detail["class"])
	if strings.HasPrefix(c, "other") {
		return 0
	}
	return 1
}

// aliasScan checks, over every library package of $MPCLDIR/pkg, that an
// import alias (last path element) names one path only.
func (or *oracle) aliasScan() {
	byAlias := map[string]map[string]bool{}
	root := filepath.Join(or.repo, "pkg")
	filepath.WalkDir(root, func(p string, d os.DirEntry, err error) error {
		if err != nil || d.IsDir() || !compiler.IsFilename(d.Name()) {
			return nil
		}
		b, err := os.ReadFile(p)
		if err != nil {
			return nil
		}
		for a, path := range scanImports(string(b)) {
			if byAlias[a] == nil {
				byAlias[a] = map[string]bool{}
			}
			byAlias[a][path] = true
		}
		return nil
	})
	or.o.CountN("library_import_aliases", len(byAlias))
	for a, ps := range byAlias {
		if len(ps) > 1 {
			var l []string
			for p := range ps {
				l = append(l, p)
			}
			sort.Strings(l)
			or.o.Fail("c08-library-alias-collision", map[string]any{"alias": a, "paths": l})
		}
	}
}

package main

// PROCESS-STATE histories over ALL STEP KINDS (part of mode `pstate`).
//
// "Repeated compilations ... in the process": what a process did before a
// compilation is not only other compilations.  A peer serves streaming
// sessions (Compiler.Stream / StreamFile: the SSA program is garbled
// instruction by instruction, values die and are recycled by `gc`), compiles
// files, obtains SSA programs (CompileSSA), evaluates, garbles, marshals and
// parses circuits.  Every one of these runs code of the compile path and may
// leave state behind in the process (package-level variables, pools).  A
// history step therefore has a KIND:
//
//	compile        Compiler.Compile                                    (victim; circuit bytes + SSA listing)
//	compile-file   Compiler.CompileFile of the source written to a file (circuit bytes + SSA listing)
//	compile-ssa    Compiler.CompileSSA (the SSA program only; its wire allocator is never handed back)
//	stream         Compiler.Stream garbler <-> circuit.StreamEvaluator over an in-process transport
//	               (hxlib.RunStreamSession: both parties in goroutines)
//	stream-file    Compiler.StreamFile, garbler in the CALLING goroutine over p2p.Pipe
//	ssa-stream     CompileSSA, then Program.Stream (hxlib.RunStreamProgram)
//	compute        Compile, then Circuit.Compute on the parties' inputs
//	garble-eval    Compile, then circuit.Garbler <-> circuit.Evaluator (hxlib.RunSession)
//	roundtrip      Compile, Marshal to a file, circuit.Parse of the file, Marshal again
//
// Every kind is a deterministic function of (program, parameters, inputs): all
// occurrences of one (program, kind, inputs) - over all steps of all processes
// - must give the same output, and every circuit compiled inside a step of any
// kind joins the comparison of all compilations of that program.
//
// Activity histories: per sibling group one more child process
//
//	C v ; K1 a1 ; C v ; K2 a2 ; C v' ; ...          (C = Compile on a fresh Compiler)
//
// v, v' the victim and a sibling of the same argument widths, a_i siblings
// (same and other argument widths), K_i running through all kinds (streaming
// kinds first and most often); GOGC=off (pooled objects survive: sync.Pool is
// emptied by the collector) and, every other process, GOMAXPROCS=1 (a
// sync.Pool is per P).  Two more processes mix activities over all groups.

import (
	"bytes"
	"fmt"
	"math/big"
	"os"
	"path/filepath"
	"strings"
	"time"

	"github.com/markkurossi/mpc/circuit"
	"github.com/markkurossi/mpc/compiler"
	"github.com/markkurossi/mpc/compiler/ssa"
	"github.com/markkurossi/mpc/ot"
	"github.com/markkurossi/mpc/p2p"

	"verifharness/hxlib"
)

// step kinds ("" = compile)
const (
	kCompile     = "compile"
	kCompileFile = "compile-file"
	kCompileSSA  = "compile-ssa"
	kStream      = "stream"
	kStreamFile  = "stream-file"
	kSSAStream   = "ssa-stream"
	kCompute     = "compute"
	kGarbleEval  = "garble-eval"
	kRoundtrip   = "roundtrip"
)

var pActivityKinds = []string{kStream, kStreamFile, kSSAStream, kCompute, kGarbleEval, kRoundtrip, kCompileFile, kCompileSSA}

func isStreamKind(k string) bool { return k == kStream || k == kStreamFile || k == kSSAStream }

func stepKind(st pStep) string {
	if st.Kind == "" {
		return kCompile
	}
	return st.Kind
}

// kindLetter: the step kind of the Lean model (Model/ProcSteps.lean `Kind`)
func kindLetter(k string) string {
	switch k {
	case kCompile, kCompileFile:
		return "C"
	case kStream, kStreamFile, kSSAStream:
		return "S"
	case kCompute:
		return "E"
	case kGarbleEval:
		return "G"
	case kRoundtrip:
		return "R"
	case kCompileSSA:
		return "A"
	}
	return "?"
}

// ---------------------------------------------------------------- inputs

// genInput: an input string for one main argument, as apps/garbled -i takes it
func genInput(r *hxlib.Rng, a pArg) string {
	switch a.Kind {
	case "bytes":
		return "0x" + hxlib.Hex(r.Bytes(a.Bits/8))
	case "int":
		n := a.Bits - 1
		if n < 1 {
			return "0"
		}
		return randBits(r, 1+r.Intn(n)).String()
	default:
		if a.Bits < 1 {
			return "0"
		}
		return randBits(r, 1+r.Intn(a.Bits)).String()
	}
}

func genInputs(r *hxlib.Rng, p *pProg) []string {
	var l []string
	for _, a := range p.Args {
		l = append(l, genInput(r, a))
	}
	return l
}

// ---------------------------------------------------------------- running one step of a kind

func bigsDec(v []*big.Int) string {
	var l []string
	for _, x := range v {
		if x == nil {
			l = append(l, "nil")
		} else {
			l = append(l, x.String())
		}
	}
	if len(l) == 0 {
		return "-"
	}
	return strings.Join(l, ",")
}

func circuitInto(sr *pStepRes, r *Res) {
	sr.Err, sr.Gates, sr.Wires, sr.CircHash, sr.CircLen, sr.SSAHash = r.Err, r.Gates, r.Wires, r.CircHash, r.CircLen, r.SSAHash
}

// compileKeep: compileFresh that also hands the circuit back
func compileKeep(j *Job) (*Res, *circuit.Circuit) {
	p := newParams(j)
	var circ *circuit.Circuit
	res := compileOnKeep(compiler.New(p), p, j, &circ)
	return res, circ
}

// streamPair: garbler in the calling goroutine, evaluator in a goroutine, p2p.Pipe, ideal OT
func streamPair(garbler func(conn *p2p.Conn, o ot.OT) (circuit.IO, []*big.Int, error), eInputs []string) (gres, eres []*big.Int, status string) {
	gConn, eConn := p2p.Pipe()
	o := hxlib.NewIdealOT()
	type er struct {
		res []*big.Int
		err string
	}
	ech := make(chan er, 1)
	go func() {
		var r er
		defer func() {
			if e := recover(); e != nil {
				r.err = clipS(fmt.Sprintf("evaluator panic: %v", e), 200)
				eConn.Close()
			}
			ech <- r
		}()
		_, res, err := circuit.StreamEvaluator(eConn, o, eInputs, nil, false)
		r.res = res
		if err != nil {
			r.err = clipS("evaluator: "+err.Error(), 200)
			eConn.Close()
		}
	}()
	func() {
		defer func() {
			if e := recover(); e != nil {
				status = clipS(fmt.Sprintf("garbler panic: %v", e), 200)
				gConn.Close()
			}
		}()
		var err error
		_, gres, err = garbler(gConn, o)
		if err != nil {
			status = clipS("garbler: "+err.Error(), 200)
			gConn.Close()
		}
	}()
	select {
	case r := <-ech:
		eres = r.res
		if status == "" {
			status = r.err
		}
	case <-time.After(30 * time.Second):
		if status == "" {
			status = "evaluator stalled"
		}
		gConn.Close()
		eConn.Close()
	}
	if status == "" {
		status = "ok"
		gConn.Close()
		eConn.Close()
	}
	return
}

func streamStatus(r *hxlib.StreamResult) string {
	if r.OK() {
		return "ok"
	}
	return clipS(fmt.Sprintf("%s g=%v e=%v gp=%v ep=%v", r.Status(), r.GErr, r.EErr, r.GPanic, r.EPanic), 240)
}

// gcOrder: the main arguments whose values die during a streaming session, in
// the order of their `gc` instructions
func gcOrder(prog *ssa.Program) []int {
	var l []int
	for _, st := range prog.Steps {
		if st.Instr.Op != ssa.GC || st.Instr.GC == nil || st.Instr.GC.Scope != 1 {
			continue
		}
		for i, a := range prog.Inputs {
			if a.Name == st.Instr.GC.Name {
				l = append(l, i)
			}
		}
	}
	return l
}

// runActivity runs one step of a kind other than plain Compile in this
// process.  `dir` holds the files of the step.
func runActivity(kind string, pp *pProg, in []string, dir string, idx int) (sr *pStepRes, ssaText string) {
	sr = &pStepRes{Kind: kind}
	start := time.Now()
	defer func() {
		sr.Ms = time.Since(start).Milliseconds()
		if e := recover(); e != nil {
			sr.Err = clipS(fmt.Sprintf("panic: %v", e), 300)
		}
	}()
	j := &Job{Name: pp.Name, Family: pp.Family, Src: pp.Src, Sizes: pp.Sizes, Variant: pp.Variant}
	var gIn, eIn []string
	if len(in) >= 2 {
		gIn, eIn = in[:1], in[1:2]
	}
	srcFile := func() string {
		f := filepath.Join(dir, fmt.Sprintf("step%d.mpcl", idx))
		os.WriteFile(f, []byte(pp.Src), 0o644)
		return f
	}
	switch kind {
	case kCompileFile:
		p := newParams(j)
		ssaOut := new(bufCloser)
		p.SSAOut = ssaOut
		circ, _, err := compiler.New(p).CompileFile(srcFile(), pp.Sizes)
		p.SSAOut = nil
		if err != nil {
			sr.Err = clipS(err.Error(), 300)
			return
		}
		r := &Res{}
		finishCircuit(r, circ, p, ssaOut.String())
		circuitInto(sr, r)
		ssaText = r.ssa
	case kCompileSSA:
		p := newParams(j)
		prog, _, err := compiler.New(p).CompileSSA("{data}", strings.NewReader(pp.Src), pp.Sizes)
		if err != nil {
			sr.Err = clipS(err.Error(), 300)
			return
		}
		sr.Status = "ok"
		sr.Vals = fmt.Sprintf("steps=%d gc=%v", len(prog.Steps), gcOrder(prog))
	case kStream:
		r := hxlib.RunStreamSession(pp.Src, gIn, eIn, hxlib.IdealOTFactory, nil, hxlib.NewDuplex(nil), 30*time.Second)
		sr.Status = streamStatus(r)
		sr.Vals = bigsDec(r.GRes)
		if r.OK() && bigsDec(r.ERes) != sr.Vals {
			sr.Status = "parties-differ e=" + clipS(bigsDec(r.ERes), 200)
		}
	case kStreamFile:
		f := srcFile()
		sizes, err := hxlib.StreamInputSizes(gIn, eIn)
		if err != nil {
			sr.Err = err.Error()
			return
		}
		params := hxlib.StreamParams(nil)
		defer params.Close()
		gres, eres, status := streamPair(func(conn *p2p.Conn, o ot.OT) (circuit.IO, []*big.Int, error) {
			return compiler.New(params).StreamFile(conn, o, f, gIn, sizes)
		}, eIn)
		sr.Status = status
		sr.Vals = bigsDec(gres)
		if status == "ok" && bigsDec(eres) != sr.Vals {
			sr.Status = "parties-differ e=" + clipS(bigsDec(eres), 200)
		}
	case kSSAStream:
		sizes, err := hxlib.StreamInputSizes(gIn, eIn)
		if err != nil {
			sr.Err = err.Error()
			return
		}
		prog, err := hxlib.CompileSSA(pp.Src, sizes)
		if err != nil {
			sr.Err = clipS(err.Error(), 300)
			return
		}
		sr.GC = gcOrder(prog)
		r := hxlib.RunStreamProgram(prog, gIn, eIn, hxlib.IdealOTFactory, nil, hxlib.NewDuplex(nil), 30*time.Second)
		sr.Status = streamStatus(r)
		sr.Vals = bigsDec(r.GRes)
		if r.OK() && bigsDec(r.ERes) != sr.Vals {
			sr.Status = "parties-differ e=" + clipS(bigsDec(r.ERes), 200)
		}
	case kCompute, kGarbleEval, kRoundtrip:
		r, circ := compileKeep(j)
		circuitInto(sr, r)
		ssaText = r.ssa
		if r.Err != "" || circ == nil {
			return
		}
		switch kind {
		case kCompute:
			var vals []*big.Int
			for i, a := range circ.Inputs {
				if i >= len(in) {
					break
				}
				v, err := a.Parse(in[i : i+1])
				if err != nil {
					sr.Status = clipS("input: "+err.Error(), 200)
					return
				}
				vals = append(vals, v)
			}
			out, err := circ.Compute(vals)
			if err != nil {
				sr.Status = clipS("compute: "+err.Error(), 200)
				return
			}
			sr.Status = "ok"
			sr.Vals = bigsDec(out)
		case kGarbleEval:
			if len(circ.Inputs) != 2 || len(in) < 2 {
				sr.Status = "not-two-party"
				return
			}
			x, err := circ.Inputs[0].Parse(gIn)
			if err != nil {
				sr.Status = clipS("input: "+err.Error(), 200)
				return
			}
			y, err := circ.Inputs[1].Parse(eIn)
			if err != nil {
				sr.Status = clipS("input: "+err.Error(), 200)
				return
			}
			o := hxlib.NewIdealOT()
			s := hxlib.RunSession(circ, x, y, o, o, nil, hxlib.NewDuplex(nil), 60*time.Second)
			switch {
			case s.Stalled:
				sr.Status = "stalled"
			case s.GPanic != nil || s.EPanic != nil:
				sr.Status = clipS(fmt.Sprintf("panic g=%v e=%v", s.GPanic, s.EPanic), 200)
			case s.GErr != nil || s.EErr != nil:
				sr.Status = clipS(fmt.Sprintf("error g=%v e=%v", s.GErr, s.EErr), 200)
			default:
				sr.Status = "ok"
				sr.Vals = bigsDec(s.GRes)
				if bigsDec(s.ERes) != sr.Vals {
					sr.Status = "parties-differ e=" + clipS(bigsDec(s.ERes), 200)
				}
			}
		case kRoundtrip:
			var b1 bytes.Buffer
			if err := circ.Marshal(&b1); err != nil {
				sr.Status = "marshal: " + err.Error()
				return
			}
			f := filepath.Join(dir, fmt.Sprintf("step%d.mpclc", idx))
			os.WriteFile(f, b1.Bytes(), 0o644)
			c2, err := circuit.Parse(f)
			os.Remove(f)
			if err != nil {
				sr.Status = clipS("parse: "+err.Error(), 200)
				return
			}
			var b2 bytes.Buffer
			if err := c2.Marshal(&b2); err != nil {
				sr.Status = "marshal 2: " + err.Error()
				return
			}
			sr.Status = "ok"
			sr.Vals = fmt.Sprintf("reparsed=%s/%d same=%v", h(b2.Bytes()), b2.Len(), bytes.Equal(b1.Bytes(), b2.Bytes()))
		}
	default:
		sr.Err = "unknown step kind " + kind
	}
	return
}

// ---------------------------------------------------------------- activity histories

type actSeq struct {
	progs []int // global program ids
	kinds []string
	ins   [][]string
}

func (a *actSeq) add(id int, kind string, in []string) {
	a.progs = append(a.progs, id)
	a.kinds = append(a.kinds, kind)
	a.ins = append(a.ins, in)
}

func (a *actSeq) spec(name, kind string, all []*pProg) *pSpec {
	sp := mkSpec(name, kind, all, a.progs, func(int) bool { return true })
	for i := range sp.Steps {
		if a.kinds[i] != kCompile {
			sp.Steps[i].Kind = a.kinds[i]
		}
		sp.Steps[i].In = a.ins[i]
	}
	return sp
}

var actEnvs = [][]string{
	{"GOGC=off", "GOMEMLIMIT=3GiB", "GOMAXPROCS=1"},
	{"GOGC=off", "GOMEMLIMIT=3GiB"},
}

func sameArgs(a, b *pProg) bool {
	if len(a.Args) != len(b.Args) {
		return false
	}
	for i := range a.Args {
		if a.Args[i] != b.Args[i] {
			return false
		}
	}
	return true
}

// groupActivitySpec: C v ; K1 a1 ; C v ; K2 a2 ; C v' ; ... over one sibling
// group.  `full`: every kind with a same-width AND an other-width actor
// (widened search / thorough tier); otherwise every kind once.
func groupActivitySpec(r *hxlib.Rng, progs []*pProg, l []int, gi int, full bool) *pSpec {
	victim := progs[l[0]]
	var same, other []int
	for _, id := range l {
		if sameArgs(progs[id], victim) {
			same = append(same, id)
		} else {
			other = append(other, id)
		}
	}
	// victims: the group's victim and one more sibling of its argument widths
	victims := []int{l[0]}
	if len(same) > 1 {
		victims = append(victims, same[1+r.Intn(len(same)-1)])
	}
	kinds := append([]string{}, pActivityKinds...)
	// the streaming kinds are the ones that recycle values: a second round of them
	kinds = append(kinds, shuffledS(r, []string{kStream, kStreamFile, kSSAStream})...)
	if full {
		kinds = append(kinds, shuffledS(r, pActivityKinds)...)
	}
	seq := &actSeq{}
	seq.add(victims[0], kCompile, nil)
	for i, k := range kinds {
		// actor: same argument widths first, then alternating with other widths
		pool := same
		if len(other) > 0 && i >= len(pActivityKinds) && i%2 == 1 {
			pool = other
		}
		actor := pool[r.Intn(len(pool))]
		seq.add(actor, k, genInputs(r, progs[actor]))
		seq.add(victims[(i+1)%len(victims)], kCompile, nil)
	}
	// two of the activities again, with the same inputs (steps of one (program,
	// kind, inputs) must give the same results wherever they run)
	for _, i := range []int{1, 1 + 2*(1+r.Intn(len(kinds)-1))} {
		seq.add(seq.progs[i], seq.kinds[i], seq.ins[i])
		seq.add(victims[0], kCompile, nil)
	}
	return seq.spec(fmt.Sprintf("%s/g%d/activities", victim.Family, gi), "activities", progs)
}

func shuffledS(r *hxlib.Rng, l []string) []string {
	s := append([]string{}, l...)
	for i := len(s) - 1; i > 0; i-- {
		k := r.Intn(i + 1)
		s[i], s[k] = s[k], s[i]
	}
	return s
}

// crossActivitySpec: activities over the programs of all groups: every
// program is the actor of one activity, followed by the compilation of a
// program of another group.
func crossActivitySpec(r *hxlib.Rng, progs []*pProg, name string, cheap map[int]bool) *pSpec {
	var ids []int
	for _, p := range progs {
		if cheap[p.ID] {
			ids = append(ids, p.ID)
		}
	}
	ids = shuffled(r, ids)
	seq := &actSeq{}
	for i, id := range ids {
		k := pActivityKinds[(i+r.Intn(3))%len(pActivityKinds)]
		seq.add(id, k, genInputs(r, progs[id]))
		seq.add(ids[(i+1+r.Intn(len(ids)-1))%len(ids)], kCompile, nil)
	}
	return seq.spec(name, "cross-activities", progs)
}

// buildActivitySpecs: the activity histories of a run.
func buildActivitySpecs(seed uint64, progs []*pProg, full bool) []*pSpec {
	r := hxlib.NewRng(seed ^ 0x61637473)
	byGroup := map[int][]int{}
	var groups []int
	for _, p := range progs {
		if _, ok := byGroup[p.Group]; !ok {
			groups = append(groups, p.Group)
		}
		byGroup[p.Group] = append(byGroup[p.Group], p.ID)
	}
	var specs []*pSpec
	for _, gi := range groups {
		specs = append(specs, groupActivitySpec(r, progs, byGroup[gi], gi, full))
	}
	if len(groups) > 1 {
		// the victim and one sibling of every group (cheap enough for one process)
		cheap := map[int]bool{}
		for _, gi := range groups {
			l := byGroup[gi]
			cheap[l[0]] = true
			cheap[l[1+r.Intn(len(l)-1)]] = true
			if full {
				for _, id := range l {
					cheap[id] = true
				}
			}
		}
		specs = append(specs, crossActivitySpec(r, progs, "all-groups/activities", cheap))
	}
	for i, sp := range specs {
		sp.Env = actEnvs[i%len(actEnvs)]
	}
	return specs
}

// ---------------------------------------------------------------- model ops (ahist)

// ahistOp: the op line and the expected result line of one activity history
// whose programs are all modelled (wide constant folds XORed onto the
// arguments), or ok=false.
//
//	ahist <step>;<step>;...      step = <K>/<argbits,...>/<ret,...>/<in,...>
//	                             ret  = <arg> | <arg>:<w>:<op>:<x>:<y>
//
// result per step (joined by `;`): `c=<folded constants>|w=<NumWires-NumGates>`
// for the kinds that compile a circuit, `v=<results>` for the kinds that run
// the program.
func ahistOp(sp *pSpec, rs []*pStepRes) (op, want string, ok bool) {
	var steps, wants []string
	for i, st := range sp.Steps {
		p := sp.Progs[st.Prog]
		r := rs[i]
		if len(p.Rets) == 0 || r.Err != "" {
			return "", "", false
		}
		k := stepKind(st)
		var args, rets []string
		for _, a := range p.Args {
			args = append(args, fmt.Sprint(a.Bits))
		}
		for _, rt := range p.Rets {
			if rt.Fold == nil {
				rets = append(rets, fmt.Sprint(rt.Arg))
			} else {
				rets = append(rets, fmt.Sprintf("%d:%d:%s:%s:%s", rt.Arg, rt.Fold.W, rt.Fold.Op, rt.Fold.X, rt.Fold.Y))
			}
		}
		ins := "-"
		if len(st.In) > 0 {
			ins = strings.Join(st.In, ",")
		}
		steps = append(steps, fmt.Sprintf("%s/%s/%s/%s", kindLetter(k), strings.Join(args, ","), strings.Join(rets, ","), ins))
		var w []string
		switch kindLetter(k) {
		case "C", "R", "E", "G":
			if len(r.Consts) != len(p.Folds) {
				return "", "", false
			}
			w = append(w, "c="+strings.Join(r.Consts, ","), fmt.Sprintf("w=%d", r.Wires-r.Gates))
		}
		switch kindLetter(k) {
		case "S", "E", "G":
			if r.Status != "ok" {
				return "", "", false
			}
			w = append(w, "v="+r.Vals)
		case "A":
			w = append(w, "ssa")
		}
		wants = append(wants, strings.Join(w, "|"))
	}
	return "ahist " + strings.Join(steps, ";"), strings.Join(wants, ";"), true
}

package main

// Corpus of MPCL programs: apps/garbled/examples, testsuite, and generated
// programs importing 2-4 library packages (generated ones with package-level
// var/const/make and real ones from $MPCLDIR/pkg).

import (
	"fmt"
	"os"
	"path/filepath"
	"regexp"
	"sort"
	"strings"

	"github.com/markkurossi/mpc/circuit"
	"github.com/markkurossi/mpc/compiler"
	"github.com/markkurossi/mpc/compiler/utils"

	"verifharness/hxlib"
)

// GenPkg is the generator's knowledge about one generated library package.
type GenPkg struct {
	Name    string   `json:"name"`
	Imports []string `json:"imports"` // aliases (generated and real)
	NVars   int      `json:"nvars"`
	NAnon   int      `json:"nanon"`
	Func    string   `json:"func"`
	Calls   []string `json:"calls"` // generated packages whose F is called by this package's F (in order)
}

// GenInfo is the generator's knowledge about a generated program.
type GenInfo struct {
	Pkgs      []GenPkg `json:"pkgs"`       // generated library packages
	Main      GenPkg   `json:"main"`       // the main package
	CallOrder []string `json:"call_order"` // function labels in expansion order for one compilation (without #k)
}

// examples that compile in about a second or less (quick tier) and the
// heavier ones (thorough tier).  Examples needing more than ~10 s
// (elliptic, p256add, rsasign, sort, montgomery) and those depending on the
// emptied sha512 circuit files are left out.
var quickExamples = []string{"3party", "add", "and", "credit", "div", "hamming", "key-import", "millionaire",
	"rps", "sub", "aesblock2", "chacha20block", "aesexpand"}
var heavyExamples = []string{"aesblock", "aescbc", "encrypt", "mascot", "mult", "mult1024", "rsa"}

// input sizes for examples whose main has unsized arguments
var exampleSizes = map[string][][]int{
	"aesctr":           {{128, 128, 256}, {128}},
	"hmac-sha256":      {{256, 512}, {512}},
	"chacha20":         {{256, 96, 256}, {256}},
	"chacha20poly1305": {{256, 96, 64, 128}, {256}},
	"aesgcm":           {{128, 96, 128, 64}, {128}},
	"poly1305":         {{256}, {256}},
	"hkdf":             {{256}, {256}},
}

var reWS = regexp.MustCompile(`\s+`)

// testsuiteSizes derives the input sizes from the first @Test annotation of
// main, as testsuite_test.go does.
func testsuiteSizes(file string) ([][]int, bool) {
	defer func() { recover() }()
	p := utils.NewParams()
	p.Warn.DisableAll()
	pkg, err := compiler.New(p).ParseFile(file)
	if err != nil {
		return nil, false
	}
	main, ok := pkg.Functions["main"]
	if !ok {
		return nil, false
	}
	for _, a := range main.Annotations {
		ann := strings.TrimSpace(a)
		if strings.HasPrefix(ann, "@heavy") {
			return nil, false
		}
		if !strings.HasPrefix(ann, "@Test ") {
			continue
		}
		parts := reWS.Split(ann, -1)
		var sizes [][]int
		for i := 1; i < len(parts); i++ {
			if parts[i] == "=" {
				break
			}
			s, err := circuit.InputSizes(strings.Split(parts[i], ","))
			if err != nil {
				return nil, false
			}
			sizes = append(sizes, s)
		}
		return sizes, true
	}
	return nil, true
}

func readEmptied(repo string) map[string]bool {
	res := map[string]bool{}
	b, err := os.ReadFile("/root/.vp/EMPTIED_FILES.txt")
	if err != nil {
		return res
	}
	for _, l := range strings.Split(string(b), "\n") {
		l = strings.TrimSpace(l)
		if l != "" {
			res[l] = true
		}
	}
	return res
}

func buildCorpus(repo, work string, tier string, seed uint64, ngen int, o *hxlib.Out) []*Job {
	var jobs []*Job
	quick := tier == "quick"
	rng := hxlib.NewRng(seed)
	add := func(j *Job) {
		j.Variant = len(jobs) % 3
		j.Index = len(jobs)
		if j.Heavy {
			// the heavy examples are compiled with default parameters only
			// (mascot under the GMW target needs > 17 GB)
			j.Variant = 0
		}
		jobs = append(jobs, j)
		o.Count("corpus_" + j.Family)
	}
	// --- examples
	exs := append([]string{}, quickExamples...)
	for k := range exampleSizes {
		exs = append(exs, k)
	}
	sort.Strings(exs)
	if !quick {
		exs = append(exs, heavyExamples...)
	}
	for _, n := range exs {
		b, err := os.ReadFile(filepath.Join(repo, "apps/garbled/examples", n+".mpcl"))
		if err != nil {
			o.Count("corpus_missing_example")
			continue
		}
		if strings.Contains(string(b), "sha512") {
			o.Count("corpus_skipped_sha512")
			continue
		}
		heavy := false
		for _, hn := range heavyExamples {
			heavy = heavy || hn == n
		}
		add(&Job{Name: "examples/" + n, Family: "example", Src: string(b), Sizes: exampleSizes[n], Heavy: heavy})
	}
	// --- testsuite
	var ts []string
	filepath.WalkDir(filepath.Join(repo, "testsuite"), func(p string, d os.DirEntry, err error) error {
		if err == nil && !d.IsDir() && strings.HasSuffix(p, ".mpcl") {
			ts = append(ts, p)
		}
		return nil
	})
	sort.Strings(ts)
	var tsJobs []*Job
	for _, p := range ts {
		rel, _ := filepath.Rel(repo, p)
		b, err := os.ReadFile(p)
		if err != nil {
			continue
		}
		s := string(b)
		if strings.Contains(s, "sha512") || strings.Contains(rel, "sha512") || strings.Contains(s, "ed25519") ||
			strings.Contains(s, "@heavy") || strings.Contains(s, "crypto/rsa") || (quick && strings.Contains(rel, "/cts/")) {
			o.Count("corpus_skipped_testsuite")
			continue
		}
		sizes, ok := testsuiteSizes(p)
		if !ok {
			o.Count("corpus_skipped_testsuite")
			continue
		}
		tsJobs = append(tsJobs, &Job{Name: rel, Family: "testsuite", Src: s, Sizes: sizes})
	}
	if quick {
		// all of testsuite/lang (tiny, covers the language features), up to 10
		// other programs that import packages, and a seeded sample of the rest
		var keep, restJ []*Job
		nimp := 0
		for _, j := range tsJobs {
			if strings.Contains(j.Name, "/lang/") {
				keep = append(keep, j)
			} else if strings.Contains(j.Src, "import") && nimp < 10 {
				keep = append(keep, j)
				nimp++
			} else {
				restJ = append(restJ, j)
			}
		}
		for n := 0; n < 6 && len(restJ) > 0; n++ {
			i := rng.Intn(len(restJ))
			keep = append(keep, restJ[i])
			restJ = append(restJ[:i], restJ[i+1:]...)
		}
		tsJobs = keep
	}
	for _, j := range tsJobs {
		add(j)
	}
	// --- hand-written programs importing real library packages with
	// package-level variables (aes, hex, hkdf)
	add(&Job{Name: "lib/aes-hex-hkdf", Family: "library", Src: `package main

import (
	"crypto/aes"
	"encoding/hex"
	"crypto/hkdf"
)

func main(a, b [16]byte) ([]uint32, byte, byte) {
	xk := aes.ExpandEncryptionKey(a[:])
	return xk, hex.Digits[b[0] & 0xf], hkdf.EmptyHashTLS13[3] ^ b[1]
}
`})
	add(&Job{Name: "lib/hex-hkdf-math", Family: "library", Src: `package main

import (
	"encoding/hex"
	"crypto/hkdf"
	"math"
)

const K = 3

func main(a, b uint32) (uint32, byte, byte) {
	return a + math.MaxUint8 + K, hex.Digits[b & 0xf], hkdf.EmptyHashTLS13[5] ^ hkdf.ZeroHashTLS13[1]
}
`})
	// --- generated
	for i := 0; i < ngen; i++ {
		j := genProgram(rng.Fork(), work, i, false)
		add(j)
	}
	// two programs whose imported packages use the same alias for different
	// packages (Compiler.packages is keyed by alias)
	nac := 1
	if ngen > 10 {
		nac = 4
	}
	for i := 0; i < nac; i++ {
		add(genProgram(rng.Fork(), work, 1000+i, true))
	}
	return jobs
}

var realPkgs = []struct {
	alias, path, expr string
	hasVars           bool
}{
	{"math", "math", "uint32(math.MaxUint8)", false},
	{"hex", "encoding/hex", "uint32(hex.Digits[x&15])", true},
	{"hkdf", "crypto/hkdf", "uint32(hkdf.EmptyHashTLS13[x&31])", true},
}

// genProgram writes 2-5 library packages into <work>/genlib-<idx>/ and
// returns a main program importing 2-4 packages.  Everything derives from
// the rng.
func genProgram(r *hxlib.Rng, work string, idx int, aliasCollision bool) *Job {
	lib := filepath.Join(work, fmt.Sprintf("genlib-%d", idx))
	npk := 2 + r.Intn(4)
	if aliasCollision {
		npk = 2
	}
	letters := "ABCDEF"
	info := &GenInfo{}
	type gp struct {
		GenPkg
		src string
	}
	var pk []*gp
	write := func(name, src string) {
		dir := filepath.Join(lib, name)
		os.MkdirAll(dir, 0o755)
		os.WriteFile(filepath.Join(dir, filepath.Base(name)+".mpcl"), []byte(src), 0o644)
	}
	if aliasCollision {
		// two different leaf packages with the same base name `hx` (like
		// math/rand and crypto/rand in Go), each imported by one package
		write("vqx/hx", "package hx\n\nfunc G(x uint32) uint32 {\n\treturn x + 1111\n}\n")
		write("vqy/hx", "package hx\n\nfunc G(x uint32) uint32 {\n\treturn x ^ 2222\n}\n")
	}
	for i := 0; i < npk; i++ {
		L := string(letters[i])
		p := &gp{}
		p.Name = "vq" + strings.ToLower(L)
		p.Func = "F" + L
		var sb strings.Builder
		fmt.Fprintf(&sb, "package %s\n\n", p.Name)
		var imps []string
		var terms []string
		var pre []string
		// imports of earlier generated packages
		for k := 0; k < i; k++ {
			if r.Intn(3) == 0 && !aliasCollision {
				q := pk[k]
				imps = append(imps, fmt.Sprintf("\t\"%s\"", q.Name))
				p.Imports = append(p.Imports, q.Name)
				p.Calls = append(p.Calls, q.Name)
				pre = append(pre, fmt.Sprintf("\ty%d := %s.%s(x)\n", k, q.Name, q.Func))
				terms = append(terms, fmt.Sprintf("y%d", k))
			}
		}
		for _, rp := range realPkgs {
			if r.Intn(4) == 0 {
				imps = append(imps, fmt.Sprintf("\t\"%s\"", rp.path))
				p.Imports = append(p.Imports, rp.alias)
				terms = append(terms, rp.expr)
			}
		}
		if aliasCollision {
			tgt := []string{"vqx/hx", "vqy/hx"}[i]
			imps = append(imps, fmt.Sprintf("\t\"%s\"", tgt))
			p.Imports = append(p.Imports, "hx")
			terms = append(terms, "hx.G(x)")
		}
		if len(imps) > 0 {
			fmt.Fprintf(&sb, "import (\n%s\n)\n\n", strings.Join(imps, "\n"))
		}
		c1 := 3 + r.Intn(200)
		fmt.Fprintf(&sb, "const C%s = %d\n", L, c1)
		terms = append(terms, "x*C"+L)
		if r.Bool() {
			fmt.Fprintf(&sb, "const D%s = C%s + %d\n", L, L, 1+r.Intn(50))
			terms = append(terms, "D"+L)
		}
		if r.Intn(4) != 0 {
			fmt.Fprintf(&sb, "\nvar T%s = [4]uint32{%d, %d, %d, %d}\n", L, r.Intn(1000), r.Intn(1000), r.Intn(1000), r.Intn(1000))
			p.NVars++
			terms = append(terms, fmt.Sprintf("T%s[x&3]", L))
		}
		if r.Intn(3) == 0 {
			fmt.Fprintf(&sb, "var S%s = uint32(%d)\n", L, r.Intn(5000))
			p.NVars++
			terms = append(terms, "S"+L)
		}
		if r.Intn(2) == 0 {
			fmt.Fprintf(&sb, "var U%s = make([]byte, 4)\n", L)
			p.NVars++
			p.NAnon++
			terms = append(terms, fmt.Sprintf("uint32(U%s[x&3])", L))
		}
		fmt.Fprintf(&sb, "\nfunc %s(x uint32) uint32 {\n%s\treturn %s\n}\n", p.Func, strings.Join(pre, ""),
			strings.Join(terms, " + "))
		// a function whose instantiation fails (used by the failing-history programs only)
		fmt.Fprintf(&sb, "\nfunc Bad%s(x uint32) uint32 {\n\treturn x + nosuchvar%s\n}\n", L, L)
		p.src = sb.String()
		write(p.Name, p.src)
		pk = append(pk, p)
		info.Pkgs = append(info.Pkgs, p.GenPkg)
	}
	// main imports 2-4 packages: generated ones (at least 2 when available) and real ones
	var sb strings.Builder
	sb.WriteString("package main\n\n")
	var imps, body, rets []string
	main := GenPkg{Name: "main", Func: "main"}
	perm := make([]int, npk)
	for i := range perm {
		perm[i] = i
	}
	for i := npk - 1; i > 0; i-- {
		k := r.Intn(i + 1)
		perm[i], perm[k] = perm[k], perm[i]
	}
	nimp := 2 + r.Intn(3)
	if nimp > npk {
		nimp = npk
	}
	for n, pi := range perm[:nimp] {
		q := pk[pi]
		imps = append(imps, fmt.Sprintf("\t\"%s\"", q.Name))
		main.Imports = append(main.Imports, q.Name)
		arg := []string{"a", "b"}[n%2]
		body = append(body, fmt.Sprintf("\tx%d := %s.%s(%s)\n", n, q.Name, q.Func, arg))
		main.Calls = append(main.Calls, q.Name)
		rets = append(rets, fmt.Sprintf("x%d", n))
		if r.Intn(3) == 0 {
			n2 := n + 10
			body = append(body, fmt.Sprintf("\tx%d := %s.%s(%s + %d)\n", n2, q.Name, q.Func, arg, 1+r.Intn(9)))
			main.Calls = append(main.Calls, q.Name)
			rets = append(rets, fmt.Sprintf("x%d", n2))
		}
	}
	if len(main.Imports) < 4 && r.Intn(2) == 0 && !aliasCollision {
		rp := realPkgs[r.Intn(len(realPkgs))]
		imps = append(imps, fmt.Sprintf("\t\"%s\"", rp.path))
		main.Imports = append(main.Imports, rp.alias)
		body = append(body, fmt.Sprintf("\tx := a\n\tz := %s\n", rp.expr))
		rets = append(rets, "z")
	}
	fmt.Fprintf(&sb, "import (\n%s\n)\n\n", strings.Join(imps, "\n"))
	if r.Bool() {
		fmt.Fprintf(&sb, "const MK = %d\n\n", r.Intn(99))
		rets = append(rets, "MK")
	}
	if r.Intn(3) == 0 {
		fmt.Fprintf(&sb, "var MT = [2]uint32{%d, %d}\n\n", r.Intn(99), r.Intn(99))
		main.NVars++
		rets = append(rets, "MT[b&1]")
	}
	fmt.Fprintf(&sb, "func main(a, b uint32) (uint32, uint32) {\n%s\treturn %s, a ^ b\n}\n",
		strings.Join(body, ""), strings.Join(rets, " + "))
	info.Main = main
	// expansion order of the function labels of one compilation
	byName := map[string]*gp{}
	for _, p := range pk {
		byName[p.Name] = p
	}
	var expand func(name string)
	expand = func(name string) {
		p := byName[name]
		info.CallOrder = append(info.CallOrder, p.Func)
		for _, c := range p.Calls {
			expand(c)
		}
	}
	info.CallOrder = append(info.CallOrder, "main")
	for _, c := range main.Calls {
		expand(c)
	}
	fam := "generated"
	if aliasCollision {
		fam = "alias-collision"
	}
	return &Job{Name: fmt.Sprintf("%s/%d", fam, idx), Family: fam, Src: sb.String(), PkgPath: []string{lib}, Gen: info}
}

// ---------------------------------------------------------------- import scanner

var reImportBlock = regexp.MustCompile(`(?s)import\s*\((.*?)\)`)
var reImportLine = regexp.MustCompile(`^\s*(?:([A-Za-z_][A-Za-z0-9_]*)\s+)?"([^"]+)"`)
var reImportSingle = regexp.MustCompile(`(?m)^import\s+(?:([A-Za-z_][A-Za-z0-9_]*)\s+)?"([^"]+)"`)
var reVarDecl = regexp.MustCompile(`(?m)^var\b`)

// scanImports returns alias -> path of an MPCL source text.
func scanImports(src string) map[string]string {
	res := map[string]string{}
	put := func(alias, path string) {
		if alias == "" {
			parts := strings.Split(path, "/")
			alias = parts[len(parts)-1]
		}
		res[alias] = path
	}
	for _, m := range reImportBlock.FindAllStringSubmatch(src, -1) {
		for _, ln := range strings.Split(m[1], "\n") {
			if lm := reImportLine.FindStringSubmatch(ln); lm != nil {
				put(lm[1], lm[2])
			}
		}
	}
	for _, m := range reImportSingle.FindAllStringSubmatch(src, -1) {
		put(m[1], m[2])
	}
	return res
}

type libPkg struct {
	imports map[string]string
	hasVars bool
	found   bool
}

// readLibPkg reads a library package's sources from the package search path
// (first $MPCLDIR/pkg, then the job's PkgPath, as Compiler.parsePkg does).
func readLibPkg(repo string, pkgPath []string, path string) libPkg {
	dirs := append([]string{filepath.Join(repo, "pkg")}, pkgPath...)
	for _, d := range dirs {
		ents, err := os.ReadDir(filepath.Join(d, path))
		if err != nil {
			continue
		}
		lp := libPkg{imports: map[string]string{}, found: true}
		for _, e := range ents {
			if !compiler.IsFilename(e.Name()) {
				continue
			}
			b, err := os.ReadFile(filepath.Join(d, path, e.Name()))
			if err != nil {
				continue
			}
			for a, p := range scanImports(string(b)) {
				lp.imports[a] = p
			}
			if reVarDecl.Match(b) {
				lp.hasVars = true
			}
		}
		return lp
	}
	return libPkg{}
}

// importClosure returns, for a job, alias -> (path, imports, hasVars) of
// every package reachable from main, and the aliases that are bound to two
// different paths somewhere in the closure.
func importClosure(repo string, j *Job) (map[string]libPkg, map[string]string, []string) {
	pkgs := map[string]libPkg{}
	paths := map[string]string{}
	collide := map[string]bool{}
	mainImports := scanImports(j.Src)
	var visit func(imports map[string]string)
	visit = func(imports map[string]string) {
		var aliases []string
		for a := range imports {
			aliases = append(aliases, a)
		}
		sort.Strings(aliases)
		for _, a := range aliases {
			p := imports[a]
			if old, ok := paths[a]; ok {
				if old != p {
					collide[a] = true
				}
				continue
			}
			paths[a] = p
			lp := readLibPkg(repo, j.PkgPath, p)
			pkgs[a] = lp
			visit(lp.imports)
		}
	}
	visit(mainImports)
	pkgs["main"] = libPkg{imports: mainImports, hasVars: reVarDecl.MatchString(j.Src), found: true}
	var cl []string
	for a := range collide {
		cl = append(cl, a)
	}
	sort.Strings(cl)
	return pkgs, paths, cl
}

package main

// Structural facts for C08 (mode `facts`), extracted from the repository's
// current source with go/parser + go/types:
//
//   - every `range` over a map in the packages the compile path consists of,
//     with the enclosing function, the ranged expression, the map's type, the
//     normalised source text of the loop body and of the statement following
//     the loop (this is where DefineConstants has its sort);
//   - every package-level variable of those packages (state that survives a
//     compilation: history dependence can only live in Compiler fields,
//     cached AST objects and package-level variables);
//   - the fields of compiler.Compiler, ast.Package and ast.Func (the state
//     cached across compilations by Compiler.packages);
//   - `go` statements, `select` statements, math/rand / crypto/rand / time /
//     %p uses (other sources of run-to-run variation).
//
// checks/C08.py compares all of this with its expectation table: a new map
// range site (or new surviving state) without a Lean obligation is a broken
// tie.

import (
	"bytes"
	"fmt"
	"go/ast"
	"go/build"
	"go/importer"
	"go/parser"
	"go/printer"
	"go/token"
	"go/types"
	"os"
	"path/filepath"
	"sort"
	"strings"
)

const modPath = "github.com/markkurossi/mpc"

// Packages that make up the compile path (Compiler.Compile / CompileSSA /
// Stream, DESIGN C08).
var factPkgs = []string{
	"compiler", "compiler/ast", "compiler/ssa", "compiler/circuits",
	"compiler/utils", "compiler/mpa", "types", "circuit",
}

type repoImporter struct {
	root  string
	fset  *token.FileSet
	pkgs  map[string]*types.Package
	files map[string][]*ast.File
	infos map[string]*types.Info
	std   types.Importer
	errs  []string
	// third-party imports that could not be loaded (replaced by empty packages)
	stubbed []string
}

func (ri *repoImporter) Import(path string) (*types.Package, error) {
	return ri.ImportFrom(path, "", 0)
}

func (ri *repoImporter) ImportFrom(path, dir string, mode types.ImportMode) (*types.Package, error) {
	if p, ok := ri.pkgs[path]; ok {
		return p, nil
	}
	if path == modPath || strings.HasPrefix(path, modPath+"/") {
		rel := strings.TrimPrefix(strings.TrimPrefix(path, modPath), "/")
		return ri.load(path, filepath.Join(ri.root, rel))
	}
	var p *types.Package
	var err error
	if from, ok := ri.std.(types.ImporterFrom); ok {
		// resolve third-party modules relative to the repository (go list runs there)
		p, err = from.ImportFrom(path, ri.root, 0)
	} else {
		p, err = ri.std.Import(path)
	}
	if err != nil || p == nil {
		ri.stubbed = append(ri.stubbed, path)
		// third-party dependency not needed for map types: stub package
		p = types.NewPackage(path, filepath.Base(path))
		p.MarkComplete()
	}
	ri.pkgs[path] = p
	return p, nil
}

func (ri *repoImporter) load(path, dir string) (*types.Package, error) {
	ents, err := os.ReadDir(dir)
	if err != nil {
		return nil, err
	}
	bctx := build.Default
	var files []*ast.File
	for _, e := range ents {
		n := e.Name()
		if e.IsDir() || !strings.HasSuffix(n, ".go") || strings.HasSuffix(n, "_test.go") {
			continue
		}
		if ok, _ := bctx.MatchFile(dir, n); !ok {
			continue
		}
		f, err := parser.ParseFile(ri.fset, filepath.Join(dir, n), nil, parser.ParseComments)
		if err != nil {
			return nil, err
		}
		files = append(files, f)
	}
	info := &types.Info{
		Types: map[ast.Expr]types.TypeAndValue{},
		Defs:  map[*ast.Ident]types.Object{},
		Uses:  map[*ast.Ident]types.Object{},
		Selections: map[*ast.SelectorExpr]*types.Selection{},
	}
	conf := types.Config{
		Importer: ri,
		Error: func(err error) {
			// references into a stubbed third-party package are expected
			for _, sp := range ri.stubbed {
				if strings.Contains(err.Error(), "undefined: "+filepath.Base(sp)+".") {
					return
				}
			}
			if len(ri.errs) < 20 {
				ri.errs = append(ri.errs, err.Error())
			}
		},
	}
	p, _ := conf.Check(path, ri.fset, files, info)
	ri.pkgs[path] = p
	ri.files[path] = files
	ri.infos[path] = info
	return p, nil
}

func render(fset *token.FileSet, n any) string {
	var b bytes.Buffer
	printer.Fprint(&b, fset, n)
	return strings.Join(strings.Fields(b.String()), " ")
}

func clipS(s string, n int) string {
	if len(s) > n {
		return s[:n] + "..."
	}
	return s
}

func funcName(fd *ast.FuncDecl) string {
	if fd.Recv != nil && len(fd.Recv.List) > 0 {
		t := fd.Recv.List[0].Type
		if s, ok := t.(*ast.StarExpr); ok {
			t = s.X
		}
		if ix, ok := t.(*ast.IndexExpr); ok {
			t = ix.X
		}
		if id, ok := t.(*ast.Ident); ok {
			return id.Name + "." + fd.Name.Name
		}
	}
	return fd.Name.Name
}

// stmtAfter finds the statement following `target` in its enclosing block.
func stmtAfter(root ast.Node, target ast.Stmt) ast.Stmt {
	var res ast.Stmt
	ast.Inspect(root, func(n ast.Node) bool {
		var list []ast.Stmt
		switch b := n.(type) {
		case *ast.BlockStmt:
			list = b.List
		case *ast.CaseClause:
			list = b.Body
		case *ast.CommClause:
			list = b.Body
		}
		for i, s := range list {
			if s == target && i+1 < len(list) {
				res = list[i+1]
			}
		}
		return res == nil
	})
	return res
}

func runFacts(repo string) (map[string]any, error) {
	fset := token.NewFileSet()
	ri := &repoImporter{
		root: repo, fset: fset,
		pkgs:  map[string]*types.Package{},
		files: map[string][]*ast.File{},
		infos: map[string]*types.Info{},
		std:   importer.ForCompiler(fset, "source", nil),
	}
	var mapRanges, pkgVars, goStmts, randUses, guardedCalls, sortedLoops, codegenEntries []map[string]any
	funcBodies := map[string]string{}
	// methods whose map ranges are classified "unreachable": every call site is listed
	watched := map[string]bool{"(*ssa.Program).Peephole": true, "(*ssa.Program).liveness": true,
		"(ssa.Set).Copy": true, "(ssa.Set).Subtract": true, "(ssa.Set).Array": true,
		"(*utils.Params).SaveSymbolIDs": true, "(*ssa.Rule).Match": true}
	structs := map[string][]string{}
	wantStructs := map[string]bool{"compiler.Compiler": true, "ast.Package": true, "ast.Func": true,
		"ssa.Generator": true}
	for _, rel := range factPkgs {
		path := modPath + "/" + rel
		if _, err := ri.ImportFrom(path, "", 0); err != nil {
			return nil, fmt.Errorf("load %s: %v", rel, err)
		}
		info := ri.infos[path]
		for _, f := range ri.files[path] {
			fname, _ := filepath.Rel(repo, fset.Position(f.Pos()).Filename)
			// imports that matter
			for _, im := range f.Imports {
				p := strings.Trim(im.Path.Value, "\"")
				if p == "math/rand" || p == "math/rand/v2" || p == "crypto/rand" || p == "unsafe" || p == "reflect" {
					randUses = append(randUses, map[string]any{"file": fname, "import": p})
				}
			}
			for _, d := range f.Decls {
				switch d := d.(type) {
				case *ast.GenDecl:
					if d.Tok == token.VAR {
						for _, sp := range d.Specs {
							vs := sp.(*ast.ValueSpec)
							for _, n := range vs.Names {
								if n.Name == "_" {
									continue
								}
								ts := "?"
								if obj := info.Defs[n]; obj != nil && obj.Type() != nil {
									ts = types.TypeString(obj.Type(), shortQual)
								}
								pkgVars = append(pkgVars, map[string]any{"pkg": rel, "name": n.Name, "type": ts})
							}
						}
					}
					if d.Tok == token.TYPE {
						for _, sp := range d.Specs {
							ts := sp.(*ast.TypeSpec)
							key := filepath.Base(rel) + "." + ts.Name.Name
							if st, ok := ts.Type.(*ast.StructType); ok && wantStructs[key] {
								for _, fl := range st.Fields.List {
									for _, n := range fl.Names {
										structs[key] = append(structs[key], n.Name+" "+render(fset, fl.Type))
									}
								}
							}
						}
					}
				case *ast.FuncDecl:
					if d.Body == nil {
						continue
					}
					fn := funcName(d)
					if rel == "compiler" && fn == "Compiler.resetPackages" || rel == "compiler/ast" && fn == "Package.SortedImports" {
						funcBodies[fn] = clipS(render(fset, d.Body), 600)
					}
					if rel == "compiler" {
						// entry points that generate code (call ast.NewCodegen): is
						// `c.resetPackages()` a top-level statement before the first c.parse?
						hasCodegen, resetAt, parseAt := false, -1, -1
						for i, st := range d.Body.List {
							txt := render(fset, st)
							if strings.Contains(txt, "ast.NewCodegen(") {
								hasCodegen = true
							}
							if es, ok := st.(*ast.ExprStmt); ok && render(fset, es.X) == "c.resetPackages()" && resetAt < 0 {
								resetAt = i
							}
							if strings.Contains(txt, "c.parse(") && parseAt < 0 {
								parseAt = i
							}
						}
						if hasCodegen {
							codegenEntries = append(codegenEntries, map[string]any{"func": fn,
								"reset_before_parse": resetAt >= 0 && parseAt >= 0 && resetAt < parseAt})
						}
					}
					var stack []ast.Node
					underIfFalse := func() bool {
						for _, a := range stack {
							if is, ok := a.(*ast.IfStmt); ok {
								if id, ok := is.Cond.(*ast.Ident); ok && id.Name == "false" {
									return true
								}
							}
						}
						return false
					}
					ast.Inspect(d.Body, func(n ast.Node) bool {
						if n == nil {
							stack = stack[:len(stack)-1]
							return true
						}
						stack = append(stack, n)
						switch s := n.(type) {
						case *ast.CallExpr:
							if se, ok := s.Fun.(*ast.SelectorExpr); ok {
								if sel := info.Selections[se]; sel != nil && sel.Kind() == types.MethodVal {
									key := "(" + types.TypeString(sel.Recv(), shortQual) + ")." + se.Sel.Name
									key2 := "(*" + types.TypeString(sel.Recv(), shortQual) + ")." + se.Sel.Name
									if watched[key] || watched[key2] {
										if watched[key2] {
											key = key2
										}
										guardedCalls = append(guardedCalls, map[string]any{"callee": key, "file": fname,
											"func": fn, "under_if_false": underIfFalse()})
									}
								}
							}
						case *ast.RangeStmt:
							if strings.HasSuffix(render(fset, s.X), ".SortedImports()") {
								sortedLoops = append(sortedLoops, map[string]any{"file": fname, "func": fn,
									"expr": render(fset, s.X), "under_if_false": underIfFalse()})
							}
							tv, ok := info.Types[s.X]
							if !ok || tv.Type == nil || tv.Type == types.Typ[types.Invalid] {
								mapRanges = append(mapRanges, map[string]any{"file": fname, "func": fn,
									"expr": render(fset, s.X), "type": "UNTYPED", "line": fset.Position(s.Pos()).Line})
								return true
							}
							if _, isMap := tv.Type.Underlying().(*types.Map); isMap {
								next := ""
								if ns := stmtAfter(d.Body, s); ns != nil {
									next = clipS(render(fset, ns), 400)
								}
								kv := ""
								if s.Key != nil {
									kv = render(fset, s.Key)
								}
								if s.Value != nil {
									kv += "," + render(fset, s.Value)
								}
								mapRanges = append(mapRanges, map[string]any{
									"file": fname, "func": fn, "expr": render(fset, s.X),
									"type": types.TypeString(tv.Type, shortQual),
									"vars": kv,
									"body": clipS(render(fset, s.Body), 1500),
									"next": next,
									"under_if_false": underIfFalse(),
									"line": fset.Position(s.Pos()).Line,
								})
							}
						case *ast.GoStmt:
							goStmts = append(goStmts, map[string]any{"file": fname, "func": fn, "kind": "go",
								"text": clipS(render(fset, s.Call.Fun), 80)})
						case *ast.SelectStmt:
							goStmts = append(goStmts, map[string]any{"file": fname, "func": fn, "kind": "select", "text": ""})
						case *ast.BasicLit:
							if s.Kind == token.STRING && strings.Contains(s.Value, "%p") {
								randUses = append(randUses, map[string]any{"file": fname, "func": fn, "import": "%p"})
							}
						}
						return true
					})
				}
			}
		}
	}
	sortMaps := func(l []map[string]any, keys ...string) {
		sort.SliceStable(l, func(i, j int) bool {
			for _, k := range keys {
				a, b := fmt.Sprint(l[i][k]), fmt.Sprint(l[j][k])
				if a != b {
					return a < b
				}
			}
			return false
		})
	}
	sortMaps(mapRanges, "file", "func", "line")
	sortMaps(pkgVars, "pkg", "name")
	sortMaps(goStmts, "file", "func", "kind", "text")
	sortMaps(randUses, "file", "import", "func")
	sortMaps(guardedCalls, "callee", "file", "func")
	sortMaps(sortedLoops, "file", "func")
	sortMaps(codegenEntries, "func")
	sem := ri.semanticFacts(repo)
	return map[string]any{
		"semantic": sem,
		"map_ranges": mapRanges, "pkg_vars": pkgVars, "go_stmts": goStmts, "rand_uses": randUses, "watched_calls": guardedCalls,
		"sorted_import_loops": sortedLoops, "codegen_entries": codegenEntries, "func_bodies": funcBodies,
		"structs": structs, "type_errors": ri.errs, "stubbed_imports": ri.stubbed,
	}, nil
}

func shortQual(p *types.Package) string { return p.Name() }

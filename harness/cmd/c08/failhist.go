package main

// Histories with FAILING compilations on one compiler.Compiler.
//
// For a good program g and failing variants f of it (parse error, unknown
// import, undefined name at the start / at the end of main, error inside an
// imported function's instance) the oracle runs, on ONE Compiler,
//
//	fail(f, entry point) ; Compile(g) ; CompileSSA(g) ; fail(f, entry point) ; Compile(g)
//
// with the failing compilation going through Compile, CompileFile, CompileSSA
// or Stream (a failing Stream returns before it touches the connection), and
//
//	CompileSSA(g) ; Compile(g)            (entry points mixed, no failure)
//
// and requires every output of g to equal the output of a fresh instance.

import (
	"fmt"
	"os"
	"path/filepath"
	"regexp"
	"strings"

	"github.com/markkurossi/mpc/compiler"
	"github.com/markkurossi/mpc/compiler/utils"
)

type failVariant struct {
	kind string
	src  string
	// number of function labels of g's expansion order emitted before the
	// failure (-1: unknown); used by the model op
	callsDone int
}

var reMainOpen = regexp.MustCompile(`func main\([^{]*\{\n`)
var reImportOpen = regexp.MustCompile(`import \(\n`)

func failingVariants(j *Job) []failVariant {
	var vs []failVariant
	src := j.Src
	if strings.Contains(src, "func main(") {
		vs = append(vs, failVariant{"parse-error", strings.Replace(src, "func main(", "func main((", 1), -1})
	}
	if loc := reImportOpen.FindStringIndex(src); loc != nil {
		vs = append(vs, failVariant{"unknown-import", src[:loc[1]] + "\t\"nosuch/zzpkg\"\n" + src[loc[1]:], -1})
	} else if i := strings.Index(src, "package main\n"); i >= 0 {
		k := i + len("package main\n")
		vs = append(vs, failVariant{"unknown-import", src[:k] + "\nimport (\n\t\"nosuch/zzpkg\"\n)\n" + src[k:], -1})
	}
	if loc := reMainOpen.FindStringIndex(src); loc != nil {
		vs = append(vs, failVariant{"undefined-name-at-start-of-main",
			src[:loc[1]] + "\tzzq := nosuchvar\n" + src[loc[1]:], 1})
	}
	if j.Gen != nil {
		if i := strings.LastIndex(src, "\treturn "); i >= 0 {
			vs = append(vs, failVariant{"undefined-name-at-end-of-main",
				src[:i] + "\tzzq := nosuchvar + 1\n" + src[i:], len(j.Gen.CallOrder)})
			if len(j.Gen.Main.Imports) > 0 {
				for _, gp := range j.Gen.Pkgs {
					if gp.Name == j.Gen.Main.Imports[0] {
						L := strings.TrimPrefix(gp.Func, "F")
						vs = append(vs, failVariant{"error-inside-imported-function-instance",
							src[:i] + fmt.Sprintf("\tzzq := %s.Bad%s(a)\n", gp.Name, L) + src[i:], len(j.Gen.CallOrder)})
						break
					}
				}
			}
		}
	}
	return vs
}

var entryPoints = []string{"Compile", "CompileFile", "CompileSSA", "Stream"}

// runFailing runs one compilation that is expected to fail through the
// given entry point; returns the error text ("" = it compiled).
func (or *oracle) runFailing(c *compiler.Compiler, p *utils.Params, j *Job, v failVariant, entry string) (errText string) {
	defer func() {
		if e := recover(); e != nil {
			errText = clipS(fmt.Sprintf("panic: %v", e), 200)
		}
	}()
	ssa := new(bufCloser)
	p.SSAOut = ssa
	defer func() { p.SSAOut = nil }()
	var err error
	switch entry {
	case "Compile":
		_, _, err = c.Compile(v.src, j.Sizes)
	case "CompileFile":
		fn := filepath.Join(or.work, "failing.mpcl")
		os.WriteFile(fn, []byte(v.src), 0o644)
		_, _, err = c.CompileFile(fn, j.Sizes)
	case "CompileSSA":
		_, _, err = c.CompileSSA("{data}", strings.NewReader(v.src), j.Sizes)
	case "Stream":
		// a failing compilation returns before conn / oti are used
		_, _, err = c.Stream(nil, nil, "{data}", strings.NewReader(v.src), nil, j.Sizes)
	}
	if err == nil {
		return ""
	}
	return clipS(err.Error(), 200)
}

// goodSSA compiles g with CompileSSA and returns the analysed listing.
func goodSSA(c *compiler.Compiler, p *utils.Params, j *Job) (res *Res) {
	res = &Res{Name: j.Name}
	defer func() {
		if e := recover(); e != nil {
			res.Err = clipS(fmt.Sprintf("panic: %v", e), 300)
		}
	}()
	ssa := new(bufCloser)
	p.SSAOut = ssa
	_, _, err := c.CompileSSA("{data}", strings.NewReader(j.Src), j.Sizes)
	p.SSAOut = nil
	if err != nil {
		res.Err = clipS(err.Error(), 300)
		return
	}
	res.ssa = ssa.String()
	analyseSSA(res, res.ssa)
	return
}

func (or *oracle) failHistFail(j *Job, v *failVariant, history []string, what, class string, fresh, got *Res) {
	key := "c08-history-with-failure/" + class + "/" + what
	or.perK[key]++
	or.o.Count("diff_history_with_failure_" + class + "_" + strings.ReplaceAll(what, "+", "_"))
	if or.perK[key] > 3 {
		return
	}
	d := map[string]any{
		"program": j.Name, "family": j.Family, "kind": "fail-history", "what": what, "class": class,
		"history":           history,
		"variant":           j.Variant,
		"sizes":             fmt.Sprint(j.Sizes),
		"good_program":      clipS(j.Src, 3000),
		"fresh_instance":    fmt.Sprintf("gates=%d circ=%s/%d ssa=%s init=%v fn=%v err=%q", fresh.Gates, fresh.CircHash, fresh.CircLen, fresh.SSAHash, fresh.InitLabels, fresh.FuncLabels, fresh.Err),
		"after_the_history": fmt.Sprintf("gates=%d circ=%s/%d ssa=%s init=%v fn=%v err=%q", got.Gates, got.CircHash, got.CircLen, got.SSAHash, got.InitLabels, got.FuncLabels, got.Err),
		"rerun_single": fmt.Sprintf("MPCLDIR=$REPO c08 oracle -seed %d -tier %s%s -only %d ...", or.seed, or.tier, or.extra, j.Index),
	}
	if v != nil {
		d["failing_program"] = clipS(v.src, 3000)
		d["failing_kind"] = v.kind
	}
	if fresh.ssa != got.ssa {
		d["ssa_diff"] = firstDiff(fresh.ssa, got.ssa)
		d["ssa_listing_fresh"] = clipS(fresh.ssa, 24000)
		d["ssa_listing_after_history"] = clipS(got.ssa, 24000)
	}
	if j.Gen != nil {
		d["library"] = clipS(or.libraryText(j), 3000)
	}
	or.fails = append(or.fails, failRec{sig: "c08-history-with-failure", detail: d, key: key})
}

func (or *oracle) libraryText(j *Job) string {
	var libs []string
	for _, p := range j.PkgPath {
		filepath.WalkDir(p, func(fp string, de os.DirEntry, err error) error {
			if err == nil && !de.IsDir() {
				b, _ := os.ReadFile(fp)
				rel, _ := filepath.Rel(p, fp)
				libs = append(libs, "// "+rel+"\n"+string(b))
			}
			return nil
		})
	}
	return strings.Join(libs, "\n")
}

// ssaOnly compares a CompileSSA result with the fresh compilation.
func ssaRelation(fresh, got *Res) (string, string) {
	a := *fresh
	b := *got
	// circuits are not produced by CompileSSA
	b.CircHash, b.CircLen = a.CircHash, a.CircLen
	return relation(&a, &b)
}

// failHistories runs the histories for one program; `fresh` is its output
// on a fresh instance.
func (or *oracle) failHistories(j *Job, fresh *Res, allEntries bool) {
	vs := failingVariants(j)
	check := func(v *failVariant, history []string, got *Res, ssaOnly bool) {
		or.o.Count("comparisons_history_with_failure")
		var what, class string
		if ssaOnly {
			what, class = ssaRelation(fresh, got)
		} else {
			what, class = relation(fresh, got)
		}
		if class != "equal" {
			or.failHistFail(j, v, append([]string{}, history...), what, class, fresh, got)
		}
	}
	for vi := range vs {
		v := &vs[vi]
		for ei, entry := range entryPoints {
			if !allEntries && ei != (vi+j.Index)%len(entryPoints) && !(v.kind == "undefined-name-at-start-of-main" && entry == "Compile") {
				continue
			}
			p := newParams(j)
			c := compiler.New(p)
			var history []string
			ev := fmt.Sprintf("%s(failing program: %s)", entry, v.kind)
			e1 := or.runFailing(c, p, j, *v, entry)
			or.o.Count("compilations")
			if e1 == "" {
				or.o.Count("failing_variant_compiled_" + v.kind)
				continue
			}
			or.o.Count("failing_compilations_" + v.kind)
			or.o.Count("failing_compilations_via_" + entry)
			history = append(history, ev+" -> error: "+e1)
			g1 := compileOn(c, p, j)
			or.o.Count("compilations")
			history = append(history, "Compile(good program)")
			check(v, history, g1, false)
			g2 := goodSSA(c, p, j)
			or.o.Count("compilations")
			history = append(history, "CompileSSA(good program)")
			check(v, history, g2, true)
			or.runFailing(c, p, j, *v, entry)
			history = append(history, ev)
			g3 := compileOn(c, p, j)
			or.o.Count("compilations")
			history = append(history, "Compile(good program)")
			check(v, history, g3, false)
			// model op: generated programs, failure in main, through Compile
			if j.Gen != nil && entry == "Compile" && v.callsDone >= 0 && g1.Err == "" && g3.Err == "" {
				or.fhistOp(j, v, g1, g3)
			}
		}
	}
	// entry points mixed, no failure
	{
		p := newParams(j)
		c := compiler.New(p)
		g0 := goodSSA(c, p, j)
		check(nil, []string{"CompileSSA(good program)"}, g0, true)
		g1 := compileOn(c, p, j)
		or.o.Count("compilations")
		check(nil, []string{"CompileSSA(good program)", "Compile(good program)"}, g1, false)
	}
}

// fhistOp: the Lean history model with `fail` events must give the labels of
// the good compilations that follow failing ones.
func (or *oracle) fhistOp(j *Job, v *failVariant, g1, g3 *Res) {
	pf, ok := or.closureFacts(j)
	if !ok {
		return
	}
	order := reversedOrder(pf)
	want := func(r *Res) string { return "init=" + plainList(r.InitLabels) + ";fn=" + plainList(r.FuncLabels) }
	or.o.Op(fmt.Sprintf("fhist %s main %s %d", pkgSpec(pf, order), plainList(j.Gen.CallOrder), v.callsDone),
		want(g1)+"/"+want(g3))
	or.o.Count("op_fhist")
}

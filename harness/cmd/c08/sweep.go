package main

// WIDTH SWEEP (mode `sweep`).
//
// The property quantifies over ALL programs.  The circuit of an arithmetic or
// comparison operator is made by a builder of compiler/circuits whose
// construction depends on the operand WIDTH (array / Karatsuba / Wallace
// multipliers and their thresholds, long / restoring / Goldschmidt dividers,
// ripple / Kogge-Stone adders ...), possibly through a package-level table
// keyed by the width.  A dependence of such a choice on the runtime's map
// iteration order shows at SOME widths only (e.g. where two table entries are
// equally close), so the other generators of this harness - a handful of
// widths each - cannot be relied on to meet it.  This mode sweeps the width:
//
//	programs   one operator per program: `func main(a, b <T>W) R { return a OP b }` for
//	           * / % + - < <= > >= == != and one program with & | ^ and a select; T = uint / int;
//	           parameter variants prune (Yao) and prune+GMW;
//	widths     quick tier: the third of 1..130 with w % 3 == seed % 3 (three consecutive seeds cover all),
//	           thorough tier: all of 1..130; in every tier the powers of two and the BOUNDARY widths of every
//	           integer-keyed package-level table of the compile path (facts `int_tables`): the midpoints
//	           between consecutive runs of keys (floor and ceiling) - and, thorough tier, the edges of the
//	           runs (first-1, first, last, last+1; up to 1024 bits); programs whose estimated compile time is above the tier's
//	           cap are left out (GMW dividers are ~5 s at 130 bits);
//	repetition every program is compiled in P = 8 child processes (own map hash seeds; GOMAXPROCS / GOGC
//	           varied), R times in each (alternately on a fresh Compiler and on the process's long-lived one),
//	           R = 2 / 1 / 1 by estimated cost in the quick tier, 4 / 2 / 1 in the thorough tier, 8 / 4 / 2 in a
//	           focused sweep, 8 at the boundary widths of a table (64 compilations: which of two map entries comes
//	           first is a rotation, not a fair coin): at least 8 compilations in 8 processes.  An
//	           order dependence with two equally likely outcomes per process is missed with probability
//	           2^-7 < 0.01, one decided per iteration with 2^-(8R-1);
//	oracle     all compilations of one program must give the same circuit bytes and SSA listing; a program with
//	           more than one output is confirmed alone (8 processes x 16 compilations) and reported as
//	           c08-width-sweep-nondeterministic with the program as the replay.
//	focus      a NEW or CHANGED map-range site (checks/C08.py) in a function that a builder reaches: all
//	           widths 1..130 + powers of two + table midpoints and edges, the operators of those builders,
//	           both signednesses, more repetitions.
//
// Model ops (`mthr`): what the harness can observe of the width-indexed table
// of the multiplier through the public compile path - the limits L for which
// a compilation of `a * b` with Params.CircMultArrayTreshold = L gives the
// byte-identical circuit as the default parameters - must be what the Lean
// model (Model/WidthTable.lean: lookup BY KEY with default 21, then the
// Karatsuba recursion) computes from the table read from the source.

import (
	"bufio"
	"crypto/sha256"
	"encoding/hex"
	"encoding/json"
	"fmt"
	"math"
	"os"
	"os/exec"
	"path/filepath"
	"sort"
	"strings"
	"sync"
	"time"

	"github.com/markkurossi/mpc/compiler"
	"github.com/markkurossi/mpc/compiler/utils"

	"verifharness/hxlib"
)

type swProg struct {
	ID      int     `json:"id"`
	Name    string  `json:"name"`
	Op      string  `json:"op"`
	W       int     `json:"w"`
	Signed  bool    `json:"signed"`
	Variant int     `json:"variant"` // 1 prune (Yao), 2 prune + GMW
	Src     string  `json:"src"`
	Reps    int     `json:"reps"`
	Class   string  `json:"class"` // why the width is part of the sweep
	EstMs   float64 `json:"est_ms"`
}

// swOut: one distinct output of a program in one process
type swOut struct {
	Err     string `json:"err"`
	Circ    string `json:"circ"`
	CircLen int    `json:"circ_len"`
	Gates   int    `json:"gates"`
	Wires   int    `json:"wires"`
	SSA     string `json:"ssa"`
	Count   int    `json:"count"`
	First   int    `json:"first"` // repetition that gave it first
}

func (a *swOut) key() string { return fmt.Sprintf("%s|%s|%d|%s", a.Err, a.Circ, a.CircLen, a.SSA) }

type swRes struct {
	ID   int      `json:"id"`
	Outs []*swOut `json:"outs"`
	Ms   int64    `json:"ms"`
}

type swSpec struct {
	Progs []*swProg `json:"progs"`
}

// ---------------------------------------------------------------- child

// swCompile: one compilation, what the property observes of it (Circuit.Marshal bytes after AssignLevels, SSA
// listing) as hashes; without the listing analysis of compileOn.
func swCompile(c *compiler.Compiler, params *utils.Params, j *Job) (so *swOut) {
	so = &swOut{Count: 1}
	defer func() {
		if e := recover(); e != nil {
			so.Err = clipS(fmt.Sprintf("panic: %v", e), 300)
		}
	}()
	ssa := new(bufCloser)
	params.SSAOut = ssa
	circ, _, err := c.Compile(j.Src, j.Sizes)
	params.SSAOut = nil
	if err != nil {
		so.Err = clipS(err.Error(), 300)
		return
	}
	circ.AssignLevels(params.Target)
	hs := sha256.New()
	bw := bufio.NewWriterSize(hs, 1<<16)
	cw := &countWriter{w: bw}
	if err := circ.Marshal(cw); err != nil {
		so.Err = "marshal: " + err.Error()
		return
	}
	bw.Flush()
	so.Circ = hex.EncodeToString(hs.Sum(nil)[:12])
	so.CircLen = cw.n
	so.Gates = circ.NumGates
	so.Wires = circ.NumWires
	so.SSA = h(ssa.Bytes())
	return
}

func runSwChild(args []string) {
	devNullStdout()
	if len(args) < 2 {
		os.Exit(2)
	}
	var spec swSpec
	b, err := os.ReadFile(args[0])
	if err != nil || json.Unmarshal(b, &spec) != nil {
		os.Exit(2)
	}
	time.AfterFunc(25*time.Minute, func() { os.Exit(3) })
	long := map[int]*pShared{}
	out := make([]*swRes, 0, len(spec.Progs))
	for _, p := range spec.Progs {
		j := &Job{Name: p.Name, Family: "width-sweep", Src: p.Src, Variant: p.Variant}
		res := &swRes{ID: p.ID}
		byKey := map[string]*swOut{}
		start := time.Now()
		for rep := 0; rep < p.Reps; rep++ {
			var so *swOut
			if rep%2 == 0 {
				pa := newParams(j)
				so = swCompile(compiler.New(pa), pa, j)
			} else {
				sh, ok := long[p.Variant]
				if !ok {
					pa := newParams(j)
					sh = &pShared{c: compiler.New(pa), p: pa}
					long[p.Variant] = sh
				}
				so = swCompile(sh.c, sh.p, j)
			}
			so.First = rep
			if have, ok := byKey[so.key()]; ok {
				have.Count++
			} else {
				byKey[so.key()] = so
				res.Outs = append(res.Outs, so)
			}
		}
		res.Ms = time.Since(start).Milliseconds()
		out = append(out, res)
	}
	ob, _ := json.Marshal(out)
	os.WriteFile(args[1], ob, 0o644)
}

// ---------------------------------------------------------------- programs

type swOp struct {
	name   string
	expr   string
	result string // "" = the operand type, otherwise the result types
	group  string // mul div add sub cmp bits
}

var swOps = []swOp{
	{"mul", "a * b", "", "mul"},
	{"div", "a / b", "", "div"},
	{"mod", "a % b", "", "div"},
	{"add", "a + b", "", "add"},
	{"sub", "a - b", "", "sub"},
	{"lt", "a < b", "bool", "cmp"},
	{"le", "a <= b", "bool", "cmp"},
	{"gt", "a > b", "bool", "cmp"},
	{"ge", "a >= b", "bool", "cmp"},
	{"eq", "a == b", "bool", "cmp"},
	{"ne", "a != b", "bool", "cmp"},
	{"bits", "", "", "bits"},
}

func swSource(op swOp, w int, signed bool) string {
	t := fmt.Sprintf("uint%d", w)
	if signed {
		t = fmt.Sprintf("int%d", w)
	}
	if op.name == "bits" {
		return fmt.Sprintf("package main\n\nfunc main(a, b %s) (%s, %s, %s, %s) {\n\tvar s %s\n\tif a > b {\n\t\ts = a\n\t} else {\n\t\ts = b\n\t}\n\treturn a & b, a | b, a ^ b, s\n}\n",
			t, t, t, t, t, t)
	}
	r := op.result
	if r == "" {
		r = t
	}
	return fmt.Sprintf("package main\n\nfunc main(a, b %s) %s {\n\treturn %s\n}\n", t, r, op.expr)
}

// swEstMs: estimated compile time (measured on the unchanged tree at 8 / 29 / 64 / 130 bits)
func swEstMs(op string, w, variant int) float64 {
	x := float64(w) / 130
	switch op {
	case "mul":
		if variant == 2 {
			return 0.5 + 47*x*x
		}
		return 0.5 + 30*math.Pow(x, 1.6)
	case "div", "mod":
		if variant == 2 {
			return 0.5 + 5000*math.Pow(x, 2.2)
		}
		return 0.5 + 90*x*x
	case "bits":
		return 1 + 4*x
	}
	if variant == 2 {
		return 0.5 + 3*x
	}
	return 0.5 + 2*x
}

type swWidth struct {
	w     int
	class string
}

// tableBoundaries: midpoints between and edges of the runs of consecutive keys
func tableBoundaries(keys []int64) (mids, edges []int) {
	if len(keys) == 0 {
		return
	}
	edges = append(edges, int(keys[0])-1, int(keys[0]), int(keys[len(keys)-1]), int(keys[len(keys)-1])+1)
	for i := 0; i+1 < len(keys); i++ {
		a, b := keys[i], keys[i+1]
		if b-a < 2 {
			continue
		}
		mids = append(mids, int((a+b)/2))
		if (a+b)%2 != 0 {
			mids = append(mids, int((a+b)/2)+1)
		}
		edges = append(edges, int(a), int(a)+1, int(b)-1, int(b))
	}
	return
}

type intTable struct {
	Pkg     string     `json:"pkg"`
	Name    string     `json:"name"`
	Type    string     `json:"type"`
	Kind    string     `json:"kind"`
	Keys    []int64    `json:"keys"`
	Entries [][2]int64 `json:"entries"`
}

func swWidths(seed uint64, tier string, focus bool, tables []intTable) []swWidth {
	class := map[int]string{}
	add := func(w int, c string) {
		if w < 1 || w > 8192 {
			return
		}
		if _, ok := class[w]; !ok {
			class[w] = c
		}
	}
	for _, t := range tables {
		mids, edges := tableBoundaries(t.Keys)
		for _, w := range mids {
			// quick tier: up to 520 bits (the cheap operators cost ~10 ms from there on, the multiplier seconds)
			if w <= 520 || tier != "quick" {
				add(w, "table-midpoint")
			}
		}
		if tier != "quick" || focus {
			for _, w := range edges {
				// edges up to 1024 bits (the midpoints cover the wide end)
				if w <= 1024 {
					add(w, "table-edge")
				}
			}
		}
	}
	for w := 1; w <= 1024; w *= 2 {
		if w <= 512 || tier != "quick" {
			add(w, "power-of-two")
		}
	}
	for w := 1; w <= 130; w++ {
		if tier != "quick" || focus || uint64(w)%3 == seed%3 {
			add(w, "range-1-130")
		}
	}
	var l []swWidth
	for w, c := range class {
		l = append(l, swWidth{w, c})
	}
	sort.Slice(l, func(i, j int) bool { return l[i].w < l[j].w })
	return l
}

func swReps(est float64, tier string, focus bool, class string) int {
	if class == "table-midpoint" || class == "table-edge" {
		// boundary widths of a table: where a lookup can change its mind.  Which of two map entries the runtime
		// hands over first is NOT a fair coin (the iteration is a rotation of a fixed sequence: the chance is the
		// cyclic distance of the two entries over the size of the map; seeded change S108: 36 % / 64 % at 29 bits):
		// 64 compilations see a one-in-14 outcome with probability 0.99
		switch {
		case est < 40:
			return 8
		case est < 150:
			return 2
		}
		return 1
	}
	quick := tier == "quick" && !focus
	switch {
	case est < 3:
		if focus {
			return 8
		}
		if quick {
			return 2
		}
		return 4
	case est < 15:
		if focus {
			return 4
		}
		if quick {
			return 1
		}
		return 2
	case est < 150:
		if focus {
			return 2
		}
		return 1
	}
	return 1
}

func swPrograms(seed uint64, tier string, focusOps map[string]bool, tables []intTable, capMs float64) []*swProg {
	focus := len(focusOps) > 0
	var progs []*swProg
	for _, sw := range swWidths(seed, tier, focus, tables) {
		for _, op := range swOps {
			if focus && !focusOps["all"] && !focusOps[op.group] {
				continue
			}
			var signs []bool
			if tier != "quick" || focus {
				signs = []bool{false, true}
			} else {
				// quick tier: one signedness per (width, operator), alternating with the seed
				signs = []bool{(uint64(sw.w/3)+seed+uint64(len(op.name)))%2 == 1}
			}
			for _, signed := range signs {
				for _, variant := range []int{1, 2} {
					est := swEstMs(op.name, sw.w, variant)
					if est > capMs {
						continue
					}
					t := "uint"
					if signed {
						t = "int"
					}
					progs = append(progs, &swProg{ID: len(progs), Name: fmt.Sprintf("sweep-%s-%s%d-v%d", op.name, t, sw.w, variant), Op: op.name,
						W: sw.w, Signed: signed, Variant: variant, Src: swSource(op, sw.w, signed), Reps: swReps(est, tier, focus, sw.class), Class: sw.class,
						EstMs: est})
				}
			}
		}
	}
	return progs
}

// ---------------------------------------------------------------- running

type swRunner struct {
	self string
	work string
	mu   sync.Mutex
	n    int
}

// run compiles the programs in `procs` child processes (`par` at a time); result[i] = what process i saw (nil: failed)
func (sr *swRunner) run(progs []*swProg, procs, par int) [][]*swRes {
	sr.mu.Lock()
	sr.n++
	id := sr.n
	sr.mu.Unlock()
	sf := filepath.Join(sr.work, fmt.Sprintf("sweep-%d.json", id))
	b, _ := json.Marshal(&swSpec{Progs: progs})
	os.WriteFile(sf, b, 0o644)
	res := make([][]*swRes, procs)
	var wg sync.WaitGroup
	sem := make(chan struct{}, par)
	for i := 0; i < procs; i++ {
		wg.Add(1)
		go func(i int) {
			defer wg.Done()
			sem <- struct{}{}
			defer func() { <-sem }()
			of := filepath.Join(sr.work, fmt.Sprintf("sweep-%d-out-%d.json", id, i))
			cmd := exec.Command(sr.self, "swchild", sf, of)
			cmd.Env = os.Environ()
			// vary runtime conditions between the processes
			switch i % 4 {
			case 1:
				cmd.Env = append(cmd.Env, "GOMAXPROCS=1")
			case 2:
				cmd.Env = append(cmd.Env, "GOGC=50")
			case 3:
				cmd.Env = append(cmd.Env, "GOMAXPROCS=3", "GOGC=400")
			}
			cmd.Run()
			rb, err := os.ReadFile(of)
			if err != nil {
				return
			}
			var rs []*swRes
			if json.Unmarshal(rb, &rs) == nil && len(rs) == len(progs) {
				res[i] = rs
			}
		}(i)
	}
	wg.Wait()
	return res
}

// swMerged: all outputs of one program over all processes
type swMerged struct {
	prog         *swProg
	outs         []*swOut // distinct outputs, most frequent first
	where        map[string]string
	compilations int
	ms           int64
	sameProcess  bool // one process alone saw more than one output
	processes    int
}

func swMerge(progs []*swProg, results [][]*swRes) []*swMerged {
	ms := make([]*swMerged, len(progs))
	for i, p := range progs {
		ms[i] = &swMerged{prog: p, where: map[string]string{}}
	}
	for pi, rs := range results {
		if rs == nil {
			continue
		}
		for i, r := range rs {
			m := ms[i]
			m.processes++
			m.ms += r.Ms
			if len(r.Outs) > 1 {
				m.sameProcess = true
			}
			for _, so := range r.Outs {
				m.compilations += so.Count
				found := false
				for _, have := range m.outs {
					if have.key() == so.key() {
						have.Count += so.Count
						found = true
					}
				}
				if !found {
					c := *so
					m.outs = append(m.outs, &c)
					m.where[c.key()] = fmt.Sprintf("process %d, compilation %d", pi+1, so.First+1)
				}
			}
		}
	}
	for _, m := range ms {
		sort.SliceStable(m.outs, func(a, b int) bool { return m.outs[a].Count > m.outs[b].Count })
	}
	return ms
}

func (m *swMerged) describe() []map[string]any {
	var l []map[string]any
	for _, so := range m.outs {
		l = append(l, map[string]any{"circuit": so.Circ, "circuit_bytes": so.CircLen, "gates": so.Gates, "wires": so.Wires,
			"ssa_listing": so.SSA, "err": so.Err, "compilations": so.Count, "first_seen": m.where[so.key()]})
	}
	return l
}

func variantName(v int) string {
	switch v {
	case 1:
		return "OptPruneGates, target Yao (default)"
	case 2:
		return "OptPruneGates, target GMW"
	}
	return "default parameters"
}

const swSig = "c08-width-sweep-nondeterministic"

func swFailure(m *swMerged, seed uint64, tier string, confirm *swMerged, procs, reps int) map[string]any {
	p := m.prog
	ssaEq := true
	for _, so := range m.outs {
		if so.SSA != m.outs[0].SSA {
			ssaEq = false
		}
	}
	what := "circuit"
	if !ssaEq {
		what = "circuit+ssa"
	}
	circEq := true
	for _, so := range m.outs {
		if so.Circ != m.outs[0].Circ || so.CircLen != m.outs[0].CircLen {
			circEq = false
		}
	}
	if circEq {
		what = "ssa"
		if m.outs[0].Err != m.outs[len(m.outs)-1].Err {
			what = "error"
		}
	}
	sign := "unsigned"
	if p.Signed {
		sign = "signed"
	}
	d := map[string]any{
		"program": p.Name, "family": "width-sweep", "operator": p.Op, "operand_width": p.W, "signedness": sign,
		"width_class": p.Class, "variant": p.Variant, "parameters": variantName(p.Variant), "source": p.Src, "what": what,
		"compilations": m.compilations, "processes": m.processes, "distinct_outputs": len(m.outs), "outputs": m.describe(),
		"one_process_alone_saw_different_outputs": m.sameProcess, "ssa_listings_equal": ssaEq,
		"replay_spec": map[string]any{"sweep_program": p, "processes": procs, "reps": reps},
		"rerun":       fmt.Sprintf("bin/check C08 --replay <this file>   (c08 sweep -seed %d -tier %s -extra replay=<this file>)", seed, tier),
	}
	if confirm != nil {
		d["confirmation"] = map[string]any{"what": fmt.Sprintf("the program alone: %d fresh processes x %d compilations", procs, reps),
			"compilations": confirm.compilations, "distinct_outputs": len(confirm.outs), "outputs": confirm.describe(),
			"one_process_alone_saw_different_outputs": confirm.sameProcess}
	}
	return d
}

// ---------------------------------------------------------------- mthr ops

func swCompileLimit(w, variant, limit int) *swOut {
	j := &Job{Name: fmt.Sprintf("mthr-%d-%d", w, limit), Src: swSource(swOps[0], w, false), Variant: variant}
	p := newParams(j)
	p.CircMultArrayTreshold = limit
	return swCompile(compiler.New(p), p, j)
}

// multiplierTable: the integer-keyed map with integer values of package compiler/circuits (nil unless exactly one)
func multiplierTable(tables []intTable) *intTable {
	var found *intTable
	for i := range tables {
		t := &tables[i]
		if t.Pkg == "compiler/circuits" && t.Kind == "map" && len(t.Entries) == len(t.Keys) {
			if found != nil {
				return nil
			}
			found = t
		}
	}
	return found
}

func emitMthrOps(o *hxlib.Out, widths []swWidth, tables []intTable, par int, tier string) {
	const lo, cnt = 8, 16
	tbl := "-"
	if t := multiplierTable(tables); t != nil {
		var es []string
		for _, e := range t.Entries {
			es = append(es, fmt.Sprintf("%d:%d", e[0], e[1]))
		}
		tbl = strings.Join(es, ",")
		o.Count("op_mthr_table_entries_" + fmt.Sprint(len(es)))
	} else {
		o.Count("op_mthr_no_multiplier_table")
	}
	maxW := 230
	if tier != "quick" {
		maxW = 450
	}
	type task struct {
		w       int
		variant int
	}
	var tasks []task
	for i, sw := range widths {
		if sw.w > maxW {
			continue
		}
		if tier == "quick" && i%2 == 1 && sw.class == "range-1-130" {
			// quick tier: every second width of the range, all boundary widths
			continue
		}
		tasks = append(tasks, task{sw.w, 1})
		if i%8 == 0 && sw.w <= 130 {
			tasks = append(tasks, task{sw.w, 2})
		}
	}
	results := make([]string, len(tasks))
	var wg sync.WaitGroup
	sem := make(chan struct{}, par)
	for ti := range tasks {
		wg.Add(1)
		go func(ti int) {
			defer wg.Done()
			sem <- struct{}{}
			defer func() { <-sem }()
			t := tasks[ti]
			def := swCompileLimit(t.w, t.variant, 0)
			var same []string
			for L := lo; L < lo+cnt; L++ {
				r := swCompileLimit(t.w, t.variant, L)
				if def.key() == r.key() {
					same = append(same, fmt.Sprint(L))
				}
			}
			if def.Err != "" {
				results[ti] = "error: " + def.Err
			} else if len(same) == 0 {
				results[ti] = "-"
			} else {
				results[ti] = strings.Join(same, ",")
			}
		}(ti)
	}
	wg.Wait()
	for ti, t := range tasks {
		target := "yao"
		if t.variant == 2 {
			target = "gmw"
		}
		o.Op(fmt.Sprintf("mthr %s %d %d %d %s", target, t.w, lo, cnt, tbl), results[ti])
		o.Count("op_mthr")
		o.Count("op_mthr_" + target)
		if results[ti] != "-" && strings.Count(results[ti], ",") < cnt-1 {
			o.Count("op_mthr_nontrivial_class")
		}
	}
}

// ---------------------------------------------------------------- main

func parseSwExtra(extra string) (factsFile, replay string, focusOps map[string]bool, procs int) {
	focusOps = map[string]bool{}
	procs = 8
	for _, kv := range strings.Split(extra, ";") {
		k, v, _ := strings.Cut(strings.TrimSpace(kv), "=")
		switch k {
		case "facts":
			factsFile = v
		case "replay":
			replay = v
		case "focus":
			for _, f := range strings.Split(v, ",") {
				if f != "" {
					focusOps[f] = true
				}
			}
		case "procs":
			fmt.Sscan(v, &procs)
		}
	}
	if procs < 2 {
		procs = 2
	}
	return
}

func runSweep(cf *hxlib.CommonFlags, o *hxlib.Out) {
	devNullStdout()
	work := filepath.Dir(cf.Ops)
	if cf.Ops == "" {
		work, _ = os.MkdirTemp("", "c08-sweep-*")
	}
	work = filepath.Join(work, fmt.Sprintf("c08-sweep-%d", cf.Seed))
	os.MkdirAll(work, 0o755)
	defer os.RemoveAll(work)
	self, _ := os.Executable()
	factsFile, replay, focusOps, procs := parseSwExtra(cf.Extra)
	sr := &swRunner{self: self, work: work}
	par := cf.N
	if par <= 0 {
		par = 8
	}
	if replay != "" {
		replaySweep(sr, o, replay, par)
		return
	}
	var tables []intTable
	if factsFile != "" {
		if b, err := os.ReadFile(factsFile); err == nil {
			json.Unmarshal(b, &tables)
		}
	}
	start := time.Now()
	focus := len(focusOps) > 0
	capMs := 160.0
	if cf.Tier != "quick" {
		capMs = 400
	}
	if focus && cf.Tier == "quick" {
		capMs = 400
	}
	progs := swPrograms(cf.Seed, cf.Tier, focusOps, tables, capMs)
	widths := swWidths(cf.Seed, cf.Tier, focus, tables)
	o.Meta["sweep_programs"] = len(progs)
	o.Meta["sweep_int_tables"] = len(tables)
	var wl []int
	for _, sw := range widths {
		wl = append(wl, sw.w)
		o.Count("sweep_widths")
		o.Count("sweep_widths_" + sw.class)
	}
	o.Meta["sweep_widths"] = wl
	results := sr.run(progs, procs, par)
	okProcs := 0
	for _, rs := range results {
		if rs != nil {
			okProcs++
		}
	}
	o.Meta["sweep_processes"] = procs
	o.Meta["sweep_processes_ok"] = okProcs
	merged := swMerge(progs, results)
	var bad []*swMerged
	swept := map[int]bool{}
	for _, m := range merged {
		p := m.prog
		o.Count("sweep_programs")
		o.Count("sweep_programs_op_" + p.Op)
		o.Count(fmt.Sprintf("sweep_programs_variant_%d", p.Variant))
		if p.Signed {
			o.Count("sweep_programs_signed")
		} else {
			o.Count("sweep_programs_unsigned")
		}
		o.CountN("sweep_compilations", m.compilations)
		o.CountN(fmt.Sprintf("sweep_compile_ms_%s_v%d", p.Op, p.Variant), int(m.ms))
		if m.compilations >= 8 && m.processes >= 8 {
			o.Count("sweep_programs_with_8plus_compilations_in_8plus_processes")
		}
		if m.compilations > 1 {
			o.CountN("sweep_comparisons", m.compilations-1)
		}
		if len(m.outs) > 0 && m.outs[0].Err == "" {
			o.Count("sweep_programs_compiled")
			o.Count("sweep_programs_compiled_class_" + p.Class)
			swept[p.W] = true
		} else if len(m.outs) > 0 {
			o.Count("sweep_programs_not_compiling")
			if len(o.Samples) < 3 {
				o.Sample(map[string]any{"sweep_program_not_compiling": p.Name, "error": m.outs[0].Err})
			}
		}
		if len(m.outs) > 1 {
			o.Count("sweep_programs_with_different_outputs")
			bad = append(bad, m)
		}
	}
	o.Meta["sweep_widths_compiled"] = len(swept)
	// report: boundary widths first, then by width; at most one per operator, four in all
	rankClass := map[string]int{"table-midpoint": 0, "table-edge": 1, "power-of-two": 2, "range-1-130": 3}
	sort.SliceStable(bad, func(i, j int) bool {
		a, b := bad[i].prog, bad[j].prog
		if rankClass[a.Class] != rankClass[b.Class] {
			return rankClass[a.Class] < rankClass[b.Class]
		}
		if a.W != b.W {
			return a.W < b.W
		}
		return a.ID < b.ID
	})
	var badNames []string
	for _, m := range bad {
		if len(badNames) < 40 {
			badNames = append(badNames, m.prog.Name)
		}
	}
	if len(bad) > 0 {
		o.Meta["sweep_programs_with_different_outputs"] = badNames
	}
	perOp := map[string]int{}
	reported := 0
	for _, m := range bad {
		if perOp[m.prog.Op] >= 1 || reported >= 4 {
			continue
		}
		perOp[m.prog.Op]++
		reported++
		// confirmation: the program alone, 8 fresh processes x 16 compilations
		cp := *m.prog
		cp.ID, cp.Reps = 0, 16
		var confirm *swMerged
		if reported <= 2 {
			confirm = swMerge([]*swProg{&cp}, sr.run([]*swProg{&cp}, 8, par))[0]
		}
		d := swFailure(m, cf.Seed, cf.Tier, confirm, 8, 16)
		d["other_programs_with_different_outputs"] = badNames
		o.Fail(swSig, d)
	}
	o.Meta["sweep_children_ms"] = time.Since(start).Milliseconds()
	if !focus {
		t0 := time.Now()
		emitMthrOps(o, widths, tables, par, cf.Tier)
		o.Meta["sweep_mthr_ms"] = time.Since(t0).Milliseconds()
	}
	if len(progs) > 0 {
		o.Sample(map[string]any{"sweep_program": progs[len(progs)/2].Name, "class": progs[len(progs)/2].Class, "source": progs[len(progs)/2].Src})
	}
	o.Meta["sweep_ms"] = time.Since(start).Milliseconds()
}

// replaySweep re-runs exactly the recorded program: the recorded number of
// fresh processes and compilations per process.  Which outputs appear is the
// runtime's choice: up to 3 rounds.
func replaySweep(sr *swRunner, o *hxlib.Out, file string, par int) {
	b, err := os.ReadFile(file)
	if err != nil {
		o.Meta["replay_error"] = err.Error()
		return
	}
	var doc struct {
		Seed    uint64 `json:"seed"`
		Tier    string `json:"tier"`
		Failure struct {
			Spec struct {
				Prog  *swProg `json:"sweep_program"`
				Procs int     `json:"processes"`
				Reps  int     `json:"reps"`
			} `json:"replay_spec"`
		} `json:"failure"`
	}
	if json.Unmarshal(b, &doc) != nil || doc.Failure.Spec.Prog == nil {
		o.Meta["replay_error"] = "no sweep_program in " + file
		return
	}
	sp := doc.Failure.Spec
	if sp.Procs < 1 {
		sp.Procs = 8
	}
	if sp.Reps < 1 {
		sp.Reps = 16
	}
	p := *sp.Prog
	p.ID, p.Reps = 0, sp.Reps
	var m *swMerged
	rounds := 0
	for rounds < 3 {
		rounds++
		m = swMerge([]*swProg{&p}, sr.run([]*swProg{&p}, sp.Procs, par))[0]
		o.Count("sweep_replay_rounds")
		if len(m.outs) > 1 || m.processes == 0 {
			break
		}
	}
	if m.processes == 0 {
		o.Fail("c08-sweep-child-failed", map[string]any{"process": "replay"})
		return
	}
	o.Meta["replay"] = map[string]any{"program": p.Name, "source": p.Src, "parameters": variantName(p.Variant), "processes": sp.Procs,
		"compilations_per_process": sp.Reps, "rounds": rounds, "compilations": m.compilations, "distinct_outputs": len(m.outs),
		"outputs": m.describe(), "equal": len(m.outs) <= 1}
	if len(m.outs) <= 1 {
		o.Count("sweep_replay_not_reproduced")
		return
	}
	d := swFailure(m, doc.Seed, doc.Tier, nil, sp.Procs, sp.Reps)
	d["replayed"] = true
	o.Fail(swSig, d)
}

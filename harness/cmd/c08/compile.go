package main

// Running the real compiler on one program and canonicalising what the
// property observes: Circuit.Marshal bytes (after AssignLevels, as
// apps/garbled loadCircuit does) and the SSA listing (Params.SSAOut).

import (
	"bufio"
	"bytes"
	"crypto/sha256"
	"encoding/hex"
	"fmt"
	"os"
	"regexp"
	"sort"
	"strings"
	"time"

	"github.com/markkurossi/mpc/circuit"
	"github.com/markkurossi/mpc/compiler"
	"github.com/markkurossi/mpc/compiler/utils"
)

// Job is one corpus program with the parameters it is compiled with.
type Job struct {
	Name    string   `json:"name"`
	Family  string   `json:"family"` // example | testsuite | generated | alias-collision
	Src     string   `json:"src"`
	Sizes   [][]int  `json:"sizes"`
	PkgPath []string `json:"pkgpath"`
	Variant int      `json:"variant"` // 0 default, 1 prune, 2 prune+GMW
	Heavy   bool     `json:"heavy"`
	Index   int      `json:"index"`
	// generator knowledge (generated programs only)
	Gen *GenInfo `json:"gen,omitempty"`
}

// Res is what one compilation produced.
type Res struct {
	Name       string   `json:"name"`
	Err        string   `json:"err"`
	Gates      int      `json:"gates"`
	Wires      int      `json:"wires"`
	CircHash   string   `json:"circ"`
	CircLen    int      `json:"circ_len"`
	SSAHash    string   `json:"ssa"`
	SSANoInst  string   `json:"ssa_noinst"`
	SSACanon   string   `json:"ssa_canon"`
	SSALen     int      `json:"ssa_len"`
	InitLabels []string `json:"init_labels"`
	FuncLabels []string `json:"func_labels"`
	InitAnon   []string `json:"init_anon"`
	MainLabel  string   `json:"main_label"`
	Ms         int64    `json:"ms"`
	ssa        string
}

type bufCloser struct{ bytes.Buffer }

func (*bufCloser) Close() error { return nil }

func newParams(j *Job) *utils.Params {
	p := utils.NewParams()
	p.Warn.DisableAll()
	p.PkgPath = j.PkgPath
	switch j.Variant {
	case 1:
		p.OptPruneGates = true
	case 2:
		p.OptPruneGates = true
		p.Target = utils.TargetGMW
	}
	return p
}

func h(b []byte) string {
	s := sha256.Sum256(b)
	return hex.EncodeToString(s[:12])
}

var (
	reLabel    = regexp.MustCompile(`^# (\S+):$`)
	reInst     = regexp.MustCompile(`#\d+`)
	reAnon     = regexp.MustCompile(`%_\{(\d+),(\d+)\}`)
	reFuncLbl  = regexp.MustCompile(`^(main|F[A-Z])#\d+$`)
	reMainLbl  = regexp.MustCompile(`^main#\d+$`)
	reAnonInit = regexp.MustCompile(`%_\{0,(\d+)\}`)
)

type segment struct {
	label string
	lines []string
}

// splitSegments cuts a listing into the header (lines before the first
// label) and labelled segments.
func splitSegments(text string) (header []string, segs []*segment) {
	var cur *segment
	for _, ln := range strings.Split(text, "\n") {
		if m := reLabel.FindStringSubmatch(ln); m != nil {
			cur = &segment{label: m[1]}
			segs = append(segs, cur)
			continue
		}
		if cur == nil {
			header = append(header, ln)
		} else {
			cur.lines = append(cur.lines, ln)
		}
	}
	return
}

// noInst replaces the function-instance numbers (`name#k`, from
// ast.Func.NumInstances) in label lines.
func noInst(text string) string {
	lines := strings.Split(text, "\n")
	for i, ln := range lines {
		if reLabel.MatchString(ln) {
			lines[i] = reInst.ReplaceAllString(ln, "#N")
		}
	}
	return strings.Join(lines, "\n")
}

// canonSSA puts the package-initialiser segments (`# .pkg:`) into label
// order at the position of the first one, renumbers anonymous values
// `%_{s,n}` by first occurrence and drops the instance numbers.  Two
// listings that differ only by the order in which Package.Init visited the
// imports have equal canonical forms.
func canonSSA(text string) string {
	header, segs := splitSegments(text)
	var inits []*segment
	first := -1
	var rest []*segment
	for i, s := range segs {
		if strings.HasPrefix(s.label, ".") {
			if first < 0 {
				first = i
			}
			inits = append(inits, s)
		} else {
			rest = append(rest, s)
		}
	}
	sort.SliceStable(inits, func(i, j int) bool { return inits[i].label < inits[j].label })
	var out []*segment
	if first < 0 {
		out = rest
	} else {
		// all non-init segments that preceded the first init segment stay in front
		nBefore := 0
		for i := 0; i < first; i++ {
			if !strings.HasPrefix(segs[i].label, ".") {
				nBefore++
			}
		}
		out = append(out, rest[:nBefore]...)
		out = append(out, inits...)
		out = append(out, rest[nBefore:]...)
	}
	var sb strings.Builder
	sb.WriteString(strings.Join(header, "\n"))
	for _, s := range out {
		sb.WriteString("\n# " + s.label + ":\n")
		sb.WriteString(strings.Join(s.lines, "\n"))
	}
	ren := map[string]string{}
	cnt := map[string]int{}
	txt := reAnon.ReplaceAllStringFunc(sb.String(), func(m string) string {
		if r, ok := ren[m]; ok {
			return r
		}
		sm := reAnon.FindStringSubmatch(m)
		r := fmt.Sprintf("%%_{%s,c%d}", sm[1], cnt[sm[1]])
		cnt[sm[1]]++
		ren[m] = r
		return r
	})
	return noInst(txt)
}

func analyseSSA(r *Res, text string) {
	r.SSAHash = h([]byte(text))
	r.SSALen = len(text)
	r.SSANoInst = h([]byte(noInst(text)))
	r.SSACanon = h([]byte(canonSSA(text)))
	_, segs := splitSegments(text)
	for _, s := range segs {
		if strings.HasPrefix(s.label, ".") {
			r.InitLabels = append(r.InitLabels, s.label)
			a := "-"
			for _, ln := range s.lines {
				if m := reAnonInit.FindStringSubmatch(ln); m != nil {
					a = m[1]
					break
				}
			}
			r.InitAnon = append(r.InitAnon, a)
		} else if reFuncLbl.MatchString(s.label) {
			r.FuncLabels = append(r.FuncLabels, s.label)
		}
		if r.MainLabel == "" && reMainLbl.MatchString(s.label) {
			r.MainLabel = s.label
		}
	}
}

// compileOn compiles the job on the given compiler instance (whose Params
// are `params`).  Panics of the compiler are caught and reported as errors.
func compileOn(c *compiler.Compiler, params *utils.Params, j *Job) (res *Res) {
	return compileOnKeep(c, params, j, nil)
}

// compileOnKeep: compileOn that also hands the circuit back (keep != nil).
func compileOnKeep(c *compiler.Compiler, params *utils.Params, j *Job, keep **circuit.Circuit) (res *Res) {
	res = &Res{Name: j.Name}
	start := time.Now()
	defer func() {
		res.Ms = time.Since(start).Milliseconds()
		if e := recover(); e != nil {
			res.Err = clipS(fmt.Sprintf("panic: %v", e), 300)
		}
	}()
	ssa := new(bufCloser)
	params.SSAOut = ssa
	circ, _, err := c.Compile(j.Src, j.Sizes)
	params.SSAOut = nil
	if err != nil {
		res.Err = clipS(err.Error(), 300)
		return
	}
	finishCircuit(res, circ, params, ssa.String())
	if keep != nil && res.Err == "" {
		*keep = circ
	}
	return
}

// finishCircuit: what the property observes of a compiled circuit
// (AssignLevels + Marshal bytes as apps/garbled loadCircuit does, SSA listing).
func finishCircuit(res *Res, circ *circuit.Circuit, params *utils.Params, ssaText string) {
	circ.AssignLevels(params.Target)
	hs := sha256.New()
	bw := bufio.NewWriterSize(hs, 1<<20)
	cw := &countWriter{w: bw}
	if err := circ.Marshal(cw); err != nil {
		res.Err = "marshal: " + err.Error()
		return
	}
	bw.Flush()
	res.CircHash = hex.EncodeToString(hs.Sum(nil)[:12])
	res.CircLen = cw.n
	res.Gates = circ.NumGates
	res.Wires = circ.NumWires
	res.ssa = ssaText
	analyseSSA(res, res.ssa)
}

type countWriter struct {
	w *bufio.Writer
	n int
}

func (c *countWriter) Write(p []byte) (int, error) {
	c.n += len(p)
	return c.w.Write(p)
}

// compileFresh compiles on a new compiler.Compiler with new Params.
func compileFresh(j *Job) *Res {
	p := newParams(j)
	return compileOn(compiler.New(p), p, j)
}

// relation classifies how two outputs of the same program differ.
//
//	what : "" (equal) | "ssa" | "circuit" | "circuit+ssa" | "error"
//	class: equal | inst-labels | init-missing | init-order | other | other-main-label | other-main-init
func relation(a, b *Res) (what, class string) {
	if a.Err != "" || b.Err != "" {
		if a.Err == b.Err {
			return "", "equal"
		}
		return "error", "other"
	}
	circ := a.CircHash != b.CircHash || a.CircLen != b.CircLen
	ssa := a.SSAHash != b.SSAHash
	switch {
	case !circ && !ssa:
		return "", "equal"
	case circ && ssa:
		what = "circuit+ssa"
	case circ:
		what = "circuit"
	default:
		what = "ssa"
	}
	if !ssa {
		return what, "other"
	}
	// The known history defects concern IMPORTED packages only: the main
	// package is re-created by every compilation, so its initialiser block
	// and the instance number of main itself must never change.
	if a.MainLabel != b.MainLabel {
		return what, "other-main-label"
	}
	hasMain := func(r *Res) bool {
		for _, l := range r.InitLabels {
			if l == ".main" {
				return true
			}
		}
		return false
	}
	if hasMain(a) != hasMain(b) {
		return what, "other-main-init"
	}
	if a.SSANoInst == b.SSANoInst {
		return what, "inst-labels"
	}
	sa, sb := map[string]bool{}, map[string]bool{}
	for _, l := range a.InitLabels {
		sa[l] = true
	}
	for _, l := range b.InitLabels {
		sb[l] = true
	}
	sub := func(x, y map[string]bool) bool { // x strictly inside y
		if len(x) >= len(y) {
			return false
		}
		for k := range x {
			if !y[k] {
				return false
			}
		}
		return true
	}
	if sub(sa, sb) || sub(sb, sa) {
		return what, "init-missing"
	}
	if a.SSACanon == b.SSACanon && len(a.InitLabels) == len(b.InitLabels) &&
		strings.Join(a.InitLabels, " ") != strings.Join(b.InitLabels, " ") {
		return what, "init-order"
	}
	return what, "other"
}

// firstDiff returns a short excerpt around the first differing line.
func firstDiff(a, b string) string {
	la, lb := strings.Split(a, "\n"), strings.Split(b, "\n")
	n := len(la)
	if len(lb) < n {
		n = len(lb)
	}
	i := 0
	for i < n && la[i] == lb[i] {
		i++
	}
	get := func(l []string) string {
		lo, hi := i-1, i+3
		if lo < 0 {
			lo = 0
		}
		if hi > len(l) {
			hi = len(l)
		}
		var parts []string
		for _, s := range l[lo:hi] {
			parts = append(parts, clipS(s, 160))
		}
		return strings.Join(parts, " | ")
	}
	return fmt.Sprintf("line %d: A: %s  <>  B: %s", i+1, get(la), get(lb))
}

func devNullStdout() {
	if f, err := os.OpenFile(os.DevNull, os.O_WRONLY, 0); err == nil {
		os.Stdout = f
	}
}

package main

// PROCESS-STATE histories (mode `pstate`).
//
// The property quantifies over "any number of earlier compilations in the
// process".  Whatever a compilation can inherit from earlier ones lives either
// in the compiler.Compiler (covered by oracle.go / failhist.go) or in the
// PROCESS: package-level variables of the compile path, i.e. anything
// cache-like (memoised circuits, interned tables, lazily initialised
// templates, "last used" slots ...).  Such a facility changes a result only
// when two requests that it considers equal (same cache key) are in fact
// different, so the histories below are built from SIBLING GROUPS: programs
// that agree on most attributes of a request to one facility of the compile
// path and differ in exactly one (one factor at a time), plus an unrelated
// "evictor".  The facilities / generator classes:
//
//	wide-const-divmod    constant folding of / and % wider than 64 bits (mpa.Int.Div/Mod: divider circuit built
//	                     and evaluated at compile time); attributes: type width, operand widths (equal maximum,
//	                     different individual sizes; swapped), operand values, which of / % is folded
//	wide-const-arith     constant folding of * + - wider than 64 bits (mpa.Int.bin: multiplier/adder/subtractor)
//	wide-const-bits      wide constant & | ^ &^ << >> and comparisons (math/big paths of mpa.Int)
//	runtime-ops          non-constant * / % < at many widths and both signednesses (ssa circuit generators,
//	                     compiler/circuits builders and their width thresholds)
//	const-aggregates     string / array / slice constants, len, indexing (constant values, type table)
//	library              imports of $MPCLDIR/pkg packages: native circuits (add64/sub64/mul64/div64, hamming),
//	                     functions with unsized parameters instantiated at different widths
//	sizes-params         ONE source compiled with different input sizes and different parameter variants
//
// Every history runs in its OWN child process (`c08 pchild`), so a reported
// history is complete: nothing else happened in that process.  Per group three
// processes: one long-lived Compiler compiling the group forward, reversed and
// shuffled (every program before and after every other one); fresh Compilers
// in the other order; a mix.  Two more processes compile all programs of all
// groups (cross-facility histories).  All compilations of one program (same
// source, parameters, sizes) - over all steps of all processes - must give the
// same circuit bytes and SSA listing.  A difference is minimised (ddmin over
// the steps before the failing one, each trial in a fresh process) against the
// program compiled alone in a fresh process and reported as
// c08-process-state-history with the concrete history as the replay.
//
// A step of a history is not only a compilation: pacts.go adds the other step
// kinds (streaming sessions, CompileFile, CompileSSA, Compute, Garble/Eval,
// Marshal/Parse round trips) and the activity histories built from them; a
// pStep carries its kind and the parties' inputs, minimisation and replay work
// on steps of any kind.
//
// A history element may also be CONCURRENT (pconc.go): k = 2..8 steps that run
// at the same time, each with its own Compiler and Params (pStep.Par); family
// const-rich (programs rich in int64 constants) joins the sibling groups.
//
// Model ops (`phist`): for the wide-const-divmod / wide-const-arith groups the
// Lean model of a compilation step (Model/ProcState.lean: a function of source,
// parameters and process state) must produce the folded constants of every
// compilation of the same-Compiler history, read back from the SSA listings.

import (
	"encoding/json"
	"fmt"
	"math/big"
	"os"
	"os/exec"
	"path/filepath"
	"regexp"
	"sort"
	"strings"
	"sync"
	"time"

	"github.com/markkurossi/mpc/compiler"
	"github.com/markkurossi/mpc/compiler/utils"

	"verifharness/hxlib"
)

type pFold struct {
	W  int    `json:"w"`
	Op string `json:"op"` // div mod mul add sub
	X  string `json:"x"`  // decimal
	Y  string `json:"y"`
}

// pArg: one argument of main (kind: uint | int | bytes)
type pArg struct {
	Bits int    `json:"bits"`
	Kind string `json:"kind"`
}

// pRet: one return value of a MODELLED program: `arg` or `arg ^ (A op B)`
type pRet struct {
	Arg  int    `json:"arg"`
	Fold *pFold `json:"fold,omitempty"`
}

type pProg struct {
	ID      int     `json:"id"` // global program id (same id = same source, parameters, sizes)
	Name    string  `json:"name"`
	Family  string  `json:"family"`
	Group   int     `json:"group"`
	Attr    string  `json:"attr"` // the attributes siblings agree / differ on
	Src     string  `json:"src"`
	Sizes   [][]int `json:"sizes"`
	Variant int     `json:"variant"`
	Folds   []pFold `json:"folds,omitempty"`
	Args    []pArg  `json:"args,omitempty"` // the arguments of main (inputs of the step kinds that run the program)
	Rets    []pRet  `json:"rets,omitempty"` // modelled programs: the return values (Model/ProcSteps.lean `Prog`)
}

type pStep struct {
	Prog  int  `json:"prog"`  // index into pSpec.Progs
	Fresh bool `json:"fresh"` // true: new Compiler + new Params; false: the process's long-lived Compiler of the program's parameter variant
	// Kind: "" = Compiler.Compile; otherwise one of the step kinds of pacts.go
	// (streaming session, CompileFile, CompileSSA, Compute, Garble/Eval, Marshal/Parse round trip)
	Kind string   `json:"kind,omitempty"`
	In   []string `json:"in,omitempty"` // the parties' inputs of the kinds that run the program
	// Par != 0: consecutive steps with the same Par are ONE concurrent history element: they run AT THE SAME TIME,
	// each in its own goroutine with its own Compiler and Params, released from a barrier (pconc.go)
	Par int `json:"par,omitempty"`
}

type pSpec struct {
	Name  string   `json:"name"`
	Kind  string   `json:"kind"`
	Env   []string `json:"env,omitempty"`
	Progs []*pProg `json:"progs"`
	Steps []pStep  `json:"steps"`
	// Race: the child process is the race-detector build of this harness (go build -race); its reports are read back
	Race bool `json:"race,omitempty"`
}

type pStepRes struct {
	Prog     int      `json:"prog"`
	Err      string   `json:"err"`
	Gates    int      `json:"gates"`
	CircHash string   `json:"circ"`
	CircLen  int      `json:"circ_len"`
	SSAHash  string   `json:"ssa"`
	Consts   []string `json:"consts"`
	Ms       int64    `json:"ms"`
	Kind     string   `json:"kind,omitempty"`
	Wires    int      `json:"wires"`
	Status   string   `json:"status,omitempty"` // kinds that run something: ok | what went wrong
	Vals     string   `json:"vals,omitempty"`   // kinds that run the program: the results
	GC       []int    `json:"gc,omitempty"`     // ssa-stream: arguments recycled by gc, in order
	T0       int64    `json:"t0,omitempty"`     // start / end of the step, microseconds since the process started
	T1       int64    `json:"t1,omitempty"`
}

// same: equal outputs of two steps of the same (program, kind, inputs)
func (r *pStepRes) same(o *pStepRes) bool {
	return r.sameCircuit(o) && r.Status == o.Status && r.Vals == o.Vals
}

// sameCircuit: what the property observes of the compilation inside the step
func (r *pStepRes) sameCircuit(o *pStepRes) bool {
	return r.Err == o.Err && r.CircHash == o.CircHash && r.CircLen == o.CircLen && r.SSAHash == o.SSAHash
}

func (r *pStepRes) String() string {
	s := fmt.Sprintf("gates=%d wires=%d circ=%s/%d ssa=%s consts=%v err=%q", r.Gates, r.Wires, r.CircHash, r.CircLen, r.SSAHash, r.Consts, r.Err)
	if r.Status != "" || r.Vals != "" {
		s += fmt.Sprintf(" status=%q results=%s", r.Status, clipS(r.Vals, 300))
	}
	return s
}

// families and the packages of the compile path whose package-level state
// their programs reach beyond what every compilation reaches (used by the
// widened search of checks/C08.py: a new package-level variable in package P
// focuses the search on the families listed for P)
var pFamilies = []string{"wide-const-divmod", "wide-const-arith", "wide-const-bits", "runtime-ops", "const-aggregates",
	"library", "sizes-params", "const-rich"}

// ---------------------------------------------------------------- child

var reConstTok = regexp.MustCompile(`\$(\d+)\b`)

func listingConsts(ssa string) []string {
	var res []string
	for _, ln := range strings.Split(ssa, "\n") {
		if strings.HasPrefix(ln, "#") {
			continue
		}
		for _, m := range reConstTok.FindAllStringSubmatch(ln, -1) {
			res = append(res, m[1])
		}
	}
	return res
}

func runPChild(args []string) {
	devNullStdout()
	if len(args) < 3 {
		os.Exit(2)
	}
	var spec pSpec
	b, err := os.ReadFile(args[0])
	if err != nil || json.Unmarshal(b, &spec) != nil {
		os.Exit(2)
	}
	long := map[int]*pShared{}
	out := make([]*pStepRes, len(spec.Steps))
	// a stuck session must not hold the run
	time.AfterFunc(12*time.Minute, func() { os.Exit(3) })
	procStart := time.Now()
	for i := 0; i < len(spec.Steps); {
		st := spec.Steps[i]
		if st.Par == 0 {
			out[i] = runOneStep(&spec, i, long, args[2], procStart)
			i++
			continue
		}
		// one concurrent history element: all steps of the group at the same time
		j := i
		for j < len(spec.Steps) && spec.Steps[j].Par == st.Par {
			j++
		}
		runConcurrent(&spec, i, j, out, args[2], procStart)
		i = j
	}
	ob, _ := json.Marshal(out)
	os.WriteFile(args[1], ob, 0o644)
}

type pShared struct {
	c *compiler.Compiler
	p *utils.Params
}

// runOneStep runs step i of the history in the calling goroutine.  `long` = the
// process's long-lived Compilers (nil inside a concurrent element: a Compiler
// and its Params belong to one compilation at a time, every concurrent step
// makes its own).
func runOneStep(spec *pSpec, i int, long map[int]*pShared, dir string, procStart time.Time) *pStepRes {
	st := spec.Steps[i]
	pp := spec.Progs[st.Prog]
	j := &Job{Name: pp.Name, Family: pp.Family, Src: pp.Src, Sizes: pp.Sizes, Variant: pp.Variant}
	t0 := time.Since(procStart).Microseconds()
	stamp := func(sr *pStepRes) *pStepRes {
		sr.T0, sr.T1 = t0, time.Since(procStart).Microseconds()
		return sr
	}
	if k := stepKind(st); k != kCompile {
		sr, ssaText := runActivity(k, pp, st.In, dir, i)
		sr.Prog = st.Prog
		if ssaText != "" {
			if len(ssaText) < 1<<18 {
				os.WriteFile(filepath.Join(dir, fmt.Sprintf("%d.ssa", i)), []byte(ssaText), 0o644)
			}
			if len(pp.Folds) > 0 || len(ssaText) < 4096 {
				sr.Consts = listingConsts(ssaText)
				if len(sr.Consts) > 24 {
					sr.Consts = sr.Consts[:24]
				}
			}
		}
		return stamp(sr)
	}
	var r *Res
	if st.Fresh || long == nil {
		r = compileFresh(j)
	} else {
		sh, ok := long[pp.Variant]
		if !ok {
			p := newParams(j)
			sh = &pShared{c: compiler.New(p), p: p}
			long[pp.Variant] = sh
		}
		r = compileOn(sh.c, sh.p, j)
	}
	if len(r.ssa) < 1<<18 {
		os.WriteFile(filepath.Join(dir, fmt.Sprintf("%d.ssa", i)), []byte(r.ssa), 0o644)
	}
	sr := &pStepRes{Prog: st.Prog, Err: r.Err, Gates: r.Gates, Wires: r.Wires, CircHash: r.CircHash, CircLen: r.CircLen,
		SSAHash: r.SSAHash, Ms: r.Ms}
	if len(pp.Folds) > 0 || len(r.ssa) < 4096 {
		sr.Consts = listingConsts(r.ssa)
		if len(sr.Consts) > 24 {
			sr.Consts = sr.Consts[:24]
		}
	}
	return stamp(sr)
}

// ---------------------------------------------------------------- generators

func randBits(r *hxlib.Rng, n int) *big.Int {
	if n <= 0 {
		return big.NewInt(0)
	}
	v := new(big.Int).SetBytes(r.Bytes((n + 7) / 8))
	v.And(v, new(big.Int).Sub(new(big.Int).Lsh(big.NewInt(1), uint(n)), big.NewInt(1)))
	v.SetBit(v, n-1, 1)
	return v
}

func hexLit(v *big.Int) string { return "0x" + v.Text(16) }

type pGen struct {
	r     *hxlib.Rng
	progs []*pProg
	group int
	heavy bool
}

func (g *pGen) add(fam, attr, src string, sizes [][]int, variant int, folds []pFold) *pProg {
	p := &pProg{ID: len(g.progs), Family: fam, Group: g.group, Attr: attr, Src: src, Sizes: sizes, Variant: variant, Folds: folds}
	p.Name = fmt.Sprintf("%s/g%d/p%d", fam, g.group, p.ID)
	g.progs = append(g.progs, p)
	return p
}

func pick(r *hxlib.Rng, l []int) int { return l[r.Intn(len(l))] }

// wideWidths: type widths above 64 bits (a 128-bit constant division costs
// ~0.2 s of compile time, a 256-bit one ~1 s: the divider circuit is built
// and evaluated several times per expression)
func (g *pGen) wideWidths() []int {
	if g.heavy {
		return []int{68, 72, 80, 96, 100, 128, 128, 160, 192}
	}
	return []int{68, 72, 80, 80, 96, 100, 128}
}

// operand bit lengths for a sibling group with maximum `xlen` (> 65): small
// (<= 32 bits -> width 32), medium (33..64 -> width 64), two wide ones below
// xlen, xlen itself
func siblingLens(r *hxlib.Rng, xlen int) (small, mid, big1, big2 int) {
	small = 8 + r.Intn(25)
	mid = 33 + r.Intn(32)
	big1 = 65 + r.Intn(xlen-65)
	big2 = xlen - 1
	if big2 == big1 {
		if big1 > 65 {
			big1--
		} else {
			big2 = xlen
		}
	}
	return
}

func (g *pGen) wideConstSrc(w int, x, y *big.Int, exprs []string, rets int) string {
	var sb strings.Builder
	fmt.Fprintf(&sb, "package main\n\nconst A uint%d = %s\nconst B uint%d = %s\n\n", w, hexLit(x), w, hexLit(y))
	var types []string
	for i := 0; i < rets; i++ {
		types = append(types, fmt.Sprintf("uint%d", w))
	}
	fmt.Fprintf(&sb, "func main(a, b uint%d) (%s) {\n\treturn %s\n}\n", w, strings.Join(types, ", "), strings.Join(exprs, ", "))
	return sb.String()
}

var foldOpName = map[string]string{"/": "div", "%": "mod", "*": "mul", "+": "add", "-": "sub"}

// groupWideConst: family wide-const-divmod (ops / %) or wide-const-arith (* + -)
func (g *pGen) groupWideConst(fam string, ops []string, variant int) {
	r := g.r
	w := pick(r, g.wideWidths())
	xlen := pick(r, []int{w, w, w - 1, w - 3, 66 + r.Intn(w-66)})
	if xlen < 67 {
		xlen = 67
	}
	small, mid, big1, big2 := siblingLens(r, xlen)
	mk := func(what string, w, xl, yl int, ops []string) {
		x, y := randBits(r, xl), randBits(r, yl)
		var exprs []string
		var folds []pFold
		for i, op := range ops {
			arg := []string{"a", "b"}[i%2]
			exprs = append(exprs, fmt.Sprintf("%s ^ (A %s B)", arg, op))
			folds = append(folds, pFold{W: w, Op: foldOpName[op], X: x.String(), Y: y.String()})
		}
		rets := len(exprs)
		if rets < 2 {
			exprs = append(exprs, "b")
			rets = 2
		}
		attr := fmt.Sprintf("%s: uint%d, |A|=%d bits, |B|=%d bits, folds %s", what, w, xl, yl, strings.Join(ops, " "))
		p := g.add(fam, attr, g.wideConstSrc(w, x, y, exprs, rets), nil, variant, folds)
		p.Args = []pArg{{w, "uint"}, {w, "uint"}}
		for i := range folds {
			p.Rets = append(p.Rets, pRet{Arg: i % 2, Fold: &folds[i]})
		}
		if len(folds) < 2 {
			p.Rets = append(p.Rets, pRet{Arg: 1})
		}
	}
	sub := func() []string {
		// which of the operators a sibling folds
		if len(ops) > 1 && r.Intn(3) == 0 {
			return []string{ops[r.Intn(len(ops))]}
		}
		return ops
	}
	mk("victim", w, xlen, big1, ops)
	mk("same maximum, small B", w, xlen, small, sub())
	mk("same maximum, 64-bit B", w, xlen, mid, sub())
	mk("same maximum, wide B", w, xlen, big2, sub())
	mk("same maximum, operand sizes swapped", w, big1, xlen, sub())
	mk("same operand sizes, other values", w, xlen, big1, ops)
	// other type width, same operand sizes
	ws := g.wideWidths()
	w2 := w
	for _, c := range ws {
		if c > xlen && c != w {
			w2 = c
		}
	}
	if w2 != w {
		mk("other type width, same operand sizes", w2, xlen, big1, ops)
	}
	// evictor: other maximum
	w3 := pick(r, ws)
	xl3 := w3 - 1 - r.Intn(4)
	if xl3 < 67 {
		xl3 = 67
	}
	if xl3 == xlen {
		xl3--
	}
	mk("other maximum (evictor)", w3, xl3, 65+r.Intn(xl3-65), ops)
	g.group++
}

func (g *pGen) groupWideBits(variant int) {
	r := g.r
	w := pick(r, g.wideWidths())
	xlen := pick(r, []int{w, w - 1, 66 + r.Intn(w-66)})
	if xlen < 67 {
		xlen = 67
	}
	small, mid, big1, big2 := siblingLens(r, xlen)
	mk := func(what string, w, xl, yl, s1, s2 int) {
		x, y := randBits(r, xl), randBits(r, yl)
		src := fmt.Sprintf(`package main

const A uint%d = %s
const B uint%d = %s

func main(a, b uint%d) (uint%d, uint%d, bool, bool) {
	x := a ^ (A & B) ^ (A | B) ^ (A &^ B)
	y := b ^ (A << %d) ^ (A >> %d) ^ (A ^ B)
	return x, y, A < B, A == B
}
`, w, hexLit(x), w, hexLit(y), w, w, w, s1, s2)
		p := g.add("wide-const-bits", fmt.Sprintf("%s: uint%d, |A|=%d bits, |B|=%d bits, << %d, >> %d", what, w, xl, yl, s1, s2), src, nil, variant, nil)
		p.Args = []pArg{{w, "uint"}, {w, "uint"}}
	}
	s1, s2 := 1+r.Intn(w-1), 1+r.Intn(w-1)
	mk("victim", w, xlen, big1, s1, s2)
	mk("same maximum, small B", w, xlen, small, s1, s2)
	mk("same maximum, 64-bit B", w, xlen, mid, s1, s2)
	mk("same maximum, wide B", w, xlen, big2, s1, s2)
	mk("operand sizes swapped", w, big1, xlen, s1, s2)
	mk("same sizes, other shift counts", w, xlen, big1, s2, 64)
	mk("same sizes, shift by the width - 1", w, xlen, big1, w-1, w-1)
	w3 := pick(r, g.wideWidths())
	mk("other width (evictor)", w3, w3-2, 65+r.Intn(w3-67), 3, 65)
	g.group++
}

func (g *pGen) groupRuntimeOps(variant int) {
	r := g.r
	widths := []int{7, 8, 16, 24, 31, 32, 33, 48, 64, 65, 80}
	if variant == 2 {
		// GMW target: the Goldschmidt divider costs seconds of compile time from ~24 bits on
		widths = []int{3, 5, 7, 8, 9, 12, 15, 16}
	}
	w := pick(r, widths)
	signed := r.Bool()
	opsets := [][]string{
		{"a * b", "a / (b | 1)", "a % (b | 1)"},
		{"a / (b | 1)", "a * b", "a + b"},
		{"a % (b | 1)", "a - b", "a * b"},
	}
	mk := func(what string, w int, signed bool, exprs []string, cmp string) {
		t := fmt.Sprintf("uint%d", w)
		if signed {
			t = fmt.Sprintf("int%d", w)
		}
		src := fmt.Sprintf("package main\n\nfunc main(a, b %s) (%s, %s, %s, bool) {\n\treturn %s, a %s b\n}\n", t, t, t, t,
			strings.Join(exprs, ", "), cmp)
		p := g.add("runtime-ops", fmt.Sprintf("%s: %s, %s, a %s b", what, t, strings.Join(exprs, "; "), cmp), src, nil, variant, nil)
		p.Args = []pArg{{w, t[:len(t)-len(fmt.Sprint(w))]}, {w, t[:len(t)-len(fmt.Sprint(w))]}}
	}
	os0 := opsets[r.Intn(len(opsets))]
	mk("victim", w, signed, os0, "<")
	mk("other signedness", w, !signed, os0, "<")
	mk("other operator order", w, signed, []string{os0[2], os0[0], os0[1]}, "<")
	mk("other comparison", w, signed, os0, ">=")
	for _, d := range []int{-1, 1} {
		if w+d >= 2 {
			mk(fmt.Sprintf("width %+d", d), w+d, signed, os0, "<")
		}
	}
	mk("other operators", w, signed, opsets[(r.Intn(2)+1)%len(opsets)], "<")
	mk("other width (evictor)", pick(r, widths), !signed, opsets[r.Intn(len(opsets))], "<")
	g.group++
}

func (g *pGen) groupAggregates(variant int) {
	r := g.r
	letters := "abcdefghijklmnopqrstuvwxyzABCDEFGHIJKLMNOPQRSTUVWXYZ0123456789 ,.!"
	rstr := func(n int) string {
		b := make([]byte, n)
		for i := range b {
			b[i] = letters[r.Intn(len(letters))]
		}
		return string(b)
	}
	rarr := func(n, k int) []string {
		var l []string
		for i := 0; i < n; i++ {
			l = append(l, fmt.Sprint(r.Intn(1<<uint(k-1))))
		}
		return l
	}
	mk := func(what, s string, k int, arr []string) {
		src := fmt.Sprintf(`package main

func main(a, b int32) (int32, int32) {
	val := %q
	arr := [%d]int%d{%s}
	var sum int32
	for i := 0; i < len(val); i++ {
		sum += int32(val[i])
	}
	var s2 int32
	for i := 0; i < len(arr); i++ {
		s2 += int32(arr[i])
	}
	return sum + a, s2 + b + int32(len(val))
}
`, s, len(arr), k, strings.Join(arr, ", "))
		p := g.add("const-aggregates", fmt.Sprintf("%s: string of %d bytes, [%d]int%d", what, len(s), len(arr), k), src, nil, variant, nil)
		p.Args = []pArg{{32, "int"}, {32, "int"}}
	}
	n := 3 + r.Intn(12)
	k := pick(r, []int{8, 16, 32})
	na := 2 + r.Intn(6)
	s, arr := rstr(n), rarr(na, k)
	mk("victim", s, k, arr)
	mk("same length, other string", rstr(n), k, arr)
	mk("same string, other array values", s, k, rarr(na, k))
	mk("same values, other element type", s, map[int]int{8: 16, 16: 32, 32: 16}[k], arr)
	mk("one byte longer string", s+"x", k, arr)
	mk("one element more", s, k, append(append([]string{}, arr...), "1"))
	mk("prefix of the string", s[:n-1], k, arr[:na-1])
	g.group++
}

func (g *pGen) groupLibrary(variant int) {
	r := g.r
	natives := []string{"AddUint64", "SubUint64", "MulUint64", "DivUint64"}
	mk := func(what string, k int, nat string, order int) {
		exprs := []string{
			fmt.Sprintf("uint%d(math.MaxUint(a, b))", k),
			fmt.Sprintf("uint%d(binary.HammingDistance(a, b))", k),
			fmt.Sprintf("math.%s(uint64(a), uint64(b))", nat),
		}
		types := []string{fmt.Sprintf("uint%d", k), fmt.Sprintf("uint%d", k), "uint64"}
		for i := 0; i < order; i++ {
			exprs = append(exprs[1:], exprs[0])
			types = append(types[1:], types[0])
		}
		src := fmt.Sprintf(`package main

import (
	"encoding/binary"
	"math"
)

func main(a, b uint%d) (%s) {
	return %s
}
`, k, strings.Join(types, ", "), strings.Join(exprs, ", "))
		p := g.add("library", fmt.Sprintf("%s: uint%d, math.%s, rotation %d", what, k, nat, order), src, nil, variant, nil)
		p.Args = []pArg{{k, "uint"}, {k, "uint"}}
	}
	k := pick(r, []int{8, 16, 24, 32, 64})
	nat := natives[r.Intn(len(natives))]
	mk("victim", k, nat, 0)
	for _, k2 := range []int{8, 16, 32, 64} {
		if k2 != k {
			mk("other argument width", k2, nat, 0)
		}
	}
	mk("other native circuit", k, natives[(r.Intn(3)+1+indexOf(natives, nat))%4], 0)
	mk("other call order", k, nat, 1+r.Intn(2))
	g.group++
}

func indexOf(l []string, s string) int {
	for i, x := range l {
		if x == s {
			return i
		}
	}
	return 0
}

// groupSizesParams: ONE source, different input sizes and parameter variants
func (g *pGen) groupSizesParams() {
	r := g.r
	c := 1 + r.Intn(200)
	src := fmt.Sprintf(`package main

func main(a, b []byte) (int32, int32) {
	var sa int32
	for i := 0; i < len(a); i++ {
		sa += int32(a[i])
	}
	var sb int32
	for i := 0; i < len(b); i++ {
		sb += int32(b[i]) * %d
	}
	return sa + sb, int32(len(a)) - int32(len(b))
}
`, c)
	n, m := 2+r.Intn(5), 2+r.Intn(5)
	mk := func(what string, n, m, variant int) {
		p := g.add("sizes-params", fmt.Sprintf("%s: sizes %d,%d bytes, parameter variant %d", what, n, m, variant), src,
			[][]int{{8 * n}, {8 * m}}, variant, nil)
		p.Args = []pArg{{8 * n, "bytes"}, {8 * m, "bytes"}}
	}
	mk("victim", n, m, 0)
	mk("other size of a", n+1, m, 0)
	mk("other size of b", n, m+1, 0)
	mk("sizes swapped", m, n+1, 0)
	mk("same sizes, prune", n, m, 1)
	mk("same sizes, prune + GMW", n, m, 2)
	mk("other sizes, prune", n+1, m+1, 1)
	g.group++
}

// genPGroups: the sibling groups of a run.  `focus` restricts the families
// (widened search), `scale` multiplies the number of groups per family.
func genPGroups(seed uint64, tier string, focus map[string]bool, scale int) []*pProg {
	g := &pGen{r: hxlib.NewRng(seed ^ 0x70737461), heavy: tier != "quick"}
	want := func(f string) bool { return len(focus) == 0 || focus[f] }
	per := map[string]int{"wide-const-divmod": 3, "wide-const-arith": 2, "wide-const-bits": 2, "runtime-ops": 2,
		"const-aggregates": 1, "library": 1, "sizes-params": 1, "const-rich": 1}
	if g.heavy {
		per = map[string]int{"wide-const-divmod": 6, "wide-const-arith": 4, "wide-const-bits": 4, "runtime-ops": 5,
			"const-aggregates": 3, "library": 3, "sizes-params": 3, "const-rich": 3}
	}
	for _, fam := range pFamilies {
		if !want(fam) {
			continue
		}
		for i := 0; i < per[fam]*scale; i++ {
			variant := g.r.Intn(3)
			switch fam {
			case "wide-const-divmod":
				g.groupWideConst(fam, []string{"/", "%"}, variant)
			case "wide-const-arith":
				g.groupWideConst(fam, []string{"*", "+", "-"}, variant)
			case "wide-const-bits":
				g.groupWideBits(variant)
			case "runtime-ops":
				g.groupRuntimeOps(variant)
			case "const-aggregates":
				g.groupAggregates(variant)
			case "library":
				g.groupLibrary(variant)
			case "sizes-params":
				g.groupSizesParams()
			case "const-rich":
				g.groupConstRich(variant)
			}
		}
	}
	return g.progs
}

// ---------------------------------------------------------------- specs

func shuffled(r *hxlib.Rng, l []int) []int {
	s := append([]int{}, l...)
	for i := len(s) - 1; i > 0; i-- {
		k := r.Intn(i + 1)
		s[i], s[k] = s[k], s[i]
	}
	return s
}

func reversed(l []int) []int {
	s := make([]int, len(l))
	for i, x := range l {
		s[len(l)-1-i] = x
	}
	return s
}

// mkSpec builds a self-contained spec from global program ids.
func mkSpec(name, kind string, all []*pProg, seq []int, fresh func(i int) bool) *pSpec {
	sp := &pSpec{Name: name, Kind: kind}
	local := map[int]int{}
	for i, id := range seq {
		li, ok := local[id]
		if !ok {
			li = len(sp.Progs)
			local[id] = li
			sp.Progs = append(sp.Progs, all[id])
		}
		sp.Steps = append(sp.Steps, pStep{Prog: li, Fresh: fresh(i)})
	}
	return sp
}

var pEnvs = [][]string{nil, {"GOMAXPROCS=1"}, {"GOGC=5"}, {"GOMAXPROCS=3", "GOGC=400"}}

func buildPSpecs(seed uint64, progs []*pProg) []*pSpec {
	r := hxlib.NewRng(seed ^ 0x73706563)
	byGroup := map[int][]int{}
	var groups []int
	for _, p := range progs {
		if _, ok := byGroup[p.Group]; !ok {
			groups = append(groups, p.Group)
		}
		byGroup[p.Group] = append(byGroup[p.Group], p.ID)
	}
	var specs []*pSpec
	for _, gi := range groups {
		l := byGroup[gi]
		fam := progs[l[0]].Family
		// one long-lived Compiler (per parameter variant): forward, reversed, shuffled
		seq := append(append(append([]int{}, l...), reversed(l)...), shuffled(r, l)...)
		specs = append(specs, mkSpec(fmt.Sprintf("%s/g%d/one-compiler", fam, gi), "one-compiler", progs, seq,
			func(int) bool { return false }))
		// fresh Compilers in one process: reversed, forward
		seq = append(append([]int{}, reversed(l)...), l...)
		specs = append(specs, mkSpec(fmt.Sprintf("%s/g%d/fresh-compilers", fam, gi), "fresh-compilers", progs, seq,
			func(int) bool { return true }))
		// a mix: shuffled, alternating long-lived / fresh, then the victim again
		seq = append(shuffled(r, l), shuffled(r, l)...)
		seq = append(seq, l[0])
		specs = append(specs, mkSpec(fmt.Sprintf("%s/g%d/mixed", fam, gi), "mixed", progs, seq,
			func(i int) bool { return i%2 == 1 }))
	}
	// cross-facility histories: every program of every group in one process
	var all []int
	for _, p := range progs {
		all = append(all, p.ID)
	}
	if len(groups) > 1 {
		s1 := shuffled(r, all)
		specs = append(specs, mkSpec("all-groups/one-compiler", "cross-facility", progs, s1, func(int) bool { return false }))
		specs = append(specs, mkSpec("all-groups/fresh-compilers-reversed", "cross-facility", progs, reversed(s1),
			func(int) bool { return true }))
	}
	for i, sp := range specs {
		sp.Env = pEnvs[i%len(pEnvs)]
	}
	return specs
}

// ---------------------------------------------------------------- running

type pRunner struct {
	self    string
	racebin string // the race-detector build of this harness ("" = not available)
	work    string
	n       int
	mu      sync.Mutex
	trial   int
}

// run executes one spec in a fresh child process; returns the step results
// and the directory with the SSA listings.
func (pr *pRunner) run(sp *pSpec) ([]*pStepRes, string) {
	pr.mu.Lock()
	pr.n++
	id := pr.n
	pr.mu.Unlock()
	dir := filepath.Join(pr.work, fmt.Sprintf("pchild-%d", id))
	os.MkdirAll(dir, 0o755)
	sf := filepath.Join(dir, "spec.json")
	of := filepath.Join(dir, "out.json")
	b, _ := json.Marshal(sp)
	os.WriteFile(sf, b, 0o644)
	bin := pr.self
	env := append(os.Environ(), sp.Env...)
	if sp.Race {
		if pr.racebin == "" {
			return nil, dir
		}
		bin = pr.racebin
		// reports go to <dir>/race.<pid>; the process goes on after a report and exits as usual
		env = append(env, "GORACE=log_path="+filepath.Join(dir, "race")+" halt_on_error=0 exitcode=0 history_size=3")
	}
	cmd := exec.Command(bin, "pchild", sf, of, dir)
	cmd.Env = env
	if ef, err := os.Create(filepath.Join(dir, "stderr.txt")); err == nil {
		cmd.Stderr = ef
		defer ef.Close()
	}
	cmd.Run()
	rb, err := os.ReadFile(of)
	if err != nil {
		return nil, dir
	}
	var rs []*pStepRes
	if json.Unmarshal(rb, &rs) != nil || len(rs) != len(sp.Steps) {
		return nil, dir
	}
	return rs, dir
}

func (pr *pRunner) runAll(specs []*pSpec, par int) ([][]*pStepRes, []string) {
	res := make([][]*pStepRes, len(specs))
	dirs := make([]string, len(specs))
	var wg sync.WaitGroup
	sem := make(chan struct{}, par)
	for i := range specs {
		wg.Add(1)
		go func(i int) {
			defer wg.Done()
			sem <- struct{}{}
			defer func() { <-sem }()
			res[i], dirs[i] = pr.run(specs[i])
		}(i)
	}
	wg.Wait()
	return res, dirs
}

func readSSA(dir string, step int) string {
	b, err := os.ReadFile(filepath.Join(dir, fmt.Sprintf("%d.ssa", step)))
	if err != nil {
		return ""
	}
	return string(b)
}

// prefixSpec: the history up to and including step `last`, optionally
// without the steps in `drop`.
//
// A concurrent element is kept whole: when step `last` is inside one, the
// other steps of the element stay and `last` becomes the final step.
func prefixSpec(sp *pSpec, last int, drop map[int]bool) *pSpec {
	ns := &pSpec{Name: sp.Name + " (history)", Kind: sp.Kind, Env: sp.Env}
	local := map[int]int{}
	order := make([]int, 0, last+1)
	for i := 0; i < last; i++ {
		order = append(order, i)
	}
	if par := sp.Steps[last].Par; par != 0 {
		for i := last + 1; i < len(sp.Steps) && sp.Steps[i].Par == par; i++ {
			order = append(order, i)
		}
	}
	order = append(order, last)
	for _, i := range order {
		if drop[i] {
			continue
		}
		st := sp.Steps[i]
		ni, ok := local[st.Prog]
		if !ok {
			ni = len(ns.Progs)
			local[st.Prog] = ni
			ns.Progs = append(ns.Progs, sp.Progs[st.Prog])
		}
		st.Prog = ni
		ns.Steps = append(ns.Steps, st)
	}
	return ns
}

func pristineSpec(p *pProg) *pSpec {
	return &pSpec{Name: "the program alone in a fresh process", Kind: "pristine", Progs: []*pProg{p}, Steps: []pStep{{Prog: 0, Fresh: true}}}
}

// pristineStepSpec: the step (of any kind) alone in a fresh process
func pristineStepSpec(p *pProg, st pStep) *pSpec {
	st.Prog = 0
	st.Par = 0
	if stepKind(st) == kCompile {
		st.Fresh = true
	}
	return &pSpec{Name: "the step alone in a fresh process", Kind: "pristine", Progs: []*pProg{p}, Steps: []pStep{st}}
}

// minimise: ddmin over the steps before the last one; keeps a removal when
// the last step's output still differs from `want`.  At most `budget` trials.
func (pr *pRunner) minimise(sp *pSpec, want *pStepRes, cmp func(a, b *pStepRes) bool, budget int) (*pSpec, int) {
	cur := sp
	trials := 0
	if n := len(cur.Steps); n > 1 && cur.Steps[n-1].Par != 0 {
		// the last step is inside a concurrent element: first try the element alone (what it needs is most
		// often only its peers); the schedule decides, so up to 3 runs
		drop := map[int]bool{}
		for i, st := range cur.Steps {
			if st.Par != cur.Steps[n-1].Par {
				drop[i] = true
			}
		}
		if len(drop) > 0 {
			cand := prefixSpec(cur, n-1, drop)
			cand.Name = sp.Name
			for try := 0; try < 3 && trials < budget; try++ {
				rs, _ := pr.run(cand)
				trials++
				if rs != nil && differing(cand, rs, want, cmp) != nil {
					cur = cand
					break
				}
			}
		}
	}
	chunk := (len(cur.Steps) - 1) / 2
	if chunk < 1 {
		chunk = 1
	}
	for trials < budget && len(cur.Steps) > 1 {
		removed := false
		for start := 0; start+chunk <= len(cur.Steps)-1 && trials < budget; {
			drop := map[int]bool{}
			for i := start; i < start+chunk; i++ {
				drop[i] = true
			}
			cand := prefixSpec(cur, len(cur.Steps)-1, drop)
			cand.Name = sp.Name
			rs, _ := pr.run(cand)
			trials++
			if rs != nil && differing(cand, rs, want, cmp) == nil && hasConcurrent(cand) {
				// the schedule decides: a concurrent history gets a second run
				rs, _ = pr.run(cand)
			}
			if rs != nil && differing(cand, rs, want, cmp) != nil {
				cur = cand
				removed = true
			} else {
				start += chunk
			}
		}
		if chunk > 1 {
			chunk /= 2
		} else if !removed {
			break
		}
	}
	return cur, trials
}

func describeHistory(sp *pSpec) []string {
	var l []string
	for i, st := range sp.Steps {
		p := sp.Progs[st.Prog]
		how := "the process's long-lived Compiler"
		if st.Fresh || st.Par != 0 {
			how = "a fresh Compiler"
		}
		conc := ""
		if st.Par != 0 {
			n := 0
			for _, o := range sp.Steps {
				if o.Par == st.Par {
					n++
				}
			}
			conc = fmt.Sprintf("[concurrent element %d: %d goroutines started from a barrier] ", st.Par, n)
		}
		if k := stepKind(st); k != kCompile {
			l = append(l, fmt.Sprintf("%d. %s%s (fresh Compiler) inputs %v: %s [%s]", i+1, conc, k, st.In, p.Name, p.Attr))
			continue
		}
		l = append(l, fmt.Sprintf("%d. %sCompile on %s: %s [%s]", i+1, conc, how, p.Name, p.Attr))
	}
	return l
}

func historySources(sp *pSpec) []map[string]any {
	var l []map[string]any
	for _, p := range sp.Progs {
		l = append(l, map[string]any{"name": p.Name, "attributes": p.Attr, "variant": p.Variant, "sizes": fmt.Sprint(p.Sizes),
			"source": clipS(p.Src, 2500)})
	}
	return l
}

// reportPFailure: (sa, ia) and (sb, ib) are two steps with the same program
// whose outputs must be equal under `cmp` (sameCircuit: the compilations inside
// the steps; same: steps of one kind with the same inputs) and are not.
func (pr *pRunner) reportPFailure(o *hxlib.Out, seed uint64, tier string, sa *pSpec, ia int, ra *pStepRes, sb *pSpec, ib int, rb *pStepRes,
	cmp func(a, b *pStepRes) bool, budget int) {
	prog := sa.Progs[sa.Steps[ia].Prog]
	d := map[string]any{
		"program": prog.Name, "family": prog.Family, "attributes": prog.Attr, "variant": prog.Variant, "sizes": fmt.Sprint(prog.Sizes),
		"source": clipS(prog.Src, 3000),
		"found_in": fmt.Sprintf("process %q step %d (%s)  vs  process %q step %d (%s)", sa.Name, ia+1, stepKind(sa.Steps[ia]), sb.Name, ib+1,
			stepKind(sb.Steps[ib])),
		"a": ra.String(), "b": rb.String(),
	}
	what := "ssa"
	if ra.CircHash != rb.CircHash || ra.CircLen != rb.CircLen {
		what = "circuit"
		if ra.SSAHash != rb.SSAHash {
			what = "circuit+ssa"
		}
	}
	if ra.Err != rb.Err {
		what = "error"
	}
	if ra.sameCircuit(rb) {
		what = "results of running the program"
	}
	d["what"] = what
	// the reference: the differing step alone in a fresh process
	var bad, pris *pSpec
	var p0 *pStepRes
	var pdir string
	prisA := pristineStepSpec(prog, sa.Steps[ia])
	if prs, dir := pr.run(prisA); prs != nil {
		d["alone_in_a_fresh_process"] = prs[0].String()
		if !cmp(ra, prs[0]) {
			bad, pris, p0, pdir = prefixSpec(sa, ia, nil), prisA, prs[0], dir
		} else {
			prisB := pristineStepSpec(prog, sb.Steps[ib])
			if prs2, dir2 := pr.run(prisB); prs2 != nil && !cmp(rb, prs2[0]) {
				bad, pris, p0, pdir = prefixSpec(sb, ib, nil), prisB, prs2[0], dir2
			}
		}
	}
	if bad != nil {
		trials := 0
		orig := bad
		if budget > 0 {
			bad, trials = pr.minimise(bad, p0, cmp, budget)
		}
		// pooled objects are per P and the scheduler decides who finds them: a history may need more than one run
		// (and a concurrent element's schedule is the runtime's)
		reruns := 3
		if hasConcurrent(bad) {
			reruns = 8
		}
		brs, bdir := pr.run(bad)
		for try := 0; try < reruns && brs != nil && differing(bad, brs, p0, cmp) == nil; try++ {
			brs, bdir = pr.run(bad)
		}
		if (brs == nil || differing(bad, brs, p0, cmp) == nil) && bad != orig {
			// a trial of the minimisation differed by the luck of one schedule: back to the history as it was found
			bad = orig
			d["minimisation_note"] = "the minimised history did not reproduce the difference in 9 runs; the history is the one found"
			brs, bdir = pr.run(bad)
			for try := 0; try < reruns && brs != nil && differing(bad, brs, p0, cmp) == nil; try++ {
				brs, bdir = pr.run(bad)
			}
		}
		if brs != nil && differing(bad, brs, p0, cmp) != nil {
			last := differing(bad, brs, p0, cmp)
			d["after_the_history"] = last.String()
			d["alone_in_a_fresh_process"] = p0.String()
			d["history"] = describeHistory(bad)
			d["reference"] = describeHistory(pris)
			d["history_programs"] = historySources(bad)
			d["history_env"] = bad.Env
			d["minimisation_trials"] = trials
			d["replay_spec"] = map[string]any{"history": bad, "reference": pris}
			ta, tb := readSSA(pdir, 0), readSSA(bdir, indexOfRes(brs, last))
			if hasConcurrent(bad) {
				d["concurrent"] = true
				d["schedule_note"] = "the steps of a concurrent element run at the same time; which of them gets the different output is " +
					"decided by the Go scheduler: the replay compares every step of the last element that compiles the same program with " +
					"the reference and re-runs the history up to 8 times"
			}
			if ta != tb {
				d["ssa_diff"] = firstDiff(ta, tb)
				d["ssa_listing_alone"] = clipS(ta, 12000)
				d["ssa_listing_after_history"] = clipS(tb, 12000)
			}
		} else {
			bad = nil
		}
	}
	if bad == nil {
		// neither side differs reproducibly from the step alone in a fresh
		// process: the two processes themselves are the replay
		ha, hb := prefixSpec(sa, ia, nil), prefixSpec(sb, ib, nil)
		if hasConcurrent(hb) && !hasConcurrent(ha) {
			ha, hb = hb, ha
		}
		d["history"] = describeHistory(ha)
		d["other_history"] = describeHistory(hb)
		d["replay_spec"] = map[string]any{"history": ha, "reference": hb}
		d["note"] = "the difference did not reproduce against the step alone in a fresh process; both processes are kept"
	}
	d["rerun"] = fmt.Sprintf("bin/check C08 --replay <this file>   (c08 pstate -seed %d -tier %s -extra replay=<this file>)", seed, tier)
	o.Fail("c08-process-state-history", d)
}

// ---------------------------------------------------------------- main

func parsePExtra(extra string) (focus map[string]bool, scale int, replay string, heavy bool, acts string, racebin string, conc string) {
	focus = map[string]bool{}
	scale = 1
	for _, kv := range strings.Split(extra, ";") {
		k, v, _ := strings.Cut(strings.TrimSpace(kv), "=")
		switch k {
		case "focus":
			for _, f := range strings.Split(v, ",") {
				if f != "" {
					focus[f] = true
				}
			}
		case "scale":
			fmt.Sscan(v, &scale)
		case "replay":
			replay = v
		case "heavy":
			heavy = v != "" && v != "0"
		case "acts":
			// activity histories (pacts.go): "" = one per group + one over all groups; full = every kind with
			// same-width and other-width actors; off = none
			acts = v
		case "racebin":
			// the race-detector build of this harness (go build -race): one concurrent history runs under it
			racebin = v
		case "conc":
			// concurrent histories (pconc.go): "" = one per group + one over all groups; full = more rounds; off = none
			conc = v
		}
	}
	if scale < 1 {
		scale = 1
	}
	return
}

func runPState(cf *hxlib.CommonFlags, o *hxlib.Out) {
	devNullStdout()
	work := filepath.Dir(cf.Ops)
	if cf.Ops == "" {
		work, _ = os.MkdirTemp("", "c08-pstate-*")
	}
	work = filepath.Join(work, fmt.Sprintf("c08-pstate-%d", cf.Seed))
	os.MkdirAll(work, 0o755)
	defer os.RemoveAll(work)
	self, _ := os.Executable()
	focus, scale, replay, heavy, acts, racebin, conc := parsePExtra(cf.Extra)
	pr := &pRunner{self: self, work: work, racebin: racebin}
	if replay != "" {
		replayPState(pr, o, replay)
		return
	}
	start := time.Now()
	tier := cf.Tier
	if heavy {
		// widened search: the thorough tier's widths and group counts
		tier = "thorough"
	}
	progs := genPGroups(cf.Seed, tier, focus, scale)
	specs := buildPSpecs(cf.Seed, progs)
	if acts != "off" {
		specs = append(specs, buildActivitySpecs(cf.Seed, progs, acts == "full" || cf.Tier != "quick")...)
	}
	if conc != "off" {
		specs = append(specs, buildConcurrentSpecs(cf.Seed, progs, conc == "full" || cf.Tier != "quick", racebin != "")...)
	}
	par := cf.N
	if par <= 0 {
		par = 8
	}
	results, dirs := pr.runAll(specs, par)
	o.Meta["pstate_programs"] = len(progs)
	o.Meta["pstate_processes"] = len(specs)
	for _, p := range progs {
		o.Count("pstate_programs_" + p.Family)
	}
	// compare all compilations of each program (whatever the kind of the step
	// they happened in) and all steps of one (program, kind, inputs)
	type occ struct{ spec, step int }
	first := map[int]occ{}
	firstC := map[string]occ{}
	firstV := map[string]occ{}
	type diff struct {
		a, b occ
		full bool // steps of one (program, kind, inputs): full outputs; otherwise the compilations inside
	}
	var diffs []diff
	okProcs := 0
	compiled := map[int]bool{}
	for si, rs := range results {
		if rs == nil {
			childFailed(o, specs[si], dirs[si])
			continue
		}
		okProcs++
		o.Count("pstate_processes_" + specs[si].Kind)
		countConcurrency(o, specs[si], rs)
		for i, r := range rs {
			id := specs[si].Progs[r.Prog].ID
			st := specs[si].Steps[i]
			k := stepKind(st)
			if _, ok := first[id]; !ok {
				first[id] = occ{si, i}
			}
			o.Count("pstate_steps_" + k)
			if k != kCompile {
				o.CountN("pstate_step_ms_"+k, int(r.Ms))
				if r.Err == "" && (r.Status == "ok" || r.Status == "") {
					o.Count("pstate_steps_ok_" + k)
				} else {
					o.Count("pstate_steps_not_ok_" + k)
					if len(o.Samples) < 8 {
						o.Sample(map[string]any{"pstate_step_not_ok": k, "program": progs[id].Name, "inputs": st.In, "status": r.Status, "err": r.Err})
					}
				}
				if isStreamKind(k) && r.Status == "ok" {
					o.Count("pstate_streaming_sessions_ok")
					if len(r.GC) > 0 {
						o.Count("pstate_streaming_sessions_recycling_arguments")
					}
				}
			}
			// the compilation inside the step
			ckey := ""
			switch k {
			case kCompile, kCompute, kGarbleEval, kRoundtrip:
				ckey = fmt.Sprintf("c|%d", id)
			case kCompileFile:
				ckey = fmt.Sprintf("f|%d", id)
			}
			if ckey != "" {
				o.Count("pstate_compilations")
				o.CountN("pstate_compile_ms_"+progs[id].Family, int(r.Ms))
				if k == kCompile {
					if st.Fresh {
						o.Count("pstate_compilations_fresh_compiler")
					} else {
						o.Count("pstate_compilations_long_lived_compiler")
					}
				} else {
					o.Count("pstate_compilations_inside_" + k)
				}
				if r.Err == "" && k == kCompile {
					compiled[id] = true
				}
				if f, ok := firstC[ckey]; !ok {
					firstC[ckey] = occ{si, i}
				} else {
					o.Count("pstate_comparisons")
					if f.spec == si {
						o.Count("pstate_comparisons_same_process")
					} else {
						o.Count("pstate_comparisons_cross_process")
					}
					if st.Par != 0 {
						o.Count("pstate_comparisons_concurrent_compilation")
					}
					if specs[si].Kind == "activities" || specs[si].Kind == "cross-activities" {
						o.Count("pstate_comparisons_after_activities")
						if i > 0 && isStreamKind(stepKind(specs[si].Steps[i-1])) {
							o.Count("pstate_comparisons_after_streaming_session")
						}
					}
					if !results[f.spec][f.step].sameCircuit(r) {
						o.Count("pstate_diff_" + progs[id].Family)
						diffs = append(diffs, diff{f, occ{si, i}, false})
					}
				}
			}
			// the whole step
			if k != kCompile && k != kCompileFile {
				vkey := fmt.Sprintf("%d|%s|%s", id, k, strings.Join(st.In, ","))
				if f, ok := firstV[vkey]; !ok {
					firstV[vkey] = occ{si, i}
				} else {
					o.Count("pstate_comparisons_step_outputs")
					if !results[f.spec][f.step].same(r) {
						o.Count("pstate_diff_step_" + k)
						diffs = append(diffs, diff{f, occ{si, i}, true})
					}
				}
			}
		}
	}
	o.Meta["pstate_processes_ok"] = okProcs
	{
		// the slowest programs (maximum compile time over their compilations)
		maxMs := map[int]int64{}
		for si, rs := range results {
			for _, r := range rs {
				id := specs[si].Progs[r.Prog].ID
				if r.Ms > maxMs[id] {
					maxMs[id] = r.Ms
				}
			}
		}
		ids := make([]int, 0, len(maxMs))
		for id := range maxMs {
			ids = append(ids, id)
		}
		sort.Slice(ids, func(a, b int) bool {
			return maxMs[ids[a]] > maxMs[ids[b]] || maxMs[ids[a]] == maxMs[ids[b]] && ids[a] < ids[b]
		})
		var slow []string
		for i := 0; i < len(ids) && i < 5; i++ {
			slow = append(slow, fmt.Sprintf("%s [%s] variant %d: %d ms", progs[ids[i]].Name, progs[ids[i]].Attr, progs[ids[i]].Variant, maxMs[ids[i]]))
		}
		o.Meta["pstate_slowest_programs"] = slow
	}
	for _, p := range progs {
		if compiled[p.ID] {
			o.Count("pstate_programs_compiled")
			o.Count("pstate_programs_compiled_" + p.Family)
		} else {
			o.Count("pstate_programs_not_compiling_" + p.Family)
			if f, ok := first[p.ID]; ok && len(o.Samples) < 5 {
				o.Sample(map[string]any{"pstate_program_not_compiling": p.Name, "error": results[f.spec][f.step].Err, "source": clipS(p.Src, 400)})
			}
		}
	}
	// report: one failure per family (the first two minimised), same-process differences first
	// then the programs with the most differing compilations (the most reproducible ones)
	perProg := map[int]int{}
	progOf := func(df diff) int { return specs[df.a.spec].Progs[results[df.a.spec][df.a.step].Prog].ID }
	for _, df := range diffs {
		perProg[progOf(df)]++
	}
	sort.SliceStable(diffs, func(i, j int) bool {
		si := diffs[i].a.spec == diffs[i].b.spec
		sj := diffs[j].a.spec == diffs[j].b.spec
		if si != sj {
			return si
		}
		return perProg[progOf(diffs[i])] > perProg[progOf(diffs[j])]
	})
	perFam := map[string]int{}
	reported := 0
	for _, df := range diffs {
		id := specs[df.a.spec].Progs[results[df.a.spec][df.a.step].Prog].ID
		fam := progs[id].Family
		if perFam[fam] >= 1 || reported >= 4 {
			continue
		}
		perFam[fam]++
		reported++
		cmp := (*pStepRes).sameCircuit
		if df.full {
			cmp = (*pStepRes).same
		}
		pr.reportPFailure(o, cf.Seed, cf.Tier, specs[df.a.spec], df.a.step, results[df.a.spec][df.a.step],
			specs[df.b.spec], df.b.step, results[df.b.spec][df.b.step], cmp, map[int]int{1: 40, 2: 12}[reported])
	}
	// model ops: the one-compiler history of every group with modelled folds
	for si, sp := range specs {
		if sp.Kind != "one-compiler" || results[si] == nil || len(sp.Progs[0].Folds) == 0 {
			continue
		}
		var steps, want []string
		ok := true
		for i, st := range sp.Steps {
			p := sp.Progs[st.Prog]
			r := results[si][i]
			if r.Err != "" || len(r.Consts) != len(p.Folds) {
				ok = false
				break
			}
			var fs []string
			for _, f := range p.Folds {
				fs = append(fs, fmt.Sprintf("%d:%s:%s:%s", f.W, f.Op, f.X, f.Y))
			}
			steps = append(steps, strings.Join(fs, ","))
			want = append(want, strings.Join(r.Consts, ","))
		}
		if !ok {
			o.Count("op_phist_skipped")
			continue
		}
		o.Op("phist "+strings.Join(steps, ";"), strings.Join(want, ";"))
		o.Count("op_phist")
		o.CountN("op_phist_steps", len(steps))
	}
	// model ops: the activity histories (all step kinds) of the groups whose programs are modelled
	for si, sp := range specs {
		if (sp.Kind != "activities" && sp.Kind != "cross-activities") || results[si] == nil {
			continue
		}
		// cut the history down to the steps of modelled programs (the model's
		// step does not look at the process state: any sub-history is a history)
		sub := &pSpec{Name: sp.Name, Kind: sp.Kind, Progs: sp.Progs}
		var rs []*pStepRes
		for i, st := range sp.Steps {
			if len(sp.Progs[st.Prog].Rets) > 0 && results[si][i].Err == "" {
				sub.Steps = append(sub.Steps, st)
				rs = append(rs, results[si][i])
			}
		}
		if len(sub.Steps) == 0 {
			continue
		}
		op, want, ok := ahistOp(sub, rs)
		if !ok {
			o.Count("op_ahist_skipped")
			continue
		}
		o.Op(op, want)
		o.Count("op_ahist")
		o.CountN("op_ahist_steps", len(sub.Steps))
		for _, st := range sub.Steps {
			o.Count("op_ahist_steps_" + kindLetter(stepKind(st)))
		}
	}
	// the concurrent history that ran under the race detector: every report is a failure
	for si, sp := range specs {
		if sp.Race && results[si] != nil {
			o.Count("pstate_race_detector_processes")
			reportRaces(o, pr.racebin, sp, dirs[si], false)
		}
	}
	// model ops: the concurrent histories of the groups whose programs are modelled
	emitCHistOps(o, cf.Seed, specs, results)
	if len(progs) > 0 {
		o.Sample(map[string]any{"pstate_program": progs[0].Name, "attributes": progs[0].Attr, "source": clipS(progs[0].Src, 500)})
	}
	o.Meta["pstate_ms"] = time.Since(start).Milliseconds()
}

// replayPState re-runs exactly the recorded history and its reference, each
// in a fresh process, and compares the last steps.
func replayPState(pr *pRunner, o *hxlib.Out, file string) {
	b, err := os.ReadFile(file)
	if err != nil {
		o.Meta["replay_error"] = err.Error()
		return
	}
	var doc struct {
		Failure map[string]json.RawMessage `json:"failure"`
	}
	if json.Unmarshal(b, &doc) != nil || doc.Failure["replay_spec"] == nil {
		o.Meta["replay_error"] = "no replay_spec in " + file
		return
	}
	var rs struct {
		History   *pSpec `json:"history"`
		Reference *pSpec `json:"reference"`
	}
	if json.Unmarshal(doc.Failure["replay_spec"], &rs) != nil || rs.History == nil {
		o.Meta["replay_error"] = "unreadable replay_spec in " + file
		return
	}
	if rs.History.Race {
		// a data-race report: the recorded history again under the race detector
		replayRace(pr, o, rs.History)
		return
	}
	if rs.Reference == nil {
		o.Meta["replay_error"] = "unreadable replay_spec in " + file
		return
	}
	hr, hdir := pr.run(rs.History)
	rr, rdir := pr.run(rs.Reference)
	o.Count("pstate_replayed_histories")
	if hr == nil || rr == nil {
		o.Fail("c08-pstate-child-failed", map[string]any{"process": "replay"})
		return
	}
	la, lb := rs.History.Steps[len(hr)-1], rs.Reference.Steps[len(rr)-1]
	eq := func(a, bb *pStepRes) bool {
		if stepKind(la) == stepKind(lb) && strings.Join(la.In, ",") == strings.Join(lb.In, ",") {
			return a.same(bb)
		}
		return a.sameCircuit(bb)
	}
	// the same history may need more than one run (scheduling decides which P finds a pooled object, and how the
	// steps of a concurrent element interleave)
	reruns := 3
	if hasConcurrent(rs.History) {
		reruns = 8
	}
	for try := 0; try < reruns && differing(rs.History, hr, rr[len(rr)-1], eq) == nil; try++ {
		if h2, d2 := pr.run(rs.History); h2 != nil {
			hr, hdir = h2, d2
		}
		o.Count("pstate_replay_reruns")
	}
	a, bb := hr[len(hr)-1], rr[len(rr)-1]
	if x := differing(rs.History, hr, bb, eq); x != nil {
		a = x
	}
	equal := eq(a, bb)
	o.Meta["replay"] = map[string]any{"history": describeHistory(rs.History), "reference": describeHistory(rs.Reference),
		"after_the_history": a.String(), "reference_output": bb.String(), "equal": equal}
	if equal {
		o.Count("pstate_replay_not_reproduced")
		return
	}
	prog := rs.History.Progs[rs.History.Steps[len(rs.History.Steps)-1].Prog]
	d := map[string]any{
		"program": prog.Name, "family": prog.Family, "attributes": prog.Attr, "source": clipS(prog.Src, 3000),
		"history": describeHistory(rs.History), "reference": describeHistory(rs.Reference),
		"history_programs":  historySources(rs.History),
		"after_the_history": a.String(), "reference_output": bb.String(),
		"replay_spec": map[string]any{"history": rs.History, "reference": rs.Reference},
		"replayed":    true,
	}
	ta, tb := readSSA(rdir, len(rr)-1), readSSA(hdir, indexOfRes(hr, a))
	if ta != tb {
		d["ssa_diff"] = firstDiff(ta, tb)
	}
	o.Fail("c08-process-state-history", d)
}

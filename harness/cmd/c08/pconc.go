package main

// CONCURRENT history elements (part of mode `pstate`).
//
// "Across repeated compilations, fresh compiler instances and separate
// processes": a process that compiles several programs AT THE SAME TIME (a
// server, parallel tests, both parties of a test harness in one process) makes
// repeated compilations too.  Every compilation has its own Compiler and its
// own Params, so the only thing two overlapping compilations share is the
// PROCESS: package-level variables of the compile path.  A sequential history
// cannot observe state that every compilation writes before it reads it (a
// scratch buffer, a "current" slot): it is only visible while another
// compilation is between its write and its read.  So a history element may be
// CONCURRENT: k = 2..8 steps (pStep.Par) that start from a barrier, each in its
// own goroutine, and overlap in time.
//
//	same program        k goroutines compile the victim
//	different programs  k goroutines compile k siblings
//	mixed               the victim twice, siblings, programs rich in int64 constants of another group
//	                    (family const-rich: array indexing, slices, struct fields, len, strings), and - in the
//	                    process over all groups - the other step kinds (compile-file, compile-ssa, compute,
//	                    roundtrip) at the same time
//
// repeated for several rounds, one child process per sibling group plus one over
// all groups (GOMAXPROCS default and 2 / 4 / 8), every element followed - at the
// end of the history - by a sequential compilation of the victim.  Every step of
// every element joins the comparison of all compilations of its program (which
// starts from sequential histories and the program compiled alone in a fresh
// process): circuit bytes and SSA listing must be the same.  A difference is
// minimised like every other history (the element is kept whole, peers are
// dropped one by one); the schedule is the runtime's, so the trial and the
// replay look at every step of the last element that compiles the failing
// program and re-run a concurrent history up to 8 times.
//
// One concurrent history also runs in a child process built with the race
// detector (`go build -race` of this harness, option racebin=): a reported data
// race between two compilations is a schedule-independent witness that they
// share writable state; it is reported as c08-concurrent-compilations-data-race
// with the report and the history as the replay.
//
// Model ops (`chist`): Model/ProcConc.lean splits a step into atomic micro-steps
// over the shared process state and runs the steps of an element under a
// SCHEDULE; the op line carries a seeded schedule per element, the result line
// the real outputs of every step (folded constants, NumWires-NumGates, results).

import (
	"debug/elf"
	"fmt"
	"os"
	"path/filepath"
	"regexp"
	"sort"
	"strconv"
	"strings"
	"sync"
	"time"

	"verifharness/hxlib"
)

func hasConcurrent(sp *pSpec) bool {
	for _, st := range sp.Steps {
		if st.Par != 0 {
			return true
		}
	}
	return false
}

// differing: the step of the history whose output is compared with `want` and
// differs, or nil.  That is the last step; when the last step is inside a
// concurrent element, every step of the element with the same (program, kind,
// inputs) counts (which goroutine loses a race is the scheduler's choice).
func differing(sp *pSpec, rs []*pStepRes, want *pStepRes, cmp func(a, b *pStepRes) bool) *pStepRes {
	n := len(sp.Steps)
	if n == 0 || len(rs) != n {
		return nil
	}
	if !cmp(rs[n-1], want) {
		return rs[n-1]
	}
	last := sp.Steps[n-1]
	if last.Par == 0 {
		return nil
	}
	for i := n - 2; i >= 0 && sp.Steps[i].Par == last.Par; i-- {
		st := sp.Steps[i]
		if st.Prog == last.Prog && stepKind(st) == stepKind(last) && strings.Join(st.In, ",") == strings.Join(last.In, ",") &&
			!cmp(rs[i], want) {
			return rs[i]
		}
	}
	return nil
}

func indexOfRes(rs []*pStepRes, r *pStepRes) int {
	for i, x := range rs {
		if x == r {
			return i
		}
	}
	return len(rs) - 1
}

// ---------------------------------------------------------------- child side

// runConcurrent runs steps [from, to) of the history at the same time: one
// goroutine per step, all released from a barrier.
func runConcurrent(spec *pSpec, from, to int, out []*pStepRes, dir string, procStart time.Time) {
	var ready, done sync.WaitGroup
	start := make(chan struct{})
	for i := from; i < to; i++ {
		ready.Add(1)
		done.Add(1)
		go func(i int) {
			defer done.Done()
			ready.Done()
			<-start
			out[i] = runOneStep(spec, i, nil, dir, procStart)
		}(i)
	}
	ready.Wait()
	close(start)
	done.Wait()
}

// ---------------------------------------------------------------- generator: programs rich in int64 constants

// groupConstRich: family const-rich.  Every array index, slice bound, struct
// field offset, len, shift count, loop counter and string byte of an unrolled
// MPCL program is an int64 constant that the SSA generator creates, names and
// interns again and again; the siblings differ in ONE of offset / string /
// slice bounds / rounds / added constants, and the added constants of one
// sibling are index values of the others (a constant that got the wrong name
// meets a real constant of the program).
func (g *pGen) groupConstRich(variant int) {
	r := g.r
	letters := "abcdefghijklmnopqrstuvwxyzABCDEFGHIJKLMNOPQRSTUVWXYZ0123456789+/"
	rstr := func(n int) string {
		b := make([]byte, n)
		for i := range b {
			b[i] = letters[r.Intn(len(letters))]
		}
		return string(b)
	}
	type cr struct {
		n, off, rounds, lo, hi, sh, tag int
		s1, s2                          string
		c1, c2                          int
	}
	mk := func(what string, c cr) {
		src := fmt.Sprintf(`package main

type Rec struct {
	Tag uint8
	Key [%[1]d]byte
	Cnt uint16
	Sum uint32
}

func mix(s [%[1]d]byte, k [%[1]d]byte, n int) [%[1]d]byte {
	var r [%[1]d]byte
	for i := 0; i < %[1]d; i++ {
		r[i] = (s[(i+%[2]d)%%%[1]d] ^ k[i]) + %[3]q[(i+n)%%%[4]d]
	}
	return r
}

func main(a, b [%[1]d]byte) ([%[1]d]byte, uint32, uint16) {
	var rec Rec
	rec.Tag = a[%[5]d]
	rec.Cnt = uint16(b[%[6]d]) + %[7]d
	var s [%[1]d]byte = a
	for j := 0; j < %[8]d; j++ {
		s = mix(s, b, j)
	}
	rec.Key = s
	part := s[%[9]d:%[10]d]
	var sum uint32
	for i := 0; i < len(part); i++ {
		sum = (sum << %[11]d) + uint32(part[i]) + %[12]d
	}
	str := %[13]q
	for i := 0; i < len(str); i++ {
		sum = sum ^ (uint32(str[i]) << uint32(i %% 24))
		sum = sum + uint32(rec.Key[i%%%[1]d])
	}
	rec.Sum = sum
	return rec.Key, rec.Sum + uint32(rec.Tag), rec.Cnt
}
`, c.n, c.off, c.s1, len(c.s1), c.tag, (c.tag+c.off)%c.n, c.c1, c.rounds, c.lo, c.hi, c.sh, c.c2, c.s2)
		p := g.add("const-rich", fmt.Sprintf("%s: [%d]byte, offset %d, %d rounds, slice [%d:%d], shift %d, strings of %d and %d bytes, constants %d, %d",
			what, c.n, c.off, c.rounds, c.lo, c.hi, c.sh, len(c.s1), len(c.s2), c.c1, c.c2), src, nil, variant, nil)
		p.Args = []pArg{{8 * c.n, "bytes"}, {8 * c.n, "bytes"}}
	}
	n := pick(r, []int{8, 12, 16})
	base := cr{n: n, off: 1 + r.Intn(n-1), rounds: 2 + r.Intn(3), lo: 1 + r.Intn(3), sh: 3 + r.Intn(5), tag: r.Intn(n),
		s1: rstr(n), s2: rstr(20 + r.Intn(30)), c1: 100 + r.Intn(900), c2: 1000 + r.Intn(9000)}
	base.hi = base.lo + 3 + r.Intn(n-base.lo-3)
	mk("victim", base)
	c := base
	c.off = 1 + (base.off+r.Intn(n-2))%(n-1)
	if c.off == base.off {
		c.off = 1 + base.off%(n-1)
	}
	mk("other index offset", c)
	c = base
	c.s1, c.s2 = rstr(n), rstr(len(base.s2))
	mk("same lengths, other strings", c)
	c = base
	c.lo, c.hi = base.lo+1, base.hi
	mk("other slice bounds", c)
	c = base
	c.rounds = base.rounds + 1
	mk("one round more", c)
	c = base
	// the added constants are index values of the unrolled loops (0 .. n) and neighbours of the victim's
	c.c1, c.c2 = 1+r.Intn(n), base.c2+1
	mk("added constants that are index values of the siblings", c)
	c = base
	c.sh, c.tag = base.sh+1, (base.tag+1)%n
	mk("other shift count and field source", c)
	c = base
	c.n = map[int]int{8: 12, 12: 16, 16: 8}[n]
	c.off, c.tag, c.lo, c.hi, c.s1 = 1+r.Intn(c.n-1), r.Intn(c.n), 1, 5, rstr(c.n)
	mk("other array length (evictor)", c)
	g.group++
}

// ---------------------------------------------------------------- concurrent histories

type concSeq struct {
	actSeq
	par []int
	el  int
}

func (c *concSeq) element(r *hxlib.Rng, ids []int, kinds []string, progs []*pProg) {
	c.el++
	for i, id := range ids {
		k := kCompile
		if i < len(kinds) && kinds[i] != "" {
			k = kinds[i]
		}
		var in []string
		if k != kCompile && k != kCompileFile && k != kCompileSSA {
			in = genInputs(r, progs[id])
		}
		c.add(id, k, in)
		c.par = append(c.par, c.el)
	}
}

func (c *concSeq) sequential(id int) {
	c.add(id, kCompile, nil)
	c.par = append(c.par, 0)
}

func (c *concSeq) spec(name, kind string, all []*pProg) *pSpec {
	sp := c.actSeq.spec(name, kind, all)
	for i := range sp.Steps {
		sp.Steps[i].Par = c.par[i]
	}
	return sp
}

// the step kinds that run at the same time as compilations in the process over
// all groups (all of them compile; none needs a second party)
var concKinds = []string{kCompile, kCompile, kCompileFile, kCompileSSA, kCompute, kRoundtrip, kCompile, kCompile}

var concEnvs = [][]string{nil, {"GOMAXPROCS=4"}, {"GOMAXPROCS=2"}, {"GOMAXPROCS=8", "GOGC=50"}}

func cheapFamily(f string) bool { return !strings.HasPrefix(f, "wide-const-") }

// buildConcurrentSpecs: the concurrent histories of a run.  `full`: more rounds
// (thorough tier / widened search).  `race`: one more history for the child
// built with the race detector.
func buildConcurrentSpecs(seed uint64, progs []*pProg, full, race bool) []*pSpec {
	r := hxlib.NewRng(seed ^ 0x636f6e63)
	byGroup := map[int][]int{}
	var groups []int
	for _, p := range progs {
		if _, ok := byGroup[p.Group]; !ok {
			groups = append(groups, p.Group)
		}
		byGroup[p.Group] = append(byGroup[p.Group], p.ID)
	}
	// the programs rich in int64 constants (all of them, to mix into every group's elements)
	var rich []int
	for _, p := range progs {
		if p.Family == "const-rich" || p.Family == "const-aggregates" {
			rich = append(rich, p.ID)
		}
	}
	take := func(l []int, k int) []int {
		s := shuffled(r, l)
		var res []int
		for i := 0; i < k; i++ {
			res = append(res, s[i%len(s)])
		}
		return res
	}
	var specs []*pSpec
	kk := 0 // runs through 2..8
	nextK := func() int {
		k := 2 + kk%7
		kk++
		return k
	}
	for _, gi := range groups {
		l := byGroup[gi]
		fam := progs[l[0]].Family
		rounds := 1
		if cheapFamily(fam) {
			rounds = 3
		}
		if full {
			rounds++
		}
		seq := &concSeq{}
		for rd := 0; rd < rounds; rd++ {
			// same program
			k := nextK()
			var ids []int
			for i := 0; i < k; i++ {
				ids = append(ids, l[0])
			}
			seq.element(r, ids, nil, progs)
			// different programs
			seq.element(r, take(l, nextK()), nil, progs)
			// mixed: the victim twice, siblings, programs rich in int64 constants
			k = nextK()
			ids = []int{l[0], l[0]}
			for len(ids) < k {
				if len(rich) > 0 && len(ids)%2 == 0 {
					ids = append(ids, rich[r.Intn(len(rich))])
				} else {
					ids = append(ids, l[1+r.Intn(len(l)-1)])
				}
			}
			seq.element(r, shuffled(r, ids), nil, progs)
		}
		// what the process is left with: the victim and a sibling, one after the other
		seq.sequential(l[0])
		seq.sequential(l[1+r.Intn(len(l)-1)])
		specs = append(specs, seq.spec(fmt.Sprintf("%s/g%d/concurrent", fam, gi), "concurrent", progs))
	}
	// over all groups: 8 goroutines, the cheap programs of every group, other step kinds at the same time
	var cheap []int
	for _, gi := range groups {
		l := byGroup[gi]
		if cheapFamily(progs[l[0]].Family) && !(progs[l[0]].Family == "runtime-ops" && progs[l[0]].Variant == 2) {
			cheap = append(cheap, l...)
		}
	}
	if len(cheap) >= 4 {
		rounds := 4
		if full {
			rounds = 8
		}
		seq := &concSeq{}
		for rd := 0; rd < rounds; rd++ {
			seq.element(r, take(cheap, 8), shuffledS(r, concKinds), progs)
		}
		for _, id := range take(cheap, 3) {
			seq.sequential(id)
		}
		specs = append(specs, seq.spec("all-groups/concurrent", "cross-concurrent", progs))
	}
	for i, sp := range specs {
		sp.Env = concEnvs[i%len(concEnvs)]
	}
	if race && len(cheap) >= 4 {
		// under the race detector (5-15x slower): the victims of the cheap groups and the const-rich programs,
		// 4 goroutines, same program and different programs
		var vict []int
		for _, gi := range groups {
			l := byGroup[gi]
			if cheapFamily(progs[l[0]].Family) && !(progs[l[0]].Family == "runtime-ops" && progs[l[0]].Variant == 2) {
				vict = append(vict, l[0])
			}
		}
		for _, id := range rich {
			if progs[id].Family == "const-rich" {
				vict = append(vict, id)
				if len(vict) > 9 {
					break
				}
			}
		}
		seq := &concSeq{}
		for _, id := range vict[:min(len(vict), 3)] {
			seq.element(r, []int{id, id, id}, nil, progs)
		}
		seq.element(r, take(vict, 4), nil, progs)
		seq.element(r, take(vict, 4), []string{kCompile, kCompileFile, kCompileSSA, kCompute}, progs)
		if full {
			seq.element(r, take(cheap, 6), shuffledS(r, concKinds), progs)
		}
		sp := seq.spec("race-detector/concurrent", "race-concurrent", progs)
		sp.Race = true
		specs = append(specs, sp)
	}
	return specs
}

// countConcurrency: what the concurrent elements of one process covered, and
// whether their steps really overlapped in time.
func countConcurrency(o *hxlib.Out, sp *pSpec, rs []*pStepRes) {
	if !hasConcurrent(sp) {
		return
	}
	if len(sp.Env) == 0 {
		o.Count("pstate_concurrent_processes_gomaxprocs_default")
	} else {
		o.Count("pstate_concurrent_processes_gomaxprocs_set")
	}
	for i := 0; i < len(sp.Steps); {
		par := sp.Steps[i].Par
		j := i + 1
		if par == 0 {
			i = j
			continue
		}
		for j < len(sp.Steps) && sp.Steps[j].Par == par {
			j++
		}
		k := j - i
		o.Count("pstate_concurrent_elements")
		o.Count(fmt.Sprintf("pstate_concurrent_elements_k%d", k))
		distinct := map[int]bool{}
		other := false
		for x := i; x < j; x++ {
			distinct[sp.Steps[x].Prog] = true
			if stepKind(sp.Steps[x]) != kCompile {
				other = true
			}
		}
		switch {
		case other:
			o.Count("pstate_concurrent_elements_with_other_step_kinds")
		case len(distinct) == 1:
			o.Count("pstate_concurrent_elements_same_program")
		case len(distinct) == k:
			o.Count("pstate_concurrent_elements_different_programs")
		default:
			o.Count("pstate_concurrent_elements_mixed")
		}
		for x := i; x < j; x++ {
			o.Count("pstate_concurrent_steps")
			if sp.Progs[sp.Steps[x].Prog].Family == "const-rich" {
				o.Count("pstate_concurrent_steps_const_rich")
			}
			for y := i; y < j; y++ {
				if y != x && rs[x].T0 < rs[y].T1 && rs[y].T0 < rs[x].T1 {
					o.Count("pstate_concurrent_steps_overlapping_in_time")
					break
				}
			}
		}
		i = j
	}
}

func tailOfFile(f string, n int) string {
	b, err := os.ReadFile(f)
	if err != nil {
		return ""
	}
	if len(b) > n {
		b = b[len(b)-n:]
	}
	return string(b)
}

func headOfFile(f string, n int) string {
	b, err := os.ReadFile(f)
	if err != nil {
		return ""
	}
	if len(b) > n {
		b = b[:n]
	}
	return string(b)
}

// childFailed: a child process that did not return results (a crash of the
// runtime - "fatal error: concurrent map writes" - is a finding about the
// history it ran).
func childFailed(o *hxlib.Out, sp *pSpec, dir string) {
	d := map[string]any{"process": sp.Name, "stderr": clipS(headOfFile(filepath.Join(dir, "stderr.txt"), 3000), 3000),
		"concurrent": hasConcurrent(sp), "race_detector": sp.Race}
	if hasConcurrent(sp) {
		d["history"] = describeHistory(sp)
	}
	o.Fail("c08-pstate-child-failed", d)
}

// ---------------------------------------------------------------- race detector reports

var reRaceFrame = regexp.MustCompile(`^  (\S+)\(\)$`)
var reRaceGlobal = regexp.MustCompile(`Location is global '([^']+)'`)
var reRaceAddr = regexp.MustCompile(`(?:[Rr]ead|[Ww]rite) at (0x[0-9a-f]+) by `)

// dataSymbols: the data symbols (package-level variables) of the race-detector
// build, to name the variable an access address lies in.
type dataSym struct {
	name     string
	lo, size uint64
}

func dataSymbols(bin string) []dataSym {
	f, err := elf.Open(bin)
	if err != nil {
		return nil
	}
	defer f.Close()
	syms, err := f.Symbols()
	if err != nil {
		return nil
	}
	var res []dataSym
	for _, s := range syms {
		if elf.ST_TYPE(s.Info) == elf.STT_OBJECT && s.Size > 0 {
			res = append(res, dataSym{s.Name, s.Value, s.Size})
		}
	}
	return res
}

func symbolAt(syms []dataSym, addr uint64) string {
	for _, s := range syms {
		if addr >= s.lo && addr < s.lo+s.size {
			return s.name
		}
	}
	return ""
}

type raceReport struct {
	text   string
	tops   []string // top frame of each access stack
	inRepo bool     // an access stack has a frame of the repository's module
	global string
}

const repoModule = "github.com/markkurossi/mpc/"

func parseRaceReports(dir string, syms []dataSym) []*raceReport {
	files, _ := filepath.Glob(filepath.Join(dir, "race.*"))
	sort.Strings(files)
	var res []*raceReport
	for _, f := range files {
		b, err := os.ReadFile(f)
		if err != nil {
			continue
		}
		if len(b) > 4<<20 {
			b = b[:4<<20]
		}
		for _, blk := range strings.Split(string(b), "==================") {
			if !strings.Contains(blk, "WARNING: DATA RACE") {
				continue
			}
			rr := &raceReport{text: strings.TrimSpace(blk)}
			if m := reRaceGlobal.FindStringSubmatch(blk); m != nil {
				rr.global = m[1]
			} else if m := reRaceAddr.FindStringSubmatch(blk); m != nil {
				if a, err := strconv.ParseUint(m[1], 0, 64); err == nil {
					rr.global = symbolAt(syms, a)
				}
			}
			// paragraphs: the two accesses come first, then "Goroutine N (..) created at:"
			for _, para := range strings.Split(blk, "\n\n") {
				lines := strings.Split(strings.TrimLeft(para, "\n"), "\n")
				if len(lines) == 0 {
					continue
				}
				head := lines[0]
				if strings.HasPrefix(head, "WARNING: DATA RACE") && len(lines) > 1 {
					head = lines[1]
					lines = lines[1:]
				}
				if !(strings.Contains(head, " at 0x") && strings.Contains(head, " by ")) {
					continue
				}
				// the innermost frame of the repository's code (or the innermost frame)
				top, inner := "", ""
				for _, ln := range lines[1:] {
					if m := reRaceFrame.FindStringSubmatch(ln); m != nil {
						if inner == "" {
							inner = m[1]
						}
						if strings.HasPrefix(m[1], repoModule) {
							rr.inRepo = true
							if top == "" {
								top = m[1]
							}
						}
					}
				}
				if top == "" {
					top = inner
				}
				rr.tops = append(rr.tops, top)
			}
			res = append(res, rr)
		}
	}
	return res
}

// reportRaces: every data race between steps of the history whose accesses are
// in the repository's code is a failure (one per distinct pair of accessing
// functions, at most 3).
func reportRaces(o *hxlib.Out, racebin string, sp *pSpec, dir string, replayed bool) int {
	reps := parseRaceReports(dir, dataSymbols(racebin))
	o.CountN("pstate_race_reports", len(reps))
	seen := map[string]bool{}
	n := 0
	for _, rr := range reps {
		if !rr.inRepo {
			o.Count("pstate_race_reports_outside_the_repository_code")
			if len(o.Samples) < 5 {
				o.Sample(map[string]any{"race_report_outside_the_repository_code": clipS(rr.text, 1500)})
			}
			continue
		}
		tops := append([]string{}, rr.tops...)
		sort.Strings(tops)
		key := rr.global + "|" + strings.Join(tops, "|")
		if seen[key] {
			continue
		}
		seen[key] = true
		n++
		if n > 3 {
			continue
		}
		d := map[string]any{
			"what":                   "two steps of one concurrent history element (each with its own Compiler and Params) access the same memory, at least one writes",
			"accessed_by":            rr.tops,
			"package_level_variable": rr.global,
			"race_report":            clipS(rr.text, 6000),
			"history":                describeHistory(sp),
			"history_env":            sp.Env,
			"replay_spec":            map[string]any{"history": sp},
			"race_detector":          true,
			"replayed":               replayed,
			"rerun":                  "bin/check C08 --replay <this file>   (the history again in a child process built with go build -race)",
			"history_sources":        historySources(&pSpec{Progs: sp.Progs[:min(len(sp.Progs), 4)]}),
		}
		o.Fail("c08-concurrent-compilations-data-race", d)
	}
	return n
}

// replayRace: exactly the recorded history, again under the race detector.
func replayRace(pr *pRunner, o *hxlib.Out, sp *pSpec) {
	if pr.racebin == "" {
		o.Meta["replay_error"] = "the replay needs the race-detector build of the harness (option racebin=)"
		return
	}
	o.Count("pstate_replayed_histories")
	n := 0
	var rs []*pStepRes
	for try := 0; try < 3 && n == 0; try++ {
		var dir string
		rs, dir = pr.run(sp)
		if rs == nil {
			childFailed(o, sp, dir)
			return
		}
		n = reportRaces(o, pr.racebin, sp, dir, true)
	}
	o.Meta["replay"] = map[string]any{"history": describeHistory(sp), "race_detector": true, "distinct_race_reports": n, "equal": n == 0}
	if n == 0 {
		o.Count("pstate_replay_not_reproduced")
	}
}

// ---------------------------------------------------------------- model ops (chist)

// emitCHistOps: per concurrent history, cut down to the steps of modelled
// programs:
//
//	chist <element>;<element>;...     element = <schedule>@<step>&<step>&...   (step as in `ahist`)
//
// schedule = the indices of the element's steps in the order in which they make
// their next atomic micro-step (seeded; the model drains what is left at the
// end); a sequential step is an element of one.  Result: per element the
// outputs of its steps joined by `&`.
func emitCHistOps(o *hxlib.Out, seed uint64, specs []*pSpec, results [][]*pStepRes) {
	r := hxlib.NewRng(seed ^ 0x63686973)
	for si, sp := range specs {
		if !hasConcurrent(sp) || results[si] == nil || sp.Race {
			continue
		}
		type el struct {
			steps []pStep
			rs    []*pStepRes
		}
		var els []*el
		lastPar := -1
		for i, st := range sp.Steps {
			if len(sp.Progs[st.Prog].Rets) == 0 || results[si][i].Err != "" {
				continue
			}
			if st.Par == 0 || st.Par != lastPar || len(els) == 0 {
				els = append(els, &el{})
			}
			lastPar = st.Par
			e := els[len(els)-1]
			e.steps = append(e.steps, st)
			e.rs = append(e.rs, results[si][i])
		}
		if len(els) == 0 {
			continue
		}
		var ops, wants []string
		ok := true
		nconc := 0
		for _, e := range els {
			sub := &pSpec{Progs: sp.Progs, Steps: e.steps}
			op, want, good := ahistOp(sub, e.rs)
			if !good {
				ok = false
				break
			}
			// a schedule over the element's steps: every step has at most (returns + 2) micro-steps
			var sched []string
			if len(e.steps) > 1 {
				nconc++
				budget := 0
				for _, st := range e.steps {
					budget += len(sp.Progs[st.Prog].Rets) + 2
				}
				for i := 0; i < budget; i++ {
					sched = append(sched, fmt.Sprint(r.Intn(len(e.steps))))
				}
			}
			s := "-"
			if len(sched) > 0 {
				s = strings.Join(sched, ",")
			}
			ops = append(ops, s+"@"+strings.ReplaceAll(strings.TrimPrefix(op, "ahist "), ";", "&"))
			wants = append(wants, strings.ReplaceAll(want, ";", "&"))
		}
		if !ok || nconc == 0 {
			o.Count("op_chist_skipped")
			continue
		}
		o.Op("chist "+strings.Join(ops, ";"), strings.Join(wants, ";"))
		o.Count("op_chist")
		o.CountN("op_chist_concurrent_elements", nconc)
	}
}

package main

// Harness of property C08 (compilation is deterministic).
//
//	c08 facts  -extra <repo> -meta F        structural facts (facts.go)
//	c08 oracle -seed S -n <children> -tier T -ops F -out F -meta F [-only i]
//	c08 child  <jobs.json> <out.json> <dir>  (re-exec'd by oracle)
//	c08 pstate -seed S -n <parallel> -tier T -ops F -out F -meta F [-extra "focus=fam,..;scale=k;heavy=1;acts=full|off;conc=full|off;racebin=file;replay=file"]
//	                                         process-state histories over sibling groups (pstate.go), over all step
//	                                         kinds: streaming sessions, CompileFile, CompileSSA, Compute, Garble/Eval,
//	                                         Marshal/Parse between compilations (pacts.go)
//	                                         and with CONCURRENT history elements: k = 2..8 steps at the same time,
//	                                         one history under the race detector (pconc.go)
//	c08 pchild <spec.json> <out.json> <dir>  (one history in its own process, re-exec'd by pstate)
//	c08 sweep  -seed S -n <parallel> -tier T -ops F -out F -meta F [-extra "facts=file;focus=mul,div,..|all;procs=P;replay=file"]
//	                                         WIDTH SWEEP (sweep.go): one operator per program at every operand width
//	                                         of the tier's set (a third of 1..130 per seed / all, powers of two,
//	                                         boundary widths of the integer-keyed tables of the compile path), each
//	                                         compiled repeatedly in 8 child processes; model ops `mthr`
//	c08 swchild <spec.json> <out.json>       (re-exec'd by sweep)

import (
	"fmt"
	"os"

	"verifharness/hxlib"
)

func main() {
	if len(os.Args) < 2 {
		fmt.Fprintln(os.Stderr, "usage: c08 <facts|oracle|child|pstate|pchild|sweep|swchild> ...")
		os.Exit(2)
	}
	mode := os.Args[1]
	switch mode {
	case "facts":
		cf, o := hxlib.ParseCommon("c08", os.Args[2:], nil)
		repo := cf.Extra
		if repo == "" {
			repo = "/repo"
		}
		facts, err := runFacts(repo)
		if err != nil {
			o.Meta["facts_error"] = err.Error()
		} else {
			o.Meta["facts"] = facts
		}
		o.Close()
	case "oracle":
		cf, o := hxlib.ParseCommon("c08", os.Args[2:], nil)
		runOracle(cf, o)
		o.Close()
	case "child":
		runChild(os.Args[2:])
	case "pstate":
		cf, o := hxlib.ParseCommon("c08", os.Args[2:], nil)
		runPState(cf, o)
		o.Close()
	case "pchild":
		runPChild(os.Args[2:])
	case "sweep":
		cf, o := hxlib.ParseCommon("c08", os.Args[2:], nil)
		runSweep(cf, o)
		o.Close()
	case "swchild":
		runSwChild(os.Args[2:])
	default:
		fmt.Fprintln(os.Stderr, "unknown mode", mode)
		os.Exit(2)
	}
}

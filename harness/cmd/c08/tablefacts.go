package main

// Facts that steer the WIDTH SWEEP (sweep.go); none of them is compared with
// an expectation, they only say where to look.
//
//	int_tables     every package-level table of the compile path with integer
//	               keys: `map[<integer>]T` composite literals (keys, and values
//	               when they are integer constants) and `[]<integer>` /
//	               `[N]<integer>` literals (elements).  A builder that picks its
//	               construction from such a table changes behaviour at the
//	               edges of the runs of keys and - for any "closest entry"
//	               logic - at the midpoints between them: these widths join
//	               the sweep in every tier.
//	reached_from   per map-range site: the exported functions / methods of the
//	               compile path from which the function holding the site can
//	               be reached (static references, `if false` ignored, interface
//	               methods by name).  A new or changed site focuses the sweep on
//	               the operators whose builders are in that list.

import (
	"go/ast"
	"go/constant"
	"go/token"
	"go/types"
	"sort"
)

// isIntegerType: a plain integer type (int, int32, uint64 ...) or the size type of the compiler (types.Size: widths
// in bits).  Other named integer types are enumerations (token types, operands, targets): their tables are keyed by
// a kind, not by a magnitude.
func isIntegerType(t types.Type) bool {
	b, ok := t.Underlying().(*types.Basic)
	if !ok || b.Info()&types.IsInteger == 0 {
		return false
	}
	if nt, ok := t.(*types.Named); ok {
		return nt.Obj().Name() == "Size"
	}
	return true
}

func constInt(info *types.Info, e ast.Expr) (int64, bool) {
	tv, ok := info.Types[e]
	if !ok || tv.Value == nil || tv.Value.Kind() != constant.Int {
		return 0, false
	}
	return constant.Int64Val(tv.Value)
}

// intTables lists the integer-keyed package-level tables of the fact packages.
func (ri *repoImporter) intTables() []map[string]any {
	var res []map[string]any
	for _, rel := range factPkgs {
		path := modPath + "/" + rel
		info := ri.infos[path]
		for _, f := range ri.files[path] {
			for _, d := range f.Decls {
				gd, ok := d.(*ast.GenDecl)
				if !ok || gd.Tok != token.VAR {
					continue
				}
				for _, sp := range gd.Specs {
					vs := sp.(*ast.ValueSpec)
					for i, n := range vs.Names {
						if i >= len(vs.Values) {
							continue
						}
						cl, ok := vs.Values[i].(*ast.CompositeLit)
						if !ok {
							continue
						}
						tv, ok := info.Types[cl]
						if !ok || tv.Type == nil {
							continue
						}
						var keys []int64
						var entries [][2]int64
						kind := ""
						switch t := tv.Type.Underlying().(type) {
						case *types.Map:
							if !isIntegerType(t.Key()) {
								continue
							}
							kind = "map"
							for _, el := range cl.Elts {
								kv, ok := el.(*ast.KeyValueExpr)
								if !ok {
									continue
								}
								if k, ok := constInt(info, kv.Key); ok {
									keys = append(keys, k)
									if v, ok := constInt(info, kv.Value); ok {
										entries = append(entries, [2]int64{k, v})
									}
								}
							}
						case *types.Slice:
							if !isIntegerType(t.Elem()) {
								continue
							}
							kind = "slice"
							for _, el := range cl.Elts {
								if k, ok := constInt(info, el); ok {
									keys = append(keys, k)
								}
							}
						case *types.Array:
							if !isIntegerType(t.Elem()) {
								continue
							}
							kind = "slice"
							for _, el := range cl.Elts {
								if k, ok := constInt(info, el); ok {
									keys = append(keys, k)
								}
							}
						default:
							continue
						}
						if len(keys) == 0 {
							continue
						}
						sort.Slice(keys, func(a, b int) bool { return keys[a] < keys[b] })
						sort.Slice(entries, func(a, b int) bool { return entries[a][0] < entries[b][0] })
						res = append(res, map[string]any{"pkg": rel, "name": n.Name, "type": typeShape(tv.Type), "kind": kind,
							"keys": keys, "entries": entries})
					}
				}
			}
		}
	}
	sort.SliceStable(res, func(i, j int) bool {
		a, b := res[i], res[j]
		if a["pkg"].(string) != b["pkg"].(string) {
			return a["pkg"].(string) < b["pkg"].(string)
		}
		return a["name"].(string) < b["name"].(string)
	})
	return res
}

// qualName: package (or declared receiver type) + the function's real name
func qualName(f *types.Func) string {
	sig, _ := f.Type().(*types.Signature)
	if sig != nil && sig.Recv() != nil {
		t := sig.Recv().Type()
		if p, ok := t.(*types.Pointer); ok {
			t = p.Elem()
		}
		if nt, ok := t.(*types.Named); ok {
			return nt.Obj().Pkg().Name() + "." + nt.Obj().Name() + "." + f.Name()
		}
	}
	if f.Pkg() != nil {
		return f.Pkg().Name() + "." + f.Name()
	}
	return f.Name()
}

// callerIndex: callee -> the functions whose bodies reference it.
func (ri *repoImporter) callerIndex(funcs map[*types.Func]*fnInfo) map[*types.Func][]*types.Func {
	byName := map[string][]*types.Func{}
	for o := range funcs {
		byName[o.Name()] = append(byName[o.Name()], o)
	}
	idx := map[*types.Func][]*types.Func{}
	for caller, fi := range funcs {
		seen := map[*types.Func]bool{}
		usesOutsideIfFalse(fi.decl.Body, fi.info, func(o *types.Func) {
			if o == nil {
				return
			}
			o = o.Origin()
			var targets []*types.Func
			if _, ok := funcs[o]; ok {
				targets = []*types.Func{o}
			} else if sig, ok := o.Type().(*types.Signature); ok && sig.Recv() != nil {
				if _, isIface := sig.Recv().Type().Underlying().(*types.Interface); isIface {
					targets = byName[o.Name()]
				}
			}
			for _, t := range targets {
				if !seen[t] {
					seen[t] = true
					idx[t] = append(idx[t], caller)
				}
			}
		})
	}
	return idx
}

// reachedFrom: the exported functions from which `target` is reachable.
func reachedFrom(idx map[*types.Func][]*types.Func, target *types.Func) []string {
	seen := map[*types.Func]bool{target: true}
	work := []*types.Func{target}
	set := map[string]bool{}
	for len(work) > 0 {
		o := work[len(work)-1]
		work = work[:len(work)-1]
		if o.Exported() {
			set[qualName(o)] = true
		}
		for _, c := range idx[o] {
			if !seen[c] {
				seen[c] = true
				work = append(work, c)
			}
		}
	}
	var l []string
	for n := range set {
		l = append(l, n)
	}
	sort.Strings(l)
	if len(l) > 60 {
		l = l[:60]
	}
	return l
}

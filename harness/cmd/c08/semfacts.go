package main

// Semantic abstractions of the structural facts of C08 (robust against
// behaviour-preserving rewrites: renames of unexported identifiers and
// receivers, moving declarations, append <-> indexed fill, ...).
//
//   sites            every `range` over a map: which map (package, field /
//                    package variable / local, type shape), what the loop does
//                    with the entries (kind: collect-then-sort, max,
//                    find-key-by-value, copy-by-key, calls) and whether the site
//                    is reachable from the compile entry points (static call
//                    graph, calls under `if false` ignored, interface methods
//                    resolved by name)
//   pkg_var_shapes   package-level variables by type shape (names of exported
//                    ones kept)
//   struct_shapes    fields of Compiler / Package / Func / Generator: exported
//                    fields by name, unexported ones by type shape
//   sorted_import_users  functions that iterate the result of the function
//                    holding the `.Imports` collect-then-sort site
//   codegen_entries_sem  Compiler methods creating a Codegen: the package
//                    table is replaced by a fresh map before anything else of
//                    the Compiler is used

import (
	"fmt"
	"go/ast"
	"go/token"
	"go/types"
	"path/filepath"
	"regexp"
	"sort"
	"strings"
)

var reUnexportedQual = regexp.MustCompile(`\b([a-z][A-Za-z0-9_]*)\.([a-z_][A-Za-z0-9_]*)\b`)

// typeShape renders a type with unexported named types blanked.
func typeShape(t types.Type) string {
	s := types.TypeString(t, shortQual)
	return reUnexportedQual.ReplaceAllString(s, "$1.·")
}

func exportedOrDot(name string) string {
	if ast.IsExported(name) {
		return name
	}
	return "·"
}

type fnInfo struct {
	obj  *types.Func
	decl *ast.FuncDecl
	info *types.Info
	rel  string
	file string
}

func (ri *repoImporter) collectFuncs(repo string) map[*types.Func]*fnInfo {
	res := map[*types.Func]*fnInfo{}
	for _, rel := range factPkgs {
		path := modPath + "/" + rel
		info := ri.infos[path]
		for _, f := range ri.files[path] {
			fname, _ := filepath.Rel(repo, ri.fset.Position(f.Pos()).Filename)
			for _, d := range f.Decls {
				if fd, ok := d.(*ast.FuncDecl); ok && fd.Body != nil {
					if obj, ok := info.Defs[fd.Name].(*types.Func); ok {
						res[obj] = &fnInfo{obj: obj, decl: fd, info: info, rel: rel, file: fname}
					}
				}
			}
		}
	}
	return res
}

// displayName: declared receiver type + exported method name (unexported -> ·).
func displayName(f *types.Func) string {
	sig, _ := f.Type().(*types.Signature)
	n := exportedOrDot(f.Name())
	if f.Name() == "init" {
		n = "init"
	}
	if sig != nil && sig.Recv() != nil {
		t := sig.Recv().Type()
		if p, ok := t.(*types.Pointer); ok {
			t = p.Elem()
		}
		if nt, ok := t.(*types.Named); ok {
			return nt.Obj().Name() + "." + n
		}
	}
	if f.Pkg() != nil {
		return f.Pkg().Name() + "." + n
	}
	return n
}

func isIfFalse(n ast.Node) bool {
	if is, ok := n.(*ast.IfStmt); ok {
		if id, ok := is.Cond.(*ast.Ident); ok && id.Name == "false" {
			return true
		}
	}
	return false
}

// usesOutsideIfFalse lists the *types.Func objects referenced in a node,
// skipping the bodies of `if false`.
func usesOutsideIfFalse(n ast.Node, info *types.Info, f func(*types.Func)) {
	ast.Inspect(n, func(x ast.Node) bool {
		if x == nil {
			return true
		}
		if isIfFalse(x) {
			return false
		}
		if id, ok := x.(*ast.Ident); ok {
			if fo, ok := info.Uses[id].(*types.Func); ok {
				f(fo)
			}
		}
		return true
	})
}

// reachableFuncs: static call graph from the exported methods of
// compiler.Compiler, every init function and everything referenced from
// package-level variable initialisers.
func (ri *repoImporter) reachableFuncs(funcs map[*types.Func]*fnInfo) map[*types.Func]bool {
	byName := map[string][]*types.Func{}
	for o := range funcs {
		byName[o.Name()] = append(byName[o.Name()], o)
	}
	reach := map[*types.Func]bool{}
	var work []*types.Func
	add := func(o *types.Func) {
		if o == nil {
			return
		}
		o = o.Origin()
		if _, ok := funcs[o]; ok {
			if !reach[o] {
				reach[o] = true
				work = append(work, o)
			}
			return
		}
		// interface method: every concrete method of that name
		if sig, ok := o.Type().(*types.Signature); ok && sig.Recv() != nil {
			if _, isIface := sig.Recv().Type().Underlying().(*types.Interface); isIface {
				for _, c := range byName[o.Name()] {
					if !reach[c] {
						reach[c] = true
						work = append(work, c)
					}
				}
			}
		}
	}
	for o, fi := range funcs {
		if o.Name() == "init" {
			add(o)
		}
		if fi.rel == "compiler" && o.Exported() {
			if sig, ok := o.Type().(*types.Signature); ok && sig.Recv() != nil &&
				strings.HasSuffix(types.TypeString(sig.Recv().Type(), shortQual), "compiler.Compiler") {
				add(o)
			}
		}
	}
	for _, rel := range factPkgs {
		path := modPath + "/" + rel
		info := ri.infos[path]
		for _, f := range ri.files[path] {
			for _, d := range f.Decls {
				if gd, ok := d.(*ast.GenDecl); ok && gd.Tok == token.VAR {
					usesOutsideIfFalse(gd, info, add)
				}
			}
		}
	}
	for len(work) > 0 {
		o := work[len(work)-1]
		work = work[:len(work)-1]
		fi := funcs[o]
		usesOutsideIfFalse(fi.decl.Body, fi.info, add)
	}
	return reach
}

func replaceIdent(s, name, with string) string {
	if name == "" || name == "_" {
		return s
	}
	return regexp.MustCompile(`\b`+regexp.QuoteMeta(name)+`\b`).ReplaceAllLiteralString(s, with)
}

// classifyRange abstracts what a loop over a map does with its entries.
func (ri *repoImporter) classifyRange(fi *fnInfo, rs *ast.RangeStmt) (kind, detail string) {
	fset := ri.fset
	kname, vname := "", ""
	if id, ok := rs.Key.(*ast.Ident); ok {
		kname = id.Name
	}
	if id, ok := rs.Value.(*ast.Ident); ok {
		vname = id.Name
	}
	norm := func(n ast.Node) string {
		s := render(fset, n)
		s = replaceIdent(s, kname, "$k")
		s = replaceIdent(s, vname, "$v")
		return s
	}
	body := rs.Body.List
	// --- collect-then-sort
	{
		slice := ""
		var collected []string
		extra := ""
		ok := len(body) > 0
		for _, st := range body {
			switch s := st.(type) {
			case *ast.AssignStmt:
				if len(s.Lhs) != 1 || len(s.Rhs) != 1 {
					ok = false
					break
				}
				// s = append(s, E)
				if lid, isId := s.Lhs[0].(*ast.Ident); isId {
					if call, isCall := s.Rhs[0].(*ast.CallExpr); isCall && len(call.Args) == 2 {
						if fid, isF := call.Fun.(*ast.Ident); isF && fid.Name == "append" {
							if a0, isA := call.Args[0].(*ast.Ident); isA && a0.Name == lid.Name && (slice == "" || slice == lid.Name) {
								slice = lid.Name
								collected = append(collected, norm(call.Args[1]))
								continue
							}
						}
					}
				}
				// s[i] = E
				if ix, isIx := s.Lhs[0].(*ast.IndexExpr); isIx {
					if sid, isS := ix.X.(*ast.Ident); isS {
						if _, isI := ix.Index.(*ast.Ident); isI && (slice == "" || slice == sid.Name) {
							if _, isSlice := fi.info.Types[ix.X].Type.Underlying().(*types.Slice); isSlice {
								slice = sid.Name
								collected = append(collected, norm(s.Rhs[0]))
								continue
							}
						}
					}
				}
				ok = false
			case *ast.IncDecStmt:
				if _, isId := s.X.(*ast.Ident); !isId || s.Tok != token.INC {
					ok = false
				}
			case *ast.IfStmt:
				if m := maxPattern(fset, s, norm); m != "" {
					extra = "; max " + m
				} else {
					ok = false
				}
			default:
				ok = false
			}
		}
		if ok && slice != "" {
			// next statement after the loop that mentions the slice
			srt := "NOT-SORTED"
			after := false
			ast.Inspect(fi.decl.Body, func(n ast.Node) bool {
				var list []ast.Stmt
				switch b := n.(type) {
				case *ast.BlockStmt:
					list = b.List
				case *ast.CaseClause:
					list = b.Body
				}
				for i, s := range list {
					if s == ast.Stmt(rs) {
						after = true
						for _, nx := range list[i+1:] {
							if mentions(nx, slice) {
								srt = sortDescr(fset, nx, slice)
								break
							}
						}
					}
				}
				return !after
			})
			return "collect-then-sort", "collect " + strings.Join(collected, ",") + extra + "; " + srt
		}
	}
	if len(body) == 1 {
		switch s := body[0].(type) {
		case *ast.IfStmt:
			if m := maxPattern(fset, s, norm); m != "" {
				return "max", m
			}
			if be, ok := s.Cond.(*ast.BinaryExpr); ok && be.Op == token.EQL && s.Else == nil && vname != "" {
				l, r := render(fset, be.X), render(fset, be.Y)
				if l == vname || r == vname {
					gives := false
					ast.Inspect(s.Body, func(n ast.Node) bool {
						switch x := n.(type) {
						case *ast.ReturnStmt:
							for _, e := range x.Results {
								if render(fset, e) == kname {
									gives = true
								}
							}
						case *ast.AssignStmt:
							for _, e := range x.Rhs {
								if render(fset, e) == kname {
									gives = true
								}
							}
						}
						return true
					})
					if gives {
						return "find-key-by-value", "first entry whose value equals the sought one yields its key"
					}
				}
			}
		case *ast.AssignStmt:
			if len(s.Lhs) == 1 && len(s.Rhs) == 1 {
				if ix, ok := s.Lhs[0].(*ast.IndexExpr); ok && render(fset, ix.Index) == kname && render(fset, s.Rhs[0]) == vname {
					if _, isMap := fi.info.Types[ix.X].Type.Underlying().(*types.Map); isMap {
						return "copy-by-key", "dst[$k] = $v"
					}
				}
			}
		}
	}
	// --- anything else: the calls made in the body
	set := map[string]bool{}
	ast.Inspect(rs.Body, func(n ast.Node) bool {
		if id, ok := n.(*ast.Ident); ok {
			if fo, ok := fi.info.Uses[id].(*types.Func); ok {
				set[displayName(fo)] = true
			}
		}
		return true
	})
	var calls []string
	for c := range set {
		calls = append(calls, c)
	}
	sort.Strings(calls)
	return "calls", strings.Join(calls, ",")
}

func maxPattern(fset *token.FileSet, s *ast.IfStmt, norm func(ast.Node) string) string {
	be, ok := s.Cond.(*ast.BinaryExpr)
	if !ok || be.Op != token.GTR || s.Else != nil || s.Init != nil || len(s.Body.List) != 1 {
		return ""
	}
	as, ok := s.Body.List[0].(*ast.AssignStmt)
	if !ok || len(as.Lhs) != 1 || len(as.Rhs) != 1 {
		return ""
	}
	if render(fset, as.Lhs[0]) == render(fset, be.Y) && render(fset, as.Rhs[0]) == render(fset, be.X) {
		return norm(be.X)
	}
	return ""
}

func mentions(n ast.Node, name string) bool {
	found := false
	ast.Inspect(n, func(x ast.Node) bool {
		if id, ok := x.(*ast.Ident); ok && id.Name == name {
			found = true
		}
		return !found
	})
	return found
}

// sortDescr describes the statement if it sorts the slice: "sort.Strings" or
// "sort.Slice less: <normalised return expression>".
func sortDescr(fset *token.FileSet, st ast.Stmt, slice string) string {
	es, ok := st.(*ast.ExprStmt)
	if !ok {
		return "NOT-SORTED(next use: " + clipS(render(fset, st), 80) + ")"
	}
	call, ok := es.X.(*ast.CallExpr)
	if !ok || len(call.Args) == 0 || render(fset, call.Args[0]) != slice {
		return "NOT-SORTED(next use: " + clipS(render(fset, st), 80) + ")"
	}
	fun := render(fset, call.Fun)
	if !strings.HasPrefix(fun, "sort.") && !strings.HasPrefix(fun, "slices.Sort") {
		return "NOT-SORTED(next use: " + clipS(fun, 80) + ")"
	}
	if len(call.Args) == 2 {
		if fl, ok := call.Args[1].(*ast.FuncLit); ok && len(fl.Body.List) == 1 {
			if rt, ok := fl.Body.List[0].(*ast.ReturnStmt); ok && len(rt.Results) == 1 {
				s := render(fset, rt.Results[0])
				s = replaceIdent(s, slice, "$s")
				var params []string
				for _, f := range fl.Type.Params.List {
					for _, n := range f.Names {
						params = append(params, n.Name)
					}
				}
				for i, p := range params {
					s = replaceIdent(s, p, fmt.Sprintf("$%d", i))
				}
				return fun + " less: " + s
			}
		}
		return fun + " less: ?"
	}
	return fun
}

func (ri *repoImporter) semanticFacts(repo string) map[string]any {
	funcs := ri.collectFuncs(repo)
	reach := ri.reachableFuncs(funcs)
	callers := ri.callerIndex(funcs)
	var sites []map[string]any
	var importsSiteFunc *types.Func
	for o, fi := range funcs {
		var stack []ast.Node
		ast.Inspect(fi.decl.Body, func(n ast.Node) bool {
			if n == nil {
				stack = stack[:len(stack)-1]
				return true
			}
			stack = append(stack, n)
			rs, ok := n.(*ast.RangeStmt)
			if !ok {
				return true
			}
			tv, ok := fi.info.Types[rs.X]
			if !ok || tv.Type == nil || tv.Type == types.Typ[types.Invalid] {
				sites = append(sites, map[string]any{"pkg": fi.rel, "what": "UNTYPED " + render(ri.fset, rs.X), "type": "?",
					"kind": "?", "detail": "", "reachable": reach[o], "func": displayName(o), "file": fi.file})
				return true
			}
			if _, isMap := tv.Type.Underlying().(*types.Map); !isMap {
				return true
			}
			what := "local"
			switch x := rs.X.(type) {
			case *ast.SelectorExpr:
				what = "." + exportedOrDot(x.Sel.Name)
			case *ast.Ident:
				if obj := fi.info.Uses[x]; obj != nil && obj.Parent() == obj.Pkg().Scope() {
					what = "pkgvar:" + exportedOrDot(x.Name)
				}
			default:
				what = "expr"
			}
			dead := false
			for _, a := range stack {
				if isIfFalse(a) {
					dead = true
				}
			}
			kind, detail := ri.classifyRange(fi, rs)
			if id, ok := rs.X.(*ast.Ident); ok {
				detail = replaceIdent(detail, id.Name, "$m")
			}
			sites = append(sites, map[string]any{"pkg": fi.rel, "what": what, "type": typeShape(tv.Type), "kind": kind,
				"detail": detail, "reachable": reach[o] && !dead, "func": displayName(o), "file": fi.file,
				"line": ri.fset.Position(rs.Pos()).Line, "func_name": qualName(o), "reached_from": reachedFrom(callers, o)})
			if what == ".Imports" && kind == "collect-then-sort" {
				importsSiteFunc = o
			}
			return true
		})
	}
	sort.SliceStable(sites, func(i, j int) bool {
		a, b := sites[i], sites[j]
		ka := fmt.Sprint(a["pkg"], a["what"], a["type"], a["kind"], a["detail"])
		kb := fmt.Sprint(b["pkg"], b["what"], b["type"], b["kind"], b["detail"])
		return ka < kb
	})
	// users of the sorted alias list
	var users []string
	if importsSiteFunc != nil {
		for o, fi := range funcs {
			ast.Inspect(fi.decl.Body, func(n ast.Node) bool {
				if rs, ok := n.(*ast.RangeStmt); ok {
					if call, ok := rs.X.(*ast.CallExpr); ok {
						var id *ast.Ident
						switch f := call.Fun.(type) {
						case *ast.SelectorExpr:
							id = f.Sel
						case *ast.Ident:
							id = f
						}
						if id != nil {
							if fo, ok := fi.info.Uses[id].(*types.Func); ok && fo.Origin() == importsSiteFunc {
								users = append(users, displayName(o))
							}
						}
					}
				}
				return true
			})
		}
	}
	sort.Strings(users)
	// package-level variables and struct fields by shape
	var varShapes [][]string
	structShapes := map[string]map[string][]string{}
	wantStructs := map[string]bool{"compiler.Compiler": true, "ast.Package": true, "ast.Func": true, "ssa.Generator": true}
	for _, rel := range factPkgs {
		path := modPath + "/" + rel
		info := ri.infos[path]
		for _, f := range ri.files[path] {
			for _, d := range f.Decls {
				gd, ok := d.(*ast.GenDecl)
				if !ok {
					continue
				}
				for _, sp := range gd.Specs {
					switch s := sp.(type) {
					case *ast.ValueSpec:
						if gd.Tok != token.VAR {
							continue
						}
						for _, n := range s.Names {
							if n.Name == "_" {
								continue
							}
							if obj := info.Defs[n]; obj != nil && obj.Type() != nil {
								varShapes = append(varShapes, []string{rel, exportedOrDot(n.Name), typeShape(obj.Type())})
							}
						}
					case *ast.TypeSpec:
						key := filepath.Base(rel) + "." + s.Name.Name
						st, ok := s.Type.(*ast.StructType)
						if !ok || !wantStructs[key] {
							continue
						}
						m := map[string][]string{"exported": {}, "unexported_types": {}}
						for _, fl := range st.Fields.List {
							for _, n := range fl.Names {
								ts := "?"
								if obj := info.Defs[n]; obj != nil && obj.Type() != nil {
									ts = typeShape(obj.Type())
								}
								if ast.IsExported(n.Name) {
									m["exported"] = append(m["exported"], n.Name+" "+ts)
								} else {
									m["unexported_types"] = append(m["unexported_types"], ts)
								}
							}
						}
						sort.Strings(m["exported"])
						sort.Strings(m["unexported_types"])
						structShapes[key] = m
					}
				}
			}
		}
	}
	sort.Slice(varShapes, func(i, j int) bool { return strings.Join(varShapes[i], "\x00") < strings.Join(varShapes[j], "\x00") })
	return map[string]any{
		"sites": sites, "sorted_import_users": users, "pkg_var_shapes": varShapes, "struct_shapes": structShapes,
		"codegen_entries_sem": ri.codegenEntries(funcs),
		// steering facts of the width sweep (tablefacts.go; not compared with an expectation)
		"int_tables": ri.intTables(),
	}
}

// codegenEntries: every method of compiler.Compiler that calls
// ast.NewCodegen must, as a top-level statement and before it uses any other
// method or the package-table field of the Compiler, replace the package table
// by a fresh map (directly, or through a method whose body is exactly that
// assignment).
func (ri *repoImporter) codegenEntries(funcs map[*types.Func]*fnInfo) []map[string]any {
	var res []map[string]any
	isCompilerMethod := func(o *types.Func) bool {
		sig, ok := o.Type().(*types.Signature)
		return ok && sig.Recv() != nil && strings.HasSuffix(types.TypeString(sig.Recv().Type(), shortQual), "compiler.Compiler")
	}
	// the package-table field: a field of Compiler of map type whose element mentions ast.Package
	isTableField := func(info *types.Info, e ast.Expr) bool {
		se, ok := e.(*ast.SelectorExpr)
		if !ok {
			return false
		}
		sel := info.Selections[se]
		if sel == nil || sel.Kind() != types.FieldVal {
			return false
		}
		m, ok := sel.Type().Underlying().(*types.Map)
		return ok && strings.Contains(types.TypeString(m.Elem(), shortQual), "ast.Package")
	}
	isFreshMapAssign := func(info *types.Info, st ast.Stmt) bool {
		as, ok := st.(*ast.AssignStmt)
		if !ok || len(as.Lhs) != 1 || len(as.Rhs) != 1 || as.Tok != token.ASSIGN || !isTableField(info, as.Lhs[0]) {
			return false
		}
		switch r := as.Rhs[0].(type) {
		case *ast.CallExpr:
			if id, ok := r.Fun.(*ast.Ident); ok && id.Name == "make" {
				return true
			}
		case *ast.CompositeLit:
			return len(r.Elts) == 0
		}
		return false
	}
	resetMethods := map[*types.Func]bool{}
	for o, fi := range funcs {
		if fi.rel == "compiler" && isCompilerMethod(o) && len(fi.decl.Body.List) == 1 && isFreshMapAssign(fi.info, fi.decl.Body.List[0]) {
			resetMethods[o] = true
		}
	}
	for o, fi := range funcs {
		if fi.rel != "compiler" || !isCompilerMethod(o) {
			continue
		}
		hasCodegen := false
		ast.Inspect(fi.decl.Body, func(n ast.Node) bool {
			if id, ok := n.(*ast.Ident); ok && id.Name == "NewCodegen" {
				if fo, ok := fi.info.Uses[id].(*types.Func); ok && fo.Pkg() != nil && fo.Pkg().Name() == "ast" {
					hasCodegen = true
				}
			}
			return true
		})
		if !hasCodegen {
			continue
		}
		resetAt, useAt := -1, -1
		for i, st := range fi.decl.Body.List {
			isReset := isFreshMapAssign(fi.info, st)
			if es, ok := st.(*ast.ExprStmt); ok {
				if call, ok := es.X.(*ast.CallExpr); ok {
					if se, ok := call.Fun.(*ast.SelectorExpr); ok {
						if fo, ok := fi.info.Uses[se.Sel].(*types.Func); ok && resetMethods[fo.Origin()] {
							isReset = true
						}
					}
				}
			}
			if isReset {
				if resetAt < 0 {
					resetAt = i
				}
				continue
			}
			if useAt < 0 {
				uses := false
				ast.Inspect(st, func(n ast.Node) bool {
					switch x := n.(type) {
					case *ast.Ident:
						if fo, ok := fi.info.Uses[x].(*types.Func); ok && isCompilerMethod(fo) {
							uses = true
						}
					case *ast.SelectorExpr:
						if isTableField(fi.info, x) {
							uses = true
						}
					}
					return !uses
				})
				if uses {
					useAt = i
				}
			}
		}
		res = append(res, map[string]any{"func": displayName(o),
			"fresh_table_before_any_use": resetAt >= 0 && (useAt < 0 || resetAt < useAt)})
	}
	sort.SliceStable(res, func(i, j int) bool {
		a, b := fmt.Sprint(res[i]["func"], res[i]["fresh_table_before_any_use"]), fmt.Sprint(res[j]["func"], res[j]["fresh_table_before_any_use"])
		return a < b
	})
	return res
}

package main

// Mode `opcat`: the instruction set of the streaming garbler, read from the
// CURRENT source of the repository under test (go/parser; -extra <repo dir>).
//
// Program.Stream (compiler/ssa/streamer.go) walks the SSA steps of a program
// with one switch on the instruction's opcode.  The property quantifies over
// all programs, so every arm of that switch is a class of sessions the cover
// mode has to reach: the explicit `case` labels (wire-renaming instructions,
// ret, circ, gc) and, for the default arm, the keys of the generator table it
// indexes (one instruction circuit per arithmetic / logic / comparison opcode,
// builtin, phi, ...).  The mode prints both sets in the meta file; the check
// obliges that every one of them occurred in a streamed session of mode cover
// (counter ssa_op_<name>, counted from the SSA program of every session that
// ran to completion).
//
// Nothing is assumed about names except the shape: a method named Stream whose
// body contains a switch over a selector `<x>.Op`; the generator table is the
// map the default arm indexes with that same selector.

import (
	"fmt"
	"go/ast"
	"go/parser"
	"go/token"
	"os"
	"path/filepath"
	"sort"
	"strings"

	"verifharness/hxlib"
)

type opCatalogue struct {
	Cases      []string // explicit case labels of the opcode switch
	Generators []string // keys of the table the default arm indexes
	Table      string   // its name
	Names      map[string]string
}

func isOpSelector(e ast.Expr) bool {
	s, ok := e.(*ast.SelectorExpr)
	return ok && s.Sel.Name == "Op"
}

// readOpCatalogue parses compiler/ssa of the repository at dir.
func readOpCatalogue(dir string) (*opCatalogue, error) {
	fset := token.NewFileSet()
	pkgs, err := parser.ParseDir(fset, filepath.Join(dir, "compiler", "ssa"), func(fi os.FileInfo) bool {
		return !strings.HasSuffix(fi.Name(), "_test.go")
	}, 0)
	if err != nil {
		return nil, err
	}
	cat := &opCatalogue{Names: map[string]string{}}
	var files []*ast.File
	for _, p := range pkgs {
		for _, f := range p.Files {
			files = append(files, f)
		}
	}
	// the opcode switch of the method Stream: the switch over <x>.Op with the
	// most arms
	var best *ast.SwitchStmt
	for _, f := range files {
		for _, d := range f.Decls {
			fd, ok := d.(*ast.FuncDecl)
			if !ok || fd.Name.Name != "Stream" || fd.Recv == nil || fd.Body == nil {
				continue
			}
			ast.Inspect(fd.Body, func(n ast.Node) bool {
				sw, ok := n.(*ast.SwitchStmt)
				if ok && sw.Tag != nil && isOpSelector(sw.Tag) && (best == nil || len(sw.Body.List) > len(best.Body.List)) {
					best = sw
				}
				return true
			})
		}
	}
	if best == nil {
		return nil, fmt.Errorf("no switch over an instruction opcode found in a method Stream of compiler/ssa")
	}
	for _, st := range best.Body.List {
		cc := st.(*ast.CaseClause)
		if cc.List == nil {
			// default arm: the table it indexes with the opcode
			for _, s := range cc.Body {
				ast.Inspect(s, func(n ast.Node) bool {
					ix, ok := n.(*ast.IndexExpr)
					if ok && isOpSelector(ix.Index) {
						if id, ok := ix.X.(*ast.Ident); ok && cat.Table == "" {
							cat.Table = id.Name
						}
					}
					return true
				})
			}
			continue
		}
		for _, e := range cc.List {
			if id, ok := e.(*ast.Ident); ok {
				cat.Cases = append(cat.Cases, id.Name)
			} else {
				cat.Cases = append(cat.Cases, fmt.Sprintf("?%T", e))
			}
		}
	}
	// keys of the generator table and the printed names of the opcodes (the
	// map[Operand]string literal)
	for _, f := range files {
		for _, d := range f.Decls {
			gd, ok := d.(*ast.GenDecl)
			if !ok || gd.Tok != token.VAR {
				continue
			}
			for _, sp := range gd.Specs {
				vs := sp.(*ast.ValueSpec)
				for i, nm := range vs.Names {
					if i >= len(vs.Values) {
						continue
					}
					cl, ok := vs.Values[i].(*ast.CompositeLit)
					if !ok {
						continue
					}
					mt, isMap := cl.Type.(*ast.MapType)
					if !isMap {
						continue
					}
					if nm.Name == cat.Table {
						for _, el := range cl.Elts {
							if kv, ok := el.(*ast.KeyValueExpr); ok {
								if id, ok := kv.Key.(*ast.Ident); ok {
									cat.Generators = append(cat.Generators, id.Name)
								}
							}
						}
					}
					if vt, ok := mt.Value.(*ast.Ident); ok && vt.Name == "string" {
						if kt, ok := mt.Key.(*ast.Ident); ok && kt.Name == "Operand" {
							for _, el := range cl.Elts {
								if kv, ok := el.(*ast.KeyValueExpr); ok {
									id, ok1 := kv.Key.(*ast.Ident)
									lit, ok2 := kv.Value.(*ast.BasicLit)
									if ok1 && ok2 {
										cat.Names[id.Name] = strings.Trim(lit.Value, "\"`")
									}
								}
							}
						}
					}
				}
			}
		}
	}
	sort.Strings(cat.Cases)
	sort.Strings(cat.Generators)
	return cat, nil
}

func (c *opCatalogue) name(id string) string {
	if n, ok := c.Names[id]; ok {
		return n
	}
	return strings.ToLower(id)
}

func opcat(args []string) int {
	cf, o := hxlib.ParseCommon("c04", args, nil)
	defer o.Close()
	dir := cf.Extra
	if dir == "" {
		dir = os.Getenv("MPCLDIR")
	}
	cat, err := readOpCatalogue(dir)
	if err != nil {
		o.Meta["error"] = err.Error()
		return 0
	}
	var cases, gens []string
	for _, c := range cat.Cases {
		cases = append(cases, cat.name(c))
	}
	for _, g := range cat.Generators {
		gens = append(gens, cat.name(g))
	}
	sort.Strings(cases)
	sort.Strings(gens)
	o.Meta["stream_case_ops"] = cases
	o.Meta["stream_generator_ops"] = gens
	o.Meta["stream_generator_table"] = cat.Table
	o.Meta["program_kinds"] = len(progKinds)
	nat := nativeCatalogue()
	var files []string
	for _, n := range nat {
		files = append(files, n.rel)
	}
	o.Meta["native_files"] = files
	return 0
}

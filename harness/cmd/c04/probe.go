package main

// Mode `probe`: one streaming session of an MPCL program given as a file,
// analysed exactly as the sessions of mode cover are (window scan, shadow
// garbler, definedness of every gate input), verdict on stdout.
//
//	c04 probe <file.mpcl> <a> <b> <width of a> <width of b> [source name]
//
// The source name is what the compiler is told the program is called (native
// circuit files are looked up in its directory); default: the file itself.

import (
	"encoding/json"
	"fmt"
	"math/big"
	"os"
	"sort"
	"strconv"
	"strings"

	"verifharness/hxlib"
)

func probe(args []string) int {
	if len(args) < 5 {
		fmt.Fprintln(os.Stderr, "usage: c04 probe <file.mpcl> <a> <b> <aw> <bw> [source name]")
		return 2
	}
	src, err := os.ReadFile(args[0])
	if err != nil {
		fmt.Fprintln(os.Stderr, err)
		return 2
	}
	aw, _ := strconv.Atoi(args[3])
	bw, _ := strconv.Atoi(args[4])
	av, ok1 := new(big.Int).SetString(args[1], 0)
	_, ok2 := new(big.Int).SetString(args[2], 0)
	if !ok1 || !ok2 || aw <= 0 || bw <= 0 {
		fmt.Fprintln(os.Stderr, "bad inputs")
		return 2
	}
	if av.Sign() < 0 {
		av.Add(av, new(big.Int).Lsh(big.NewInt(1), uint(aw)))
	}
	name := args[0]
	if len(args) > 5 {
		name = args[5]
	}
	sp := &coverSpec{srcName: name, src: string(src), names: []string{"probe"}, aw: aw, bw: bw}
	cf, o := hxlib.ParseCommon("c04", nil, nil)
	sr := hxlib.NewRng(7)
	for _, otName := range []string{"ideal", "co"} {
		an, status := coverSession(o, cf, 0, 0, sp, av, args[1], args[2], otName, sr.Fork(), "probe "+args[0])
		fmt.Printf("ot=%s status=%s\n", otName, status)
		if an != nil {
			fmt.Printf("  gates=%d window-singles=%d window-pairs=%d reused-queries=%d unrecovered=%d unknown=%d undefined-inputs=%d\n",
				an.gates, an.single, an.pairs, an.reuse, an.unrecovered, an.unknown, an.undefined)
			fmt.Printf("  %s\n  %s\n", an.accRes, an.defRes)
		}
	}
	var keys []string
	for k := range o.Counters {
		if strings.HasPrefix(k, "ssa_op_") || strings.HasPrefix(k, "programs_") {
			keys = append(keys, k)
		}
	}
	sort.Strings(keys)
	for _, k := range keys {
		fmt.Printf("%s=%d ", k, o.Counters[k])
	}
	fmt.Println()
	for _, f := range o.OracleFails {
		delete(f, "desc")
		b, _ := json.Marshal(f)
		fmt.Printf("FAIL %s\n", b)
	}
	for _, s := range o.Samples {
		b, _ := json.Marshal(s)
		fmt.Printf("SAMPLE %s\n", b)
	}
	if len(o.OracleFails) > 0 {
		return 1
	}
	return 0
}

package main

// Mode `range`: the real circuit.Garbler against a SCRIPTED evaluator that
// deviates in the one message the evaluator controls before the oblivious
// transfer: the (offset, count) range of wires it asks labels for.  The
// honest request is (n0, n1): exactly the evaluator's own input wires.  Any
// other request must be refused, otherwise the OT hands the evaluator a label
// of a wire whose other label it may already hold (the garbler sent the
// labels of ITS input wires in the clear): two labels of one wire, hence R.
//
// Oracle (on the real code): (a) a request other than (n0, n1) ends with an
// error at the garbler and nothing is offered to the OT; (b) whatever is
// offered to the OT never contains a wire one of whose labels the garbler
// already sent in the clear.  Each case is also an op line for the Lean model
// (Circuit2.acceptsOtRange, the guard of run2): c04range n0 n1 offset count.

import (
	"fmt"
	"math/big"
	"time"

	"github.com/markkurossi/mpc/circuit"
	"github.com/markkurossi/mpc/env"
	"github.com/markkurossi/mpc/ot"
	"github.com/markkurossi/mpc/p2p"

	"verifharness/hxlib"
)

// rangeEvaluator follows circuit.Evaluator up to the OT request, asks for
// (offset, count) and returns the garbler input labels it received in the clear.
func rangeEvaluator(conn *p2p.Conn, oti ot.OT, c *circuit.Circuit, offset, count int) (clear []ot.Label, err error) {
	if _, err = conn.ReceiveData(); err != nil {
		return
	}
	ngates, err := conn.ReceiveUint32()
	if err != nil {
		return
	}
	var label ot.Label
	var ld ot.LabelData
	for i := 0; i < ngates; i++ {
		var n int
		if n, err = conn.ReceiveUint32(); err != nil {
			return
		}
		for j := 0; j < n; j++ {
			if err = conn.ReceiveLabel(&label, &ld); err != nil {
				return
			}
		}
	}
	n0 := int(c.Inputs[0].Type.Bits)
	for i := 0; i < n0; i++ {
		if err = conn.ReceiveLabel(&label, &ld); err != nil {
			return
		}
		clear = append(clear, label)
	}
	if err = oti.InitReceiver(conn); err != nil {
		return
	}
	if err = conn.SendUint32(offset); err != nil {
		return
	}
	if err = conn.SendUint32(count); err != nil {
		return
	}
	if err = conn.Flush(); err != nil {
		return
	}
	// The scripted evaluator stops here.  If the garbler accepts the request it
	// hands its wires to the (ideal, recording) OT without blocking, which is
	// all the oracle needs; it then meets EOF.
	return
}

func otRange(args []string) int {
	cf, o := hxlib.ParseCommon("c04", args, nil)
	defer o.Close()
	rng := hxlib.NewRng(cf.Seed)
	mixes := []string{"and", "uniform", "orinv", "xnor"}
	for i := 0; i < cf.N; i++ {
		r := rng.Fork()
		if cf.Only >= 0 && i != cf.Only {
			continue
		}
		c := hxlib.GenCircuit(r, hxlib.GenOpts{MaxGates: 40, MaxIn: 8, Mix: mixes[i%4]})
		n0 := int(c.Inputs[0].Type.Bits)
		n1 := int(c.Inputs[1].Type.Bits)
		total := n0 + n1
		// honest request first, then the deviations
		reqs := [][2]int{{n0, n1}, {0, total}, {0, n0}, {0, n1}, {n0 - 1, n1 + 1}, {n0 + 1, n1 - 1}, {n0 - 1, n1}, {n0, n1 - 1},
			{n0, n1 + 1}, {1, total - 1}, {total, 0}, {n0, 0}, {0, 0}, {n1, n0}, {r.Intn(total + 1), r.Intn(total + 2)}}
		for _, rq := range reqs {
			offset, count := rq[0], rq[1]
			if offset < 0 || count < 0 {
				continue
			}
			xb := randBits(r, n0)
			for j := range xb { // all ones: every garbler wire's clear label is L1
				xb[j] = true
			}
			d := hxlib.NewDuplex(nil)
			ideal := hxlib.NewIdealOT()
			ideal.Notify = make(chan struct{}, 1)
			var gerr error
			gdone := make(chan struct{})
			go func() {
				defer close(gdone)
				defer func() {
					if e := recover(); e != nil {
						gerr = fmt.Errorf("panic: %v", e)
					}
				}()
				var res []*big.Int
				res, gerr = circuit.Garbler(&env.Config{Rand: r.Fork()}, p2p.NewConn(d.A), ideal, c, bitsToBig(xb), false)
				_ = res
				if gerr != nil {
					d.Close()
				}
			}()
			var clear []ot.Label
			edone := make(chan struct{})
			go func() {
				defer close(edone)
				defer func() { recover() }()
				clear, _ = rangeEvaluator(p2p.NewConn(d.B), ideal, c, offset, count)
			}()
			// wait until the garbler has decided: it either returns (refusal) or
			// hands wires to the OT (acceptance); then cut the connection so that
			// an accepting garbler meets EOF instead of waiting for labels
			stalled := false
			select {
			case <-gdone:
			case <-ideal.Notify:
			case <-time.After(30 * time.Second):
				stalled = true
			}
			d.Close()
			select {
			case <-gdone:
			case <-time.After(10 * time.Second):
				stalled = true
			}
			select {
			case <-edone:
			case <-time.After(5 * time.Second):
			}
			offered := 0
			for _, batch := range ideal.Sent {
				offered += len(batch)
			}
			honest := offset == n0 && count == n1
			result := "reject"
			if offered > 0 {
				result = "accept"
			}
			desc := map[string]any{"case": i, "n0": n0, "n1": n1, "offset": offset, "count": count, "offered": offered,
				"circuit": hxlib.CircLine(c), "rerun": fmt.Sprintf("c04 range -seed %d -n %d -only %d", cf.Seed, cf.N, i)}
			if stalled {
				o.Fail("c04-range-stalled", desc)
			}
			if !honest && offered > 0 {
				o.Fail("c04-ot-range-accepted", desc)
			}
			if honest && offered != n1 && n1 > 0 {
				o.Fail("c04-ot-range-honest-refused", desc)
			}
			// (b) no offered wire has a label the garbler already sent in the clear
			for _, batch := range ideal.Sent {
				for wi, w := range batch {
					for ci, cl := range clear {
						if cl.Equal(w.L0) || cl.Equal(w.L1) {
							desc["offered_index"] = wi
							desc["garbler_wire"] = ci
							o.Fail("c04-ot-offers-wire-with-known-label", desc)
						}
					}
				}
			}
			if honest {
				o.Count("range_honest")
			} else {
				o.Count("range_deviating")
			}
			if !honest && offset < n0 && offset+count > 0 {
				o.Count("range_reaching_into_garbler_wires")
			}
			if !honest && offset+count == total {
				o.Count("range_deviating_with_correct_end")
			}
			// count == 0 requests: the honest n1 == 0 circuit does not occur (MaxIn >= 1 per party)
			o.Op(fmt.Sprintf("c04range %d %d %d %d", n0, n1, offset, count), result)
		}
	}
	return 0
}

package main

// The garbler->evaluator stream of a streaming session, gate by gate.
//
// parseStream finds every gate record of the stream with the byte offsets of
// its table rows (the framing of compiler/ssa/streamer.go and
// circuit/stream_garble.go; when a real OT runs on the wire its messages sit
// between the garbler's input labels and the first circuit block, so the start
// of the circuit section is searched: a start is accepted when the blocks
// parse up to the return record and the stream ends exactly there).
//
// The SHADOW garbler re-derives, from the stream and the session's secrets
// (offset R, both labels of every input wire), both labels of EVERY wire of
// the session and the TWEAK under which every transmitted row was hashed: for
// each gate record, in stream order, it looks up the input pairs, searches the
// tweak(s) for which its own 40-line implementation of the hash functions
// (H(x,t) = pi(2x+t)+2x+t, H(a,b,t) = pi(2a+4b+t)+2a+4b+t, pi = AES under the
// session key the stream carries) reproduces the transmitted rows bit for bit,
// and computes the output pair.  Nothing of the tweak accounting is assumed:
// the search starts at the largest tweak seen so far and widens in both
// directions.  What comes out is observed on the real code:
//
//   - the tweak(s) of every tweak-consuming gate, in stream order (the op line
//     `c04acc` compares them with the per-kind accounting of the Lean model,
//     Model/TweakAcc.lean: AND 2, OR 1, INV 1, free gates 0);
//   - every hash query (the AES input block) of every gate: a block queried by
//     two different gates is one hash atom in two places, which is what makes
//     two transmitted rows XOR to the offset (Props/C04.lean
//     C04_tweak_reuse_leaks, C04_unary_tweak_shared_leaks);
//   - for any two stream offsets whose windows differ by R: which rows of which
//     gates they are.
//
// Gate adjacency classes: for every gate (any of the five kinds) the next
// tweak-consuming gate of the stream and which input wires the two share
// (aa, ab, ba, bb).  The coverage obligation of the check is stated on these.

import (
	"crypto/aes"
	"crypto/cipher"
	"encoding/binary"
	"fmt"
	"strings"

	"github.com/markkurossi/mpc/ot"
)

const (
	gXOR  = 0
	gXNOR = 1
	gAND  = 2
	gOR   = 3
	gINV  = 4
)

var kindLetter = [5]string{"x", "n", "a", "o", "i"}

// sGate is one gate record of the stream.
type sGate struct {
	op               int
	aTmp, bTmp, cTmp bool
	wide             bool
	a, b, c          int
	block            int   // index of the circuit block
	idx              int   // index inside the block
	rowOff           []int // byte offsets of the transmitted rows
	// filled by the shadow
	tweaks    []int // observed tweak(s): AND two, OR / INV one
	recovered bool
	known     bool // input pairs known: pa, pb are the permute bits of the inputs
	pa, pb    bool
}

type sBlock struct {
	step, gates, numWires, maxID int
	first                        int // index of its first gate in parsed.gates
}

type parsed struct {
	err       string
	key       []byte
	nIn1      int
	nIn2      int
	nOut      int
	labelsOff int // offset of the garbler's input labels
	circStart int // offset of the first circuit block
	otBytes   int // bytes between the input labels and the first circuit block
	blocks    []sBlock
	gates     []sGate
}

type prd struct {
	b   []byte
	pos int
	bad bool
}

func (r *prd) need(n int) bool {
	if r.bad || n < 0 || r.pos+n > len(r.b) {
		r.bad = true
		return false
	}
	return true
}
func (r *prd) u32() int {
	if !r.need(4) {
		return 0
	}
	v := binary.BigEndian.Uint32(r.b[r.pos:])
	r.pos += 4
	return int(v)
}
func (r *prd) u16() int {
	if !r.need(2) {
		return 0
	}
	v := binary.BigEndian.Uint16(r.b[r.pos:])
	r.pos += 2
	return int(v)
}
func (r *prd) u8() int {
	if !r.need(1) {
		return 0
	}
	v := r.b[r.pos]
	r.pos++
	return int(v)
}
func (r *prd) data() []byte {
	n := r.u32()
	if n > 1<<24 || !r.need(n) {
		r.bad = true
		return nil
	}
	v := r.b[r.pos : r.pos+n]
	r.pos += n
	return v
}
func (r *prd) arg(depth int) int {
	r.data()
	r.data()
	bits := r.u32()
	n := r.u32()
	if depth > 8 || n > 1<<16 {
		r.bad = true
		return 0
	}
	for i := 0; i < n && !r.bad; i++ {
		r.arg(depth + 1)
	}
	return bits
}

// parseBlocks parses circuit blocks from offset p.  withReturn: the section
// ends with a return record (nOut wire ids, result data) and nothing follows.
func parseBlocks(b []byte, p int, nOut int, withReturn bool) (blocks []sBlock, gates []sGate, ok bool) {
	r := &prd{b: b, pos: p}
	for {
		if !withReturn && r.pos == len(b) {
			return blocks, gates, true
		}
		op := r.u32()
		if r.bad {
			return nil, nil, false
		}
		switch op {
		case 1:
			blk := sBlock{step: r.u32(), gates: r.u32(), numWires: r.u32(), maxID: r.u32(), first: len(gates)}
			if r.bad || blk.gates > (len(b)-r.pos)/5+1 {
				return nil, nil, false
			}
			for g := 0; g < blk.gates; g++ {
				gop := r.u8()
				wide := gop&0x10 == 0
				nw, rows := 3, 0
				switch gop & 0x0f {
				case gXOR, gXNOR:
				case gAND:
					rows = 2
				case gOR:
					rows = 3
				case gINV:
					nw, rows = 2, 1
				default:
					return nil, nil, false
				}
				var ids [3]int
				for k := 0; k < nw; k++ {
					if wide {
						ids[k] = r.u32()
					} else {
						ids[k] = r.u16()
					}
				}
				rec := sGate{op: gop & 0x0f, aTmp: gop&0x80 != 0, bTmp: gop&0x40 != 0, cTmp: gop&0x20 != 0, wide: wide,
					a: ids[0], b: ids[1], c: ids[2], block: len(blocks), idx: g}
				if nw == 2 {
					rec.b, rec.c, rec.bTmp = -1, ids[1], false
				}
				if !r.need(16 * rows) {
					return nil, nil, false
				}
				for k := 0; k < rows; k++ {
					rec.rowOff = append(rec.rowOff, r.pos+16*k)
				}
				r.pos += 16 * rows
				gates = append(gates, rec)
			}
			blocks = append(blocks, blk)
		case 2:
			if !withReturn {
				return nil, nil, false
			}
			for i := 0; i < nOut; i++ {
				r.u32()
			}
			r.data()
			if r.bad || r.pos != len(b) {
				return nil, nil, false
			}
			return blocks, gates, true
		default:
			return nil, nil, false
		}
	}
}

// parseStream parses the garbler->evaluator stream of a Program.Stream
// session (any OT on the wire).
func parseStream(b []byte) *parsed {
	t := &parsed{}
	r := &prd{b: b}
	t.key = append([]byte(nil), r.data()...)
	t.nIn1 = r.arg(0)
	t.nIn2 = r.arg(0)
	no := r.u32()
	for i := 0; i < no && !r.bad; i++ {
		t.nOut += r.arg(0)
	}
	r.u32() // number of steps
	t.labelsOff = r.pos
	if !r.need(16 * t.nIn1) {
		t.err = "short header"
		return t
	}
	r.pos += 16 * t.nIn1
	for p := r.pos; p+4 <= len(b); p++ {
		if b[p] != 0 || b[p+1] != 0 || b[p+2] != 0 || b[p+3] != 1 {
			continue
		}
		if blocks, gates, ok := parseBlocks(b, p, t.nOut, true); ok {
			t.circStart, t.otBytes, t.blocks, t.gates = p, p-r.pos, blocks, gates
			return t
		}
	}
	t.err = "no start of the circuit section found"
	return t
}

// ---------------------------------------------------------------- shadow

func lbl(b []byte) ot.Label {
	var l ot.Label
	l.SetBytes(b[:16])
	return l
}

func key128(l ot.Label) u128 { return u128{l.D0, l.D1} }

type shadow struct {
	alg    cipher.Block
	r      ot.Label
	glob   map[int]ot.Wire
	tmp    map[int]ot.Wire
	maxTw  int // largest tweak observed so far, -1 at the start
	budget int // remaining extra search steps
	// definedness (the label-level invariant, see checkInput): the block in
	// which a temporary wire was last written; the size of the garbler's
	// temporary table (Streaming.initCircuit allocates a fresh, all-zero one
	// when an instruction circuit has more wires than any before and keeps
	// the old contents otherwise)
	blocks   []sBlock
	tmpBlk   map[int]int
	tmpLen   int
	curBlock int
	// gate inputs that are not a defined wire / not a label pair
	undefined  []map[string]any
	nUndefined int
	badPairs   []map[string]any
	nBadPairs  int
	degenerate []map[string]any
	nDegen     int
	// which wires are defined, independently of whether the shadow could
	// re-derive their labels
	defGlob map[int]bool
	tmpDef  map[int]int
	// every hash query: AES input block -> first gate that made it
	queries map[u128]int
	role    map[u128]string
	reuses  []map[string]any
	// results
	unrecovered  int
	unknownInput int
	tries        int
}

func newShadow(key []byte, r ot.Label) (*shadow, error) {
	alg, err := aes.NewCipher(key)
	if err != nil {
		return nil, err
	}
	return &shadow{alg: alg, r: r, glob: map[int]ot.Wire{}, tmp: map[int]ot.Wire{}, maxTw: -1, budget: 4 << 20,
		queries: map[u128]int{}, role: map[u128]string{}, tmpBlk: map[int]int{}, curBlock: -1,
		defGlob: map[int]bool{}, tmpDef: map[int]int{}}, nil
}

// hk: pi(k) xor k.
func (s *shadow) hk(k ot.Label) ot.Label {
	var d ot.LabelData
	k.GetData(&d)
	s.alg.Encrypt(d[:], d[:])
	var pi ot.Label
	pi.SetData(&d)
	pi.Xor(k)
	return pi
}

func kHalf(x ot.Label, t int) ot.Label {
	x.Mul2()
	x.Xor(ot.NewTweak(uint32(t)))
	return x
}

func k2(a, b ot.Label, t int) ot.Label {
	a.Mul2()
	b.Mul4()
	a.Xor(b)
	a.Xor(ot.NewTweak(uint32(t)))
	return a
}

func xor(a, b ot.Label) ot.Label {
	a.Xor(b)
	return a
}

func (s *shadow) get(tmp bool, id int) (ot.Wire, bool) {
	if tmp {
		w, ok := s.tmp[id]
		return w, ok
	}
	w, ok := s.glob[id]
	return w, ok
}

func (s *shadow) set(tmp bool, id int, w ot.Wire) {
	if tmp {
		s.tmp[id] = w
	} else {
		s.glob[id] = w
	}
}

func (s *shadow) forget(tmp bool, id int) {
	if tmp {
		delete(s.tmp, id)
	} else {
		delete(s.glob, id)
	}
}

// search tries tweak candidates around the hint (largest tweak seen + 1):
// hint, hint-1, hint+1, hint-2, ... down to 0 and up to hint+span.
func (s *shadow) search(match func(t int) bool) (int, bool) {
	hint := s.maxTw + 1
	span := hint + 64
	for d := 0; d <= span; d++ {
		for _, t := range [2]int{hint - d, hint + d} {
			if t < 0 || (d == 0 && t != hint) {
				continue
			}
			if d > 2 {
				if s.budget <= 0 {
					return 0, false
				}
				s.budget--
			}
			s.tries++
			if match(t) {
				return t, true
			}
			if d == 0 {
				break
			}
		}
	}
	return 0, false
}

func (s *shadow) query(k ot.Label, gate int, role string, tweak int, gates []sGate) {
	kk := key128(k)
	if g0, ok := s.queries[kk]; ok {
		if g0 != gate && len(s.reuses) < 8 {
			s.reuses = append(s.reuses, map[string]any{
				"first_gate": gateName(gates, g0), "first_query": s.role[kk],
				"second_gate": gateName(gates, gate), "second_query": role, "tweak": tweak})
		} else if g0 != gate {
			s.reuses = append(s.reuses, nil)
		}
		return
	}
	s.queries[kk] = gate
	s.role[kk] = role
}

func gateName(gates []sGate, i int) string {
	g := gates[i]
	w := func(tmp bool, id int) string {
		if id < 0 {
			return "-"
		}
		if tmp {
			return fmt.Sprintf("t%d", id)
		}
		return fmt.Sprintf("w%d", id)
	}
	return fmt.Sprintf("#%d block %d gate %d: %s(%s,%s)->%s tweaks=%v", i, g.block, g.idx,
		strings.ToUpper(map[int]string{0: "xor", 1: "xnor", 2: "and", 3: "or", 4: "inv"}[g.op]),
		w(g.aTmp, g.a), w(g.bTmp, g.b), w(g.cTmp, g.c), g.tweaks)
}

func (s *shadow) note(t int) {
	if t > s.maxTw {
		s.maxTw = t
	}
}

// setInput installs the pair of a session input wire.
func (s *shadow) setInput(id int, w ot.Wire) {
	s.glob[id] = w
	s.defGlob[id] = true
}

// lookup returns what the garbler's wire tables hold for a gate input and
// whether that is a DEFINED wire: a global wire that is an input of the session
// or was written by an earlier gate; a temporary wire that was written by an
// earlier gate of the SAME instruction circuit.  For an undefined wire the
// content is what the real tables hold: the value a previous instruction
// circuit left in the slot, or the all-zero pair of a never-written slot.
// have is false when the wire is defined but the shadow could not re-derive
// its labels (a row upstream was not reproduced).
func (s *shadow) lookup(tmp bool, id int) (w ot.Wire, have, defined bool, state string) {
	if tmp {
		w, ok := s.tmp[id]
		if blk, def := s.tmpDef[id]; def && blk == s.curBlock {
			return w, ok, true, ""
		}
		if !ok {
			return ot.Wire{}, true, false, "never written: both labels are zero in the garbler's table"
		}
		return w, true, false, fmt.Sprintf("not written in this instruction circuit: the slot holds the pair block %d left there",
			s.tmpBlk[id])
	}
	w, ok := s.glob[id]
	if s.defGlob[id] {
		return w, ok, true, ""
	}
	if !ok {
		return ot.Wire{}, true, false, "never written: both labels are zero in the garbler's table"
	}
	return w, true, false, "not written by the session: the slot holds an earlier pair"
}

func wireName(tmp bool, id int) string {
	if tmp {
		return fmt.Sprintf("t%d", id)
	}
	return fmt.Sprintf("w%d", id)
}

func isZero(l ot.Label) bool { return l.D0 == 0 && l.D1 == 0 }

// checkInput is the label-level invariant on one gate input: the wire is
// defined and its two labels differ by the offset (in particular they are not
// equal).  Every row the garbler transmits is computed from such pairs; the
// symbolic model of Props/C04.lean assumes exactly this of every gate input
// (wfFrom / InvS), and C04_undefined_input_and_rows says what is transmitted
// otherwise.
func (s *shadow) checkInput(gates []sGate, i int, which string, tmp bool, id int, w ot.Wire, defined bool, state string) {
	if !defined {
		s.nUndefined++
		if len(s.undefined) < 6 {
			s.undefined = append(s.undefined, map[string]any{"gate": gateName(gates, i), "input": which,
				"wire": wireName(tmp, id), "state": state})
		}
	}
	if !xor(w.L0, w.L1).Equal(s.r) {
		s.nBadPairs++
		if len(s.badPairs) < 6 {
			why := "the two labels do not differ by the offset"
			if w.L0.Equal(w.L1) {
				why = "the two labels are equal"
				if isZero(w.L0) {
					why = "the two labels are equal (both zero)"
				}
			}
			s.badPairs = append(s.badPairs, map[string]any{"gate": gateName(gates, i), "input": which,
				"wire": wireName(tmp, id), "why": why})
		}
	}
}

// degenerateRows names transmitted rows that are the offset itself, zero, or
// a label of one of the gate's input wires (possibly shifted by the offset).
func (s *shadow) degenerateRows(stream []byte, gates []sGate, i int, a, b ot.Wire) {
	g := &gates[i]
	for k, off := range g.rowOff {
		row := lbl(stream[off:])
		what := ""
		switch {
		case row.Equal(s.r):
			what = "the offset R"
		case isZero(row):
			what = "zero"
		case row.Equal(a.L0) || row.Equal(a.L1):
			what = "a label of input a (" + wireName(g.aTmp, g.a) + ")"
		case g.op != gINV && (row.Equal(b.L0) || row.Equal(b.L1)):
			what = "a label of input b (" + wireName(g.bTmp, g.b) + ")"
		}
		if what == "" {
			continue
		}
		s.nDegen++
		if len(s.degenerate) < 6 {
			s.degenerate = append(s.degenerate, map[string]any{"gate": gateName(gates, i), "row": k, "offset": off,
				"row_is": what})
		}
	}
}

// run walks the gate records; stream is the byte stream the row offsets refer to.
func (s *shadow) run(stream []byte, gates []sGate) {
	for i := range gates {
		g := &gates[i]
		if g.block != s.curBlock {
			s.curBlock = g.block
			if g.block < len(s.blocks) && s.blocks[g.block].numWires > s.tmpLen {
				s.tmp = map[int]ot.Wire{}
				s.tmpBlk = map[int]int{}
				s.tmpLen = s.blocks[g.block].numWires
			}
		}
		a, haveA, defA, stA := s.lookup(g.aTmp, g.a)
		var b ot.Wire
		haveB, defB, stB := true, true, ""
		if g.op != gINV {
			b, haveB, defB, stB = s.lookup(g.bTmp, g.b)
		}
		// the output is a defined wire from here on, whatever its labels are
		if g.cTmp {
			s.tmpDef[g.c] = g.block
		} else {
			s.defGlob[g.c] = true
		}
		if !haveA || !haveB {
			s.unknownInput++
			s.forget(g.cTmp, g.c)
			continue
		}
		s.checkInput(gates, i, "a", g.aTmp, g.a, a, defA, stA)
		if g.op != gINV {
			s.checkInput(gates, i, "b", g.bTmp, g.b, b, defB, stB)
		}
		s.degenerateRows(stream, gates, i, a, b)
		row := func(k int) ot.Label { return lbl(stream[g.rowOff[k]:]) }
		g.known, g.pa, g.pb = true, a.L0.S(), g.op != gINV && b.L0.S()
		var c ot.Wire
		switch g.op {
		case gXOR:
			c.L0 = xor(a.L0, b.L0)
			c.L1 = xor(c.L0, s.r)
			g.recovered = true
		case gXNOR:
			c.L1 = xor(a.L0, b.L0)
			c.L0 = xor(c.L1, s.r)
			g.recovered = true
		case gAND:
			pa, pb := a.L0.S(), b.L0.S()
			tg, te := row(0), row(1)
			want0 := tg
			if pb {
				want0.Xor(s.r)
			}
			t0, ok0 := s.search(func(t int) bool {
				return xor(s.hk(kHalf(a.L0, t)), s.hk(kHalf(a.L1, t))).Equal(want0)
			})
			want1 := xor(te, a.L0)
			var t1 int
			var ok1 bool
			if ok0 {
				s.note(t0)
				t1, ok1 = s.search(func(t int) bool {
					return xor(s.hk(kHalf(b.L0, t)), s.hk(kHalf(b.L1, t))).Equal(want1)
				})
			}
			if !ok0 || !ok1 {
				break
			}
			s.note(t1)
			g.tweaks = []int{t0, t1}
			g.recovered = true
			s.query(kHalf(a.L0, t0), i, "H(a0,j0)", t0, gates)
			s.query(kHalf(a.L1, t0), i, "H(a1,j0)", t0, gates)
			s.query(kHalf(b.L0, t1), i, "H(b0,j1)", t1, gates)
			s.query(kHalf(b.L1, t1), i, "H(b1,j1)", t1, gates)
			wg0 := s.hk(kHalf(a.L0, t0))
			if pa {
				wg0.Xor(tg)
			}
			we0 := s.hk(kHalf(b.L0, t1))
			if pb {
				we0.Xor(te)
				we0.Xor(a.L0)
			}
			c.L0 = xor(wg0, we0)
			c.L1 = xor(c.L0, s.r)
		case gOR:
			garble := func(t int) (ot.Wire, [4]ot.Label) {
				var table [4]ot.Label
				table[idx2(a.L0, b.L0)] = s.hk(k2(a.L0, b.L0, t))
				table[idx2(a.L0, b.L1)] = s.hk(k2(a.L0, b.L1, t))
				table[idx2(a.L1, b.L0)] = s.hk(k2(a.L1, b.L0, t))
				table[idx2(a.L1, b.L1)] = s.hk(k2(a.L1, b.L1, t))
				l0 := idx2(a.L0, b.L0)
				w := ot.Wire{L0: table[0], L1: table[0]}
				if l0 == 0 {
					w.L1.Xor(s.r)
				} else {
					w.L0.Xor(s.r)
				}
				for k := 0; k < 4; k++ {
					if k == l0 {
						table[k].Xor(w.L0)
					} else {
						table[k].Xor(w.L1)
					}
				}
				return w, table
			}
			t, ok := s.search(func(t int) bool {
				_, tb := garble(t)
				return tb[1].Equal(row(0)) && tb[2].Equal(row(1)) && tb[3].Equal(row(2))
			})
			if !ok {
				break
			}
			s.note(t)
			g.tweaks = []int{t}
			g.recovered = true
			c, _ = garble(t)
			s.query(k2(a.L0, b.L0, t), i, "H(a0,b0,j)", t, gates)
			s.query(k2(a.L0, b.L1, t), i, "H(a0,b1,j)", t, gates)
			s.query(k2(a.L1, b.L0, t), i, "H(a1,b0,j)", t, gates)
			s.query(k2(a.L1, b.L1, t), i, "H(a1,b1,j)", t, gates)
		case gINV:
			var zero ot.Label
			garble := func(t int) (ot.Wire, [2]ot.Label) {
				var table [2]ot.Label
				table[idx1(a.L0)] = s.hk(k2(a.L0, zero, t))
				table[idx1(a.L1)] = s.hk(k2(a.L1, zero, t))
				l0 := idx1(a.L0)
				w := ot.Wire{L0: table[0], L1: table[0]}
				if l0 == 0 {
					w.L0.Xor(s.r)
				} else {
					w.L1.Xor(s.r)
				}
				for k := 0; k < 2; k++ {
					if k == l0 {
						table[k].Xor(w.L1)
					} else {
						table[k].Xor(w.L0)
					}
				}
				return w, table
			}
			t, ok := s.search(func(t int) bool {
				_, tb := garble(t)
				return tb[1].Equal(row(0))
			})
			if !ok {
				break
			}
			s.note(t)
			g.tweaks = []int{t}
			g.recovered = true
			c, _ = garble(t)
			s.query(k2(a.L0, zero, t), i, "H(a0,0,j)", t, gates)
			s.query(k2(a.L1, zero, t), i, "H(a1,0,j)", t, gates)
		}
		if !g.recovered {
			s.unrecovered++
			s.forget(g.cTmp, g.c)
			continue
		}
		s.set(g.cTmp, g.c, c)
		if g.cTmp {
			s.tmpBlk[g.c] = g.block
		}
	}
}

// defOp renders the stream as ONE gate list over ONE wire space (the form the
// streaming theorems of Props/C04.lean speak about: streamGarbleAcc over a
// store of n wires whose first nIn are the session's input wires) together
// with the harness's own verdict whether every gate input is a defined wire.
// The Lean driver answers with wfFrom on the same list (op c04def).
func defOp(gates []sGate, nIn int, undefinedReads int) (op, res string) {
	maxGlob := nIn - 1
	for i := range gates {
		g := &gates[i]
		for _, x := range [][2]any{{g.aTmp, g.a}, {g.bTmp, g.b}, {g.cTmp, g.c}} {
			if !x[0].(bool) && x[1].(int) > maxGlob {
				maxGlob = x[1].(int)
			}
		}
	}
	base := maxGlob + 1
	names := map[[2]int]int{}
	name := func(tmp bool, id, block int) int {
		if !tmp {
			return id
		}
		k := [2]int{block, id}
		n, ok := names[k]
		if !ok {
			n = base + len(names)
			names[k] = n
		}
		return n
	}
	var sb strings.Builder
	for i := range gates {
		g := &gates[i]
		if i > 0 {
			sb.WriteByte(';')
		}
		bb := 0
		if g.op != gINV {
			bb = name(g.bTmp, g.b, g.block)
		}
		fmt.Fprintf(&sb, "%s%d.%d.%d", kindLetter[g.op], name(g.aTmp, g.a, g.block), bb, name(g.cTmp, g.c, g.block))
	}
	if len(gates) == 0 {
		sb.WriteByte('-')
	}
	n := base + len(names)
	return fmt.Sprintf("c04def def %d %d %s", n, nIn, sb.String()),
		fmt.Sprintf("gates=%d wires=%d inputs=%d defined=%v", len(gates), n, nIn, undefinedReads == 0)
}

func idx1(l ot.Label) int {
	if l.S() {
		return 1
	}
	return 0
}

func idx2(a, b ot.Label) int {
	r := 0
	if a.S() {
		r |= 2
	}
	if b.S() {
		r |= 1
	}
	return r
}

// ---------------------------------------------------------------- classes

// adjacency counts, for every gate, the class (its kind, kind of the next
// tweak-consuming gate of the stream, which input wires they share).
func adjacency(gates []sGate, count func(k string)) {
	next := make([]int, len(gates))
	nx := -1
	for i := len(gates) - 1; i >= 0; i-- {
		next[i] = nx
		if gates[i].op >= gAND {
			nx = i
		}
	}
	same := func(g *sGate, tmp1 bool, id1 int, h *sGate, tmp2 bool, id2 int) bool {
		if id1 < 0 || id2 < 0 || tmp1 != tmp2 || id1 != id2 {
			return false
		}
		return !tmp1 || g.block == h.block
	}
	for i := range gates {
		m := next[i]
		if m < 0 {
			continue
		}
		g, h := &gates[i], &gates[m]
		pre := "adj_" + kindLetter[g.op] + "_" + kindLetter[h.op]
		count(pre)
		shared := false
		if same(g, g.aTmp, g.a, h, h.aTmp, h.a) {
			count(pre + "_aa")
			shared = true
		}
		if same(g, g.aTmp, g.a, h, h.bTmp, h.b) {
			count(pre + "_ab")
			shared = true
		}
		if same(g, g.bTmp, g.b, h, h.aTmp, h.a) {
			count(pre + "_ba")
			shared = true
		}
		if same(g, g.bTmp, g.b, h, h.bTmp, h.b) {
			count(pre + "_bb")
			shared = true
		}
		if shared {
			count(pre + "_shared")
			// both permute-bit values of the consuming gate's inputs
			if h.known {
				count(fmt.Sprintf("%s_shared_pa%d", pre, b2i(h.pa)))
				if h.op != gINV {
					count(fmt.Sprintf("%s_shared_pb%d", pre, b2i(h.pb)))
				}
			}
		}
		if g.block != h.block {
			count("adj_across_blocks")
			if shared {
				count("adj_across_blocks_shared")
			}
		}
	}
}

func b2i(b bool) int {
	if b {
		return 1
	}
	return 0
}

// ---------------------------------------------------------------- accounting op

// accOp renders the observed tweaks of a stream as the op line `c04acc` and
// the implementation's result line: the final counter (largest tweak + 1),
// the number of tweaks, a polynomial digest of the whole sequence and its
// first 48 entries.
func accOp(gates []sGate) (op, res string, complete bool) {
	var sb strings.Builder
	var tw []int
	complete = true
	blk := 0
	for i := range gates {
		g := &gates[i]
		if g.block != blk {
			sb.WriteByte('/')
			blk = g.block
		}
		sb.WriteString(kindLetter[g.op])
		if g.op >= gAND {
			if !g.recovered {
				complete = false
			}
			tw = append(tw, g.tweaks...)
		}
	}
	if sb.Len() == 0 {
		sb.WriteByte('-')
	}
	return "c04acc acc 0 " + sb.String(), renderAcc(tw), complete
}

func renderAcc(tw []int) string {
	end := 0
	h := uint64(7)
	for _, t := range tw {
		if t+1 > end {
			end = t + 1
		}
		h = (h*1000003 + uint64(t) + 1) % 1000000007
	}
	var first []string
	for i := 0; i < len(tw) && i < 48; i++ {
		first = append(first, fmt.Sprint(tw[i]))
	}
	f := strings.Join(first, ",")
	if f == "" {
		f = "-"
	}
	return fmt.Sprintf("n=%d end=%d h=%d first=%s", len(tw), end, h, f)
}

// locate names the row (gate, row index) a stream offset belongs to.
func locate(gates []sGate, off int) string {
	for j := range gates {
		g := &gates[j]
		for k, o := range g.rowOff {
			if o == off {
				return fmt.Sprintf("row %d of %s", k, gateName(gates, j))
			}
			if off > o-16 && off < o+16 {
				return fmt.Sprintf("unaligned, overlaps row %d (offset %d) of %s", k, o, gateName(gates, j))
			}
		}
	}
	return "outside the gate records"
}

// c04: the evaluator's view on the real code.
//
// Every session records the COMPLETE garbler->evaluator byte stream behind a
// tee transport and the wire pairs handed to ot.OT.Send.  The garbler's secret
// offset is R = L0 xor L1 of any such pair.  Oracle: slide a 16-byte window
// over EVERY byte offset of the stream; no window may equal R and no two
// windows may XOR to R (hash set, linear time); the OT receiver must have
// obtained exactly one label (the chosen one) per wire.
//
//	whole:  circuit.Garbler / circuit.Evaluator (random circuits)
//	stream: compiler.Stream / circuit.StreamEvaluator (generated MPCL programs)
//	overlap: a garbler process serving overlapping sessions on one shared
//	         circuit value (overlap.go); oracle over the union of all sessions
//	cover:  streaming sessions of programs chosen by instruction-kind coverage,
//	        analysed gate by gate (streamcov.go, shadow.go)
//	direct: circuit.Streaming driven on histories of generated circuits
//	opcat:  the opcodes Program.Stream handles, read from the current source
//	        (opcat.go); cover must reach every one of them
//	probe:  one program from a file, analysed as in mode cover (probe.go)
package main

import (
	"bufio"
	"bytes"
	"crypto/elliptic"
	"crypto/sha256"
	"encoding/binary"
	"fmt"
	"io"
	"math/big"
	"math/bits"
	"os"
	"strings"
	"sync"
	"time"

	"github.com/markkurossi/mpc/circuit"
	"github.com/markkurossi/mpc/compiler"
	"github.com/markkurossi/mpc/compiler/utils"
	"github.com/markkurossi/mpc/env"
	"github.com/markkurossi/mpc/ot"
	"github.com/markkurossi/mpc/p2p"
	"github.com/markkurossi/mpc/sha2pc"

	"verifharness/hxlib"
)

func main() {
	if len(os.Args) < 2 {
		fmt.Fprintln(os.Stderr, "usage: c04 whole|stream [flags]")
		os.Exit(2)
	}
	switch os.Args[1] {
	case "whole":
		os.Exit(whole(os.Args[2:]))
	case "stream":
		os.Exit(stream(os.Args[2:]))
	case "sha2pc":
		os.Exit(sha2pcMode(os.Args[2:]))
	case "range":
		os.Exit(otRange(os.Args[2:]))
	case "overlap":
		os.Exit(overlap(os.Args[2:]))
	case "cover":
		os.Exit(cover(os.Args[2:]))
	case "direct":
		os.Exit(direct(os.Args[2:]))
	case "opcat":
		os.Exit(opcat(os.Args[2:]))
	case "probe":
		os.Exit(probe(os.Args[2:]))
	default:
		fmt.Fprintf(os.Stderr, "unknown mode %q\n", os.Args[1])
		os.Exit(2)
	}
}

type u128 struct{ hi, lo uint64 }

var (
	seenOffsets   = map[u128]string{}
	seenOffsetsMu sync.Mutex
)

// scan slides a 16-byte window over every offset.  Returns offsets of windows
// equal to R and pairs of offsets whose windows XOR to R.
func scan(stream []byte, r u128) (single []int, pairs [][2]int) {
	n := len(stream) - 15
	if n <= 0 {
		return
	}
	seen := make(map[u128]int, n)
	for i := 0; i < n; i++ {
		w := u128{binary.BigEndian.Uint64(stream[i:]), binary.BigEndian.Uint64(stream[i+8:])}
		if w == r {
			single = append(single, i)
		}
		if j, ok := seen[u128{w.hi ^ r.hi, w.lo ^ r.lo}]; ok {
			pairs = append(pairs, [2]int{j, i})
		}
		if _, ok := seen[w]; !ok {
			seen[w] = i
		}
	}
	return
}

func offsetOf(w ot.Wire) u128 {
	return u128{w.L0.D0 ^ w.L1.D0, w.L0.D1 ^ w.L1.D1}
}

func bitsToBig(bits []bool) *big.Int {
	v := new(big.Int)
	for i, b := range bits {
		if b {
			v.SetBit(v, i, 1)
		}
	}
	return v
}

func mkOT(name string, rng *hxlib.Rng) ot.OT {
	switch name {
	case "co":
		return ot.NewCO(rng)
	case "cot":
		return ot.NewCOT(ot.NewCO(rng), rng, false, false)
	case "cotm":
		return ot.NewCOT(ot.NewCO(rng), rng, true, false)
	}
	panic(name)
}

// judge applies the oracle to one finished session.
func judge(o *hxlib.Out, mode string, idx int, desc string, ab []byte, g *hxlib.RecOT, e *hxlib.RecOT) string {
	if len(g.Sent) == 0 || len(g.Sent[0]) == 0 {
		o.Count("no_ot_wires")
		return "no-ot"
	}
	r := offsetOf(g.Sent[0][0])
	for _, batch := range g.Sent {
		for _, w := range batch {
			if offsetOf(w) != r {
				o.Fail("c04-inconsistent-offset", map[string]any{"mode": mode, "case": idx, "desc": desc})
			}
		}
	}
	// The offset must be a fresh random 127-bit value with the select bit set:
	// a constant or low-entropy offset is known to the evaluator without any
	// transmission (every pair L, L xor R is then computable from one label).
	// Hamming weight of 127 uniform bits outside [24, 104] has probability
	// below 2^-38; equal offsets in two sessions below 2^-100.
	if w := bits.OnesCount64(r.hi) + bits.OnesCount64(r.lo); w < 24 || w > 104 {
		o.Fail("c04-offset-not-random", map[string]any{"mode": mode, "case": idx, "desc": desc, "weight": w,
			"offset": fmt.Sprintf("%016x%016x", r.hi, r.lo)})
	}
	if r.hi>>63 != 1 {
		o.Fail("c04-offset-select-bit-clear", map[string]any{"mode": mode, "case": idx, "desc": desc})
	}
	seenOffsetsMu.Lock()
	if prev, dup := seenOffsets[r]; dup && prev != fmt.Sprint(mode, idx) {
		o.Fail("c04-offset-repeated", map[string]any{"mode": mode, "case": idx, "desc": desc, "earlier": prev})
	}
	seenOffsets[r] = fmt.Sprint(mode, idx)
	seenOffsetsMu.Unlock()
	o.Count("offsets_checked_random")
	single, pairs := scan(ab, r)
	o.CountN("window_positions", len(ab)-15)
	if len(single) > 0 {
		o.Fail("c04-offset-transmitted", map[string]any{"mode": mode, "case": idx, "desc": desc, "offsets": single[:minI(len(single), 5)]})
	}
	if len(pairs) > 0 {
		o.Fail("c04-two-values-differ-by-offset", map[string]any{"mode": mode, "case": idx, "desc": desc,
			"pairs": pairs[:minI(len(pairs), 5)], "npairs": len(pairs)})
	}
	// OT: receiver got exactly the chosen label
	if len(e.Got) != len(g.Sent) {
		o.Fail("c04-ot-batches", map[string]any{"mode": mode, "case": idx, "desc": desc})
	} else {
		for b := range e.Got {
			for i := range e.Got[b] {
				want := g.Sent[b][i].L0
				if e.Flags[b][i] {
					want = g.Sent[b][i].L1
				}
				if !e.Got[b][i].Equal(want) {
					o.Fail("c04-ot-wrong-label", map[string]any{"mode": mode, "case": idx, "desc": desc, "wire": i})
				}
			}
		}
	}
	return fmt.Sprintf("single=%d pairs=%d", len(single), len(pairs))
}

func minI(a, b int) int {
	if a < b {
		return a
	}
	return b
}

func whole(args []string) int {
	cf, o := hxlib.ParseCommon("c04", args, nil)
	defer o.Close()
	rng := hxlib.NewRng(cf.Seed)
	mixes := []string{"and", "uniform", "orinv", "xnor"}
	ots := []string{"co", "cot", "cotm"}
	for i := 0; i < cf.N; i++ {
		r := rng.Fork()
		if cf.Only >= 0 && i != cf.Only {
			continue
		}
		c := hxlib.GenCircuit(r, hxlib.GenOpts{MaxGates: 150, MaxIn: 8, Mix: mixes[i%4]})
		wide := i%5 == 4
		if wide {
			// many input wires, so that the garbler draws kilobytes of label
			// randomness
			c = hxlib.GenParityCircuit(r, 260+r.Intn(500), 1+r.Intn(8))
			o.Count("wide_input_sessions")
		}
		n0 := int(c.Inputs[0].Type.Bits)
		n1 := int(c.Inputs[1].Type.Bits)
		xb := randBits(r, n0)
		if wide && r.Intn(2) == 0 {
			for j := range xb {
				xb[j] = true
			}
		}
		x := bitsToBig(xb)
		y := bitsToBig(randBits(r, n1))
		otName := ots[i%3]
		gr, er := r.Fork(), r.Fork()
		g := &hxlib.RecOT{OT: mkOT(otName, gr)}
		e := &hxlib.RecOT{OT: mkOT(otName, er)}
		d := hxlib.NewDuplex(r.Fork())
		var randG io.Reader = gr
		if wide {
			// a legal io.Reader that returns short reads for large requests,
			// as bufio.NewReader(crypto/rand.Reader) or a chunk-limited
			// entropy device does
			randG = bufio.NewReaderSize(gr, 4096)
			o.Count("short_read_random_source")
		}
		res := hxlib.RunSession(c, x, y, g, e, randG, d, 60*time.Second)
		d.Close()
		desc := fmt.Sprintf("ot=%s circuit=%s x=%s y=%s", otName, hxlib.CircLine(c), x.Text(16), y.Text(16))
		verdict := "session-failed"
		if res.Stalled || res.GErr != nil || res.EErr != nil || res.GPanic != nil || res.EPanic != nil {
			o.Fail("c04-session-failed", map[string]any{"mode": "whole", "case": i, "desc": desc,
				"gerr": fmt.Sprint(res.GErr), "eerr": fmt.Sprint(res.EErr)})
		} else {
			verdict = judge(o, "whole", i, desc, d.AB.Rec, g, e)
		}
		o.Op(fmt.Sprintf("whole %d %s", i, desc), verdict)
		o.Count("sessions_whole")
		o.Count("ot_" + otName)
		if i < 2 {
			o.Sample(map[string]any{"mode": "whole", "case": i, "ot": otName, "stream_bytes": len(d.AB.Rec), "verdict": verdict})
		}
	}
	return 0
}

func randBits(r *hxlib.Rng, n int) []bool {
	b := make([]bool, n)
	for i := range b {
		b[i] = r.Bool()
	}
	return b
}

// ---------------------------------------------------------------- streaming

// genProgram builds a small two-party MPCL program.  Several instructions
// use the same operand (the pattern on which a per-instruction tweak restart
// shows).
func genProgram(r *hxlib.Rng) (src string, w int) {
	w = []int{4, 7, 8, 13, 16}[r.Intn(5)]
	ty := fmt.Sprintf("uint%d", w)
	var sb strings.Builder
	fmt.Fprintf(&sb, "package main\n\nfunc main(a, b %s) (%s, %s) {\n", ty, ty, ty)
	vars := []string{"a", "b"}
	n := 2 + r.Intn(4)
	for i := 0; i < n; i++ {
		v := fmt.Sprintf("t%d", i)
		p := vars[r.Intn(len(vars))]
		q := vars[r.Intn(len(vars))]
		switch r.Intn(5) {
		case 0:
			fmt.Fprintf(&sb, "\t%s := %s & %s\n", v, p, q)
		case 1:
			fmt.Fprintf(&sb, "\t%s := %s + %d\n", v, p, 1+r.Intn(5))
		case 2:
			fmt.Fprintf(&sb, "\t%s := %s | %s\n", v, p, q)
		case 3:
			fmt.Fprintf(&sb, "\t%s := %s + %s\n", v, p, q)
		default:
			fmt.Fprintf(&sb, "\t%s := %s * %s\n", v, p, q)
		}
		vars = append(vars, v)
	}
	r1 := vars[len(vars)-1]
	r2 := vars[2+r.Intn(len(vars)-2)]
	fmt.Fprintf(&sb, "\treturn a & %s, a & %s\n}\n", r1, r2)
	return sb.String(), w
}

// genLongProgram builds a loop of several hundred iterations: thousands of
// streamed instructions in which the same long-lived operand meets a fresh
// value again and again (tweak schemes that repeat with a period show here).
func genLongProgram(r *hxlib.Rng) (src string, w int) {
	w = []int{4, 6, 8}[r.Intn(3)]
	ty := fmt.Sprintf("uint%d", w)
	bodies := []string{
		"acc = (a & acc) + b\n\t\tc = c ^ acc",
		"acc = (a & acc) + b",
		"acc = a & (acc + b)\n\t\tc = c | acc",
		"acc = (a & acc) ^ b\n\t\tc = (a & c) + acc",
		"c = a & c\n\t\tacc = acc + c + b",
		"acc = (a & acc) + b\n\t\tc = c ^ acc\n\t\tacc = acc + 1\n\t\tc = c + a",
	}
	body := bodies[r.Intn(len(bodies))]
	n := 520 + r.Intn(700)
	src = fmt.Sprintf("package main\n\nfunc main(a, b %s) %s {\n\tacc := b\n\tc := a\n\tfor i := 0; i < %d; i++ {\n\t\t%s\n\t}\n\treturn acc + c\n}\n",
		ty, ty, n, body)
	return src, w
}

func stream(args []string) int {
	cf, o := hxlib.ParseCommon("c04", args, nil)
	defer o.Close()
	rng := hxlib.NewRng(cf.Seed ^ 0x57)
	for i := 0; i < cf.N; i++ {
		r := rng.Fork()
		if cf.Only >= 0 && i != cf.Only {
			continue
		}
		src, w := genProgram(r)
		if cf.Extra == "long" {
			src, w = genLongProgram(r)
			o.Count("long_programs")
		} else if i == 0 {
			// the design-phase witness
			src, w = "package main\n\nfunc main(a, b uint8) (uint8, uint8) {\n\tc := b + 1\n\treturn a & b, a & c\n}\n", 8
		}
		av := r.U64() & (1<<uint(w) - 1)
		bv := r.U64() & (1<<uint(w) - 1)
		gin := []string{fmt.Sprint(av)}
		ein := []string{fmt.Sprint(bv)}
		gr, er := r.Fork(), r.Fork()
		g := &hxlib.RecOT{OT: mkOT("co", gr)}
		e := &hxlib.RecOT{OT: mkOT("co", er)}
		d := hxlib.NewDuplex(r.Fork())
		cg := p2p.NewConn(d.A)
		ce := p2p.NewConn(d.B)
		var gerr, eerr error
		var gres, eres []*big.Int
		gdone := make(chan struct{})
		edone := make(chan struct{})
		go func() {
			defer close(gdone)
			defer func() {
				if p := recover(); p != nil {
					gerr = fmt.Errorf("panic: %v", p)
					d.Close()
				}
			}()
			params := utils.NewParams()
			params.Config = &env.Config{Rand: gr}
			esizes, err := cg.ReceiveInputSizes()
			if err != nil {
				gerr = err
				return
			}
			gsizes, err := circuit.InputSizes(gin)
			if err != nil {
				gerr = err
				return
			}
			_, gres, gerr = compiler.New(params).Stream(cg, g, "prog.mpcl", strings.NewReader(src), gin,
				[][]int{gsizes, esizes})
			if gerr != nil {
				d.Close()
			}
		}()
		go func() {
			defer close(edone)
			defer func() {
				if p := recover(); p != nil {
					eerr = fmt.Errorf("panic: %v", p)
					d.Close()
				}
			}()
			sizes, err := circuit.InputSizes(ein)
			if err != nil {
				eerr = err
				return
			}
			if err := ce.SendInputSizes(sizes); err != nil {
				eerr = err
				return
			}
			if err := ce.Flush(); err != nil {
				eerr = err
				return
			}
			_, eres, eerr = circuit.StreamEvaluator(ce, e, ein, nil, false)
			if eerr != nil {
				d.Close()
			}
		}()
		stalled := false
		timer := time.After(60 * time.Second)
		for k := 0; k < 2; k++ {
			select {
			case <-gdone:
				gdone = nil
			case <-edone:
				edone = nil
			case <-timer:
				stalled = true
				k = 2
			}
		}
		d.Close()
		desc := fmt.Sprintf("a=%d b=%d src=%q", av, bv, src)
		verdict := "session-failed"
		if stalled || gerr != nil || eerr != nil {
			o.Fail("c04-session-failed", map[string]any{"mode": "stream", "case": i, "desc": desc,
				"gerr": fmt.Sprint(gerr), "eerr": fmt.Sprint(eerr), "stalled": stalled})
		} else {
			verdict = judge(o, "stream", i, desc, d.AB.Rec, g, e)
			if hxlib.BigsString(gres) != hxlib.BigsString(eres) {
				o.Fail("c04-stream-results-differ", map[string]any{"mode": "stream", "case": i, "desc": desc})
			}
		}
		o.Op(fmt.Sprintf("stream %d %s", i, desc), verdict)
		o.Count("sessions_stream")
		if i < 2 {
			o.Sample(map[string]any{"mode": "stream", "case": i, "src": src, "stream_bytes": len(d.AB.Rec), "verdict": verdict})
		}
	}
	return 0
}

// ---------------------------------------------------------------- sha2pc

// sha2pcMode runs the four-round SHA256(XOR) protocol; the garbler->evaluator
// transcript is the encoding of rounds 1 and 3.  The offset is taken from the
// garbler's own wire table as it appears in the round-3 payload struct.
func sha2pcMode(args []string) int {
	cf, o := hxlib.ParseCommon("c04", args, nil)
	defer o.Close()
	rng := hxlib.NewRng(cf.Seed ^ 0x5a2)
	curves := []elliptic.Curve{elliptic.P256(), elliptic.P224(), elliptic.P384(), elliptic.P521()}
	for i := 0; i < cf.N; i++ {
		r := rng.Fork()
		curve := curves[i%len(curves)]
		var a, b [sha256.Size]byte
		r.Read(a[:])
		r.Read(b[:])
		desc := fmt.Sprintf("curve=%s a=%x b=%x", curve.Params().Name, a, b)
		verdict := "session-failed"
		func() {
			defer func() {
				if p := recover(); p != nil {
					o.Fail("c04-session-failed", map[string]any{"mode": "sha2pc", "case": i, "desc": desc, "panic": fmt.Sprint(p)})
				}
			}()
			m1, gs, err := sha2pc.GarblerRound1(r, curve)
			if err != nil {
				panic(err)
			}
			m2, es, err := sha2pc.EvaluatorRound2(r, curve, m1, b)
			if err != nil {
				panic(err)
			}
			m3, err := sha2pc.GarblerRound3(r, curve, gs, a, m2)
			if err != nil {
				panic(err)
			}
			digest, err := sha2pc.EvaluatorRound4(curve, es, m3)
			if err != nil {
				panic(err)
			}
			var x [sha256.Size]byte
			for k := range x {
				x[k] = a[k] ^ b[k]
			}
			if digest != sha256.Sum256(x[:]) {
				o.Fail("c04-sha2pc-wrong-digest", map[string]any{"case": i, "desc": desc})
			}
			e1, err := sha2pc.EncodeRound1(curve, m1)
			if err != nil {
				panic(err)
			}
			e3, err := sha2pc.EncodeRound3(m3)
			if err != nil {
				panic(err)
			}
			stream := append(append([]byte(nil), e1...), e3...)
			if len(m3.OutputHints) == 0 {
				// no wire pair visible to the harness: the offset cannot be
				// computed from the payload (this is the repaired situation)
				verdict = "no-pairs-in-payload"
				o.Count("sha2pc_no_hints")
				return
			}
			rr := offsetOf(m3.OutputHints[0])
			single, pairs := scan(stream, rr)
			o.CountN("window_positions", len(stream)-15)
			if len(single) > 0 {
				o.Fail("c04-offset-transmitted", map[string]any{"mode": "sha2pc", "case": i, "desc": desc})
			}
			// classify the pairs: inside the OutputHints region, (L0,L1) of one wire
			var d ot.LabelData
			m3.OutputHints[0].L0.GetData(&d)
			start := bytes.Index(stream, d[:])
			hints, other := 0, 0
			for _, p := range pairs {
				if start >= 0 && p[0] >= start && p[1] == p[0]+16 && (p[0]-start)%32 == 0 && p[0] < start+32*len(m3.OutputHints) {
					hints++
				} else {
					other++
				}
			}
			verdict = fmt.Sprintf("single=%d hints_pairs=%d other_pairs=%d", len(single), hints, other)
			if hints > 0 {
				o.Fail("c04-two-values-differ-by-offset", map[string]any{"mode": "sha2pc", "cause": "output-hints",
					"case": i, "desc": desc, "npairs": hints})
			}
			if other > 0 {
				o.Fail("c04-two-values-differ-by-offset", map[string]any{"mode": "sha2pc", "cause": "other",
					"case": i, "desc": desc, "npairs": other})
			}
		}()
		o.Op(fmt.Sprintf("sha2pc %d %s", i, desc), verdict)
		o.Count("sessions_sha2pc")
		if i < 1 {
			o.Sample(map[string]any{"mode": "sha2pc", "case": i, "desc": desc, "verdict": verdict})
		}
	}
	return 0
}

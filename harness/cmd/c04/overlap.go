package main

// Mode `overlap`: a garbler PROCESS that serves 2..4 sessions on ONE shared
// *circuit.Circuit with the real circuit.Garbler / circuit.Evaluator, the
// sessions overlapping in every way an evaluator can make them overlap.
//
// The property's quantifier is "every execution ... the data the garbler
// transmits": a garbler process serving several sessions on one circuit value is
// one execution, and what it transmits is the union of what its sessions
// transmit.  The garbling scratch of all those sessions comes from the pool of
// the one circuit value (Circuit.Garble), so whether a session's OT and result
// loop still read the session's OWN wire pairs depends on what the other
// sessions do in between.
//
// Schedule class: each evaluator stalls at a seeded subset of protocol points
// (before the OT is initialised, before the OT request, before the k-th message
// of the OT receiver, before it evaluates and returns the output labels), for
// as long as the scheduler wants; while it stalls other sessions start, run and
// end.  The scheduler is sequential: one action (start a session / let a
// stalled evaluator continue) at a time, and the next action is taken only when
// the session has become quiescent (evaluator at a stall point or done, its
// writer drained, garbler blocked on an empty link or done), so a schedule is a
// deterministic function of the seed.  Some sessions are given an entropy
// source that runs short inside Circuit.Garble (the error paths put the scratch
// back into the pool: the one way the unchanged code re-uses a scratch).
//
// Secrets: each garbler's random tape is recorded; the harness re-garbles a
// private copy of the circuit from the tape and so knows R and both labels of
// EVERY wire of every session, independently of the memory the sessions share.
// Obtained: every 16-byte window at every byte offset of every garbler->
// evaluator stream, and every label an evaluator got out of its OT.
//
// Oracle, over the UNION of everything obtained in all sessions of the process:
// no value equals a session's R; no two values differ by a session's R; no two
// values are the two labels of one wire of any session; each OT delivered
// exactly the chosen labels of the session's own evaluator-input wires.
//
// Each case is also an op line for the Lean model of the process
// (Model/GarblerProc.lean, executed on the observed event order): whose
// garbling every OT served, and whether the result loop decoded.

import (
	"bytes"
	"fmt"
	"math/big"
	"runtime"
	"runtime/debug"
	"sort"
	"strings"
	"sync"
	"time"

	"github.com/markkurossi/mpc/circuit"
	"github.com/markkurossi/mpc/env"
	"github.com/markkurossi/mpc/ot"
	"github.com/markkurossi/mpc/p2p"

	"verifharness/hxlib"
)

// ---------------------------------------------------------------- transport

// oLink is one direction of an in-memory pipe with an unbounded buffer.  It
// records everything written and knows whether its reader is blocked on an
// empty buffer.
type oLink struct {
	mu      sync.Mutex
	cond    *sync.Cond
	buf     []byte
	closed  bool
	rec     []byte
	written int64
	waiting bool
}

func newOLink() *oLink {
	l := &oLink{}
	l.cond = sync.NewCond(&l.mu)
	return l
}

func (l *oLink) Write(p []byte) (int, error) {
	l.mu.Lock()
	defer l.mu.Unlock()
	if l.closed {
		return 0, fmt.Errorf("link closed")
	}
	l.rec = append(l.rec, p...)
	l.buf = append(l.buf, p...)
	l.written += int64(len(p))
	l.cond.Broadcast()
	return len(p), nil
}

func (l *oLink) Read(p []byte) (int, error) {
	l.mu.Lock()
	defer l.mu.Unlock()
	for len(l.buf) == 0 {
		if l.closed {
			l.waiting = false
			return 0, fmt.Errorf("EOF")
		}
		l.waiting = true
		l.cond.Wait()
	}
	l.waiting = false
	n := copy(p, l.buf)
	l.buf = l.buf[n:]
	return n, nil
}

func (l *oLink) Close() {
	l.mu.Lock()
	l.closed = true
	l.cond.Broadcast()
	l.mu.Unlock()
}

// readerBlocked: the reader sits in Read on an empty, open link; nothing is in
// flight towards it on this link.
func (l *oLink) readerBlocked() (blocked bool, written int64) {
	l.mu.Lock()
	defer l.mu.Unlock()
	return l.waiting && len(l.buf) == 0, l.written
}

type oEnd struct{ r, w *oLink }

func (e *oEnd) Read(p []byte) (int, error)  { return e.r.Read(p) }
func (e *oEnd) Write(p []byte) (int, error) { return e.w.Write(p) }

// ---------------------------------------------------------------- stall points

// gate makes the evaluator goroutine wait at the stall points chosen for its
// session until the scheduler lets it continue.
type gate struct {
	mu     sync.Mutex
	points map[string]bool
	at     string
	ch     chan struct{}
	open   bool // set when the case is torn down: nothing stalls any more
	passed []string
}

func (g *gate) stall(point string) {
	g.mu.Lock()
	if g.open || !g.points[point] {
		g.mu.Unlock()
		return
	}
	ch := make(chan struct{})
	g.at, g.ch = point, ch
	g.mu.Unlock()
	<-ch
}

func (g *gate) where() string {
	g.mu.Lock()
	defer g.mu.Unlock()
	return g.at
}

func (g *gate) resume() {
	g.mu.Lock()
	ch := g.ch
	if g.at != "" {
		g.passed = append(g.passed, g.at)
	}
	g.at, g.ch = "", nil
	g.mu.Unlock()
	if ch != nil {
		close(ch)
	}
}

func (g *gate) tearDown() {
	g.mu.Lock()
	g.open = true
	g.mu.Unlock()
	g.resume()
}

// stallIO is the connection as the evaluator's OT sees it: every Flush of the
// OT receiver is a stall point ("between OT chunks").
type stallIO struct {
	ot.IO
	g *gate
	k int
}

func (s *stallIO) Flush() error {
	s.k++
	s.g.stall(fmt.Sprintf("flush%d", s.k))
	return s.IO.Flush()
}

// stallOT is the evaluator's OT: the real OT behind the recording wrapper, with
// the stall points around and inside it.
type stallOT struct {
	*hxlib.RecOT
	g *gate
}

func (s *stallOT) InitReceiver(io ot.IO) error {
	s.g.stall("init")
	err := s.RecOT.OT.InitReceiver(&stallIO{IO: io, g: s.g})
	if err == nil {
		s.g.stall("req")
	}
	return err
}

func (s *stallOT) Receive(flags []bool, result []ot.Label) error {
	err := s.RecOT.Receive(flags, result)
	if err == nil {
		s.g.stall("out")
	}
	return err
}

// ---------------------------------------------------------------- garbler side

// recTape is the garbler's entropy source: seeded, recorded, and (for the
// sessions that are to fail inside Circuit.Garble) limited.
type recTape struct {
	src   *hxlib.Rng
	log   []byte
	limit int // -1: unlimited
}

func (t *recTape) Read(p []byte) (int, error) {
	if t.limit >= 0 && len(t.log)+len(p) > t.limit {
		return 0, fmt.Errorf("entropy source failed")
	}
	t.src.Read(p)
	t.log = append(t.log, p...)
	return len(p), nil
}

// sendOT is the garbler's OT: logs when circuit.Garbler hands its wires to the
// OT and when that call returns, and keeps a copy of what it handed over.
type sendOT struct {
	ot.OT
	c        *ovCase
	s        *ovSession
	sent     [][]ot.Wire
	returned bool
}

func (o *sendOT) Send(wires []ot.Wire) error {
	o.c.event(fmt.Sprintf("Ob%d", o.s.id))
	o.sent = append(o.sent, append([]ot.Wire(nil), wires...))
	err := o.OT.Send(wires)
	o.c.event(fmt.Sprintf("Oe%d", o.s.id))
	if err == nil {
		o.returned = true
	}
	return err
}

// ---------------------------------------------------------------- sessions

type ovSession struct {
	id      int
	xb, yb  []bool
	ymode   string
	otName  string
	stalls  []string
	failAt  int // -1, or the tape limit
	tape    *recTape
	ab, ba  *oLink
	ce      *p2p.Conn
	gt      *gate
	gOT     *sendOT
	eOT     *hxlib.RecOT
	started bool

	mu           sync.Mutex
	gDone, eDone bool
	gRes, eRes   []*big.Int
	gErr, eErr   error
}

type ovCase struct {
	circ   *circuit.Circuit
	sess   []*ovSession
	mu     sync.Mutex
	events []string
	acts   []string
}

func (c *ovCase) event(e string) {
	c.mu.Lock()
	c.events = append(c.events, e)
	c.mu.Unlock()
}

func mkOverlapOT(name string, rng *hxlib.Rng, ideal *hxlib.IdealOT) ot.OT {
	if name == "ideal" {
		return ideal
	}
	return mkOT(name, rng)
}

func (c *ovCase) start(s *ovSession, r *hxlib.Rng) {
	s.started = true
	s.ab, s.ba = newOLink(), newOLink()
	cg := p2p.NewConn(&oEnd{r: s.ba, w: s.ab})
	s.ce = p2p.NewConn(&oEnd{r: s.ab, w: s.ba})
	var ideal *hxlib.IdealOT
	if s.otName == "ideal" {
		ideal = hxlib.NewIdealOT()
	}
	s.gOT = &sendOT{OT: mkOverlapOT(s.otName, r.Fork(), ideal), c: c, s: s}
	s.eOT = &hxlib.RecOT{OT: mkOverlapOT(s.otName, r.Fork(), ideal)}
	s.tape = &recTape{src: r.Fork(), limit: s.failAt}
	if s.failAt >= 0 {
		k := 0
		if s.failAt >= 32+16+16 {
			k = 1
		}
		c.event(fmt.Sprintf("F%d.%d", s.id, k))
	} else {
		c.event(fmt.Sprintf("S%d", s.id))
	}
	closeBoth := func() {
		s.ab.Close()
		s.ba.Close()
	}
	go func() {
		var res []*big.Int
		var err error
		func() {
			defer func() {
				if p := recover(); p != nil {
					err = fmt.Errorf("panic: %v", p)
				}
			}()
			res, err = circuit.Garbler(&env.Config{Rand: s.tape}, cg, s.gOT, c.circ, bitsToBig(s.xb), false)
		}()
		if s.gOT.returned {
			c.event(fmt.Sprintf("D%d", s.id))
		}
		if err != nil {
			closeBoth()
		}
		s.mu.Lock()
		s.gRes, s.gErr, s.gDone = res, err, true
		s.mu.Unlock()
	}()
	go func() {
		var res []*big.Int
		var err error
		func() {
			defer func() {
				if p := recover(); p != nil {
					err = fmt.Errorf("panic: %v", p)
				}
			}()
			res, err = circuit.Evaluator(s.ce, &stallOT{RecOT: s.eOT, g: s.gt}, c.circ, bitsToBig(s.yb), false)
		}()
		if err != nil {
			closeBoth()
		}
		s.mu.Lock()
		s.eRes, s.eErr, s.eDone = res, err, true
		s.mu.Unlock()
	}()
}

// quiescent: nothing of session s can move until the scheduler acts.
func (s *ovSession) quiescent() bool {
	s.mu.Lock()
	gDone, eDone := s.gDone, s.eDone
	s.mu.Unlock()
	gBlocked, baWritten := s.ba.readerBlocked()
	if !gDone && !gBlocked {
		return false
	}
	if eDone {
		return true
	}
	// the evaluator waits at a stall point and its connection's writer has
	// delivered everything it was given
	return s.gt.where() != "" && baWritten == int64(s.ce.Stats.Sent.Load())
}

func (s *ovSession) done() bool {
	s.mu.Lock()
	defer s.mu.Unlock()
	return s.gDone && s.eDone
}

func (s *ovSession) await(d time.Duration) bool {
	deadline := time.Now().Add(d)
	for i := 0; ; i++ {
		if s.quiescent() {
			return true
		}
		if time.Now().After(deadline) {
			return false
		}
		if i < 50 {
			runtime.Gosched()
		} else {
			time.Sleep(20 * time.Microsecond)
		}
	}
}

// ---------------------------------------------------------------- the mode

var stallPoints = []string{"init", "req", "flush1", "flush2", "flush3", "out"}

func overlap(args []string) int {
	cf, o := hxlib.ParseCommon("c04", args, nil)
	defer o.Close()
	// One P: a Put into the circuit's sync.Pool and the next Get meet in the
	// same per-P slot, and the order in which goroutines run is the order the
	// scheduler below imposes.  No collection inside a case (a collection
	// empties sync.Pool caches at its own time); one between cases.
	runtime.GOMAXPROCS(1)
	debug.SetGCPercent(-1)
	rng := hxlib.NewRng(cf.Seed ^ 0x0e7a)
	mixes := []string{"and", "uniform", "orinv", "xnor"}
	for i := 0; i < cf.N; i++ {
		r := rng.Fork()
		if cf.Only >= 0 && i != cf.Only {
			continue
		}
		overlapCase(o, cf, i, r, mixes[i%4])
		runtime.GC()
	}
	return 0
}

func overlapCase(o *hxlib.Out, cf *hxlib.CommonFlags, idx int, r *hxlib.Rng, mix string) {
	cseed := r.U64()
	gen := func() *circuit.Circuit {
		return hxlib.GenCircuit(hxlib.NewRng(cseed), hxlib.GenOpts{MaxGates: 60, MaxIn: 8, Mix: mix})
	}
	c := &ovCase{circ: gen()} // the ONE circuit value all sessions of this process share
	private := gen()          // same circuit, another value: the harness's own re-garbling
	n0 := int(c.circ.Inputs[0].Type.Bits)
	n1 := int(c.circ.Inputs[1].Type.Bits)
	nout := c.circ.Outputs.Size()
	K := 2 + r.Intn(3)
	policy := []string{"inner-first", "lifo", "fifo", "random"}[r.Intn(4)]
	for s := 0; s < K; s++ {
		ss := &ovSession{id: s, failAt: -1}
		ss.xb = randBits(r, n0)
		ss.ymode = []string{"zeros", "ones", "mixed", "complement"}[r.Intn(4)]
		ss.yb = make([]bool, n1)
		switch ss.ymode {
		case "ones":
			for j := range ss.yb {
				ss.yb[j] = true
			}
		case "mixed":
			ss.yb = randBits(r, n1)
		case "complement":
			if s > 0 {
				for j := range ss.yb {
					ss.yb[j] = !c.sess[s-1].yb[j]
				}
			} else {
				ss.yb = randBits(r, n1)
			}
		}
		ss.otName = []string{"co", "co", "ideal", "cot"}[r.Intn(4)]
		pts := map[string]bool{}
		for k := r.Intn(3); k > 0; k-- {
			pts[stallPoints[r.Intn(len(stallPoints))]] = true
		}
		if s == 0 && len(pts) == 0 && r.Intn(4) != 0 {
			pts[stallPoints[r.Intn(len(stallPoints))]] = true
		}
		for p := range pts {
			ss.stalls = append(ss.stalls, p)
		}
		sort.Strings(ss.stalls)
		ss.gt = &gate{points: pts}
		if r.Intn(6) == 0 {
			// the entropy source runs short inside Circuit.Garble: in R, or in
			// the label of input wire m
			m := r.Intn(n0 + n1 + 1)
			ss.failAt = 32 + 16*m + r.Intn(16)
			ss.gt.points = map[string]bool{}
			ss.stalls = nil
		}
		c.sess = append(c.sess, ss)
	}

	// ---- run the schedule
	stalled := false
	act := func(kind string, s *ovSession) {
		c.acts = append(c.acts, fmt.Sprintf("%s%d", kind, s.id))
		if kind == "start" {
			c.start(s, r.Fork())
		} else {
			c.acts[len(c.acts)-1] += "@" + s.gt.where()
			s.gt.resume()
		}
		if !s.await(30 * time.Second) {
			stalled = true
		}
	}
	next := 0
	overlapped := false
	for steps := 0; steps < 200 && !stalled; steps++ {
		var waiting []*ovSession
		for _, s := range c.sess[:next] {
			if !s.done() {
				waiting = append(waiting, s)
			}
		}
		canStart := next < K
		if !canStart && len(waiting) == 0 {
			break
		}
		if canStart && len(waiting) > 0 {
			overlapped = true
		}
		pickStart := false
		var pick *ovSession
		switch policy {
		case "inner-first":
			// the first session stalls; every other session is started and run
			// to its end inside the gap; then the first one continues
			if len(waiting) > 0 && waiting[len(waiting)-1].id != 0 {
				pick = waiting[len(waiting)-1]
			} else if canStart {
				pickStart = true
			} else {
				pick = waiting[0]
			}
		case "lifo":
			if canStart {
				pickStart = true
			} else {
				pick = waiting[len(waiting)-1]
			}
		case "fifo":
			if canStart {
				pickStart = true
			} else {
				pick = waiting[steps%len(waiting)]
			}
		default:
			if canStart && (len(waiting) == 0 || r.Intn(2) == 0) {
				pickStart = true
			} else {
				pick = waiting[r.Intn(len(waiting))]
			}
		}
		if pickStart {
			act("start", c.sess[next])
			next++
		} else {
			act("resume", pick)
		}
	}
	for _, s := range c.sess {
		if s.started && !s.done() {
			stalled = true
		}
	}
	// tear down whatever is left
	for _, s := range c.sess {
		if s.started {
			s.gt.tearDown()
			if stalled {
				s.ab.Close()
				s.ba.Close()
			}
		}
	}
	if stalled {
		time.Sleep(50 * time.Millisecond)
	}

	// ---- describe the case
	var sd []string
	for _, s := range c.sess {
		f := ""
		if s.failAt >= 0 {
			f = fmt.Sprintf(" tape-fails-at=%d", s.failAt)
		}
		sd = append(sd, fmt.Sprintf("s%d{ot=%s x=%s y=%s(%s) stalls=%s%s}", s.id, s.otName, hxlib.BitsString(s.xb),
			hxlib.BitsString(s.yb), s.ymode, strings.Join(s.stalls, "+"), f))
	}
	desc := map[string]any{
		"mode": "overlap", "case": idx, "policy": policy, "circuit": hxlib.CircLine(c.circ),
		"sessions": strings.Join(sd, " "), "schedule": strings.Join(c.acts, " "), "events": strings.Join(c.events, " "),
		"rerun": fmt.Sprintf("c04 overlap -seed %d -n %d -only %d", cf.Seed, cf.N, idx),
	}
	with := func(kv ...any) map[string]any {
		m := map[string]any{}
		for k, v := range desc {
			m[k] = v
		}
		for j := 0; j+1 < len(kv); j += 2 {
			m[kv[j].(string)] = kv[j+1]
		}
		return m
	}
	op := "c04proc 0 " + strings.Join(c.events, " ")
	if stalled {
		o.Fail("c04-overlap-stalled", desc)
		o.Op(op, "stalled")
		return
	}

	// ---- secrets: re-garble a private copy of the circuit from each tape
	type truth struct {
		r     u128
		wires []ot.Wire
	}
	truths := map[int]*truth{}
	type owner struct {
		s, w int
		b    bool
	}
	labelOf := map[u128][]owner{}
	key := func(l ot.Label) u128 { return u128{l.D0, l.D1} }
	for _, s := range c.sess {
		if s.failAt >= 0 || len(s.tape.log) < 48 {
			continue
		}
		g, err := private.Garble(bytes.NewReader(s.tape.log[32:]), s.tape.log[:32])
		if err != nil {
			o.Fail("c04-overlap-harness", with("what", "re-garbling from the recorded tape failed: "+err.Error()))
			continue
		}
		t := &truth{r: key(g.R), wires: append([]ot.Wire(nil), g.Wires...)}
		truths[s.id] = t
		for w, p := range t.wires {
			labelOf[key(p.L0)] = append(labelOf[key(p.L0)], owner{s.id, w, false})
			labelOf[key(p.L1)] = append(labelOf[key(p.L1)], owner{s.id, w, true})
		}
		// the tape reconstruction is sound: what circuit.Garbler handed to the
		// OT at the time of the call are the re-garbled pairs
		if len(s.gOT.sent) == 1 && len(s.gOT.sent[0]) == n1 {
			same := true
			for j, p := range s.gOT.sent[0] {
				if p != t.wires[n0+j] {
					same = false
				}
			}
			if same {
				o.Count("truth_equals_wires_handed_to_ot")
			} else {
				o.Count("truth_differs_from_wires_handed_to_ot")
			}
		}
	}

	// ---- everything obtained, over the whole process
	type src struct {
		s    int
		what string
	}
	obtained := map[u128]src{}
	positions := 0
	for _, s := range c.sess {
		if !s.started {
			continue
		}
		stream := s.ab.rec
		for off := 0; off+16 <= len(stream); off++ {
			v := u128{be64(stream[off:]), be64(stream[off+8:])}
			if _, ok := obtained[v]; !ok {
				obtained[v] = src{s.id, fmt.Sprintf("stream@%d", off)}
			}
			positions++
		}
		for b, batch := range s.eOT.Got {
			for j, l := range batch {
				if _, ok := obtained[key(l)]; !ok {
					obtained[key(l)] = src{s.id, fmt.Sprintf("ot#%d.%d", b, j)}
				}
			}
		}
	}
	o.CountN("window_positions", positions)
	o.CountN("values_obtained", len(obtained))
	ids := make([]int, 0, len(truths))
	for id := range truths {
		ids = append(ids, id)
	}
	sort.Ints(ids)
	for _, id := range ids {
		t := truths[id]
		var both []string
		for w, p := range t.wires {
			a, okA := obtained[key(p.L0)]
			b, okB := obtained[key(p.L1)]
			if okA && okB && len(both) < 6 {
				both = append(both, fmt.Sprintf("wire %d of session %d: L0 obtained by evaluator %d (%s), L1 by evaluator %d (%s)",
					w, id, a.s, a.what, b.s, b.what))
			}
		}
		if len(both) > 0 {
			o.Fail("c04-both-labels-of-a-wire-obtained", with("of_session", id, "wires", both,
				"offset", fmt.Sprintf("%016x%016x", t.r.hi, t.r.lo)))
		}
		if at, ok := obtained[t.r]; ok {
			o.Fail("c04-offset-transmitted", with("of_session", id, "to_evaluator", at.s, "at", at.what))
		}
		npairs := 0
		var first string
		for v, a := range obtained {
			if b, ok := obtained[u128{v.hi ^ t.r.hi, v.lo ^ t.r.lo}]; ok {
				npairs++
				if first == "" || a.what+b.what < first {
					first = fmt.Sprintf("evaluator %d %s / evaluator %d %s", a.s, a.what, b.s, b.what)
				}
			}
		}
		if npairs > 0 {
			o.Fail("c04-two-values-differ-by-offset", with("of_session", id, "npairs", npairs/2, "example", first))
		}
		o.Count("offsets_checked_against_union")
	}

	// ---- per session: what the OT delivered, and the results
	var ots, decs []string
	for _, s := range c.sess {
		if !s.started || s.failAt >= 0 {
			if s.failAt >= 0 {
				o.Count("sessions_garble_failed")
				if s.gErr == nil {
					o.Fail("c04-overlap-harness", with("what", fmt.Sprintf("session %d: the limited tape did not make Garble fail", s.id)))
				}
			}
			continue
		}
		o.Count("sessions_overlap")
		o.Count("ot_" + s.otName)
		o.Count("ychoice_" + s.ymode)
		for _, p := range s.gt.passed {
			o.Count("stalled_at_" + p)
		}
		otCalled := false
		for _, e := range c.events {
			if e == fmt.Sprintf("Oe%d", s.id) {
				otCalled = true
			}
		}
		if otCalled {
			served := "err"
			if len(s.eOT.Got) == 1 && len(s.eOT.Got[0]) == n1 {
				from := map[int]int{}
				own := 0
				for j, l := range s.eOT.Got[0] {
					hit := false
					for _, ow := range labelOf[key(l)] {
						if ow.w == n0+j && ow.b == s.yb[j] {
							from[ow.s]++
							hit = true
							if ow.s == s.id {
								own++
							}
							break
						}
					}
					if !hit {
						from[-1]++
					}
				}
				if own == n1 {
					served = fmt.Sprint(s.id)
				} else {
					served = "mixed"
					for t, k := range from {
						if k == n1 && t >= 0 {
							served = fmt.Sprint(t)
						}
					}
					o.Fail("c04-ot-delivers-foreign-labels", with("session", s.id, "served_from_session", served,
						"own_labels", own, "of", n1))
				}
			}
			ots = append(ots, fmt.Sprintf("%d:%s", s.id, served))
		}
		decoded := false
		for _, e := range c.events {
			if e == fmt.Sprintf("D%d", s.id) {
				decoded = true
			}
		}
		// expected plain result
		in := append(append([]bool(nil), s.xb...), s.yb...)
		wv := hxlib.RefEval(c.circ, in)
		want := bitsToBig(wv[c.circ.NumWires-nout:])
		ok := s.gErr == nil && s.eErr == nil && len(s.gRes) == 1 && len(s.eRes) == 1 &&
			s.gRes[0].Cmp(want) == 0 && s.eRes[0].Cmp(want) == 0
		if decoded {
			if ok {
				decs = append(decs, fmt.Sprintf("%d:ok", s.id))
			} else {
				decs = append(decs, fmt.Sprintf("%d:err", s.id))
			}
		}
		if !ok {
			o.Fail("c04-overlap-session-failed", with("session", s.id, "gerr", fmt.Sprint(s.gErr), "eerr", fmt.Sprint(s.eErr),
				"gres", hxlib.BigsString(s.gRes), "eres", hxlib.BigsString(s.eRes), "want", want.Text(16)))
		}
	}
	if overlapped {
		o.Count("cases_with_overlapping_sessions")
	}
	o.Count("policy_" + policy)
	o.Count(fmt.Sprintf("sessions_per_process_%d", K))
	res := "ot=-"
	if len(ots) > 0 {
		res = "ot=" + strings.Join(ots, ",")
	}
	if len(decs) > 0 {
		res += " dec=" + strings.Join(decs, ",")
	} else {
		res += " dec=-"
	}
	o.Op(op, res)
	if idx < 2 {
		o.Sample(with("result", res))
	}
}

func be64(b []byte) uint64 {
	return uint64(b[0])<<56 | uint64(b[1])<<48 | uint64(b[2])<<40 | uint64(b[3])<<32 |
		uint64(b[4])<<24 | uint64(b[5])<<16 | uint64(b[6])<<8 | uint64(b[7])
}

package main

// Mode cover: operand SHAPES and the instruction kinds beyond the arithmetic /
// comparison operators.
//
// The streaming garbler builds the wire-id lists of every instruction circuit
// from the operands' wires (Program.Stream: the operand loop pads / extends an
// operand whose wires are not as many as its type says; the arms of the opcode
// switch pad again where an instruction has widths of its own: mov / smov,
// slice, amov, shifts, and `circ`, where the widths are those the native
// circuit file declares).  Which wires a gate of the stream reads therefore
// depends on the SHAPE of the operands: a constant narrower than, as wide as or
// wider than the other operand, a constant on either side, constant-only
// operands, one operand twice.  Every binary operator is generated in all of
// them (operandShapes); the other instruction kinds of the SSA instruction set
// (casts, logical operators, array slices and element assignment, the bit-test
// peephole forms, builtins) have kinds of their own below, and native(...)
// circuit calls are generated from the catalogue of circuit files found under
// $MPCLDIR/pkg (nativeCatalogue, -extra native) with run-time and constant
// arguments in every position.

import (
	"fmt"
	"math/big"
	"os"
	"path/filepath"
	"sort"
	"strings"

	"github.com/markkurossi/mpc/circuit"
	"github.com/markkurossi/mpc/types"

	"verifharness/hxlib"
)

// ---------------------------------------------------------------- operand shapes

type operandShape struct {
	name string
	// variant of the program the shape is generated in: 1 with the other
	// shapes; 2, 3 on its own (the compiler may refuse the constant)
	variant  int
	operands func(r *hxlib.Rng, w int, signed bool, op string) (x, y string)
}

func tyName(w int, signed bool) string {
	if signed {
		return fmt.Sprintf("int%d", w)
	}
	return fmt.Sprintf("uint%d", w)
}

// fullConst is a constant with exactly `bits` significant bits.
func fullConst(r *hxlib.Rng, bits int) string {
	if bits < 1 {
		return "1"
	}
	v := new(big.Int).Lsh(big.NewInt(1), uint(bits-1))
	v.Or(v, new(big.Int).And(randPattern(r, bits), new(big.Int).Sub(v, big.NewInt(1))))
	return v.String()
}

func runtimeOperand(r *hxlib.Rng) string { return []string{"a", "b"}[r.Intn(2)] }

var operandShapes = []operandShape{
	{name: "value_narrowconst", operands: func(r *hxlib.Rng, w int, signed bool, op string) (string, string) {
		return runtimeOperand(r), fmt.Sprint(smallConst(r, w))
	}},
	{name: "narrowconst_value", operands: func(r *hxlib.Rng, w int, signed bool, op string) (string, string) {
		return fmt.Sprint(smallConst(r, w)), runtimeOperand(r)
	}},
	{name: "value_fullconst", operands: func(r *hxlib.Rng, w int, signed bool, op string) (string, string) {
		// the widest constant every integer type of this width holds
		return runtimeOperand(r), fullConst(r, w-1)
	}},
	{name: "value_typedconst", operands: func(r *hxlib.Rng, w int, signed bool, op string) (string, string) {
		return runtimeOperand(r), fmt.Sprintf("%s(%d)", tyName(w, signed), smallConst(r, w))
	}},
	{name: "typedconst_value", operands: func(r *hxlib.Rng, w int, signed bool, op string) (string, string) {
		return fmt.Sprintf("%s(%d)", tyName(w, signed), smallConst(r, w)), runtimeOperand(r)
	}},
	{name: "const_const", operands: func(r *hxlib.Rng, w int, signed bool, op string) (string, string) {
		return fmt.Sprintf("%s(%d)", tyName(w, signed), smallConst(r, w)), fmt.Sprint(smallConst(r, w))
	}},
	{name: "same_twice", operands: func(r *hxlib.Rng, w int, signed bool, op string) (string, string) {
		x := runtimeOperand(r)
		return x, x
	}},
	{name: "value_topbitconst", variant: 2, operands: func(r *hxlib.Rng, w int, signed bool, op string) (string, string) {
		// as many significant bits as the operand has wires
		return runtimeOperand(r), fullConst(r, w)
	}},
	{name: "value_wideconst", variant: 3, operands: func(r *hxlib.Rng, w int, signed bool, op string) (string, string) {
		v := new(big.Int).Lsh(big.NewInt(1), uint(w+r.Intn(3)))
		v.Add(v, big.NewInt(int64(1+r.Intn(5))))
		return runtimeOperand(r), v.String()
	}},
}

// ---------------------------------------------------------------- further kinds

func init() {
	cmp := func(r *hxlib.Rng) string { return []string{"<", ">", "==", "!=", "<=", ">="}[r.Intn(6)] }
	progKinds = append(progKinds,
		progKind{name: "lnot", boolean: true, stmt: func(r *hxlib.Rng, v, x, y, ty string, w int) string {
			return fmt.Sprintf("\t%s := !(%s %s %s)\n", v, x, cmp(r), y)
		}},
		progKind{name: "land", boolean: true, stmt: func(r *hxlib.Rng, v, x, y, ty string, w int) string {
			return fmt.Sprintf("\t%s := (%s %s %s) && (%s %s %d)\n", v, x, cmp(r), y, y, cmp(r), smallConst(r, w))
		}},
		progKind{name: "lor", boolean: true, stmt: func(r *hxlib.Rng, v, x, y, ty string, w int) string {
			return fmt.Sprintf("\t%s := (%s %s %s) || (%s %s %d)\n", v, x, cmp(r), y, x, cmp(r), smallConst(r, w))
		}},
		// casts: to a narrower, an equally wide and a wider type of either
		// signedness and back (mov / smov with fewer, as many and more wires than
		// the target)
		progKind{name: "cast", minW: 3, stmt: func(r *hxlib.Rng, v, x, y, ty string, w int) string {
			var sb strings.Builder
			for k, w2 := range []int{w - 1 - r.Intn(w-2), w, w + 1 + r.Intn(9)} {
				mid := tyName(w2, r.Bool())
				fmt.Fprintf(&sb, "\t%s_%d := %s(%s(%s)) ^ %s\n", v, k, ty, mid, x, y)
			}
			fmt.Fprintf(&sb, "\t%s := %s_0 + %s_1 + %s_2\n", v, v, v, v)
			return sb.String()
		}},
		// array slices and element assignment with constant bounds: slice /
		// amov / index with sources narrower and wider than the target
		progKind{name: "aslice", signed: -1, minW: 3, heavy: true, stmt: func(r *hxlib.Rng, v, x, y, ty string, w int) string {
			var sb strings.Builder
			fmt.Fprintf(&sb, "\tvar arr_%s [6]%s\n", v, ty)
			fmt.Fprintf(&sb, "\tarr_%s[0] = %s\n\tarr_%s[1] = %s\n\tarr_%s[2] = %s + %s\n\tarr_%s[4] = %d\n", v, x, v, y, v, x, y, v,
				smallConst(r, w))
			lo := r.Intn(3)
			hi := lo + 2 + r.Intn(2)
			fmt.Fprintf(&sb, "\tsl_%s := arr_%s[%d:%d]\n", v, v, lo, hi)
			fmt.Fprintf(&sb, "\t%s := sl_%s[0] ^ sl_%s[1] ^ arr_%s[%s & 3]\n", v, v, v, v, y)
			return sb.String()
		}},
		// the peephole forms: (x >> k) & 1 compared with a constant (bts / btc)
		progKind{name: "bittest", boolean: true, signed: -1, minW: 3, stmt: func(r *hxlib.Rng, v, x, y, ty string, w int) string {
			k := 1 + r.Intn(w-1)
			form := []string{"!= 0", "== 0", "== 1", "!= 1"}[r.Intn(4)]
			return fmt.Sprintf("\t%s := (%s >> %d) & 1 %s\n", v, x, k, form)
		}},
		// shift counts as wide as and wider than the operand
		progKind{name: "shiftwide", minW: 3, stmt: func(r *hxlib.Rng, v, x, y, ty string, w int) string {
			return fmt.Sprintf("\t%s := (%s << %d) ^ (%s >> %d) ^ (%s >> %d) ^ (%s << %d)\n", v, x, w-1, y, w-1, x, w+r.Intn(3), y, w)
		}},
		// builtin instruction circuits
		progKind{name: "builtin", signed: -1, minW: 2, heavy: true, stmt: func(r *hxlib.Rng, v, x, y, ty string, w int) string {
			switch r.Intn(3) {
			case 0:
				return fmt.Sprintf("\t%s := native(\"hamming\", %s, %s)\n", v, x, y)
			case 1:
				return fmt.Sprintf("\t%s := %s(native(\"hamming\", %s, %d))\n", v, ty, x, smallConst(r, w))
			}
			return fmt.Sprintf("\t%s := native(\"hamming\", %s, %s)\n", v, x, x)
		}},
	)
}

// ---------------------------------------------------------------- native circuits

type nativeFile struct {
	rel    string // path below $MPCLDIR
	dir    string // absolute directory
	base   string
	in     []int
	out    []int
	outTy  []string // declared output types
	outInt []bool   // ... that are plain integers
	gates  int
}

// nativeCatalogue lists every circuit file below $MPCLDIR/pkg that native(...)
// can load (circuit.IsFilename) and circuit.Parse accepts, smallest first.
func nativeCatalogue() []nativeFile {
	root := os.Getenv("MPCLDIR")
	if root == "" {
		return nil
	}
	var res []nativeFile
	filepath.Walk(filepath.Join(root, "pkg"), func(path string, fi os.FileInfo, err error) error {
		if err != nil || fi.IsDir() || !circuit.IsFilename(path) || fi.Size() == 0 {
			return nil
		}
		var c *circuit.Circuit
		func() {
			defer func() { recover() }()
			c, err = circuit.Parse(path)
		}()
		if c == nil || err != nil || len(c.Inputs) == 0 || len(c.Outputs) == 0 {
			return nil
		}
		rel, _ := filepath.Rel(root, path)
		nf := nativeFile{rel: rel, dir: filepath.Dir(path), base: filepath.Base(path), gates: c.NumGates}
		for _, io := range c.Inputs {
			nf.in = append(nf.in, int(io.Type.Bits))
		}
		for _, io := range c.Outputs {
			nf.out = append(nf.out, int(io.Type.Bits))
			ty := io.Type.String()
			plain := io.Type.Type == types.TUint || io.Type.Type == types.TInt
			if !plain && io.Type.Type != types.TArray {
				ty, plain = fmt.Sprintf("uint%d", io.Type.Bits), true
			}
			nf.outTy = append(nf.outTy, ty)
			nf.outInt = append(nf.outInt, plain)
		}
		res = append(res, nf)
		return nil
	})
	sort.Slice(res, func(i, j int) bool {
		if res[i].gates != res[j].gates {
			return res[i].gates < res[j].gates
		}
		return res[i].rel < res[j].rel
	})
	return res
}

// nativeShapes: the source of every argument of the native call.  a / b: main's
// run-time arguments (garbler / evaluator); k: an untyped constant narrower
// than the declared input; K: a constant of exactly the declared width; w: a
// constant wider than the declared input (the compiler refuses it).  An
// argument position beyond the shape string takes its last letter.
var nativeShapes = []string{"ak", "ka", "ab", "aK", "kb", "aa", "kK", "Ka", "bk", "aw"}

// genNativeProgram: main(a, b) calls the native circuit once with arguments of
// the given shape; every output is returned, the first one mixed with whichever
// of a, b the call did not use so that both parties' inputs are live.
func genNativeProgram(r *hxlib.Rng, nf nativeFile, shape int) *coverSpec {
	sh := nativeShapes[shape]
	sp := &coverSpec{srcName: filepath.Join(nf.dir, "verif_c04_native.mpcl"),
		names: []string{"circ", "native_" + nf.base, "native_shape_" + sh}, sessions: 2}
	var args []string
	aw, bw := 0, 0
	for i, w := range nf.in {
		c := sh[len(sh)-1]
		if i < len(sh) {
			c = sh[i]
		}
		switch c {
		case 'a':
			if aw == 0 {
				aw = w
			}
			if aw == w {
				args = append(args, "a")
				continue
			}
			c = 'k'
		case 'b':
			if bw == 0 {
				bw = w
			}
			if bw == w {
				args = append(args, "b")
				continue
			}
			c = 'k'
		}
		switch c {
		case 'K':
			args = append(args, fmt.Sprintf("uint%d(%s)", w, fullConst(r, hxlib.MinInt(w, 40))))
		case 'w':
			v := new(big.Int).Lsh(big.NewInt(1), uint(w+r.Intn(3)))
			args = append(args, v.Add(v, big.NewInt(int64(1+r.Intn(9)))).String())
			sp.mayReject = true
		default:
			// narrower than the declared input: 1 .. min(w-1, 30) significant bits
			bits := 1 + r.Intn(hxlib.MinInt(w-1, 30))
			args = append(args, fullConst(r, bits))
		}
	}
	// an argument of main the call did not use is mixed into the first output
	// when that is a plain integer (it takes its width), returned as it is
	// otherwise: both parties' inputs are live in every program
	var rets, rtys, vars []string
	for i := range nf.out {
		vars = append(vars, fmt.Sprintf("r%d", i))
		rets = append(rets, fmt.Sprintf("r%d", i))
		rtys = append(rtys, nf.outTy[i])
	}
	for _, m := range []struct {
		w    *int
		name string
	}{{&aw, "a"}, {&bw, "b"}} {
		if *m.w != 0 {
			continue
		}
		if nf.outInt[0] {
			*m.w = nf.out[0]
			rets[0] += " ^ " + m.name
		} else {
			*m.w = 8
			rets = append(rets, m.name)
			rtys = append(rtys, "uint8")
		}
	}
	sp.aw, sp.bw = aw, bw
	sp.src = fmt.Sprintf("package main\n\nfunc main(a uint%d, b uint%d) (%s) {\n\t%s := native(%q, %s)\n\treturn %s\n}\n",
		aw, bw, strings.Join(rtys, ", "), strings.Join(vars, ", "), nf.base, strings.Join(args, ", "),
		strings.Join(rets, ", "))
	return sp
}

package main

// Modes `cover` and `direct`: the streaming garbler over the GATE KINDS.
//
// The property quantifies over all programs and over every byte offset of the
// stream.  What two transmitted rows have in common is decided gate by gate: a
// row is a sum of hash values of the gate's input labels under the gate's
// tweak(s), so the statement "no two values differ by R" is, per pair of gates,
// a statement about (kind of the first gate, kind of the second gate, which
// input wires they share, the permute bits of the wires involved).  The
// sessions of these modes are chosen to cover those classes and the check
// obliges that they occurred (shadow.go: adjacency).
//
//	cover   compiler.Stream <-> circuit.StreamEvaluator on generated MPCL
//	        programs, one focus instruction kind per program out of the kinds
//	        of compiler/ssa (subtract, the six comparisons, divide / modulo,
//	        signed and unsigned multiply, mux, variable index, bit clear,
//	        shifts, add, and / or / xor, constants) over several widths, both
//	        signednesses; several sessions per program with independent tapes
//	        so that both permute-bit values of every wire occur.  The binary
//	        operators are also generated with their operands in SHAPES
//	        (constants narrower than / as wide as / wider than the other
//	        operand, on either side, constant-only, one operand twice), and the
//	        catalogue has kinds for the rest of the SSA instruction set (casts,
//	        logical operators, slices, builtins, ...: covershapes.go); the check
//	        obliges that every opcode Program.Stream handles occurred (opcat.go).
//	        -extra long: loops of several hundred iterations.  -extra native:
//	        every circuit file under $MPCLDIR/pkg called through native(...)
//	        with run-time and constant arguments in every position.
//	direct  circuit.NewStreaming + Streaming.Garble driven by the harness on
//	        histories of generated instruction circuits over one global wire
//	        space (random in / out maps, 16- and 32-bit wire ids, every gate
//	        kind followed by every tweak-consuming kind on shared wires); key,
//	        offset and labels all come from the seed, so a case replays bit for
//	        bit.
//
// Every session is judged four ways: the 16-byte window scan over every byte
// offset (judge / scan), the shadow garbler's list of hash queries (no AES input
// block may be queried by two different gates), the observed tweak sequence
// against the Lean accounting (op line `c04acc`), and the label-level invariant
// on every gate input (a defined wire whose two labels differ by the offset:
// shadow.go checkInput; verdict against the Lean model's wfFrom, op line
// `c04def`).

import (
	"bytes"
	"fmt"
	"math/big"
	"reflect"
	"strings"
	"time"

	"github.com/markkurossi/mpc/circuit"
	"github.com/markkurossi/mpc/compiler"
	"github.com/markkurossi/mpc/compiler/ssa"
	"github.com/markkurossi/mpc/env"
	"github.com/markkurossi/mpc/ot"
	"github.com/markkurossi/mpc/p2p"

	"verifharness/hxlib"
)

// ---------------------------------------------------------------- programs

type progKind struct {
	name string
	// stmt renders the focus statement(s) defining variable v of type ty (or
	// bool when boolean) from operands x, y.
	stmt    func(r *hxlib.Rng, v, x, y, ty string, w int) string
	boolean bool
	signed  int // 0 either, 1 signed only, -1 unsigned only
	// binop: the kind is the plain binary operator `x binop y`; its operands
	// are then also generated in SHAPES (covershapes.go: constants narrower
	// than / as wide as / wider than the other operand, constants on either
	// side, constant-only operands, one operand twice)
	binop string
	// minW: smallest width the focus statement is meaningful for
	minW int
	// heavy: not used as a random side statement
	heavy bool
}

func bin(op string) func(r *hxlib.Rng, v, x, y, ty string, w int) string {
	return func(r *hxlib.Rng, v, x, y, ty string, w int) string {
		return fmt.Sprintf("\t%s := %s %s %s\n", v, x, op, y)
	}
}

func smallConst(r *hxlib.Rng, w int) int {
	m := 1 << uint(hxlib.MinInt(w-1, 6))
	if m <= 1 {
		return 1
	}
	return 1 + r.Intn(m-1)
}

var progKinds = []progKind{
	{name: "sub", binop: "-", stmt: bin("-")},
	{name: "lt", binop: "<", stmt: bin("<"), boolean: true},
	{name: "gt", binop: ">", stmt: bin(">"), boolean: true},
	{name: "le", binop: "<=", stmt: bin("<="), boolean: true},
	{name: "ge", binop: ">=", stmt: bin(">="), boolean: true},
	{name: "eq", binop: "==", stmt: bin("=="), boolean: true},
	{name: "ne", binop: "!=", stmt: bin("!="), boolean: true},
	{name: "div", binop: "/", stmt: bin("/")},
	{name: "mod", binop: "%", stmt: bin("%")},
	{name: "mul", binop: "*", stmt: bin("*")},
	{name: "add", binop: "+", stmt: bin("+")},
	{name: "and", binop: "&", stmt: bin("&")},
	{name: "or", binop: "|", stmt: bin("|")},
	{name: "xor", binop: "^", stmt: bin("^")},
	{name: "bclr", binop: "&^", stmt: bin("&^")},
	{name: "subc", stmt: func(r *hxlib.Rng, v, x, y, ty string, w int) string {
		return fmt.Sprintf("\t%s := %s - %d\n", v, x, smallConst(r, w))
	}},
	{name: "csub", stmt: func(r *hxlib.Rng, v, x, y, ty string, w int) string {
		return fmt.Sprintf("\t%s := %d - %s\n", v, smallConst(r, w), x)
	}},
	{name: "ltc", boolean: true, stmt: func(r *hxlib.Rng, v, x, y, ty string, w int) string {
		return fmt.Sprintf("\t%s := %s < %d\n", v, x, smallConst(r, w))
	}},
	{name: "divc", stmt: func(r *hxlib.Rng, v, x, y, ty string, w int) string {
		return fmt.Sprintf("\t%s := %s / %d\n", v, x, smallConst(r, w))
	}},
	{name: "shl", stmt: func(r *hxlib.Rng, v, x, y, ty string, w int) string {
		return fmt.Sprintf("\t%s := %s << %d\n", v, x, 1+r.Intn(w-1))
	}},
	{name: "shr", stmt: func(r *hxlib.Rng, v, x, y, ty string, w int) string {
		return fmt.Sprintf("\t%s := %s >> %d\n", v, x, 1+r.Intn(w-1))
	}},
	{name: "mux", stmt: func(r *hxlib.Rng, v, x, y, ty string, w int) string {
		cmp := []string{"<", ">", "==", "!=", "<=", ">="}[r.Intn(6)]
		return fmt.Sprintf("\tvar %s %s\n\tif %s %s %s {\n\t\t%s = %s\n\t} else {\n\t\t%s = %s\n\t}\n", v, ty, x, cmp, y, v, x, v, y)
	}},
	{name: "index", signed: -1, stmt: func(r *hxlib.Rng, v, x, y, ty string, w int) string {
		return fmt.Sprintf("\tvar arr_%s [4]%s\n\tarr_%s[0] = %s\n\tarr_%s[1] = %s\n\tarr_%s[2] = %s ^ %s\n\tarr_%s[3] = %d\n\t%s := arr_%s[%s & 3]\n",
			v, ty, v, x, v, y, v, x, y, v, smallConst(r, w), v, v, y)
	}},
}

// genCoverProgram builds a program around the focus kind: 0..2 random
// statements, the focus statement, 0..2 random statements that use its result,
// everything returned.  variant 0: the plain focus statement; variant 1: the
// focus statement and, for a binary operator, its operand SHAPES (covershapes.go);
// variants 2, 3: the shapes whose constant has as many significant bits as the
// other operand has wires / is wider than it (the compiler may reject them:
// mayReject).
func genCoverProgram(r *hxlib.Rng, focus int, w int, signed bool, variant int) (src string, names []string, mayReject bool) {
	ty := fmt.Sprintf("uint%d", w)
	if signed {
		ty = fmt.Sprintf("int%d", w)
	}
	vals := []string{"a", "b"}
	var bools []string
	var body strings.Builder
	n := 0
	emit := func(k progKind) {
		v := fmt.Sprintf("t%d", n)
		n++
		x := vals[r.Intn(len(vals))]
		y := vals[r.Intn(len(vals))]
		if r.Intn(3) > 0 {
			// both parties' values meet
			x, y = "a", vals[1+r.Intn(len(vals)-1)]
			if r.Bool() {
				x, y = y, x
			}
		}
		body.WriteString(k.stmt(r, v, x, y, ty, w))
		if k.boolean {
			bools = append(bools, v)
		} else {
			vals = append(vals, v)
		}
		names = append(names, k.name)
	}
	pick := func() progKind {
		for {
			k := progKinds[r.Intn(len(progKinds))]
			if (k.signed == 1 && !signed) || (k.signed == -1 && signed) || k.name == "index" || k.name == "div" ||
				k.name == "mod" || k.name == "divc" || k.heavy || w < k.minW {
				continue
			}
			return k
		}
	}
	for i := r.Intn(3); i > 0; i-- {
		emit(pick())
	}
	fk := progKinds[focus]
	emit(fk)
	if fk.binop != "" && variant > 0 {
		for _, sh := range operandShapes {
			sv := sh.variant
			if sv == 0 {
				sv = 1
			}
			if sv != variant {
				continue
			}
			v := fmt.Sprintf("s%d", n)
			n++
			x, y := sh.operands(r, w, signed, fk.binop)
			fmt.Fprintf(&body, "\t%s := %s %s %s\n", v, x, fk.binop, y)
			if fk.boolean {
				bools = append(bools, v)
			} else {
				vals = append(vals, v)
			}
			names = append(names, "shape_"+sh.name)
			if sv > 1 {
				mayReject = true
			}
		}
	}
	for i := r.Intn(3); i > 0; i-- {
		emit(pick())
	}
	var rets, rtys []string
	for _, v := range vals[2:] {
		rets = append(rets, v)
		rtys = append(rtys, ty)
	}
	for _, v := range bools {
		rets = append(rets, v)
		rtys = append(rtys, "bool")
	}
	src = fmt.Sprintf("package main\n\nfunc main(a, b %s) (%s) {\n%s\treturn %s\n}\n", ty, strings.Join(rtys, ", "),
		body.String(), strings.Join(rets, ", "))
	return src, names, mayReject
}

var coverWidths = []int{8, 4, 16, 7, 13, 32, 5, 9, 17, 24, 3, 64}

// ---------------------------------------------------------------- one session, analysed

type analysis struct {
	single, pairs int
	reuse         int
	unrecovered   int
	unknown       int
	gates         int
	accOp, accRes string
	defOp, defRes string
	undefined     int
	failed        bool
	sh            *shadow
}

// analyse applies the three judgements to one finished streaming session.
// ab is the complete garbler->evaluator stream, r the offset, in1 the
// garbler's input bits, ewires the evaluator's input wire pairs (handed to the
// OT by the garbler).
func analyse(o *hxlib.Out, mode string, idx, sess int, desc string, ab []byte, p *parsed, r ot.Label,
	inputs []ot.Wire, pairs [][2]int) *analysis {

	an := &analysis{gates: len(p.gates)}
	sh, err := newShadow(p.key, r)
	if err != nil {
		o.Count("shadow_bad_key")
		an.failed = true
		return an
	}
	zeroInputs := 0
	for i, w := range inputs {
		sh.setInput(i, w)
		if isZero(w.L0) || isZero(w.L1) {
			zeroInputs++
		}
	}
	if zeroInputs > 0 {
		// an input wire is a fresh random pair (NewStreaming: makeLabels); a
		// zero label there makes the other one the offset
		o.Fail("c04-input-wire-with-zero-label", map[string]any{"mode": mode, "case": idx, "session": sess, "desc": desc,
			"wires": zeroInputs})
	}
	sh.blocks = p.blocks
	sh.run(ab, p.gates)
	an.sh = sh
	an.unrecovered, an.unknown, an.reuse = sh.unrecovered, sh.unknownInput, len(sh.reuses)
	an.undefined = sh.nUndefined
	o.CountN("shadow_gate_inputs_checked", 2*len(p.gates))
	o.CountN("shadow_undefined_gate_inputs", sh.nUndefined)
	o.CountN("shadow_gate_inputs_not_a_label_pair", sh.nBadPairs)
	o.CountN("shadow_degenerate_rows", sh.nDegen)
	// The label-level invariant: every wire a transmitted row depends on is a
	// defined wire whose two labels differ by the offset.  A gate input that
	// violates it is a failing input of the property even when no two windows
	// of this tape differ by the offset: what the garbler transmits for such a
	// gate is the offset or a raw label (Props/C04.lean
	// C04_undefined_input_and_rows), depending on permute bits only.
	if sh.nUndefined > 0 || sh.nBadPairs > 0 || sh.nDegen > 0 {
		o.Fail("c04-gate-input-not-a-defined-label-pair", map[string]any{"mode": mode, "case": idx, "session": sess,
			"desc": desc, "undefined_gate_inputs": sh.nUndefined, "undefined": sh.undefined,
			"inputs_not_a_label_pair": sh.nBadPairs, "not_a_pair": sh.badPairs,
			"degenerate_rows": sh.nDegen, "rows": sh.degenerate,
			"rows_reproduced_with_these_table_contents": sh.unrecovered == 0})
	}
	an.defOp, an.defRes = defOp(p.gates, len(inputs), sh.nUndefined)
	o.CountN("shadow_gates", len(p.gates))
	o.CountN("shadow_unrecovered_rows", sh.unrecovered)
	o.CountN("shadow_unknown_input", sh.unknownInput)
	o.CountN("shadow_tweak_tries", sh.tries)
	o.CountN("shadow_hash_queries", len(sh.queries))
	for i := range p.gates {
		g := &p.gates[i]
		o.Count("gates_" + kindLetter[g.op])
		if g.wide {
			o.Count("gates_wide_ids")
		}
		for _, off := range g.rowOff {
			if off%2 == 1 {
				o.Count("rows_at_odd_offset")
			}
			o.Count(fmt.Sprintf("rows_offset_mod16_%d", off%16))
		}
	}
	adjacency(p.gates, o.Count)
	var complete bool
	an.accOp, an.accRes, complete = accOp(p.gates)
	if !complete {
		an.accRes += " incomplete"
	}
	// A hash query (AES input block) made by two different gates is one hash
	// atom in the rows of two gates.  Whether two transmitted values then differ
	// by R depends on the gate kinds and on the permute bits of the wires
	// involved (Props/C04.lean: C04_tweak_reuse_leaks, C04_unary_tweak_shared_leaks
	// and its _masked companion), so a reuse alone is recorded (the check has an
	// obligation on it and the modes draw further tapes for the same case); a
	// window pair is the failing input, reported with the rows and reuses named.
	var kept []map[string]any
	for _, x := range sh.reuses {
		if x != nil {
			kept = append(kept, x)
		}
	}
	if len(sh.reuses) > 0 {
		o.Count("sessions_with_reused_hash_query")
		o.CountN("reused_hash_queries", len(sh.reuses))
		ex, _ := o.Meta["reuse_examples"].([]any)
		if len(ex) < 3 {
			o.Meta["reuse_examples"] = append(ex, map[string]any{"mode": mode, "case": idx, "session": sess, "desc": desc,
				"nreuses": len(sh.reuses), "reuses": kept[:minI(len(kept), 4)]})
		}
	}
	if len(pairs) > 0 {
		var where []string
		for _, pr := range pairs[:minI(len(pairs), 4)] {
			where = append(where, fmt.Sprintf("offset %d = %s; offset %d = %s", pr[0], locate(p.gates, pr[0]), pr[1],
				locate(p.gates, pr[1])))
		}
		o.Fail("c04-two-values-differ-by-offset", map[string]any{"mode": mode, "case": idx, "session": sess, "desc": desc,
			"npairs": len(pairs), "pairs": pairs[:minI(len(pairs), 5)], "rows": where,
			"reused_hash_queries": len(sh.reuses), "reuses": kept[:minI(len(kept), 4)]})
	}
	return an
}

// ---------------------------------------------------------------- mode cover

type idealPair struct{ g, e *hxlib.RecOT }

// coverSpec is one generated program of mode cover.
type coverSpec struct {
	srcName   string // source name handed to the compiler (native(...) files are looked up next to it)
	src       string
	names     []string // instruction kinds / operand shapes it was generated for
	aw, bw    int      // widths of main's arguments a (garbler) and b (evaluator)
	signed    bool
	mayReject bool // the compiler rejecting the program is an expected outcome of its operand shape
	sessions  int  // sessions to run (0: the mode's default)
}

func cover(args []string) int {
	cf, o := hxlib.ParseCommon("c04", args, nil)
	defer o.Close()
	rng := hxlib.NewRng(cf.Seed ^ 0xc07e5)
	long := cf.Extra == "long"
	native := cf.Extra == "native"
	sessions := 4
	if cf.Tier != "quick" {
		sessions = 6
	}
	if long {
		sessions = 2
	}
	var nat []nativeFile
	if native {
		rng = hxlib.NewRng(cf.Seed ^ 0x4a71fe)
		nat = nativeCatalogue()
		o.CountN("native_files", len(nat))
		sessions = 2
	}
	for i := 0; i < cf.N; i++ {
		r := rng.Fork()
		if cf.Only >= 0 && i != cf.Only {
			continue
		}
		var sp *coverSpec
		switch {
		case long:
			src, w := genLongCoverProgram(r)
			sp = &coverSpec{srcName: "{data}", src: src, names: []string{"long"}, aw: w, bw: w}
		case native:
			if len(nat) == 0 {
				o.Count("native_catalogue_empty")
				continue
			}
			sp = genNativeProgram(r, nat[i%len(nat)], (i/len(nat))%len(nativeShapes))
			if cf.Tier == "quick" && nat[i%len(nat)].gates > 50000 {
				sp.sessions = 1
			}
		default:
			focus := i % len(progKinds)
			round := i / len(progKinds)
			w := coverWidths[(round+i)%len(coverWidths)]
			k := progKinds[focus]
			signed := k.signed == 1 || (k.signed == 0 && round%2 == 1)
			if (k.name == "div" || k.name == "mod" || k.name == "divc" || k.name == "mul") && w > 17 {
				w = []int{8, 13, 16}[r.Intn(3)]
			}
			if k.name == "index" && w < 3 {
				w = 4
			}
			if w < k.minW {
				w = k.minW
			}
			// operand shapes: every fourth round of a kind is the plain
			// statement, the others add the shaped operands
			variant := round % 4
			src, names, mayReject := genCoverProgram(r, focus, w, signed, variant)
			sp = &coverSpec{srcName: "{data}", src: src, names: names, aw: w, bw: w, signed: signed, mayReject: mayReject}
		}
		o.Count("programs")
		for _, nm := range sp.names {
			o.Count("kind_" + nm)
		}
		if sp.signed {
			o.Count("programs_signed")
		}
		if !native {
			o.Count(fmt.Sprintf("width_%d", sp.aw))
		}
		anyReuse, anyPair := false, false
		total := sessions
		if sp.sessions > 0 {
			total = sp.sessions
		}
		base := total
		for s := 0; s < total; s++ {
			sr := r.Fork()
			av, bv := randPattern(sr, sp.aw), randPattern(sr, sp.bw)
			if s == 0 && bv.Sign() == 0 {
				bv.SetInt64(1)
			}
			as, bs := inputText(av, sp.aw, sp.signed), inputText(bv, sp.bw, sp.signed)
			otName := []string{"co", "ideal"}[(i+s)%2]
			desc := fmt.Sprintf("kinds=%s ot=%s a=%s b=%s source=%s src=%q", strings.Join(sp.names, "+"), otName, as, bs,
				sp.srcName, sp.src)
			an, status := coverSession(o, cf, i, s, sp, av, as, bs, otName, sr, desc)
			o.Count("sessions_" + status)
			if an != nil {
				o.Op(an.accOp, an.accRes)
				if an.defOp != "" && (an.gates <= 20000 || s == 0) {
					o.Op(an.defOp, an.defRes)
				}
				if an.reuse > 0 {
					anyReuse = true
				}
				if an.pairs > 0 || an.single > 0 {
					anyPair = true
				}
			}
			if status == "compile-error" || status == "rejected-as-expected" {
				break
			}
			// a reused hash query shows as a window pair for about half of the
			// tapes: keep drawing tapes for this program until one shows it
			if s == total-1 && anyReuse && !anyPair && total < base+12 {
				total++
				o.Count("extra_tapes_drawn_after_reuse")
			}
		}
		if i < 2 {
			o.Sample(map[string]any{"mode": "cover", "extra": cf.Extra, "case": i, "src": sp.src})
		}
	}
	return 0
}

// randPattern draws a w-bit pattern.
func randPattern(r *hxlib.Rng, w int) *big.Int {
	v := new(big.Int)
	for i := 0; i < w; i += 64 {
		v.Lsh(v, 64)
		v.Or(v, new(big.Int).SetUint64(r.U64()))
	}
	return v.And(v, new(big.Int).Sub(new(big.Int).Lsh(big.NewInt(1), uint(w)), big.NewInt(1)))
}

// inputText renders the w-bit pattern v as the decimal input of a uintW /
// intW argument (two's complement for signed types).
func inputText(v *big.Int, w int, signed bool) string {
	if signed && v.Bit(w-1) == 1 {
		m := new(big.Int).Sub(new(big.Int).Lsh(big.NewInt(1), uint(w)), v)
		return "-" + m.String()
	}
	return v.String()
}

func genLongCoverProgram(r *hxlib.Rng) (string, int) {
	w := []int{4, 6, 8}[r.Intn(3)]
	ty := fmt.Sprintf("uint%d", w)
	bodies := []string{
		"acc = (a - acc) + b\n\t\tif acc < c {\n\t\t\tc = c ^ acc\n\t\t}",
		"acc = (a & acc) - b\n\t\tc = c + acc",
		"if a > acc {\n\t\t\tacc = acc + b\n\t\t} else {\n\t\t\tacc = acc - c\n\t\t}\n\t\tc = c ^ a",
		"acc = (a | acc) - 1\n\t\tc = (a & c) + acc",
	}
	body := bodies[r.Intn(len(bodies))]
	n := 260 + r.Intn(300)
	src := fmt.Sprintf("package main\n\nfunc main(a, b %s) %s {\n\tacc := b\n\tc := a\n\tfor i := 0; i < %d; i++ {\n\t\t%s\n\t}\n\treturn acc + c\n}\n",
		ty, ty, n, body)
	return src, w
}

// compileCover compiles the program to the SSA program the streaming garbler
// walks, exactly as Compiler.Stream does (pkg.Compile, peephole, GC).
func compileCover(sp *coverSpec, sizes [][]int) (prog *ssa.Program, err error) {
	defer func() {
		if e := recover(); e != nil {
			err = fmt.Errorf("panic: %v", e)
		}
	}()
	params := hxlib.StreamParams(nil)
	defer params.Close()
	prog, _, err = compiler.New(params).CompileSSA(sp.srcName, strings.NewReader(sp.src), sizes)
	return
}

// coverSession runs one real streaming session and analyses it.
func coverSession(o *hxlib.Out, cf *hxlib.CommonFlags, idx, sess int, sp *coverSpec, av *big.Int, as, bs string,
	otName string, sr *hxlib.Rng, desc string) (*analysis, string) {

	gin := []string{as}
	ein := []string{bs}
	gr := sr.Fork()
	var g, e *hxlib.RecOT
	if otName == "ideal" {
		id := hxlib.NewIdealOT()
		g, e = &hxlib.RecOT{OT: id}, &hxlib.RecOT{OT: id}
	} else {
		g, e = &hxlib.RecOT{OT: mkOT("co", gr)}, &hxlib.RecOT{OT: mkOT("co", sr.Fork())}
	}
	d := hxlib.NewDuplex(sr.Fork())
	otf := func() (ot.OT, ot.OT) { return g, e }
	sizes, err := hxlib.StreamInputSizes(gin, ein)
	var prog *ssa.Program
	if err == nil {
		prog, err = compileCover(sp, sizes)
	}
	if err != nil {
		d.Close()
		// the compiler rejected the generated program before anything was sent
		if sp.mayReject {
			o.Count("programs_rejected_as_expected")
			return nil, "rejected-as-expected"
		}
		o.Count("programs_rejected_by_compiler")
		if sess == 0 {
			o.Sample(map[string]any{"rejected": sp.src, "err": err.Error()})
		}
		return nil, "compile-error"
	}
	// the SSA instruction set of this session (counted when it ran to the end)
	ops := map[string]int{}
	for _, st := range prog.Steps {
		ops[st.Instr.Op.String()]++
		if st.Instr.Op == ssa.Circ && st.Instr.Circ != nil {
			for k, in := range st.Instr.In {
				if k >= len(st.Instr.Circ.Inputs) {
					break
				}
				switch want := st.Instr.Circ.Inputs[k].Type.Bits; {
				case in.Type.Bits < want:
					ops["circ_arg_narrower_than_declared"]++
				case in.Type.Bits == want:
					ops["circ_arg_as_declared"]++
				}
				if in.Const {
					ops["circ_arg_constant"]++
				}
			}
		}
		for _, in := range st.Instr.In {
			if in.Const {
				ops["operand_constant"]++
				break
			}
		}
	}
	res := hxlib.RunStreamProgram(prog, gin, ein, otf, gr, d, 90*time.Second)
	d.Close()
	if !res.OK() {
		msg := fmt.Sprint(res.GErr, res.EErr, res.GPanic, res.EPanic)
		o.Fail("c04-session-failed", map[string]any{"mode": "cover", "case": idx, "session": sess, "desc": desc, "err": msg,
			"stalled": res.Stalled})
		return nil, "failed"
	}
	for k, n := range ops {
		o.CountN("ssa_op_"+k, n)
	}
	if hxlib.BigsString(res.GRes) != hxlib.BigsString(res.ERes) {
		o.Fail("c04-stream-results-differ", map[string]any{"mode": "cover", "case": idx, "session": sess, "desc": desc})
	}
	ab := d.AB.Rec
	verdict := judgeQuiet(o, "cover", idx, desc, ab, g, e)
	if verdict.noOT {
		return nil, "no-ot"
	}
	p := parseStream(ab)
	if p.err != "" {
		o.Count("stream_not_parsed")
		o.Fail("c04-stream-not-parsed", map[string]any{"mode": "cover", "case": idx, "session": sess, "desc": desc, "err": p.err})
		return nil, "unparsed"
	}
	if p.otBytes > 0 {
		o.Count("sessions_with_ot_on_the_wire")
	}
	// secrets: offset from the wire pairs handed to the OT; the garbler's own
	// input pairs from the labels it sent and its input bits
	r := ot.Label{D0: verdict.r.hi, D1: verdict.r.lo}
	inputs := make([]ot.Wire, p.nIn1+p.nIn2)
	for i := 0; i < p.nIn1; i++ {
		act := lbl(ab[p.labelsOff+16*i:])
		bit := av.Bit(i) == 1
		wp := ot.Wire{L0: act, L1: act}
		if bit {
			wp.L0.Xor(r)
		} else {
			wp.L1.Xor(r)
		}
		inputs[i] = wp
	}
	if len(g.Sent) > 0 && len(g.Sent[0]) == p.nIn2 {
		copy(inputs[p.nIn1:], g.Sent[0])
	} else {
		o.Count("ot_wire_count_unexpected")
	}
	an := analyse(o, "cover", idx, sess, desc, ab, p, r, inputs, verdict.pairs)
	an.single, an.pairs = len(verdict.single), len(verdict.pairs)
	return an, "ok"
}

type quietVerdict struct {
	noOT   bool
	r      u128
	single []int
	pairs  [][2]int
}

// judgeQuiet is judge without the pair failure (analyse reports pairs with
// the rows named); everything else is judged as in the other modes.
func judgeQuiet(o *hxlib.Out, mode string, idx int, desc string, ab []byte, g, e *hxlib.RecOT) quietVerdict {
	var v quietVerdict
	if len(g.Sent) == 0 || len(g.Sent[0]) == 0 {
		o.Count("no_ot_wires")
		v.noOT = true
		return v
	}
	v.r = offsetOf(g.Sent[0][0])
	for _, batch := range g.Sent {
		for _, w := range batch {
			if offsetOf(w) != v.r {
				o.Fail("c04-inconsistent-offset", map[string]any{"mode": mode, "case": idx, "desc": desc})
			}
		}
	}
	v.single, v.pairs = scan(ab, v.r)
	o.CountN("window_positions", len(ab)-15)
	if len(v.single) > 0 {
		o.Fail("c04-offset-transmitted", map[string]any{"mode": mode, "case": idx, "desc": desc,
			"offsets": v.single[:minI(len(v.single), 5)]})
	}
	if len(e.Got) != len(g.Sent) {
		o.Fail("c04-ot-batches", map[string]any{"mode": mode, "case": idx, "desc": desc})
	} else {
		for b := range e.Got {
			for i := range e.Got[b] {
				want := g.Sent[b][i].L0
				if e.Flags[b][i] {
					want = g.Sent[b][i].L1
				}
				if !e.Got[b][i].Equal(want) {
					o.Fail("c04-ot-wrong-label", map[string]any{"mode": mode, "case": idx, "desc": desc, "wire": i})
				}
			}
		}
	}
	return v
}

// ---------------------------------------------------------------- mode direct

type recBuf struct{ bytes.Buffer }

func (b *recBuf) Read(p []byte) (int, error) { return 0, fmt.Errorf("nothing to read") }

// genStepCircuit builds one instruction circuit of a history.  chain: with
// probability 1/2 a gate takes an input wire of the previous gate (in either
// position), so that every adjacency class occurs.
func genStepCircuit(r *hxlib.Rng, nin int, maxGates int, mix int) *circuit.Circuit {
	ng := 1 + r.Intn(maxGates)
	defined := make([]int, 0, nin+ng)
	for i := 0; i < nin; i++ {
		defined = append(defined, i)
	}
	next := nin
	var gates []circuit.Gate
	var stats circuit.Stats
	prevA, prevB := -1, -1
	for i := 0; i < ng; i++ {
		var op circuit.Operation
		switch mix {
		case 0:
			op = circuit.Operation(r.Intn(5))
		case 1:
			op = []circuit.Operation{circuit.INV, circuit.AND, circuit.INV, circuit.OR, circuit.XOR}[r.Intn(5)]
		case 2:
			op = []circuit.Operation{circuit.AND, circuit.AND, circuit.OR, circuit.XNOR, circuit.INV}[r.Intn(5)]
		default:
			op = []circuit.Operation{circuit.OR, circuit.OR, circuit.INV, circuit.XOR, circuit.XNOR, circuit.AND}[r.Intn(6)]
		}
		a := defined[r.Intn(len(defined))]
		b := defined[r.Intn(len(defined))]
		if prevA >= 0 && r.Bool() {
			src := prevA
			if prevB >= 0 && r.Bool() {
				src = prevB
			}
			if r.Bool() {
				a = src
			} else {
				b = src
			}
		}
		if r.Intn(10) == 0 {
			b = a
		}
		gt := circuit.Gate{Input0: circuit.Wire(a), Input1: circuit.Wire(b), Output: circuit.Wire(next), Op: op}
		prevA, prevB = a, b
		if op == circuit.INV {
			gt.Input1 = 0
			prevB = -1
		}
		defined = append(defined, next)
		next++
		gates = append(gates, gt)
		stats[op]++
	}
	nout := 1 + r.Intn(hxlib.MinInt(6, ng))
	return &circuit.Circuit{
		NumGates: len(gates), NumWires: next,
		Inputs:  circuit.IO{hxlib.UintIO("i", nin)},
		Outputs: circuit.IO{hxlib.UintIO("o", nout)},
		Gates:   gates, Stats: stats,
	}
}

// callGarble calls Streaming.Garble by reflection, so that the harness builds
// and runs against trees whose Garble takes further arguments of the kinds the
// stream framing has (an int is given the step number): the exported call is
// circuit, input ids, output ids in this order.
func callGarble(st *circuit.Streaming, step int, c *circuit.Circuit, in, out []circuit.Wire) error {
	m := reflect.ValueOf(st).MethodByName("Garble")
	if !m.IsValid() {
		return fmt.Errorf("circuit.Streaming has no method Garble")
	}
	t := m.Type()
	var args []reflect.Value
	wires := [][]circuit.Wire{in, out}
	for i := 0; i < t.NumIn(); i++ {
		switch {
		case t.In(i) == reflect.TypeOf(c):
			args = append(args, reflect.ValueOf(c))
		case t.In(i) == reflect.TypeOf(in) && len(wires) > 0:
			args = append(args, reflect.ValueOf(wires[0]))
			wires = wires[1:]
		case t.In(i).Kind() == reflect.Int || t.In(i).Kind() == reflect.Uint32 || t.In(i).Kind() == reflect.Int32:
			args = append(args, reflect.ValueOf(step).Convert(t.In(i)))
		default:
			return fmt.Errorf("circuit.Streaming.Garble: unexpected parameter %d of type %s", i, t.In(i))
		}
	}
	res := m.Call(args)
	if len(res) > 0 {
		if e, ok := res[len(res)-1].Interface().(error); ok && e != nil {
			return e
		}
	}
	return nil
}

func direct(args []string) int {
	cf, o := hxlib.ParseCommon("c04", args, nil)
	defer o.Close()
	rng := hxlib.NewRng(cf.Seed ^ 0xd12ec7)
	for i := 0; i < cf.N; i++ {
		r := rng.Fork()
		if cf.Only >= 0 && i != cf.Only {
			continue
		}
		directCase(o, i, r)
	}
	return 0
}

func directCase(o *hxlib.Out, idx int, r *hxlib.Rng) {
	nIn := 2 + r.Intn(10)
	steps := 2 + r.Intn(10)
	mix := idx % 4
	// ids beyond 16 bits: the 32-bit id encoding of the gate records, rows at
	// other offsets
	wideFrom := -1
	if idx%5 == 3 {
		wideFrom = r.Intn(steps)
	}
	key := r.Bytes(32)
	tape := r.Fork()
	buf := &recBuf{}
	conn := p2p.NewConn(buf)
	var desc strings.Builder
	fmt.Fprintf(&desc, "nIn=%d key=%x tapeseed-of-case=%d history=", nIn, key[:4], idx)
	status := "ok"
	var inputs []ot.Wire
	var r128 ot.Label
	var st *circuit.Streaming
	var live []int
	func() {
		defer func() {
			if p := recover(); p != nil {
				status = fmt.Sprintf("panic: %v", p)
			}
		}()
		ids := make([]circuit.Wire, nIn)
		for i := range ids {
			ids[i] = circuit.Wire(i)
		}
		var err error
		st, err = circuit.NewStreaming(&env.Config{Rand: tape}, key, ids, conn)
		if err != nil {
			status = "error: " + err.Error()
			return
		}
		inputs = st.GetInputs(0, nIn)
		r128 = xor(inputs[0].L0, inputs[0].L1)
		// the evaluator's view holds one label per input wire
		var ld ot.LabelData
		for i := 0; i < nIn; i++ {
			l := inputs[i].L0
			if r.Bool() {
				l = inputs[i].L1
			}
			if err := conn.SendLabel(l, &ld); err != nil {
				status = "error: " + err.Error()
				return
			}
		}
		live = make([]int, nIn)
		for i := range live {
			live[i] = i
		}
		nextID := nIn
		for s := 0; s < steps; s++ {
			cin := 1 + r.Intn(hxlib.MinInt(6, len(live)))
			c := genStepCircuit(r, cin, 1+r.Intn(24), mix)
			in := make([]circuit.Wire, cin)
			for k := range in {
				in[k] = circuit.Wire(live[r.Intn(len(live))])
				if k > 0 && r.Intn(3) == 0 {
					// the most recent results meet again
					in[k] = circuit.Wire(live[len(live)-1-r.Intn(hxlib.MinInt(3, len(live)))])
				}
			}
			nout := int(c.Outputs.Size())
			out := make([]circuit.Wire, nout)
			if s == wideFrom {
				nextID = 0x10000 + r.Intn(40)
			}
			for k := range out {
				out[k] = circuit.Wire(nextID)
				live = append(live, nextID)
				nextID++
			}
			maxID := 0
			for _, x := range append(append([]circuit.Wire(nil), in...), out...) {
				if int(x) > maxID {
					maxID = int(x)
				}
			}
			for _, v := range []int{circuit.OpCircuit, s, c.NumGates, c.NumWires, maxID + 1} {
				if err := conn.SendUint32(v); err != nil {
					status = "error: " + err.Error()
					return
				}
			}
			if err := callGarble(st, s, c, in, out); err != nil {
				status = "error: " + err.Error()
				return
			}
			fmt.Fprintf(&desc, "[%s in=%v out=%v]", hxlib.CircLine(c), in, out)
		}
	}()
	if err := conn.Close(); err != nil && status == "ok" {
		status = "error: " + err.Error()
	}
	d := desc.String()
	if status != "ok" {
		o.Fail("c04-session-failed", map[string]any{"mode": "direct", "case": idx, "desc": d, "err": status})
		o.Op("c04acc acc 0 -", "failed "+status)
		return
	}
	ab := buf.Bytes()
	o.Count("sessions_direct")
	if wideFrom >= 0 {
		o.Count("histories_with_wide_ids")
	}
	rr := u128{r128.D0, r128.D1}
	for _, w := range inputs {
		if offsetOf(w) != rr {
			o.Fail("c04-inconsistent-offset", map[string]any{"mode": "direct", "case": idx, "desc": d})
		}
	}
	single, pairs := scan(ab, rr)
	o.CountN("window_positions", len(ab)-15)
	if len(single) > 0 {
		o.Fail("c04-offset-transmitted", map[string]any{"mode": "direct", "case": idx, "desc": d, "offsets": single[:minI(len(single), 5)]})
	}
	blocks, gates, ok := parseBlocks(ab, 16*nIn, 0, false)
	if !ok {
		o.Fail("c04-stream-not-parsed", map[string]any{"mode": "direct", "case": idx, "desc": d})
		o.Op("c04acc acc 0 -", "unparsed")
		return
	}
	p := &parsed{key: key, nIn1: nIn, blocks: blocks, gates: gates}
	an := analyse(o, "direct", idx, 0, d, ab, p, r128, inputs, pairs)
	o.Op(an.accOp, an.accRes)
	if an.defOp != "" {
		o.Op(an.defOp, an.defRes)
	}
	// the shadow's pairs against the garbler's own wire table
	if an.sh != nil && an.unrecovered == 0 && an.unknown == 0 {
		bad := 0
		for _, id := range live {
			got, ok := an.sh.glob[id]
			want := st.GetInput(circuit.Wire(id))
			if !ok || !got.L0.Equal(want.L0) || !got.L1.Equal(want.L1) {
				bad++
			}
		}
		if bad > 0 {
			o.CountN("shadow_pairs_differ_from_garbler_wire_table", bad)
		} else {
			o.Count("shadow_pairs_equal_garbler_wire_table")
		}
	}
	if idx < 2 {
		o.Sample(map[string]any{"mode": "direct", "case": idx, "history": d, "stream_bytes": len(ab), "acc": an.accRes})
	}
}

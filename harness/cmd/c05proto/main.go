package main

import (
	"fmt"
	"os"
	"strings"
	"time"

	"verifharness/hxlib"
)

func main() {
	src := `package main
func main(a, b uint8) (uint8, uint8, uint8) {
	x := a >> 1
	y := x >> 1
	return y, a+b, b+3
}
`
	if len(os.Args) > 1 {
		b, _ := os.ReadFile(os.Args[1])
		src = string(b)
	}
	g := []string{"203"}
	e := []string{"77"}
	if len(os.Args) > 3 {
		g = strings.Split(os.Args[2], ",")
		e = strings.Split(os.Args[3], ",")
	}
	d := hxlib.NewDuplex(nil)
	r := hxlib.RunStreamSession(src, g, e, nil, hxlib.NewRng(1), d, 20*time.Second)
	fmt.Println(r.Status(), r.GErr, r.EErr, r.GPanic, r.EPanic)
	fmt.Println("G", hxlib.BigsString(r.GRes), hxlib.IODesc(r.GOut), hxlib.IONames(r.GOut))
	fmt.Println("E", hxlib.BigsString(r.ERes), hxlib.IODesc(r.EOut), hxlib.IONames(r.EOut))
	w := hxlib.StreamReference(src, g, e)
	fmt.Println("W", hxlib.BigsString(w.Res), hxlib.IODesc(w.Out), hxlib.IONames(w.Out), w.Err, w.Panic)
	prog, err := hxlib.CompileSSA(src, r.InputSizes)
	if err != nil {
		fmt.Println(err)
		return
	}
	prog.PP(os.Stdout)
}

package main

// Mode `multi`: SEVERAL constant expressions in ONE program.
//
// The property speaks about "the folded result as seen by the rest of the
// program".  A constant `ssa.Value` has no storage of its own: its identity is
// its Name (`gen.constants[c.Name]`, `Value.Equal`, the wire allocator), the
// wires of one name are created once (`Program.DefineConstants`) with the type
// of the instance registered first, and every later use of that name shares
// them (same width) or is re-widened from its own value (other width).  A
// single-expression program can therefore never show whether a folded result
// keeps its value next to the other constants of a real program.
//
// One case = 2..4 items.  An item is a typed constant `T(v)` or a folded
// operator `T(a) op T(b)` (`T(a) << k`, `-T(a)`), each of its own type,
// consumed together with a run-time input (`^ x`, `+ x`, `x -`), so that the
// constant is materialised as wires, and returned separately.  Two styles:
// `inline` (`r := E ^ x`) and `vars` (operands and result bound to variables
// first: `ca := T(a); cb := T(b); s := ca op cb; r := s ^ x` — every `:=`
// registers its constant as well).  The values of the first two items are an
// adversarial PAIR for the identity of constants (collide.go: equal digit
// strings in two bases, equal low 32 / 64 bits, same value at another width or
// signedness, negative versus large positive pattern, the value that reads
// like the other one's printed text); the other items are random.
//
// Oracle: the run-time variant of the same program (operands are inputs).  A
// difference that the item shows in the same way when it is compiled ALONE is
// the business of the `fold` oracle (single-expression defect, attributed
// there); a difference that appears only in company is reported here as
// `c12-multi-differs`.
//
// Op line   c12 multi <style> <item> <item> ...      item = op:k:n:a:b:aform:bform:consumer
// result    ok <hex of output i at x = 0> ...        (Model/FoldTable.lean `multiOutputs`)

import (
	"fmt"
	"math/big"
	"os"
	"strings"

	"verifharness/hxlib"
)

type mItem struct {
	c    foldCase // op.sym == "plain": the typed constant T(a) alone
	cons string   // xor | add | sub
}

type multiCase struct {
	style string // inline | vars
	items []mItem
	class string // collision class of items 0 and 1
}

var plainOp = opInfo{sym: "plain", unary: true}

func (it mItem) token() string {
	c := it.c
	return fmt.Sprintf("%s:%s:%d:%s:%s:%s:%s:%s", c.op.sym, c.t.su(), c.t.n, c.a, c.b,
		effForm(c.t, c.a, c.aform), c.bEffForm(), it.cons)
}

func (mc multiCase) line() string {
	toks := make([]string, len(mc.items))
	for i, it := range mc.items {
		toks[i] = it.token()
	}
	return "c12 multi " + mc.style + " " + strings.Join(toks, " ")
}

func parseMultiLine(s string) (multiCase, error) {
	f := strings.Fields(s)
	if len(f) >= 2 && f[0] == "c12" && f[1] == "multi" {
		f = f[2:]
	}
	if len(f) < 2 {
		return multiCase{}, fmt.Errorf("multi: need <style> <item>...")
	}
	mc := multiCase{style: f[0], class: "replay"}
	for _, tok := range f[1:] {
		p := strings.Split(tok, ":")
		if len(p) != 8 {
			return mc, fmt.Errorf("multi: bad item %q", tok)
		}
		var it mItem
		var n int
		fmt.Sscan(p[2], &n)
		it.c.t = ityp{p[1] == "s", n}
		if p[0] == "plain" {
			it.c.op = plainOp
		} else {
			op, ok := opByName(p[0], false)
			if !ok {
				return mc, fmt.Errorf("multi: unknown operator %q", p[0])
			}
			it.c.op = op
		}
		var ok1, ok2 bool
		it.c.a, ok1 = new(big.Int).SetString(p[3], 10)
		it.c.b, ok2 = new(big.Int).SetString(p[4], 10)
		if !ok1 || !ok2 {
			return mc, fmt.Errorf("multi: bad number in %q", tok)
		}
		it.c.aform, it.c.bform = p[5], p[6]
		it.cons = p[7]
		mc.items = append(mc.items, it)
	}
	return mc, nil
}

func consExpr(cons, e, x string) string {
	switch cons {
	case "add":
		return e + " + " + x
	case "sub":
		return x + " - " + e
	}
	return e + " ^ " + x
}

// constProgram renders the constant variant of the items `idx` of the case
// (all of them, or one alone).  Inputs: one x per item.
func (mc multiCase) constProgram(idx []int) string {
	var ps, rs, rets []string
	var body strings.Builder
	for _, i := range idx {
		it := mc.items[i]
		c := it.c
		T := c.t.name()
		ps = append(ps, fmt.Sprintf("x%d %s", i, T))
		rs = append(rs, T)
		rets = append(rets, fmt.Sprintf("r%d", i))
		A := constExpr(c.t, c.a, c.aform)
		B := c.b.String()
		if !c.op.shift {
			B = constExpr(c.t, c.b, c.bform)
		}
		if mc.style == "vars" {
			fmt.Fprintf(&body, "\tca%d := %s\n", i, A)
			e := fmt.Sprintf("ca%d", i)
			switch {
			case c.op.sym == "plain":
			case c.op.unary:
				fmt.Fprintf(&body, "\ts%d := %s\n", i, c.op.expr(e, ""))
				e = fmt.Sprintf("s%d", i)
			case c.op.shift:
				fmt.Fprintf(&body, "\ts%d := %s\n", i, c.op.expr(e, B))
				e = fmt.Sprintf("s%d", i)
			default:
				fmt.Fprintf(&body, "\tcb%d := %s\n\ts%d := %s\n", i, B, i, c.op.expr(e, fmt.Sprintf("cb%d", i)))
				e = fmt.Sprintf("s%d", i)
			}
			fmt.Fprintf(&body, "\tr%d := %s\n", i, consExpr(it.cons, e, fmt.Sprintf("x%d", i)))
		} else {
			e := A
			if c.op.sym != "plain" {
				e = c.op.expr(A, B)
			}
			fmt.Fprintf(&body, "\tr%d := %s\n", i, consExpr(it.cons, e, fmt.Sprintf("x%d", i)))
		}
	}
	return fmt.Sprintf("package main\n\nfunc main(%s) (%s) {\n%s\treturn %s\n}\n",
		strings.Join(ps, ", "), strings.Join(rs, ", "), body.String(), strings.Join(rets, ", "))
}

// rtProgram: the same operators on run-time inputs.  Inputs per item: a, [b], x.
func (mc multiCase) rtProgram() string {
	var ps, rs, rets []string
	var body strings.Builder
	for i, it := range mc.items {
		c := it.c
		T := c.t.name()
		ps = append(ps, fmt.Sprintf("a%d %s", i, T))
		e := fmt.Sprintf("a%d", i)
		switch {
		case c.op.sym == "plain":
		case c.op.unary:
			e = c.op.expr(e, "")
		case c.op.shift:
			e = c.op.expr(e, c.b.String())
		default:
			ps = append(ps, fmt.Sprintf("b%d %s", i, T))
			e = c.op.expr(e, fmt.Sprintf("b%d", i))
		}
		ps = append(ps, fmt.Sprintf("x%d %s", i, T))
		rs = append(rs, T)
		rets = append(rets, fmt.Sprintf("r%d", i))
		fmt.Fprintf(&body, "\tr%d := %s\n", i, consExpr(it.cons, e, fmt.Sprintf("x%d", i)))
	}
	return fmt.Sprintf("package main\n\nfunc main(%s) (%s) {\n%s\treturn %s\n}\n",
		strings.Join(ps, ", "), strings.Join(rs, ", "), body.String(), strings.Join(rets, ", "))
}

func (mc multiCase) rtInputs(xs []*big.Int) []*big.Int {
	var in []*big.Int
	for i, it := range mc.items {
		c := it.c
		in = append(in, c.t.enc(c.a))
		if c.op.sym != "plain" && !c.op.unary && !c.op.shift {
			in = append(in, c.t.enc(c.b))
		}
		in = append(in, xs[i])
	}
	return in
}

var multiRtCache = map[string]compiledProg{}

func compileCached(src string) compiledProg {
	if p, ok := multiRtCache[src]; ok {
		return p
	}
	p := compileReal(src)
	p.prog = nil
	if len(multiRtCache) >= 400 {
		multiRtCache = map[string]compiledProg{}
	}
	multiRtCache[src] = p
	return p
}

// itemOK: the item is accepted alone in both variants (a rejected constant
// variant is a single-expression matter, reported by the `fold` oracle).
func (mc multiCase) itemOK(i int) bool {
	one := multiCase{style: mc.style, items: mc.items[i : i+1]}
	if compileCached(one.rtProgram()).err != "" {
		return false
	}
	return compileCached(one.constProgram([]int{0})).err == ""
}

// printedValue is the number the compiler prints for item i's constant (the
// folded result for an operator), as far as the harness can tell without the
// compiler: only used to describe a failure.
func describeItems(mc multiCase) []string {
	var d []string
	for _, it := range mc.items {
		d = append(d, it.token())
	}
	return d
}

func runMulti(o *hxlib.Out, r *hxlib.Rng, mc multiCase, verbose bool) {
	// drop the items that are not accepted alone
	var keep []mItem
	for i := range mc.items {
		if mc.itemOK(i) {
			keep = append(keep, mc.items[i])
		} else {
			o.Count("multi_item_dropped_rejected_alone")
		}
	}
	mc.items = keep
	if len(mc.items) < 2 {
		o.Count("multi_case_skipped_lt2_items")
		return
	}
	all := make([]int, len(mc.items))
	for i := range all {
		all[i] = i
	}
	csrc := mc.constProgram(all)
	cp := compileReal(csrc)
	rp := compileCached(mc.rtProgram())
	o.Count("multi_cases")
	o.Count("multi_class_" + mc.class)
	o.Count("multi_style_" + mc.style)
	o.Count(fmt.Sprintf("multi_items_%d", len(mc.items)))
	if verbose {
		fmt.Fprintf(os.Stderr, "--- constant variant\n%s--- run-time variant\n%s", csrc, mc.rtProgram())
	}
	base := func() map[string]any {
		return map[string]any{
			"style": mc.style, "class": mc.class, "items": describeItems(mc),
			"const_program": csrc, "multi_spec": mc.line(),
			"replay_cmd": "c12 multi -extra \"" + strings.TrimPrefix(mc.line(), "c12 multi ") + "\"",
		}
	}
	if rp.err != "" {
		o.Count("multi_rt_rejected")
		return
	}
	if cp.err != "" {
		// every item is accepted alone
		d := base()
		d["detail"] = cp.err
		if errClass(cp.err) == "panic" {
			store.add(o, "c12-multi-panic", d)
		} else {
			store.add(o, "c12-multi-rejected", d)
		}
		o.Op(mc.line(), errClass(cp.err))
		return
	}
	// x vectors: all zero (the op line), all ones, random
	vecs := make([][]*big.Int, 3)
	for k := range vecs {
		vecs[k] = make([]*big.Int, len(mc.items))
		for i, it := range mc.items {
			switch k {
			case 0:
				vecs[k][i] = big.NewInt(0)
			case 1:
				vecs[k][i] = it.c.t.enc(big.NewInt(-1))
			default:
				vecs[k][i] = it.c.t.enc(randValue(r, it.c.t))
			}
		}
	}
	alone := make([]compiledProg, len(mc.items))
	for i := range mc.items {
		one := multiCase{style: mc.style, items: mc.items[i : i+1]}
		alone[i] = compileCached(one.constProgram([]int{0}))
	}
	for k, xs := range vecs {
		co, e1 := compute(cp.circ, xs)
		ro, e2 := compute(rp.circ, mc.rtInputs(xs))
		o.Count("evaluations")
		if k == 0 {
			if e1 != "" {
				o.Op(mc.line(), errClass(e1))
			} else {
				o.Op(mc.line(), "ok "+strings.ReplaceAll(hexs(co), ",", " "))
			}
		}
		if e1 != "" || e2 != "" {
			d := base()
			d["detail"] = e1 + " / " + e2
			store.add(o, "c12-multi-compute-failed", d)
			return
		}
		if verbose {
			fmt.Fprintf(os.Stderr, "x=[%s] const=[%s] rt=[%s]\n", hexs(xs), hexs(co), hexs(ro))
		}
		for i := range mc.items {
			if co[i].Cmp(ro[i]) == 0 {
				o.Count("multi_output_agrees")
				continue
			}
			ao, e3 := compute(alone[i].circ, xs[i:i+1])
			if e3 == "" && ao[0].Cmp(co[i]) == 0 {
				// the item is wrong in the same way without any company
				o.Count("multi_output_wrong_alone_too")
				continue
			}
			d := base()
			d["output"] = i
			d["item"] = mc.items[i].token()
			d["x"] = hexs(xs)
			d["const_out"] = co[i].Text(16)
			d["rt_out"] = ro[i].Text(16)
			if e3 == "" {
				d["alone_out"] = ao[0].Text(16)
				d["alone_agrees_with_rt"] = bs(ao[0].Cmp(ro[i]) == 0)
			}
			d["signed"] = bs(mc.items[i].c.t.signed)
			d["n_class"] = nClass(mc.items[i].c.t.n)
			store.add(o, "c12-multi-differs", d)
			o.Count("multi_differs")
		}
	}
}

// ---------------------------------------------------------------- generator

// exprFor builds an item of type t whose (mathematical) result is v: the
// typed constant itself or a folded operator.
func exprFor(r *hxlib.Rng, t ityp, v *big.Int) foldCase {
	c := foldCase{t: t, op: plainOp, a: new(big.Int).Set(v), b: big.NewInt(0),
		aform: []string{"cast", "neg"}[r.Intn(2)], bform: []string{"cast", "neg"}[r.Intn(2)]}
	mk := func(sym string, a, b *big.Int) foldCase {
		op, _ := opByName(sym, false)
		d := c
		d.op, d.a, d.b = op, a, b
		if !t.representable(a) || (!op.shift && !op.unary && !t.representable(b)) {
			return c
		}
		return d
	}
	switch r.Intn(8) {
	case 0, 1: // plain
		return c
	case 2: // a + b, half and half (the demonstration shape 2^63 + 2^63 = 2^64)
		h := new(big.Int).Rsh(v, 1)
		return mk("+", h, new(big.Int).Sub(v, h))
	case 3: // a + b, random split
		var b *big.Int
		if v.Sign() > 0 {
			b = randBits(r, v.BitLen())
			b.Mod(b, new(big.Int).Add(v, one))
		} else {
			b = big.NewInt(int64(r.Intn(5)))
		}
		return mk("+", new(big.Int).Sub(v, b), b)
	case 4: // a - b
		b := big.NewInt(int64(1 + r.Intn(1000)))
		return mk("-", new(big.Int).Add(v, b), b)
	case 5: // a | b with disjoint masks
		if v.Sign() < 0 {
			return c
		}
		m := randBits(r, v.BitLen()+1)
		return mk("|", new(big.Int).And(v, m), new(big.Int).AndNot(v, m))
	case 6: // a ^ b
		if v.Sign() < 0 {
			return c
		}
		m := randBits(r, v.BitLen())
		return mk("^", new(big.Int).Xor(v, m), m)
	default: // a << k
		if v.Sign() <= 0 {
			return c
		}
		tz := int(v.TrailingZeroBits())
		if tz == 0 {
			return c
		}
		k := 1 + r.Intn(tz)
		return mk("<<", new(big.Int).Rsh(v, uint(k)), big.NewInt(int64(k)))
	}
}

var multiCons = []string{"xor", "add", "sub"}

func randomItem(r *hxlib.Rng) mItem {
	t := ityp{r.Bool(), pickWidth(r)}
	v := randValue(r, t)
	return mItem{c: exprFor(r, t, v), cons: multiCons[r.Intn(len(multiCons))]}
}

// genMulti: items 0/1 from the collision pair, 0..2 random items around them.
func genMulti(r *hxlib.Rng, p collPair) multiCase {
	mc := multiCase{style: []string{"inline", "vars"}[r.Intn(2)], class: p.class}
	a := mItem{c: exprFor(r, p.t1, p.v1), cons: multiCons[r.Intn(len(multiCons))]}
	b := mItem{c: exprFor(r, p.t2, p.v2), cons: multiCons[r.Intn(len(multiCons))]}
	extra := r.Intn(3)
	switch r.Intn(3) {
	case 0:
		mc.items = []mItem{a, b}
	case 1:
		mc.items = []mItem{b, a}
	default:
		mc.items = []mItem{a}
		if extra == 0 {
			extra = 1
		}
		mc.items = append(mc.items, randomItem(r))
		mc.items = append(mc.items, b)
		extra--
	}
	for ; extra > 0 && len(mc.items) < 4; extra-- {
		mc.items = append(mc.items, randomItem(r))
	}
	return mc
}

// multiCorpus: cases kept from earlier runs (one line each, the format of
// multiCase.line without the "c12 multi" prefix).  The first is the witness of
// Mpc.C12_multi_rewiden_witness: uint100(2^65) ^ x0 registers the name at
// width 100, int101(2^65) + x1 is then re-built from its own mpa size.
var multiCorpus = []string{
	"inline plain:u:100:36893488147419103232:0:pos:pos:xor plain:s:101:36893488147419103232:0:pos:pos:add",
	"vars plain:s:101:36893488147419103232:0:pos:pos:add plain:u:100:36893488147419103232:0:pos:pos:xor",
	"inline plain:u:64:9223372036854775808:0:pos:pos:add plain:s:65:9223372036854775808:0:pos:pos:xor",
}

func modeMulti(cf *hxlib.CommonFlags, o *hxlib.Out) {
	if strings.TrimSpace(cf.Extra) != "" {
		// exact replay of one case
		mc, err := parseMultiLine(cf.Extra)
		if err != nil {
			fmt.Fprintln(os.Stderr, err)
			os.Exit(2)
		}
		runMulti(o, hxlib.NewRng(cf.Seed), mc, true)
		for _, fl := range store.fails {
			fmt.Fprintf(os.Stderr, "FAIL %v\n", fl)
		}
		return
	}
	if cf.Only < 0 {
		// minimised past failures run first, on their own generator so that
		// the random cases below are the same with and without them
		cr := hxlib.NewRng(cf.Seed ^ 0x636f72707573)
		for _, ln := range multiCorpus {
			mc, err := parseMultiLine(ln)
			if err != nil {
				fmt.Fprintln(os.Stderr, err)
				os.Exit(2)
			}
			mc.class = "corpus"
			runMulti(o, cr.Fork(), mc, false)
		}
	}
	r := hxlib.NewRng(cf.Seed ^ 0x6d756c7469)
	pairs := collisionPairs(r.Fork(), cf.N)
	for i, p := range pairs {
		cr := r.Fork()
		if cf.Only >= 0 && i != cf.Only {
			continue
		}
		runMulti(o, cr, genMulti(cr, p), cf.Only >= 0)
	}
}

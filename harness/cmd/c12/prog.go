package main

// Program generation, compilation with the REAL compiler and evaluation of
// the constant and the run-time variant of one expression.

import (
	"fmt"
	"math/big"
	"strings"

	"github.com/markkurossi/mpc/circuit"
	"github.com/markkurossi/mpc/compiler"
	"github.com/markkurossi/mpc/compiler/mpa"
	"github.com/markkurossi/mpc/compiler/ssa"
	"github.com/markkurossi/mpc/compiler/utils"
	"github.com/markkurossi/mpc/types"
)

// ityp is an MPCL integer type intN / uintN (or bool when n == 0).
type ityp struct {
	signed bool
	n      int
}

func (t ityp) isBool() bool { return t.n == 0 }
func (t ityp) name() string {
	if t.isBool() {
		return "bool"
	}
	if t.signed {
		return fmt.Sprintf("int%d", t.n)
	}
	return fmt.Sprintf("uint%d", t.n)
}
func (t ityp) su() string {
	if t.isBool() {
		return "b"
	}
	if t.signed {
		return "s"
	}
	return "u"
}

var one = big.NewInt(1)

func pow2(n int) *big.Int { return new(big.Int).Lsh(one, uint(n)) }

func (t ityp) min() *big.Int {
	if t.isBool() || !t.signed {
		return big.NewInt(0)
	}
	return new(big.Int).Neg(pow2(t.n - 1))
}
func (t ityp) max() *big.Int {
	if t.isBool() {
		return big.NewInt(1)
	}
	if t.signed {
		return new(big.Int).Sub(pow2(t.n-1), one)
	}
	return new(big.Int).Sub(pow2(t.n), one)
}
func (t ityp) representable(v *big.Int) bool {
	return v.Cmp(t.min()) >= 0 && v.Cmp(t.max()) <= 0
}

// enc is the N-bit two's complement encoding of v (a non-negative number).
func (t ityp) enc(v *big.Int) *big.Int {
	n := t.n
	if t.isBool() {
		n = 1
	}
	return new(big.Int).Mod(v, pow2(n))
}

// constExpr writes the value v as a typed constant expression of type t.
//
//	form "cast": T(v) resp. T(-|v|)        (conversion of the untyped constant)
//	form "neg":  -T(|v|) for negative v    (unary minus applied to the typed constant)
func constExpr(t ityp, v *big.Int, form string) string {
	if t.isBool() {
		if v.Sign() != 0 {
			return "true"
		}
		return "false"
	}
	abs := new(big.Int).Abs(v)
	if v.Sign() >= 0 {
		return fmt.Sprintf("%s(%s)", t.name(), abs.String())
	}
	if form == "neg" && t.representable(abs) {
		return fmt.Sprintf("(-%s(%s))", t.name(), abs.String())
	}
	return fmt.Sprintf("%s(-%s)", t.name(), abs.String())
}

// effForm is the form constExpr really used.
func effForm(t ityp, v *big.Int, form string) string {
	if t.isBool() || v.Sign() >= 0 {
		return "pos"
	}
	if form == "neg" && t.representable(new(big.Int).Abs(v)) {
		return "neg"
	}
	return "cast"
}

type opInfo struct {
	sym    string // MPCL operator
	unary  bool
	shift  bool // right operand is a constant count in both variants
	cmp    bool // result is bool
	onBool bool // operands are bool
}

var intOps = []opInfo{
	{sym: "+"}, {sym: "-"}, {sym: "*"}, {sym: "/"}, {sym: "%"},
	{sym: "&"}, {sym: "|"}, {sym: "^"}, {sym: "&^"},
	{sym: "<<", shift: true}, {sym: ">>", shift: true},
	{sym: "<", cmp: true}, {sym: "<=", cmp: true}, {sym: ">", cmp: true}, {sym: ">=", cmp: true},
	{sym: "==", cmp: true}, {sym: "!=", cmp: true},
	{sym: "neg", unary: true},
}
var boolOps = []opInfo{
	{sym: "==", cmp: true, onBool: true}, {sym: "!=", cmp: true, onBool: true},
	{sym: "&&", cmp: true, onBool: true}, {sym: "||", cmp: true, onBool: true},
	{sym: "not", unary: true, cmp: true, onBool: true},
}

func opByName(s string, onBool bool) (opInfo, bool) {
	l := intOps
	if onBool {
		l = boolOps
	}
	for _, o := range l {
		if o.sym == s {
			return o, true
		}
	}
	return opInfo{}, false
}

// expr renders `l op r`.
func (o opInfo) expr(l, r string) string {
	switch {
	case o.sym == "neg":
		return "(-" + l + ")"
	case o.sym == "not":
		return "(!" + l + ")"
	}
	return "(" + l + " " + o.sym + " " + r + ")"
}

// consumers of an integer-typed and of a bool-typed result.  %R is the
// expression, x (same integer type) and p (bool) are run-time inputs.
type consumer struct {
	name string
	tmpl string
	bool bool // result of the consumer is bool
}

var intConsumers = []consumer{
	{"ret", "%R", false},
	{"add", "%R + x", false},
	{"sub", "x - %R", false},
	{"mul", "%R * x", false},
	{"div", "%R / x", false},
	{"divby", "x / %R", false},
	{"mod", "%R % x", false},
	{"lt", "%R < x", true},
	{"ge", "x >= %R", true},
	{"eq", "%R == x", true},
	{"shr", "%R >> 1", false},
	{"shl", "%R << 1", false},
	{"and", "%R & x", false},
}
var boolConsumers = []consumer{
	{"ret", "%R", true},
	{"land", "%R && p", true},
	{"lor", "p || %R", true},
	{"eq", "%R == p", true},
	{"not", "!%R", true},
}

// buildProgram renders main() returning one value per consumer.
//
//	constant variant: operands are typed constant expressions
//	run-time variant: operands are the inputs a, b of type t
func buildProgram(t ityp, rexpr string, resBool bool, cons []consumer, runtime bool, unary bool, shift bool) string {
	var sb strings.Builder
	sb.WriteString("package main\n\nfunc main(")
	var params []string
	if runtime {
		params = append(params, "a "+t.name())
		if !unary && !shift {
			params = append(params, "b "+t.name())
		}
	}
	xt := t
	if t.isBool() {
		xt = ityp{false, 8}
	}
	params = append(params, "x "+xt.name(), "p bool")
	sb.WriteString(strings.Join(params, ", "))
	sb.WriteString(") (")
	for i, c := range cons {
		if i > 0 {
			sb.WriteString(", ")
		}
		if c.bool {
			sb.WriteString("bool")
		} else {
			sb.WriteString(t.name())
		}
	}
	sb.WriteString(") {\n\treturn ")
	for i, c := range cons {
		if i > 0 {
			sb.WriteString(", ")
		}
		sb.WriteString(strings.ReplaceAll(c.tmpl, "%R", rexpr))
	}
	sb.WriteString("\n}\n")
	return sb.String()
}

type compiledProg struct {
	prog *ssa.Program
	circ *circuit.Circuit
	err  string // "" | "error: ..." | "panic: ..."
}

func params() *utils.Params {
	p := utils.NewParams()
	p.Warn.DisableAll()
	return p
}

// compileReal runs the real compiler (CompileSSA + Program.CompileCircuit =
// what Compiler.Compile does), recovering panics.
func compileReal(src string) (res compiledProg) {
	defer func() {
		if e := recover(); e != nil {
			res = compiledProg{err: "panic: " + clip(fmt.Sprint(e), 160)}
		}
	}()
	p := params()
	prog, _, err := compiler.New(p).CompileSSA("{data}", strings.NewReader(src), nil)
	if err != nil {
		return compiledProg{err: "error: " + clip(err.Error(), 160)}
	}
	circ, err := prog.CompileCircuit(p)
	if err != nil {
		return compiledProg{prog: prog, err: "error: " + clip(err.Error(), 160)}
	}
	return compiledProg{prog: prog, circ: circ}
}

func compute(c *circuit.Circuit, in []*big.Int) (out []*big.Int, err string) {
	defer func() {
		if e := recover(); e != nil {
			err = "panic: " + clip(fmt.Sprint(e), 160)
		}
	}()
	o, e := c.Compute(in)
	if e != nil {
		return nil, "error: " + clip(e.Error(), 160)
	}
	return o, ""
}

var arithOps = map[ssa.Operand]bool{
	ssa.Iadd: true, ssa.Uadd: true, ssa.Isub: true, ssa.Usub: true, ssa.Bor: true, ssa.Bxor: true, ssa.Band: true,
	ssa.Bclr: true, ssa.Imult: true, ssa.Umult: true, ssa.Idiv: true, ssa.Udiv: true, ssa.Imod: true, ssa.Umod: true,
	ssa.Lshift: true, ssa.Rshift: true, ssa.Srshift: true, ssa.Ilt: true, ssa.Ult: true, ssa.Ile: true, ssa.Ule: true,
	ssa.Igt: true, ssa.Ugt: true, ssa.Ige: true, ssa.Uge: true, ssa.Eq: true, ssa.Neq: true, ssa.And: true, ssa.Or: true,
	ssa.Not: true,
}

// unfoldedConstInstrs counts instructions all of whose inputs are constants
// (an operator on constants that was NOT folded).
func unfoldedConstInstrs(prog *ssa.Program) int {
	n := 0
	for _, st := range prog.Steps {
		if !arithOps[st.Instr.Op] {
			continue
		}
		all := len(st.Instr.In) > 0
		for _, in := range st.Instr.In {
			if !in.Const {
				all = false
			}
		}
		if all {
			n++
		}
	}
	return n
}

// foldedConstant returns the constant moved into the first return value.
func foldedConstant(prog *ssa.Program) (ssa.Value, bool) {
	for _, st := range prog.Steps {
		if st.Instr.Op == ssa.Mov && st.Instr.Out != nil && strings.HasPrefix(st.Instr.Out.Name, "%ret0") &&
			len(st.Instr.In) == 1 {
			return st.Instr.In[0], st.Instr.In[0].Const
		}
	}
	return ssa.Value{}, false
}

// describeConst renders a folded constant canonically:
//
//	i|u|b <Type.Bits> <MinBits> <mpa bits> <value (decimal, as mpa prints it)>
func describeConst(v ssa.Value) string {
	switch cv := v.ConstValue.(type) {
	case bool:
		if cv {
			return "b 1"
		}
		return "b 0"
	case *mpa.Int:
		k := "u"
		if v.Type.Type == types.TInt {
			k = "i"
		} else if v.Type.Type != types.TUint {
			k = "?" + v.Type.Type.String()
		}
		return fmt.Sprintf("%s %d %d %d %s", k, v.Type.Bits, v.Type.MinBits, cv.TypeSize(), cv.String())
	}
	return fmt.Sprintf("other %T", v.ConstValue)
}

func clip(s string, n int) string {
	s = strings.ReplaceAll(s, "\n", " ")
	if len(s) > n {
		return s[:n] + "..."
	}
	return s
}

func errClass(e string) string {
	switch {
	case e == "":
		return "ok"
	case strings.HasPrefix(e, "panic"):
		return "panic"
	default:
		return "error"
	}
}

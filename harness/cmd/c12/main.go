package main

// C12 harness: constant folding (compiler/mpa, compiler/ast/eval.go,
// ssa.Generator.Constant, Program.DefineConstants/Circuit) versus the
// run-time circuit of the same operator.
//
//	c12 <mode> -seed S -n N -tier T -ops F -out F -meta F [-extra "..."]
//
// modes
//
//	fold  implementation-side ORACLE: for generated (op, type, a, b) build the
//	      constant variant (typed constant operands) and the run-time variant
//	      (same values as inputs) of one MPCL program with 13 (int) / 5 (bool)
//	      consumers of the result, compile both with the real compiler,
//	      evaluate with Circuit.Compute, compare every output bit.  Emits
//	      `fold` op lines (the folded constant as found in the SSA program:
//	      type, Bits, MinBits, mpa size, value) and `rt` op lines (output of
//	      the run-time circuit) for the Lean model.
//	mpa   correspondence on the exported mpa API.
//	one   -extra "<op> <s|u|b> <n> <a> <b> <aform> <bform>": replay one case verbosely.
//	alias two constants of one value name at two widths (alias.go)
//	multi 2..4 constant expressions coexisting in one program, values adversarial for the
//	      identity of constants (multi.go, collide.go); -extra "<style> <item>..." replays one case
//	ident the real ssa.Generator.Constant on the same adversarial pairs: one Name only for one
//	      bit pattern (collide.go); -extra "<s|u> <n1> <v1> <s|u> <n2> <v2>" replays one pair
//	mpah  histories of 1..5 mpa calls SHARING their operand objects (every receiver / operand aliasing
//	      pattern); every object observed after every call: a call writes its receiver only (mpahist.go);
//	      -extra "<spec>,<spec>.. <step>/<step>.." replays one history
//	uses  one constant bound to a name and used by several folds and run-time uses, against the same
//	      program with fresh literals and the run-time variant (uses.go); -extra "<style> <s|u> <n>
//	      <decls> <folds> <consumers>" replays one program

import (
	"fmt"
	"math/big"
	"os"
	"strings"

	"verifharness/hxlib"
)

type foldCase struct {
	t            ityp
	op           opInfo
	a, b         *big.Int // b = shift count for shifts; ignored for unary
	aform, bform string
	heavy        bool // wide case with the multiplying / dividing consumers
}

func (c foldCase) key() string {
	return fmt.Sprintf("%s %s %d %s %s %s %s", c.op.sym, c.t.su(), c.t.n, c.a, c.b,
		effForm(c.t, c.a, c.aform), c.bEffForm())
}

func (c foldCase) bEffForm() string {
	if c.op.unary || c.op.shift {
		return "pos"
	}
	return effForm(c.t, c.b, c.bform)
}

// ---------------------------------------------------------------- fails

type failStore struct {
	seen  map[string]int
	fails []map[string]any
}

var classFields = []string{"first_narrower", "second_signed", "second_is_folded_sum", "rewidening_changes_value", "nonneg_value_with_top_bit_of_its_mpa_size_set", "output", "op", "signed", "n_class", "consumer", "a_neg", "b_neg", "a_top", "b_top", "aform", "bform",
	"overflow", "b_zero", "count_ge_width", "stage", "a_wide", "b_wide", "res_top"}

func (fs *failStore) add(o *hxlib.Out, sig string, d map[string]any) {
	key := sig
	for _, k := range classFields {
		if v, ok := d[k]; ok {
			key += fmt.Sprintf("|%s=%v", k, v)
		}
	}
	o.Count("oracle_fail")
	o.Count("fail_" + sig)
	fs.seen[key]++
	if fs.seen[key] > 2 || len(fs.fails) >= 3000 {
		o.Count("oracle_fail_repeat_of_reported_class")
		return
	}
	d["sig"] = sig
	fs.fails = append(fs.fails, d)
}

var store = &failStore{seen: map[string]int{}}

// ---------------------------------------------------------------- oracle

func nClass(n int) string {
	switch {
	case n == 0:
		return "bool"
	case n < 32:
		return "lt32"
	case n == 32:
		return "32"
	case n < 64:
		return "33..63"
	case n == 64:
		return "64"
	default:
		return "gt64"
	}
}

func bs(b bool) string {
	if b {
		return "true"
	}
	return "false"
}

// exact is the mathematical (unbounded) result where that makes sense.
func exact(c foldCase) *big.Int {
	r := new(big.Int)
	switch c.op.sym {
	case "+":
		return r.Add(c.a, c.b)
	case "-":
		return r.Sub(c.a, c.b)
	case "*":
		return r.Mul(c.a, c.b)
	case "neg":
		return r.Neg(c.a)
	case "<<":
		if c.b.BitLen() > 12 {
			return nil
		}
		return r.Lsh(c.a, uint(c.b.Int64()))
	case "/":
		if c.b.Sign() == 0 {
			return nil
		}
		return r.Quo(c.a, c.b)
	}
	return nil
}

func (c foldCase) classify() map[string]any {
	t := c.t
	d := map[string]any{
		"op": c.op.sym, "signed": bs(t.signed), "n": t.n, "n_class": nClass(t.n),
		"a": c.a.String(), "b": c.b.String(),
		"aform": effForm(t, c.a, c.aform), "bform": c.bEffForm(),
		"a_neg": bs(c.a.Sign() < 0), "b_neg": bs(c.b.Sign() < 0 && !c.op.unary && !c.op.shift),
		"replay_cmd": fmt.Sprintf("c12 one -extra \"%s %s %d %s %s %s %s\"", c.op.sym, t.su(), t.n, c.a, c.b,
			effForm(t, c.a, c.aform), c.bEffForm()),
	}
	if t.isBool() {
		d["signed"] = "bool"
		return d
	}
	d["a_top"] = bs(t.enc(c.a).Bit(t.n-1) == 1)
	d["a_wide"] = bs(t.enc(c.a).BitLen() > 64)
	if !c.op.unary && !c.op.shift {
		d["b_top"] = bs(t.enc(c.b).Bit(t.n-1) == 1)
		d["b_wide"] = bs(t.enc(c.b).BitLen() > 64)
	}
	if e := exact(c); e != nil {
		d["overflow"] = bs(!t.representable(e))
	}
	if c.op.sym == "/" || c.op.sym == "%" {
		d["b_zero"] = bs(c.b.Sign() == 0)
	}
	if c.op.shift {
		d["count_ge_width"] = bs(c.b.Cmp(big.NewInt(int64(t.n))) >= 0)
	}
	return d
}

type rtKey struct {
	t     ityp
	op    string
	count string
	cons  string
}

var rtCache = map[rtKey]compiledProg{}

func (c foldCase) exprs() (constExprS, rtExprS string) {
	A := constExpr(c.t, c.a, c.aform)
	var B, rb string
	switch {
	case c.op.unary:
	case c.op.shift:
		B, rb = c.b.String(), c.b.String()
	default:
		B, rb = constExpr(c.t, c.b, c.bform), "b"
	}
	return c.op.expr(A, B), c.op.expr("a", rb)
}

// consumers of the case's result.  Divider / multiplier circuits of more than
// 64 bits cost seconds to compile, so wide cases carry them only when `heavy`.
func (c foldCase) consumers() []consumer {
	if c.op.cmp {
		return boolConsumers
	}
	if c.t.n > 64 && !c.heavy {
		var cs []consumer
		for _, x := range intConsumers {
			switch x.name {
			case "mul", "div", "divby", "mod":
			default:
				cs = append(cs, x)
			}
		}
		return cs
	}
	return intConsumers
}

func compileRT(c foldCase, cons []consumer, rexpr string) compiledProg {
	names := make([]string, len(cons))
	for i, x := range cons {
		names[i] = x.name
	}
	k := rtKey{c.t, c.op.sym, "", strings.Join(names, ",")}
	if c.op.shift {
		k.count = c.b.String()
	}
	if p, ok := rtCache[k]; ok {
		return p
	}
	p := compileReal(buildProgram(c.t, rexpr, c.op.cmp, cons, true, c.op.unary, c.op.shift))
	p.prog = nil
	if len(rtCache) >= 150 {
		rtCache = map[rtKey]compiledProg{}
	}
	rtCache[k] = p
	return p
}

func probeType(t ityp) string {
	if t.signed {
		return "int512"
	}
	return "uint512"
}

func hexs(v []*big.Int) string {
	s := make([]string, len(v))
	for i, x := range v {
		s[i] = x.Text(16)
	}
	return strings.Join(s, ",")
}

// xValues: consumer inputs derived from the case generator.
func xValues(r *hxlib.Rng, t ityp) []*big.Int {
	xt := t
	if t.isBool() {
		xt = ityp{false, 8}
	}
	vs := []*big.Int{big.NewInt(3)}
	if xt.n < 3 {
		vs[0] = big.NewInt(1)
	}
	if xt.signed && xt.n > 3 {
		vs = append(vs, big.NewInt(-5))
	} else {
		vs = append(vs, xt.max())
	}
	vs = append(vs, randValue(r, xt))
	for i := range vs {
		if !xt.representable(vs[i]) {
			vs[i] = big.NewInt(1)
		}
	}
	return vs
}

// runCase is the oracle for one (op, type, a, b).  Returns the description of
// the folded constant (for the `fold` op line) and the run-time `ret` output.
func runCase(o *hxlib.Out, r *hxlib.Rng, c foldCase, verbose bool) (foldDesc string, cretOut string, rtOut string) {
	ce, re := c.exprs()
	cons := c.consumers()
	retOnly := cons[:1]

	// 1. the constant variant, result returned as is: is it folded, and to what?
	cRet := compileReal(buildProgram(c.t, ce, c.op.cmp, retOnly, false, c.op.unary, c.op.shift))
	rRet := compileRT(c, retOnly, re)
	o.Count("programs_compiled")
	if verbose {
		fmt.Fprintf(os.Stderr, "--- constant variant\n%s--- run-time variant\n%s",
			buildProgram(c.t, ce, c.op.cmp, cons, false, c.op.unary, c.op.shift),
			buildProgram(c.t, re, c.op.cmp, cons, true, c.op.unary, c.op.shift))
	}
	foldDesc = errClass(cRet.err)
	cretOut = errClass(cRet.err)
	rtOut = errClass(rRet.err)
	if rRet.err != "" {
		// the run-time variant is not accepted: nothing to compare with
		o.Count("rt_variant_rejected_" + errClass(rRet.err))
		if cRet.err != "" && errClass(cRet.err) == "panic" {
			d := c.classify()
			d["stage"] = "const-ret"
			d["detail"] = cRet.err
			store.add(o, "c12-fold-panic", d)
		}
		return
	}
	// the run-time variant's own result (independent of the constant variant)
	{
		xt := c.t
		if xt.isBool() {
			xt = ityp{false, 8}
		}
		rin := []*big.Int{c.t.enc(c.a)}
		if !c.op.unary && !c.op.shift {
			rin = append(rin, c.t.enc(c.b))
		}
		rin = append(rin, big.NewInt(1), big.NewInt(0))
		if ro, e := compute(rRet.circ, rin); e == "" {
			rtOut = "ok " + ro[0].Text(16)
		} else {
			rtOut = errClass(e)
		}
	}
	if cRet.err != "" {
		d := c.classify()
		d["stage"] = "const-ret"
		d["consumer"] = "ret"
		d["detail"] = cRet.err
		d["const_expr"] = ce
		if errClass(cRet.err) == "panic" {
			store.add(o, "c12-fold-panic", d)
		} else {
			store.add(o, "c12-const-variant-rejected", d)
		}
		o.Count("const_variant_" + errClass(cRet.err))
	}
	// the folded constant itself: returned into a type wide enough for any
	// MinBits, so that Return's CanAssign check cannot hide it
	probe := cRet
	if cRet.err != "" && errClass(cRet.err) == "error" && !c.op.cmp {
		probe = compileReal(strings.Replace(buildProgram(c.t, ce, c.op.cmp, retOnly, false, c.op.unary, c.op.shift),
			") ("+c.t.name()+") {", ") ("+probeType(c.t)+") {", 1))
		foldDesc = errClass(probe.err)
	}
	if probe.err == "" {
		if cv, isConst := foldedConstant(probe.prog); isConst {
			foldDesc = "ok " + describeConst(cv)
			o.Count("folded")
		} else {
			foldDesc = "notfolded"
			o.Count("not_folded")
		}
		if n := unfoldedConstInstrs(probe.prog); n > 0 {
			o.Count("unfolded_const_instr")
		}
	}

	// 2. all consumers
	xs := xValues(r, c.t)
	type variant struct {
		cp   compiledProg
		cons []consumer
	}
	evalBoth := func(cv, rv compiledProg, cons []consumer) {
		for xi, x := range xs {
			p := big.NewInt(int64(xi & 1))
			xt := c.t
			if xt.isBool() {
				xt = ityp{false, 8}
			}
			cin := []*big.Int{xt.enc(x), p}
			var rin []*big.Int
			rin = append(rin, c.t.enc(c.a))
			if !c.op.unary && !c.op.shift {
				rin = append(rin, c.t.enc(c.b))
			}
			rin = append(rin, xt.enc(x), p)
			co, e1 := compute(cv.circ, cin)
			ro, e2 := compute(rv.circ, rin)
			o.Count("evaluations")
			if e1 != "" || e2 != "" {
				d := c.classify()
				d["stage"] = "compute"
				d["detail"] = e1 + " / " + e2
				store.add(o, "c12-compute-failed", d)
				return
			}
			if xi == 0 && len(cons) > 0 && cons[0].name == "ret" {
				cretOut = "ok " + co[0].Text(16)
			}
			for i, cn := range cons {
				if co[i].Cmp(ro[i]) != 0 {
					d := c.classify()
					d["consumer"] = cn.name
					d["x"] = x.String()
					d["p"] = p.String()
					d["const_out"] = co[i].Text(16)
					d["rt_out"] = ro[i].Text(16)
					d["folded"] = foldDesc
					d["const_expr"] = strings.ReplaceAll(cn.tmpl, "%R", ce)
					store.add(o, "c12-fold-differs", d)
					o.Count("differs_" + cn.name)
				} else {
					o.Count("agrees_" + cn.name)
				}
			}
			if verbose {
				fmt.Fprintf(os.Stderr, "x=%s p=%s const=[%s] rt=[%s]\n", x, p, hexs(co), hexs(ro))
			}
		}
	}
	cAll := compileReal(buildProgram(c.t, ce, c.op.cmp, cons, false, c.op.unary, c.op.shift))
	rAll := compileRT(c, cons, re)
	o.Count("programs_compiled")
	if cAll.err == "" && rAll.err == "" {
		evalBoth(cAll, rAll, cons)
		return
	}
	// attribute the rejection / crash to single consumers
	for i := range cons {
		one := cons[i : i+1]
		if i == 0 {
			if cRet.err == "" {
				evalBoth(cRet, rRet, one)
			}
			continue
		}
		cv := compileReal(buildProgram(c.t, ce, c.op.cmp, one, false, c.op.unary, c.op.shift))
		rv := compileRT(c, one, re)
		o.Count("programs_compiled")
		if rv.err != "" {
			o.Count("rt_consumer_rejected_" + one[0].name)
			if errClass(cv.err) == "panic" {
				d := c.classify()
				d["stage"] = "const-consumer"
				d["consumer"] = one[0].name
				d["detail"] = cv.err
				store.add(o, "c12-fold-panic", d)
			}
			continue
		}
		if cv.err != "" {
			d := c.classify()
			d["stage"] = "const-consumer"
			d["consumer"] = one[0].name
			d["detail"] = cv.err
			d["folded"] = foldDesc
			d["const_expr"] = strings.ReplaceAll(one[0].tmpl, "%R", ce)
			if errClass(cv.err) == "panic" {
				store.add(o, "c12-fold-panic", d)
			} else {
				store.add(o, "c12-const-variant-rejected", d)
			}
			continue
		}
		evalBoth(cv, rv, one)
	}
	return
}

// ---------------------------------------------------------------- generator

var widths = []int{1, 2, 3, 7, 8, 9, 15, 16, 31, 32, 33, 63, 64, 65, 66, 100, 127, 128, 129, 130}

func pickWidth(r *hxlib.Rng) int {
	if r.Intn(5) == 0 {
		return 1 + r.Intn(130)
	}
	return widths[r.Intn(len(widths))]
}

func randBits(r *hxlib.Rng, bits int) *big.Int {
	if bits <= 0 {
		return big.NewInt(0)
	}
	b := r.Bytes((bits + 7) / 8)
	v := new(big.Int).SetBytes(b)
	return v.Mod(v, pow2(bits))
}

// randValue: boundary-biased value representable in t.
func randValue(r *hxlib.Rng, t ityp) *big.Int {
	if t.isBool() {
		return big.NewInt(int64(r.Intn(2)))
	}
	n := t.n
	var v *big.Int
	switch r.Intn(14) {
	case 0:
		v = big.NewInt(0)
	case 1:
		v = big.NewInt(1)
	case 2:
		v = t.max()
	case 3:
		v = t.min()
	case 4:
		v = new(big.Int).Sub(t.max(), big.NewInt(int64(r.Intn(3))))
	case 5:
		v = new(big.Int).Add(t.min(), big.NewInt(int64(r.Intn(3))))
	case 6: // small magnitude
		v = big.NewInt(int64(r.Intn(100)))
		if t.signed && r.Bool() {
			v.Neg(v)
		}
	case 7: // top-bit pattern
		if t.signed {
			v = new(big.Int).Neg(pow2(maxInt(n-2, 0)))
		} else {
			v = pow2(n - 1)
		}
	case 8: // power of two +-1
		k := r.Intn(n)
		v = pow2(k)
		v.Add(v, big.NewInt(int64(r.Intn(3)-1)))
		if t.signed && r.Bool() {
			v.Neg(v)
		}
	case 9: // around 2^31 / 2^32 / 2^63 / 2^64
		k := []int{31, 32, 63, 64}[r.Intn(4)]
		v = pow2(k)
		v.Add(v, big.NewInt(int64(r.Intn(5)-2)))
		if t.signed && r.Bool() {
			v.Neg(v)
		}
	case 10:
		v = big.NewInt(-1)
	default:
		v = randBits(r, r.Intn(n)+1)
		if t.signed {
			v.Sub(v, pow2(n-1))
			if r.Bool() {
				v = randBits(r, r.Intn(n)+1)
				v.Rsh(v, 1)
				if r.Bool() {
					v.Neg(v)
				}
			}
		}
	}
	if !t.representable(v) {
		v = new(big.Int).Mod(v, pow2(n))
		if t.signed && v.Bit(n-1) == 1 {
			v.Sub(v, pow2(n))
		}
	}
	return v
}

func maxInt(a, b int) int {
	if a > b {
		return a
	}
	return b
}

func genCase(r *hxlib.Rng, i int) foldCase {
	var c foldCase
	if r.Intn(12) == 0 {
		c.t = ityp{false, 0}
		c.op = boolOps[i%len(boolOps)]
		c.a, c.b = randValue(r, c.t), randValue(r, c.t)
		return c
	}
	c.t = ityp{r.Bool(), pickWidth(r)}
	if c.t.n > 64 && r.Intn(3) == 0 {
		// wide types are an order of magnitude more expensive per case
		c.t.n = []int{1, 7, 8, 31, 32, 33, 63, 64}[r.Intn(8)]
	}
	c.heavy = r.Intn(5) == 0
	c.op = intOps[i%len(intOps)]
	c.a, c.b = randValue(r, c.t), randValue(r, c.t)
	c.aform = []string{"cast", "neg"}[r.Intn(2)]
	c.bform = []string{"cast", "neg"}[r.Intn(2)]
	if c.op.unary {
		c.b = big.NewInt(0)
	}
	if c.op.shift {
		n := c.t.n
		ks := []int{0, 1, n - 1, n, n + 1, 31, 32, 33, 63, 64, 65, r.Intn(n + 1), r.Intn(n + 1), r.Intn(140)}
		k := ks[r.Intn(len(ks))]
		if k < 0 {
			k = 0
		}
		c.b = big.NewInt(int64(k))
	}
	if (c.op.sym == "/" || c.op.sym == "%") && c.b.Sign() == 0 && r.Intn(4) != 0 {
		c.b = big.NewInt(int64(1 + r.Intn(7)))
		if !c.t.representable(c.b) {
			c.b = big.NewInt(1)
		}
		if c.t.n == 1 && c.t.signed {
			c.b = big.NewInt(-1)
		}
	}
	return c
}

// fixedCases: the annotated cases of the repository's own tests and the
// witnesses of the design, always run first.
func fixedCases() []foldCase {
	mk := func(op string, s bool, n int, a, b int64, af, bf string) foldCase {
		oi, _ := opByName(op, false)
		return foldCase{t: ityp{s, n}, op: oi, a: big.NewInt(a), b: big.NewInt(b), aform: af, bform: bf}
	}
	var cs []foldCase
	for _, f := range []string{"cast", "neg"} {
		for _, n := range []int{8, 32, 64} {
			for _, ab := range [][2]int64{{43, 4}, {-43, 4}, {43, -4}, {-43, -4}} {
				cs = append(cs, mk("/", true, n, ab[0], ab[1], f, f))
			}
			for _, ab := range [][2]int64{{42, 1}, {42, 4}, {-42, 4}, {42, -4}, {-42, -4}} {
				cs = append(cs, mk("%", true, n, ab[0], ab[1], f, f))
			}
		}
	}
	cs = append(cs, mk("+", true, 8, 100, 100, "cast", "cast"), mk("+", false, 128, 5, 7, "cast", "cast"),
		mk("-", false, 128, 5, 7, "cast", "cast"), mk("/", false, 128, 5, 0, "cast", "cast"),
		mk("/", false, 8, 5, 0, "cast", "cast"), mk("neg", true, 8, -128, 0, "cast", "cast"),
		mk("<", false, 32, 4294967295, 1, "cast", "cast"), mk(">>", true, 8, -128, 9, "cast", "cast"))
	return cs
}

func caseLine(c foldCase) string {
	return fmt.Sprintf("c12 fold %s %s %d %s %s %s %s", c.op.sym, c.t.su(), c.t.n, c.a, c.b,
		effForm(c.t, c.a, c.aform), c.bEffForm())
}

// corpusCases: wide (N > 64) witnesses of the listed findings, run after the
// generated cases at indices N, N+1, ... on their own generator, so that the
// generated cases do not depend on them.
func corpusCases() []foldCase {
	mk := func(op string, s bool, n int, a, b string, af, bf string) foldCase {
		oi, _ := opByName(op, false)
		x, _ := new(big.Int).SetString(a, 10)
		y, _ := new(big.Int).SetString(b, 10)
		return foldCase{t: ityp{s, n}, op: oi, a: x, b: y, aform: af, bform: bf}
	}
	return []foldCase{
		// (-int65(2^64)) >> 1: large-path Rsh is logical (Mpc.C12_wide_witnesses)
		mk(">>", true, 65, "-18446744073709551616", "1", "cast", "cast"),
		mk(">>", true, 100, "-633825300114114700748351602688", "3", "neg", "cast"),
		// typed negative constants T(-v), 32 < N < 64, whose folded result a
		// further consumer rejects
		mk("|", true, 47, "1", "-70368744177664", "cast", "cast"),
		mk("^", true, 33, "-4294967296", "4294967293", "cast", "cast"),
		mk("+", true, 33, "4294967295", "-3978804410", "cast", "cast"),
	}
}

func modeFold(cf *hxlib.CommonFlags, o *hxlib.Out) {
	r := hxlib.NewRng(cf.Seed)
	fixed := fixedCases()
	corpus := corpusCases()
	corpusRng := hxlib.NewRng(cf.Seed ^ 0x636f72707573)
	seen := map[string]bool{}
	for i := 0; i < cf.N+len(corpus); i++ {
		var c foldCase
		var cr *hxlib.Rng
		if i >= cf.N {
			cr = corpusRng.Fork()
			c = corpus[i-cf.N]
		} else if cr = r.Fork(); i < len(fixed) {
			c = fixed[i]
		} else {
			c = genCase(cr, i)
		}
		if cf.Only >= 0 && i != cf.Only {
			continue
		}
		if !c.t.representable(c.a) || (!c.op.unary && !c.op.shift && !c.t.representable(c.b)) {
			o.Count("skipped_not_representable")
			continue
		}
		k := c.key()
		if seen[k] {
			o.Count("duplicate_case")
			continue
		}
		seen[k] = true
		fd, cret, rt := runCase(o, cr, c, cf.Only >= 0)
		o.Op(caseLine(c), fd)
		if rt != "error" && rt != "panic" {
			o.Op(strings.Replace(caseLine(c), "c12 fold", "c12 cret", 1), cret)
		}
		o.Op(fmt.Sprintf("c12 rt %s %s %d %s %s", c.op.sym, c.t.su(), c.t.n, c.a, c.b), rt)
		o.Count("op_" + c.op.sym)
		o.Count("width_" + nClass(c.t.n))
		o.Count("cases")
		if i < 3 {
			o.Sample(map[string]any{"case": caseLine(c), "folded": fd, "runtime_ret": rt})
		}
	}
}

func modeOne(cf *hxlib.CommonFlags, o *hxlib.Out) {
	f := strings.Fields(cf.Extra)
	if len(f) < 7 {
		fmt.Fprintln(os.Stderr, "usage: one -extra \"<op> <s|u|b> <n> <a> <b> <aform> <bform>\"")
		os.Exit(2)
	}
	var c foldCase
	var n int
	fmt.Sscan(f[2], &n)
	c.t = ityp{f[1] == "s", n}
	op, ok := opByName(f[0], f[1] == "b")
	if !ok {
		fmt.Fprintln(os.Stderr, "unknown operator", f[0])
		os.Exit(2)
	}
	c.op = op
	c.a, _ = new(big.Int).SetString(f[3], 10)
	c.b, _ = new(big.Int).SetString(f[4], 10)
	c.aform, c.bform = f[5], f[6]
	fd, cret, rt := runCase(o, hxlib.NewRng(cf.Seed), c, true)
	fmt.Fprintf(os.Stderr, "folded constant: %s\nconstant ret:   %s\nrun-time ret:   %s\n", fd, cret, rt)
	for _, fl := range store.fails {
		fmt.Fprintf(os.Stderr, "FAIL %v\n", fl)
	}
	o.Op(caseLine(c), fd)
}

func main() {
	if len(os.Args) < 2 {
		fmt.Fprintln(os.Stderr, "usage: c12 <fold|mpa|one> ...")
		os.Exit(2)
	}
	mode := os.Args[1]
	cf, o := hxlib.ParseCommon("c12", os.Args[2:], nil)
	// the compiler logs errors to os.Stdout
	if dn, err := os.OpenFile(os.DevNull, os.O_WRONLY, 0); err == nil {
		os.Stdout = dn
	}
	switch mode {
	case "fold":
		modeFold(cf, o)
	case "mpa":
		modeMpa(cf, o)
	case "one":
		modeOne(cf, o)
	case "alias":
		modeAlias(cf, o)
	case "multi":
		modeMulti(cf, o)
	case "ident":
		modeIdent(cf, o)
	case "mpah":
		modeMpaHist(cf, o)
	case "uses":
		modeUses(cf, o)
	default:
		fmt.Fprintln(os.Stderr, "unknown mode", mode)
		os.Exit(2)
	}
	o.Meta["fails_all"] = store.fails
	o.Close()
}

package main

// Mode `mpah`: HISTORIES of 1..5 calls on the exported API of compiler/mpa in
// which the calls SHARE their operand objects.
//
// The constant folder passes the same `*mpa.Int` to several calls: a constant
// bound to a variable is the left operand of one fold and an operand of the
// next, and `ssa.Program.DefineConstants` reads it again, after all folds,
// when the constant wires are made.  Receiver and operands may also be one
// object (`Unary.Eval`: `r.Sub(r, val)`; `x op x`).  What every caller relies
// on is the contract of a method `z.Op(x, y)`:
//
//	the call writes its RECEIVER only; every other object holds afterwards
//	what it held before (size, String, Text, BitLen, Int64, Sign, bits).
//
// A register is one `*mpa.Int` object.  One step names its receiver — `f<bits>`
// a fresh mpa.New(bits) that becomes the next register, or `r<i>` an existing
// register, possibly that of x, of y or of both — and the operand registers.
// After EVERY step EVERY register is observed.
//
// Oracle (purity): a register other than the step's receiver whose observation
// changed -> `c12-mpa-operand-changed`.  The failing step is re-run alone on
// objects rebuilt from the observed values; when it fails alone that one-step
// history is the replay.
//
// Op line   c12 mpah <spec>,<spec>[,<spec>] <step>/<step>/...   step = op.n.z.x.y
// result    ok | <tag> <obs r0> ; <obs r1> ; ... | ...           tag = z=<receiver register> or c=<Cmp>
//           (Model/MpaHist.lean `step`: writes the receiver's register only)

import (
	"fmt"
	"math/big"
	"os"
	"strconv"
	"strings"

	"github.com/markkurossi/mpc/compiler/mpa"
	"github.com/markkurossi/mpc/types"

	"verifharness/hxlib"
)

type hStep struct {
	op   string
	n    uint
	z    string // f<bits> | r<i>
	x, y int
}

func (s hStep) String() string { return fmt.Sprintf("%s.%d.%s.%d.%d", s.op, s.n, s.z, s.x, s.y) }

type mpaHist struct {
	specs []mspec
	steps []hStep
}

func (h mpaHist) line() string {
	sp := make([]string, len(h.specs))
	for i, s := range h.specs {
		sp[i] = s.String()
	}
	st := make([]string, len(h.steps))
	for i, s := range h.steps {
		st[i] = s.String()
	}
	return "c12 mpah " + strings.Join(sp, ",") + " " + strings.Join(st, "/")
}

func parseSpecTok(s string) (mspec, error) {
	p := strings.Split(s, ":")
	if len(p) != 3 || (p[0] != "n" && p[0] != "p") {
		return mspec{}, fmt.Errorf("bad operand spec %q", s)
	}
	v, ok := new(big.Int).SetString(p[1], 10)
	bits, err := strconv.Atoi(p[2])
	if !ok || err != nil {
		return mspec{}, fmt.Errorf("bad operand spec %q", s)
	}
	return mspec{p[0], v, bits}, nil
}

func parseMpaHist(s string) (mpaHist, error) {
	f := strings.Fields(s)
	if len(f) >= 2 && f[0] == "c12" && f[1] == "mpah" {
		f = f[2:]
	}
	var h mpaHist
	if len(f) != 2 {
		return h, fmt.Errorf("mpah: need <specs> <steps>")
	}
	for _, t := range strings.Split(f[0], ",") {
		sp, err := parseSpecTok(t)
		if err != nil {
			return h, err
		}
		h.specs = append(h.specs, sp)
	}
	for _, t := range strings.Split(f[1], "/") {
		p := strings.Split(t, ".")
		if len(p) != 5 {
			return h, fmt.Errorf("mpah: bad step %q", t)
		}
		n, e1 := strconv.Atoi(p[1])
		x, e2 := strconv.Atoi(p[3])
		y, e3 := strconv.Atoi(p[4])
		if e1 != nil || e2 != nil || e3 != nil || n < 0 {
			return h, fmt.Errorf("mpah: bad step %q", t)
		}
		h.steps = append(h.steps, hStep{p[0], uint(n), p[2], x, y})
	}
	return h, nil
}

func observeSafe(z *mpa.Int) (res string) {
	defer func() {
		if e := recover(); e != nil {
			res = "obs-panic"
		}
	}()
	return observe(z)
}

func observeAll(regs []*mpa.Int) []string {
	o := make([]string, len(regs))
	for i, r := range regs {
		o[i] = observeSafe(r)
	}
	return o
}

// callStep performs the real call; returns the receiver's register index (-1
// for Cmp), the tag of the result line and whether the call panicked.
func callStep(regs *[]*mpa.Int, s hStep) (zi int, tag string, panicked bool) {
	defer func() {
		if e := recover(); e != nil {
			panicked = true
		}
	}()
	r := *regs
	if s.x < 0 || s.x >= len(r) || s.y < 0 || s.y >= len(r) {
		return -1, "", true
	}
	x, y := r[s.x], r[s.y]
	if s.op == "cmp" {
		return -1, fmt.Sprintf("c=%d", x.Cmp(y)), false
	}
	var z *mpa.Int
	fresh := false
	switch {
	case strings.HasPrefix(s.z, "f"):
		bits, err := strconv.Atoi(s.z[1:])
		if err != nil {
			return -1, "", true
		}
		z = mpa.New(types.Size(bits))
		zi = len(r)
		fresh = true
	case strings.HasPrefix(s.z, "r"):
		i, err := strconv.Atoi(s.z[1:])
		if err != nil || i < 0 || i >= len(r) {
			return -1, "", true
		}
		z, zi = r[i], i
	default:
		return -1, "", true
	}
	switch s.op {
	case "add":
		z.Add(x, y)
	case "sub":
		z.Sub(x, y)
	case "mul":
		z.Mul(x, y)
	case "div":
		z.Div(x, y)
	case "mod":
		z.Mod(x, y)
	case "and":
		z.And(x, y)
	case "or":
		z.Or(x, y)
	case "xor":
		z.Xor(x, y)
	case "andnot":
		z.AndNot(x, y)
	case "lsh":
		z.Lsh(x, s.n)
	case "rsh":
		z.Rsh(x, s.n)
	default:
		return -1, "", true
	}
	if fresh {
		*regs = append(r, z)
	}
	return zi, fmt.Sprintf("z=%d", zi), false
}

// obsField extracts one field of an observation.
func obsField(obs, key string) string {
	for _, f := range strings.Fields(obs) {
		if strings.HasPrefix(f, key+"=") {
			return f[len(key)+1:]
		}
	}
	return ""
}

// specOfObs rebuilds an object of the observed size and value.
func specOfObs(obs string) (mspec, bool) {
	bits, err := strconv.Atoi(obsField(obs, "bits"))
	v, ok := new(big.Int).SetString(obsField(obs, "s"), 10)
	if err != nil || !ok || bits <= 0 {
		return mspec{}, false
	}
	if bits <= 64 && v.IsInt64() {
		return mspec{"n", v, bits}, true
	}
	return mspec{"p", v, bits}, true
}

type hChange struct {
	step          int
	reg           int
	before, after string
	role          string
	pattern       string
	path          string
}

func aliasPattern(s hStep) string {
	zx := s.z == fmt.Sprintf("r%d", s.x)
	zy := s.z == fmt.Sprintf("r%d", s.y)
	p := "z-fresh"
	switch {
	case s.op == "cmp":
		p = "no-receiver"
	case zx && zy:
		p = "z==x==y"
	case zx:
		p = "z==x"
	case zy:
		p = "z==y"
	case strings.HasPrefix(s.z, "r"):
		p = "z-other-object"
	}
	if s.x == s.y && !(zx && zy) {
		p += ",x==y"
	}
	return p
}

// runMpaHist executes the history on the real code.
func runMpaHist(h mpaHist) (res string, changes []hChange, nsteps int) {
	var regs []*mpa.Int
	ok := func() (ok bool) {
		defer func() {
			if e := recover(); e != nil {
				ok = false
			}
		}()
		for _, sp := range h.specs {
			regs = append(regs, sp.build())
		}
		return true
	}()
	if !ok {
		return "panic", nil, 0
	}
	var sb strings.Builder
	sb.WriteString("ok")
	prev := observeAll(regs)
	for si, s := range h.steps {
		path := "small"
		if s.op != "cmp" {
			var zbits int
			if strings.HasPrefix(s.z, "f") {
				zbits, _ = strconv.Atoi(s.z[1:])
			} else if i, err := strconv.Atoi(strings.TrimPrefix(s.z, "r")); err == nil && i >= 0 && i < len(regs) {
				zbits = regs[i].TypeSize()
			}
			if zbits > 64 {
				path = "large"
			}
		} else if s.x >= 0 && s.x < len(regs) && s.y >= 0 && s.y < len(regs) &&
			(regs[s.x].TypeSize() > 64 || regs[s.y].TypeSize() > 64) {
			path = "large"
		}
		zi, tag, panicked := callStep(&regs, s)
		if panicked {
			sb.WriteString(" | panic")
			return sb.String(), changes, si
		}
		now := observeAll(regs)
		for j := range prev {
			if j == zi || now[j] == prev[j] {
				continue
			}
			role := "bystander"
			switch {
			case j == s.x && j == s.y:
				role = "x,y"
			case j == s.x:
				role = "x"
			case j == s.y:
				role = "y"
			}
			changes = append(changes, hChange{si, j, prev[j], now[j], role, aliasPattern(s), path})
		}
		sb.WriteString(" | " + tag + " " + strings.Join(now, " ; "))
		prev = now
		nsteps++
	}
	return sb.String(), changes, nsteps
}

// aloneHistory: the failing step on objects rebuilt from what the registers held before it.
func aloneHistory(h mpaHist, upto int) (mpaHist, bool) {
	pre := mpaHist{specs: h.specs, steps: h.steps[:upto]}
	var regs []*mpa.Int
	okb := func() (ok bool) {
		defer func() {
			if e := recover(); e != nil {
				ok = false
			}
		}()
		for _, sp := range pre.specs {
			regs = append(regs, sp.build())
		}
		for _, s := range pre.steps {
			if _, _, p := callStep(&regs, s); p {
				return false
			}
		}
		return true
	}()
	if !okb {
		return mpaHist{}, false
	}
	var a mpaHist
	for _, o := range observeAll(regs) {
		sp, ok := specOfObs(o)
		if !ok {
			return mpaHist{}, false
		}
		a.specs = append(a.specs, sp)
	}
	a.steps = []hStep{h.steps[upto]}
	return a, true
}

func reportMpaHist(o *hxlib.Out, h mpaHist, changes []hChange) {
	for _, c := range changes {
		rep := h
		rep.steps = h.steps[:c.step+1]
		minimal := "false"
		if a, ok := aloneHistory(h, c.step); ok {
			if _, ch, _ := runMpaHist(a); len(ch) > 0 {
				rep, minimal = a, "true"
			}
		}
		s := h.steps[c.step]
		store.add(o, "c12-mpa-operand-changed", map[string]any{
			"op": s.op, "stage": c.pattern + " " + c.path + " operand " + c.role,
			"step": c.step, "register": c.reg, "role": c.role, "aliasing": c.pattern, "path": c.path,
			"before": c.before, "after": c.after,
			"history": h.line(), "mpah_spec": rep.line(), "one_step_history": minimal,
			"replay_cmd": "c12 mpah -extra \"" + strings.TrimPrefix(rep.line(), "c12 mpah ") + "\"",
			"detail": fmt.Sprintf("mpa.Int.%s changed its operand %s (register %d): before {%s} after {%s}", s.op, c.role, c.reg,
				c.before, c.after),
		})
	}
}

// ---------------------------------------------------------------- generator

var hOps = []string{"add", "sub", "mul", "div", "mod", "and", "or", "xor", "andnot", "lsh", "rsh", "cmp"}
var hPatterns = []string{"fresh", "fresh-xx", "zx", "zy", "zxy", "other"}

func genMpaHist(r *hxlib.Rng, i int) mpaHist {
	var h mpaHist
	family := (i / (len(hOps) * len(hPatterns))) % 3 // 0 wide as the compiler sizes it, 1 small, 2 anything
	zwide := []int{65, 66, 67, 96, 100, 127, 128, 129, 130, 65 + r.Intn(66)}[r.Intn(10)]
	nregs := 2 + r.Intn(2)
	for k := 0; k < nregs; k++ {
		switch family {
		case 0:
			sp := wideSpec(r, zwide)
			if r.Intn(3) == 0 {
				// a value that fits 64 (32) bits in a type wider than 64 bits
				sp = mspec{"p", randBits(r, []int{8, 31, 32, 33, 63, 64}[r.Intn(6)]), 0}
				sp.bits = constantSize(sp.val.BitLen())
			}
			h.specs = append(h.specs, sp)
		case 1:
			bits := []int{1, 7, 8, 31, 32, 33, 63, 64, 1 + r.Intn(64)}[r.Intn(9)]
			v := randValue(r, ityp{true, 64})
			if r.Bool() {
				v = randValue(r, ityp{false, bits})
				if !v.IsInt64() {
					v = big.NewInt(v.Int64())
				}
			}
			h.specs = append(h.specs, mspec{"n", v, bits})
		default:
			h.specs = append(h.specs, genSpec(r, false))
		}
	}
	freshBits := func() int {
		switch family {
		case 0:
			return zwide
		case 1:
			return []int{1, 8, 31, 32, 33, 63, 64, 1 + r.Intn(64)}[r.Intn(8)]
		}
		return []int{1, 8, 31, 32, 33, 63, 64, 65, 100, 128, 130, 1 + r.Intn(130)}[r.Intn(12)]
	}
	nsteps := 1 + r.Intn(5)
	if nsteps == 1 && r.Bool() {
		nsteps = 2 + r.Intn(4)
	}
	cur := nregs
	for k := 0; k < nsteps; k++ {
		var s hStep
		pat := hPatterns[r.Intn(len(hPatterns))]
		s.op = hOps[r.Intn(len(hOps))]
		if k == 0 {
			// every operator x every aliasing pattern x every family deterministically in the first position
			s.op = hOps[i%len(hOps)]
			pat = hPatterns[(i/len(hOps))%len(hPatterns)]
		} else if (s.op == "div" || s.op == "mod" || s.op == "mul") && family != 1 && r.Intn(4) != 0 {
			// wide divider / multiplier circuits are the expensive calls
			s.op = []string{"and", "or", "xor", "andnot"}[r.Intn(4)]
		}
		s.x, s.y = r.Intn(cur), r.Intn(cur)
		if k > 0 && r.Intn(3) == 0 {
			// reuse the operands of the first step: later calls see what it left in them
			s.x, s.y = h.steps[0].x, h.steps[0].y
			if r.Bool() {
				s.x, s.y = s.y, s.x
			}
		}
		switch pat {
		case "fresh":
			s.z = fmt.Sprintf("f%d", freshBits())
			if s.x == s.y {
				s.y = (s.x + 1) % cur
			}
		case "fresh-xx":
			s.z = fmt.Sprintf("f%d", freshBits())
			s.y = s.x
		case "zx":
			s.z = fmt.Sprintf("r%d", s.x)
			if s.x == s.y {
				s.y = (s.x + 1) % cur
			}
		case "zy":
			s.z = fmt.Sprintf("r%d", s.y)
			if s.x == s.y {
				s.x = (s.y + 1) % cur
			}
		case "zxy":
			s.y = s.x
			s.z = fmt.Sprintf("r%d", s.x)
		default:
			s.z = fmt.Sprintf("r%d", r.Intn(cur))
		}
		if s.op == "lsh" || s.op == "rsh" {
			s.n = uint([]int{0, 1, 31, 32, 33, 63, 64, 65, r.Intn(140), r.Intn(20)}[r.Intn(10)])
		}
		if s.op == "cmp" {
			s.z = "r0"
		}
		h.steps = append(h.steps, s)
		if s.op != "cmp" && strings.HasPrefix(s.z, "f") {
			cur++
		}
	}
	return h
}

func modeMpaHist(cf *hxlib.CommonFlags, o *hxlib.Out) {
	if strings.TrimSpace(cf.Extra) != "" {
		h, err := parseMpaHist(cf.Extra)
		if err != nil {
			fmt.Fprintln(os.Stderr, err)
			os.Exit(2)
		}
		res, ch, _ := runMpaHist(h)
		o.Op(h.line(), res)
		reportMpaHist(o, h, ch)
		fmt.Fprintf(os.Stderr, "%s\n-> %s\n", h.line(), strings.ReplaceAll(res, " | ", "\n   | "))
		for _, fl := range store.fails {
			fmt.Fprintf(os.Stderr, "FAIL %v\n", fl["detail"])
		}
		return
	}
	r := hxlib.NewRng(cf.Seed ^ 0x6d706168)
	for i := 0; i < cf.N; i++ {
		cr := r.Fork()
		h := genMpaHist(cr, i)
		if cf.Only >= 0 && i != cf.Only {
			continue
		}
		res, ch, nsteps := runMpaHist(h)
		o.Op(h.line(), res)
		o.Count("mpah_histories")
		o.CountN("mpah_steps", nsteps)
		o.CountN("mpah_operand_observations", nsteps*len(h.specs))
		o.Count(fmt.Sprintf("mpah_len_%d", len(h.steps)))
		for _, s := range h.steps[:nsteps] {
			o.Count("mpah_op_" + s.op)
			o.Count("mpah_alias_" + aliasPattern(s))
		}
		if strings.HasSuffix(res, "panic") {
			o.Count("mpah_panic")
		}
		if len(ch) > 0 {
			o.Count("mpah_histories_with_changed_operand")
		}
		reportMpaHist(o, h, ch)
	}
}

package main

// Correspondence on the exported API of compiler/mpa: every op line names
// how the operands are constructed (NewInt / Parse+SetTypeSize, as the lexer
// and ssa.Generator.Constant do), the receiver (a fresh mpa.New(bits) as in
// Binary.evalConst, or the left operand itself as in Unary.Eval) and the
// method; the result line holds everything the API lets one observe.

import (
	"fmt"
	"math/big"
	"strings"

	"github.com/markkurossi/mpc/compiler/mpa"
	"github.com/markkurossi/mpc/types"

	"verifharness/hxlib"
)

type mspec struct {
	kind string // "n": NewInt(i64, bits)   "p": Parse(dec) + SetTypeSize(bits) when bits > 0
	val  *big.Int
	bits int
}

func (s mspec) String() string { return fmt.Sprintf("%s:%s:%d", s.kind, s.val, s.bits) }

func (s mspec) build() *mpa.Int {
	if s.kind == "n" {
		return mpa.NewInt(s.val.Int64(), types.Size(s.bits))
	}
	v, ok := mpa.Parse(s.val.String(), 10)
	if !ok {
		panic("mpa.Parse failed")
	}
	if s.bits > 0 {
		v.SetTypeSize(types.Size(s.bits))
	}
	return v
}

// constantSize is ssa.Generator.Constant's 32/64/n rule.
func constantSize(bitLen int) int {
	if bitLen > 64 {
		return bitLen
	}
	if bitLen > 32 {
		return 64
	}
	return 32
}

func observe(z *mpa.Int) string {
	n := z.TypeSize()
	if n > 136 {
		n = 136
	}
	lo := new(big.Int)
	for i := 0; i < n; i++ {
		if z.Bit(i) != 0 {
			lo.SetBit(lo, i, 1)
		}
	}
	return fmt.Sprintf("bits=%d s=%s t=%s bl=%d i=%d sg=%d lo=%s", z.TypeSize(), z.String(), z.Text(16), z.BitLen(),
		z.Int64(), z.Sign(), lo.Text(16))
}

// runMpa performs one call on fresh operands.  The result line carries, next to everything observable of the
// receiver, what BOTH OPERANDS hold after the call (`xa=`, `ya=`): a call writes its receiver only, the model
// prints the operands it was given.  `changed` lists the operands whose observation differs from the one
// taken before the call (the receiver excepted).
func runMpa(op string, n uint, zmode string, zbits int, xs, ys mspec) (res string, changed []string) {
	defer func() {
		if e := recover(); e != nil {
			res = "panic"
		}
	}()
	x := xs.build()
	y := ys.build()
	var z *mpa.Int
	switch zmode {
	case "new":
		z = mpa.New(types.Size(zbits))
	case "x":
		z = x
	}
	xb, yb := observeSafe(x), observeSafe(y)
	after := func() string {
		xa, ya := observeSafe(x), observeSafe(y)
		if xa != xb && !(zmode == "x" && op != "obs" && op != "cmp") {
			changed = append(changed, fmt.Sprintf("x: before {%s} after {%s}", xb, xa))
		}
		if ya != yb {
			changed = append(changed, fmt.Sprintf("y: before {%s} after {%s}", yb, ya))
		}
		return " xa=[" + xa + "] ya=[" + ya + "]"
	}
	switch op {
	case "obs":
		return "ok " + observe(x) + after(), changed
	case "cmp":
		return fmt.Sprintf("ok c=%d", x.Cmp(y)) + after(), changed
	case "add":
		z.Add(x, y)
	case "sub":
		z.Sub(x, y)
	case "mul":
		z.Mul(x, y)
	case "div":
		z.Div(x, y)
	case "mod":
		z.Mod(x, y)
	case "and":
		z.And(x, y)
	case "or":
		z.Or(x, y)
	case "xor":
		z.Xor(x, y)
	case "andnot":
		z.AndNot(x, y)
	case "lsh":
		z.Lsh(x, n)
	case "rsh":
		z.Rsh(x, n)
	default:
		return "bad-op", nil
	}
	return "ok " + observe(z) + fmt.Sprintf(" c=%d", z.Cmp(y)) + after(), changed
}

var mpaOps = []string{"add", "sub", "mul", "div", "mod", "and", "or", "xor", "andnot", "lsh", "rsh", "cmp", "obs"}

func genSpec(r *hxlib.Rng, nonneg bool) mspec {
	switch r.Intn(3) {
	case 0:
		// NewInt with explicit or derived size
		bits := []int{0, 0, 1, 7, 8, 31, 32, 33, 63, 64, 1 + r.Intn(64)}[r.Intn(11)]
		if r.Intn(8) == 0 {
			bits = []int{65, 100, 128, 130}[r.Intn(4)]
		}
		v := randValue(r, ityp{true, 64})
		if r.Intn(3) == 0 {
			v = big.NewInt(int64(r.Intn(300)) - 100)
		}
		if nonneg && v.Sign() < 0 {
			v = new(big.Int).Neg(v)
			if !v.IsInt64() {
				v = big.NewInt(1 << 62)
			}
		}
		return mspec{"n", v, bits}
	case 1:
		// literal as the lexer + Generator.Constant size it
		w := pickWidth(r)
		v := randValue(r, ityp{false, w})
		return mspec{"p", v, constantSize(v.BitLen())}
	default:
		// literal with an arbitrary size
		w := pickWidth(r)
		v := randValue(r, ityp{false, w})
		bits := []int{0, 32, 64, w, w + 1, 1 + r.Intn(130)}[r.Intn(6)]
		if bits > 0 && bits < v.BitLen() && r.Intn(4) != 0 {
			bits = v.BitLen()
		}
		return mspec{"p", v, bits}
	}
}

// wideSpec: a non-negative literal below 2^zbits at a power-of-two boundary (or random), sized as
// Generator.Constant sizes it.
func wideSpec(r *hxlib.Rng, zbits int) mspec {
	ks := []int{0, 1, 31, 32, 33, 63, 64, 65, zbits - 2, zbits - 1, zbits, r.Intn(zbits + 1)}
	k := ks[r.Intn(len(ks))]
	v := pow2(k)
	switch r.Intn(4) {
	case 0:
		v.Sub(v, one)
	case 1:
		v.Add(v, one)
	case 2:
		v = randBits(r, k+1)
	}
	if v.Sign() < 0 || v.BitLen() > zbits {
		v = new(big.Int).Sub(pow2(zbits), one)
	}
	return mspec{"p", v, constantSize(v.BitLen())}
}

// padProbe observes through the exported API how the signed divider of the large path brings operands of
// different sizes to a common width: -1 as a 2-wire operand divided by 1 (4 wires) is 3 with zero padding and
// 15 (-1 in 4 bits) with sign padding.
func padProbe() (res string) {
	defer func() {
		if e := recover(); e != nil {
			res = "panic"
		}
	}()
	switch mpa.New(128).Div(mpa.NewInt(3, 2), mpa.NewInt(1, 4)).String() {
	case "3":
		return "zero"
	case "15":
		return "sign"
	}
	return "other"
}

func modeMpa(cf *hxlib.CommonFlags, o *hxlib.Out) {
	r := hxlib.NewRng(cf.Seed ^ 0xabcdef)
	o.Meta["idivider_pad"] = padProbe()
	// fixed lines that discriminate the divider's operand padding in the model correspondence itself
	for _, l := range [][2]mspec{{{"n", big.NewInt(3), 2}, {"n", big.NewInt(1), 4}}, {{"n", big.NewInt(1), 4}, {"n", big.NewInt(3), 2}},
		{{"p", big.NewInt(4294967295), 32}, {"p", big.NewInt(7), 64}}} {
		for _, op := range []string{"div", "mod"} {
			res, _ := runMpa(op, 0, "new", 128, l[0], l[1])
			o.Op(fmt.Sprintf("c12 mpa %s 0 new 128 %s %s", op, l[0], l[1]), res)
		}
	}
	for i := 0; i < cf.N; i++ {
		cr := r.Fork()
		op := mpaOps[i%len(mpaOps)]
		zbits := []int{1, 8, 31, 32, 33, 63, 64, 65, 100, 128, 130, 1 + cr.Intn(130), 32, 64}[cr.Intn(14)]
		if cr.Intn(40) == 0 {
			zbits = 0
		}
		bitwise := op == "and" || op == "or" || op == "xor" || op == "andnot"
		zmode := "new"
		if cr.Intn(6) == 0 {
			zmode = "x"
		}
		_ = bitwise
		xs, ys := genSpec(cr, false), genSpec(cr, false)
		var n uint
		if op == "lsh" || op == "rsh" {
			n = uint([]int{0, 1, 31, 32, 33, 63, 64, 65, cr.Intn(140), cr.Intn(20)}[cr.Intn(10)])
		}
		if i%3 == 1 {
			// the large path as the compiler reaches it: receiver mpa.New(N), N in 65..130, operands sized
			// by Generator.Constant, values at the 2^k-1 / 2^k / 2^k+1 boundaries (the region of the
			// every-width theorems of Props/C12.lean)
			zbits = []int{65, 66, 67, 96, 100, 127, 128, 129, 130, 65 + cr.Intn(66)}[cr.Intn(10)]
			zmode = "new"
			xs, ys = wideSpec(cr, zbits), wideSpec(cr, zbits)
			if op == "lsh" || op == "rsh" {
				n = uint([]int{0, 1, 31, 32, 63, 64, 65, zbits - 1, zbits, zbits + 1, cr.Intn(zbits)}[cr.Intn(11)])
			}
			o.Count("mpa_wide_boundary_family")
		}
		if cf.Only >= 0 && i != cf.Only {
			continue
		}
		res, changed := runMpa(op, n, zmode, zbits, xs, ys)
		line := fmt.Sprintf("c12 mpa %s %d %s %d %s %s", op, n, zmode, zbits, xs, ys)
		o.Op(line, res)
		for _, ch := range changed {
			zr, pat := "f"+fmt.Sprint(zbits), "z-fresh"
			if zmode == "x" {
				zr, pat = "r0", "z==x"
			}
			path := "small"
			if (zmode == "new" && zbits > 64) || (zmode == "x" && strings.Contains(res, "bits=") && func() bool {
				b := 0
				fmt.Sscan(obsField(res, "bits"), &b)
				return b > 64
			}()) {
				path = "large"
			}
			h := "c12 mpah " + xs.String() + "," + ys.String() + " " + fmt.Sprintf("%s.%d.%s.0.1", op, n, zr)
			store.add(o, "c12-mpa-operand-changed", map[string]any{
				"op": op, "stage": pat + " " + path + " operand " + ch[:1], "role": ch[:1], "aliasing": pat, "path": path,
				"detail": "mpa.Int." + op + " changed its operand " + ch, "mpa_line": line, "mpah_spec": h, "history": h,
				"replay_cmd": "c12 mpah -extra \"" + strings.TrimPrefix(h, "c12 mpah ") + "\"",
			})
		}
		o.Count("mpa_" + op)
		if strings.HasPrefix(res, "panic") {
			o.Count("mpa_panic")
		}
		large := zbits > 64
		if zmode == "x" {
			large = xs.bits > 64
		}
		if large {
			o.Count("mpa_large_receiver")
		} else {
			o.Count("mpa_small_receiver")
		}
	}
}

package main

// Mode `uses`: ONE constant used SEVERAL times in one program.
//
// The property speaks about "the folded result as seen by the rest of the
// program", and folding is a function of the operand VALUES.  A constant bound
// to a name (`v0 := T(a)`, package-level `const v0 = T(a)`) is one
// `ssa.Value` holding one `*mpa.Int`; every fold that names it hands that
// object to `Binary.evalConst`, and the wires of the constant are made from it
// at circuit generation — after all folds.  A program with one operator per
// constant (modes fold, multi: every operand is a literal of its own) can
// never show whether a fold leaves its operands alone.
//
// One case: 2..3 declarations of one type T, 1..5 folds `v_k := v_l op v_r`
// (`v_l << c`, `-v_l`) whose operands are declarations or results of earlier
// folds (so that a constant is the operand of several folds, on either side,
// also `v op v`), and for EVERY variable a use with a run-time input of its
// own (`v ^ x`, `v + x`, `x - v`; a bool result is returned as it is).
//
//	S  shared variant     operands are the variables (one object per constant)
//	F  fresh variant      the same statements with every operand written out as
//	                      its own literal expression (no object is used twice);
//	                      the constants registered, and their order, are the same
//	R  run-time variant   the declarations are inputs
//
// Oracle: S against R, output by output, for 3 input vectors.  A difference
// that F shows in the same way is a matter of the single expression (fold
// oracle) or of the constant table (multi oracle) and is counted only; a
// difference between S and F is `c12-uses-differs` (S rejected / crashing while
// F compiles: `c12-uses-rejected` / `c12-uses-panic`).  A failing case is
// minimised by dropping folds.
//
// Op line   c12 uses <var|const> <s|u> <n> <a:form,...> <op:l:r,...|-> <cons,...>
// result    ok <hex of output i at x = 0> ...      (Model/FoldUses.lean `usesOutputs cvName pureFold`)

import (
	"fmt"
	"math/big"
	"os"
	"strconv"
	"strings"

	"verifharness/hxlib"
)

type uDecl struct {
	v    *big.Int
	form string
}

type uUse struct {
	op   opInfo
	l, r int // variable indices; shift: r is the count
}

type usesCase struct {
	style string // var | const
	t     ityp
	decls []uDecl
	uses  []uUse
	cons  []string // per variable
}

func (c usesCase) nvars() int { return len(c.decls) + len(c.uses) }

func (c usesCase) isBool(i int) bool {
	return i >= len(c.decls) && c.uses[i-len(c.decls)].op.cmp
}

func (c usesCase) line() string {
	ds := make([]string, len(c.decls))
	for i, d := range c.decls {
		ds[i] = fmt.Sprintf("%s:%s", d.v, effForm(c.t, d.v, d.form))
	}
	us := make([]string, len(c.uses))
	for i, u := range c.uses {
		us[i] = fmt.Sprintf("%s:%d:%d", u.op.sym, u.l, u.r)
	}
	ustr := strings.Join(us, ",")
	if ustr == "" {
		ustr = "-"
	}
	return fmt.Sprintf("c12 uses %s %s %d %s %s %s", c.style, c.t.su(), c.t.n, strings.Join(ds, ","), ustr, strings.Join(c.cons, ","))
}

func parseUsesLine(s string) (usesCase, error) {
	f := strings.Fields(s)
	if len(f) >= 2 && f[0] == "c12" && f[1] == "uses" {
		f = f[2:]
	}
	var c usesCase
	if len(f) != 6 {
		return c, fmt.Errorf("uses: need <style> <s|u> <n> <decls> <uses> <cons>")
	}
	c.style = f[0]
	n, err := strconv.Atoi(f[2])
	if err != nil {
		return c, err
	}
	c.t = ityp{f[1] == "s", n}
	for _, t := range strings.Split(f[3], ",") {
		p := strings.Split(t, ":")
		if len(p) != 2 {
			return c, fmt.Errorf("uses: bad declaration %q", t)
		}
		v, ok := new(big.Int).SetString(p[0], 10)
		if !ok {
			return c, fmt.Errorf("uses: bad declaration %q", t)
		}
		c.decls = append(c.decls, uDecl{v, p[1]})
	}
	if f[4] != "-" {
		for _, t := range strings.Split(f[4], ",") {
			p := strings.Split(t, ":")
			if len(p) != 3 {
				return c, fmt.Errorf("uses: bad fold %q", t)
			}
			op, ok := opByName(p[0], false)
			l, e1 := strconv.Atoi(p[1])
			r, e2 := strconv.Atoi(p[2])
			if !ok || e1 != nil || e2 != nil {
				return c, fmt.Errorf("uses: bad fold %q", t)
			}
			c.uses = append(c.uses, uUse{op, l, r})
		}
	}
	c.cons = strings.Split(f[5], ",")
	if len(c.cons) != c.nvars() {
		return c, fmt.Errorf("uses: %d consumers for %d variables", len(c.cons), c.nvars())
	}
	return c, nil
}

// expr of variable i: `ref` names the operands.
func (c usesCase) useExpr(u uUse, ref func(int) string) string {
	switch {
	case u.op.unary:
		return u.op.expr(ref(u.l), "")
	case u.op.shift:
		return u.op.expr(ref(u.l), strconv.Itoa(u.r))
	}
	return u.op.expr(ref(u.l), ref(u.r))
}

// expanded: variable i written out as a literal expression of its own.
func (c usesCase) expanded(i int) string {
	if i < len(c.decls) {
		return constExpr(c.t, c.decls[i].v, c.decls[i].form)
	}
	return c.useExpr(c.uses[i-len(c.decls)], c.expanded)
}

func (c usesCase) resultType(i int) string {
	if c.isBool(i) {
		return "bool"
	}
	return c.t.name()
}

// program renders variant "S", "F" or "R".
func (c usesCase) program(variant string) string {
	T := c.t.name()
	var ps, rs, rets []string
	var pre, body strings.Builder
	name := func(i int) string { return fmt.Sprintf("v%d", i) }
	if variant == "R" {
		for i := range c.decls {
			ps = append(ps, fmt.Sprintf("v%d %s", i, T))
		}
	} else {
		for i, d := range c.decls {
			if c.style == "const" {
				fmt.Fprintf(&pre, "const v%d = %s\n", i, constExpr(c.t, d.v, d.form))
			} else {
				fmt.Fprintf(&body, "\tv%d := %s\n", i, constExpr(c.t, d.v, d.form))
			}
		}
	}
	for k, u := range c.uses {
		i := len(c.decls) + k
		if variant == "F" {
			fmt.Fprintf(&body, "\tv%d := %s\n", i, c.useExpr(u, c.expanded))
		} else {
			fmt.Fprintf(&body, "\tv%d := %s\n", i, c.useExpr(u, name))
		}
	}
	for i := 0; i < c.nvars(); i++ {
		rs = append(rs, c.resultType(i))
		rets = append(rets, fmt.Sprintf("r%d", i))
		if c.isBool(i) {
			fmt.Fprintf(&body, "\tr%d := v%d\n", i, i)
			continue
		}
		ps = append(ps, fmt.Sprintf("x%d %s", i, T))
		fmt.Fprintf(&body, "\tr%d := %s\n", i, consExpr(c.cons[i], name(i), fmt.Sprintf("x%d", i)))
	}
	return fmt.Sprintf("package main\n\n%sfunc main(%s) (%s) {\n%s\treturn %s\n}\n",
		pre.String(), strings.Join(ps, ", "), strings.Join(rs, ", "), body.String(), strings.Join(rets, ", "))
}

func (c usesCase) inputs(variant string, xs []*big.Int) []*big.Int {
	var in []*big.Int
	if variant == "R" {
		for _, d := range c.decls {
			in = append(in, c.t.enc(d.v))
		}
	}
	for i := 0; i < c.nvars(); i++ {
		if !c.isBool(i) {
			in = append(in, xs[i])
		}
	}
	return in
}

type usesDiff struct {
	kind   string // differs | rejected | panic
	output int
	d      map[string]any
}

// evalUses runs the three variants; `line` is the result of the op line (S at x = 0).
func evalUses(o *hxlib.Out, r *hxlib.Rng, c usesCase, count bool) (line string, diffs []usesDiff, skipped string) {
	cnt := func(k string) {
		if count {
			o.Count(k)
		}
	}
	rp := compileCached(c.program("R"))
	if rp.err != "" {
		cnt("uses_rt_rejected")
		return "", nil, "rt-rejected"
	}
	sp := compileReal(c.program("S"))
	fp := compileReal(c.program("F"))
	line = errClass(sp.err)
	if sp.err != "" {
		if fp.err != "" {
			cnt("uses_const_rejected_unshared_too")
			return line, nil, ""
		}
		k := "rejected"
		if errClass(sp.err) == "panic" {
			k = "panic"
		}
		return line, []usesDiff{{k, -1, map[string]any{"detail": sp.err}}}, ""
	}
	vecs := make([][]*big.Int, 3)
	for k := range vecs {
		vecs[k] = make([]*big.Int, c.nvars())
		for i := range vecs[k] {
			switch k {
			case 0:
				vecs[k][i] = big.NewInt(0)
			case 1:
				vecs[k][i] = c.t.enc(big.NewInt(-1))
			default:
				vecs[k][i] = c.t.enc(randValue(r, c.t))
			}
		}
	}
	seen := map[int]bool{}
	for k, xs := range vecs {
		so, e1 := compute(sp.circ, c.inputs("S", xs))
		ro, e2 := compute(rp.circ, c.inputs("R", xs))
		cnt("evaluations")
		if k == 0 {
			if e1 != "" {
				line = errClass(e1)
			} else {
				line = "ok " + strings.ReplaceAll(hexs(so), ",", " ")
			}
		}
		if e1 != "" || e2 != "" {
			return line, []usesDiff{{"compute-failed", -1, map[string]any{"detail": e1 + " / " + e2}}}, ""
		}
		var fo []*big.Int
		if fp.err == "" {
			fo, _ = compute(fp.circ, c.inputs("F", xs))
		}
		for i := 0; i < c.nvars(); i++ {
			if so[i].Cmp(ro[i]) == 0 {
				cnt("uses_output_agrees")
				continue
			}
			if fo != nil && fo[i].Cmp(so[i]) == 0 {
				cnt("uses_output_wrong_unshared_too")
				continue
			}
			if seen[i] {
				continue
			}
			seen[i] = true
			d := map[string]any{"output": i, "x": hexs(xs), "const_out": so[i].Text(16), "rt_out": ro[i].Text(16)}
			if fo != nil {
				d["fresh_literals_out"] = fo[i].Text(16)
				d["fresh_literals_agree_with_rt"] = bs(fo[i].Cmp(ro[i]) == 0)
			}
			diffs = append(diffs, usesDiff{"differs", i, d})
		}
	}
	return line, diffs, ""
}

// dropUse removes fold k (no later fold may name its result) and renumbers.
func (c usesCase) dropUse(k int) (usesCase, bool) {
	vi := len(c.decls) + k
	for _, u := range c.uses[k+1:] {
		if u.l == vi || (!u.op.shift && !u.op.unary && u.r == vi) {
			return c, false
		}
	}
	d := usesCase{style: c.style, t: c.t, decls: c.decls}
	re := func(i int) int {
		if i > vi {
			return i - 1
		}
		return i
	}
	for j, u := range c.uses {
		if j == k {
			continue
		}
		nu := uUse{u.op, re(u.l), u.r}
		if !u.op.shift && !u.op.unary {
			nu.r = re(u.r)
		}
		d.uses = append(d.uses, nu)
	}
	for i, cn := range c.cons {
		if i != vi {
			d.cons = append(d.cons, cn)
		}
	}
	return d, true
}

func minimiseUses(o *hxlib.Out, r *hxlib.Rng, c usesCase) usesCase {
	for changed := true; changed; {
		changed = false
		for k := len(c.uses) - 1; k >= 0; k-- {
			d, ok := c.dropUse(k)
			if !ok {
				continue
			}
			if _, diffs, _ := evalUses(o, r, d, false); len(diffs) > 0 {
				c, changed = d, true
				break
			}
		}
	}
	return c
}

func (c usesCase) describeVar(i int) string {
	if i < 0 {
		return "program"
	}
	if i < len(c.decls) {
		return fmt.Sprintf("v%d = %s (declared), used as `%s`", i, constExpr(c.t, c.decls[i].v, c.decls[i].form),
			consExpr(c.cons[i], fmt.Sprintf("v%d", i), "x"))
	}
	u := c.uses[i-len(c.decls)]
	return fmt.Sprintf("v%d = %s (fold)", i, c.useExpr(u, func(j int) string { return fmt.Sprintf("v%d", j) }))
}

func runUses(o *hxlib.Out, r *hxlib.Rng, c usesCase, verbose bool) {
	line, diffs, skipped := evalUses(o, r, c, true)
	if verbose {
		fmt.Fprintf(os.Stderr, "--- shared variant\n%s--- fresh-literal variant\n%s--- run-time variant\n%s-> %s\n",
			c.program("S"), c.program("F"), c.program("R"), line)
	}
	if skipped != "" {
		return
	}
	o.Count("uses_cases")
	o.Count("uses_style_" + c.style)
	o.Count("uses_width_" + nClass(c.t.n))
	o.Count(fmt.Sprintf("uses_folds_%d", len(c.uses)))
	if len(c.uses) > 0 {
		o.Count("uses_first_op_" + c.uses[0].op.sym)
	}
	o.Op(c.line(), line)
	if len(diffs) == 0 {
		return
	}
	o.Count("uses_cases_differing")
	m := minimiseUses(o, r, c)
	_, mdiffs, _ := evalUses(o, r, m, false)
	if len(mdiffs) == 0 {
		m, mdiffs = c, diffs
	}
	for _, df := range mdiffs {
		d := df.d
		d["style"] = m.style
		d["signed"] = bs(m.t.signed)
		d["n"] = m.t.n
		d["n_class"] = nClass(m.t.n)
		if len(m.uses) > 0 {
			d["op"] = m.uses[0].op.sym
		}
		d["variable"] = m.describeVar(df.output)
		if df.output >= 0 && df.output < len(m.decls) {
			d["stage"] = "declared-constant-changed-by-a-fold"
		} else if df.output >= 0 {
			d["stage"] = "fold-saw-operand-changed-by-earlier-fold"
		}
		d["const_program"] = m.program("S")
		d["uses_spec"] = m.line()
		d["generated_case"] = c.line()
		d["replay_cmd"] = "c12 uses -extra \"" + strings.TrimPrefix(m.line(), "c12 uses ") + "\""
		store.add(o, "c12-uses-"+df.kind, d)
	}
}

// ---------------------------------------------------------------- generator

var usesWidths = []int{8, 31, 32, 33, 63, 64, 65, 66, 100, 127, 128, 130}

func usesValue(r *hxlib.Rng, t ityp) *big.Int {
	switch r.Intn(5) {
	case 0: // fits 32 / 64 bits whatever the type
		v := randBits(r, []int{7, 31, 32, 33, 63, 64}[r.Intn(6)])
		if t.representable(v) {
			return v
		}
	case 1: // all the width
		v := randBits(r, t.n)
		if t.signed {
			v.Sub(v, pow2(t.n-1))
		}
		return v
	case 2: // alternating bytes
		v := new(big.Int)
		for i := 0; i < t.n; i++ {
			if (i/4)%2 == r.Intn(2) {
				v.SetBit(v, i, 1)
			}
		}
		if t.representable(v) {
			return v
		}
	}
	return randValue(r, t)
}

func genUses(r *hxlib.Rng, i int) usesCase {
	c := usesCase{style: []string{"var", "const"}[(i/len(intOps))%2]}
	w := usesWidths[(i/(2*len(intOps)))%len(usesWidths)]
	if r.Intn(6) == 0 {
		w = pickWidth(r)
	}
	c.t = ityp{r.Intn(3) == 0, w}
	nd := 2 + r.Intn(2)
	for k := 0; k < nd; k++ {
		v := usesValue(r, c.t)
		form := "cast"
		if v.Sign() < 0 && r.Bool() {
			form = "neg"
		}
		c.decls = append(c.decls, uDecl{v, form})
	}
	nu := 2 + r.Intn(3)
	intVars := []int{}
	for k := 0; k < nd; k++ {
		intVars = append(intVars, k)
	}
	pick := func() int {
		if r.Intn(10) < 7 {
			return r.Intn(nd)
		}
		return intVars[r.Intn(len(intVars))]
	}
	for k := 0; k < nu; k++ {
		var u uUse
		if k == 0 {
			// every operator in the first position, on the first two declarations
			u.op = intOps[i%len(intOps)]
			u.l, u.r = 0, 1
			if r.Intn(6) == 0 {
				u.l, u.r = 1, 0
			} else if r.Intn(8) == 0 {
				u.r = 0
			}
		} else {
			u.op = intOps[r.Intn(len(intOps))]
			if c.t.n > 64 && (u.op.sym == "/" || u.op.sym == "%" || u.op.sym == "*") && r.Intn(5) != 0 {
				u.op, _ = opByName([]string{"+", "-", "^", "|", "&"}[r.Intn(5)], false)
			}
			u.l, u.r = pick(), pick()
			if r.Intn(3) == 0 {
				// the operands of the first fold again, in either order
				u.l, u.r = c.uses[0].l, c.uses[0].r
				if c.uses[0].op.shift || c.uses[0].op.unary {
					u.r = (u.l + 1) % nd
				}
				if r.Intn(3) == 0 {
					u.l, u.r = u.r, u.l
				}
			}
		}
		if u.op.shift {
			n := c.t.n
			u.r = []int{0, 1, 3, n - 1, n, 31, 32, 33, 63, 64, r.Intn(n + 1)}[r.Intn(11)]
		}
		if u.op.unary {
			u.r = 0
		}
		c.uses = append(c.uses, u)
		if !u.op.cmp {
			intVars = append(intVars, nd+k)
		}
	}
	for k := 0; k < c.nvars(); k++ {
		c.cons = append(c.cons, multiCons[r.Intn(len(multiCons))])
	}
	return c
}

func modeUses(cf *hxlib.CommonFlags, o *hxlib.Out) {
	if strings.TrimSpace(cf.Extra) != "" {
		c, err := parseUsesLine(cf.Extra)
		if err != nil {
			fmt.Fprintln(os.Stderr, err)
			os.Exit(2)
		}
		runUses(o, hxlib.NewRng(cf.Seed), c, true)
		for _, fl := range store.fails {
			fmt.Fprintf(os.Stderr, "FAIL %v\n", fl)
		}
		return
	}
	r := hxlib.NewRng(cf.Seed ^ 0x75736573)
	for i := 0; i < cf.N; i++ {
		cr := r.Fork()
		c := genUses(cr, i)
		if cf.Only >= 0 && i != cf.Only {
			continue
		}
		runUses(o, cr, c, cf.Only >= 0)
	}
}

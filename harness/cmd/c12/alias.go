package main

// Mode `alias`: two typed constants with the same VALUE NAME in one program.
// Constant wires are allocated per name (`$<value>`) with the type of the use
// that was registered first; a later use with another width goes through the
// re-widening of Program.Circuit (sign extension for TInt, zero otherwise).
// The oracle compares with the run-time variant where both values are inputs.

import (
	"fmt"
	"math/big"
	"strings"

	"verifharness/hxlib"
)

type aliasCase struct {
	t1, t2 ityp
	v      *big.Int // value of the FIRST constant (representable in t1)
	sum    bool     // second constant is the folded `v | 0` resp. written directly
}

// mpaValue is the number the compiler prints for the typed constant t(v)
// (form T(v) / T(-v)): negative values are the 32/64-bit two's complement of
// the untyped fold.
func mpaValue(v *big.Int) *big.Int {
	if v.Sign() >= 0 {
		return new(big.Int).Set(v)
	}
	abs := new(big.Int).Abs(v)
	size := 32
	if abs.BitLen() > 32 {
		size = 64
	}
	return new(big.Int).Mod(v, pow2(size))
}

func runAlias(o *hxlib.Out, c aliasCase) {
	V := mpaValue(c.v)
	// the second constant denotes the same printed value in t2
	var second string
	v2 := new(big.Int).Set(c.v)
	if c.v.Sign() >= 0 || c.t2.signed {
		if !c.t2.representable(v2) {
			o.Count("alias_skipped")
			return
		}
	} else {
		v2 = V // unsigned second type: written as the positive literal
		if !c.t2.representable(v2) {
			o.Count("alias_skipped")
			return
		}
	}
	second = constExpr(c.t2, v2, "cast")
	if c.sum && v2.Sign() > 0 {
		// a FOLDED constant of the same value; `|` is exact for non-negative operands
		// (Props/C12.lean C12_text_wrap_nonneg), unlike `+` (finding C12-add-masked-to-operand-size)
		second = fmt.Sprintf("(%s | %s)", constExpr(c.t2, v2, "cast"), constExpr(c.t2, big.NewInt(0), "cast"))
	}
	first := constExpr(c.t1, c.v, "cast")
	cprog := fmt.Sprintf("package main\n\nfunc main(y %s, x %s) (%s, %s) {\n\treturn %s + y, %s + x\n}\n",
		c.t1.name(), c.t2.name(), c.t1.name(), c.t2.name(), first, second)
	rprog := fmt.Sprintf("package main\n\nfunc main(a %s, b %s, y %s, x %s) (%s, %s) {\n\treturn a + y, b + x\n}\n",
		c.t1.name(), c.t2.name(), c.t1.name(), c.t2.name(), c.t1.name(), c.t2.name())
	cp := compileReal(cprog)
	rp := compileReal(rprog)
	o.Count("alias_cases")
	d := func() map[string]any {
		n1, n2 := c.t1.n, c.t2.n
		// Program.Circuit (3c18dfa): a constant used at another width than the
		// wires of the first registered instance takes its bits from its own
		// value; a TInt constant is sign-extended from its own mpa size.
		own := constantSize(V.BitLen())
		if own > n2 {
			own = n2
		}
		ext := new(big.Int).Mod(V, pow2(own))
		signBitSet := ext.Bit(own-1) == 1
		if c.t2.signed && signBitSet {
			ext.Sub(ext, pow2(own))
		}
		ext.Mod(ext, pow2(n2))
		want := new(big.Int).Mod(V, pow2(n2))
		return map[string]any{
			"first_type": c.t1.name(), "second_type": c.t2.name(), "value": c.v.String(), "printed_value": V.String(),
			"first_narrower": bs(n1 < n2), "second_signed": bs(c.t2.signed), "second_is_folded_sum": bs(c.sum),
			// does re-extending the second use from its own value and mpa size change the value?
			"rewidening_changes_value": bs(n1 != n2 && ext.Cmp(want) != 0),
			"nonneg_value_with_top_bit_of_its_mpa_size_set": bs(c.v.Sign() >= 0 && V.Bit(constantSize(V.BitLen())-1) == 1),
			"const_program": strings.ReplaceAll(cprog, "\n", " "),
		}
	}
	if rp.err != "" {
		o.Count("alias_rt_rejected")
		return
	}
	if cp.err != "" {
		f := d()
		f["detail"] = cp.err
		if errClass(cp.err) == "panic" {
			store.add(o, "c12-alias-panic", f)
		} else {
			o.Count("alias_const_rejected")
		}
		return
	}
	for _, yx := range [][2]int64{{0, 0}, {1, 3}} {
		y, x := big.NewInt(yx[0]), big.NewInt(yx[1])
		co, e1 := compute(cp.circ, []*big.Int{y, x})
		if e1 == "" && yx[0] == 0 {
			o.Op(fmt.Sprintf("c12 alias %s %d %s %d %s %s", c.t1.su(), c.t1.n, c.t2.su(), c.t2.n, c.v, v2),
				fmt.Sprintf("ok %s %s", co[0].Text(16), co[1].Text(16)))
		}
		ro, e2 := compute(rp.circ, []*big.Int{c.t1.enc(c.v), c.t2.enc(v2), y, x})
		if e1 != "" || e2 != "" {
			continue
		}
		for i := range co {
			if co[i].Cmp(ro[i]) != 0 {
				f := d()
				f["output"] = i
				f["const_out"] = co[i].Text(16)
				f["rt_out"] = ro[i].Text(16)
				store.add(o, "c12-alias-differs", f)
				o.Count("alias_differs")
			} else {
				o.Count("alias_agrees")
			}
		}
	}
}

func modeAlias(cf *hxlib.CommonFlags, o *hxlib.Out) {
	r := hxlib.NewRng(cf.Seed ^ 0x5eed)
	ws := []int{1, 7, 8, 9, 16, 31, 32, 33, 48, 63, 64}
	for i := 0; i < cf.N; i++ {
		cr := r.Fork()
		c := aliasCase{t1: ityp{cr.Bool(), ws[cr.Intn(len(ws))]}, t2: ityp{cr.Bool(), ws[cr.Intn(len(ws))]}, sum: cr.Intn(3) == 0}
		c.v = randValue(cr, c.t1)
		if cr.Intn(3) == 0 {
			// top-bit pattern of the first type
			if c.t1.signed {
				c.v = big.NewInt(-1 - int64(cr.Intn(50)))
				if !c.t1.representable(c.v) {
					c.v = big.NewInt(-1)
				}
			} else {
				c.v = new(big.Int).Sub(c.t1.max(), big.NewInt(int64(cr.Intn(3))))
				if c.v.Sign() < 0 {
					c.v = c.t1.max()
				}
			}
		}
		// typed negative constants wider than 32 bits are wrong on their own
		// (finding C12-typed-negative-constant-not-extended): keep them out
		if c.v.Sign() < 0 && (c.t1.n > 32 || c.t2.n > 32) {
			c.v = new(big.Int).Neg(c.v)
			if !c.t1.representable(c.v) {
				c.v = c.t1.max()
			}
		}
		if i == 0 {
			c = aliasCase{t1: ityp{false, 8}, t2: ityp{true, 32}, v: big.NewInt(200)}
		}
		if i == 1 {
			c = aliasCase{t1: ityp{true, 8}, t2: ityp{true, 32}, v: big.NewInt(-43)}
		}
		if cf.Only >= 0 && i != cf.Only {
			continue
		}
		runAlias(o, c)
	}
	if cf.Only < 0 {
		// kept cases, after the generated ones (the witness of
		// Mpc.C12_rewiden_witness and its 64-bit sibling)
		runAlias(o, aliasCase{t1: ityp{false, 32}, t2: ityp{true, 33}, v: big.NewInt(4294967295)})
		runAlias(o, aliasCase{t1: ityp{false, 64}, t2: ityp{true, 65}, v: new(big.Int).SetUint64(1<<64 - 1)})
	}
}

package main

// Adversarial pairs of typed constants for the IDENTITY of constants.
//
// A constant's identity is a text derived from its value (its Name).  The
// pairs below are the ways two different (value, type) can come to look alike
// to any such derivation — and the ways one and the same bit pattern can come
// to look different:
//
//	digits   one digit string read in two bases (2, 8, 10, 16), lengths around the
//	         32 / 64 / 128-bit sizing boundaries of Generator.Constant
//	low64    equal low 64 (32) bits, different above
//	width    the same value at two widths / signednesses
//	negpos   -k in intN versus 2^N - k, 2^32 - k, 2^64 - k in uintM
//	text     v2's decimal digits are v1's digits with the sign / a prefix digit dropped or
//	         the digits of v1's hexadecimal / octal / binary spelling
//	same     the same (value, type) twice (must share)
//	random   two unrelated boundary-biased values
//
// Mode `ident` probes the real ssa.Generator.Constant with each pair; mode
// `multi` puts each pair into one program (multi.go).

import (
	"fmt"
	"math/big"
	"os"
	"strings"

	"github.com/markkurossi/mpc/compiler/mpa"
	"github.com/markkurossi/mpc/compiler/ssa"
	"github.com/markkurossi/mpc/types"

	"verifharness/hxlib"
)

type collPair struct {
	class  string
	t1, t2 ityp
	v1, v2 *big.Int
}

const maxWidth = 130

// fitType: a type of the given signedness that holds v; `same` asks for the
// width w if it is large enough.
func fitWidth(v *big.Int, signed bool) int {
	n := v.BitLen()
	if signed {
		if v.Sign() < 0 {
			n = new(big.Int).Add(v, one).BitLen()
		}
		n++
	}
	if n < 1 {
		n = 1
	}
	return n
}

var widthLadder = []int{8, 16, 32, 33, 64, 65, 100, 128, 130}

func ladderAtLeast(n int, r *hxlib.Rng) int {
	if r.Intn(4) == 0 {
		return n
	}
	for _, w := range widthLadder {
		if w >= n {
			return w
		}
	}
	return n
}

// typed builds the pair (v1, v2) with one common type where possible
// (sharing needs equal widths), or two different ones.
func typed(r *hxlib.Rng, class string, v1, v2 *big.Int, sameWidth bool) (collPair, bool) {
	s1, s2 := false, false
	if v1.Sign() < 0 {
		s1 = true
	} else if r.Intn(4) == 0 {
		s1 = true
	}
	if v2.Sign() < 0 {
		s2 = true
	} else if r.Intn(4) == 0 {
		s2 = true
	}
	n1, n2 := fitWidth(v1, s1), fitWidth(v2, s2)
	if n1 > maxWidth || n2 > maxWidth {
		return collPair{}, false
	}
	if sameWidth {
		n := n1
		if n2 > n {
			n = n2
		}
		n = ladderAtLeast(n, r)
		n1, n2 = n, n
	} else {
		n1, n2 = ladderAtLeast(n1, r), ladderAtLeast(n2, r)
		if n1 == n2 && n2 < maxWidth {
			n2++
		}
	}
	return collPair{class: class, t1: ityp{s1, n1}, t2: ityp{s2, n2}, v1: v1, v2: v2}, true
}

func digitString(r *hxlib.Rng, l, maxDigit, pattern int) string {
	b := make([]byte, l)
	for i := range b {
		switch pattern {
		case 0: // 1000...0
			b[i] = '0'
		case 1: // all the largest digit
			b[i] = byte('0' + maxDigit)
		default:
			b[i] = byte('0' + r.Intn(maxDigit+1))
		}
	}
	if b[0] == '0' {
		b[0] = '1'
	}
	return string(b)
}

var basePairs = [][2]int{{16, 10}, {8, 10}, {2, 10}, {8, 16}, {2, 16}, {2, 8}}

// digitLengths: digit counts at which a value written in base b crosses 31..33, 63..65, 127..129 bits, and a few small ones.
func digitLengths(b int) []int {
	bitsPer := map[int]float64{2: 1, 8: 3, 10: 3.3219, 16: 4}[b]
	seen := map[int]bool{}
	var ls []int
	add := func(l int) {
		if l >= 1 && !seen[l] {
			seen[l] = true
			ls = append(ls, l)
		}
	}
	for _, l := range []int{1, 2, 5} {
		add(l)
	}
	for _, bits := range []int{32, 64, 128} {
		l := int(float64(bits) / bitsPer)
		for d := -1; d <= 2; d++ {
			add(l + d)
		}
	}
	return ls
}

func parseBase(s string, b int) *big.Int {
	v, _ := new(big.Int).SetString(s, b)
	return v
}

// systematicPairs: the enumerated part (every base pair x boundary length of
// either base x digit pattern), seed-dependent only in the random digits.
func systematicPairs(r *hxlib.Rng) []collPair {
	var ps []collPair
	add := func(p collPair, ok bool) {
		if ok {
			ps = append(ps, p)
		}
	}
	for _, bp := range basePairs {
		hi, lo := bp[0], bp[1]
		if lo > hi {
			hi, lo = lo, hi
		}
		seen := map[int]bool{}
		for _, b := range bp {
			for _, l := range digitLengths(b) {
				if seen[l] {
					continue
				}
				seen[l] = true
				for pattern := 0; pattern < 3; pattern++ {
					d := digitString(r, l, lo-1, pattern)
					v1, v2 := parseBase(d, bp[0]), parseBase(d, bp[1])
					if v1.Cmp(v2) == 0 {
						continue
					}
					add(typed(r, fmt.Sprintf("digits-%d-%d", bp[0], bp[1]), v1, v2, pattern != 1 || r.Bool()))
				}
			}
		}
	}
	// equal low 32 / 64 bits
	for _, k := range []int{32, 64} {
		for i := 0; i < 6; i++ {
			lowv := randBits(r, k)
			if i == 0 {
				lowv = big.NewInt(0)
			}
			hiv := new(big.Int).Lsh(big.NewInt(int64(1+r.Intn(3))), uint(k+r.Intn(3)*(i%2)))
			add(typed(r, fmt.Sprintf("low%d", k), lowv, new(big.Int).Add(lowv, hiv), i%3 != 2))
		}
	}
	// the same value at two widths / signednesses
	for i := 0; i < 14; i++ {
		k := []int{7, 8, 31, 32, 33, 63, 64, 65, 100}[i%9]
		v := new(big.Int).Sub(pow2(k), big.NewInt(int64(r.Intn(3))))
		if i >= 9 {
			v = randBits(r, k)
		}
		add(typed(r, "width", v, new(big.Int).Set(v), false))
	}
	// negative versus large positive pattern
	for i := 0; i < 16; i++ {
		k := big.NewInt(int64(1 + r.Intn(200)))
		if i%4 == 0 {
			k = big.NewInt(1)
		}
		neg := new(big.Int).Neg(k)
		n := []int{8, 32, 33, 64, 65, 100}[i%6]
		for _, m := range []int{n, 32, 64} {
			pos := new(big.Int).Sub(pow2(m), k)
			p := collPair{class: "negpos", t1: ityp{true, n}, t2: ityp{false, maxInt(m, n)}, v1: neg, v2: pos}
			if p.t1.representable(neg) && p.t2.representable(pos) {
				ps = append(ps, p)
			}
		}
	}
	// v2 reads like (part of) v1's printed text
	for i := 0; i < 16; i++ {
		t := ityp{false, []int{32, 64, 65, 100, 128}[i%5]}
		v := randValue(r, t)
		if v.BitLen() < 8 {
			v = randBits(r, t.n)
		}
		var d string
		switch i % 4 {
		case 0:
			d = v.Text(16)
		case 1:
			d = v.Text(8)
		case 2:
			d = v.String()[1:]
		default:
			d = v.Text(2)
		}
		if strings.Trim(d, "0123456789") != "" || d == "" {
			continue
		}
		v2 := parseBase(d, 10)
		if v2.Cmp(v) == 0 {
			continue
		}
		add(typed(r, "text", v, v2, i%3 != 0))
	}
	// the same (value, type) twice
	for i := 0; i < 6; i++ {
		t := ityp{r.Bool(), []int{8, 32, 64, 65, 100, 130}[i]}
		v := randValue(r, t)
		ps = append(ps, collPair{class: "same", t1: t, t2: t, v1: v, v2: new(big.Int).Set(v)})
	}
	return ps
}

func randomPair(r *hxlib.Rng) collPair {
	switch r.Intn(4) {
	case 0:
		t1, t2 := ityp{r.Bool(), pickWidth(r)}, ityp{r.Bool(), pickWidth(r)}
		return collPair{class: "random", t1: t1, t2: t2, v1: randValue(r, t1), v2: randValue(r, t2)}
	case 1:
		t := ityp{r.Bool(), pickWidth(r)}
		return collPair{class: "random-same-type", t1: t, t2: t, v1: randValue(r, t), v2: randValue(r, t)}
	default:
		for {
			bp := basePairs[r.Intn(len(basePairs))]
			lo := bp[1]
			if bp[0] < lo {
				lo = bp[0]
			}
			maxLen := map[int]int{2: 128, 8: 42, 10: 38, 16: 32}[bp[0]]
			if m := map[int]int{2: 128, 8: 42, 10: 38, 16: 32}[bp[1]]; bp[1] > bp[0] && m < maxLen {
				maxLen = m
			}
			d := digitString(r, 1+r.Intn(maxLen), lo-1, 2+r.Intn(2))
			v1, v2 := parseBase(d, bp[0]), parseBase(d, bp[1])
			if r.Bool() {
				v1, v2 = v2, v1
			}
			if v1.Cmp(v2) == 0 {
				continue
			}
			if p, ok := typed(r, fmt.Sprintf("digits-%d-%d", bp[0], bp[1]), v1, v2, r.Intn(3) != 0); ok {
				return p
			}
		}
	}
}

// collisionPairs: the systematic pairs first (both orders over two runs of the
// generator are not needed: multi.go permutes the items), then random ones.
func collisionPairs(r *hxlib.Rng, n int) []collPair {
	ps := systematicPairs(r.Fork())
	for len(ps) < n {
		ps = append(ps, randomPair(r))
	}
	// interleave: a short run must still see every class
	if n < len(ps) {
		step := float64(len(ps)) / float64(n)
		var sel []collPair
		for i := 0; i < n; i++ {
			sel = append(sel, ps[int(float64(i)*step)])
		}
		ps = sel
	}
	return ps
}

// ---------------------------------------------------------------- mode ident

// realConstant: what the compiler builds for the typed constant T(v), v >= 0
// (lexer: mpa.Parse; BasicLit.Eval: Constant(v, Undefined); Call.Eval: the
// type is replaced), resp. for -v the two's complement image at the declared
// width, through the REAL ssa.Generator.Constant.
func realConstant(gen *ssa.Generator, t ityp, v *big.Int) (val ssa.Value, err string) {
	defer func() {
		if e := recover(); e != nil {
			err = "panic: " + clip(fmt.Sprint(e), 120)
		}
	}()
	m, ok := mpa.Parse(t.enc(v).String(), 10)
	if !ok {
		return val, "error: mpa.Parse"
	}
	ti := types.Info{Type: types.TUint, IsConcrete: true, Bits: types.Size(t.n), MinBits: types.Size(t.n)}
	if t.signed {
		ti.Type = types.TInt
	}
	return gen.Constant(m, ti), ""
}

func runIdent(o *hxlib.Out, p collPair, verbose bool) {
	gen := ssa.NewGenerator(params())
	c1, e1 := realConstant(gen, p.t1, p.v1)
	c2, e2 := realConstant(gen, p.t2, p.v2)
	line := fmt.Sprintf("c12 ident %s %d %s %s %d %s", p.t1.su(), p.t1.n, p.v1, p.t2.su(), p.t2.n, p.v2)
	o.Count("ident_pairs")
	o.Count("ident_class_" + p.class)
	if e1 != "" || e2 != "" {
		o.Op(line, errClass(e1+e2))
		o.Count("ident_constant_failed")
		return
	}
	same := c1.Name == c2.Name
	equal := (&c1).Equal(&c2)
	// the wires a use of either constant may share: the low min(width) bits
	w := p.t1.n
	if p.t2.n < w {
		w = p.t2.n
	}
	diffBit := -1
	for i := 0; i < w; i++ {
		if c1.Bit(types.Size(i)) != c2.Bit(types.Size(i)) {
			diffBit = i
			break
		}
	}
	res := "distinct"
	if same {
		res = "same"
	}
	if equal != same {
		res += " equal-differs-from-name"
	}
	o.Op(line, "ok "+res)
	if verbose {
		fmt.Fprintf(os.Stderr, "%s -> %q / %q (%s) first differing bit below %d: %d\n", line, c1.Name, c2.Name, res, w, diffBit)
	}
	if same {
		o.Count("ident_same_name")
	} else {
		o.Count("ident_distinct_name")
	}
	if (same || equal) && diffBit >= 0 {
		store.add(o, "c12-const-identity-collision", map[string]any{
			"class": p.class, "first_type": p.t1.name(), "first_value": p.v1.String(), "second_type": p.t2.name(),
			"second_value": p.v2.String(), "name": c1.Name, "first_differing_bit": diffBit,
			"same_width": bs(p.t1.n == p.t2.n), "ident_spec": strings.TrimPrefix(line, "c12 ident "),
			"replay_cmd": "c12 ident -extra \"" + strings.TrimPrefix(line, "c12 ident ") + "\"",
			"detail": fmt.Sprintf("Generator.Constant gives %s(%s) and %s(%s) one Name %q (Value.Equal=%v) although bit %d differs: "+
				"whichever is registered second gets the other one's wires", p.t1.name(), p.v1, p.t2.name(), p.v2, c1.Name, equal, diffBit),
		})
	}
}

func parseIdent(s string) (collPair, error) {
	f := strings.Fields(s)
	if len(f) != 6 {
		return collPair{}, fmt.Errorf("ident: need <s|u> <n1> <v1> <s|u> <n2> <v2>")
	}
	p := collPair{class: "replay"}
	fmt.Sscan(f[1], &p.t1.n)
	fmt.Sscan(f[4], &p.t2.n)
	p.t1.signed, p.t2.signed = f[0] == "s", f[3] == "s"
	var ok1, ok2 bool
	p.v1, ok1 = new(big.Int).SetString(f[2], 10)
	p.v2, ok2 = new(big.Int).SetString(f[5], 10)
	if !ok1 || !ok2 {
		return p, fmt.Errorf("ident: bad number")
	}
	return p, nil
}

func modeIdent(cf *hxlib.CommonFlags, o *hxlib.Out) {
	if strings.TrimSpace(cf.Extra) != "" {
		p, err := parseIdent(cf.Extra)
		if err != nil {
			fmt.Fprintln(os.Stderr, err)
			os.Exit(2)
		}
		runIdent(o, p, true)
		for _, fl := range store.fails {
			fmt.Fprintf(os.Stderr, "FAIL %v\n", fl)
		}
		return
	}
	r := hxlib.NewRng(cf.Seed ^ 0x6964656e74)
	for i, p := range collisionPairs(r, cf.N) {
		if cf.Only >= 0 && i != cf.Only {
			continue
		}
		if !p.t1.representable(p.v1) || !p.t2.representable(p.v2) {
			o.Count("ident_skipped_not_representable")
			continue
		}
		runIdent(o, p, cf.Only >= 0)
		// and in the other order (first-registered matters for Equal only through the names; cheap)
		runIdent(o, collPair{class: p.class, t1: p.t2, t2: p.t1, v1: p.v2, v2: p.v1}, false)
	}
}

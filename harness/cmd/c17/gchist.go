package main

// Mode `gchist`: GC histories on one shared circuit.
//
// "A garbling stays valid until it is released" is about the DATA of a
// garbling (g.Wires, g.Gates: slices into the pooled scratch), whoever holds
// the *Garbled header.  The repository's own callers keep the slices and let
// the header go (sha2pc.GarblerRound3 returns garbled.Gates in its payload).
// The stress rounds keep every *Garbled until they have checked or released it
// and never force a collection; this mode generates the histories they leave
// out.  One case = one circuit, one history executed by goroutine 0:
//
//	G  Garble, then either keep only R / Wires / Gates and DROP the header
//	   (event D) or keep the header (control)
//	K  force 1..2 collections (runtime.GC) and give the runtime's finalizer
//	   goroutine time to run (Gosched / short sleeps, seeded)
//	O  1..4 Garble+verify+Release(+second Release) calls of other sessions on the
//	   same circuit, inline or by 1..3 helper goroutines (joined)
//	V  re-read a retained garbling (digest against the snapshot taken when Garble
//	   returned = the single-goroutine reference), optionally evaluate it
//	R  Release a header-kept garbling      Q  second Release      A  error path
//	F  re-read and evaluate every retained, unreleased garbling
//
// under GOMAXPROCS 1 (the sync.Pool private slot makes reuse deterministic), 2
// and the machine's default.  Oracle: retained data unchanged and still
// evaluating correctly, whoever holds the header; the logged events are a run
// of the Lean model (Model/PoolGC.lean, fin = false: a collection enables
// nothing, a dropped garbling keeps its scratch).  Every case is a function
// of (seed, index): `-only i` re-runs exactly that history.

import (
	"fmt"
	"os"
	"runtime"
	"strings"
	"sync"
	"time"

	"verifharness/hxlib"
)

type gcStep struct {
	op   byte
	a, b int
}

func renderHistory(h []gcStep) string {
	var sb strings.Builder
	for i, s := range h {
		if i > 0 {
			sb.WriteByte(' ')
		}
		switch s.op {
		case 'G':
			if s.a == 0 {
				sb.WriteString("G(data-only)")
			} else {
				sb.WriteString("G(header-kept)")
			}
		case 'K':
			fmt.Fprintf(&sb, "K(gc=%d,wait=%d)", s.a, s.b)
		case 'O':
			fmt.Fprintf(&sb, "O(n=%d,goroutines=%d)", s.a, s.b)
		case 'V':
			fmt.Fprintf(&sb, "V(sel=%d,eval=%d)", s.a, s.b)
		case 'R', 'Q':
			fmt.Fprintf(&sb, "%c(sel=%d)", s.op, s.a)
		default:
			sb.WriteByte(s.op)
		}
	}
	return sb.String()
}

func genHistory(r *hxlib.Rng, wide bool) []gcStep {
	phases := 3 + r.Intn(4)
	if wide {
		phases = 8 + r.Intn(8)
	}
	var h []gcStep
	for p := 0; p < phases; p++ {
		for k := 1 + r.Intn(2); k > 0; k-- {
			keep := 0
			if r.Intn(5) < 2 {
				keep = 1
			}
			h = append(h, gcStep{'G', keep, 0})
		}
		if r.Intn(8) == 0 {
			h = append(h, gcStep{'A', 0, 0})
		}
		if r.Intn(4) != 0 {
			h = append(h, gcStep{'K', 1 + r.Intn(2), r.Intn(3)})
		}
		h = append(h, gcStep{'O', 1 + r.Intn(4), r.Intn(4)})
		for k := 1 + r.Intn(3); k > 0; k-- {
			h = append(h, gcStep{'V', r.Intn(1 << 16), r.Intn(2)})
		}
		if r.Intn(3) == 0 {
			h = append(h, gcStep{'R', r.Intn(1 << 16), 0})
		}
		if r.Intn(4) == 0 {
			h = append(h, gcStep{'Q', r.Intn(1 << 16), 0})
		}
	}
	h = append(h, gcStep{'K', 2, 1}, gcStep{'O', 2 + r.Intn(3), 0}, gcStep{'F', 0, 0})
	return h
}

// garbleRetain garbles and keeps what a protocol round keeps of a garbling.
// dataOnly: only R and the two slices; the *Garbled header is let go.
//
//go:noinline
func (w *worker) garbleRetain(dataOnly bool) *handle {
	n := len(w.live)
	w.garble()
	if len(w.live) == n {
		return nil
	}
	h := w.live[n]
	w.live = w.live[:n]
	h.r, h.wires, h.gates = h.g.R, h.g.Wires, h.g.Gates
	if dataOnly {
		w.log('D', h.id, 0, 0, 0)
		h.g = nil
		h.dropped = true
	}
	return h
}

func retention(h *handle) string {
	if h.dropped {
		return "data-only (header dropped)"
	}
	return "header-kept"
}

// gcVerify re-reads a retained garbling: through the header when the caller
// still has it, through the retained slices otherwise.
func (w *worker) gcVerify(h *handle, eval bool, pos int) {
	rd := w.rd
	r, wires, gates := h.r, h.wires, h.gates
	if !h.dropped {
		r, wires, gates = h.g.R, h.g.Wires, h.g.Gates
	}
	d := digestParts(r, wires, gates, rd.def)
	w.log('V', h.id, 0, 0, d.one())
	exp := rd.jobs[h.job].exp
	if d != exp {
		rd.fail("c17-retained-garbling-changed", map[string]any{"t": w.t, "job": h.job, "differs": d.diff(exp),
			"retention": retention(h), "garbled_at_step": h.born, "read_at_step": pos,
			"collected_over": h.stage >= 1, "garble_calls_after_collection": h.stage >= 2,
			"what": "the data (R / Wires / Gates) of a garbling that was never released differs from the snapshot " +
				"taken when Garble returned"})
		return
	}
	if eval {
		w.evalWith(h.job, wires, gates, wires, "retained "+retention(h))
		w.log('C', 0, 0, 0, 0)
	}
}

func gcMain(args []string) int {
	cf, o := hxlib.ParseCommon("c17", args, nil)
	defer o.Close()
	rng := hxlib.NewRng(cf.Seed ^ 0x6763686973740000) // "gchist": stream unrelated to the stress rounds of the seed
	o.Meta["observe"] = obs.desc
	wide := strings.Contains(cf.Extra, "wide")
	progress := cf.Meta + ".progress"
	for i := 0; i < cf.N; i++ {
		r := rng.Fork()
		if cf.Only >= 0 && i != cf.Only {
			continue
		}
		if cf.Meta != "" {
			os.WriteFile(progress, []byte(fmt.Sprintf("%d", i)), 0o644)
		}
		runGCCase(o, cf, r, i, wide)
	}
	if cf.Meta != "" {
		os.WriteFile(progress, []byte("done"), 0o644)
	}
	return 0
}

func runGCCase(o *hxlib.Out, cf *hxlib.CommonFlags, r *hxlib.Rng, idx int, wide bool) {
	procs := []int{1, 0, 1, 2}[idx%4] // 0: leave GOMAXPROCS as it is
	sizes := []int{40, 300, 300, 1500}
	kind := fmt.Sprintf("gc-procs%d", procs)
	rd := newRound(o, cf, r, idx, kind, sizes[r.Intn(len(sizes))])
	if rd == nil {
		return
	}
	rd.idByBuf = true
	rd.mode = "gchist"
	if wide {
		rd.mode = "gchist -extra wide"
	}
	hist := genHistory(r, wide)
	rd.hist = renderHistory(hist)
	if procs > 0 {
		prev := runtime.GOMAXPROCS(procs)
		defer runtime.GOMAXPROCS(prev)
	}
	w0 := &worker{rd: rd, t: 0, rng: r.Fork()}
	ws := []*worker{w0}
	var kept, released []*handle
	unreleased := func(headerOnly bool) []*handle {
		var c []*handle
		for _, h := range kept {
			if h.g == nil && !h.dropped {
				continue // released
			}
			if headerOnly && h.dropped {
				continue
			}
			c = append(c, h)
		}
		return c
	}
	guard := func(w *worker, f func()) {
		defer func() {
			if e := recover(); e != nil {
				buf := make([]byte, 2048)
				n := runtime.Stack(buf, false)
				rd.fail("c17-panic", map[string]any{"t": w.t, "panic": fmt.Sprint(e), "stack": string(buf[:n])})
			}
		}()
		f()
	}
	other := func(w *worker, cnt int) {
		for i := 0; i < cnt; i++ {
			w.garble()
			if w.rng.Bool() {
				w.verify()
			}
			w.yield()
			w.releaseSome()
			if w.rng.Intn(3) == 0 {
				w.release2()
			}
		}
	}
	var readsAfter, collects int
	guard(w0, func() {
		for pos, st := range hist {
			switch st.op {
			case 'G':
				for _, h := range kept {
					if h.stage == 1 {
						h.stage = 2
					}
				}
				if h := w0.garbleRetain(st.a == 0); h != nil {
					h.born = pos
					kept = append(kept, h)
					if h.dropped {
						o.Count("retained_data_only")
					} else {
						o.Count("retained_header_kept")
					}
				}
			case 'K':
				switch st.b {
				case 0:
					for i := 0; i < st.a; i++ {
						runtime.GC()
					}
					runtime.Gosched()
					runtime.Gosched()
				case 1:
					for i := 0; i < st.a; i++ {
						runtime.GC()
						time.Sleep(time.Millisecond)
					}
				default:
					for i := 0; i < st.a; i++ {
						runtime.GC()
					}
					time.Sleep(3 * time.Millisecond)
					runtime.Gosched()
				}
				w0.log('K', 0, 0, 0, 0)
				collects++
				for _, h := range kept {
					if h.stage == 0 {
						h.stage = 1
					}
				}
			case 'O':
				for _, h := range kept {
					if h.stage == 1 {
						h.stage = 2
					}
				}
				ng := st.b
				if ng > st.a {
					ng = st.a
				}
				if ng == 0 {
					other(w0, st.a)
					break
				}
				var wg sync.WaitGroup
				per := (st.a + ng - 1) / ng
				for k := 0; k < ng; k++ {
					hw := &worker{rd: rd, t: 1 + k, rng: w0.rng.Fork()}
					ws = append(ws, hw)
					wg.Add(1)
					go func() {
						defer wg.Done()
						guard(hw, func() { other(hw, per) })
					}()
				}
				wg.Wait()
			case 'V':
				if c := unreleased(false); len(c) > 0 {
					h := c[st.a%len(c)]
					if h.dropped && h.stage >= 2 {
						readsAfter++
					}
					w0.gcVerify(h, st.b == 1, pos)
				}
			case 'R':
				if c := unreleased(true); len(c) > 0 {
					h := c[st.a%len(c)]
					w0.log('R', h.id, 0, 0, 0)
					h.g.Release()
					if h.g.Wires != nil || h.g.Gates != nil {
						rd.fail("c17-release-not-cleared", map[string]any{"t": 0})
					}
					released = append(released, &handle{g: h.g, id: h.id, job: h.job})
					h.g = nil
				}
			case 'Q':
				if len(released) > 0 {
					h := released[st.a%len(released)]
					w0.log('Q', h.id, 0, 0, 0)
					h.g.Release()
				}
			case 'A':
				w0.abort()
			case 'F':
				for _, h := range unreleased(false) {
					if h.dropped && h.stage >= 2 {
						readsAfter++
					}
					w0.gcVerify(h, true, pos)
				}
			}
		}
	})
	o.CountN("collections", collects)
	o.CountN("reads_of_data_only_garbling_after_collection_and_later_garble", readsAfter)
	o.CountN("history_steps", len(hist))
	finishRound(o, rd, ws, len(ws))
	runtime.KeepAlive(kept)
	runtime.KeepAlive(released)
}

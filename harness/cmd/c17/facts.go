package main

// Structural facts about the scratch-pool protocol, extracted from the
// repository's current source with go/parser + go/ast (mode `facts`).  The
// semantic facts (interprocedural effect sets, Put-count per return path,
// operations on Circuit.garblePool, allocation sites of a new scratch) are in
// effects.go; this file holds the parsing helpers and the textual renderings
// that checks/C17.py uses as ADVISORY facts only.

import (
	"bytes"
	"go/ast"
	"go/parser"
	"go/printer"
	"go/token"
	"path/filepath"
	"sort"
	"strings"
)

type factsCtx struct {
	fset  *token.FileSet
	files map[string]*ast.File
}

func (fc *factsCtx) render(n ast.Node) string {
	var b bytes.Buffer
	printer.Fprint(&b, fc.fset, n)
	s := strings.Join(strings.Fields(b.String()), " ")
	return s
}

func parseFile(fc *factsCtx, p string) (*ast.File, error) {
	return parser.ParseFile(fc.fset, p, nil, 0)
}

func recvTypeName(fd *ast.FuncDecl) string {
	if fd.Recv == nil || len(fd.Recv.List) == 0 {
		return ""
	}
	t := fd.Recv.List[0].Type
	if s, ok := t.(*ast.StarExpr); ok {
		t = s.X
	}
	if id, ok := t.(*ast.Ident); ok {
		return id.Name
	}
	return "?"
}

func (fc *factsCtx) findFunc(recv, name string) *ast.FuncDecl {
	for _, f := range fc.files {
		for _, d := range f.Decls {
			if fd, ok := d.(*ast.FuncDecl); ok && fd.Name.Name == name && recvTypeName(fd) == recv {
				return fd
			}
		}
	}
	return nil
}

func (fc *factsCtx) findStructField(typ, field string) string {
	for _, f := range fc.files {
		for _, d := range f.Decls {
			gd, ok := d.(*ast.GenDecl)
			if !ok {
				continue
			}
			for _, sp := range gd.Specs {
				ts, ok := sp.(*ast.TypeSpec)
				if !ok || ts.Name.Name != typ {
					continue
				}
				st, ok := ts.Type.(*ast.StructType)
				if !ok {
					continue
				}
				for _, fl := range st.Fields.List {
					for _, n := range fl.Names {
						if n.Name == field {
							return fc.render(fl.Type)
						}
					}
				}
			}
		}
	}
	return ""
}

// returnsOf lists the return statements of a function body (not descending
// into function literals) together with the statement that precedes each one
// in its block.
type retInfo struct {
	ret  *ast.ReturnStmt
	prev ast.Stmt
}

func returnsOf(body *ast.BlockStmt) []retInfo {
	var res []retInfo
	var visitBlock func(list []ast.Stmt)
	var visitStmt func(s ast.Stmt)
	visitBlock = func(list []ast.Stmt) {
		for i, s := range list {
			if r, ok := s.(*ast.ReturnStmt); ok {
				var prev ast.Stmt
				if i > 0 {
					prev = list[i-1]
				}
				res = append(res, retInfo{r, prev})
				continue
			}
			visitStmt(s)
		}
	}
	visitStmt = func(s ast.Stmt) {
		switch x := s.(type) {
		case *ast.BlockStmt:
			visitBlock(x.List)
		case *ast.IfStmt:
			visitBlock(x.Body.List)
			if x.Else != nil {
				visitStmt(x.Else)
			}
		case *ast.ForStmt:
			visitBlock(x.Body.List)
		case *ast.RangeStmt:
			visitBlock(x.Body.List)
		case *ast.SwitchStmt:
			for _, c := range x.Body.List {
				visitBlock(c.(*ast.CaseClause).Body)
			}
		case *ast.TypeSwitchStmt:
			for _, c := range x.Body.List {
				visitBlock(c.(*ast.CaseClause).Body)
			}
		case *ast.SelectStmt:
			for _, c := range x.Body.List {
				visitBlock(c.(*ast.CommClause).Body)
			}
		case *ast.LabeledStmt:
			visitStmt(x.Stmt)
		}
	}
	visitBlock(body.List)
	return res
}

func runFacts(repo string) (map[string]any, error) {
	px, err := loadPkg(filepath.Join(repo, "circuit"))
	if err != nil {
		return nil, err
	}
	res := map[string]any{}
	eff := map[string]any{}
	for _, fn := range [][2]string{{"Circuit", "Garble"}, {"Circuit", "Eval"}, {"Circuit", "Compute"},
		{"Garbled", "Release"}} {
		e, h := px.effectsOf(fn[0], fn[1])
		eff[fn[0]+"."+fn[1]] = e
		if fn[1] == "Garble" {
			res["handle_literal"] = h
		}
	}
	res["effects"] = eff
	res["put_paths"] = px.putPathFacts()
	res["release_shape"] = px.releaseShape()
	res["garblePool_ops"] = px.poolFieldOps()
	_, ptype := px.poolField()
	res["garblePool_type"] = ptype
	res["new_scratch"] = px.newScratch()
	res["collector_hooks"] = px.collectorHooks()
	return res, nil
}

// collectorHooks lists the places where package circuit hands an object to the
// garbage collector's callback machinery (runtime.SetFinalizer,
// runtime.AddCleanup, weak.Make), as "<enclosing func>: <callee>".  The Lean
// model of GC histories (Model/PoolGC.lean, fin = false) has no collector
// transition; what such a hook DOES is judged by the GC-history oracle, so the
// list is an advisory fact (a drift widens the GC-history search).
func (px *pkgIndex) collectorHooks() []string {
	res := []string{}
	for _, f := range px.fc.files {
		for _, d := range f.Decls {
			fd, ok := d.(*ast.FuncDecl)
			if !ok || fd.Body == nil {
				continue
			}
			name := fd.Name.Name
			if r := recvTypeName(fd); r != "" {
				name = r + "." + name
			}
			ast.Inspect(fd.Body, func(n ast.Node) bool {
				ce, ok := n.(*ast.CallExpr)
				if !ok {
					return true
				}
				fun := ce.Fun
				if ix, ok := fun.(*ast.IndexExpr); ok { // generic instantiation f[T](…)
					fun = ix.X
				}
				se, ok := fun.(*ast.SelectorExpr)
				if !ok {
					return true
				}
				id, ok := se.X.(*ast.Ident)
				if !ok || !px.imports[id.Name] {
					return true
				}
				switch id.Name + "." + se.Sel.Name {
				case "runtime.SetFinalizer", "runtime.AddCleanup", "weak.Make":
					res = append(res, name+": "+id.Name+"."+se.Sel.Name)
				}
				return true
			})
		}
	}
	sort.Strings(res)
	return res
}

package main

// Structural facts about the scratch-pool protocol, extracted from the
// repository's current source with go/parser + go/ast (mode `facts`).  The
// semantic facts (interprocedural effect sets, Put-count per return path,
// operations on Circuit.garblePool, allocation sites of a new scratch) are in
// effects.go; this file holds the parsing helpers and the textual renderings
// that checks/C17.py uses as ADVISORY facts only.

import (
	"bytes"
	"go/ast"
	"go/parser"
	"go/printer"
	"go/token"
	"path/filepath"
	"sort"
	"strings"
)

type factsCtx struct {
	fset  *token.FileSet
	files map[string]*ast.File
}

func (fc *factsCtx) render(n ast.Node) string {
	var b bytes.Buffer
	printer.Fprint(&b, fc.fset, n)
	s := strings.Join(strings.Fields(b.String()), " ")
	return s
}

func parseFile(fc *factsCtx, p string) (*ast.File, error) {
	return parser.ParseFile(fc.fset, p, nil, 0)
}

func recvTypeName(fd *ast.FuncDecl) string {
	if fd.Recv == nil || len(fd.Recv.List) == 0 {
		return ""
	}
	t := fd.Recv.List[0].Type
	if s, ok := t.(*ast.StarExpr); ok {
		t = s.X
	}
	if id, ok := t.(*ast.Ident); ok {
		return id.Name
	}
	return "?"
}

func (fc *factsCtx) findFunc(recv, name string) *ast.FuncDecl {
	for _, f := range fc.files {
		for _, d := range f.Decls {
			if fd, ok := d.(*ast.FuncDecl); ok && fd.Name.Name == name && recvTypeName(fd) == recv {
				return fd
			}
		}
	}
	return nil
}

func (fc *factsCtx) findStructField(typ, field string) string {
	for _, f := range fc.files {
		for _, d := range f.Decls {
			gd, ok := d.(*ast.GenDecl)
			if !ok {
				continue
			}
			for _, sp := range gd.Specs {
				ts, ok := sp.(*ast.TypeSpec)
				if !ok || ts.Name.Name != typ {
					continue
				}
				st, ok := ts.Type.(*ast.StructType)
				if !ok {
					continue
				}
				for _, fl := range st.Fields.List {
					for _, n := range fl.Names {
						if n.Name == field {
							return fc.render(fl.Type)
						}
					}
				}
			}
		}
	}
	return ""
}

func (fc *factsCtx) structFields(typ string) []string {
	var res []string
	for _, f := range fc.files {
		for _, d := range f.Decls {
			gd, ok := d.(*ast.GenDecl)
			if !ok {
				continue
			}
			for _, sp := range gd.Specs {
				ts, ok := sp.(*ast.TypeSpec)
				if !ok || ts.Name.Name != typ {
					continue
				}
				if st, ok := ts.Type.(*ast.StructType); ok {
					for _, fl := range st.Fields.List {
						for _, n := range fl.Names {
							res = append(res, n.Name+" "+fc.render(fl.Type))
						}
					}
				}
			}
		}
	}
	return res
}

// returnsOf lists the return statements of a function body (not descending
// into function literals) together with the statement that precedes each one
// in its block.
type retInfo struct {
	ret  *ast.ReturnStmt
	prev ast.Stmt
}

func returnsOf(body *ast.BlockStmt) []retInfo {
	var res []retInfo
	var visitBlock func(list []ast.Stmt)
	var visitStmt func(s ast.Stmt)
	visitBlock = func(list []ast.Stmt) {
		for i, s := range list {
			if r, ok := s.(*ast.ReturnStmt); ok {
				var prev ast.Stmt
				if i > 0 {
					prev = list[i-1]
				}
				res = append(res, retInfo{r, prev})
				continue
			}
			visitStmt(s)
		}
	}
	visitStmt = func(s ast.Stmt) {
		switch x := s.(type) {
		case *ast.BlockStmt:
			visitBlock(x.List)
		case *ast.IfStmt:
			visitBlock(x.Body.List)
			if x.Else != nil {
				visitStmt(x.Else)
			}
		case *ast.ForStmt:
			visitBlock(x.Body.List)
		case *ast.RangeStmt:
			visitBlock(x.Body.List)
		case *ast.SwitchStmt:
			for _, c := range x.Body.List {
				visitBlock(c.(*ast.CaseClause).Body)
			}
		case *ast.TypeSwitchStmt:
			for _, c := range x.Body.List {
				visitBlock(c.(*ast.CaseClause).Body)
			}
		case *ast.SelectStmt:
			for _, c := range x.Body.List {
				visitBlock(c.(*ast.CommClause).Body)
			}
		case *ast.LabeledStmt:
			visitStmt(x.Stmt)
		}
	}
	visitBlock(body.List)
	return res
}

func (fc *factsCtx) releaseFacts() map[string]any {
	fd := fc.findFunc("Garbled", "Release")
	if fd == nil {
		return map[string]any{"missing": true}
	}
	var stmts []string
	for _, s := range fd.Body.List {
		stmts = append(stmts, fc.render(s))
	}
	return map[string]any{"statements": stmts, "receiver": fc.render(fd.Recv.List[0].Type)}
}

func (fc *factsCtx) poolFacts() map[string]any {
	fd := fc.findFunc("Circuit", "garbleScratchPool")
	if fd == nil {
		return map[string]any{"missing": true}
	}
	res := map[string]any{}
	var ops []string
	ast.Inspect(fd.Body, func(n ast.Node) bool {
		if ce, ok := n.(*ast.CallExpr); ok {
			s := fc.render(ce)
			if strings.HasPrefix(s, "c.garblePool.") {
				ops = append(ops, strings.TrimPrefix(s, "c.garblePool."))
			}
		}
		return true
	})
	res["atomic_ops"] = ops
	var rets []string
	for _, r := range returnsOf(fd.Body) {
		rets = append(rets, fc.render(r.ret))
	}
	res["returns"] = rets
	// every other mention of garblePool in the package
	var others []string
	for name, f := range fc.files {
		ast.Inspect(f, func(n ast.Node) bool {
			if fdd, ok := n.(*ast.FuncDecl); ok && fdd == fd {
				return false
			}
			if se, ok := n.(*ast.SelectorExpr); ok && se.Sel.Name == "garblePool" {
				others = append(others, filepath.Base(name)+":"+fc.render(se))
			}
			return true
		})
	}
	sort.Strings(others)
	res["other_uses_of_garblePool"] = others
	res["field_type"] = fc.findStructField("Circuit", "garblePool")
	// the New function: fresh buffers per scratch
	var newRet []string
	ast.Inspect(fd.Body, func(n ast.Node) bool {
		if fl, ok := n.(*ast.FuncLit); ok {
			for _, r := range returnsOf(fl.Body) {
				if len(r.ret.Results) == 1 {
					if u, ok := r.ret.Results[0].(*ast.UnaryExpr); ok {
						if cl, ok := u.X.(*ast.CompositeLit); ok {
							for _, el := range cl.Elts {
								if kv, ok := el.(*ast.KeyValueExpr); ok {
									v := "?"
									if ce, ok := kv.Value.(*ast.CallExpr); ok {
										v = fc.render(ce.Fun)
									}
									newRet = append(newRet, fc.render(kv.Key)+"="+v)
								}
							}
						}
					}
				}
			}
		}
		return true
	})
	sort.Strings(newRet)
	res["new_scratch_fields"] = newRet
	return res
}

func runFacts(repo string) (map[string]any, error) {
	px, err := loadPkg(filepath.Join(repo, "circuit"))
	if err != nil {
		return nil, err
	}
	fc := px.fc
	res := map[string]any{}
	eff := map[string]any{}
	for _, fn := range [][2]string{{"Circuit", "Garble"}, {"Circuit", "Eval"}, {"Circuit", "Compute"},
		{"Garbled", "Release"}} {
		e, h := px.effectsOf(fn[0], fn[1])
		eff[fn[0]+"."+fn[1]] = e
		if fn[1] == "Garble" {
			res["handle_literal"] = h
		}
	}
	res["effects"] = eff
	res["put_paths"] = px.putPathFacts()
	res["release_shape"] = px.releaseShape()
	res["garblePool_ops"] = px.poolFieldOps()
	res["garblePool_type"] = fc.findStructField("Circuit", "garblePool")
	res["new_scratch"] = px.newScratch()
	// advisory (textual) facts
	res["Garbled_fields"] = fc.structFields("Garbled")
	res["garbledScratch_fields"] = fc.structFields("garbledScratch")
	res["Release_statements"] = fc.releaseFacts()
	res["garbleScratchPool_text"] = fc.poolFacts()
	return res, nil
}

package main

// Structural facts about the scratch-pool protocol, extracted from the
// repository's current source with go/parser + go/ast (mode `facts`).  The
// Lean model (Model/Pool.lean) assumes exactly these shapes; checks/C17.py
// compares them with its expectations on every run.

import (
	"bytes"
	"fmt"
	"go/ast"
	"go/parser"
	"go/printer"
	"go/token"
	"path/filepath"
	"sort"
	"strings"
)

type factsCtx struct {
	fset  *token.FileSet
	files map[string]*ast.File
}

func (fc *factsCtx) render(n ast.Node) string {
	var b bytes.Buffer
	printer.Fprint(&b, fc.fset, n)
	s := strings.Join(strings.Fields(b.String()), " ")
	return s
}

func recvTypeName(fd *ast.FuncDecl) string {
	if fd.Recv == nil || len(fd.Recv.List) == 0 {
		return ""
	}
	t := fd.Recv.List[0].Type
	if s, ok := t.(*ast.StarExpr); ok {
		t = s.X
	}
	if id, ok := t.(*ast.Ident); ok {
		return id.Name
	}
	return "?"
}

func (fc *factsCtx) findFunc(recv, name string) *ast.FuncDecl {
	for _, f := range fc.files {
		for _, d := range f.Decls {
			if fd, ok := d.(*ast.FuncDecl); ok && fd.Name.Name == name && recvTypeName(fd) == recv {
				return fd
			}
		}
	}
	return nil
}

func (fc *factsCtx) findStructField(typ, field string) string {
	for _, f := range fc.files {
		for _, d := range f.Decls {
			gd, ok := d.(*ast.GenDecl)
			if !ok {
				continue
			}
			for _, sp := range gd.Specs {
				ts, ok := sp.(*ast.TypeSpec)
				if !ok || ts.Name.Name != typ {
					continue
				}
				st, ok := ts.Type.(*ast.StructType)
				if !ok {
					continue
				}
				for _, fl := range st.Fields.List {
					for _, n := range fl.Names {
						if n.Name == field {
							return fc.render(fl.Type)
						}
					}
				}
			}
		}
	}
	return ""
}

func (fc *factsCtx) structFields(typ string) []string {
	var res []string
	for _, f := range fc.files {
		for _, d := range f.Decls {
			gd, ok := d.(*ast.GenDecl)
			if !ok {
				continue
			}
			for _, sp := range gd.Specs {
				ts, ok := sp.(*ast.TypeSpec)
				if !ok || ts.Name.Name != typ {
					continue
				}
				if st, ok := ts.Type.(*ast.StructType); ok {
					for _, fl := range st.Fields.List {
						for _, n := range fl.Names {
							res = append(res, n.Name+" "+fc.render(fl.Type))
						}
					}
				}
			}
		}
	}
	return res
}

// rootIdent strips index / selector / deref / slice / paren and returns the
// identifier an lvalue or argument is rooted at.
func rootIdent(e ast.Expr) *ast.Ident {
	for {
		switch x := e.(type) {
		case *ast.Ident:
			return x
		case *ast.SelectorExpr:
			e = x.X
		case *ast.IndexExpr:
			e = x.X
		case *ast.SliceExpr:
			e = x.X
		case *ast.StarExpr:
			e = x.X
		case *ast.ParenExpr:
			e = x.X
		case *ast.UnaryExpr:
			if x.Op == token.AND {
				e = x.X
			} else {
				return nil
			}
		default:
			return nil
		}
	}
}

// access classifies how a function touches state that is not its own locals.
type access struct {
	fc      *factsCtx
	fd      *ast.FuncDecl
	recv    *ast.Object
	params  map[*ast.Object]string
	aliases map[*ast.Object]string // local -> "shared" (pointer into receiver) or "scratch.<f>"
	out     map[string]bool
	callees map[string]bool
}

func (a *access) kindOf(id *ast.Ident) string {
	if id == nil {
		return ""
	}
	if id.Obj == nil {
		// declared in another file of the package, or a builtin / package name
		if id.Name == "nil" || id.Name == "_" {
			return ""
		}
		return "global"
	}
	if id.Obj == a.recv {
		return "recv"
	}
	if _, ok := a.params[id.Obj]; ok {
		return "param"
	}
	if k, ok := a.aliases[id.Obj]; ok {
		return k
	}
	if id.Obj.Kind == ast.Var {
		if _, ok := id.Obj.Decl.(*ast.ValueSpec); ok {
			// package-level var of this file?
			for _, f := range a.fc.files {
				if f.Scope != nil && f.Scope.Lookup(id.Name) == id.Obj {
					return "global"
				}
			}
		}
	}
	return ""
}

func (a *access) noteWrite(lhs ast.Expr) {
	id := rootIdent(lhs)
	if id == nil {
		return
	}
	// writing the variable itself (not through it) is a local write unless
	// it is a global
	_, plain := lhs.(*ast.Ident)
	switch k := a.kindOf(id); {
	case k == "recv":
		a.out["W-receiver:"+a.fc.render(lhs)] = true
	case k == "shared":
		if !plain {
			a.out["W-shared-alias:"+a.fc.render(lhs)] = true
		}
	case k == "param":
		if !plain {
			a.out["W-param:"+id.Name] = true
		}
	case strings.HasPrefix(k, "scratch."):
		if !plain {
			a.out["W-"+k] = true
		}
	case k == "global":
		a.out["W-global:"+a.fc.render(lhs)] = true
	}
}

func (a *access) noteDefine(lhs, rhs ast.Expr) {
	id, ok := lhs.(*ast.Ident)
	if !ok || id.Obj == nil {
		return
	}
	// pointer into receiver-owned memory
	if u, ok := rhs.(*ast.UnaryExpr); ok && u.Op == token.AND {
		if r := rootIdent(u.X); r != nil {
			switch a.kindOf(r) {
			case "recv", "shared":
				a.aliases[id.Obj] = "shared"
				a.out["alias:"+id.Name+"="+a.fc.render(rhs)] = true
			}
		}
		return
	}
	// local name for a scratch buffer: x := scratch.f
	if s, ok := rhs.(*ast.SelectorExpr); ok {
		if r, ok := s.X.(*ast.Ident); ok && r.Name == "scratch" {
			a.aliases[id.Obj] = "scratch." + s.Sel.Name
			return
		}
	}
	// slice / map / pointer typed receiver fields would alias too
	if r := rootIdent(rhs); r != nil && a.kindOf(r) == "recv" {
		switch rhs.(type) {
		case *ast.SelectorExpr, *ast.SliceExpr:
			a.aliases[id.Obj] = "shared"
			a.out["alias:"+id.Name+"="+a.fc.render(rhs)] = true
		}
	}
}

func (a *access) walk(n ast.Node) {
	ast.Inspect(n, func(n ast.Node) bool {
		switch x := n.(type) {
		case *ast.AssignStmt:
			for i, l := range x.Lhs {
				if x.Tok == token.DEFINE {
					if i < len(x.Rhs) && len(x.Lhs) == len(x.Rhs) {
						a.noteDefine(l, x.Rhs[i])
					}
				} else {
					a.noteWrite(l)
					if i < len(x.Rhs) && len(x.Lhs) == len(x.Rhs) {
						if _, ok := l.(*ast.Ident); ok {
							a.noteDefine(l, x.Rhs[i])
						}
					}
				}
			}
		case *ast.IncDecStmt:
			a.noteWrite(x.X)
		case *ast.RangeStmt:
			if x.Tok == token.ASSIGN {
				if x.Key != nil {
					a.noteWrite(x.Key)
				}
				if x.Value != nil {
					a.noteWrite(x.Value)
				}
			}
		case *ast.UnaryExpr:
			if x.Op == token.AND {
				if r := rootIdent(x.X); r != nil && a.kindOf(r) == "recv" {
					a.out["addr-of-receiver:"+a.fc.render(x)] = true
				}
			}
		case *ast.GoStmt:
			a.out["go-statement"] = true
		case *ast.DeferStmt:
			a.out["defer:"+a.fc.render(x.Call.Fun)] = true
		case *ast.CallExpr:
			fun := a.fc.render(x.Fun)
			switch f := x.Fun.(type) {
			case *ast.Ident:
				if f.Name == "copy" && len(x.Args) > 0 {
					a.noteWrite(&ast.IndexExpr{X: x.Args[0], Index: &ast.Ident{Name: "_"}})
				}
				if f.Obj == nil || f.Obj.Kind == ast.Fun {
					switch f.Name {
					case "len", "cap", "make", "new", "copy", "append", "panic", "byte", "int", "uint64", "uint32", "uint", "string":
					default:
						a.callees[f.Name] = true
					}
				}
			case *ast.SelectorExpr:
				if r := rootIdent(f.X); r != nil {
					switch a.kindOf(r) {
					case "recv":
						a.out["call-on-receiver:"+fun] = true
						a.callees[f.Sel.Name] = true
					case "shared":
						a.out["call-on-shared-alias:"+fun] = true
						a.callees[f.Sel.Name] = true
					}
				}
			}
			for _, arg := range x.Args {
				if r := rootIdent(arg); r != nil {
					k := a.kindOf(r)
					if k == "recv" || k == "shared" {
						if fun == "len" {
							continue
						}
						a.out["arg-shared:"+fun+"("+a.fc.render(arg)+")"] = true
					}
				}
			}
		}
		return true
	})
}

func (fc *factsCtx) accessFacts(recv, name string) map[string]any {
	fd := fc.findFunc(recv, name)
	if fd == nil || fd.Body == nil {
		return map[string]any{"missing": true}
	}
	a := &access{fc: fc, fd: fd, params: map[*ast.Object]string{}, aliases: map[*ast.Object]string{},
		out: map[string]bool{}, callees: map[string]bool{}}
	if fd.Recv != nil && len(fd.Recv.List) > 0 && len(fd.Recv.List[0].Names) > 0 {
		a.recv = fd.Recv.List[0].Names[0].Obj
	}
	for _, p := range fd.Type.Params.List {
		for _, n := range p.Names {
			a.params[n.Obj] = n.Name
		}
	}
	if fd.Type.Results != nil {
		for _, p := range fd.Type.Results.List {
			for _, n := range p.Names {
				// named results are locals
				_ = n
			}
		}
	}
	a.walk(fd.Body)
	var acc, cal []string
	for k := range a.out {
		acc = append(acc, k)
	}
	for k := range a.callees {
		cal = append(cal, k)
	}
	sort.Strings(acc)
	sort.Strings(cal)
	return map[string]any{"access": acc, "callees": cal}
}

// returnsOf lists the return statements of a function body (not descending
// into function literals) together with the statement that precedes each one
// in its block.
type retInfo struct {
	ret  *ast.ReturnStmt
	prev ast.Stmt
}

func returnsOf(body *ast.BlockStmt) []retInfo {
	var res []retInfo
	var visitBlock func(list []ast.Stmt)
	var visitStmt func(s ast.Stmt)
	visitBlock = func(list []ast.Stmt) {
		for i, s := range list {
			if r, ok := s.(*ast.ReturnStmt); ok {
				var prev ast.Stmt
				if i > 0 {
					prev = list[i-1]
				}
				res = append(res, retInfo{r, prev})
				continue
			}
			visitStmt(s)
		}
	}
	visitStmt = func(s ast.Stmt) {
		switch x := s.(type) {
		case *ast.BlockStmt:
			visitBlock(x.List)
		case *ast.IfStmt:
			visitBlock(x.Body.List)
			if x.Else != nil {
				visitStmt(x.Else)
			}
		case *ast.ForStmt:
			visitBlock(x.Body.List)
		case *ast.RangeStmt:
			visitBlock(x.Body.List)
		case *ast.SwitchStmt:
			for _, c := range x.Body.List {
				visitBlock(c.(*ast.CaseClause).Body)
			}
		case *ast.TypeSwitchStmt:
			for _, c := range x.Body.List {
				visitBlock(c.(*ast.CaseClause).Body)
			}
		case *ast.SelectStmt:
			for _, c := range x.Body.List {
				visitBlock(c.(*ast.CommClause).Body)
			}
		case *ast.LabeledStmt:
			visitStmt(x.Stmt)
		}
	}
	visitBlock(body.List)
	return res
}

func countCalls(n ast.Node, fc *factsCtx, fun string) int {
	c := 0
	ast.Inspect(n, func(n ast.Node) bool {
		if ce, ok := n.(*ast.CallExpr); ok && fc.render(ce.Fun) == fun {
			c++
		}
		return true
	})
	return c
}

func (fc *factsCtx) garbleFacts() map[string]any {
	fd := fc.findFunc("Circuit", "Garble")
	if fd == nil {
		return map[string]any{"missing": true}
	}
	res := map[string]any{}
	var stmts []string
	for i, s := range fd.Body.List {
		if i < 2 {
			stmts = append(stmts, fc.render(s))
		}
	}
	res["first_statements"] = stmts
	res["get_calls"] = countCalls(fd.Body, fc, "pool.Get")
	res["put_calls"] = countCalls(fd.Body, fc, "pool.Put")
	rets := returnsOf(fd.Body)
	nerr, nerrPut, nok := 0, 0, 0
	var okRet string
	for _, r := range rets {
		isErr := len(r.ret.Results) == 2 && fc.render(r.ret.Results[0]) == "nil"
		if isErr {
			nerr++
			if r.prev != nil && fc.render(r.prev) == "pool.Put(scratch)" {
				nerrPut++
			}
		} else {
			nok++
			okRet = fc.render(r.ret)
		}
	}
	res["error_returns"] = nerr
	res["error_returns_preceded_by_put"] = nerrPut
	res["success_returns"] = nok
	res["success_return"] = okRet
	var al []string
	ast.Inspect(fd.Body, func(n ast.Node) bool {
		if as, ok := n.(*ast.AssignStmt); ok && as.Tok == token.DEFINE && len(as.Rhs) == 1 {
			if s, ok := as.Rhs[0].(*ast.SelectorExpr); ok {
				if r, ok := s.X.(*ast.Ident); ok && r.Name == "scratch" {
					al = append(al, fc.render(as))
				}
			}
		}
		return true
	})
	sort.Strings(al)
	res["scratch_aliases"] = al
	return res
}

func (fc *factsCtx) releaseFacts() map[string]any {
	fd := fc.findFunc("Garbled", "Release")
	if fd == nil {
		return map[string]any{"missing": true}
	}
	var stmts []string
	for _, s := range fd.Body.List {
		stmts = append(stmts, fc.render(s))
	}
	return map[string]any{"statements": stmts, "receiver": fc.render(fd.Recv.List[0].Type)}
}

func (fc *factsCtx) poolFacts() map[string]any {
	fd := fc.findFunc("Circuit", "garbleScratchPool")
	if fd == nil {
		return map[string]any{"missing": true}
	}
	res := map[string]any{}
	var ops []string
	ast.Inspect(fd.Body, func(n ast.Node) bool {
		if ce, ok := n.(*ast.CallExpr); ok {
			s := fc.render(ce)
			if strings.HasPrefix(s, "c.garblePool.") {
				ops = append(ops, strings.TrimPrefix(s, "c.garblePool."))
			}
		}
		return true
	})
	res["atomic_ops"] = ops
	var rets []string
	for _, r := range returnsOf(fd.Body) {
		rets = append(rets, fc.render(r.ret))
	}
	res["returns"] = rets
	// every other mention of garblePool in the package
	var others []string
	for name, f := range fc.files {
		ast.Inspect(f, func(n ast.Node) bool {
			if fdd, ok := n.(*ast.FuncDecl); ok && fdd == fd {
				return false
			}
			if se, ok := n.(*ast.SelectorExpr); ok && se.Sel.Name == "garblePool" {
				others = append(others, filepath.Base(name)+":"+fc.render(se))
			}
			return true
		})
	}
	sort.Strings(others)
	res["other_uses_of_garblePool"] = others
	res["field_type"] = fc.findStructField("Circuit", "garblePool")
	// the New function: fresh buffers per scratch
	var newRet []string
	ast.Inspect(fd.Body, func(n ast.Node) bool {
		if fl, ok := n.(*ast.FuncLit); ok {
			for _, r := range returnsOf(fl.Body) {
				if len(r.ret.Results) == 1 {
					if u, ok := r.ret.Results[0].(*ast.UnaryExpr); ok {
						if cl, ok := u.X.(*ast.CompositeLit); ok {
							for _, el := range cl.Elts {
								if kv, ok := el.(*ast.KeyValueExpr); ok {
									v := "?"
									if ce, ok := kv.Value.(*ast.CallExpr); ok {
										v = fc.render(ce.Fun)
									}
									newRet = append(newRet, fc.render(kv.Key)+"="+v)
								}
							}
						}
					}
				}
			}
		}
		return true
	})
	sort.Strings(newRet)
	res["new_scratch_fields"] = newRet
	return res
}

func runFacts(repo string) (map[string]any, error) {
	fc := &factsCtx{fset: token.NewFileSet(), files: map[string]*ast.File{}}
	for _, f := range []string{"garble.go", "circuit.go", "eval.go", "computer.go"} {
		p := filepath.Join(repo, "circuit", f)
		af, err := parser.ParseFile(fc.fset, p, nil, 0)
		if err != nil {
			return nil, fmt.Errorf("parse %s: %v", p, err)
		}
		fc.files[p] = af
	}
	res := map[string]any{}
	res["Garble"] = fc.garbleFacts()
	res["Release"] = fc.releaseFacts()
	res["garbleScratchPool"] = fc.poolFacts()
	res["Garbled_fields"] = fc.structFields("Garbled")
	res["garbledScratch_fields"] = fc.structFields("garbledScratch")
	acc := map[string]any{}
	for _, fn := range [][2]string{
		{"Circuit", "Garble"}, {"Gate", "garbleInto"}, {"Circuit", "garbleScratchPool"},
		{"Garbled", "Release"}, {"Circuit", "Eval"}, {"Circuit", "Compute"},
		{"", "encrypt"}, {"", "decrypt"}, {"", "encryptHalf"}, {"", "makeK"}, {"", "makeKHalf"},
		{"", "makeLabels"}, {"", "idx"}, {"", "idxUnary"},
	} {
		key := fn[1]
		if fn[0] != "" {
			key = fn[0] + "." + fn[1]
		}
		acc[key] = fc.accessFacts(fn[0], fn[1])
	}
	res["access"] = acc
	return res, nil
}

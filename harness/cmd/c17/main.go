// Harness of property C17 (a circuit value is safe to share between
// goroutines).
//
//	c17 facts  -extra <repo>   structural facts of circuit/{garble,circuit,eval,computer}.go
//	c17 stress -seed S -n N    N rounds of concurrent Garble/Eval/Compute/Release on one
//	                           shared circuit; built with and without -race by checks/C17.py
//	c17 rhist  -seed S -n N    N result histories (results.go): Compute / Eval results of wide-output
//	                           circuits kept by the caller and re-read after later calls
//	c17 gchist -seed S -n N    N GC histories on one shared circuit (gchist.go): garblings of
//	                           which the caller keeps only the data, forced collections,
//	                           further Garble calls, re-reading / evaluating the retained data
//
// Every round logs its pool events in one total order and emits them as one
// op line (`c17 trace ...`) whose verdict the Lean model driver recomputes.
package main

import (
	"fmt"
	"math/big"
	"os"
	"reflect"
	"runtime"
	"sort"
	"strings"
	"sync"
	"sync/atomic"
	"time"
	"unsafe"

	"github.com/markkurossi/mpc/circuit"
	"github.com/markkurossi/mpc/ot"

	"verifharness/hxlib"
)

func main() {
	if len(os.Args) < 2 {
		fmt.Fprintln(os.Stderr, "usage: c17 facts|stress|gchist|contract [flags]")
		os.Exit(2)
	}
	switch os.Args[1] {
	case "facts":
		os.Exit(factsMain(os.Args[2:]))
	case "stress":
		os.Exit(stressMain(os.Args[2:]))
	case "contract":
		os.Exit(contractMain(os.Args[2:]))
	case "gchist":
		os.Exit(gcMain(os.Args[2:]))
	case "rhist":
		os.Exit(resMain(os.Args[2:]))
	default:
		fmt.Fprintf(os.Stderr, "unknown mode %q\n", os.Args[1])
		os.Exit(2)
	}
}

func factsMain(args []string) int {
	cf, o := hxlib.ParseCommon("c17", args, nil)
	defer o.Close()
	repo := cf.Extra
	if repo == "" {
		repo = os.Getenv("MPCLDIR")
	}
	f, err := runFacts(repo)
	if err != nil {
		o.Meta["facts_error"] = err.Error()
		return 0
	}
	o.Meta["facts"] = f
	return 0
}

// contractMain replays, on the real code, the out-of-contract schedule of
// Props/C17.lean `C17_contract_needed_value_copy` (a Garbled copied by value
// and released through both copies).  Informational: it documents the stated
// usage-contract limit, it is not a violation of the property.
func contractMain(args []string) int {
	cf, o := hxlib.ParseCommon("c17", args, nil)
	defer o.Close()
	rng := hxlib.NewRng(cf.Seed)
	shared, corrupted, tries := 0, 0, 0
	for i := 0; i < cf.N; i++ {
		r := rng.Fork()
		c := hxlib.GenCircuit(r, hxlib.GenOpts{MaxGates: 60, MaxIn: 4, Mix: "uniform"})
		def := definedWires(c)
		nin := c.Inputs.Size()
		key := r.Bytes(16)
		tapeA, tapeB := r.Bytes(16*(1+nin)), r.Bytes(16*(1+nin))
		func() {
			defer func() { recover() }()
			g1, err := c.Garble(&hxlib.Tape{Data: tapeA}, key)
			if err != nil {
				return
			}
			exp := digestGarbled(g1, def)
			cp := *g1 // by-value copy: has its own pool field
			g1.Release()
			cp.Release() // not a no-op: second Put of the same scratch
			gA, err1 := c.Garble(&hxlib.Tape{Data: tapeA}, key)
			gB, err2 := c.Garble(&hxlib.Tape{Data: tapeB}, key)
			if err1 != nil || err2 != nil {
				return
			}
			tries++
			sA, _, _ := garbledIDs(gA)
			sB, _, _ := garbledIDs(gB)
			if sA == sB {
				shared++
			}
			if digestGarbled(gA, def) != exp {
				corrupted++
			}
		}()
	}
	o.Meta["contract"] = map[string]any{"attempts": tries, "two_live_handles_share_one_scratch": shared,
		"first_handle_overwritten": corrupted}
	return 0
}

// ---------------------------------------------------------------- digests

const fnvOff = 0xcbf29ce484222325
const fnvPrime = 0x100000001b3

func mix(h, v uint64) uint64 {
	for i := 0; i < 8; i++ {
		h ^= (v >> (8 * uint(i))) & 0xff
		h *= fnvPrime
	}
	return h
}

func mixLabel(h uint64, l ot.Label) uint64 { return mix(mix(h, l.D0), l.D1) }

// gdigest: digests of the three observable parts of a garbling: R, the wire
// pairs of defined wires, the garbled tables.
type gdigest struct{ r, w, t uint64 }

func (d gdigest) one() uint64 { return (mix(mix(mix(fnvOff, d.r), d.w), d.t)) >> 16 }

func (d gdigest) diff(e gdigest) string {
	var p []string
	if d.r != e.r {
		p = append(p, "R")
	}
	if d.w != e.w {
		p = append(p, "wires")
	}
	if d.t != e.t {
		p = append(p, "tables")
	}
	return strings.Join(p, "+")
}

func digestGarbled(g *circuit.Garbled, def []bool) gdigest {
	return digestParts(g.R, g.Wires, g.Gates, def)
}

// digestParts digests a garbling given by its parts (what a caller that keeps
// only g.R / g.Wires / g.Gates holds).
func digestParts(r ot.Label, wires []ot.Wire, gates [][]ot.Label, def []bool) gdigest {
	d := gdigest{fnvOff, fnvOff, fnvOff}
	d.r = mixLabel(d.r, r)
	d.w = mix(d.w, uint64(len(wires)))
	for w := range wires {
		if w < len(def) && def[w] {
			d.w = mixLabel(mixLabel(d.w, wires[w].L0), wires[w].L1)
		}
	}
	d.t = mix(d.t, uint64(len(gates)))
	for _, rows := range gates {
		d.t = mix(d.t, uint64(len(rows)))
		for _, l := range rows {
			d.t = mixLabel(d.t, l)
		}
	}
	return d
}

func digestLabels(ws []ot.Label, def []bool) uint64 {
	h := uint64(fnvOff)
	for w := range ws {
		if def[w] {
			h = mixLabel(h, ws[w])
		}
	}
	return h
}

func definedWires(c *circuit.Circuit) []bool {
	d := make([]bool, c.NumWires)
	for i := 0; i < c.Inputs.Size(); i++ {
		d[i] = true
	}
	for _, g := range c.Gates {
		if int(g.Output) < len(d) {
			d[g.Output] = true
		}
	}
	return d
}

func bitsToBig(bits []bool) *big.Int {
	v := new(big.Int)
	for i, b := range bits {
		if b {
			v.SetBit(v, i, 1)
		}
	}
	return v
}

// cloneCircuit builds an independent Circuit value with the same gates (its
// own, untouched pool), used for the single-goroutine reference results.
func cloneCircuit(c *circuit.Circuit) *circuit.Circuit {
	return &circuit.Circuit{
		NumGates: c.NumGates,
		NumWires: c.NumWires,
		Inputs:   c.Inputs,
		Outputs:  c.Outputs,
		Gates:    append([]circuit.Gate(nil), c.Gates...),
		Stats:    c.Stats,
	}
}

// The unexported pool / scratch pointers are read with reflect (no hook file
// needed).  The fields are located BY TYPE, never by name: the field of
// circuit.Circuit of type atomic.Pointer[sync.Pool] (or *sync.Pool), the
// field of circuit.Garbled of type *sync.Pool, and its one unexported field
// that points to a struct declared in package circuit (the scratch).
type observer struct {
	circuitPool   int // field index in Circuit, -1 if absent / ambiguous
	handlePool    int
	handleScratch int
	desc          map[string]any
}

var obs = locateFields()

func locateFields() *observer {
	ob := &observer{circuitPool: -1, handlePool: -1, handleScratch: -1, desc: map[string]any{}}
	poolPtr := reflect.TypeOf((*sync.Pool)(nil))
	atomicPool := reflect.TypeOf((*atomic.Pointer[sync.Pool])(nil)).Elem()
	one := func(idx []int) int {
		if len(idx) == 1 {
			return idx[0]
		}
		return -1
	}
	ct := reflect.TypeOf((*circuit.Circuit)(nil)).Elem()
	var cp []int
	for i := 0; i < ct.NumField(); i++ {
		if t := ct.Field(i).Type; t == atomicPool || t == poolPtr {
			cp = append(cp, i)
		}
	}
	ob.circuitPool = one(cp)
	gt := reflect.TypeOf((*circuit.Garbled)(nil)).Elem()
	var hp, hs []int
	for i := 0; i < gt.NumField(); i++ {
		f := gt.Field(i)
		switch {
		case f.Type == poolPtr:
			hp = append(hp, i)
		case !f.IsExported() && f.Type.Kind() == reflect.Pointer && f.Type.Elem().Kind() == reflect.Struct &&
			f.Type.Elem().PkgPath() == gt.PkgPath():
			hs = append(hs, i)
		}
	}
	ob.handlePool, ob.handleScratch = one(hp), one(hs)
	ob.desc["Circuit_fields_of_type_atomic.Pointer[sync.Pool]_or_*sync.Pool"] = len(cp)
	ob.desc["Garbled_fields_of_type_*sync.Pool"] = len(hp)
	ob.desc["Garbled_unexported_fields_pointing_to_a_circuit_struct"] = len(hs)
	ob.desc["ok"] = ob.ok()
	return ob
}

func (ob *observer) ok() bool {
	return ob.circuitPool >= 0 && ob.handlePool >= 0 && ob.handleScratch >= 0
}

func ptrOf(f reflect.Value) uintptr {
	switch f.Kind() {
	case reflect.Pointer, reflect.UnsafePointer:
		return f.Pointer()
	case reflect.Struct: // atomic.Pointer[T]: its unsafe.Pointer field
		for i := 0; i < f.NumField(); i++ {
			if f.Field(i).Kind() == reflect.UnsafePointer {
				return f.Field(i).Pointer()
			}
		}
	}
	return 0
}

func garbledIDs(g *circuit.Garbled) (scratch, pool uintptr, ok bool) {
	if !obs.ok() {
		return 0, 0, false
	}
	v := reflect.ValueOf(g).Elem()
	return ptrOf(v.Field(obs.handleScratch)), ptrOf(v.Field(obs.handlePool)), true
}

func circuitPool(c *circuit.Circuit) (uintptr, bool) {
	if !obs.ok() {
		return 0, false
	}
	return ptrOf(reflect.ValueOf(c).Elem().Field(obs.circuitPool)), true
}

// ---------------------------------------------------------------- a round

type job struct {
	tape []byte
	key  []byte
	exp  gdigest
	eval uint64 // digest of the evaluated labels on defined wires for input x
}

type handle struct {
	g   *circuit.Garbled
	id  int64
	job int
	// GC histories (gchist.go): the parts of the garbling the caller keeps
	// (copies of the slice headers g.Wires / g.Gates, and R); dropped: the
	// *Garbled header itself has been let go (g == nil)
	r       ot.Label
	wires   []ot.Wire
	gates   [][]ot.Label
	dropped bool
	// position in the history at which the garbling was made; stage: 0 made,
	// 1 a collection has happened since, 2 and a Garble call after that
	born  int
	stage int
}

// parts: what the holder of the garbling reads: through the header while it
// has one, through the retained slices after it dropped the header.
func (h *handle) parts() (ot.Label, []ot.Wire, [][]ot.Label) {
	if h.dropped {
		return h.r, h.wires, h.gates
	}
	return h.g.R, h.g.Wires, h.g.Gates
}

type event struct {
	seq  uint64
	kind byte
	t    int
	h    int64
	s, p uintptr
	d    uint64
}

type round struct {
	idx    int
	kind   string
	c      *circuit.Circuit
	def    []bool
	x      []bool
	ref    []bool
	inputs []*big.Int
	// Compute inputs of the round (index 0 = x / inputs / ref above) with their reference wire values
	cins    [][]*big.Int
	crefs   [][]bool
	jobs    []*job
	seq     atomic.Uint64
	hctr    atomic.Int64
	mu      sync.Mutex
	fails   []map[string]any
	handoff chan *handle
	seed    uint64
	arrived atomic.Int32
	need    int32
	// GC histories: a scratch object is identified by the address of the wire
	// buffer g.Wires aliases (kept alive by the retained slices), not by the
	// address of the scratch struct (which dies with the header in a tree that
	// does not pool it, so its address could be recycled)
	idByBuf bool
	mode    string // harness mode for the replay command
	n       int
	hist    string // GC histories: the rendered history of the case
}

func (rd *round) fail(sig string, d map[string]any) {
	rd.mu.Lock()
	defer rd.mu.Unlock()
	d["round"] = rd.idx
	d["kind"] = rd.kind
	mode := rd.mode
	if mode == "" {
		mode = "stress"
	}
	d["replay"] = fmt.Sprintf("c17 %s -seed %d -n %d -only %d", mode, rd.seed, rd.n, rd.idx)
	if rd.hist != "" {
		d["history"] = rd.hist
	}
	if len(rd.fails) < 8 {
		d["sig"] = sig
		rd.fails = append(rd.fails, d)
	}
}

type worker struct {
	rd   *round
	t    int
	rng  *hxlib.Rng
	evs  []event
	live []*handle
	dead []*handle
	// wall-clock interval of this goroutine's first Garble call (coverage:
	// how many goroutines were inside the lazy pool creation together)
	t0, t1 int64
	gcs    int // collections forced by this goroutine
	// results of Compute kept as returned (not copied) with the text of their values at return
	keptC []keptCompute
}

type keptCompute struct {
	outs []*big.Int
	snap string
	in   int
}

// rereadComputed: every kept Compute result still shows the value it had when its call returned.
func (w *worker) rereadComputed() {
	for _, k := range w.keptC {
		if now := valuesText(k.outs); now != k.snap {
			w.rd.fail("c17-compute-result-changed", map[string]any{"t": w.t, "input": k.in, "now": clipText(now),
				"at_return": clipText(k.snap), "output_widths": hxlib.IODesc(w.rd.c.Outputs),
				"what": "the value of a result returned by Compute (kept by the caller, not copied) changed while " +
					"this and other goroutines made further calls on the same circuit value"})
			return
		}
	}
}

func (w *worker) log(kind byte, h int64, s, p uintptr, d uint64) {
	if !obs.ok() {
		return // no pool-event trace without the object identities (a broken tie, reported by the check)
	}
	w.evs = append(w.evs, event{seq: w.rd.seq.Add(1), kind: kind, t: w.t, h: h, s: s, p: p, d: d})
}

func (w *worker) yield() {
	switch w.rng.Intn(6) {
	case 0:
		runtime.Gosched()
	case 1:
		time.Sleep(time.Duration(1+w.rng.Intn(40)) * time.Microsecond)
	case 2:
		runtime.Gosched()
		runtime.Gosched()
	}
}

func (w *worker) garble() {
	rd := w.rd
	ji := w.rng.Intn(len(rd.jobs))
	j := rd.jobs[ji]
	first := w.t0 == 0
	if first {
		w.t0 = time.Now().UnixNano()
	}
	g, err := rd.c.Garble(&hxlib.Tape{Data: j.tape}, j.key)
	if first {
		w.t1 = time.Now().UnixNano()
	}
	if err != nil || g == nil {
		rd.fail("c17-garble-error", map[string]any{"t": w.t, "job": ji, "err": fmt.Sprint(err)})
		return
	}
	s, p, ok := garbledIDs(g)
	if rd.idByBuf && len(g.Wires) > 0 {
		s = uintptr(unsafe.Pointer(unsafe.SliceData(g.Wires)))
	}
	d := digestGarbled(g, rd.def)
	h := &handle{g: g, id: rd.hctr.Add(1), job: ji}
	if ok {
		w.log('G', h.id, s, p, d.one())
	}
	if d != j.exp {
		rd.fail("c17-garble-result", map[string]any{"t": w.t, "job": ji, "differs": d.diff(j.exp),
			"what": "Garble under concurrency returned a result different from the single-goroutine result for the same tape and key"})
	}
	w.live = append(w.live, h)
}

func (w *worker) pick() (int, *handle) {
	if len(w.live) == 0 {
		return -1, nil
	}
	i := w.rng.Intn(len(w.live))
	return i, w.live[i]
}

func (w *worker) verify() {
	_, h := w.pick()
	if h == nil {
		return
	}
	r, wires, gates := h.parts()
	d := digestParts(r, wires, gates, w.rd.def)
	w.log('V', h.id, 0, 0, d.one())
	if d != w.rd.jobs[h.job].exp {
		w.rd.fail("c17-live-handle-changed", map[string]any{"t": w.t, "job": h.job,
			"differs": d.diff(w.rd.jobs[h.job].exp), "header_dropped": h.dropped,
			"what": "the data of an unreleased Garbled changed while other goroutines were garbling"})
	}
}

// evalWith evaluates with the given tables/wire pairs and checks the result
// against the single-goroutine evaluation and the reference evaluator.
func (w *worker) evalWith(ji int, inW []ot.Wire, tables [][]ot.Label, allW []ot.Wire, how string) {
	rd := w.rd
	j := rd.jobs[ji]
	nin := rd.c.Inputs.Size()
	ws := make([]ot.Label, rd.c.NumWires)
	for i := 0; i < nin; i++ {
		ws[i] = circuit.LabelForBit(inW[i], rd.x[i])
	}
	if err := rd.c.Eval(j.key, ws, tables); err != nil {
		rd.fail("c17-eval-error", map[string]any{"t": w.t, "job": ji, "how": how, "err": err.Error()})
		return
	}
	if digestLabels(ws, rd.def) != j.eval {
		rd.fail("c17-eval-result", map[string]any{"t": w.t, "job": ji, "how": how,
			"what": "Eval under concurrency differs from the single-goroutine evaluation"})
		return
	}
	if allW != nil {
		nout := rd.c.Outputs.Size()
		for i := 0; i < nout; i++ {
			wi := rd.c.NumWires - nout + i
			b, err := circuit.BitFromLabel(allW[wi], ws[wi])
			if err != nil || b != rd.ref[wi] {
				rd.fail("c17-eval-decode", map[string]any{"t": w.t, "job": ji, "how": how, "wire": wi})
				return
			}
		}
	}
}

func (w *worker) evalLive() {
	_, h := w.pick()
	if h == nil {
		return
	}
	_, wires, gates := h.parts()
	w.evalWith(h.job, wires, gates, wires, "tables-of-live-handle")
	w.log('C', 0, 0, 0, 0)
}

func (w *worker) release(i int, h *handle) {
	w.log('R', h.id, 0, 0, 0)
	h.g.Release()
	if h.g.Wires != nil || h.g.Gates != nil {
		w.rd.fail("c17-release-not-cleared", map[string]any{"t": w.t})
	}
	w.live = append(w.live[:i], w.live[i+1:]...)
	w.dead = append(w.dead, h)
	if len(w.dead) > 4 {
		w.dead = w.dead[1:]
	}
}

func (w *worker) releaseSome() {
	i, h := w.pick()
	if h == nil || h.dropped { // no header, no Release: the garbling keeps its scratch
		return
	}
	w.release(i, h)
}

// dropHeader: keep what a protocol round keeps of a garbling (R and the two
// slices) and let the *Garbled header go.
func (w *worker) dropHeader() {
	_, h := w.pick()
	if h == nil || h.dropped {
		return
	}
	h.r, h.wires, h.gates = h.g.R, h.g.Wires, h.g.Gates
	w.log('D', h.id, 0, 0, 0)
	h.g = nil
	h.dropped = true
}

// collect forces a collection (at most twice per goroutine and round) and
// lets the runtime's finalizer goroutine run.
func (w *worker) collect() {
	if w.gcs >= 2 {
		return
	}
	w.gcs++
	runtime.GC()
	if w.rng.Bool() {
		runtime.GC()
	}
	runtime.Gosched()
	if w.rng.Bool() {
		time.Sleep(time.Millisecond)
	}
	w.log('K', 0, 0, 0, 0)
}

// evalCopyRelease copies the tables and wire pairs out (as a serialiser
// would), releases the handle, lets others reuse the scratch, and evaluates
// from the copies.
func (w *worker) evalCopyRelease() {
	i, h := w.pick()
	if h == nil || h.dropped {
		return
	}
	tables := make([][]ot.Label, len(h.g.Gates))
	for k := range h.g.Gates {
		tables[k] = append([]ot.Label(nil), h.g.Gates[k]...)
	}
	wires := append([]ot.Wire(nil), h.g.Wires...)
	ji := h.job
	w.release(i, h)
	w.yield()
	w.evalWith(ji, wires, tables, wires, "copied-before-release")
	w.log('C', 0, 0, 0, 0)
}

func (w *worker) release2() {
	if len(w.dead) == 0 {
		return
	}
	h := w.dead[w.rng.Intn(len(w.dead))]
	w.log('Q', h.id, 0, 0, 0)
	h.g.Release()
}

func (w *worker) compute() {
	rd := w.rd
	in := w.rng.Intn(len(rd.cins))
	outs, err := rd.c.Compute(rd.cins[in])
	if err != nil {
		rd.fail("c17-compute-error", map[string]any{"t": w.t, "err": err.Error()})
		return
	}
	ref := rd.crefs[in]
	nout := rd.c.Outputs.Size()
	k := 0
	for oi, io := range rd.c.Outputs {
		for b := 0; b < int(io.Type.Bits); b++ {
			if (outs[oi].Bit(b) == 1) != ref[rd.c.NumWires-nout+k] {
				rd.fail("c17-compute-result", map[string]any{"t": w.t, "out": k, "input": in})
				return
			}
			k++
		}
	}
	w.log('C', 0, 0, 0, 0)
	// keep the returned objects; re-read the earlier ones after this later call
	w.rereadComputed()
	w.keptC = append(w.keptC, keptCompute{outs: outs, snap: valuesText(outs), in: in})
	if len(w.keptC) > 4 {
		w.keptC = w.keptC[1:]
	}
}

// abort exercises the early-return paths of Garble (each must Put the scratch).
func (w *worker) abort() {
	rd := w.rd
	j := rd.jobs[w.rng.Intn(len(rd.jobs))]
	var g *circuit.Garbled
	var err error
	var how string
	switch w.rng.Intn(3) {
	case 0:
		how = "short-tape-R"
		g, err = rd.c.Garble(&hxlib.Tape{Data: j.tape[:w.rng.Intn(16)]}, j.key)
	case 1:
		how = "short-tape-inputs"
		nin := rd.c.Inputs.Size()
		g, err = rd.c.Garble(&hxlib.Tape{Data: j.tape[:16+16*w.rng.Intn(nin)+w.rng.Intn(16)]}, j.key)
	default:
		how = "bad-key"
		g, err = rd.c.Garble(&hxlib.Tape{Data: j.tape}, j.key[:5])
	}
	w.log('A', 0, 0, 0, 0)
	if err == nil || g != nil {
		rd.fail("c17-missing-error", map[string]any{"t": w.t, "how": how})
	}
	g.Release() // nil receiver: must be harmless
}

func (w *worker) nilRelease() {
	var g *circuit.Garbled
	g.Release()
	(&circuit.Garbled{}).Release()
}

func (w *worker) handoff() {
	rd := w.rd
	if w.rng.Bool() {
		i, h := w.pick()
		if h == nil {
			return
		}
		select {
		case rd.handoff <- h:
			w.live = append(w.live[:i], w.live[i+1:]...)
		default:
		}
	} else {
		select {
		case h := <-rd.handoff:
			w.live = append(w.live, h)
		default:
		}
	}
}

func (w *worker) op(k int) {
	switch k {
	case 0, 1, 2:
		if len(w.live) >= 3 {
			w.releaseSome()
		}
		w.garble()
	case 3:
		w.verify()
	case 4:
		w.evalLive()
	case 5:
		w.evalCopyRelease()
	case 6:
		w.releaseSome()
	case 7:
		w.release2()
	case 8:
		w.compute()
	case 9:
		w.abort()
	case 10:
		w.nilRelease()
	case 11:
		w.handoff()
	case 12:
		w.dropHeader()
	case 13:
		w.collect()
	}
}

func (w *worker) run(start chan struct{}, script func(w *worker)) {
	defer func() {
		if e := recover(); e != nil {
			buf := make([]byte, 2048)
			n := runtime.Stack(buf, false)
			w.rd.fail("c17-panic", map[string]any{"t": w.t, "panic": fmt.Sprint(e), "stack": string(buf[:n])})
		}
	}()
	<-start
	// spin barrier: all goroutines (up to the number of Ps) leave together
	rd := w.rd
	rd.arrived.Add(1)
	for i := 0; rd.arrived.Load() < rd.need; i++ {
		if i > 2000 {
			runtime.Gosched()
		}
	}
	script(w)
}

// ---------------------------------------------------------------- scripts

func scriptMixed(nops int) func(w *worker) { return scriptOps(nops, 12) }

// scriptGCMixed: the mixed script with two more operations: drop the header of
// a live garbling (keep its data), force a collection.
func scriptGCMixed(nops int) func(w *worker) { return scriptOps(nops, 14) }

func scriptOps(nops, kinds int) func(w *worker) {
	return func(w *worker) {
		for i := 0; i < nops; i++ {
			w.op(w.rng.Intn(kinds))
			w.yield()
		}
		// release most of what is left (Release is optional)
		for k := 0; k < 64 && len(w.live) > 0 && w.rng.Intn(4) != 0; k++ {
			w.releaseSome()
		}
		// and re-read what was kept without a header
		for _, h := range w.live {
			if h.dropped {
				r, wires, gates := h.parts()
				d := digestParts(r, wires, gates, w.rd.def)
				w.log('V', h.id, 0, 0, d.one())
				if d != w.rd.jobs[h.job].exp {
					w.rd.fail("c17-retained-garbling-changed", map[string]any{"t": w.t, "job": h.job,
						"differs": d.diff(w.rd.jobs[h.job].exp), "retention": retention(h),
						"what": "the data (R / Wires / Gates) of a garbling that was never released differs from " +
							"the snapshot taken when Garble returned"})
				}
			}
		}
	}
}

func scriptFirst(w *worker) {
	n := 1 + w.rng.Intn(2)
	for i := 0; i < n; i++ {
		w.garble()
		if w.rng.Bool() {
			w.verify()
		}
		if w.rng.Intn(3) == 0 {
			w.evalLive()
		}
		w.releaseSome()
		if w.rng.Intn(4) == 0 {
			w.release2()
		}
	}
}

// scriptHold: goroutine 0 keeps one handle live and re-reads it while the
// others garble and release as fast as they can.
func scriptHold(n int) func(w *worker) {
	return func(w *worker) {
		if w.t == 0 {
			w.garble()
			for i := 0; i < n; i++ {
				w.verify()
				if i%3 == 0 {
					w.evalLive()
				}
				w.yield()
			}
			w.releaseSome()
			w.release2()
			return
		}
		for i := 0; i < n; i++ {
			w.garble()
			if w.rng.Intn(3) == 0 {
				w.verify()
			}
			w.releaseSome()
		}
	}
}

func scriptErr(w *worker) {
	for i := 0; i < 3; i++ {
		j := w.rd.jobs[w.rng.Intn(len(w.rd.jobs))]
		g, err := w.rd.c.Garble(&hxlib.Tape{Data: j.tape}, j.key)
		w.log('A', 0, 0, 0, 0)
		if err == nil || g != nil {
			w.rd.fail("c17-missing-error", map[string]any{"t": w.t, "how": "invalid-gate"})
		}
		w.yield()
	}
}

// ---------------------------------------------------------------- trace

func canon(m map[uintptr]int, k uintptr) (int, bool) {
	if v, ok := m[k]; ok {
		return v, false
	}
	v := len(m)
	m[k] = v
	return v, true
}

// checkTrace is the harness's own judgement of a merged event log: the
// logged ownership intervals of one scratch never overlap, all handles use
// one pool object, the data of a live handle never changes, a second Release
// only follows a first.  Returns the op line and the verdict line (same
// format as the Lean driver).
func checkTrace(evs []event) (string, string, string) {
	sort.Slice(evs, func(i, j int) bool { return evs[i].seq < evs[j].seq })
	scr := map[uintptr]int{}
	pools := map[uintptr]int{}
	hid := map[int64]int{}
	type hst struct {
		live    bool
		dropped bool
		s       int
		d       uint64
	}
	var hs []hst
	owner := map[int]int{} // scratch -> live handle
	var sb strings.Builder
	sb.WriteString("c17 trace")
	verdict, kind := "", ""
	reject := func(i int, k string) {
		if verdict == "" {
			verdict = fmt.Sprintf("reject@%d:%s", i, k)
			kind = k
		}
	}
	var reused, maxLive, live, releases, noops, aborts, verifies, anyPool, drops, collects int
	for i, e := range evs {
		switch e.kind {
		case 'G':
			s, fresh := canon(scr, e.s)
			p, _ := canon(pools, e.p)
			h := len(hs)
			hid[e.h] = h
			fmt.Fprintf(&sb, " G:%d:%d:%d:%d:%d", e.t, h, s, p, e.d)
			anyPool = 1
			if p != 0 {
				reject(i, "pool-not-unique")
			}
			if !fresh {
				if _, busy := owner[s]; busy {
					reject(i, "scratch-not-free")
				}
				reused++
			}
			hs = append(hs, hst{live: true, s: s, d: e.d})
			owner[s] = h
			live++
			if live > maxLive {
				maxLive = live
			}
		case 'V':
			h, ok := hid[e.h]
			fmt.Fprintf(&sb, " V:%d:%d:%d", e.t, h, e.d)
			if !ok {
				reject(i, "unknown-handle")
			} else if !hs[h].live {
				reject(i, "read-released")
			} else if hs[h].d != e.d {
				reject(i, "content-changed")
			}
			verifies++
		case 'R':
			h, ok := hid[e.h]
			fmt.Fprintf(&sb, " R:%d:%d", e.t, h)
			if ok && hs[h].dropped {
				reject(i, "release-of-dropped")
			} else if !ok {
				reject(i, "unknown-handle")
			} else if !hs[h].live {
				reject(i, "release-of-released")
			} else {
				hs[h].live = false
				if owner[hs[h].s] == h {
					delete(owner, hs[h].s)
				}
				live--
				releases++
			}
		case 'Q':
			h, ok := hid[e.h]
			fmt.Fprintf(&sb, " Q:%d:%d", e.t, h)
			if ok && hs[h].dropped {
				reject(i, "release-of-dropped")
			} else if !ok {
				reject(i, "unknown-handle")
			} else if hs[h].live {
				reject(i, "second-release-of-live")
			}
			noops++
		case 'A':
			fmt.Fprintf(&sb, " A:%d", e.t)
			anyPool = 1
			aborts++
		case 'C':
			fmt.Fprintf(&sb, " C:%d", e.t)
		case 'D':
			// the header of an unreleased garbling is dropped, its data kept: the
			// garbling stays live (it still owns its scratch) and can never be released
			h, ok := hid[e.h]
			fmt.Fprintf(&sb, " D:%d:%d", e.t, h)
			if !ok || !hs[h].live || hs[h].dropped {
				reject(i, "drop-not-allowed")
			} else {
				hs[h].dropped = true
				drops++
			}
		case 'K':
			// forced collections: nothing of the pool protocol may happen
			fmt.Fprintf(&sb, " K:%d", e.t)
			collects++
		}
		if verdict != "" {
			// the model stops at the first rejected event; keep the op line complete
			continue
		}
	}
	if verdict == "" {
		verdict = fmt.Sprintf("ok pools=%d scratch=%d handles=%d reused=%d maxlive=%d live=%d releases=%d noops=%d aborts=%d verifies=%d dropped=%d collects=%d",
			anyPool, len(scr), len(hs), reused, maxLive, live, releases, noops, aborts, verifies, drops, collects)
	}
	return sb.String(), verdict, kind
}

// ---------------------------------------------------------------- driver

func stressMain(args []string) int {
	cf, o := hxlib.ParseCommon("c17", args, nil)
	defer o.Close()
	rng := hxlib.NewRng(cf.Seed)
	o.Meta["observe"] = obs.desc
	kinds := []string{"first", "mixed", "first", "hold", "mixed", "first", "seq", "mixed", "errpath", "first", "gcmix"}
	progress := cf.Meta + ".progress"
	for i := 0; i < cf.N; i++ {
		r := rng.Fork()
		if cf.Only >= 0 && i != cf.Only {
			continue
		}
		if cf.Meta != "" {
			os.WriteFile(progress, []byte(fmt.Sprintf("%d", i)), 0o644)
		}
		kind := kinds[i%len(kinds)]
		runRound(o, cf, r, i, kind)
	}
	if cf.Meta != "" {
		os.WriteFile(progress, []byte("done"), 0o644)
	}
	return 0
}

func runRound(o *hxlib.Out, cf *hxlib.CommonFlags, r *hxlib.Rng, idx int, kind string) {
	maxGates := 400
	if kind == "first" {
		maxGates = 40
	}
	if cf.Tier == "thorough" && kind != "first" {
		maxGates = 800
	}
	rd := newRound(o, cf, r, idx, kind, maxGates)
	if rd == nil {
		return
	}
	c := rd.c
	var ng int
	var script func(w *worker)
	switch kind {
	case "first":
		ng = 2 + r.Intn(24)
		script = scriptFirst
	case "mixed":
		ng = 2 + r.Intn(10)
		script = scriptMixed(6 + r.Intn(20))
	case "gcmix":
		// header drops and collections inside a concurrent round; scratch identity by
		// buffer address (the scratch struct of a dropped garbling dies with its header)
		rd.idByBuf = true
		ng = 2 + r.Intn(6)
		script = scriptGCMixed(8 + r.Intn(16))
	case "hold":
		ng = 3 + r.Intn(5)
		script = scriptHold(8 + r.Intn(10))
	case "seq":
		ng = 1
		script = scriptMixed(40)
	case "errpath":
		// an invalid gate operation: every Garble takes the gate-error
		// early return after having written part of its scratch
		c.Gates[r.Intn(len(c.Gates))].Op = circuit.Operation(9)
		ng = 2 + r.Intn(6)
		script = scriptErr
	}
	rd.need = int32(ng)
	if p := runtime.GOMAXPROCS(0); ng > p {
		rd.need = int32(p)
	}
	start := make(chan struct{})
	var wg sync.WaitGroup
	ws := make([]*worker, ng)
	for t := 0; t < ng; t++ {
		ws[t] = &worker{rd: rd, t: t, rng: r.Fork()}
		wg.Add(1)
		go func(w *worker) {
			defer wg.Done()
			w.run(start, script)
		}(ws[t])
	}
	close(start)
	wg.Wait()
	finishRound(o, rd, ws, ng)
}

// finishRound merges the workers' event logs, judges the trace, emits the op
// line and the round's failures and counters.
func finishRound(o *hxlib.Out, rd *round, ws []*worker, ng int) {
	c, idx, kind := rd.c, rd.idx, rd.kind
	var evs []event
	minEnd := int64(0)
	for _, w := range ws {
		evs = append(evs, w.evs...)
		if w.t1 != 0 && (minEnd == 0 || w.t1 < minEnd) {
			minEnd = w.t1
		}
	}
	racers := 0
	for _, w := range ws {
		if w.t0 != 0 && w.t0 <= minEnd {
			racers++
		}
	}
	if racers > 1 {
		o.Count("rounds_first_use_raced")
		o.CountN("first_use_racers", racers)
	}
	// the circuit's pool pointer after the round vs the pool of the handles
	if cp, ok := circuitPool(c); ok {
		for _, e := range evs {
			if e.kind == 'G' && e.p != cp {
				rd.fail("c17-pool-not-unique", map[string]any{
					"what": "a Garbled handle refers to a pool object other than the one installed on the circuit"})
				break
			}
		}
	}
	op, verdict, rk := checkTrace(evs)
	if obs.ok() {
		o.Op(op, verdict)
	} else {
		o.Count("rounds_without_trace")
	}
	if rk != "" {
		rd.fail("c17-trace-"+rk, map[string]any{"verdict": verdict,
			"what": "the logged pool events of a real run are not an ownership-respecting history"})
	}
	for _, f := range rd.fails {
		sig := f["sig"].(string)
		o.Fail(sig, f)
	}
	// coverage
	o.Count("rounds")
	o.Count("kind_" + kind)
	o.CountN("goroutines", ng)
	o.CountN("events", len(evs))
	for _, e := range evs {
		o.Count("ev_" + string(e.kind))
	}
	var reused int
	fmt.Sscanf(after(verdict, "reused="), "%d", &reused)
	o.CountN("scratch_reuses", reused)
	if reused > 0 {
		o.Count("rounds_with_reuse")
	}
	var maxLive int
	fmt.Sscanf(after(verdict, "maxlive="), "%d", &maxLive)
	if maxLive > 1 {
		o.Count("rounds_with_overlapping_handles")
	}
	if ng > 1 {
		o.Count("rounds_concurrent")
	}
	if idx < 3 {
		o.Sample(map[string]any{"round": idx, "kind": kind, "goroutines": ng, "gates": len(c.Gates),
			"events": len(evs), "verdict": verdict})
	}
}

// newRound generates the shared circuit of a round, its input, and the
// single-goroutine reference results of its jobs (tape, key).  nil: the
// reference run itself failed (reported).
func newRound(o *hxlib.Out, cf *hxlib.CommonFlags, r *hxlib.Rng, idx int, kind string, maxGates int) *round {
	mixes := []string{"uniform", "and", "orinv", "xnor"}
	c := hxlib.GenCircuit(r, hxlib.GenOpts{MaxGates: maxGates, MaxIn: 5, Mix: mixes[r.Intn(len(mixes))], AllowReuse: r.Intn(3) == 0})
	if r.Intn(2) == 0 {
		// the outputs are the last wires: re-cut them into 1..3 outputs over up to 300 wires (outputs wider
		// than a machine word; Garble / Eval do not read the output description)
		if avail := c.NumWires - c.Inputs.Size(); avail > 8 {
			total := 1 + r.Intn(hxlib.MinInt(avail, 300))
			var outs circuit.IO
			for k := 1 + r.Intn(3); k > 1 && total > 1; k-- {
				w := 1 + r.Intn(total-1)
				outs = append(outs, hxlib.UintIO(fmt.Sprintf("r%d", len(outs)), w))
				total -= w
			}
			c.Outputs = append(outs, hxlib.UintIO(fmt.Sprintf("r%d", len(outs)), total))
		}
	}
	rd := &round{idx: idx, kind: kind, c: c, seed: cf.Seed, n: cf.N, handoff: make(chan *handle, 4)}
	rd.def = definedWires(c)
	nin := c.Inputs.Size()
	rd.x = make([]bool, nin)
	for i := range rd.x {
		rd.x[i] = r.Bool()
	}
	rd.ref = hxlib.RefEval(c, rd.x)
	n0 := int(c.Inputs[0].Type.Bits)
	rd.inputs = []*big.Int{bitsToBig(rd.x[:n0]), bitsToBig(rd.x[n0:])}
	rd.cins, rd.crefs = [][]*big.Int{rd.inputs}, [][]bool{rd.ref}
	for k := 0; k < 3; k++ {
		x := randInput(r, nin)
		rd.cins = append(rd.cins, []*big.Int{bitsToBig(x[:n0]), bitsToBig(x[n0:])})
		rd.crefs = append(rd.crefs, hxlib.RefEval(c, x))
	}

	// single-goroutine reference results, on an independent Circuit value so
	// that the shared one is untouched until the goroutines start
	ref := cloneCircuit(c)
	njobs := 2 + r.Intn(5)
	keySizes := []int{16, 24, 32}
	refOK := true
	for j := 0; j < njobs; j++ {
		jb := &job{tape: r.Bytes(16 * (1 + nin)), key: r.Bytes(keySizes[r.Intn(3)])}
		func() {
			defer func() {
				if e := recover(); e != nil {
					refOK = false
					o.Fail("c17-reference-panic", map[string]any{"round": idx, "panic": fmt.Sprint(e)})
				}
			}()
			g, err := ref.Garble(&hxlib.Tape{Data: jb.tape}, jb.key)
			if err != nil {
				refOK = false
				o.Fail("c17-reference-error", map[string]any{"round": idx, "err": err.Error()})
				return
			}
			jb.exp = digestGarbled(g, rd.def)
			ws := make([]ot.Label, c.NumWires)
			for i := 0; i < nin; i++ {
				ws[i] = circuit.LabelForBit(g.Wires[i], rd.x[i])
			}
			if err := ref.Eval(jb.key, ws, g.Gates); err != nil {
				refOK = false
				o.Fail("c17-reference-error", map[string]any{"round": idx, "err": err.Error()})
				return
			}
			jb.eval = digestLabels(ws, rd.def)
			g.Release()
		}()
		rd.jobs = append(rd.jobs, jb)
	}
	if !refOK {
		return nil
	}
	return rd
}

func after(s, key string) string {
	i := strings.Index(s, key)
	if i < 0 {
		return ""
	}
	return s[i+len(key):]
}

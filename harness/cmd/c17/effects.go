package main

// Semantic structural facts for C17 (mode `facts`): an interprocedural
// effect analysis over the whole `circuit` package, on the syntax tree with
// the parser's object resolution.
//
// For an entry point (Circuit.Garble, Circuit.Eval, Circuit.Compute,
// Garbled.Release) it computes the set of EFFECTS ON STATE THE CALL DOES NOT
// OWN: writes through, external method calls on, and escapes of references
// that originate from the receiver (named by its declared type), from a
// package-level variable, from a reference-typed parameter (named by position
// and type) or from an object obtained from the receiver (the sync.Pool and
// the scratch it hands out).  Calls to functions and methods declared in the
// same package are followed with the origins of their arguments, so
// extracting or inlining a helper, renaming locals, introducing local aliases
// (`wires := scratch.wires`, `gate := &c.Gates[i]`), changing loop forms or
// hoisting an expression leave the result unchanged.  Reads are not effects.
// Write paths are cut after the first index ("which buffer", not "which
// field of which element").

import (
	"fmt"
	"go/ast"
	"go/token"
	"os"
	"path/filepath"
	"sort"
	"strings"
)

type pkgIndex struct {
	fc      *factsCtx
	funcs   map[string]*ast.FuncDecl   // package-level functions by name
	methods map[string][]*ast.FuncDecl // methods by name (any receiver)
	vars    map[string]bool            // package-level variables
	types   map[string]*ast.TypeSpec
	imports map[string]bool // import names (package qualifiers)
}

func loadPkg(dir string) (*pkgIndex, error) {
	fc := &factsCtx{fset: token.NewFileSet(), files: map[string]*ast.File{}}
	px := &pkgIndex{fc: fc, funcs: map[string]*ast.FuncDecl{}, methods: map[string][]*ast.FuncDecl{},
		vars: map[string]bool{}, types: map[string]*ast.TypeSpec{}, imports: map[string]bool{}}
	ents, err := os.ReadDir(dir)
	if err != nil {
		return nil, err
	}
	for _, e := range ents {
		n := e.Name()
		if e.IsDir() || !strings.HasSuffix(n, ".go") || strings.HasSuffix(n, "_test.go") {
			continue
		}
		p := filepath.Join(dir, n)
		af, err := parseFile(fc, p)
		if err != nil {
			return nil, fmt.Errorf("parse %s: %v", p, err)
		}
		fc.files[p] = af
		for _, im := range af.Imports {
			name := strings.Trim(im.Path.Value, `"`)
			if i := strings.LastIndex(name, "/"); i >= 0 {
				name = name[i+1:]
			}
			if im.Name != nil {
				name = im.Name.Name
			}
			px.imports[name] = true
		}
		for _, d := range af.Decls {
			switch x := d.(type) {
			case *ast.FuncDecl:
				if x.Recv == nil {
					px.funcs[x.Name.Name] = x
				} else {
					px.methods[x.Name.Name] = append(px.methods[x.Name.Name], x)
				}
			case *ast.GenDecl:
				for _, sp := range x.Specs {
					switch s := sp.(type) {
					case *ast.ValueSpec:
						if x.Tok == token.VAR {
							for _, n := range s.Names {
								px.vars[n.Name] = true
							}
						}
					case *ast.TypeSpec:
						px.types[s.Name.Name] = s
					}
				}
			}
		}
	}
	return px, nil
}

// typeKey renders a type expression with every UNEXPORTED type declared in this
// package replaced by its structure (field types of a struct, underlying type
// otherwise), so that renaming an unexported type does not change the key.
func (px *pkgIndex) typeKey(t ast.Expr, depth int) string {
	switch x := t.(type) {
	case nil:
		return "?"
	case *ast.Ident:
		if ts, ok := px.types[x.Name]; ok && !ast.IsExported(x.Name) && depth < 3 {
			if st, ok := ts.Type.(*ast.StructType); ok {
				var fs []string
				for _, fl := range st.Fields.List {
					n := len(fl.Names)
					if n == 0 {
						n = 1
					}
					for i := 0; i < n; i++ {
						fs = append(fs, px.typeKey(fl.Type, depth+1))
					}
				}
				return "struct{" + strings.Join(fs, ";") + "}"
			}
			return px.typeKey(ts.Type, depth+1)
		}
		return x.Name
	case *ast.StarExpr:
		return "*" + px.typeKey(x.X, depth)
	case *ast.ParenExpr:
		return px.typeKey(x.X, depth)
	case *ast.ArrayType:
		if x.Len == nil {
			return "[]" + px.typeKey(x.Elt, depth)
		}
		return "[" + px.fc.render(x.Len) + "]" + px.typeKey(x.Elt, depth)
	case *ast.MapType:
		return "map[" + px.typeKey(x.Key, depth) + "]" + px.typeKey(x.Value, depth)
	}
	return px.fc.render(t)
}

// fieldLabel names a field of a struct type declared in this package: an
// exported field by its name, an unexported one by its TYPE (`<T>`, with an
// ordinal when several unexported fields of the struct share the type), so
// that renaming an unexported field does not change the label.
func (px *pkgIndex) fieldLabel(st *ast.StructType, name string) string {
	if st == nil || ast.IsExported(name) {
		return name
	}
	var key string
	found := false
	for _, fl := range st.Fields.List {
		for _, n := range fl.Names {
			if n.Name == name {
				key = px.typeKey(fl.Type, 0)
				found = true
			}
		}
	}
	if !found {
		return name
	}
	ord, total := 0, 0
	for _, fl := range st.Fields.List {
		for _, n := range fl.Names {
			if !ast.IsExported(n.Name) && px.typeKey(fl.Type, 0) == key {
				if n.Name == name {
					ord = total
				}
				total++
			}
		}
	}
	if total > 1 {
		return fmt.Sprintf("<%s#%d>", key, ord)
	}
	return "<" + key + ">"
}

func (px *pkgIndex) structOf(typeName string) *ast.StructType {
	if ts, ok := px.types[typeName]; ok {
		if st, ok := ts.Type.(*ast.StructType); ok {
			return st
		}
	}
	return nil
}

// poolField: the field of Circuit that holds the scratch pool, located by TYPE
// (any field whose type mentions sync.Pool); name and declared type.
func (px *pkgIndex) poolField() (string, string) {
	st := px.structOf("Circuit")
	if st == nil {
		return "", ""
	}
	for _, fl := range st.Fields.List {
		t := px.fc.render(fl.Type)
		if strings.Contains(t, "sync.Pool") {
			for _, n := range fl.Names {
				return n.Name, t
			}
		}
	}
	return "", ""
}

// refLike: does a declared type carry a reference to memory owned elsewhere?
func (px *pkgIndex) refLike(t ast.Expr) bool {
	switch x := t.(type) {
	case *ast.StarExpr, *ast.MapType, *ast.ChanType:
		return true
	case *ast.ArrayType:
		return x.Len == nil
	case *ast.Ellipsis:
		return true
	case *ast.Ident:
		if ts, ok := px.types[x.Name]; ok {
			return px.refLike(ts.Type)
		}
	}
	return false
}

type effAn struct {
	px      *pkgIndex
	handle  []string // fields of every Garbled composite literal met, with the origin of their values
	effects map[string]bool
	depth   int
	stack   map[*ast.FuncDecl]int
}

// one function activation
type frame struct {
	an   *effAn
	fd   *ast.FuncDecl
	env  map[*ast.Object]string // variable -> origin of the reference it holds ("" = own/local)
	rets [][]string             // origins of returned expressions, per result index
}

func shared(o string) bool {
	return o != "" && o != "fresh"
}

// owned by somebody else than this call and not merely an argument
func foreign(o string) bool {
	return shared(o) && !strings.HasPrefix(o, "param#")
}

const ix = "[*]"

func cutIndex(p string) string {
	if i := strings.Index(p, ix); i >= 0 {
		return p[:i+len(ix)]
	}
	return p
}

func (f *frame) origin(e ast.Expr) string {
	switch x := e.(type) {
	case nil:
		return ""
	case *ast.Ident:
		if x.Obj != nil {
			if o, ok := f.env[x.Obj]; ok {
				return o
			}
			if x.Obj.Kind == ast.Var {
				if _, isSpec := x.Obj.Decl.(*ast.ValueSpec); isSpec && f.an.px.vars[x.Name] && f.isFileScope(x) {
					return "global:" + x.Name
				}
			}
			return ""
		}
		if f.an.px.vars[x.Name] {
			return "global:" + x.Name
		}
		return ""
	case *ast.ParenExpr:
		return f.origin(x.X)
	case *ast.StarExpr:
		return f.origin(x.X)
	case *ast.UnaryExpr:
		o := f.origin(x.X)
		if x.Op == token.AND {
			return o
		}
		return ""
	case *ast.TypeAssertExpr:
		return f.origin(x.X)
	case *ast.SliceExpr:
		f.origin(x.Low)
		f.origin(x.High)
		f.origin(x.Max)
		return f.origin(x.X)
	case *ast.IndexExpr:
		f.origin(x.Index)
		o := f.origin(x.X)
		if shared(o) {
			return o + ix
		}
		return o
	case *ast.SelectorExpr:
		if id, ok := x.X.(*ast.Ident); ok && id.Obj == nil && f.an.px.imports[id.Name] && !f.an.px.vars[id.Name] {
			return "" // qualified identifier of another package
		}
		o := f.origin(x.X)
		if shared(o) {
			return o + "." + f.selLabel(x)
		}
		return o
	case *ast.FuncLit:
		f.block(x.Body)
		return "fresh"
	case *ast.CompositeLit:
		isHandle := f.an.px.fc.render(x.Type) == "Garbled"
		var hst *ast.StructType
		if isHandle {
			hst = f.an.px.structOf("Garbled")
		}
		for _, el := range x.Elts {
			if kv, ok := el.(*ast.KeyValueExpr); ok {
				o := f.origin(kv.Value)
				if isHandle {
					if !shared(o) {
						o = "own"
					}
					f.an.handle = append(f.an.handle, f.an.px.fieldLabel(hst, f.an.px.fc.render(kv.Key))+"="+o)
				}
			} else {
				f.origin(el)
			}
		}
		return "fresh"
	case *ast.CallExpr:
		return f.call(x)
	case *ast.BinaryExpr:
		f.origin(x.X)
		f.origin(x.Y)
		return ""
	case *ast.KeyValueExpr:
		return f.origin(x.Value)
	}
	return ""
}

// selLabel: the label of the selected field (see fieldLabel); the name itself
// when the struct type of the operand cannot be resolved.
func (f *frame) selLabel(x *ast.SelectorExpr) string {
	if t := f.typeOf(x.X); t != nil {
		if st, ok := f.under(t).(*ast.StructType); ok {
			return f.an.px.fieldLabel(st, x.Sel.Name)
		}
	}
	return x.Sel.Name
}

func (f *frame) isFileScope(id *ast.Ident) bool {
	for _, af := range f.an.px.fc.files {
		if af.Scope != nil && af.Scope.Lookup(id.Name) == id.Obj {
			return true
		}
	}
	return false
}

func (f *frame) effect(s string) { f.an.effects[s] = true }

// write through an lvalue
func (f *frame) write(lhs ast.Expr) {
	if id, ok := lhs.(*ast.Ident); ok {
		// the variable itself: an effect only for package-level variables
		if o := f.origin(id); strings.HasPrefix(o, "global:") && (id.Obj == nil || f.isFileScope(id)) {
			f.effect("write " + o)
		}
		return
	}
	var o string
	switch x := lhs.(type) {
	case *ast.IndexExpr:
		f.origin(x.Index)
		o = f.origin(x.X)
		if shared(o) {
			o += ix
		}
	default:
		o = f.origin(lhs)
	}
	if shared(o) {
		f.effect("write " + cutIndex(o))
	}
}

func (f *frame) bind(lhs ast.Expr, o string) {
	if id, ok := lhs.(*ast.Ident); ok && id.Obj != nil && id.Name != "_" {
		if o != "" && f.isValue(f.typeOf(id)) {
			o = "" // a copy of a value, not an alias
		}
		if o == "" {
			delete(f.env, id.Obj)
		} else {
			f.env[id.Obj] = o
		}
	}
}

var readOnlySinks = map[string]bool{"fmt": true, "errors": true, "strconv": true}

var builtins = map[string]bool{"len": true, "cap": true, "make": true, "new": true, "append": true, "copy": true,
	"delete": true, "panic": true, "print": true, "println": true, "min": true, "max": true, "clear": true,
	"recover": true, "close": true, "complex": true, "real": true, "imag": true}

// call evaluates a call expression for its effects and returns the origin of
// its (first) result.
func (f *frame) call(ce *ast.CallExpr) string {
	px := f.an.px
	argO := make([]string, len(ce.Args))
	escO := make([]string, len(ce.Args)) // origin, if the argument can carry a reference out
	for i, a := range ce.Args {
		argO[i] = f.origin(a)
		if f.mayCarryRef(a) {
			escO[i] = argO[i]
		}
	}
	switch fun := ce.Fun.(type) {
	case *ast.Ident:
		if builtins[fun.Name] && fun.Obj == nil {
			switch fun.Name {
			case "copy", "clear":
				if len(ce.Args) > 0 && shared(argO[0]) {
					f.effect("write " + cutIndex(argO[0]+ix))
				}
			case "delete":
				if len(ce.Args) > 0 && shared(argO[0]) {
					f.effect("write " + cutIndex(argO[0]+ix))
				}
			case "append":
				if len(ce.Args) > 0 {
					return argO[0]
				}
			case "make", "new":
				return "fresh"
			}
			return ""
		}
		if fd, ok := px.funcs[fun.Name]; ok && (fun.Obj == nil || fun.Obj.Kind == ast.Fun) {
			return f.enter(fd, "", argO, ce)
		}
		if fun.Obj != nil && fun.Obj.Kind == ast.Var {
			// call of a function value: arguments escape to unknown code
			for _, o := range escO {
				if foreign(o) {
					f.effect("escape " + cutIndex(o) + " -> func value")
				}
			}
			return ""
		}
		// type conversion
		if len(argO) == 1 {
			return argO[0]
		}
		return ""
	case *ast.ParenExpr, *ast.StarExpr, *ast.ArrayType, *ast.MapType, *ast.FuncType, *ast.InterfaceType:
		if len(argO) == 1 {
			return argO[0] // conversion
		}
		return ""
	case *ast.SelectorExpr:
		if id, ok := fun.X.(*ast.Ident); ok && id.Obj == nil && px.imports[id.Name] && !px.vars[id.Name] {
			// function of another package
			if !readOnlySinks[id.Name] {
				for _, o := range escO {
					if foreign(o) {
						f.effect("escape " + cutIndex(o) + " -> " + id.Name + "." + fun.Sel.Name)
					}
				}
			}
			return ""
		}
		ro := f.origin(fun.X)
		if cands := f.methodCands(fun); len(cands) > 0 {
			res := map[string]bool{}
			for _, fd := range cands {
				if r := f.enter(fd, ro, argO, ce); r != "" {
					res[r] = true
				}
			}
			return joinSet(res)
		}
		// method declared outside the package (sync, atomic, ot, big, cipher ...)
		name := fun.Sel.Name
		if foreign(ro) {
			var as []string
			for i, o := range argO {
				if o == "fresh" {
					// a locally built object handed to shared state: published
					as = append(as, "fresh")
					f.publish(ce.Args[i], ro+".*")
				} else if shared(o) {
					as = append(as, cutIndex(o))
				}
			}
			if strings.Contains(ro, ix) {
				// a method of an element of a shared container: may mutate the element
				f.effect("touch " + cutIndex(ro))
			} else {
				s := "extcall " + ro + "." + name
				if len(as) > 0 {
					s += "(" + strings.Join(as, ",") + ")"
				}
				f.effect(s)
			}
			if name == "Load" {
				return ro + ".*"
			}
			return ro + "." + name + "()"
		}
		for _, o := range escO {
			if foreign(o) {
				f.effect("escape " + cutIndex(o) + " -> ." + name)
			}
		}
		return ""
	case *ast.FuncLit:
		f.block(fun.Body)
		return ""
	}
	return ""
}

// mayCarryRef: can passing this expression hand out a reference to the memory
// it is rooted at?  Addresses, slices of, variables and fields of reference
// (or unknown) type can; a field of unknown type reached through an element
// or a field of a value whose type is declared elsewhere is read by value.
func (f *frame) mayCarryRef(e ast.Expr) bool {
	switch x := e.(type) {
	case *ast.ParenExpr:
		return f.mayCarryRef(x.X)
	case *ast.UnaryExpr:
		return x.Op == token.AND
	case *ast.SliceExpr:
		return true
	case *ast.CallExpr, *ast.TypeAssertExpr, *ast.StarExpr:
		return true
	}
	if t := f.typeOf(e); t != nil {
		return !f.isValue(t)
	}
	_, isIdent := e.(*ast.Ident)
	return isIdent
}

func (f *frame) publish(e ast.Expr, o string) {
	for {
		switch x := e.(type) {
		case *ast.ParenExpr:
			e = x.X
			continue
		case *ast.UnaryExpr:
			e = x.X
			continue
		case *ast.Ident:
			if x.Obj != nil {
				f.env[x.Obj] = o
			}
		}
		return
	}
}

func joinSet(m map[string]bool) string {
	var l []string
	for k := range m {
		l = append(l, k)
	}
	sort.Strings(l)
	return strings.Join(l, "|")
}

// enter analyses a same-package callee with the origins of its receiver and
// reference-typed arguments; returns the origin of its first result.
func (f *frame) enter(fd *ast.FuncDecl, recvO string, argO []string, ce *ast.CallExpr) string {
	an := f.an
	if fd.Body == nil || an.stack[fd] >= 2 || an.depth > 12 {
		return ""
	}
	g := &frame{an: an, fd: fd, env: map[*ast.Object]string{}}
	if fd.Recv != nil && len(fd.Recv.List) > 0 && len(fd.Recv.List[0].Names) > 0 {
		rt := fd.Recv.List[0].Type
		if _, ptr := rt.(*ast.StarExpr); ptr || an.px.refLike(rt) {
			g.env[fd.Recv.List[0].Names[0].Obj] = recvO
		}
	}
	k := 0
	for _, p := range fd.Type.Params.List {
		names := p.Names
		if len(names) == 0 {
			k++
			continue
		}
		for _, n := range names {
			if k < len(argO) {
				o := argO[k]
				// a value-typed parameter is a copy, unless the argument is an address
				isAddr := false
				if k < len(ce.Args) {
					if u, ok := ce.Args[k].(*ast.UnaryExpr); ok && u.Op == token.AND {
						isAddr = true
					}
				}
				if o != "" && (an.px.refLike(p.Type) || isAddr || !isNamedValue(p.Type)) {
					g.env[n.Obj] = o
				}
			}
			if _, variadic := p.Type.(*ast.Ellipsis); !variadic {
				k++
			}
		}
	}
	an.stack[fd]++
	an.depth++
	g.block(fd.Body)
	an.depth--
	an.stack[fd]--
	if len(g.rets) > 0 {
		m := map[string]bool{}
		for _, o := range g.rets[0] {
			if o != "" {
				m[o] = true
			}
		}
		if len(m) > 1 {
			delete(m, "fresh")
		}
		return joinSet(m)
	}
	return ""
}

// isNamedValue: a parameter whose declared type is a plain named type
// (struct, integer, array ...) is passed by copy.
func isNamedValue(t ast.Expr) bool {
	switch t.(type) {
	case *ast.Ident, *ast.SelectorExpr:
		return true
	case *ast.ArrayType:
		return t.(*ast.ArrayType).Len != nil
	}
	return false
}

func (f *frame) block(n ast.Node) {
	if n == nil {
		return
	}
	ast.Inspect(n, func(n ast.Node) bool {
		switch x := n.(type) {
		case *ast.FuncLit:
			f.block(x.Body)
			return false
		case *ast.AssignStmt:
			if len(x.Lhs) == len(x.Rhs) {
				for i := range x.Lhs {
					o := f.origin(x.Rhs[i])
					if x.Tok == token.DEFINE {
						f.bind(x.Lhs[i], o)
						continue
					}
					f.write(x.Lhs[i])
					if x.Tok == token.ASSIGN {
						if _, plain := x.Lhs[i].(*ast.Ident); plain {
							f.bind(x.Lhs[i], o)
						} else if o == "fresh" {
							// a locally built object stored into shared state
							if lo := f.origin(x.Lhs[i]); foreign(lo) {
								f.publish(x.Rhs[i], lo+".*")
							}
						}
					}
				}
			} else {
				// multi-value call / comma-ok
				o := ""
				if len(x.Rhs) == 1 {
					o = f.origin(x.Rhs[0])
				}
				for i, l := range x.Lhs {
					if x.Tok != token.DEFINE {
						f.write(l)
					}
					if i == 0 {
						f.bind(l, o)
					}
				}
			}
			return false
		case *ast.IncDecStmt:
			f.write(x.X)
			return false
		case *ast.RangeStmt:
			o := f.origin(x.X)
			if x.Tok == token.DEFINE {
				if x.Value != nil && shared(o) {
					// the value variable is a copy of an element; references inside it still alias
					f.bind(x.Value, "")
				}
			} else if x.Tok == token.ASSIGN {
				if x.Key != nil {
					f.write(x.Key)
				}
				if x.Value != nil {
					f.write(x.Value)
				}
			}
			f.block(x.Body)
			return false
		case *ast.ValueSpec:
			for i, nm := range x.Names {
				if i < len(x.Values) {
					f.bind(nm, f.origin(x.Values[i]))
				}
			}
			return false
		case *ast.ReturnStmt:
			for i, r := range x.Results {
				for len(f.rets) <= i {
					f.rets = append(f.rets, nil)
				}
				f.rets[i] = append(f.rets[i], f.origin(r))
			}
			return false
		case *ast.GoStmt:
			f.effect("go statement")
			f.call(x.Call)
			return false
		case *ast.DeferStmt:
			f.call(x.Call)
			return false
		case *ast.ExprStmt:
			f.origin(x.X)
			return false
		case *ast.SendStmt:
			if o := f.origin(x.Value); foreign(o) {
				f.effect("escape " + cutIndex(o) + " -> channel")
			}
			return false
		case ast.Expr:
			// conditions, switch tags, call arguments in other statements
			f.origin(x)
			return false
		}
		return true
	})
}

// effectsOf: the effect set of an entry point, receiver named by type,
// reference-typed parameters by position and type; second result: the
// Garbled composite literals built on the way.
func (px *pkgIndex) effectsOf(recv, name string) ([]string, []string) {
	fd := px.fc.findFunc(recv, name)
	if fd == nil || fd.Body == nil {
		return []string{"<missing " + recv + "." + name + ">"}, nil
	}
	an := &effAn{px: px, effects: map[string]bool{}, stack: map[*ast.FuncDecl]int{}}
	f := &frame{an: an, fd: fd, env: map[*ast.Object]string{}}
	if fd.Recv != nil && len(fd.Recv.List[0].Names) > 0 {
		f.env[fd.Recv.List[0].Names[0].Obj] = "recv:" + recv
	}
	k := 0
	for _, p := range fd.Type.Params.List {
		for _, n := range p.Names {
			if px.refLike(p.Type) {
				f.env[n.Obj] = fmt.Sprintf("param#%d(%s)", k, px.fc.render(p.Type))
			}
			k++
		}
	}
	an.stack[fd]++
	f.block(fd.Body)
	var res []string
	for e := range an.effects {
		if strings.HasPrefix(e, "touch ") && an.effects["write "+strings.TrimPrefix(e, "touch ")] {
			continue // the container is written anyway
		}
		res = append(res, e)
	}
	sort.Strings(res)
	sort.Strings(an.handle)
	return px.abbreviate(res), px.abbreviate(an.handle)
}

// scratchTypeKey: the struct the handle's one unexported package-struct pointer
// field points to (the scratch), as a type key; "" if there is no such field.
func (px *pkgIndex) scratchTypeKey() string {
	st := px.structOf("Garbled")
	if st == nil {
		return ""
	}
	for _, fl := range st.Fields.List {
		if se, ok := fl.Type.(*ast.StarExpr); ok {
			if id, ok := se.X.(*ast.Ident); ok && !ast.IsExported(id.Name) && px.structOf(id.Name) != nil {
				return px.typeKey(id, 0)
			}
		}
	}
	return ""
}

// abbreviate the objects every path goes through, named by role
func (px *pkgIndex) abbreviate(l []string) []string {
	out := []string{}
	sk := px.scratchTypeKey()
	for _, s := range l {
		if sk != "" {
			s = strings.ReplaceAll(s, "*"+sk, "*scratch-struct")
		}
		s = strings.ReplaceAll(s, "recv:Circuit.<atomic.Pointer[sync.Pool]>.*.Get()", "SCRATCH")
		s = strings.ReplaceAll(s, "recv:Circuit.<atomic.Pointer[sync.Pool]>.*", "POOL")
		out = append(out, s)
	}
	return out
}

// ---------------------------------------------------------------- Put paths

// putPaths: abstract execution of the function that calls `.Get()` on the
// scratch pool: the number of `.Put(` calls executed on the way to each return
// (deferred Puts included), error returns and success returns separately.
// A return is an error return when its last result is not the literal nil.
type putState struct {
	n       int
	varying bool
}

type putAn struct {
	px        *pkgIndex
	errPuts   []int
	okPuts    []int
	undecided []string
	deferred  string // "", "always", "on-error"
	gets      int
}

func isCallTo(n ast.Node, method string) bool {
	ce, ok := n.(*ast.CallExpr)
	if !ok {
		return false
	}
	se, ok := ce.Fun.(*ast.SelectorExpr)
	return ok && se.Sel.Name == method
}

func (pa *putAn) countIn(n ast.Node, method string) int {
	c := 0
	ast.Inspect(n, func(n ast.Node) bool {
		if _, ok := n.(*ast.FuncLit); ok {
			return false
		}
		if isCallTo(n, method) {
			c++
		}
		if ce, ok := n.(*ast.CallExpr); ok {
			// a same-package callee that itself Puts
			var fd *ast.FuncDecl
			switch fn := ce.Fun.(type) {
			case *ast.Ident:
				fd = pa.px.funcs[fn.Name]
			case *ast.SelectorExpr:
				if ms := pa.px.methods[fn.Sel.Name]; len(ms) == 1 {
					fd = ms[0]
				}
			}
			if fd != nil && fd.Body != nil && pa.containsCall(fd.Body, method, 0) {
				pa.undecided = append(pa.undecided, "callee "+fd.Name.Name+" calls "+method)
			}
		}
		return true
	})
	return c
}

func (pa *putAn) containsCall(n ast.Node, method string, depth int) bool {
	found := false
	ast.Inspect(n, func(n ast.Node) bool {
		if isCallTo(n, method) {
			found = true
		}
		return !found
	})
	return found
}

// stmts returns the state after the list and whether control can fall through.
func (pa *putAn) stmts(list []ast.Stmt, st putState) (putState, bool) {
	for _, s := range list {
		var cont bool
		st, cont = pa.stmt(s, st)
		if !cont {
			return st, false
		}
	}
	return st, true
}

func (pa *putAn) stmt(s ast.Stmt, st putState) (putState, bool) {
	switch x := s.(type) {
	case *ast.ReturnStmt:
		n := st.n
		isErr := len(x.Results) > 0 && pa.px.fc.render(x.Results[len(x.Results)-1]) != "nil"
		if len(x.Results) == 0 {
			pa.undecided = append(pa.undecided, "bare return")
		}
		switch pa.deferred {
		case "always":
			n++
		case "on-error":
			if isErr {
				n++
			}
		}
		for _, r := range x.Results {
			n += pa.countIn(r, "Put")
		}
		if st.varying {
			pa.undecided = append(pa.undecided, "Put count depends on the path")
		}
		if isErr {
			pa.errPuts = append(pa.errPuts, n)
		} else {
			pa.okPuts = append(pa.okPuts, n)
		}
		return st, false
	case *ast.BlockStmt:
		return pa.stmts(x.List, st)
	case *ast.IfStmt:
		if x.Init != nil {
			st, _ = pa.stmt(x.Init, st)
		}
		st.n += pa.countIn(x.Cond, "Put")
		a, ca := pa.stmts(x.Body.List, st)
		b, cb := st, true
		if x.Else != nil {
			b, cb = pa.stmt(x.Else, st)
		}
		return joinPut(a, ca, b, cb)
	case *ast.ForStmt:
		if x.Init != nil {
			st, _ = pa.stmt(x.Init, st)
		}
		b, cb := pa.stmts(x.Body.List, st)
		if cb && (b.n != st.n || b.varying) {
			st.varying = true
		}
		return st, true
	case *ast.RangeStmt:
		b, cb := pa.stmts(x.Body.List, st)
		if cb && (b.n != st.n || b.varying) {
			st.varying = true
		}
		return st, true
	case *ast.SwitchStmt, *ast.TypeSwitchStmt, *ast.SelectStmt:
		var body *ast.BlockStmt
		switch y := x.(type) {
		case *ast.SwitchStmt:
			body = y.Body
		case *ast.TypeSwitchStmt:
			body = y.Body
		case *ast.SelectStmt:
			body = y.Body
		}
		out, cont := st, false
		first := true
		hasDefault := false
		for _, c := range body.List {
			var l []ast.Stmt
			switch cc := c.(type) {
			case *ast.CaseClause:
				l = cc.Body
				if cc.List == nil {
					hasDefault = true
				}
			case *ast.CommClause:
				l = cc.Body
			}
			b, cb := pa.stmts(l, st)
			if cb {
				if first {
					out, cont, first = b, true, false
				} else {
					out, cont = joinPut(out, true, b, true)
				}
			}
		}
		if !hasDefault {
			if first {
				return st, true
			}
			return joinPut(out, cont, st, true)
		}
		return out, cont
	case *ast.LabeledStmt:
		return pa.stmt(x.Stmt, st)
	case *ast.DeferStmt:
		if fl, ok := x.Call.Fun.(*ast.FuncLit); ok {
			if pa.containsCall(fl.Body, "Put", 0) {
				pa.deferred = "always"
				// `if err != nil { ...Put... }` as the only Put site
				if len(fl.Body.List) == 1 {
					if is, ok := fl.Body.List[0].(*ast.IfStmt); ok && is.Else == nil {
						c := pa.px.fc.render(is.Cond)
						if strings.HasSuffix(c, "!= nil") {
							pa.deferred = "on-error"
						}
					}
				}
			}
		} else if isCallTo(x.Call, "Put") {
			pa.deferred = "always"
		}
		return st, true
	case *ast.BranchStmt:
		// break / continue: leaves the enclosing loop body; treated as fallthrough of the body
		return st, true
	default:
		st.n += pa.countIn(s, "Put")
		pa.gets += pa.countIn(s, "Get")
		return st, true
	}
}

func joinPut(a putState, ca bool, b putState, cb bool) (putState, bool) {
	switch {
	case ca && cb:
		if a.n != b.n {
			a.varying = true
		}
		a.varying = a.varying || b.varying
		return a, true
	case ca:
		return a, true
	case cb:
		return b, true
	}
	return a, false
}

// closure of same-package callees of a function
func (px *pkgIndex) closure(fd *ast.FuncDecl) []*ast.FuncDecl {
	seen := map[*ast.FuncDecl]bool{}
	var order []*ast.FuncDecl
	var visit func(fd *ast.FuncDecl)
	visit = func(fd *ast.FuncDecl) {
		if fd == nil || fd.Body == nil || seen[fd] {
			return
		}
		seen[fd] = true
		order = append(order, fd)
		ast.Inspect(fd.Body, func(n ast.Node) bool {
			if ce, ok := n.(*ast.CallExpr); ok {
				switch fn := ce.Fun.(type) {
				case *ast.Ident:
					if fn.Obj == nil || fn.Obj.Kind == ast.Fun {
						visit(px.funcs[fn.Name])
					}
				case *ast.SelectorExpr:
					for _, m := range px.methods[fn.Sel.Name] {
						visit(m)
					}
				}
			}
			return true
		})
	}
	visit(fd)
	return order
}

func (px *pkgIndex) putPathFacts() map[string]any {
	entry := px.fc.findFunc("Circuit", "Garble")
	if entry == nil {
		return map[string]any{"missing": true}
	}
	var holder *ast.FuncDecl
	getSites := 0
	for _, fd := range px.closure(entry) {
		c := 0
		ast.Inspect(fd.Body, func(n ast.Node) bool {
			if isCallTo(n, "Get") {
				c++
			}
			return true
		})
		if c > 0 {
			getSites += c
			if holder == nil {
				holder = fd
			}
		}
	}
	res := map[string]any{"get_sites_in_closure_of_Garble": getSites}
	if holder == nil {
		res["undecided"] = []string{"no Get call found"}
		return res
	}
	pa := &putAn{px: px}
	st, cont := pa.stmts(holder.Body.List, putState{})
	_ = st
	if cont {
		pa.undecided = append(pa.undecided, "function end reachable without return")
	}
	// Puts in the closure outside the holder make the per-path count undecidable here
	for _, fd := range px.closure(entry) {
		if fd != holder && pa.containsCall(fd.Body, "Put", 0) {
			pa.undecided = append(pa.undecided, "Put in "+fd.Name.Name)
		}
	}
	sort.Ints(pa.errPuts)
	sort.Ints(pa.okPuts)
	res["holder_is_entry"] = holder == entry
	res["error_return_put_counts"] = uniqInts(pa.errPuts)
	res["success_return_put_counts"] = uniqInts(pa.okPuts)
	res["error_returns"] = len(pa.errPuts)
	res["success_returns"] = len(pa.okPuts)
	res["deferred_put"] = pa.deferred
	res["undecided"] = uniqStrings(pa.undecided)
	return res
}

func uniqInts(l []int) []int {
	res := []int{}
	for i, v := range l {
		if i == 0 || v != l[i-1] {
			res = append(res, v)
		}
	}
	return res
}

func uniqStrings(l []string) []string {
	sort.Strings(l)
	res := []string{}
	for i, v := range l {
		if i == 0 || v != l[i-1] {
			res = append(res, v)
		}
	}
	return res
}

// ---------------------------------------------------------------- Release

// releaseShape: the order of the effects of Garbled.Release, receiver named
// by type: the early-return guard, the Put, the cleared fields.
func (px *pkgIndex) releaseShape() map[string]any {
	fd := px.fc.findFunc("Garbled", "Release")
	if fd == nil || fd.Body == nil || len(fd.Recv.List[0].Names) == 0 {
		return map[string]any{"missing": true}
	}
	rn := fd.Recv.List[0].Names[0].Name
	norm := func(n ast.Node) string {
		s := " " + px.fc.render(n) + " "
		// receiver variable -> declared type
		var b strings.Builder
		for i := 0; i < len(s); {
			if strings.HasPrefix(s[i:], rn) && !isIdentChar(s[i-1]) && (i+len(rn) >= len(s) || !isIdentChar(s[i+len(rn)])) && i > 0 {
				b.WriteString("Garbled")
				i += len(rn)
				continue
			}
			b.WriteByte(s[i])
			i++
		}
		out := strings.TrimSpace(b.String())
		// unexported fields of the handle -> their type
		if st := px.structOf("Garbled"); st != nil {
			for _, fl := range st.Fields.List {
				for _, n := range fl.Names {
					if !ast.IsExported(n.Name) {
						out = replaceWord(out, "Garbled."+n.Name, "Garbled."+px.fieldLabel(st, n.Name))
					}
				}
			}
		}
		return out
	}
	res := map[string]any{}
	var guard []string
	putAt, firstClear := -1, -1
	puts := 0
	var putText string
	cleared := []string{}
	pos := 0
	var walk func(list []ast.Stmt, top bool)
	walk = func(list []ast.Stmt, top bool) {
		for _, s := range list {
			pos++
			switch x := s.(type) {
			case *ast.IfStmt:
				// guard: a condition whose body returns, before the Put
				if puts == 0 && len(x.Body.List) == 1 {
					if _, isRet := x.Body.List[0].(*ast.ReturnStmt); isRet && x.Else == nil {
						for _, d := range splitOr(x.Cond) {
							guard = append(guard, norm(d))
						}
						continue
					}
				}
				walk(x.Body.List, false)
				if b, ok := x.Else.(*ast.BlockStmt); ok {
					walk(b.List, false)
				}
			case *ast.ExprStmt:
				if isCallTo(x.X, "Put") {
					puts++
					putAt = pos
					putText = norm(x.X)
					if !top {
						putText = "conditional " + putText
					}
				}
			case *ast.AssignStmt:
				for i, l := range x.Lhs {
					if i < len(x.Rhs) && px.fc.render(x.Rhs[i]) == "nil" {
						if firstClear < 0 {
							firstClear = pos
						}
						cleared = append(cleared, norm(l))
					}
				}
			}
		}
	}
	walk(fd.Body.List, true)
	sort.Strings(guard)
	sort.Strings(cleared)
	ab := func(l []string) []string { return px.abbreviate(l) }
	guard, cleared = ab(guard), ab(cleared)
	putText = ab([]string{putText})[0]
	res["guard_returns_when"] = guard
	res["puts"] = puts
	res["put"] = putText
	res["put_before_clears"] = putAt >= 0 && (firstClear < 0 || putAt < firstClear)
	res["cleared_after_put"] = cleared
	return res
}

func replaceWord(s, old, new string) string {
	var b strings.Builder
	for i := 0; i < len(s); {
		if strings.HasPrefix(s[i:], old) && (i+len(old) >= len(s) || !isIdentChar(s[i+len(old)])) {
			b.WriteString(new)
			i += len(old)
			continue
		}
		b.WriteByte(s[i])
		i++
	}
	return b.String()
}

func isIdentChar(c byte) bool {
	return c == '_' || c >= '0' && c <= '9' || c >= 'a' && c <= 'z' || c >= 'A' && c <= 'Z'
}

func splitOr(e ast.Expr) []ast.Expr {
	if p, ok := e.(*ast.ParenExpr); ok {
		return splitOr(p.X)
	}
	if b, ok := e.(*ast.BinaryExpr); ok && b.Op == token.LOR {
		return append(splitOr(b.X), splitOr(b.Y)...)
	}
	return []ast.Expr{e}
}

// ---------------------------------------------------------------- pool field

// poolFieldOps: every operation applied to the field Circuit.garblePool
// anywhere in the package (method calls, plain reads and writes).
func (px *pkgIndex) poolFieldOps() []string {
	ops := map[string]bool{}
	fieldName, _ := px.poolField()
	if fieldName == "" {
		return []string{"<Circuit has no field whose type mentions sync.Pool>"}
	}
	for _, af := range px.fc.files {
		var stack []ast.Node
		ast.Inspect(af, func(n ast.Node) bool {
			if n == nil {
				stack = stack[:len(stack)-1]
				return true
			}
			stack = append(stack, n)
			se, ok := n.(*ast.SelectorExpr)
			if !ok || se.Sel.Name != fieldName {
				return true
			}
			op := "plain-access"
			if len(stack) >= 2 {
				if parent, ok := stack[len(stack)-2].(*ast.SelectorExpr); ok && parent.X == se {
					op = parent.Sel.Name
				} else if as, ok := stack[len(stack)-2].(*ast.AssignStmt); ok {
					for _, l := range as.Lhs {
						if l == ast.Expr(se) {
							op = "plain-write"
						}
					}
				}
			}
			ops[op] = true
			return true
		})
	}
	var res []string
	for k := range ops {
		res = append(res, k)
	}
	sort.Strings(res)
	return res
}

// newScratch: how the pool's New function builds a scratch: each field of the
// returned object with the allocation it is bound to and whether that
// allocation happens inside New (fresh per scratch) or is captured.
func (px *pkgIndex) newScratch() []string {
	res := []string{}
	for _, af := range px.fc.files {
		ast.Inspect(af, func(n ast.Node) bool {
			kv, ok := n.(*ast.KeyValueExpr)
			if !ok || px.fc.render(kv.Key) != "New" {
				return true
			}
			fl, ok := kv.Value.(*ast.FuncLit)
			if !ok {
				return true
			}
			res = append(res, px.newFields(fl)...)
			return true
		})
		ast.Inspect(af, func(n ast.Node) bool {
			as, ok := n.(*ast.AssignStmt)
			if !ok || len(as.Lhs) != 1 || len(as.Rhs) != 1 {
				return true
			}
			if se, ok := as.Lhs[0].(*ast.SelectorExpr); ok && se.Sel.Name == "New" {
				if fl, ok := as.Rhs[0].(*ast.FuncLit); ok {
					res = append(res, px.newFields(fl)...)
				}
			}
			return true
		})
	}
	sort.Strings(res)
	return res
}

func (px *pkgIndex) newFields(fl *ast.FuncLit) []string {
	var res []string
	inside := func(id *ast.Ident) ast.Expr {
		// defining expression of a local declared inside the literal
		if id.Obj == nil {
			return nil
		}
		if as, ok := id.Obj.Decl.(*ast.AssignStmt); ok && as.Pos() >= fl.Pos() && as.End() <= fl.End() {
			for i, l := range as.Lhs {
				if li, ok := l.(*ast.Ident); ok && li.Obj == id.Obj && i < len(as.Rhs) {
					return as.Rhs[i]
				}
			}
		}
		return nil
	}
	ast.Inspect(fl.Body, func(n ast.Node) bool {
		cl, ok := n.(*ast.CompositeLit)
		if !ok {
			return true
		}
		var cst *ast.StructType
		if id, isId := cl.Type.(*ast.Ident); isId {
			cst = px.structOf(id.Name)
		}
		if cst == nil {
			return true
		}
		for _, el := range cl.Elts {
			kv, ok := el.(*ast.KeyValueExpr)
			if !ok {
				continue
			}
			v := kv.Value
			where := "inside-New"
			if id, ok := v.(*ast.Ident); ok {
				if d := inside(id); d != nil {
					v = d
				} else {
					where = "captured"
				}
			}
			how := "?"
			if ce, ok := v.(*ast.CallExpr); ok {
				how = px.fc.render(ce.Fun)
			}
			res = append(res, px.fieldLabel(cst, px.fc.render(kv.Key))+"="+how+"@"+where)
		}
		return true
	})
	return res
}

// ---------------------------------------------------------------- light types

var extRefTypes = map[string]bool{"cipher.Block": true, "io.Reader": true, "io.Writer": true, "error": true, "any": true}

func stripPtr(t ast.Expr) ast.Expr {
	for {
		switch x := t.(type) {
		case *ast.StarExpr:
			t = x.X
		case *ast.ParenExpr:
			t = x.X
		default:
			return t
		}
	}
}

// isValue: a variable of this declared type holds a copy (no alias).  Unknown
// types (nil) are treated as possibly aliasing.
func (f *frame) isValue(t ast.Expr) bool {
	if t == nil {
		return false
	}
	px := f.an.px
	switch x := t.(type) {
	case *ast.Ident:
		if _, ok := px.types[x.Name]; ok {
			return !px.refLike(x)
		}
		return !extRefTypes[x.Name]
	case *ast.SelectorExpr:
		return !extRefTypes[px.fc.render(x)]
	case *ast.ArrayType:
		return x.Len != nil
	case *ast.StructType:
		return true
	}
	return false
}

// under: underlying type expression of a package-declared named type
func (f *frame) under(t ast.Expr) ast.Expr {
	t = stripPtr(t)
	for i := 0; i < 4; i++ {
		id, ok := t.(*ast.Ident)
		if !ok {
			break
		}
		ts, ok := f.an.px.types[id.Name]
		if !ok {
			break
		}
		t = stripPtr(ts.Type)
	}
	return t
}

func (f *frame) elem(t ast.Expr) ast.Expr {
	switch x := f.under(t).(type) {
	case *ast.ArrayType:
		return x.Elt
	case *ast.MapType:
		return x.Value
	case *ast.Ellipsis:
		return x.Elt
	}
	return nil
}

func (f *frame) fieldType(t ast.Expr, name string) ast.Expr {
	if st, ok := f.under(t).(*ast.StructType); ok {
		for _, fl := range st.Fields.List {
			for _, n := range fl.Names {
				if n.Name == name {
					return fl.Type
				}
			}
		}
	}
	return nil
}

func resultType(fd *ast.FuncDecl, i int) ast.Expr {
	if fd == nil || fd.Type.Results == nil {
		return nil
	}
	k := 0
	for _, r := range fd.Type.Results.List {
		n := len(r.Names)
		if n == 0 {
			n = 1
		}
		if i < k+n {
			return r.Type
		}
		k += n
	}
	return nil
}

func (f *frame) callResultType(ce *ast.CallExpr, i int) ast.Expr {
	px := f.an.px
	switch fn := ce.Fun.(type) {
	case *ast.Ident:
		if fd, ok := px.funcs[fn.Name]; ok {
			return resultType(fd, i)
		}
		if fn.Name == "make" && len(ce.Args) > 0 {
			return ce.Args[0]
		}
		if fn.Name == "new" && len(ce.Args) > 0 {
			return &ast.StarExpr{X: ce.Args[0]}
		}
		if _, ok := px.types[fn.Name]; ok && i == 0 {
			return fn // conversion
		}
	case *ast.SelectorExpr:
		if c := f.methodCands(fn); len(c) == 1 {
			return resultType(c[0], i)
		}
	}
	return nil
}

func (f *frame) typeOf(e ast.Expr) ast.Expr {
	switch x := e.(type) {
	case *ast.Ident:
		if x.Obj == nil {
			return nil
		}
		switch d := x.Obj.Decl.(type) {
		case *ast.Field:
			if el, ok := d.Type.(*ast.Ellipsis); ok {
				return &ast.ArrayType{Elt: el.Elt}
			}
			return d.Type
		case *ast.ValueSpec:
			if d.Type != nil {
				return d.Type
			}
			for i, n := range d.Names {
				if n.Obj == x.Obj && i < len(d.Values) {
					return f.typeOf(d.Values[i])
				}
			}
		case *ast.AssignStmt:
			for i, l := range d.Lhs {
				if li, ok := l.(*ast.Ident); ok && li.Obj == x.Obj {
					if len(d.Lhs) == len(d.Rhs) {
						return f.typeOf(d.Rhs[i])
					}
					if len(d.Rhs) == 1 {
						if ce, ok := d.Rhs[0].(*ast.CallExpr); ok {
							return f.callResultType(ce, i)
						}
						if ta, ok := d.Rhs[0].(*ast.TypeAssertExpr); ok && i == 0 {
							return ta.Type
						}
					}
				}
			}
		case *ast.RangeStmt:
			if v, ok := d.Value.(*ast.Ident); ok && v.Obj == x.Obj {
				return f.elem(f.typeOf(d.X))
			}
		}
		return nil
	case *ast.ParenExpr:
		return f.typeOf(x.X)
	case *ast.StarExpr:
		return f.typeOf(x.X)
	case *ast.UnaryExpr:
		if x.Op == token.AND {
			if t := f.typeOf(x.X); t != nil {
				return &ast.StarExpr{X: t}
			}
		}
		return nil
	case *ast.SelectorExpr:
		if t := f.typeOf(x.X); t != nil {
			return f.fieldType(t, x.Sel.Name)
		}
		return nil
	case *ast.IndexExpr:
		return f.elem(f.typeOf(x.X))
	case *ast.SliceExpr:
		return f.typeOf(x.X)
	case *ast.TypeAssertExpr:
		return x.Type
	case *ast.CompositeLit:
		return x.Type
	case *ast.CallExpr:
		return f.callResultType(x, 0)
	}
	return nil
}

// methodCands: the same-package methods a call X.M may reach.  When the
// declared type of X is known: the methods of that type (none when the type
// belongs to another package); otherwise every method of that name.
func (f *frame) methodCands(fun *ast.SelectorExpr) []*ast.FuncDecl {
	px := f.an.px
	all := px.methods[fun.Sel.Name]
	if len(all) == 0 {
		return nil
	}
	t := f.typeOf(fun.X)
	if t == nil {
		return all
	}
	switch x := stripPtr(t).(type) {
	case *ast.Ident:
		if _, ok := px.types[x.Name]; !ok {
			return nil // builtin / type parameter
		}
		var res []*ast.FuncDecl
		for _, m := range all {
			if recvTypeName(m) == x.Name {
				res = append(res, m)
			}
		}
		return res
	case *ast.SelectorExpr, *ast.IndexExpr, *ast.IndexListExpr, *ast.ArrayType, *ast.MapType, *ast.InterfaceType:
		return nil
	}
	return all
}

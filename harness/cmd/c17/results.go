package main

// Mode `rhist`: RESULT histories on one shared circuit.
//
// "Each call returns the same correct result it returns when run alone": the
// result is a VALUE the caller owns.  The stress rounds compare every result
// the moment the call returns; this mode keeps the returned objects (the
// []*big.Int of Compute, never copied; the label vector Eval filled in) and
// re-reads them after LATER calls on the same circuit value, by the same and by
// other goroutines, over circuits whose outputs are wider than one machine
// word (1..4 outputs of 1..1000 bits, widths around the multiples of 32/64).
// One case = one circuit and one history:
//
//	C  goroutine 0 calls Compute on a fresh input and keeps the result
//	V  a kept result is re-read: against the snapshot (text) taken when its call
//	   returned and against the harness's reference evaluation of that input
//	P  1..4 goroutines call Compute concurrently (1..4 calls each, own inputs),
//	   re-read their own kept results between calls; everything they keep is
//	   handed to goroutine 0 afterwards
//	E  Garble + Eval on a caller-owned label vector, the vector kept and re-read
//	K  forced collection          F  re-read of everything kept
//
// Op line (the Lean model runs Compute as a pure function returning a fresh
// value, Model/PoolResult.lean):
//
//	c17 rhist <numWires> <nIn> <nOut> <gates> <w1,w2,..> C:<t>:<k>:<bits> V:<t>:<k> ...
//
// result line: what the real objects show at each step, `C<k>=<hex>,..` at the
// return of call k, `V<k>=<hex>,..` at a later re-read.

import (
	"fmt"
	"math/big"
	"runtime"
	"sort"
	"strings"
	"sync"

	"github.com/markkurossi/mpc/circuit"
	"github.com/markkurossi/mpc/ot"

	"verifharness/hxlib"
)

type keptRes struct {
	id   int
	t    int
	x    []bool
	outs []*big.Int // as returned by Compute: NOT copied
	snap string     // text of the values when the call returned
	want string     // the harness's reference evaluation
}

type keptEval struct {
	ws []ot.Label
	d  uint64
}

type resEvent struct {
	seq  uint64
	text string // op token
	res  string // result token
}

type resCase struct {
	rd      *round
	widths  []int
	mu      sync.Mutex
	evs     []resEvent
	nextID  int
	calls   int
	rereads int
}

func valuesText(v []*big.Int) string {
	p := make([]string, len(v))
	for i, x := range v {
		if x == nil {
			p[i] = "nil"
		} else {
			p[i] = x.Text(16)
		}
	}
	return strings.Join(p, ",")
}

// refText: the outputs the reference evaluator gives for input x, in the same
// text form.
func (rc *resCase) refText(x []bool) string {
	c := rc.rd.c
	ref := hxlib.RefEval(c, x)
	w := c.NumWires - c.Outputs.Size()
	p := make([]string, len(rc.widths))
	for i, n := range rc.widths {
		p[i] = bitsToBig(ref[w : w+n]).Text(16)
		w += n
	}
	return strings.Join(p, ",")
}

func (rc *resCase) log(text, res string) {
	seq := rc.rd.seq.Add(1)
	rc.mu.Lock()
	rc.evs = append(rc.evs, resEvent{seq, text, res})
	rc.mu.Unlock()
}

// wideWidths: 1..4 output widths, biased to both sides of the multiples of the
// machine word and its half.
func wideWidths(r *hxlib.Rng) []int {
	edges := []int{1, 2, 7, 8, 31, 32, 33, 63, 64, 65, 66, 95, 96, 97, 127, 128, 129, 130, 191, 192, 193, 255, 256, 257, 320, 511, 512, 513, 1000}
	n := 1 + r.Intn(4)
	ws := make([]int, n)
	for i := range ws {
		switch r.Intn(4) {
		case 0:
			ws[i] = 1 + r.Intn(300)
		default:
			ws[i] = edges[r.Intn(len(edges))]
		}
	}
	return ws
}

// genWideCircuit: random body, then one output layer of sum(widths) gates, most
// of them depending on an input wire so that different inputs give different
// outputs in every word.
func genWideCircuit(r *hxlib.Rng, widths []int, body int) *circuit.Circuit {
	n0, n1 := 1+r.Intn(40), 1+r.Intn(40)
	nin := n0 + n1
	var gates []circuit.Gate
	var stats circuit.Stats
	next := nin
	add := func(op circuit.Operation, a, b int) {
		g := circuit.Gate{Input0: circuit.Wire(a), Input1: circuit.Wire(b), Output: circuit.Wire(next), Op: op}
		if op == circuit.INV {
			g.Input1 = 0
		}
		gates = append(gates, g)
		stats[op]++
		next++
	}
	for i := 0; i < body; i++ {
		add(circuit.Operation(r.Intn(5)), r.Intn(next), r.Intn(next))
	}
	mid := next
	total := 0
	for _, w := range widths {
		total += w
	}
	for i := 0; i < total; i++ {
		switch r.Intn(8) {
		case 0:
			add(circuit.Operation(r.Intn(5)), r.Intn(mid), r.Intn(mid))
		case 1:
			add(circuit.INV, r.Intn(nin), 0)
		case 2:
			add(circuit.XNOR, r.Intn(nin), r.Intn(mid))
		default:
			add(circuit.XOR, r.Intn(nin), r.Intn(mid))
		}
	}
	outs := make(circuit.IO, len(widths))
	for i, w := range widths {
		outs[i] = hxlib.UintIO(fmt.Sprintf("r%d", i), w)
	}
	return &circuit.Circuit{NumGates: len(gates), NumWires: next,
		Inputs: circuit.IO{hxlib.UintIO("a", n0), hxlib.UintIO("b", n1)}, Outputs: outs, Gates: gates, Stats: stats}
}

func randInput(r *hxlib.Rng, n int) []bool {
	x := make([]bool, n)
	switch r.Intn(5) {
	case 0: // all ones
		for i := range x {
			x[i] = true
		}
	case 1: // sparse
		for i := range x {
			x[i] = r.Intn(8) == 0
		}
	default:
		for i := range x {
			x[i] = r.Bool()
		}
	}
	return x
}

// call: one Compute by goroutine t; the returned objects are kept as they are.
func (rc *resCase) call(t int, r *hxlib.Rng) *keptRes {
	rd := rc.rd
	c := rd.c
	x := randInput(r, c.Inputs.Size())
	n0 := int(c.Inputs[0].Type.Bits)
	outs, err := c.Compute([]*big.Int{bitsToBig(x[:n0]), bitsToBig(x[n0:])})
	rc.mu.Lock()
	id := rc.nextID
	rc.nextID++
	rc.calls++
	rc.mu.Unlock()
	if err != nil || len(outs) != len(rc.widths) {
		rd.fail("c17-compute-error", map[string]any{"t": t, "call": id, "err": fmt.Sprint(err), "results": len(outs)})
		return nil
	}
	k := &keptRes{id: id, t: t, x: x, outs: outs, snap: valuesText(outs), want: rc.refText(x)}
	rc.log(fmt.Sprintf("C:%d:%d:%s", t, id, hxlib.BitsString(x)), fmt.Sprintf("C%d=%s", id, k.snap))
	if k.snap != k.want {
		rd.fail("c17-compute-result", map[string]any{"t": t, "call": id, "input": hxlib.BitsString(x),
			"got": clipText(k.snap), "want": clipText(k.want), "output_widths": fmt.Sprint(rc.widths),
			"what": "Compute returned a result different from the reference evaluation of its input"})
	}
	return k
}

func clipText(s string) string {
	if len(s) > 400 {
		return s[:400] + "..."
	}
	return s
}

// reread: the kept objects of call k read again by goroutine t.
func (rc *resCase) reread(t int, k *keptRes, callsSince int) {
	now := valuesText(k.outs)
	rc.log(fmt.Sprintf("V:%d:%d", t, k.id), fmt.Sprintf("V%d=%s", k.id, now))
	rc.mu.Lock()
	rc.rereads++
	rc.mu.Unlock()
	if now != k.snap || now != k.want {
		var which []string
		a, b := strings.Split(now, ","), strings.Split(k.snap, ",")
		for i := range a {
			if i < len(b) && a[i] != b[i] {
				which = append(which, fmt.Sprintf("#%d(%d bits)", i, rc.widths[i]))
			}
		}
		rc.rd.fail("c17-compute-result-changed", map[string]any{"t": t, "call": k.id, "called_by": k.t,
			"input": hxlib.BitsString(k.x), "now": clipText(now), "at_return": clipText(k.snap),
			"reference": clipText(k.want), "outputs_changed": strings.Join(which, " "),
			"output_widths": fmt.Sprint(rc.widths), "compute_calls_since_on_this_circuit": callsSince,
			"what": "the value of a result returned by Compute (the returned *big.Int objects, kept by the caller) " +
				"changed after later Compute calls on the same circuit value"})
	}
}

func genResHistory(r *hxlib.Rng) []gcStep {
	var h []gcStep
	phases := 2 + r.Intn(3)
	for p := 0; p < phases; p++ {
		for k := 1 + r.Intn(3); k > 0; k-- {
			h = append(h, gcStep{'C', 0, 0})
			if r.Intn(3) == 0 {
				h = append(h, gcStep{'V', r.Intn(1 << 16), 0})
			}
		}
		if r.Intn(3) == 0 {
			h = append(h, gcStep{'E', 0, 0})
		}
		if r.Intn(5) == 0 {
			h = append(h, gcStep{'K', 1, 0})
		}
		if r.Intn(2) == 0 {
			h = append(h, gcStep{'P', 1 + r.Intn(4), 1 + r.Intn(4)})
		}
		for k := 1 + r.Intn(2); k > 0; k-- {
			h = append(h, gcStep{'V', r.Intn(1 << 16), 0})
		}
	}
	h = append(h, gcStep{'C', 0, 0}, gcStep{'F', 0, 0})
	return h
}

func renderResHistory(h []gcStep) string {
	var sb strings.Builder
	for i, s := range h {
		if i > 0 {
			sb.WriteByte(' ')
		}
		switch s.op {
		case 'V':
			fmt.Fprintf(&sb, "V(sel=%d)", s.a)
		case 'P':
			fmt.Fprintf(&sb, "P(calls=%d,goroutines=%d)", s.a, s.b)
		default:
			sb.WriteByte(s.op)
		}
	}
	return sb.String()
}

func resMain(args []string) int {
	cf, o := hxlib.ParseCommon("c17", args, nil)
	defer o.Close()
	rng := hxlib.NewRng(cf.Seed*0x9e3779b97f4a7c15 ^ 0x7268697374) // "rhist": own stream, decorrelated between seeds
	for i := 0; i < cf.N; i++ {
		r := rng.Fork()
		if cf.Only >= 0 && i != cf.Only {
			continue
		}
		runResCase(o, cf, r, i)
	}
	return 0
}

func runResCase(o *hxlib.Out, cf *hxlib.CommonFlags, r *hxlib.Rng, idx int) {
	procs := []int{1, 0, 2, 1}[idx%4]
	widths := wideWidths(r)
	if idx%8 == 7 { // control: everything narrow
		for i := range widths {
			widths[i] = 1 + r.Intn(64)
		}
	}
	c := genWideCircuit(r, widths, []int{0, 10, 60, 200}[r.Intn(4)])
	rd := &round{idx: idx, kind: fmt.Sprintf("res-procs%d", procs), c: c, seed: cf.Seed, n: cf.N, mode: "rhist"}
	rd.def = definedWires(c)
	hist := genResHistory(r)
	rd.hist = fmt.Sprintf("output widths %v, %d+%d input bits, %d gates: %s", widths, c.Inputs[0].Type.Bits,
		c.Inputs[1].Type.Bits, len(c.Gates), renderResHistory(hist))
	rc := &resCase{rd: rd, widths: widths}
	if procs > 0 {
		prev := runtime.GOMAXPROCS(procs)
		defer runtime.GOMAXPROCS(prev)
	}
	var kept []*keptRes
	var keptE []*keptEval
	r0 := r.Fork()
	guard := func(t int, f func()) {
		defer func() {
			if e := recover(); e != nil {
				buf := make([]byte, 2048)
				n := runtime.Stack(buf, false)
				rd.fail("c17-panic", map[string]any{"t": t, "panic": fmt.Sprint(e), "stack": string(buf[:n])})
			}
		}()
		f()
	}
	rereadAll := func() {
		for _, k := range kept {
			rc.reread(0, k, rc.nextID-1-k.id)
		}
		for _, e := range keptE {
			if digestLabels(e.ws, rd.def) != e.d {
				rd.fail("c17-eval-result-changed", map[string]any{"t": 0,
					"what": "the label vector filled in by Eval (owned by the caller) changed after later calls"})
			}
		}
	}
	guard(0, func() {
		for _, st := range hist {
			switch st.op {
			case 'C':
				if k := rc.call(0, r0); k != nil {
					kept = append(kept, k)
				}
			case 'V':
				if len(kept) > 0 {
					k := kept[st.a%len(kept)]
					rc.reread(0, k, rc.nextID-1-k.id)
				}
			case 'K':
				runtime.GC()
			case 'E':
				nin := c.Inputs.Size()
				key := r0.Bytes(16)
				g, err := c.Garble(&hxlib.Tape{Data: r0.Bytes(16 * (1 + nin))}, key)
				if err != nil {
					rd.fail("c17-garble-error", map[string]any{"t": 0, "err": err.Error()})
					break
				}
				x := randInput(r0, nin)
				ws := make([]ot.Label, c.NumWires)
				for i := 0; i < nin; i++ {
					ws[i] = circuit.LabelForBit(g.Wires[i], x[i])
				}
				if err := c.Eval(key, ws, g.Gates); err != nil {
					rd.fail("c17-eval-error", map[string]any{"t": 0, "err": err.Error()})
					break
				}
				ref := hxlib.RefEval(c, x)
				for wi := c.NumWires - c.Outputs.Size(); wi < c.NumWires; wi++ {
					if b, err := circuit.BitFromLabel(g.Wires[wi], ws[wi]); err != nil || b != ref[wi] {
						rd.fail("c17-eval-decode", map[string]any{"t": 0, "wire": wi})
						break
					}
				}
				keptE = append(keptE, &keptEval{ws: ws, d: digestLabels(ws, rd.def)})
				g.Release()
				o.Count("res_evals_kept")
			case 'P':
				var wg sync.WaitGroup
				var mu sync.Mutex
				for t := 1; t <= st.b; t++ {
					rt := r0.Fork()
					wg.Add(1)
					go func(t int) {
						defer wg.Done()
						guard(t, func() {
							var mine []*keptRes
							for i := 0; i < st.a; i++ {
								if k := rc.call(t, rt); k != nil {
									mine = append(mine, k)
								}
								if rt.Bool() {
									runtime.Gosched()
								}
								for _, k := range mine {
									rc.reread(t, k, 0)
								}
							}
							mu.Lock()
							kept = append(kept, mine...)
							mu.Unlock()
						})
					}(t)
				}
				wg.Wait()
				sort.Slice(kept, func(i, j int) bool { return kept[i].id < kept[j].id })
				o.Count("res_parallel_bursts")
			case 'F':
				rereadAll()
			}
		}
	})
	// op line: the events in their logged order
	sort.Slice(rc.evs, func(i, j int) bool { return rc.evs[i].seq < rc.evs[j].seq })
	var ops, res strings.Builder
	ws := make([]string, len(widths))
	wide := 0
	for i, w := range widths {
		ws[i] = fmt.Sprint(w)
		if w > 64 {
			wide++
		}
	}
	fmt.Fprintf(&ops, "c17 rhist %s %s", hxlib.CircLine(c), strings.Join(ws, ","))
	res.WriteString("ok")
	for _, e := range rc.evs {
		ops.WriteByte(' ')
		ops.WriteString(e.text)
		res.WriteByte(' ')
		res.WriteString(e.res)
	}
	o.Op(ops.String(), res.String())
	for _, f := range rd.fails {
		o.Fail(f["sig"].(string), f)
	}
	o.Count("res_cases")
	o.Count("res_kind_" + rd.kind)
	o.CountN("res_compute_calls", rc.calls)
	o.CountN("res_rereads_of_kept_results", rc.rereads)
	o.CountN("res_outputs_wider_than_64", wide)
	if wide > 0 {
		o.Count("res_cases_with_wide_output")
	}
	if idx < 2 {
		o.Sample(map[string]any{"case": idx, "history": rd.hist})
	}
	runtime.KeepAlive(kept)
}

// Harness of property C15, carry-less multiplication: the real ot.mul128 (the
// CLMUL assembly on amd64), mul128Generic, mul128Ref, clmul64 and
// vectorInnPrdtSumNoRed through the hook file ot/verif_export_c15.go
// (build tag verif) on structured + random operands.
//
//	c15mul mul   op lines `c15 mul <a> <b>`, `c15 clmul <a> <b>`,
//	             `c15 inner <as> <bs>` for the Lean model; in-process oracle:
//	             mul128 = mul128Generic = mul128Ref = the harness's own
//	             shift-and-xor product, bilinearity and no-zero-divisor spot checks.
package main

import (
	"fmt"
	"os"
	"strings"

	"github.com/markkurossi/mpc/ot"

	"verifharness/hxlib"
)

func main() {
	if len(os.Args) < 2 || os.Args[1] != "mul" {
		fmt.Fprintln(os.Stderr, "usage: c15mul mul [flags]")
		os.Exit(2)
	}
	os.Exit(mulMode(os.Args[2:]))
}

func lhex(l ot.Label) string {
	var d ot.LabelData
	l.GetData(&d)
	return hxlib.Hex(d[:])
}

func labelsHex(ls []ot.Label) string {
	if len(ls) == 0 {
		return "-"
	}
	var sb strings.Builder
	for _, l := range ls {
		sb.WriteString(lhex(l))
	}
	return sb.String()
}

// own: the harness's own product (schoolbook over Label.Bit).
func own(a, b ot.Label) (lo, hi ot.Label) {
	var r [256]bool
	for i := 0; i < 128; i++ {
		if b.Bit(i) == 0 {
			continue
		}
		for j := 0; j < 128; j++ {
			if a.Bit(j) == 1 {
				r[i+j] = !r[i+j]
			}
		}
	}
	for k := 0; k < 128; k++ {
		if r[k] {
			lo.SetBit(k, 1)
		}
		if r[128+k] {
			hi.SetBit(k, 1)
		}
	}
	return
}

func bit(i int) ot.Label {
	var l ot.Label
	l.SetBit(i, 1)
	return l
}

func structured(r *hxlib.Rng) ot.Label {
	switch r.Intn(10) {
	case 0:
		return ot.Label{}
	case 1:
		return ot.Label{D0: ^uint64(0), D1: ^uint64(0)}
	case 2:
		return bit(r.Intn(128))
	case 3:
		return bit([]int{0, 1, 62, 63, 64, 65, 126, 127}[r.Intn(8)])
	case 4:
		return ot.Label{D0: r.U64()}
	case 5:
		return ot.Label{D1: r.U64()}
	case 6:
		l := bit(r.Intn(128))
		l.Xor(bit(r.Intn(128)))
		return l
	case 7:
		// a run of ones
		var l ot.Label
		s, n := r.Intn(128), 1+r.Intn(64)
		for i := s; i < s+n && i < 128; i++ {
			l.SetBit(i, 1)
		}
		return l
	default:
		return ot.Label{D0: r.U64(), D1: r.U64()}
	}
}

func mulMode(args []string) int {
	cf, o := hxlib.ParseCommon("mul", args, nil)
	defer o.Close()
	rng := hxlib.NewRng(cf.Seed)
	eq := func(a, b ot.Label) bool { return a.Equal(b) }
	for i := 0; i < cf.N; i++ {
		r := rng.Fork()
		if cf.Only >= 0 && i != cf.Only {
			continue
		}
		switch {
		case i%10 < 6:
			var a, b ot.Label
			if i < 400 {
				a, b = structured(r), structured(r)
			} else {
				a, b = ot.Label{D0: r.U64(), D1: r.U64()}, ot.Label{D0: r.U64(), D1: r.U64()}
			}
			if i < 128 {
				a, b = bit(i), bit(127-i/2)
			}
			lo, hi := ot.VerifMul128(a, b)
			glo, ghi := ot.VerifMul128Generic(a, b)
			rlo, rhi := ot.VerifMul128Ref(a, b)
			olo, ohi := own(a, b)
			o.Count("mul_cases")
			if !eq(lo, glo) || !eq(hi, ghi) {
				o.Fail("c15-mul-asm-vs-generic", map[string]any{"case": i, "seed": cf.Seed, "a": a.String(), "b": b.String(),
					"mul128": lhex(lo) + lhex(hi), "generic": lhex(glo) + lhex(ghi)})
			}
			if !eq(lo, rlo) || !eq(hi, rhi) || !eq(lo, olo) || !eq(hi, ohi) {
				o.Fail("c15-mul-vs-reference", map[string]any{"case": i, "seed": cf.Seed, "a": a.String(), "b": b.String(),
					"mul128": lhex(lo) + lhex(hi), "ref": lhex(rlo) + lhex(rhi), "own": lhex(olo) + lhex(ohi)})
			}
			// bilinearity and zero-divisor spot checks on the real function
			c := structured(r)
			ac := a
			ac.Xor(c)
			l1, h1 := ot.VerifMul128(ac, b)
			l2, h2 := ot.VerifMul128(c, b)
			l2.Xor(lo)
			h2.Xor(hi)
			if !eq(l1, l2) || !eq(h1, h2) {
				o.Fail("c15-mul-not-bilinear", map[string]any{"case": i, "seed": cf.Seed, "a": a.String(), "b": b.String(),
					"c": c.String()})
			}
			zero := ot.Label{}
			if !eq(a, zero) && !eq(b, zero) && eq(lo, zero) && eq(hi, zero) {
				o.Fail("c15-mul-zero-divisor", map[string]any{"case": i, "seed": cf.Seed, "a": a.String(), "b": b.String()})
			}
			o.Op(fmt.Sprintf("c15 mul %s %s", lhex(a), lhex(b)), lhex(lo)+lhex(hi))
		case i%10 < 8:
			a, b := r.U64(), r.U64()
			switch r.Intn(6) {
			case 0:
				a = 1 << uint(r.Intn(64))
			case 1:
				b = 1 << uint(r.Intn(64))
			case 2:
				a, b = ^uint64(0), ^uint64(0)
			case 3:
				b = 0
			}
			lo, hi := ot.VerifClmul64(a, b)
			o.Count("clmul_cases")
			o.Op(fmt.Sprintf("c15 clmul %016x %016x", a, b), fmt.Sprintf("%016x%016x", lo, hi))
		default:
			na, nb := r.Intn(12), r.Intn(12)
			if r.Intn(2) == 0 {
				nb = na
			}
			if i%50 == 9 {
				// the lengths the consistency check uses (256-label check
				// batch, 1024-label blocks) and their neighbours
				na = []int{255, 256, 257, 258, 259, 260, 511, 1023, 1024, 1025}[r.Intn(10)]
				nb = na + r.Intn(3)
				o.Count("inner_cases_long")
			}
			as := make([]ot.Label, na)
			bs := make([]ot.Label, nb)
			for j := range as {
				as[j] = structured(r)
			}
			for j := range bs {
				bs[j] = structured(r)
			}
			lo, hi := ot.VerifVectorInnPrdtSumNoRed(as, bs)
			o.Count("inner_cases")
			if na != nb {
				o.Count("inner_cases_unequal_lengths")
			}
			o.Op(fmt.Sprintf("c15 inner %s %s", labelsHex(as), labelsHex(bs)), lhex(lo)+lhex(hi))
		}
	}
	return 0
}

package main

// EXTREME-SHAPE programs.  The property quantifies over every program; the
// widths of the compiler's internal counters (gate levels, wire ids, gate
// counts, fan-out counters) are boundaries of that quantifier that no
// "ordinary" generated program comes near.  This file generates, from the
// seed, programs whose COMPILED circuits cross those boundaries:
//
//   DEEP    dependent chains whose circuit is more than 2^16 (thorough: 2^17)
//           levels deep under the GMW target (the only target whose gates
//           Compile sorts by level) and/or under the Yao target;
//   WIDE    more than 2^16 gates on one level, more than 2^16 wires;
//   FAN-OUT one wire read by more than 2^16 gates.
//
// Sizes are not assumed: every class is CALIBRATED against the compiler under
// test (two small instances are compiled and measured, the parameter is
// extrapolated), and the dimensions actually reached are measured on the
// compiled circuit in unbounded arithmetic (shapeOf) and reported; the check
// script obliges that every dimension was crossed.
//
// Each extreme program then goes through the same pipeline as every other
// program (runProgram): all configurations compiled by the real compiler,
// structural oracle, bit-parallel simulation against the base configuration
// (corner vectors, CORRELATED vectors - see correlatedWords - and random
// vectors), proved checker / pass models / sort models where the circuit is
// small enough for the Lean driver.

import (
	"fmt"
	"os"
	"sort"
	"strings"
	"time"

	"github.com/markkurossi/mpc/circuit"
	"github.com/markkurossi/mpc/compiler/utils"

	"verifharness/hxlib"
)

// shapeOf measures the extreme dimensions of a compiled circuit in unbounded
// (Go int) arithmetic, independent of any counter of the compiler: depth
// (longest path = number of Yao levels), widest level, wires, gates and the
// largest fan-out of a wire.  The walk is in gate order and therefore
// meaningful for a topologically ordered circuit only (wellFormed is checked
// separately).
type shape struct {
	Gates  int `json:"gates"`
	Wires  int `json:"wires"`
	Depth  int `json:"depth"`
	Width  int `json:"width"`
	Fanout int `json:"fanout"`
}

func shapeOf(c *circuit.Circuit) shape {
	lv := make([]int32, c.NumWires)
	fo := make([]int32, c.NumWires)
	depth := 0
	for i := range c.Gates {
		g := &c.Gates[i]
		if int(g.Input0) >= c.NumWires || int(g.Output) >= c.NumWires || (g.Op != circuit.INV && int(g.Input1) >= c.NumWires) {
			return shape{Gates: len(c.Gates), Wires: c.NumWires}
		}
		l := lv[g.Input0]
		fo[g.Input0]++
		if g.Op != circuit.INV {
			fo[g.Input1]++
			if lv[g.Input1] > l {
				l = lv[g.Input1]
			}
		}
		lv[g.Output] = l + 1
		if int(l)+1 > depth {
			depth = int(l) + 1
		}
	}
	cnt := make([]int32, depth+1)
	for i := range c.Gates {
		cnt[lv[c.Gates[i].Output]]++
	}
	s := shape{Gates: len(c.Gates), Wires: c.NumWires, Depth: depth}
	for _, n := range cnt {
		if int(n) > s.Width {
			s.Width = int(n)
		}
	}
	for _, n := range fo {
		if int(n) > s.Fanout {
			s.Fanout = int(n)
		}
	}
	return s
}

// xprog: one extreme-shape program.
type xprog struct {
	class  string
	param  string // the calibrated parameter, for the report
	target int    // the boundary the class aims beyond (0 = none)
	dim    string // the dimension it aims at: depth-gmw, depth-yao, width, fanout
}

var xGMW = config{"gmw-prune1", true, utils.TargetGMW, 0}
var xYao = config{"yao-thr0-prune1", true, utils.TargetYao, 0}

// measure compiles src for cfg and returns the named dimension.
func measure(src string, cfg config, dim string) (int, bool) {
	r := compileReal(src, cfg)
	if r.circ == nil {
		return 0, false
	}
	s := shapeOf(r.circ)
	switch dim {
	case "depth":
		return s.Depth, true
	case "width":
		return s.Width, true
	case "fanout":
		return s.Fanout, true
	}
	return s.Gates, true
}

// calibrate finds the parameter n for which mk(n) reaches `goal` in the
// dimension `dim` under cfg, from two small instances (the dimension is
// affine in n for every class below).  ok=false: the class cannot be
// calibrated (compile failure or the dimension does not grow).
func calibrate(mk func(n int) string, cfg config, dim string, n1, n2, goal, nmax int) (int, bool) {
	d1, ok1 := measure(mk(n1), cfg, dim)
	d2, ok2 := measure(mk(n2), cfg, dim)
	if !ok1 || !ok2 || d2 <= d1 {
		return 0, false
	}
	// d(n) = d1 + (n-n1)*(d2-d1)/(n2-n1)
	num := (goal - d1) * (n2 - n1)
	den := d2 - d1
	n := n1 + (num+den-1)/den
	if n < n2 {
		n = n2
	}
	if n > nmax {
		return 0, false
	}
	return n, true
}

var xCmpOps = []string{">", "<", ">=", "<="}

// genExtreme derives the extreme programs of this run from the seed.
func genExtreme(r *hxlib.Rng, tier string, o *hxlib.Out) []progCase {
	var res []progCase
	add := func(x *xprog, name, src string, mult bool) {
		res = append(res, progCase{name: "extreme:" + name, src: src, extreme: x, usesDiv: textUsesDiv(src),
			usesMult: mult})
	}
	unreachable := func(class string) {
		o.Count("extreme_class_not_calibrated")
		o.Sample(map[string]any{"extreme_class_not_calibrated": class})
	}
	boundary := 1 << 16
	margin := func() int { return 300 + r.Intn(9000) }

	// ---- DEEP, narrow: a long dependent chain of 1..3-bit logic steps.  The
	// circuit is small (about one gate per level), so the proved checker, the
	// pass models and the sort model all run on it.
	deepChain := func(goal int, tag string) {
		// every step is a PERMUTATION of x for fixed a, b (x ^ g(a, b), ^x, or the
		// triangular x ^ ((x << 1) & a)): the whole chain is a permutation of
		// x0, so a step that reads anything but its predecessor's value changes
		// the result for some x0 (all inputs are enumerated: <= 9 input bits)
		// (about w gates per level: w <= 2 keeps the builder graph within the
		// size the pass-model tie dumps; the thorough tier also takes w = 3)
		w := 1 + r.Intn(2)
		if tier == "thorough" && tag != "" {
			w = 1 + r.Intn(3)
		}
		if w == 2 && goal < 2*boundary {
			goal = boundary + 300 + r.Intn(2700)
		}
		l := 8 + r.Intn(6)
		// (g(a, b) is computed once, outside the loop: one gate per bit and step)
		menu := []string{"x = x ^ b", "x = x ^ ab", "x = x ^ a", "x = x ^ ob", fmt.Sprintf("x = x ^ %d", 1<<uint(w)-1), "x = x ^ nb"}
		if w >= 2 {
			menu = append(menu, "x = x ^ ((x << 1) & a)", "x = x ^ ((x >> 1) & b)", "x = x ^ ((x << 1) & b)", "x = x ^ ((x >> 1) | a)")
		}
		var steps []string
		for i := 0; i < l; i++ {
			steps = append(steps, menu[r.Intn(len(menu))])
		}
		body := "\t\t" + strings.Join(steps, "\n\t\t") + "\n"
		mk := func(n int) string {
			return fmt.Sprintf("package main\n\nfunc main(x0, a, b uint%d) uint%d {\n\tx := x0\n\tab := a & b\n\tob := a | b\n\tnb := a &^ b\n\tfor i := 0; i < %d; i++ {\n%s\t}\n\treturn x\n}\n",
				w, w, n, body)
		}
		n, ok := calibrate(mk, xGMW, "depth", 16, 48, goal, 70000)
		if !ok {
			unreachable("deep-chain")
			return
		}
		add(&xprog{class: "deep-chain", param: fmt.Sprintf("uint%d steps=%d body={%s}", w, n, strings.Join(steps, "; ")),
			target: goal, dim: "depth-gmw"}, "deep-chain"+tag, mk(n), false)
	}
	// ---- DEEP, loop of compare-and-update steps on 16..64-bit values
	deepLoop := func(goal int, tag string) {
		w := []int{16, 32, 64}[r.Intn(3)]
		cmp := xCmpOps[r.Intn(len(xCmpOps))]
		arms := [][2]string{{"x - b", "x + a"}, {"x + b", "x - a"}, {"x ^ b", "x + a"}, {"x - a", "x + b"}}[r.Intn(4)]
		mk := func(n int) string {
			return fmt.Sprintf("package main\n\nfunc main(a, b uint%d) uint%d {\n\tx := a\n\tfor i := 0; i < %d; i++ {\n\t\tif x %s b {\n\t\t\tx = %s\n\t\t} else {\n\t\t\tx = %s\n\t\t}\n\t}\n\treturn x\n}\n",
				w, w, n, cmp, arms[0], arms[1])
		}
		n, ok := calibrate(mk, xGMW, "depth", 4, 12, goal, 20000)
		if !ok {
			unreachable("deep-loop")
			return
		}
		add(&xprog{class: "deep-loop", param: fmt.Sprintf("uint%d steps=%d if x %s b {%s} else {%s}", w, n, cmp, arms[0], arms[1]),
			target: goal, dim: "depth-gmw"}, "deep-loop"+tag, mk(n), false)
	}
	// ---- DEEP, one comparison of two very wide values (no loop): the
	// comparator is a carry chain through every bit
	deepWide := func(goal int, tag string) {
		cmp := xCmpOps[r.Intn(len(xCmpOps))]
		cmp2 := xCmpOps[r.Intn(len(xCmpOps))]
		variant := r.Intn(3)
		mk := func(n int) string {
			switch variant {
			case 0:
				return fmt.Sprintf("package main\n\nfunc main(a, b uint%d) uint%d {\n\tif a %s b {\n\t\treturn a\n\t}\n\treturn b\n}\n", n, n, cmp)
			case 1:
				return fmt.Sprintf("package main\n\nfunc main(a, b uint%d) uint%d {\n\tx := a\n\tif x %s b {\n\t\tx = x ^ b\n\t}\n\tif x %s a {\n\t\tx = x | b\n\t}\n\treturn x\n}\n",
					n, n, cmp, cmp2)
			default:
				return fmt.Sprintf("package main\n\nfunc main(a, b uint%d) (uint%d, bool) {\n\tc := a %s b\n\tif c {\n\t\treturn a &^ b, c\n\t}\n\treturn b, c\n}\n", n, n, cmp)
			}
		}
		n, ok := calibrate(mk, xGMW, "depth", 64, 192, goal, 200000)
		if !ok {
			unreachable("deep-wide")
			return
		}
		add(&xprog{class: "deep-wide", param: fmt.Sprintf("uint%d variant=%d cmp=%s,%s", n, variant, cmp, cmp2), target: goal, dim: "depth-gmw"},
			"deep-wide"+tag, mk(n), false)
	}
	// ---- DEEP under the Yao target only: ripple-carry arithmetic on very wide
	// values (the GMW target uses logarithmic-depth adders)
	deepYao := func(goal int, tag string) {
		op := []string{"+", "-"}[r.Intn(2)]
		mk := func(n int) string {
			return fmt.Sprintf("package main\n\nfunc main(a, b uint%d) uint%d {\n\treturn (a %s b) ^ a\n}\n", n, n, op)
		}
		n, ok := calibrate(mk, xYao, "depth", 64, 192, goal, 200000)
		if !ok {
			unreachable("deep-yao")
			return
		}
		add(&xprog{class: "deep-yao", param: fmt.Sprintf("uint%d a %s b", n, op), target: goal, dim: "depth-yao"}, "deep-yao"+tag, mk(n), false)
	}
	// ---- WIDE + FAN-OUT: one select bit steering every bit of a very wide value
	wideSelect := func(goal int, tag string) {
		k := r.Intn(200)
		ops := [][2]string{{"x ^ b", "x & b"}, {"x | b", "x &^ b"}, {"b", "x ^ b"}}[r.Intn(3)]
		mk := func(n int) string {
			return fmt.Sprintf("package main\n\nfunc main(a, b uint%d, c uint8) uint%d {\n\ts := c > %d\n\tx := a\n\tif s {\n\t\tx = %s\n\t} else {\n\t\tx = %s\n\t}\n\treturn x\n}\n",
				n, n, k, ops[0], ops[1])
		}
		n, ok := calibrate(mk, xGMW, "fanout", 64, 192, goal, 400000)
		if !ok {
			unreachable("wide-select")
			return
		}
		add(&xprog{class: "wide-select", param: fmt.Sprintf("uint%d s := c > %d; if s {%s} else {%s}", n, k, ops[0], ops[1]),
			target: goal, dim: "fanout"}, "wide-select"+tag, mk(n), false)
	}
	// ---- WIDE + FAN-OUT from the builders themselves: one division under the
	// GMW target (Goldschmidt divider) is hundreds of thousands of gates wide
	// before pruning; the divisor is forced non-zero
	wideDiv := func(tag string) {
		w := []int{20, 24, 28, 32}[r.Intn(4)]
		if tier == "thorough" {
			w = []int{32, 36, 40}[r.Intn(3)]
		}
		op := []string{"a / d", "a % d", "a/d + a%d"}[r.Intn(3)]
		src := fmt.Sprintf("package main\n\nfunc main(a, b uint%d) uint%d {\n\td := b | 1\n\treturn %s\n}\n", w, w, op)
		add(&xprog{class: "wide-div", param: fmt.Sprintf("uint%d %s", w, op), target: boundary, dim: "width"}, "wide-div"+tag, src, false)
	}
	// ---- repeated dependent multiplications (threshold axis on a big circuit)
	deepMul := func(tag string, steps int) {
		w := []int{16, 24, 32}[r.Intn(3)]
		src := fmt.Sprintf("package main\n\nfunc main(a, b uint%d) uint%d {\n\tx := a\n\tfor i := 0; i < %d; i++ {\n\t\tx = x * x + b\n\t}\n\treturn x\n}\n", w, w, steps)
		add(&xprog{class: "deep-mul", param: fmt.Sprintf("uint%d steps=%d x = x*x + b", w, steps)}, "deep-mul"+tag, src, true)
	}
	// ---- WIDE from many independent operations on array elements
	wideArray := func(tag string) {
		w := []int{32, 64}[r.Intn(2)]
		k := (boundary+margin())/w + 1
		op := []string{"a[i] & b[i] ^ a[i]", "a[i] | b[i]", "a[i] ^ b[i]"}[r.Intn(3)]
		src := fmt.Sprintf("package main\n\nfunc main(a, b [%d]uint%d) [%d]uint%d {\n\tvar r [%d]uint%d\n\tfor i := 0; i < %d; i++ {\n\t\tr[i] = %s\n\t}\n\treturn r\n}\n",
			k, w, k, w, k, w, k, op)
		add(&xprog{class: "wide-array", param: fmt.Sprintf("[%d]uint%d %s", k, w, op), target: boundary, dim: "width"}, "wide-array"+tag, src, false)
	}

	deepChain(boundary+margin(), "")
	deepWide(boundary+margin(), "")
	deepLoop(boundary+margin(), "")
	wideSelect(boundary+margin(), "")
	if tier == "thorough" {
		wideDiv("")
		deepYao(boundary+margin(), "")
		deepChain(boundary+margin(), "-2")
		deepChain(2*boundary+margin(), "-2^17") // also: fan-out of a and b beyond 2^16... (one use per step)
		deepWide(2*boundary+margin(), "-2^17")
		deepWide(boundary+margin(), "-2")
		deepLoop(boundary+margin(), "-2")
		deepLoop(2*boundary+margin(), "-2^17")
		wideSelect(2*boundary+margin(), "-2^17")
		wideDiv("-2")
		deepYao(2*boundary+margin(), "-2^17")
		deepMul("", 120)
		wideArray("")
	}
	return res
}

// correlatedWords fills 64 input vectors in which all arguments agree with
// the first argument above a per-lane cut position and are independent
// below it.  Carry chains (comparators, adders, subtractors) propagate a
// low-order difference to the result only through a run of equal high-order
// bits; independent random vectors decide every comparison at the top bit
// and never exercise the chain.  The cut positions cover all scales: half
// of the lanes uniform over the width, the others within 8 bits of either
// end.
func correlatedWords(r *hxlib.Rng, sizes []int, in []uint64) {
	for i := range in {
		in[i] = 0
	}
	if len(sizes) == 0 {
		return
	}
	maxsz := 0
	for _, sz := range sizes {
		if sz > maxsz {
			maxsz = sz
		}
	}
	for lane := 0; lane < 64; lane++ {
		var cut int
		switch lane % 4 {
		case 0, 1:
			cut = r.Intn(maxsz + 1)
		case 2:
			cut = r.Intn(9)
		default:
			cut = maxsz - r.Intn(9)
			if cut < 0 {
				cut = 0
			}
		}
		dens := lane / 4 % 3 // 0 uniform, 1 sparse, 2 dense
		bit := func() bool {
			switch dens {
			case 1:
				return r.U64()&7 == 0
			case 2:
				return r.U64()&7 != 0
			}
			return r.Bool()
		}
		first := make([]bool, sizes[0])
		ofs := 0
		for ai, sz := range sizes {
			for b := 0; b < sz; b++ {
				var v bool
				switch {
				case ai == 0:
					v = bit()
					first[b] = v
				case b >= cut && b < len(first):
					v = first[b]
				default:
					v = bit()
				}
				if v {
					in[ofs+b] |= 1 << uint(lane)
				}
			}
			ofs += sz
		}
	}
}

// extremeConfigs: the configurations an extreme program is compiled for:
// both targets with pruning off and on (index 0 = the base configuration of
// every other program), plus two multiplier thresholds when the program
// multiplies.
func extremeConfigs(pc progCase) []config {
	cs := []config{
		{"yao-thr0-prune0", false, utils.TargetYao, 0},
		{"yao-thr0-prune1", true, utils.TargetYao, 0},
		{"gmw-prune0", false, utils.TargetGMW, 0},
		{"gmw-prune1", true, utils.TargetGMW, 0},
	}
	if pc.usesMult {
		cs = append(cs, config{"yao-thr8-prune1", true, utils.TargetYao, 8}, config{"yao-thr64-prune0", false, utils.TargetYao, 64})
	}
	return cs
}

// noteShapes records the measured dimensions of every configuration of an
// extreme program and counts the boundaries crossed.
func noteShapes(o *hxlib.Out, pc progCase, cfgs []config, res []compiled, compileMs []int64) {
	rec := map[string]any{"prog": pc.name, "class": pc.extreme.class, "param": pc.extreme.param, "aims_at": pc.extreme.dim,
		"beyond": pc.extreme.target}
	shapes := map[string]any{}
	crossed := map[string]bool{}
	for i, c := range cfgs {
		if res[i].circ == nil {
			continue
		}
		s := shapeOf(res[i].circ)
		shapes[c.name] = map[string]any{"gates": s.Gates, "wires": s.Wires, "depth": s.Depth, "width": s.Width,
			"fanout": s.Fanout, "compile_ms": compileMs[i]}
		tn := "yao"
		if c.tgt == utils.TargetGMW {
			tn = "gmw"
		}
		for _, k := range []uint{16, 17} {
			b := 1 << k
			if s.Depth >= b {
				crossed[fmt.Sprintf("depth_%s_ge_2^%d", tn, k)] = true
			}
			if s.Width >= b {
				crossed[fmt.Sprintf("width_ge_2^%d", k)] = true
			}
			if s.Fanout >= b {
				crossed[fmt.Sprintf("fanout_ge_2^%d", k)] = true
			}
			if s.Wires >= b {
				crossed[fmt.Sprintf("wires_ge_2^%d", k)] = true
			}
		}
		if s.Gates >= 1<<20 {
			crossed["gates_ge_2^20"] = true
		}
		if s.Fanout >= 1<<20 {
			crossed["fanout_ge_2^20"] = true
		}
	}
	var ks []string
	for k := range crossed {
		ks = append(ks, k)
		o.Count("extreme_" + k)
	}
	sort.Strings(ks)
	rec["crossed"] = ks
	rec["shapes"] = shapes
	lst, _ := o.Meta["extreme"].([]any)
	o.Meta["extreme"] = append(lst, rec)
}

// extreme is the harness mode `c09 extreme`.
func extreme(args []string) int {
	cf, o := hxlib.ParseCommon("c09", args, nil)
	defer o.Close()
	devnull, _ := os.OpenFile(os.DevNull, os.O_WRONLY, 0)
	if devnull != nil {
		os.Stdout = devnull
	}
	// decorrelated from the equiv mode's generator
	rng := hxlib.NewRng(cf.Seed*0x9e3779b97f4a7c15 ^ 0xe87e3e)
	lim := limits{maxGatesSim: 8000000, maxGatesPair: 450000, maxGatesLevel: 320000, maxGatesTopo: 600000, randPasses: 4, simBudget: 400e6,
		maxInputsPair: 4096, skipRawStages: true, topoBaseGMW: true}
	// (a dumped graph is about 48 bytes per gate; hxlib caps a result line at 8 MB)
	maxDumpGates = 150000
	if cf.Tier == "thorough" {
		lim = limits{maxGatesSim: 40000000, maxGatesPair: 1200000, maxGatesLevel: 400000, maxGatesTopo: 8000000, randPasses: 8, simBudget: 4e9,
			maxInputsPair: 1 << 20}
		maxDumpGates = 150000
	}
	if cf.Only < 0 {
		emitChains(o, 12)
	}
	t0 := time.Now()
	cases := genExtreme(rng, cf.Tier, o)
	o.Meta["extreme_gen_ms"] = time.Since(t0).Milliseconds()
	var pairsMeta []map[string]any
	for idx, pc := range cases {
		if cf.Only >= 0 && idx != cf.Only {
			continue
		}
		t1 := time.Now()
		r := hxlib.NewRng(cf.Seed*1000003 + 7777 + uint64(idx))
		runProgram(o, r, idx, pc, lim, &pairsMeta)
		o.Count("extreme_programs")
		o.Count("extreme_class_" + pc.extreme.class)
		if lst, ok := o.Meta["extreme"].([]any); ok && len(lst) > 0 {
			if m, ok := lst[len(lst)-1].(map[string]any); ok && m["prog"] == pc.name {
				m["wall_ms"] = time.Since(t1).Milliseconds()
			}
		}
	}
	o.Meta["pairs"] = pairsMeta
	return 0
}

func probeFile(path string) {
	b, err := os.ReadFile(path)
	if err != nil {
		fmt.Fprintln(os.Stderr, err)
		return
	}
	for _, c := range extremeConfigs(progCase{}) {
		t0 := time.Now()
		r := compileReal(string(b), c)
		dt := time.Since(t0)
		if r.circ == nil {
			fmt.Fprintf(os.Stderr, "%s %s: %s (%v)\n", path, c.name, r.err, dt)
			continue
		}
		t0 = time.Now()
		s := shapeOf(r.circ)
		wf := wellFormed(r.circ)
		fmt.Fprintf(os.Stderr, "%s %s: compile %v shape %+v wf=%q (%v) nin=%d\n", path, c.name, dt, s, wf, time.Since(t0), r.circ.Inputs.Size())
	}
}

package main

// DIVISION programs and STRUCTURED division operands.
//
// The target axis of C09 for programs that divide rests on the quotient
// ESTIMATE of the GMW target's Goldschmidt divider being within one of the
// true quotient (C07: hypothesis `goldschmidt-estimate-within-one`; Lean:
// C09_program_target_equiv_div).  The estimate is a fixed-point reciprocal
// refined by a few iterations: its error grows with the QUOTIENT, so the
// inputs on which an imprecise estimate shows are a maximal (or top-bit-set)
// dividend with a SMALL divisor whose mantissa is badly seeded - a set of
// measure about 2^-w among the 2^(2w) operand pairs, which uniformly random
// and corner vectors never reach, and which does not exist at the widths that
// can be enumerated (<= 8 bits).  This file
//
//   - builds, for every program that divides, STRUCTURED operand vectors per
//     argument pair: dividends {2^w-1, 2^w-2, 2^(w-1), 2^(w-1)+-1, top-bit-set
//     random values, all-ones above a cut} x divisors {every value 1..4096,
//     2^k, 2^k+-1, runs of ones, values close to the top, values close to the
//     dividend and to its halves, random values of every length}; bit-parallel
//     simulation makes the tens of thousands of vectors cheap (divStructured,
//     called from runProgram);
//   - generates the DIVISION SWEEP (mode `divs`): division programs of several
//     forms (a/b and a%b, only one of them, mixed argument widths, a forced
//     non-zero divisor, the results combined, a constant divisor, a quotient
//     divided again, signed) at the widths 16, 24, 32, 48, 64 and seeded odd
//     widths, compiled for {Yao, GMW} x {prune off, on} with limits that keep
//     the (large) GMW divider circuits in the simulation;
//   - evaluates, for the forms whose meaning is known in closed form, the
//     hypothesis of C09_program_target_equiv_div on the real compiled
//     program: the GMW circuit's outputs on every structured vector against
//     the integer quotient / remainder (the correction step adds -1, 0 or +1
//     to the estimate, so the outputs are exact iff the estimate was within
//     one), and ties the Lean meaning (`ssaEval` of the form's step list,
//     `divInstances`) to the real circuits through `div` op lines.

import (
	"fmt"
	"math/big"
	"os"
	"runtime/debug"
	"strings"
	"sync"

	"github.com/markkurossi/mpc/circuit"
	"github.com/markkurossi/mpc/compiler/utils"

	"verifharness/hxlib"
)

type divSpec struct {
	form   string // qr, q, r, mixed, nz, expr, const, two, signed
	w, wb  int    // width of a (and of the results), width of b
	k      uint64 // the constant divisor of form `const`
	xop    string // the combining operator of form `expr`: add | xor
	inst   int    // unsigned divider instances (udiv / umod steps) of one run
	signed bool
	// want: the meaning of the program on the argument bit patterns (a, b),
	// one value per output (reduced to the output width by the caller); nil
	// when b makes a divisor zero
	want func(a, b *big.Int) []*big.Int
}

var bigOne = big.NewInt(1)

func bmask(n int) *big.Int {
	return new(big.Int).Sub(new(big.Int).Lsh(bigOne, uint(n)), bigOne)
}

func toSigned(v *big.Int, w int) *big.Int {
	if v.Bit(w-1) == 1 {
		return new(big.Int).Sub(v, new(big.Int).Lsh(bigOne, uint(w)))
	}
	return new(big.Int).Set(v)
}

// mkDivProgram renders one sweep program and its meaning.
func mkDivProgram(form string, w, wb int, k uint64, xop string) (string, string, *divSpec) {
	d := &divSpec{form: form, w: w, wb: wb, k: k, xop: xop}
	ut := fmt.Sprintf("uint%d", w)
	m := bmask(w)
	q := func(a, b *big.Int) *big.Int { return new(big.Int).Quo(a, b) }
	r := func(a, b *big.Int) *big.Int { return new(big.Int).Rem(a, b) }
	var src, probe string
	hdr := "package main\n\n"
	switch form {
	case "qr":
		src = fmt.Sprintf("%sfunc main(a, b %s) (%s, %s) {\n\treturn a / b, a %% b\n}\n", hdr, ut, ut, ut)
		probe = fmt.Sprintf("%sfunc main(a, b %s) %s {\n\treturn b\n}\n", hdr, ut, ut)
		d.inst = 2
		d.want = func(a, b *big.Int) []*big.Int {
			if b.Sign() == 0 {
				return nil
			}
			return []*big.Int{q(a, b), r(a, b)}
		}
	case "q":
		src = fmt.Sprintf("%sfunc main(a, b %s) %s {\n\treturn a / b\n}\n", hdr, ut, ut)
		probe = fmt.Sprintf("%sfunc main(a, b %s) %s {\n\treturn b\n}\n", hdr, ut, ut)
		d.inst = 1
		d.want = func(a, b *big.Int) []*big.Int {
			if b.Sign() == 0 {
				return nil
			}
			return []*big.Int{q(a, b)}
		}
	case "r":
		src = fmt.Sprintf("%sfunc main(a, b %s) %s {\n\treturn a %% b\n}\n", hdr, ut, ut)
		probe = fmt.Sprintf("%sfunc main(a, b %s) %s {\n\treturn b\n}\n", hdr, ut, ut)
		d.inst = 1
		d.want = func(a, b *big.Int) []*big.Int {
			if b.Sign() == 0 {
				return nil
			}
			return []*big.Int{r(a, b)}
		}
	case "mixed":
		bt := fmt.Sprintf("uint%d", wb)
		src = fmt.Sprintf("%sfunc main(a %s, b %s) (%s, %s) {\n\treturn a / %s(b), a %% %s(b)\n}\n", hdr, ut, bt, ut, ut, ut, ut)
		probe = fmt.Sprintf("%sfunc main(a %s, b %s) %s {\n\treturn b\n}\n", hdr, ut, bt, bt)
		d.inst = 2
		d.want = func(a, b *big.Int) []*big.Int {
			if b.Sign() == 0 {
				return nil
			}
			return []*big.Int{q(a, b), r(a, b)}
		}
	case "nz":
		src = fmt.Sprintf("%sfunc main(a, b %s) (%s, %s) {\n\td := b | 1\n\treturn a / d, a %% d\n}\n", hdr, ut, ut, ut)
		d.inst = 2
		d.want = func(a, b *big.Int) []*big.Int {
			dv := new(big.Int).Or(b, bigOne)
			return []*big.Int{q(a, dv), r(a, dv)}
		}
	case "expr":
		op := "+"
		if xop == "xor" {
			op = "^"
		}
		src = fmt.Sprintf("%sfunc main(a, b %s) %s {\n\treturn (a / b) %s (a %% b)\n}\n", hdr, ut, ut, op)
		probe = fmt.Sprintf("%sfunc main(a, b %s) %s {\n\treturn b\n}\n", hdr, ut, ut)
		d.inst = 2
		d.want = func(a, b *big.Int) []*big.Int {
			if b.Sign() == 0 {
				return nil
			}
			if xop == "xor" {
				return []*big.Int{new(big.Int).Xor(q(a, b), r(a, b))}
			}
			return []*big.Int{new(big.Int).And(new(big.Int).Add(q(a, b), r(a, b)), m)}
		}
	case "const":
		src = fmt.Sprintf("%sfunc main(a, b %s) (%s, %s) {\n\treturn a / %s(%d), (a ^ b) %% %s(%d)\n}\n", hdr, ut, ut, ut, ut, k, ut, k)
		d.inst = 2
		kv := new(big.Int).SetUint64(k)
		d.want = func(a, b *big.Int) []*big.Int {
			return []*big.Int{q(a, kv), r(new(big.Int).Xor(a, b), kv)}
		}
	case "two":
		src = fmt.Sprintf("%sfunc main(a, b %s) (%s, %s) {\n\tq := a / b\n\treturn q / b, q %% b\n}\n", hdr, ut, ut, ut)
		probe = fmt.Sprintf("%sfunc main(a, b %s) %s {\n\treturn b\n}\n", hdr, ut, ut)
		d.inst = 3
		d.want = func(a, b *big.Int) []*big.Int {
			if b.Sign() == 0 {
				return nil
			}
			q1 := q(a, b)
			return []*big.Int{q(q1, b), r(q1, b)}
		}
	case "signed":
		it := fmt.Sprintf("int%d", w)
		d.signed = true
		src = fmt.Sprintf("%sfunc main(a, b %s) (%s, %s) {\n\treturn a / b, a %% b\n}\n", hdr, it, it, it)
		probe = fmt.Sprintf("%sfunc main(a, b %s) %s {\n\treturn b\n}\n", hdr, it, it)
		// MPCL: the quotient truncates towards zero, the remainder is |a| mod |b|
		// (testsuite/lang/divi.mpcl, modi.mpcl; Lean: evalOp .idiv / .imod)
		d.want = func(a, b *big.Int) []*big.Int {
			if b.Sign() == 0 {
				return nil
			}
			sa, sb := toSigned(a, w), toSigned(b, w)
			qq := new(big.Int).Quo(sa, sb)
			rr := new(big.Int).Rem(new(big.Int).Abs(sa), new(big.Int).Abs(sb))
			return []*big.Int{qq.And(qq, m), rr.And(rr, m)}
		}
	}
	return src, probe, d
}

// genDivSweep derives the division programs of this run from the seed: the
// canonical form (quotient and remainder) at the widths 16, 24, 32, 48, 64 and
// seeded further programs (odd widths, the other forms).
func genDivSweep(r *hxlib.Rng, tier string) []progCase {
	var res []progCase
	seen := map[string]bool{}
	add := func(form string, w, wb int, k uint64, xop string) {
		name := fmt.Sprintf("div:%s-w%d", form, w)
		if form == "mixed" {
			name += fmt.Sprintf("-b%d", wb)
		}
		if form == "const" {
			name += fmt.Sprintf("-k%d", k)
		}
		if form == "expr" {
			name += "-" + xop
		}
		if seen[name] {
			return
		}
		seen[name] = true
		if wb == 0 {
			wb = w
		}
		src, probe, d := mkDivProgram(form, w, wb, k, xop)
		res = append(res, progCase{name: name, src: src, probeSrc: probe, usesDiv: true, div: d})
	}
	for _, w := range []int{16, 24, 32, 48, 64} {
		add("qr", w, w, 0, "")
	}
	oddWidth := func(lo, hi int) int {
		w := lo + r.Intn(hi-lo+1)
		if w%2 == 0 {
			w++
		}
		if w > hi {
			w -= 2
		}
		return w
	}
	anyWidth := func() int { return []int{16, 20, 24, 28, 32, 33, 36, 40, 48, 56, 63, 64}[r.Intn(12)] }
	other := func() {
		w := anyWidth()
		switch r.Intn(5) {
		case 0:
			add("nz", w, w, 0, "")
		case 1:
			add("expr", w, w, 0, []string{"add", "xor"}[r.Intn(2)])
		case 2:
			add("const", w, w, uint64(3+r.Intn(4094)), "")
		case 3:
			add("two", w, w, 0, "")
		default:
			add("mixed", w, 2+r.Intn(w-2), 0, "")
		}
	}
	nOdd, nSigned, nOther := 1, 1, 1
	if tier == "thorough" {
		nOdd, nSigned, nOther = 5, 3, 6
	}
	for i := 0; i < nOdd; i++ {
		add([]string{"qr", "q", "r", "qr"}[r.Intn(4)], oddWidth(17, 63), 0, 0, "")
	}
	for i := 0; i < nSigned; i++ {
		w := []int{16, 24, 32, 33, 48, 64}[r.Intn(6)]
		if tier != "thorough" {
			w = []int{16, 24, 32, 33, 40}[r.Intn(5)]
		}
		add("signed", w, w, 0, "")
	}
	for i := 0; i < nOther; i++ {
		other()
	}
	return res
}

// genWideDiv: a random program (generator of gen.go: statements, if / else,
// loops, the whole operator mix) of a width that cannot be enumerated, with
// division allowed everywhere and a result that divides an expression of a by
// a (forced non-zero) expression of b: the division results feed other
// operators, conditions and assignments.
func genWideDiv(r *hxlib.Rng, tier string) *program {
	p := &program{feats: map[string]bool{}}
	p.signed = r.Intn(4) == 0
	g := &gen{r: r, p: p, allowD: true}
	ws := []int{12, 16, 17, 20, 24, 31, 32}
	if tier == "thorough" {
		ws = append(ws, 33, 40, 48)
	}
	p.bits = ws[r.Intn(len(ws))]
	p.bbits = p.bits
	if r.Intn(4) == 0 {
		p.bbits = 2 + r.Intn(p.bits-1)
	}
	p.stmts = g.block(1+r.Intn(3), 0, true)
	one := &expr{op: "cast", leaf: p.typ(), l: leaf("1")}
	bv := leaf("b")
	if p.bbits != p.bits {
		bv = &expr{op: "cast", leaf: p.typ(), l: leaf("b")}
	}
	var num, den *expr
	switch r.Intn(4) {
	case 0:
		num, den = leaf("a"), bv
	case 1:
		num, den = &expr{op: "^", l: leaf("a"), r: g.value(1)}, bv
	case 2:
		num, den = leaf("a"), &expr{op: []string{"+", "^", "|"}[r.Intn(3)], l: bv, r: g.constant()}
	default:
		num, den = g.value(1), g.value(1)
	}
	den = &expr{op: "|", l: den, r: one}
	p.feats["/"] = true
	p.rets = []*expr{{op: "/", l: num, r: den}}
	p.retTypes = []string{p.typ()}
	if r.Bool() {
		p.feats["%"] = true
		p.rets = append(p.rets, &expr{op: "%", l: num, r: den})
		p.retTypes = append(p.retTypes, p.typ())
	}
	if len(g.vars) > 0 && r.Bool() {
		p.rets = append(p.rets, leaf(g.vars[len(g.vars)-1]))
		p.retTypes = append(p.retTypes, p.typ())
	}
	return p
}

// divClasses: the structured dividends of width wa and divisors of width wb
// (all non-zero), in a fixed order, deduplicated.  counts receives how many
// values each class contributed.
func divClasses(r *hxlib.Rng, wa, wb int, tier string, counts map[string]int) (dividends, divisors []*big.Int) {
	ma, mb := bmask(wa), bmask(wb)
	add := func(list *[]*big.Int, seen map[string]bool, m *big.Int, class string, v *big.Int, nonZero bool) {
		v = new(big.Int).And(v, m)
		if v.Sign() < 0 || (nonZero && v.Sign() == 0) {
			return
		}
		key := v.Text(16)
		if seen[key] {
			return
		}
		seen[key] = true
		*list = append(*list, v)
		counts[class]++
	}
	pow := func(k int) *big.Int { return new(big.Int).Lsh(bigOne, uint(k)) }
	rnd := func(bitsN int) *big.Int {
		if bitsN <= 0 {
			return new(big.Int)
		}
		v := new(big.Int).SetBytes(r.Bytes((bitsN + 7) / 8))
		return v.And(v, bmask(bitsN))
	}
	// ---- dividends
	sa := map[string]bool{}
	ad := func(class string, v *big.Int) { add(&dividends, sa, ma, class, v, false) }
	ad("dividend_all_ones", ma)
	ad("dividend_all_ones_minus_1", new(big.Int).Sub(ma, bigOne))
	if wa >= 2 {
		ad("dividend_top_bit", pow(wa-1))
		ad("dividend_top_bit_plus_1", new(big.Int).Add(pow(wa-1), bigOne))
		ad("dividend_top_bit_minus_1", new(big.Int).Sub(pow(wa-1), bigOne))
	}
	nrand := 2
	if tier == "thorough" {
		nrand = 6
	}
	for i := 0; i < nrand; i++ {
		ad("dividend_random_top_bit_set", new(big.Int).Or(rnd(wa), pow(wa-1)))
	}
	if wa >= 3 {
		// all ones above a cut, random below
		cut := 1 + r.Intn(wa-1)
		v := new(big.Int).Xor(ma, bmask(cut))
		ad("dividend_ones_above_cut", v.Or(v, rnd(cut)))
		ad("dividend_random_length", rnd(wa/2+r.Intn(wa/2+1)))
	}
	// ---- divisors
	sb := map[string]bool{}
	dv := func(class string, v *big.Int) { add(&divisors, sb, mb, class, v, true) }
	small := 4096
	if wb < 13 {
		small = 1<<uint(wb) - 1
	}
	for k := 1; k <= small; k++ {
		dv("divisor_small_1_4096", big.NewInt(int64(k)))
	}
	for k := 0; k < wb; k++ {
		dv("divisor_pow2", pow(k))
		dv("divisor_pow2_minus_1", new(big.Int).Sub(pow(k), bigOne))
		dv("divisor_pow2_plus_1", new(big.Int).Add(pow(k), bigOne))
	}
	// runs of ones (2^j - 1) << i; all of them while there are few, a seeded
	// sample (plus every run that starts at bit 0 or ends at the top) otherwise
	total := wb * (wb + 1) / 2
	for i := 0; i < wb; i++ {
		for j := 2; i+j <= wb; j++ {
			if total > 1400 && i != 0 && i+j != wb && r.Intn(total) >= 1400 {
				continue
			}
			dv("divisor_run_of_ones", new(big.Int).Lsh(bmask(j), uint(i)))
		}
	}
	for k := 1; k <= 64; k++ {
		dv("divisor_close_to_top", new(big.Int).Sub(pow(wb), big.NewInt(int64(k))))
	}
	nr := 96
	if tier == "thorough" {
		nr = 512
	}
	for i := 0; i < nr; i++ {
		dv("divisor_random_length", rnd(1+r.Intn(wb)))
	}
	return dividends, divisors
}

// closeDivisors: divisors tied to one dividend (the dividend itself, its
// neighbours, its halves and thirds and their neighbours).
func closeDivisors(d *big.Int, wb int) []*big.Int {
	mb := bmask(wb)
	var res []*big.Int
	seen := map[string]bool{}
	add := func(v *big.Int) {
		if v.Sign() <= 0 || v.Cmp(mb) > 0 || seen[v.Text(16)] {
			return
		}
		seen[v.Text(16)] = true
		res = append(res, v)
	}
	for _, base := range []*big.Int{d, new(big.Int).Rsh(d, 1), new(big.Int).Rsh(d, 2), new(big.Int).Quo(d, big.NewInt(3)),
		new(big.Int).Rsh(d, uint(wb/2)), new(big.Int).Sqrt(d)} {
		for dd := int64(-2); dd <= 2; dd++ {
			add(new(big.Int).Add(base, big.NewInt(dd)))
		}
	}
	return res
}

// packVectors packs operand pairs (argument 0, argument 1) into bit-parallel
// passes of 64 lanes; further arguments are zero in even passes and random in
// odd ones.  A last incomplete pass repeats its last pair.
func packVectors(r *hxlib.Rng, pairs [][2]*big.Int, sizes []int, nin int) [][]uint64 {
	var passes [][]uint64
	for p := 0; p*64 < len(pairs); p++ {
		in := make([]uint64, nin)
		for lane := 0; lane < 64; lane++ {
			k := p*64 + lane
			if k >= len(pairs) {
				k = len(pairs) - 1
			}
			ofs := 0
			for ai, sz := range sizes {
				if ai < 2 {
					v := pairs[k][ai]
					for b := 0; b < sz && b < v.BitLen(); b++ {
						if v.Bit(b) == 1 {
							in[ofs+b] |= 1 << uint(lane)
						}
					}
				}
				ofs += sz
			}
		}
		if len(sizes) > 2 && p%2 == 1 {
			ofs := sizes[0] + sizes[1]
			for i := ofs; i < nin; i++ {
				in[i] = r.U64()
			}
		}
		passes = append(passes, in)
	}
	return passes
}

func laneValue(words []uint64, ofs, sz, lane int) *big.Int {
	v := new(big.Int)
	for b := 0; b < sz; b++ {
		if (words[ofs+b]>>uint(lane))&1 == 1 {
			v.SetBit(v, b, 1)
		}
	}
	return v
}

type divHit struct {
	pass, lane int
}

// divStructured: the structured division vectors of one program, every
// simulated configuration against the base configuration; for a sweep program
// with a closed-form meaning also every output against the meaning, and the
// `div` op line for the Lean model.
func divStructured(o *hxlib.Out, r *hxlib.Rng, idx int, pc progCase, cfgs []config, res []compiled, sim []int, sizes []int,
	probe *circuit.Circuit, lim limits, tier string, failed, divZeroSeen map[int]bool, illFormed map[int]string) {
	base := res[sim[0]].circ
	nin := base.Inputs.Size()
	if len(sizes) == 0 || nin == 0 {
		return
	}
	wa := sizes[0]
	wb := wa
	if len(sizes) >= 2 {
		wb = sizes[1]
	}
	counts := map[string]int{}
	dividends, divisors := divClasses(r, wa, wb, tier, counts)
	var pairs [][2]*big.Int
	// the full divisor set for the first dividends (all ones, all ones - 1, top
	// bit, a random top-bit-set value); for the further dividends every fourth
	// class divisor (a different residue each) and the divisors tied to the
	// dividend.  (The estimate's absolute error grows with the quotient: all
	// top-heavy dividends meet the same small divisors.)
	fullFor := 4
	if tier == "thorough" {
		fullFor = 8
	}
	firstBlock := len(divisors)
	if len(sizes) >= 2 {
		for di, d := range dividends {
			for vi, v := range divisors {
				if di >= fullFor && vi%4 != di%4 {
					continue
				}
				pairs = append(pairs, [2]*big.Int{d, v})
			}
			for _, v := range closeDivisors(d, wb) {
				pairs = append(pairs, [2]*big.Int{d, v})
				counts["divisor_close_to_dividend"]++
			}
		}
	} else {
		// one argument (a constant divisor or dividend): every class value
		for _, d := range append(dividends, divisors...) {
			if d.BitLen() <= wa {
				pairs = append(pairs, [2]*big.Int{d, new(big.Int)})
			}
		}
		firstBlock = len(pairs)
	}
	// (configurations above 1.5M gates get a pass stride of their own below)
	total := 0
	for _, i := range sim {
		if g := len(res[i].circ.Gates); g <= 1500000 {
			total += g
		}
	}
	// budget: all pairs of the first dividend, an even sample of the rest
	maxPairs := lim.divBudget / (total + 1) * 64
	if maxPairs < 64 {
		maxPairs = 64
	}
	if len(pairs) > maxPairs {
		first := len(divisors)
		if first > maxPairs || len(sizes) < 2 {
			first = maxPairs
		}
		kept := append([][2]*big.Int(nil), pairs[:first]...)
		rest := pairs[first:]
		want := maxPairs - first
		for k := 0; k < want && len(rest) > 0; k++ {
			kept = append(kept, rest[k*len(rest)/want])
		}
		pairs = kept
		o.Count("div_programs_vector_budget_capped")
	}
	ins := packVectors(r, pairs, sizes, nin)
	np := len(ins)
	// base outputs and division-by-zero lanes of every pass
	scratch := make([]uint64, maxWires(res, sim, probe))
	baseOut := make([][]uint64, np)
	zeroDiv := make([]uint64, np)
	for p, in := range ins {
		baseOut[p] = append([]uint64(nil), simPass(base, in, scratch)...)
		if probe != nil {
			po := simPass(probe, in, scratch)
			ofs := 0
			for _, sz := range argSizes(probe.Outputs) {
				var nz uint64
				for b := 0; b < sz; b++ {
					nz |= po[ofs+b]
				}
				zeroDiv[p] |= ^nz
				ofs += sz
			}
		}
	}
	o.CountN("sim_vectors", 64*np)
	o.CountN("div_vectors", len(pairs))
	o.Count("div_programs_structured")
	for k, v := range counts {
		o.CountN("div_class_"+k, v)
	}
	// every other configuration, in parallel
	type cfgRes struct {
		real, zero *divHit
		outs       [][]uint64 // kept for the configuration named by keepOuts
	}
	results := make([]cfgRes, len(cfgs))
	keep := -1
	if pc.div != nil {
		for _, i := range sim[1:] {
			if cfgs[i].tgt == utils.TargetGMW && cfgs[i].prune {
				keep = i
			}
		}
	}
	strided := make([]int, len(cfgs))
	var wg sync.WaitGroup
	sem := make(chan struct{}, 4)
	for _, i := range sim[1:] {
		if failed[i] && i != keep {
			continue
		}
		wg.Add(1)
		go func(i int) {
			defer wg.Done()
			sem <- struct{}{}
			defer func() { <-sem }()
			c := res[i].circ
			sc := make([]uint64, c.NumWires)
			cr := &results[i]
			// a configuration whose circuit is too large for every pass within
			// the budget (the unpruned GMW divider: millions of gates) gets the
			// whole first dividend and every stride-th pass after it
			stride := 1
			if i != keep && len(c.Gates)*np > lim.divBudget/4 {
				stride = (len(c.Gates)*np + lim.divBudget/4 - 1) / (lim.divBudget / 4)
			}
			for p, in := range ins {
				if cr.real != nil && i != keep {
					break
				}
				if stride > 1 && p*64 >= firstBlock && p%stride != 0 {
					continue
				}
				strided[i]++
				out := simPass(c, in, sc)
				if i == keep {
					cr.outs = append(cr.outs, append([]uint64(nil), out...))
				}
				if cr.real != nil {
					continue
				}
				var diff uint64
				for k := range out {
					diff |= baseOut[p][k] ^ out[k]
				}
				if diff == 0 {
					continue
				}
				realDiff := diff
				if cfgs[i].tgt != cfgs[sim[0]].tgt {
					realDiff = diff &^ zeroDiv[p]
				}
				if realDiff != 0 {
					cr.real = &divHit{p, lowestLane(realDiff)}
				} else if cr.zero == nil {
					cr.zero = &divHit{p, lowestLane(diff)}
				}
			}
		}(i)
	}
	wg.Wait()
	for _, i := range sim[1:] {
		o.CountN("sim_config_vectors", 64*strided[i])
		if strided[i] < np && !failed[i] && results[i].real == nil {
			o.Count("div_config_pass_sampled")
		}
		cr := results[i]
		if cr.real != nil && !failed[i] {
			failed[i] = true
			x := laneBits(ins[cr.real.pass], cr.real.lane)
			reportMismatch(o, idx, pc, cfgs[sim[0]], cfgs[i], base, res[i].circ, x, sizes, false, illFormed[i])
			o.Count("div_structured_mismatch")
		} else if cr.zero != nil && !divZeroSeen[i] && !failed[i] {
			divZeroSeen[i] = true
			x := laneBits(ins[cr.zero.pass], cr.zero.lane)
			reportMismatch(o, idx, pc, cfgs[sim[0]], cfgs[i], base, res[i].circ, x, sizes, true, illFormed[i])
		}
	}
	if pc.div == nil || pc.div.want == nil {
		return
	}
	// ---- meaning: the base (Yao) outputs and the GMW outputs against the
	// integer quotient / remainder.  An exact GMW output is an instance of the
	// estimate hypothesis (the correction adds -1, 0 or +1 to the estimate).
	d := pc.div
	outSizes := argSizes(base.Outputs)
	var opPairs, opOuts []string
	badBase, badGMW := 0, 0
	for k, pr := range pairs {
		p, lane := k/64, k%64
		want := d.want(pr[0], pr[1])
		if want == nil {
			continue
		}
		ofs := 0
		okBase, okGMW := true, true
		var gv []string
		for j, sz := range outSizes {
			wv := new(big.Int).And(want[j], bmask(sz))
			if laneValue(baseOut[p], ofs, sz, lane).Cmp(wv) != 0 {
				okBase = false
			}
			if keep >= 0 {
				g := laneValue(results[keep].outs[p], ofs, sz, lane)
				if g.Cmp(wv) != 0 {
					okGMW = false
				}
				gv = append(gv, g.String())
			}
			ofs += sz
		}
		report := func(ci int, sig string) {
			x := laneBits(ins[p], lane)
			var ws []string
			for j, sz := range outSizes {
				ws = append(ws, new(big.Int).And(want[j], bmask(sz)).String())
			}
			c := res[ci].circ
			o.Fail(sig, map[string]any{"case": idx, "prog": pc.name, "src": pc.src, "config_a": cfgs[sim[0]].name,
				"config_b": cfgs[ci].name, "x": hxlib.BitsString(x), "args": argsString(x, sizes),
				"want": strings.Join(ws, ","), "out_b": outValues(c, x), "out_b_bits": realCompute(c, x),
				"target": cfgs[ci].tgt.String(), "form": d.form, "width": d.w,
				"what": "the compiled circuit's outputs are not the integer quotient / remainder of this input",
				"replay": "c09 replay <this file>: compiles src for config_a and config_b, runs Circuit.Compute on x and compares with `want`"})
		}
		if !okBase {
			if badBase == 0 {
				report(sim[0], "c09-div-meaning")
			}
			badBase++
		}
		if keep >= 0 {
			o.CountN("div_hypothesis_instances_evaluated", d.inst)
			if okGMW {
				o.CountN("div_hypothesis_instances_hold", d.inst)
			} else {
				if badGMW == 0 {
					report(keep, "c09-div-estimate-not-within-one")
				}
				badGMW++
			}
			// op line sample: the whole first dividend, every 8th pair after it
			if k < firstBlock || k%8 == 0 {
				opPairs = append(opPairs, pr[0].String()+":"+pr[1].String())
				opOuts = append(opOuts, strings.Join(gv, "."))
			}
		}
	}
	o.CountN("div_meaning_vectors", len(pairs))
	if badBase > 0 {
		o.CountN("div_meaning_wrong_base", badBase)
	}
	if badGMW > 0 {
		o.CountN("div_meaning_wrong_gmw", badGMW)
	}
	if keep >= 0 && len(opPairs) > 0 {
		xop := d.xop
		if xop == "" {
			xop = "-"
		}
		o.Op(fmt.Sprintf("c09 div %s|%s %s %d %d %d %s %s", strings.ReplaceAll(pc.name, " ", "_"), cfgs[keep].name, d.form, d.w, d.wb, d.k, xop,
			strings.Join(opPairs, ",")), fmt.Sprintf("inst=%d;out=%s", d.inst, strings.Join(opOuts, ",")))
		o.Count("div_ops")
		o.CountN("div_op_vectors", len(opPairs))
	}
}

func maxWires(res []compiled, sim []int, probe *circuit.Circuit) int {
	m := 0
	for _, i := range sim {
		if res[i].circ.NumWires > m {
			m = res[i].circ.NumWires
		}
	}
	if probe != nil && probe.NumWires > m {
		m = probe.NumWires
	}
	return m
}

// outValues: Circuit.Compute's outputs as decimal numbers.
func outValues(c *circuit.Circuit, x []bool) (s string) {
	defer func() {
		if e := recover(); e != nil {
			s = "panic"
		}
	}()
	outs, err := c.Compute(splitArgs(x, argSizes(c.Inputs)))
	if err != nil {
		return "error"
	}
	var parts []string
	for _, v := range outs {
		parts = append(parts, v.String())
	}
	return strings.Join(parts, ",")
}

// divs is the harness mode `c09 divs`: the division sweep.
func divs(args []string) int {
	cf, o := hxlib.ParseCommon("c09", args, nil)
	defer o.Close()
	devnull, _ := os.OpenFile(os.DevNull, os.O_WRONLY, 0)
	if devnull != nil {
		os.Stdout = devnull
	}
	// decorrelated from the other modes' generators
	rng := hxlib.NewRng(cf.Seed*0x9e3779b97f4a7c15 ^ 0xd171de)
	lim := limits{maxGatesSim: 6000000, maxGatesPair: 60000, maxGatesLevel: 12000, maxGatesTopo: 120000, randPasses: 4, simBudget: 400e6,
		maxInputsPair: 1 << 20, skipRawStages: true, topoBaseGMW: true, divBudget: 2e9, tier: cf.Tier}
	if cf.Tier == "thorough" {
		lim = limits{maxGatesSim: 40000000, maxGatesPair: 120000, maxGatesLevel: 40000, maxGatesTopo: 300000, randPasses: 16, simBudget: 3e9,
			maxInputsPair: 1 << 20, topoBaseGMW: true, divBudget: 30e9, tier: cf.Tier}
	}
	// (the GMW divider's builder graph is garbage after Compile: fewer collections)
	debug.SetGCPercent(300)
	cases := genDivSweep(rng, cf.Tier)
	nsweep := len(cases)
	ngen := 2
	if cf.Tier == "thorough" {
		ngen = 8
	}
	for i := 0; i < ngen; i++ {
		p := genWideDiv(rng.Fork(), cf.Tier)
		cases = append(cases, progCase{name: fmt.Sprintf("divgen:%d", i), src: p.source(false), gen: p, usesDiv: true, usesMult: p.feats["*"],
			wideDiv: true})
	}
	var pairsMeta []map[string]any
	var progs []any
	for idx, pc := range cases {
		if cf.Only >= 0 && idx != cf.Only {
			continue
		}
		r := hxlib.NewRng(cf.Seed*1000003 + 424243 + uint64(idx))
		runProgram(o, r, idx, pc, lim, &pairsMeta)
		if idx >= nsweep {
			o.Count("divgen_programs")
			progs = append(progs, map[string]any{"prog": pc.name, "src": clip(pc.src, 700)})
			continue
		}
		o.Count("div_programs")
		o.Count("div_form_" + pc.div.form)
		o.Count(fmt.Sprintf("div_width_%d", pc.div.w))
		if pc.div.w >= 32 {
			o.Count("div_programs_width_ge_32")
		}
		progs = append(progs, pc.name)
	}
	o.Meta["pairs"] = pairsMeta
	o.Meta["div_programs"] = progs
	return 0
}
